import ZV.Model.C28
import ZV.Proofs.C28
import ZV.Proofs.C28Ext
/-!
  C28 — ClientHello: inversion of `parseCH` (fixed part + extension block framing) and of every arm of the extension
  switch `chExt` (shape of the extension data on the wire, the ONE field it changes, all others unchanged).
-/
namespace ZV.C28

/-! ### wire shapes of the ClientHello extensions that reach the log -/

/-- `d` = len(2, BE) ‖ body,  body non-empty and of even length (a uint16 list) -/
def U16ListExt (d : Bytes) : Prop :=
  ∃ a b body, d = a :: b :: body ∧ u16 a b = body.length ∧ body ≠ [] ∧ body.length % 2 = 0

/-- `d` = len(1) ‖ body,  body non-empty and of even length (supported_versions) -/
def U8ListExt (d : Bytes) : Prop :=
  ∃ a body, d = a :: body ∧ a.toNat = body.length ∧ body ≠ [] ∧ body.length % 2 = 0

/-- ALPN: `d` = len(2) ‖ list,  list non-empty = len(1)‖proto …, every proto non-empty -/
def AlpnExt (d : Bytes) (protos : List Bytes) : Prop :=
  ∃ a b pl, d = a :: b :: pl ∧ u16 a b = pl.length ∧ pl ≠ [] ∧ Framed8s pl protos ∧ ∀ s ∈ protos, s ≠ []

/-- server_name: `d` = len(2) ‖ list,  list non-empty = type(1)‖len(2)‖name …, every name non-empty -/
def SniExt (d : Bytes) (ents : List (Nat × Bytes)) : Prop :=
  ∃ a b nl, d = a :: b :: nl ∧ u16 a b = nl.length ∧ nl ≠ [] ∧ FramedSNI nl ents

/-- status_request: `d` = status_type(1) ‖ len(2)‖responder_id_list ‖ len(2)‖request_extensions -/
def OcspExt (d : Bytes) : Prop :=
  ∃ st a b rid c e exts, d = st :: a :: b :: (rid ++ c :: e :: exts) ∧ u16 a b = rid.length ∧ u16 c e = exts.length

/-- the logged OCSP flag: status_type = 1 (ocsp) -/
def ocspStatusIs1 : Bytes → Bool
  | st :: _ => decide (st.toNat = 1)
  | [] => false

/-! ### one lemma per arm of the switch -/

theorem chExt_sni {m m' : CHMsg} {d : Bytes} {l : Bool} (h : chExt m 0 d l = some m') :
    ∃ ents, SniExt d ents ∧ sniPick m.sni ents = some m'.sni ∧ m' = { m with sni := m'.sni } := by
  simp only [chExt, if_true] at h
  match h1 : wholeVec16 d, h with
  | some nl, h =>
    simp only at h
    by_cases he : nl.isEmpty = true
    · rw [if_pos he] at h; cases h
    rw [if_neg he] at h
    match h2 : sniEntries nl, h with
    | some ents, h =>
      simp only at h
      match h3 : sniPick m.sni ents, h with
      | some n, h =>
        simp only [Option.some.injEq] at h
        subst h
        obtain ⟨a, b, rfl, hl⟩ := wholeVec16_spec h1
        exact ⟨ents, ⟨a, b, nl, rfl, hl, isEmpty_false_ne_nil he, sniEntries_framed nl ents h2⟩, h3, rfl⟩

theorem chExt_ocsp {m m' : CHMsg} {d : Bytes} {l : Bool} (h : chExt m 5 d l = some m') :
    OcspExt d ∧ m' = { m with ocsp := ocspStatusIs1 d } := by
  simp only [chExt, Nat.reduceEqDiff, if_false, if_true] at h
  match h1 : readU8 d, h with
  | some (st, r), h =>
    simp only at h
    match h2 : readVec16 r, h with
    | some (rid, r2), h =>
      simp only at h
      match h3 : wholeVec16 r2, h with
      | some exts, h =>
        simp only [Option.some.injEq] at h
        subst h
        obtain ⟨s, rfl, rfl⟩ := readU8_spec h1
        obtain ⟨a, b, rfl, hl⟩ := readVec16_spec h2
        obtain ⟨c, e, rfl, hl2⟩ := wholeVec16_spec h3
        exact ⟨⟨s, a, b, rid, c, e, exts, rfl, hl, hl2⟩, rfl⟩

theorem chExt_curves {m m' : CHMsg} {d : Bytes} {l : Bool} (h : chExt m 10 d l = some m') :
    U16ListExt d ∧ m' = { m with curves := m.curves ++ pairsBE (d.drop 2) } := by
  simp only [chExt, Nat.reduceEqDiff, if_false, if_true] at h
  match h1 : wholeVec16 d, h with
  | some cs, h =>
    simp only at h
    by_cases he : cs.isEmpty = true
    · rw [if_pos he] at h; cases h
    rw [if_neg he] at h
    match h2 : u16s cs, h with
    | some lst, h =>
      simp only [Option.some.injEq] at h
      subst h
      obtain ⟨a, b, rfl, hl⟩ := wholeVec16_spec h1
      obtain ⟨rfl, hev⟩ := u16s_spec cs lst h2
      exact ⟨⟨a, b, cs, rfl, hl, isEmpty_false_ne_nil he, hev⟩, rfl⟩

theorem chExt_points {m m' : CHMsg} {d : Bytes} {l : Bool} (h : chExt m 11 d l = some m') :
    (∃ a p, d = a :: p ∧ a.toNat = p.length ∧ p ≠ []) ∧ m' = { m with points := d.drop 1 } := by
  simp only [chExt, Nat.reduceEqDiff, if_false, if_true] at h
  match h1 : wholeVec8 d, h with
  | some p, h =>
    simp only at h
    by_cases he : p.isEmpty = true
    · rw [if_pos he] at h; cases h
    rw [if_neg he] at h
    simp only [Option.some.injEq] at h
    subst h
    obtain ⟨a, rfl, hl⟩ := wholeVec8_spec h1
    exact ⟨⟨a, p, rfl, hl, isEmpty_false_ne_nil he⟩, rfl⟩

theorem chExt_ticket {m m' : CHMsg} {d : Bytes} {l : Bool} (h : chExt m 35 d l = some m') :
    m' = { m with tick := true, ticket := d } := by
  simp only [chExt, Nat.reduceEqDiff, if_false, if_true, Option.some.injEq] at h
  exact h.symm

theorem chExt_sigAlgs {m m' : CHMsg} {d : Bytes} {l : Bool} (h : chExt m 13 d l = some m') :
    U16ListExt d ∧ m' = { m with sigAlgs := m.sigAlgs ++ pairsBE (d.drop 2) } := by
  simp only [chExt, Nat.reduceEqDiff, if_false, if_true] at h
  match h1 : wholeVec16 d, h with
  | some cs, h =>
    simp only at h
    by_cases he : cs.isEmpty = true
    · rw [if_pos he] at h; cases h
    rw [if_neg he] at h
    match h2 : u16s cs, h with
    | some lst, h =>
      simp only [Option.some.injEq] at h
      subst h
      obtain ⟨a, b, rfl, hl⟩ := wholeVec16_spec h1
      obtain ⟨rfl, hev⟩ := u16s_spec cs lst h2
      exact ⟨⟨a, b, cs, rfl, hl, isEmpty_false_ne_nil he, hev⟩, rfl⟩

theorem chExt_reneg {m m' : CHMsg} {d : Bytes} {l : Bool} (h : chExt m 0xff01 d l = some m') :
    Vec8Ext d ∧ m' = { m with reneg := d.drop 1, renegSup := true } := by
  simp only [chExt, Nat.reduceEqDiff, if_false, if_true] at h
  match h1 : wholeVec8 d, h with
  | some v, h =>
    simp only [Option.some.injEq] at h
    subst h
    obtain ⟨a, rfl, hl⟩ := wholeVec8_spec h1
    exact ⟨⟨a, v, rfl, hl⟩, rfl⟩

theorem chExt_alpn {m m' : CHMsg} {d : Bytes} {l : Bool} (h : chExt m 16 d l = some m') :
    ∃ protos, AlpnExt d protos ∧ m' = { m with alpn := m.alpn ++ protos } := by
  simp only [chExt, Nat.reduceEqDiff, if_false, if_true] at h
  match h1 : wholeVec16 d, h with
  | some pl, h =>
    simp only at h
    by_cases he : pl.isEmpty = true
    · rw [if_pos he] at h; cases h
    rw [if_neg he] at h
    match h2 : splitVec8s pl, h with
    | some lst, h =>
      simp only at h
      by_cases ha : lst.any (·.isEmpty) = true
      · rw [if_pos ha] at h; cases h
      rw [if_neg ha] at h
      simp only [Option.some.injEq] at h
      subst h
      obtain ⟨a, b, rfl, hl⟩ := wholeVec16_spec h1
      refine ⟨lst, ⟨a, b, pl, rfl, hl, isEmpty_false_ne_nil he, splitVec8s_framed pl lst h2, ?_⟩, rfl⟩
      intro s hs hnil
      apply ha
      rw [List.any_eq_true]
      exact ⟨s, hs, by rw [hnil]; rfl⟩

theorem chExt_scts {m m' : CHMsg} {d : Bytes} {l : Bool} (h : chExt m 18 d l = some m') :
    d = [] ∧ m' = { m with scts := true } := by
  simp only [chExt, Nat.reduceEqDiff, if_false, if_true] at h
  by_cases he : d.isEmpty = true
  · rw [if_pos he] at h
    simp only [Option.some.injEq] at h
    exact ⟨List.isEmpty_iff.mp he, h.symm⟩
  · rw [if_neg he] at h; cases h

theorem chExt_sv {m m' : CHMsg} {d : Bytes} {l : Bool} (h : chExt m 43 d l = some m') :
    U8ListExt d ∧ m' = { m with sv := m.sv ++ pairsBE (d.drop 1) } := by
  simp only [chExt, Nat.reduceEqDiff, if_false, if_true] at h
  match h1 : wholeVec8 d, h with
  | some vl, h =>
    simp only at h
    by_cases he : vl.isEmpty = true
    · rw [if_pos he] at h; cases h
    rw [if_neg he] at h
    match h2 : u16s vl, h with
    | some lst, h =>
      simp only [Option.some.injEq] at h
      subst h
      obtain ⟨a, rfl, hl⟩ := wholeVec8_spec h1
      obtain ⟨rfl, hev⟩ := u16s_spec vl lst h2
      exact ⟨⟨a, vl, rfl, hl, isEmpty_false_ne_nil he, hev⟩, rfl⟩

theorem chExt_xrand {m m' : CHMsg} {d : Bytes} {l : Bool} (h : chExt m 0x28 d l = some m') :
    (∃ a b er, d = a :: b :: er ∧ u16 a b = er.length ∧ er ≠ []) ∧ m' = { m with xrand := d.drop 2 } := by
  simp only [chExt, Nat.reduceEqDiff, if_false, if_true] at h
  match h1 : wholeVec16 d, h with
  | some er, h =>
    simp only at h
    by_cases he : er.isEmpty = true
    · rw [if_pos he] at h; cases h
    rw [if_neg he] at h
    simp only [Option.some.injEq] at h
    subst h
    obtain ⟨a, b, rfl, hl⟩ := wholeVec16_spec h1
    exact ⟨⟨a, b, er, rfl, hl, isEmpty_false_ne_nil he⟩, rfl⟩

theorem chExt_ems {m m' : CHMsg} {d : Bytes} {l : Bool} (h : chExt m 23 d l = some m') :
    d = [] ∧ m' = { m with ems := true } := by
  simp only [chExt, Nat.reduceEqDiff, if_false, if_true] at h
  by_cases he : d.isEmpty = true
  · rw [if_pos he] at h
    simp only [Option.some.injEq] at h
    exact ⟨List.isEmpty_iff.mp he, h.symm⟩
  · rw [if_neg he] at h; cases h

/-- the identifiers whose extension changes a logged field -/
def chLogged : List Nat := [0, 5, 10, 11, 35, 13, 0xff01, 16, 18, 43, 0x28, 23]

set_option hygiene false in
macro "other_arm" : tactic =>
  `(tactic| (repeat' split at h
             all_goals (cases h; try rfl)))

/-- every other extension (signature_algorithms_cert 50, cookie 44, key_share 51, early_data 42, psk modes 45,
    pre_shared_key 41, and all unknown identifiers) is checked or skipped but leaves the message unchanged -/
theorem chExt_other {m m' : CHMsg} {id : Nat} {d : Bytes} {l : Bool} (hid : id ∉ chLogged)
    (h : chExt m id d l = some m') : m' = m := by
  simp only [chLogged, List.mem_cons, List.not_mem_nil, or_false, not_or] at hid
  obtain ⟨h0, h5, h10, h11, h35, h13, hff, h16, h18, h43, h28, h23⟩ := hid
  simp only [chExt, h0, h5, h10, h11, h35, h13, hff, h16, h18, h43, h28, h23, if_false] at h
  by_cases c50 : id = 50
  · rw [if_pos c50] at h; other_arm
  rw [if_neg c50] at h
  by_cases c44 : id = 44
  · rw [if_pos c44] at h; other_arm
  rw [if_neg c44] at h
  by_cases c51 : id = 51
  · rw [if_pos c51] at h; other_arm
  rw [if_neg c51] at h
  by_cases c42 : id = 42
  · rw [if_pos c42] at h; other_arm
  rw [if_neg c42] at h
  by_cases c45 : id = 45
  · rw [if_pos c45] at h; other_arm
  rw [if_neg c45] at h
  by_cases c41 : id = 41
  · rw [if_pos c41] at h; other_arm
  rw [if_neg c41] at h
  simp only [Option.some.injEq] at h; exact h.symm

/-- the FRAME: an extension with identifier `id` changes no field other than its own -/
theorem chExt_frame {m m' : CHMsg} {id : Nat} {d : Bytes} {l : Bool} (h : chExt m id d l = some m') :
    (id ≠ 0 → m'.sni = m.sni) ∧ (id ≠ 5 → m'.ocsp = m.ocsp) ∧ (id ≠ 10 → m'.curves = m.curves) ∧
    (id ≠ 11 → m'.points = m.points) ∧ (id ≠ 35 → m'.tick = m.tick ∧ m'.ticket = m.ticket) ∧
    (id ≠ 13 → m'.sigAlgs = m.sigAlgs) ∧ (id ≠ 0xff01 → m'.reneg = m.reneg ∧ m'.renegSup = m.renegSup) ∧
    (id ≠ 16 → m'.alpn = m.alpn) ∧ (id ≠ 18 → m'.scts = m.scts) ∧ (id ≠ 43 → m'.sv = m.sv) ∧
    (id ≠ 0x28 → m'.xrand = m.xrand) ∧ (id ≠ 23 → m'.ems = m.ems) := by
  by_cases hid : id ∈ chLogged
  · simp only [chLogged, List.mem_cons, List.not_mem_nil, or_false] at hid
    rcases hid with rfl | rfl | rfl | rfl | rfl | rfl | rfl | rfl | rfl | rfl | rfl | rfl
    · obtain ⟨_, _, _, e⟩ := chExt_sni h; rw [e]; simp
    · obtain ⟨_, e⟩ := chExt_ocsp h; rw [e]; simp
    · obtain ⟨_, e⟩ := chExt_curves h; rw [e]; simp
    · obtain ⟨_, e⟩ := chExt_points h; rw [e]; simp
    · have e := chExt_ticket h; rw [e]; simp
    · obtain ⟨_, e⟩ := chExt_sigAlgs h; rw [e]; simp
    · obtain ⟨_, e⟩ := chExt_reneg h; rw [e]; simp
    · obtain ⟨_, _, e⟩ := chExt_alpn h; rw [e]; simp
    · obtain ⟨_, e⟩ := chExt_scts h; rw [e]; simp
    · obtain ⟨_, e⟩ := chExt_sv h; rw [e]; simp
    · obtain ⟨_, e⟩ := chExt_xrand h; rw [e]; simp
    · obtain ⟨_, e⟩ := chExt_ems h; rw [e]; simp
  · rw [chExt_other hid h]; simp

/-! ### `parseCH`: fixed part and extension-block framing -/

theorem parseCH_inv {msg : Bytes} {f : CHFixed} {m : CHMsg} (h : parseCH msg = some (f, m)) :
    ∃ hdr v1 v2 sl s1 s2 suiteBytes cl ext,
      msg = hdr ++ (v1 :: v2 :: (f.random ++ (sl :: (f.sid ++ (s1 :: s2 :: (suiteBytes ++ (cl :: (f.comps ++ ext)))))))) ∧
      hdr.length = 4 ∧ f.vers = u16 v1 v2 ∧ f.random.length = 32 ∧ sl.toNat = f.sid.length ∧
      u16 s1 s2 = suiteBytes.length ∧ u16s suiteBytes = some f.suites ∧ cl.toNat = f.comps.length ∧
      ((ext = [] ∧ m = { renegSup := f.suites.contains 0x00ff }) ∨
       (∃ e1 e2 blk es, ext = e1 :: e2 :: blk ∧ u16 e1 e2 = blk.length ∧ FramedExts blk es ∧
          chExts { renegSup := f.suites.contains 0x00ff } es = some m)) := by
  unfold parseCH at h
  match h0 : takeN 4 msg, h with
  | some (hdr, b0), ha =>
    clear h
    simp only at ha
    match h1 : readU16 b0, ha with
    | some (vers, b1), hb =>
      clear ha
      simp only at hb
      match h2 : takeN 32 b1, hb with
      | some (random, b2), hc =>
        clear hb
        simp only at hc
        match h3 : readVec8 b2, hc with
        | some (sid, b3), hd =>
          clear hc
          simp only at hd
          match h4 : readVec16 b3, hd with
          | some (cs, b4), he =>
            clear hd
            simp only at he
            match h5 : u16s cs, he with
            | some suites, hf =>
              clear he
              simp only at hf
              match h6 : readVec8 b4, hf with
              | some (comps, b5), h =>
                clear hf
                simp only at h
                obtain ⟨rfl, hl0⟩ := takeN_spec h0
                obtain ⟨v1, v2, rfl, rfl⟩ := readU16_spec h1
                obtain ⟨rfl, hl2⟩ := takeN_spec h2
                obtain ⟨sl, rfl, hsl⟩ := readVec8_spec h3
                obtain ⟨s1, s2, rfl, hs⟩ := readVec16_spec h4
                obtain ⟨cl, rfl, hcl⟩ := readVec8_spec h6
                by_cases he : b5.isEmpty = true
                · rw [if_pos he] at h
                  simp only [Option.some.injEq, Prod.mk.injEq] at h
                  obtain ⟨rfl, rfl⟩ := h
                  exact ⟨hdr, v1, v2, sl, s1, s2, cs, cl, b5, rfl, hl0, rfl, hl2, hsl, hs, h5, hcl,
                    Or.inl ⟨List.isEmpty_iff.mp he, rfl⟩⟩
                · rw [if_neg he] at h
                  match h7 : wholeVec16 b5, h with
                  | some blk, h =>
                    simp only at h
                    match h8 : splitExts blk, h with
                    | some es, h =>
                      simp only at h
                      match h9 : chExts { renegSup := suites.contains 0x00ff } es, h with
                      | some m', h =>
                        simp only [Option.some.injEq, Prod.mk.injEq] at h
                        obtain ⟨rfl, rfl⟩ := h
                        obtain ⟨e1, e2, rfl, hblk⟩ := wholeVec16_spec h7
                        exact ⟨hdr, v1, v2, sl, s1, s2, cs, cl, e1 :: e2 :: blk, rfl, hl0, rfl, hl2, hsl, hs, h5, hcl,
                          Or.inr ⟨e1, e2, blk, es, rfl, hblk, splitExts_framed blk es h8, h9⟩⟩

/-! ### the SNI name loop runs across ALL server_name extensions of the block -/

theorem chExts_sni : ∀ (es : List (Nat × Bytes)) (m m' : CHMsg), chExts m es = some m' →
    ∃ xs, ListRel (fun e ents => SniExt e.2 ents) (es.filter (isId 0)) xs ∧
      sniPick m.sni xs.flatten = some m'.sni := by
  intro es
  induction es with
  | nil =>
    intro m m' h
    simp only [chExts, Option.some.injEq] at h
    subst h
    exact ⟨[], ListRel.nil, rfl⟩
  | cons e0 t ih =>
    intro m m' h
    obtain ⟨id, d⟩ := e0
    simp only [chExts] at h
    cases hs : chExt m id d t.isEmpty with
    | none => rw [hs] at h; cases h
    | some m1 =>
      rw [hs] at h
      obtain ⟨xs, hrel, hpick⟩ := ih m1 m' h
      by_cases hid : id = 0
      · subst hid
        obtain ⟨ents, hshape, hp, _⟩ := chExt_sni hs
        refine ⟨ents :: xs, ?_, ?_⟩
        · have : isId 0 (0, d) = true := isId_true.mpr rfl
          simp only [List.filter_cons, this, if_true]
          exact ListRel.cons hshape hrel
        · rw [List.flatten_cons, sniPick_append, hp]
          exact hpick
      · refine ⟨xs, ?_, ?_⟩
        · have : isId 0 (id, d) = false := isId_false.mpr hid
          simp only [List.filter_cons, this]
          exact hrel
        · rw [← (chExt_frame hs).1 hid]; exact hpick

theorem sniExt_unique {d : Bytes} {e e' : List (Nat × Bytes)} (h : SniExt d e) (h' : SniExt d e') : e = e' := by
  obtain ⟨a, b, nl, rfl, _, _, hf⟩ := h
  obtain ⟨a', b', nl', he, _, _, hf'⟩ := h'
  simp only [List.cons.injEq] at he
  obtain ⟨_, _, rfl⟩ := he
  exact framedSNI_unique hf hf'

theorem alpnExt_unique {d : Bytes} {l l' : List Bytes} (h : AlpnExt d l) (h' : AlpnExt d l') : l = l' := by
  obtain ⟨a, b, pl, rfl, _, _, hf, _⟩ := h
  obtain ⟨a', b', pl', he, _, _, hf', _⟩ := h'
  simp only [List.cons.injEq] at he
  obtain ⟨_, _, rfl⟩ := he
  exact framed8s_unique hf hf'

/-- the wire shape of every ClientHello extension that reaches the log (session_ticket, 35, carries opaque data) -/
def CHExtShape (e : Nat × Bytes) : Prop :=
  (e.1 = 0 → ∃ ents, SniExt e.2 ents) ∧ (e.1 = 5 → OcspExt e.2) ∧ (e.1 = 10 → U16ListExt e.2) ∧
  (e.1 = 11 → ∃ a p, e.2 = a :: p ∧ a.toNat = p.length ∧ p ≠ []) ∧ (e.1 = 13 → U16ListExt e.2) ∧
  (e.1 = 0xff01 → Vec8Ext e.2) ∧ (e.1 = 16 → ∃ protos, AlpnExt e.2 protos) ∧ (e.1 = 18 → e.2 = []) ∧
  (e.1 = 43 → U8ListExt e.2) ∧ (e.1 = 0x28 → ∃ a b er, e.2 = a :: b :: er ∧ u16 a b = er.length ∧ er ≠ []) ∧
  (e.1 = 23 → e.2 = [])

theorem chExt_shape {m m' : CHMsg} {id : Nat} {d : Bytes} {l : Bool} (h : chExt m id d l = some m') :
    CHExtShape (id, d) := by
  refine ⟨?_, ?_, ?_, ?_, ?_, ?_, ?_, ?_, ?_, ?_, ?_⟩ <;> intro hid <;> simp only at hid <;> subst hid
  · obtain ⟨ents, hs, _⟩ := chExt_sni h; exact ⟨ents, hs⟩
  · exact (chExt_ocsp h).1
  · exact (chExt_curves h).1
  · exact (chExt_points h).1
  · exact (chExt_sigAlgs h).1
  · exact (chExt_reneg h).1
  · obtain ⟨p, hs, _⟩ := chExt_alpn h; exact ⟨p, hs⟩
  · exact (chExt_scts h).1
  · exact (chExt_sv h).1
  · exact (chExt_xrand h).1
  · exact (chExt_ems h).1

end ZV.C28
