import ZV.Model.C18Ext
import ZV.Proofs.C18Main
import ZV.Proofs.C18Time
import ZV.Proofs.TimeRT
/-!
  C18, extended embedding (`ZV.Model.C18Ext`): round trip and idempotence for structs whose fields are `time.Time`
  values or values of the old embedding.  The time-field round trip itself (`time_field_roundtrip`, Props/C18.lean) is
  taken as the hypothesis `TimeRT` here and discharged in Props/C18.lean.
-/
namespace ZV.C18.Ext
open ZV ZV.C18 ZV.Time

/-- Marshal leaves the field out -/
def omittedXF : XField → Params → XV → Bool
  | .base s, p, .base v => omitted s p v
  | .time, p, .time t => TimeField.omittedTime p t
  | _, _, _ => false

/-- every field of the list is left out -/
def allOmitted : XFields → List XV → Bool
  | [], [] => true
  | (p, f) :: fs, v :: vs => omittedXF f p v && allOmitted fs vs
  | _, _ => false

/-- a PRESENT time field of the domain: `fieldOK` (no string kind, no `set`, IMPLICIT tag only where the decoder's
    parser choice is the encoder's), year 0..9999, zone below 25 h, and what is read back is not `time.Time{}` under
    OPTIONAL (a non-zero time at the zero instant — e.g. with nanoseconds — would be left out on re-marshalling) -/
def timeOK (p : Params) (t : GoTime) : Bool :=
  TimeField.fieldOK p t && decide (0 ≤ t.year) && decide (t.year ≤ 9999) && decide (-90000 < t.off) &&
    decide (t.off < 90000) && !TimeField.omittedTime p (readBack t)

/-- domain of one field -/
def XDomF : XField → Params → XV → Bool
  | .base s, p, .base v => InDomain s p v
  | .time, p, .time t => goodB p && (TimeField.omittedTime p t || timeOK p t)
  | _, _, _ => false

/-- domain of a field list: every field in its domain; a left-out field is followed by left-out fields only
    (narrower than the old embedding's `skipsNext` rule: conservative) -/
def XDomFs : XFields → List XV → Bool
  | [], [] => true
  | (p, f) :: fs, v :: vs => XDomF f p v && XDomFs fs vs && (!omittedXF f p v || allOmitted fs vs)
  | _, _ => false

/-- **domain of the extended round-trip theorem**: good top-level parameters, the struct itself not OPTIONAL -/
def XDom (fs : XFields) (p : Params) (vs : List XV) : Bool :=
  goodB p && !p.optional && XDomFs fs vs

/-- value equivalence of one field: old embedding `VEq`; a present time comes back as `readBack t`
    (whole seconds, zone truncated to whole minutes), a left-out one identically -/
def XEqF : XField → Params → XV → XV → Prop
  | .base s, p, .base v, .base v' => VEq s p v v'
  | .time, p, .time t, .time t' => t' = if TimeField.omittedTime p t then t else readBack t
  | _, _, _, _ => False

def XEq : XFields → List XV → List XV → Prop
  | [], [], [] => True
  | (p, f) :: fs, v :: vs, v' :: vs' => XEqF f p v v' ∧ XEq fs vs vs'
  | _, _, _ => False

/-- the statement of `time_field_roundtrip` (strict mode) -/
def TimeRT : Prop :=
  ∀ (p : Params) (t : GoTime) (enc rest : Bytes), Good p → TimeField.fieldOK p t = true → 0 ≤ t.year → t.year ≤ 9999 →
    -90000 < t.off → t.off < 90000 → TimeField.makeTimeField p t = .ok enc → enc.length < 2147483648 →
    TimeField.parseTimeField false p (enc ++ rest) = .ok (readBack t, rest)

/-! ### re-marshalling what was read back -/

theorem genText_readBack (t : GoTime) : genText (readBack t) = genText t := by
  simp only [genText, readBack_year, readBack_civil, fieldsText_off, zoneText_readBack]

theorem utcText_readBack (t : GoTime) : utcText (readBack t) = utcText t := by
  simp only [utcText, readBack_year, readBack_civil, fieldsText_off, zoneText_readBack]

theorem useGeneralized_readBack (tt : Nat) (t : GoTime) :
    EA.useGeneralized tt (readBack t) = EA.useGeneralized tt t := by
  simp only [EA.useGeneralized, EA.outsideUTCRange, readBack_year]

theorem timeTag_readBack (tt : Nat) (t : GoTime) : EA.timeTag tt (readBack t) = EA.timeTag tt t := by
  simp only [EA.timeTag, useGeneralized_readBack]

theorem makeTimeBody_readBack (tt : Nat) (t : GoTime) (hy0 : 0 ≤ t.year) (hy1 : t.year ≤ 9999) :
    EA.makeTimeBody tt (readBack t) = EA.makeTimeBody tt t := by
  simp only [EA.makeTimeBody, useGeneralized_readBack]
  split
  · rw [appendGeneralizedTime_eq t hy0 hy1,
      appendGeneralizedTime_eq (readBack t) (by rw [readBack_year]; exact hy0) (by rw [readBack_year]; exact hy1),
      genText_readBack]
  · by_cases h : 1950 ≤ t.year ∧ t.year < 2050
    · rw [appendUTCTime_eq t h.1 h.2,
        appendUTCTime_eq (readBack t) (by rw [readBack_year]; exact h.1) (by rw [readBack_year]; exact h.2),
        utcText_readBack]
    · rw [appendUTCTime_err t (by omega), appendUTCTime_err (readBack t) (by rw [readBack_year]; omega)]

/-- **idempotence at a time leaf**: the time read back marshals to the same bytes -/
theorem makeTimeField_readBack (p : Params) (t : GoTime) (hy0 : 0 ≤ t.year) (hy1 : t.year ≤ 9999)
    (h1 : TimeField.omittedTime p t = false) (h2 : TimeField.omittedTime p (readBack t) = false) :
    TimeField.makeTimeField p (readBack t) = TimeField.makeTimeField p t := by
  simp only [TimeField.makeTimeField, h1, h2, timeTag_readBack, makeTimeBody_readBack p.timeType t hy0 hy1]

/-! ### fields -/

theorem allOmitted_nil : ∀ (fs : XFields) (vs : List XV) (enc : Bytes), allOmitted fs vs = true →
    makeXFields fs vs = .ok enc → enc = [] := by
  intro fs
  induction fs with
  | nil => intro vs enc _ hm; cases vs <;> simp [makeXFields] at hm; exact hm
  | cons pf fs ih =>
    intro vs enc ha hm
    obtain ⟨p, f⟩ := pf
    cases vs with
    | nil => simp [allOmitted] at ha
    | cons v vs =>
      simp only [allOmitted, Bool.and_eq_true] at ha
      simp only [makeXFields] at hm
      cases h1 : makeXField f p v with
      | err => rw [h1] at hm; cases hm
      | panic => rw [h1] at hm; cases hm
      | ok b =>
        rw [h1] at hm
        cases h2 : makeXFields fs vs with
        | err => rw [h2] at hm; cases hm
        | panic => rw [h2] at hm; cases hm
        | ok bs =>
          rw [h2] at hm
          simp only [Res.ok.injEq] at hm
          have hbs := ih vs bs ha.2 h2
          have hb : b = [] := by
            cases f with
            | base s =>
              cases v with
              | time t => simp [omittedXF] at ha
              | base x =>
                simp only [makeXField] at h1
                have hu := makeField_univ s p x b h1
                rw [makeField_omitted s p x hu (by simpa [omittedXF] using ha.1)] at h1
                simpa using h1.symm
            | time =>
              cases v with
              | base x => simp [omittedXF] at ha
              | time t =>
                have ho : TimeField.omittedTime p t = true := by simpa [omittedXF] using ha.1
                simp only [makeXField, TimeField.makeTimeField, ho, if_true, Res.ok.injEq] at h1
                exact h1.symm
          rw [← hm, hb, hbs]; rfl

/-- one field: decode what was encoded, equivalent value, same bytes on re-marshalling -/
theorem field_rt (HT : TimeRT) (f : XField) (p : Params) (v : XV) (b rest : Bytes) (hd : XDomF f p v = true)
    (hm : makeXField f p v = .ok b) (hl : b.length < 2147483648) (hr : omittedXF f p v = true → rest = []) :
    ∃ v', parseXField false f p (b ++ rest) = .ok (v', rest) ∧ XEqF f p v v' ∧ makeXField f p v' = .ok b := by
  cases f with
  | base s =>
    cases v with
    | time t => simp [XDomF] at hd
    | base x =>
      simp only [XDomF] at hd
      simp only [makeXField] at hm
      obtain ⟨x', h1, h2, h3, _⟩ := (roundtrip_both s).1 p x b rest hd hm hl
        (fun ho => Or.inl (hr (by simpa [omittedXF] using ho)))
      exact ⟨.base x', by simp only [parseXField, h1], h2, h3⟩
  | time =>
    cases v with
    | base x => simp [XDomF] at hd
    | time t =>
      simp only [XDomF, Bool.and_eq_true, Bool.or_eq_true] at hd
      obtain ⟨hgb, hd⟩ := hd
      have hg := goodB_good p hgb
      simp only [makeXField] at hm
      cases ho : TimeField.omittedTime p t with
      | true =>
        have hrest := hr (by simpa [omittedXF] using ho)
        subst hrest
        have ho' := ho
        simp only [TimeField.omittedTime, Bool.and_eq_true, beq_iff_eq] at ho'
        simp only [TimeField.makeTimeField, ho, if_true, Res.ok.injEq] at hm
        subst hm
        refine ⟨.time t, ?_, by simp [XEqF, ho], by simp [makeXField, TimeField.makeTimeField, ho]⟩
        simp [parseXField, TimeField.parseTimeField, TimeField.dfltTime, ho'.1.1, ho'.2]
      | false =>
        rw [ho] at hd
        simp only [Bool.false_eq_true, false_or, timeOK, Bool.and_eq_true, decide_eq_true_eq, Bool.not_eq_true'] at hd
        obtain ⟨⟨⟨⟨⟨hok, hy0⟩, hy1⟩, ho1⟩, ho2⟩, hrb⟩ := hd
        refine ⟨.time (readBack t), ?_, by simp [XEqF, ho], ?_⟩
        · simp only [parseXField, HT p t b rest hg hok hy0 hy1 ho1 ho2 hm hl]
        · simp only [makeXField, makeTimeField_readBack p t hy0 hy1 ho hrb, hm]

/-- the field list of a struct -/
theorem fields_rt (HT : TimeRT) : ∀ (fs : XFields) (vs : List XV) (enc : Bytes), XDomFs fs vs = true →
    makeXFields fs vs = .ok enc → enc.length < 2147483648 →
    ∃ vs', parseXFields false fs enc = .ok (vs', []) ∧ XEq fs vs vs' ∧ makeXFields fs vs' = .ok enc := by
  intro fs
  induction fs with
  | nil =>
    intro vs enc hd hm _
    cases vs with
    | cons _ _ => simp [XDomFs] at hd
    | nil =>
      simp only [makeXFields, Res.ok.injEq] at hm
      subst hm
      exact ⟨[], by simp [parseXFields], by simp [XEq], by simp [makeXFields]⟩
  | cons pf fs ih =>
    intro vs enc hd hm hl
    obtain ⟨p, f⟩ := pf
    cases vs with
    | nil => simp [XDomFs] at hd
    | cons v vs =>
      simp only [XDomFs, Bool.and_eq_true, Bool.or_eq_true, Bool.not_eq_true'] at hd
      obtain ⟨⟨hdv, hdvs⟩, hsk⟩ := hd
      simp only [makeXFields] at hm
      cases h1 : makeXField f p v with
      | err => rw [h1] at hm; cases hm
      | panic => rw [h1] at hm; cases hm
      | ok b =>
        rw [h1] at hm
        cases h2 : makeXFields fs vs with
        | err => rw [h2] at hm; cases hm
        | panic => rw [h2] at hm; cases hm
        | ok bs =>
          rw [h2] at hm
          simp only [Res.ok.injEq] at hm
          subst hm
          simp only [List.length_append] at hl
          have hr : omittedXF f p v = true → bs = [] := by
            intro ho
            rcases hsk with h | h
            · rw [ho] at h; cases h
            · exact allOmitted_nil fs vs bs h h2
          obtain ⟨y, hy1, hy2, hy3⟩ := field_rt HT f p v b bs hdv h1 (by omega) hr
          obtain ⟨ys, hys1, hys2, hys3⟩ := ih vs bs hdvs h2 (by omega)
          exact ⟨y :: ys, by simp only [parseXFields, hy1, hys1], ⟨hy2, hys2⟩, by simp only [makeXFields, hy3, hys3]⟩

/-- **the struct**: strict Unmarshal of Marshal's output (followed by any `rest`) returns an equivalent value and
    `rest`; the value returned marshals to the same bytes -/
theorem xstruct_rt (HT : TimeRT) (fs : XFields) (p : Params) (vs : List XV) (enc rest : Bytes)
    (hd : XDom fs p vs = true) (hm : makeXStruct fs p vs = .ok enc) (hl : enc.length < 2147483648) :
    ∃ vs', parseXStruct false fs p (enc ++ rest) = .ok (vs', rest) ∧ XEq fs vs vs' ∧
      makeXStruct fs p vs' = .ok enc := by
  simp only [XDom, Bool.and_eq_true, Bool.not_eq_true'] at hd
  obtain ⟨⟨hgb, hopt⟩, hdf⟩ := hd
  have hg := goodB_good p hgb
  have hom : ∀ ws, omittedXS fs p ws = false := by intro ws; simp [omittedXS, hopt]
  simp only [makeXStruct, hom, Bool.false_eq_true, if_false] at hm
  by_cases h1 : p.timeType ≠ 0
  · rw [if_pos h1] at hm; cases hm
  rw [if_neg h1] at hm
  by_cases h2 : p.stringType ≠ 0
  · rw [if_pos h2] at hm; cases hm
  rw [if_neg h2] at hm
  cases hb : makeXFields fs vs with
  | err => rw [hb] at hm; cases hm
  | panic => rw [hb] at hm; cases hm
  | ok body =>
    rw [hb] at hm
    have henc : enc = wrap p (if p.set = true then 17 else 16) true body := by simpa using hm.symm
    subst henc
    have hbl : body.length < 2147483648 := by
      have := wrap_length_ge p (if p.set = true then 17 else 16) true body; omega
    obtain ⟨vs', hp, hveq, hmk⟩ := fields_rt HT fs vs body hdf hb hbl
    refine ⟨vs', ?_, hveq, ?_⟩
    · simp only [parseXStruct]
      rw [append_isEmpty_false (wrap_nonempty _ _ _ _)]
      simp only [Bool.false_eq_true, if_false]
      rw [parsePre_wrap false anyStruct p 16 _ true body rest rfl hg hl (by split_ifs <;> omega)
        (by intro _; simp only [substTag]; split_ifs <;> simp_all)]
      simp only [hp]
    · simp only [makeXStruct, hom, Bool.false_eq_true, if_false, if_neg h1, if_neg h2, hmk]

end ZV.C18.Ext
