import ZV.Model.C24
/-! helper lemmas for `ZV.Props.C24` -/
namespace ZV.C24

theorem find?_desc_max {p : Nat → Bool} : ∀ {l : List Nat} {v : Nat},
    l.Pairwise (· > ·) → l.find? p = some v → ∀ w ∈ l, p w = true → w ≤ v
  | [], _, _, h => by simp at h
  | x :: xs, v, hd, h => by
    intro w hw hp
    rw [List.pairwise_cons] at hd
    simp only [List.find?_cons] at h
    cases hx : p x with
    | true =>
      simp only [hx, Option.some.injEq] at h
      subst h
      rcases List.mem_cons.mp hw with rfl | hw'
      · exact Nat.le_refl _
      · exact Nat.le_of_lt (hd.1 w hw')
    | false =>
      simp only [hx] at h
      rcases List.mem_cons.mp hw with rfl | hw'
      · rw [hx] at hp; exact absurd hp (by simp)
      · exact find?_desc_max hd.2 h w hw' hp

theorem pairwise_filter_gt (q : Nat → Bool) {l : List Nat} (h : l.Pairwise (· > ·)) :
    (l.filter q).Pairwise (· > ·) := h.sublist List.filter_sublist

/-- `find?` returns the first qualifying element: a split of the list with no qualifying element before it -/
theorem find?_first {α} {p : α → Bool} : ∀ {l : List α} {v : α}, l.find? p = some v →
    ∃ pre post, l = pre ++ v :: post ∧ p v = true ∧ ∀ x ∈ pre, p x = false
  | [], _, h => by simp at h
  | x :: xs, v, h => by
    simp only [List.find?_cons] at h
    cases hx : p x with
    | true =>
      simp only [hx, Option.some.injEq] at h
      subst h
      exact ⟨[], xs, rfl, hx, by simp⟩
    | false =>
      simp only [hx] at h
      obtain ⟨pre, post, hl, hv, hpre⟩ := find?_first h
      refine ⟨x :: pre, post, by simp [hl], hv, ?_⟩
      intro y hy
      rcases List.mem_cons.mp hy with rfl | hy'
      · exact hx
      · exact hpre y hy'

theorem bubble_perm (x : Nat) (acc : List Nat) : (bubble x acc).Perm (x :: acc) := by
  induction acc with
  | nil => exact List.Perm.refl _
  | cons p ps ih =>
    simp only [bubble]
    split
    · exact ((List.Perm.cons p ih).trans (List.Perm.swap x p ps))
    · exact List.Perm.refl _

theorem insertionSortRev_perm (acc l : List Nat) : (insertionSortRev acc l).Perm (l.reverse ++ acc) := by
  induction l generalizing acc with
  | nil => simp [insertionSortRev]
  | cons x xs ih =>
    simp only [insertionSortRev, List.reverse_cons, List.append_assoc, List.singleton_append]
    exact (ih (bubble x acc)).trans (List.Perm.append_left _ (bubble_perm x acc))

/-! resumption: the two ways a connection ends -/
theorem failedWith_res (p c : Option Sess) : (failedWith p c).res = .fail ∧ (failedWith p c).resumed = false := by
  unfold failedWith; split <;> simp

theorem completed_res (o : Outcome) (r i : Bool) (tk : Option (List Nat)) (c : Option Sess) :
    (completed o r i tk c).res = .done o ∧ (completed o r i tk c).resumed = r := by
  unfold completed; split <;> simp

end ZV.C24
