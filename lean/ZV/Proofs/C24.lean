import ZV.Model.C24
/-! helper lemmas for `ZV.Props.C24` -/
namespace ZV.C24

theorem find?_desc_max {p : Nat → Bool} : ∀ {l : List Nat} {v : Nat},
    l.Pairwise (· > ·) → l.find? p = some v → ∀ w ∈ l, p w = true → w ≤ v
  | [], _, _, h => by simp at h
  | x :: xs, v, hd, h => by
    intro w hw hp
    rw [List.pairwise_cons] at hd
    simp only [List.find?_cons] at h
    cases hx : p x with
    | true =>
      simp only [hx, Option.some.injEq] at h
      subst h
      rcases List.mem_cons.mp hw with rfl | hw'
      · exact Nat.le_refl _
      · exact Nat.le_of_lt (hd.1 w hw')
    | false =>
      simp only [hx] at h
      rcases List.mem_cons.mp hw with rfl | hw'
      · rw [hx] at hp; exact absurd hp (by simp)
      · exact find?_desc_max hd.2 h w hw' hp

theorem pairwise_filter_gt (q : Nat → Bool) {l : List Nat} (h : l.Pairwise (· > ·)) :
    (l.filter q).Pairwise (· > ·) := h.sublist List.filter_sublist

/-- `find?` returns the first qualifying element: a split of the list with no qualifying element before it -/
theorem find?_first {α} {p : α → Bool} : ∀ {l : List α} {v : α}, l.find? p = some v →
    ∃ pre post, l = pre ++ v :: post ∧ p v = true ∧ ∀ x ∈ pre, p x = false
  | [], _, h => by simp at h
  | x :: xs, v, h => by
    simp only [List.find?_cons] at h
    cases hx : p x with
    | true =>
      simp only [hx, Option.some.injEq] at h
      subst h
      exact ⟨[], xs, rfl, hx, by simp⟩
    | false =>
      simp only [hx] at h
      obtain ⟨pre, post, hl, hv, hpre⟩ := find?_first h
      refine ⟨x :: pre, post, by simp [hl], hv, ?_⟩
      intro y hy
      rcases List.mem_cons.mp hy with rfl | hy'
      · exact hx
      · exact hpre y hy'

theorem bubble_perm (x : Nat) (acc : List Nat) : (bubble x acc).Perm (x :: acc) := by
  induction acc with
  | nil => exact List.Perm.refl _
  | cons p ps ih =>
    simp only [bubble]
    split
    · exact ((List.Perm.cons p ih).trans (List.Perm.swap x p ps))
    · exact List.Perm.refl _

theorem insertionSortRev_perm (acc l : List Nat) : (insertionSortRev acc l).Perm (l.reverse ++ acc) := by
  induction l generalizing acc with
  | nil => simp [insertionSortRev]
  | cons x xs ih =>
    simp only [insertionSortRev, List.reverse_cons, List.append_assoc, List.singleton_append]
    exact (ih (bubble x acc)).trans (List.Perm.append_left _ (bubble_perm x acc))

/-! resumption: the two ways a connection ends -/
theorem failedWith_res (p c : Option Sess) : (failedWith p c).res = .fail ∧ (failedWith p c).resumed = false := by
  unfold failedWith; split <;> simp

theorem completed_res (o : Outcome) (r i : Bool) (tk : Option (List Nat)) (c : Option Sess) :
    (completed o r i tk c).res = .done o ∧ (completed o r i tk c).resumed = r := by
  unfold completed; split <;> simp

/-! helpers for the assembled negotiation -/
open Gen in
theorem select_none_iff (ids sup : List Nat) (ok : SuiteRow → Bool) :
    selectCipherSuite ids sup ok = none ↔
      ∀ x ∈ ids, ∀ rx, lookup implemented x = some rx → (ok rx && sup.contains x) = false := by
  induction ids with
  | nil => simp [selectCipherSuite]
  | cons id rest ih =>
    simp only [selectCipherSuite, List.mem_cons, forall_eq_or_imp]
    cases hl : lookup implemented id with
    | none => simp [ih]
    | some row =>
      simp only [Option.some.injEq, forall_eq']
      by_cases hq : (ok row && sup.contains id) = true
      · simp only [hq, if_true, reduceCtorEq, false_iff]
        intro hh; exact absurd hh.1 (by simp)
      · have hq' : (ok row && sup.contains id) = false := by simpa using hq
        simp only [hq', Bool.false_eq_true, if_false, true_and]
        exact ih

theorem mutualVersion_nonempty {sv cv : List Nat} {v : Nat} (h : mutualVersion sv cv = some v) : cv.isEmpty = false := by
  have := List.mem_of_find?_eq_some h
  cases cv with
  | nil => simp at this
  | cons _ _ => rfl

theorem configVersions_convex (table : List Nat) (minV maxV lo hi w : Nat)
    (hlo : lo ∈ configVersions table minV maxV) (hhi : hi ∈ configVersions table minV maxV)
    (hw : w ∈ table) (h1 : lo ≤ w) (h2 : w ≤ hi) : w ∈ configVersions table minV maxV := by
  simp only [configVersions, List.mem_filter, Bool.and_eq_true, Bool.not_eq_true', Bool.and_eq_false_iff,
    bne_eq_false_iff_eq, decide_eq_false_iff_not, Nat.not_lt] at *
  refine ⟨hw, ?_, ?_⟩
  · rcases hlo.2.1 with h | h
    · exact Or.inl h
    · exact Or.inr (by omega)
  · rcases hhi.2.2 with h | h
    · exact Or.inl h
    · exact Or.inr (by omega)

theorem configVersions_sub (table : List Nat) (minV maxV w : Nat) (h : w ∈ configVersions table minV maxV) : w ∈ table :=
  (List.mem_filter.mp h).1

theorem maxSupported_mem {l : List Nat} {v : Nat} (h : v ∈ l) : maxSupported l ∈ l := by
  cases l with
  | nil => simp at h
  | cons x t => simp [maxSupported]

theorem clientAborts_lt {cliMax v : Nat} {seen : Canary} (h : clientAborts cliMax v seen = true) :
    v < cliMax ∧ seen ≠ .none := by
  unfold clientAborts at h
  simp only [VersionTLS13, VersionTLS12, VersionTLS11, Bool.or_eq_true, Bool.and_eq_true, beq_iff_eq,
    ] at h
  rcases h with ⟨⟨h1, h2⟩, h3⟩ | ⟨⟨h1, h2⟩, h3⟩
  · have h2' := of_decide_eq_true h2
    refine ⟨by omega, ?_⟩
    rcases h3 with h3 | h3 <;> (rw [h3]; simp)
  · have h2' := of_decide_eq_true h2
    refine ⟨by omega, ?_⟩
    rw [h3]; simp

end ZV.C24
