import ZV.Proofs.C04Ext
import ZV.Proofs.C04KU
namespace ZV.C04
open ZV ZV.Der ZV.C06

theorem catRes_cons_ok {r : Res (List Ext)} {rs : List (Res (List Ext))} {l : List Ext}
    (h : catRes (r :: rs) = .ok l) : ∃ a b, r = .ok a ∧ catRes rs = .ok b ∧ l = a ++ b := by
  unfold catRes at h
  split at h
  · rename_i a
    split at h
    · rename_i b hb
      simp only [Res.ok.injEq] at h
      exact ⟨a, b, rfl, hb, h.symm⟩
    · cases h
    · cases h
  · cases h
  · cases h

theorem applyExts_append (f : Fields) (a b : List Ext) :
    applyExts f (a ++ b) = (applyExts f a).bind fun f' => applyExts f' b := by
  induction a generalizing f with
  | nil => rfl
  | cons x xs ih =>
    simp only [List.cons_append, applyExts]
    cases applyExt f x with
    | ok f' => exact ih f'
    | err => rfl
    | panic => rfl

theorem gen_cases {cond : Bool} {oid : List Nat} {crit : Bool} {v : Option Bytes} {extra l : List Ext}
    (h : gen cond oid crit v extra = .ok l) :
    (l = [] ∧ (cond && !inExtra oid extra) = false) ∨
    (∃ val, v = some val ∧ l = [⟨oid, crit, val⟩] ∧ cond = true ∧ inExtra oid extra = false) := by
  unfold gen at h
  split at h
  · rename_i hc
    split at h
    · rename_i val
      simp only [Res.ok.injEq] at h
      simp only [Bool.and_eq_true, Bool.not_eq_true'] at hc
      exact Or.inr ⟨val, rfl, h.symm, hc.1, hc.2⟩
    · cases h
  · rename_i hc
    simp only [Res.ok.injEq] at h
    exact Or.inl ⟨h.symm, by simpa using hc⟩

/-- one generated extension: either nothing was generated and the fields stay, or exactly one extension was and
    `applyExt` maps `f` to `f'` -/
theorem step {f f' : Fields} {cond : Bool} {oid : List Nat} {crit : Bool} {v : Option Bytes} {extra l : List Ext}
    (h : gen cond oid crit v extra = .ok l)
    (hno : (cond && !inExtra oid extra) = false → f' = f)
    (hyes : ∀ val, v = some val → cond = true → inExtra oid extra = false → (⟨oid, crit, val⟩ : Ext) ∈ l →
      applyExt f ⟨oid, crit, val⟩ = .ok f') :
    applyExts f l = .ok f' := by
  rcases gen_cases h with ⟨rfl, hc⟩ | ⟨val, hv, rfl, hc, hi⟩
  · rw [hno hc]; rfl
  · simp only [applyExts, hyes val hv hc hi List.mem_cons_self]

/-- an extension whose OID is none of the nine modelled ones leaves the fields alone -/
def modelled : List (List Nat) := [oidKU, oidBC, oidSAN, oidCRLDP, oidAKI, oidEKU, oidSKI, oidPolicies, oidAIA]

theorem applyExt_other (f : Fields) (x : Ext) (h : x.oid ∉ modelled) : applyExt f x = .ok f := by
  simp only [modelled, List.mem_cons, List.mem_nil_iff, or_false, not_or] at h
  obtain ⟨h1, h2, h3, h4, h5, h6, h7, h8, h9⟩ := h
  simp only [applyExt, h1, h2, h3, h4, h5, h6, h7, h8, h9, if_false]

theorem applyExts_other (f : Fields) (xs : List Ext) (h : ∀ x ∈ xs, x.oid ∉ modelled) : applyExts f xs = .ok f := by
  induction xs with
  | nil => rfl
  | cons x xs ih =>
    simp only [applyExts, applyExt_other f x (h x List.mem_cons_self)]
    exact ih (fun y hy => h y (List.mem_cons_of_mem _ hy))

/-! ### `applyExt` on each modelled OID -/

theorem applyExt_KU (f : Fields) (c : Bool) (v : Bytes) : applyExt f ⟨oidKU, c, v⟩ =
    (match parseKeyUsage v with | .ok ku => .ok { f with keyUsage := ku } | _ => .ok f) := rfl
theorem applyExt_BC (f : Fields) (c : Bool) (v : Bytes) : applyExt f ⟨oidBC, c, v⟩ =
    (match parseBasicConstraints v with
     | .ok (ca, m) => .ok { f with bcValid := true, isCA := ca, maxPathLen := m, maxPathLenZero := m == 0 }
     | _ => .ok f) := rfl
theorem applyExt_SAN (f : Fields) (c : Bool) (v : Bytes) : applyExt f ⟨oidSAN, c, v⟩ =
    (parseSAN v).bind fun s => .ok { f with san := s } := rfl
theorem applyExt_CRLDP (f : Fields) (c : Bool) (v : Bytes) : applyExt f ⟨oidCRLDP, c, v⟩ =
    (parseCRLDP v).bind fun l => .ok { f with crldp := f.crldp ++ l } := rfl
theorem applyExt_AKI (f : Fields) (c : Bool) (v : Bytes) : applyExt f ⟨oidAKI, c, v⟩ =
    (parseAKI v).bind fun a => .ok { f with aki := a } := rfl
theorem applyExt_EKU (f : Fields) (c : Bool) (v : Bytes) : applyExt f ⟨oidEKU, c, v⟩ =
    (parseEKU v).bind fun l => .ok { f with ekuOids := f.ekuOids ++ l } := rfl
theorem applyExt_SKI (f : Fields) (c : Bool) (v : Bytes) : applyExt f ⟨oidSKI, c, v⟩ =
    (parseSKI v).bind fun s => .ok { f with ski := s } := rfl
theorem applyExt_Policies (f : Fields) (c : Bool) (v : Bytes) : applyExt f ⟨oidPolicies, c, v⟩ =
    (parsePolicies v).bind fun p => .ok { f with policies := p } := rfl
theorem applyExt_AIA (f : Fields) (c : Bool) (v : Bytes) : applyExt f ⟨oidAIA, c, v⟩ =
    (parseAIA v).bind fun a => .ok { f with ocsp := f.ocsp ++ a.1, issuing := f.issuing ++ a.2 } := rfl
theorem applyExt_NC (f : Fields) (c : Bool) (v : Bytes) : applyExt f ⟨oidNC, c, v⟩ = .ok f := rfl

/-! ### the expected field vector -/

/-- `oidFromExtKeyUsage` over the table -/
def ekuLookup (tbl : List (Nat × List Nat)) (u : Nat) : Option (List Nat) := (tbl.find? (fun p => p.1 == u)).map (·.2)

/-- the documented template domain (decidable): nine key-usage bits, a 64-bit path length, OID arcs the reader
    accepts (sub-identifiers up to MaxInt32), IP addresses of 4 or 16 octets. -/
def Tmpl.inDomain (tbl : List (Nat × List Nat)) (t : Tmpl) : Bool :=
  decide (t.keyUsage < 512) && decide (-9223372036854775808 ≤ t.maxPathLen) && decide (t.maxPathLen ≤ 9223372036854775807)
    && tbl.all (fun p => oidOk p.2) && t.unknownEku.all oidOk && t.policies.all oidOk
    && t.ips.all (fun ip => ip.length == 4 || ip.length == 16)

/-- the field vector `parseCertificate` must report for the GENERATED extensions of template `t`: every field the
    template sets, normalised (unset path length → -1, IPv4-mapped addresses → 4 octets, OIDs as content octets);
    a field whose extension is overridden through `ExtraExtensions` keeps its zero value here (it is then filled
    from the extra extension). -/
def expected (tbl : List (Nat × List Nat)) (t : Tmpl) : Fields :=
  let ov := fun oid => inExtra oid t.extra
  let bc := t.bcValid && !ov oidBC
  let m := effectiveMaxPathLen t.maxPathLen t.maxPathLenZero
  { keyUsage := if ov oidKU then 0 else t.keyUsage
    ekuOids := if ov oidEKU then [] else oidContents (t.eku.filterMap (ekuLookup tbl) ++ t.unknownEku)
    bcValid := bc
    isCA := bc && t.isCA
    maxPathLen := if bc then m else 0
    maxPathLenZero := bc && m == 0
    ski := if ov oidSKI then [] else t.ski
    aki := if ov oidAKI then [] else t.aki
    san := if ov oidSAN then ⟨[], [], [], []⟩ else ⟨t.dns, t.email, [], t.ips.map to4⟩
    ocsp := if ov oidAIA then [] else t.ocsp
    issuing := if ov oidAIA then [] else t.issuing
    crldp := if ov oidCRLDP then [] else t.crldp
    policies := if ov oidPolicies then [] else oidContents t.policies }

/-- `expected` with only the first `n` builders taken into account -/
def stage (tbl : List (Nat × List Nat)) (t : Tmpl) (n : Nat) : Fields :=
  let E := expected tbl t
  { keyUsage := if 1 ≤ n then E.keyUsage else 0
    ekuOids := if 2 ≤ n then E.ekuOids else []
    bcValid := if 3 ≤ n then E.bcValid else false
    isCA := if 3 ≤ n then E.isCA else false
    maxPathLen := if 3 ≤ n then E.maxPathLen else 0
    maxPathLenZero := if 3 ≤ n then E.maxPathLenZero else false
    ski := if 4 ≤ n then E.ski else []
    aki := if 5 ≤ n then E.aki else []
    ocsp := if 6 ≤ n then E.ocsp else []
    issuing := if 6 ≤ n then E.issuing else []
    san := if 7 ≤ n then E.san else ⟨[], [], [], []⟩
    policies := if 8 ≤ n then E.policies else []
    crldp := if 10 ≤ n then E.crldp else [] }

theorem stage_zero (tbl : List (Nat × List Nat)) (t : Tmpl) : stage tbl t 0 = {} := by
  simp [stage]

theorem stage_ten (tbl : List (Nat × List Nat)) (t : Tmpl) : stage tbl t 10 = expected tbl t := by
  simp [stage]

theorem mapM_filterMap {α β} (f : α → Option β) : ∀ (l : List α) (os : List β), l.mapM f = some os → os = l.filterMap f := by
  intro l
  induction l with
  | nil => intro os h; simp at h; subst h; rfl
  | cons a l ih =>
    intro os h
    rw [List.mapM_cons] at h
    cases ha : f a with
    | none => simp [ha] at h
    | some b =>
      cases hl : l.mapM f with
      | none => simp [ha, hl] at h
      | some r =>
        simp [ha, hl] at h
        subst h
        simp [ha, ih r hl]

theorem ekuLookup_ok {tbl : List (Nat × List Nat)} (htbl : tbl.all (fun p => oidOk p.2) = true) {u : Nat} {o : List Nat}
    (h : ekuLookup tbl u = some o) : oidOk o = true := by
  unfold ekuLookup at h
  cases hf : tbl.find? (fun p => p.1 == u) with
  | none => simp [hf] at h
  | some p =>
    simp [hf] at h
    subst h
    rw [List.all_eq_true] at htbl
    exact htbl p (List.mem_of_find?_eq_some hf)

end ZV.C04
