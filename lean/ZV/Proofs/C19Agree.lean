import ZV.Model.C19
import ZV.Proofs.Der0
/-!
  Helpers for C19 `codecs_agree_*`: the layer-0 decoders of encoding/asn1 and of cryptobyte compute the same
  function on the common fragment (same contents octets → same accept/reject decision and same value).
-/
namespace ZV.Der0

/-- bound on the accumulator after `i` base-128 groups -/
def b128Bnd : Nat → Nat
  | 0 => 1 | 1 => 128 | 2 => 16384 | 3 => 2097152 | 4 => 268435456 | _ => 34359738368

theorem EA.b128Loop_five (bs : Bytes) (ret : Nat) : EA.b128Loop bs 5 ret = .err := by
  cases bs <;> simp [EA.b128Loop]

theorem CB.b128Loop_five (bs : Bytes) (ret : Nat) : CB.b128Loop bs 5 ret = .err := by
  cases bs <;> simp [CB.b128Loop]

/-- one step of the two loops, for a group index below 4 (the accumulator is far from both limits) -/
theorem b128_step_low (b : UInt8) (rest : Bytes) (i ret : Nat) (hi : i ≤ 3) (hret : ret < 2097152)
    (ih : EA.b128Loop rest (i + 1) (ret * 128 + b.toNat % 128) = CB.b128Loop rest (i + 1) (ret * 128 + b.toNat % 128)) :
    EA.b128Loop (b :: rest) i ret = CB.b128Loop (b :: rest) i ret := by
  have h5 : ¬ i = 5 := by omega
  have h24 : ¬ ret ≥ 16777216 := by omega
  simp only [EA.b128Loop, CB.b128Loop, h5, h24, if_false]
  by_cases h80 : i = 0 ∧ b = 0x80
  · simp [h80]
  · simp only [h80, if_false]
    by_cases hb : b.toNat < 128
    · have : ¬ ret * 128 + b.toNat % 128 > 2147483647 := by omega
      simp [hb, this]
    · simp only [hb, if_false]; exact ih

/-- the last admissible group (index 4): encoding/asn1 tests the result against MaxInt32 afterwards,
    cryptobyte tests the accumulator against 2^24 before shifting — the same condition. -/
theorem b128_step_four (b : UInt8) (rest : Bytes) (ret : Nat) :
    EA.b128Loop (b :: rest) 4 ret = CB.b128Loop (b :: rest) 4 ret := by
  simp only [EA.b128Loop, CB.b128Loop]
  have e1 : ¬ ((4 : Nat) = 5) := by decide
  have e2 : ¬ ((4 : Nat) = 0 ∧ b = 0x80) := by simp
  simp only [e1, e2, if_false]
  by_cases h24 : ret ≥ 16777216
  · have : ret * 128 + b.toNat % 128 > 2147483647 := by omega
    simp [h24, this, EA.b128Loop_five, CB.b128Loop_five]
  · have : ¬ ret * 128 + b.toNat % 128 > 2147483647 := by omega
    simp [h24, this, EA.b128Loop_five, CB.b128Loop_five]

theorem b128Loop_agree (bs : Bytes) : ∀ (i ret : Nat), i ≤ 5 → ret < b128Bnd i →
    EA.b128Loop bs i ret = CB.b128Loop bs i ret := by
  induction bs with
  | nil => intro i ret _ _; simp [EA.b128Loop, CB.b128Loop]
  | cons b rest ih =>
    intro i ret hi hret
    have hb := toNat_lt b
    match i, hi, hret with
    | 0, _, hret => exact b128_step_low b rest 0 ret (by omega) (by simp [b128Bnd] at hret; omega) (ih 1 _ (by omega) (by simp [b128Bnd] at hret ⊢; omega))
    | 1, _, hret => exact b128_step_low b rest 1 ret (by omega) (by simp [b128Bnd] at hret; omega) (ih 2 _ (by omega) (by simp [b128Bnd] at hret ⊢; omega))
    | 2, _, hret => exact b128_step_low b rest 2 ret (by omega) (by simp [b128Bnd] at hret; omega) (ih 3 _ (by omega) (by simp [b128Bnd] at hret ⊢; omega))
    | 3, _, hret => exact b128_step_low b rest 3 ret (by omega) (by simp [b128Bnd] at hret; omega) (ih 4 _ (by omega) (by simp [b128Bnd] at hret ⊢; omega))
    | 4, _, _ => exact b128_step_four b rest ret
    | 5, _, _ => rw [EA.b128Loop_five, CB.b128Loop_five]
    | n + 6, hi, _ => omega

theorem base128_agree (bs : Bytes) : EA.parseBase128Int bs = CB.readBase128Int bs :=
  b128Loop_agree bs 0 0 (by omega) (by simp [b128Bnd])

theorem oidArcs_agree (fuel : Nat) : ∀ bs : Bytes, EA.oidArcs fuel bs = CB.oidArcs fuel bs := by
  induction fuel with
  | zero => intro bs; cases bs <;> simp [EA.oidArcs, CB.oidArcs]
  | succ n ih =>
    intro bs
    cases bs with
    | nil => simp [EA.oidArcs, CB.oidArcs]
    | cons b t => simp only [EA.oidArcs, CB.oidArcs, base128_agree, ih]

end ZV.Der0
