import ZV.Proofs.TimeRT
/-!
  Inversion of `time.Parse` (`ZV.Time.parse`) on ARBITRARY input: what an accepted GeneralizedTime / UTCTime text
  tells about the resulting time (calendar fields in range, year window, zone a whole number of minutes of at
  most 25 hours).  Used for the canonical-decoding theorems.
-/
namespace ZV.Time
open ZV

theorem leadingInt_bound (l : Bytes) : ∀ (x q : Nat), leadingInt x l = some (q, []) → q < (x + 1) * 10 ^ l.length := by
  induction l with
  | nil => intro x q h; simp [leadingInt] at h; subst h; simp
  | cons c r ih =>
    intro x q h
    rw [leadingInt] at h
    split at h
    · simp at h
    · split at h
      · simp at h
      · split at h
        · simp at h
        · rename_i hd _ _
          have := ih _ _ h
          have hc : c.toNat - 48 ≤ 9 := by omega
          calc q < (x * 10 + (c.toNat - 48) + 1) * 10 ^ r.length := this
            _ ≤ ((x + 1) * 10) * 10 ^ r.length := Nat.mul_le_mul_right _ (by omega)
            _ = (x + 1) * 10 ^ (c :: r).length := by rw [List.length_cons, Nat.pow_succ, Nat.mul_assoc, Nat.mul_comm 10]

theorem isDigit_iff (b : UInt8) : isDigit b = true ↔ (48 ≤ b.toNat ∧ b.toNat ≤ 57) := by simp [isDigit]

theorem getnum_inv {s : Bytes} {fixed : Bool} {n : Nat} {r : Bytes} (h : getnum s fixed = some (n, r)) :
    n < 100 ∧ r.length < s.length := by
  unfold getnum at h
  split at h
  · simp at h
  · rename_i a r1
    split at h
    · simp at h
    · rename_i ha
      have ha' := (isDigit_iff a).1 (by simpa using ha)
      split at h
      · split at h
        · simp at h
        · simp only [Option.some.injEq, Prod.mk.injEq] at h; obtain ⟨h1, h2⟩ := h; subst h1 h2
          exact ⟨by omega, by simp⟩
      · rename_i b r2
        split at h
        · split at h
          · simp at h
          · simp only [Option.some.injEq, Prod.mk.injEq] at h; obtain ⟨h1, h2⟩ := h; subst h1 h2
            exact ⟨by omega, by simp⟩
        · rename_i hb
          have hb' := (isDigit_iff b).1 (by simpa using hb)
          simp only [Option.some.injEq, Prod.mk.injEq] at h; obtain ⟨h1, h2⟩ := h; subst h1 h2
          exact ⟨by omega, by simp only [List.length_cons]; omega⟩

/-- a four-character year that starts with a digit -/
theorem atoi_four_inv (s : Bytes) (hl : s.length = 4) (hd : isDigitAt s 0 = true) (y : Int) (h : atoi s = some y) :
    0 ≤ y ∧ y ≤ 9999 := by
  match s, hl, hd with
  | a :: r, hl, hd =>
    simp only [isDigitAt, List.drop_zero] at hd
    have ha := (isDigit_iff a).1 hd
    have e1 : ¬ (a.toNat = 45) := by omega
    have e2 : ¬ (a.toNat = 43) := by omega
    simp only [atoi, e1, e2, or_self, if_false, decide_false] at h
    split at h
    · simp at h
    · rename_i q rem hq
      split at h
      · simp at h
      · rename_i hrem
        have hrem' : rem = [] := by simpa using hrem
        subst hrem'
        have := leadingInt_bound _ _ _ hq
        rw [hl] at this
        simp only [Option.some.injEq] at h
        simp at h
        omega

/-- a two-character year (a sign is possible: `atoi`) -/
theorem atoi_two_inv (s : Bytes) (hl : s.length = 2) (y : Int) (h : atoi s = some y) : -9 ≤ y ∧ y ≤ 99 := by
  match s, hl with
  | [a, b], _ =>
    simp only [atoi] at h
    split at h
    · simp at h
    · rename_i q rem hq
      split at h
      · simp at h
      · rename_i hrem
        have hrem' : rem = [] := by simpa using hrem
        subst hrem'
        simp only [Option.some.injEq] at h
        by_cases hs : a.toNat = 45 ∨ a.toNat = 43
        · simp only [hs, if_true] at hq
          have := leadingInt_bound _ _ _ hq
          simp only [List.length_cons, List.length_nil] at this
          split at h <;> omega
        · simp only [hs, if_false] at hq
          have := leadingInt_bound _ _ _ hq
          simp only [List.length_cons, List.length_nil] at this
          have : ¬ (a.toNat = 45) := by omega
          simp only [this, decide_false, Bool.false_eq_true, if_false] at h
          omega

/-! ## one iteration, inverted -/

theorem step_year_inv {st st' : PState} {v v' : Bytes} (h : step .year st v = some (st', v')) :
    ∃ y : Int, -9 ≤ y ∧ y ≤ 99 ∧ st' = { st with year := if y ≥ 69 then y + 1900 else y + 2000 } := by
  simp only [step] at h
  split at h
  · simp at h
  · rename_i hl
    split at h
    · simp at h
    · rename_i y hy
      simp only [Option.some.injEq, Prod.mk.injEq] at h
      have := atoi_two_inv (v.take 2) (by simp only [List.length_take]; omega) y hy
      exact ⟨y, this.1, this.2, h.1.symm⟩

theorem step_longYear_inv {st st' : PState} {v v' : Bytes} (h : step .longYear st v = some (st', v')) :
    ∃ y : Int, 0 ≤ y ∧ y ≤ 9999 ∧ st' = { st with year := y } := by
  simp only [step] at h
  split at h
  · simp at h
  · rename_i hl
    have hl' : ¬ (v.length < 4) ∧ isDigitAt v 0 = true := by
      constructor
      · intro hc; exact hl (Or.inl hc)
      · cases hd : isDigitAt v 0
        · exact absurd (Or.inr (by simp [hd])) hl
        · rfl
    split at h
    · simp at h
    · rename_i y hy
      simp only [Option.some.injEq, Prod.mk.injEq] at h
      have hd4 : isDigitAt (v.take 4) 0 = true := by
        have := hl'.2
        match v, hl'.1 with
        | a :: r, _ => simpa [isDigitAt] using this
      have := atoi_four_inv (v.take 4) (by simp only [List.length_take]; omega) hd4 y hy
      exact ⟨y, this.1, this.2, h.1.symm⟩

theorem step_zeroMonth_inv {st st' : PState} {v v' : Bytes} (h : step .zeroMonth st v = some (st', v')) :
    ∃ m : Nat, 1 ≤ m ∧ m ≤ 12 ∧ st' = { st with month := (m : Int) } := by
  simp only [step] at h
  split at h
  · simp at h
  · rename_i m r _
    split at h
    · simp at h
    · simp only [Option.some.injEq, Prod.mk.injEq] at h
      exact ⟨m, by omega, by omega, h.1.symm⟩

theorem step_zeroDay_inv {st st' : PState} {v v' : Bytes} (h : step .zeroDay st v = some (st', v')) :
    ∃ d : Nat, d < 100 ∧ st' = { st with day := (d : Int) } := by
  simp only [step] at h
  split at h
  · simp at h
  · rename_i d r hg
    simp only [Option.some.injEq, Prod.mk.injEq] at h
    exact ⟨d, (getnum_inv hg).1, h.1.symm⟩

theorem step_hour_inv {st st' : PState} {v v' : Bytes} (h : step .hour st v = some (st', v')) :
    ∃ x : Nat, x < 24 ∧ st' = { st with hour := x } := by
  simp only [step] at h
  split at h
  · simp at h
  · rename_i x r _
    split at h
    · simp at h
    · simp only [Option.some.injEq, Prod.mk.injEq] at h
      exact ⟨x, by omega, h.1.symm⟩

theorem step_zeroMinute_inv {st st' : PState} {v v' : Bytes} (h : step .zeroMinute st v = some (st', v')) :
    ∃ x : Nat, x < 60 ∧ st' = { st with min := x } := by
  simp only [step] at h
  split at h
  · simp at h
  · rename_i x r _
    split at h
    · simp at h
    · simp only [Option.some.injEq, Prod.mk.injEq] at h
      exact ⟨x, by omega, h.1.symm⟩

theorem step_zeroSecond_inv {st st' : PState} {v v' : Bytes} (h : step .zeroSecond st v = some (st', v')) :
    ∃ x : Nat, x < 60 ∧ ∃ ns : Nat, st' = { st with sec := x, nsec := ns } := by
  simp only [step] at h
  split at h
  · simp at h
  · rename_i x r _
    split at h
    · simp at h
    · split at h
      · split at h
        · simp only [Option.some.injEq, Prod.mk.injEq] at h
          exact ⟨x, by omega, _, h.1.symm⟩
        · simp only [Option.some.injEq, Prod.mk.injEq] at h
          exact ⟨x, by omega, st.nsec, h.1.symm⟩
      · simp only [Option.some.injEq, Prod.mk.injEq] at h
        exact ⟨x, by omega, st.nsec, h.1.symm⟩

theorem step_isoTZ_inv {st st' : PState} {v v' : Bytes} (h : step .isoTZ st v = some (st', v')) :
    st' = { st with utc := true } ∨ ∃ k : Int, -1500 ≤ k ∧ k ≤ 1500 ∧ st' = { st with zoneOffset := 60 * k } := by
  simp only [step] at h
  split at h
  · simp at h
  · split at h
    · simp only [Option.some.injEq, Prod.mk.injEq] at h
      exact Or.inl h.1.symm
    · split at h
      · simp at h
      · split at h
        · rename_i hr _ mm _ hg1 hg2
          have b1 := (getnum_inv hg1).1
          split at h
          · simp at h
          · rename_i hrange
            split at h
            · simp only [Option.some.injEq, Prod.mk.injEq] at h
              refine Or.inr ⟨(hr * 60 + mm : Nat), by omega, by omega, ?_⟩
              rw [← h.1]; congr 1; omega
            · split at h
              · simp only [Option.some.injEq, Prod.mk.injEq] at h
                refine Or.inr ⟨-((hr * 60 + mm : Nat) : Int), by omega, by omega, ?_⟩
                rw [← h.1]; congr 1; omega
              · simp at h
        · simp at h

theorem parseLoop_cons_inv {c : Std} {cs : List Std} {st st' : PState} {v : Bytes}
    (h : parseLoop (c :: cs) st v = some st') :
    ∃ st1 v1, step c st v = some (st1, v1) ∧ parseLoop cs st1 v1 = some st' := by
  rw [parseLoop] at h
  split at h
  · simp at h
  · rename_i st1 v1 hs
    exact ⟨st1, v1, hs, h⟩

theorem parseLoop_nil_inv {st st' : PState} {v : Bytes} (h : parseLoop [] st v = some st') : st' = st := by
  rw [parseLoop] at h
  split at h
  · simpa using h.symm
  · simp at h

/-! ## the whole loop, inverted -/

/-- what every successful run of the loop over one of the three layouts establishes -/
def Fields (st : PState) : Prop :=
  1 ≤ st.month ∧ st.month ≤ 12 ∧ 0 ≤ st.day ∧ st.hour < 24 ∧ st.min < 60 ∧ st.sec < 60 ∧
  (st.utc = true ∨ (st.utc = false ∧ ∃ k : Int, st.zoneOffset = 60 * k ∧ -1500 ≤ k ∧ k ≤ 1500))

theorem parseLoop_gen_inv {s : Bytes} {st : PState} (h : parseLoop layoutGen {} s = some st) :
    Fields st ∧ 0 ≤ st.year ∧ st.year ≤ 9999 := by
  obtain ⟨s1, v1, h1, h⟩ := parseLoop_cons_inv h
  obtain ⟨s2, v2, h2, h⟩ := parseLoop_cons_inv h
  obtain ⟨s3, v3, h3, h⟩ := parseLoop_cons_inv h
  obtain ⟨s4, v4, h4, h⟩ := parseLoop_cons_inv h
  obtain ⟨s5, v5, h5, h⟩ := parseLoop_cons_inv h
  obtain ⟨s6, v6, h6, h⟩ := parseLoop_cons_inv h
  obtain ⟨s7, v7, h7, h⟩ := parseLoop_cons_inv h
  have h8 := parseLoop_nil_inv h
  obtain ⟨y, hy0, hy1, e1⟩ := step_longYear_inv h1
  obtain ⟨m, hm0, hm1, e2⟩ := step_zeroMonth_inv h2
  obtain ⟨d, _, e3⟩ := step_zeroDay_inv h3
  obtain ⟨hh, hh1, e4⟩ := step_hour_inv h4
  obtain ⟨mi, hmi, e5⟩ := step_zeroMinute_inv h5
  obtain ⟨sec, hsec, ns, e6⟩ := step_zeroSecond_inv h6
  subst e1 e2 e3 e4 e5 e6 h8
  rcases step_isoTZ_inv h7 with e7 | ⟨k, hk0, hk1, e7⟩ <;> subst e7
  · exact ⟨⟨by simp only []; omega, by simp only []; omega, by simp only []; omega, hh1, hmi, hsec, Or.inl rfl⟩, hy0, hy1⟩
  · exact ⟨⟨by simp only []; omega, by simp only []; omega, by simp only []; omega, hh1, hmi, hsec,
      Or.inr ⟨rfl, k, rfl, hk0, hk1⟩⟩, hy0, hy1⟩

theorem parseLoop_utcsec_inv {s : Bytes} {st : PState} (h : parseLoop layoutUTCSec {} s = some st) :
    Fields st ∧ 1969 ≤ st.year ∧ st.year ≤ 2068 := by
  obtain ⟨s1, v1, h1, h⟩ := parseLoop_cons_inv h
  obtain ⟨s2, v2, h2, h⟩ := parseLoop_cons_inv h
  obtain ⟨s3, v3, h3, h⟩ := parseLoop_cons_inv h
  obtain ⟨s4, v4, h4, h⟩ := parseLoop_cons_inv h
  obtain ⟨s5, v5, h5, h⟩ := parseLoop_cons_inv h
  obtain ⟨s6, v6, h6, h⟩ := parseLoop_cons_inv h
  obtain ⟨s7, v7, h7, h⟩ := parseLoop_cons_inv h
  have h8 := parseLoop_nil_inv h
  obtain ⟨y, hy0, hy1, e1⟩ := step_year_inv h1
  obtain ⟨m, hm0, hm1, e2⟩ := step_zeroMonth_inv h2
  obtain ⟨d, _, e3⟩ := step_zeroDay_inv h3
  obtain ⟨hh, hh1, e4⟩ := step_hour_inv h4
  obtain ⟨mi, hmi, e5⟩ := step_zeroMinute_inv h5
  obtain ⟨sec, hsec, ns, e6⟩ := step_zeroSecond_inv h6
  subst e1 e2 e3 e4 e5 e6 h8
  have hyr : 1969 ≤ (if y ≥ 69 then y + 1900 else y + 2000) ∧ (if y ≥ 69 then y + 1900 else y + 2000) ≤ 2068 := by
    split <;> omega
  rcases step_isoTZ_inv h7 with e7 | ⟨k, hk0, hk1, e7⟩ <;> subst e7
  · exact ⟨⟨by simp only []; omega, by simp only []; omega, by simp only []; omega, hh1, hmi, hsec, Or.inl rfl⟩, hyr⟩
  · exact ⟨⟨by simp only []; omega, by simp only []; omega, by simp only []; omega, hh1, hmi, hsec,
      Or.inr ⟨rfl, k, rfl, hk0, hk1⟩⟩, hyr⟩

theorem parseLoop_utcmin_inv {s : Bytes} {st : PState} (h : parseLoop layoutUTCMin {} s = some st) :
    Fields st ∧ 1969 ≤ st.year ∧ st.year ≤ 2068 := by
  obtain ⟨s1, v1, h1, h⟩ := parseLoop_cons_inv h
  obtain ⟨s2, v2, h2, h⟩ := parseLoop_cons_inv h
  obtain ⟨s3, v3, h3, h⟩ := parseLoop_cons_inv h
  obtain ⟨s4, v4, h4, h⟩ := parseLoop_cons_inv h
  obtain ⟨s5, v5, h5, h⟩ := parseLoop_cons_inv h
  obtain ⟨s7, v7, h7, h⟩ := parseLoop_cons_inv h
  have h8 := parseLoop_nil_inv h
  obtain ⟨y, hy0, hy1, e1⟩ := step_year_inv h1
  obtain ⟨m, hm0, hm1, e2⟩ := step_zeroMonth_inv h2
  obtain ⟨d, _, e3⟩ := step_zeroDay_inv h3
  obtain ⟨hh, hh1, e4⟩ := step_hour_inv h4
  obtain ⟨mi, hmi, e5⟩ := step_zeroMinute_inv h5
  subst e1 e2 e3 e4 e5 h8
  have hyr : 1969 ≤ (if y ≥ 69 then y + 1900 else y + 2000) ∧ (if y ≥ 69 then y + 1900 else y + 2000) ≤ 2068 := by
    split <;> omega
  rcases step_isoTZ_inv h7 with e7 | ⟨k, hk0, hk1, e7⟩ <;> subst e7
  · exact ⟨⟨by simp only []; omega, by simp only []; omega, by simp only []; omega, hh1, hmi, by simp only []; omega,
      Or.inl rfl⟩, hyr⟩
  · exact ⟨⟨by simp only []; omega, by simp only []; omega, by simp only []; omega, hh1, hmi, by simp only []; omega,
      Or.inr ⟨rfl, k, rfl, hk0, hk1⟩⟩, hyr⟩

/-- the broken-down time that `finish` hands to `Date` -/
def civilOfState (st : PState) (o : Int) : Civil :=
  { year := st.year, month := st.month.toNat, day := st.day.toNat, hour := st.hour, min := st.min, sec := st.sec,
    off := o }

/-- the time that `finish` builds: a valid broken-down time in a zone of whole minutes (at most 25 hours) -/
theorem finish_inv {st : PState} {t : GoTime} (hf : Fields st) (h : finish st = some t) :
    ∃ c : Civil, c.valid = true ∧ c.year = st.year ∧ (∃ k : Int, c.off = 60 * k ∧ -1500 ≤ k ∧ k ≤ 1500) ∧
      t.unix = toUnix c ∧ t.off = c.off ∧ t.nsec = st.nsec := by
  obtain ⟨hm0, hm1, hd0, hh, hmi, hs, hz⟩ := hf
  simp only [finish] at h
  have e1 : ¬ (st.month < 0) := by omega
  have e2 : ¬ (st.day < 0) := by omega
  simp only [e1, e2, if_false] at h
  split at h
  · simp at h
  · rename_i hday
    have hvalid : ∀ o : Int, (civilOfState st o).valid = true := by
      intro o
      rw [valid_iff]
      simp only [civilOfState]
      refine ⟨by omega, by omega, by omega, by omega, hh, hmi, hs⟩
    rcases hz with hu | ⟨hu, k, hk, hk0, hk1⟩
    · simp only [hu, if_true, Option.some.injEq] at h
      subst h
      exact ⟨civilOfState st 0, hvalid 0, rfl, ⟨0, by simp [civilOfState], by omega, by omega⟩, rfl, rfl, rfl⟩
    · have hne : st.zoneOffset ≠ -1 := by omega
      simp only [hu, Bool.false_eq_true, if_false, ne_eq, hne, not_false_eq_true, if_true, Option.some.injEq] at h
      subst h
      refine ⟨civilOfState st st.zoneOffset, hvalid _, rfl, ⟨k, hk, hk0, hk1⟩, ?_, rfl, rfl⟩
      simp only [date, toUnix, civilOfState]
      omega

/-- the broken-down time of such a result is the `c` it was built from -/
theorem civil_of_built {t : GoTime} {c : Civil} (hv : c.valid = true) (hu : t.unix = toUnix c) (ho : t.off = c.off) :
    t.civil = c := by
  simp only [GoTime.civil, hu, ho]
  exact ofUnix_toUnix c hv

/-! ## accepted texts -/

/-- facts about any time returned by `time.Parse` with one of the three layouts -/
structure Parsed (t : GoTime) (ylo yhi : Int) : Prop where
  year_lo : ylo ≤ t.year
  year_hi : t.year ≤ yhi
  zone : ∃ k : Int, t.off = 60 * k ∧ -1500 ≤ k ∧ k ≤ 1500

theorem parsed_of_finish {st : PState} {t : GoTime} {ylo yhi : Int} (hf : Fields st) (hy0 : ylo ≤ st.year)
    (hy1 : st.year ≤ yhi) (h : finish st = some t) : Parsed t ylo yhi := by
  obtain ⟨c, hv, hy, hz, hu, ho, _⟩ := finish_inv hf h
  have hc := civil_of_built hv hu ho
  refine ⟨?_, ?_, ?_⟩
  · simp only [GoTime.year, hc, hy]; exact hy0
  · simp only [GoTime.year, hc, hy]; exact hy1
  · rw [ho]; exact hz

theorem parse_gen_facts {s : Bytes} {t : GoTime} (h : parse layoutGen s = some t) : Parsed t 0 9999 := by
  simp only [parse] at h
  split at h
  · simp at h
  · rename_i st hst
    obtain ⟨hf, hy0, hy1⟩ := parseLoop_gen_inv hst
    exact parsed_of_finish hf hy0 hy1 h

theorem parse_utcsec_facts {s : Bytes} {t : GoTime} (h : parse layoutUTCSec s = some t) : Parsed t 1969 2068 := by
  simp only [parse] at h
  split at h
  · simp at h
  · rename_i st hst
    obtain ⟨hf, hy0, hy1⟩ := parseLoop_utcsec_inv hst
    exact parsed_of_finish hf hy0 hy1 h

theorem parse_utcmin_facts {s : Bytes} {t : GoTime} (h : parse layoutUTCMin s = some t) : Parsed t 1969 2068 := by
  simp only [parse] at h
  split at h
  · simp at h
  · rename_i st hst
    obtain ⟨hf, hy0, hy1⟩ := parseLoop_utcmin_inv hst
    exact parsed_of_finish hf hy0 hy1 h

theorem zone_ok_of_mul {off k : Int} (h : off = 60 * k) : off = 0 ∨ Int.tdiv off 60 ≠ 0 := by
  rw [h, tdiv_mul60]; omega

/-- for a zone of whole minutes (below 100 hours) the encoder of `encoding/asn1` and `Time.Format` agree -/
theorem appendGeneralizedTime_eq_format {t : GoTime} (p : Parsed t 0 9999) :
    EA.appendGeneralizedTime t = .ok (format layoutGen t) := by
  obtain ⟨k, hk, hk0, hk1⟩ := p.zone
  rw [appendGeneralizedTime_eq t p.year_lo p.year_hi,
    format_gen_eq t p.year_lo p.year_hi (by omega) (by omega) (zone_ok_of_mul hk)]
  rfl

theorem appendUTCTime_eq_format {t : GoTime} {ylo yhi : Int} (p : Parsed t ylo yhi) (h0 : 1950 ≤ t.year)
    (h1 : t.year < 2050) : EA.appendUTCTime t = .ok (format layoutUTCSec t) := by
  obtain ⟨k, hk, hk0, hk1⟩ := p.zone
  rw [appendUTCTime_eq t h0 h1, format_utcsec_eq t (by omega) (by omega) (zone_ok_of_mul hk)]
  rfl

/-- a date of the years 2050..2068 is also a date one century earlier (29 February included) -/
theorem valid_minus100 (c : Civil) (hv : c.valid = true) (h0 : 2050 ≤ c.year) (h1 : c.year ≤ 2068) :
    ({ c with year := c.year + -100 } : Civil).valid = true := by
  obtain ⟨hm1, hm2, hd1, hd2, hh, hmi, hs⟩ := (valid_iff c).1 hv
  rw [valid_iff]
  refine ⟨hm1, hm2, hd1, ?_, hh, hmi, hs⟩
  simp only
  rcases daysIn_cases c.month c.year hm1 hm2 with ⟨h, e⟩ | ⟨h, e⟩ | ⟨h, e⟩ <;>
    rcases daysIn_cases c.month (c.year + -100) hm1 hm2 with ⟨h', e'⟩ | ⟨h', e'⟩ | ⟨h', e'⟩ <;>
    (try omega)
  rw [e'] ; rw [e] at hd2
  split at hd2 <;> split <;> omega

/-- the `AddDate(-100, 0, 0)` step of the UTCTime parsers: same text, year in 1950..1968 -/
theorem addYears_minus100 (ret : GoTime) (h0 : 2050 ≤ ret.year) (h1 : ret.year ≤ 2068) :
    (addYears ret (-100)).civil = { ret.civil with year := ret.year + -100 } ∧
    (addYears ret (-100)).off = ret.off := by
  have hv := valid_minus100 ret.civil (ofUnix_valid _ _) h0 h1
  refine ⟨?_, rfl⟩
  exact civil_of_built hv rfl rfl

theorem appendUTCTime_minus100 {ret : GoTime} {ylo yhi : Int} (p : Parsed ret ylo yhi) (h0 : 2050 ≤ ret.year)
    (h1 : ret.year ≤ 2068) : EA.appendUTCTime (addYears ret (-100)) = .ok (format layoutUTCSec ret) := by
  obtain ⟨k, hk, hk0, hk1⟩ := p.zone
  obtain ⟨hc, ho⟩ := addYears_minus100 ret h0 h1
  have hy : (addYears ret (-100)).year = ret.year + -100 := by simp only [GoTime.year, hc]
  rw [appendUTCTime_eq _ (by omega) (by omega), format_utcsec_eq ret (by omega) (by omega) (zone_ok_of_mul hk)]
  simp only [utcText, hy, hc, ho, fieldsText]
  have : (ret.year + -100).natAbs % 100 = ret.year.natAbs % 100 := by omega
  rw [this]

/-! ## the two UTCTime layouts exclude each other -/

theorem step_isoTZ_head {st st' : PState} {v v' : Bytes} (h : step .isoTZ st v = some (st', v')) :
    ∃ c0 r, v = c0 :: r ∧ (c0.toNat = 90 ∨ c0.toNat = 43 ∨ c0.toNat = 45) := by
  simp only [step] at h
  split at h
  · simp at h
  · rename_i c0 r
    refine ⟨c0, r, rfl, ?_⟩
    split at h
    · rename_i h90; exact Or.inl h90
    · split at h
      · simp at h
      · split at h
        · split at h
          · simp at h
          · split at h
            · rename_i h43; exact Or.inr (Or.inl h43)
            · split at h
              · rename_i h45; exact Or.inr (Or.inr h45)
              · simp at h
        · simp at h

theorem step_zeroSecond_head {st st' : PState} {v v' : Bytes} (h : step .zeroSecond st v = some (st', v')) :
    ∃ c0 r, v = c0 :: r ∧ 48 ≤ c0.toNat ∧ c0.toNat ≤ 57 := by
  simp only [step] at h
  split at h
  · simp at h
  · rename_i x r hg
    unfold getnum at hg
    split at hg
    · simp at hg
    · rename_i a r1
      split at hg
      · simp at hg
      · rename_i ha
        exact ⟨a, r1, rfl, (isDigit_iff a).1 (by simpa using ha)⟩

/-- both layouts run the same five chunks first -/
theorem utc_common {L : List Std} {s : Bytes} {st : PState}
    (h : parseLoop (.year :: .zeroMonth :: .zeroDay :: .hour :: .zeroMinute :: L) {} s = some st) :
    ∃ st5 v5, parseLoop L st5 v5 = some st ∧
      ∀ L' : List Std, parseLoop (.year :: .zeroMonth :: .zeroDay :: .hour :: .zeroMinute :: L') {} s = parseLoop L' st5 v5 := by
  obtain ⟨s1, v1, h1, h⟩ := parseLoop_cons_inv h
  obtain ⟨s2, v2, h2, h⟩ := parseLoop_cons_inv h
  obtain ⟨s3, v3, h3, h⟩ := parseLoop_cons_inv h
  obtain ⟨s4, v4, h4, h⟩ := parseLoop_cons_inv h
  obtain ⟨s5, v5, h5, h⟩ := parseLoop_cons_inv h
  refine ⟨s5, v5, h, ?_⟩
  intro L'
  rw [parseLoop, h1]; simp only
  rw [parseLoop, h2]; simp only
  rw [parseLoop, h3]; simp only
  rw [parseLoop, h4]; simp only
  rw [parseLoop, h5]

theorem utcmin_excludes_sec {s : Bytes} {t : GoTime} (h : parse layoutUTCMin s = some t) : parse layoutUTCSec s = none := by
  simp only [parse] at h ⊢
  split at h
  · simp at h
  · rename_i st hst
    obtain ⟨st5, v5, hl, hcommon⟩ := utc_common (L := [.isoTZ]) hst
    obtain ⟨s6, v6, h6, _⟩ := parseLoop_cons_inv hl
    obtain ⟨c0, r, hv, hc0⟩ := step_isoTZ_head h6
    have : parseLoop layoutUTCSec {} s = none := by
      rw [show layoutUTCSec = .year :: .zeroMonth :: .zeroDay :: .hour :: .zeroMinute :: [.zeroSecond, .isoTZ] from rfl,
        hcommon, parseLoop]
      cases hz : step .zeroSecond st5 v5 with
      | none => rfl
      | some x =>
        obtain ⟨c0', r', hv', hd⟩ := step_zeroSecond_head (st' := x.1) (v' := x.2) (by rw [hz])
        rw [hv] at hv'
        simp only [List.cons.injEq] at hv'
        rw [← hv'.1] at hd
        omega
    rw [this]

theorem utcsec_excludes_min {s : Bytes} {t : GoTime} (h : parse layoutUTCSec s = some t) : parse layoutUTCMin s = none := by
  cases hm : parse layoutUTCMin s with
  | none => rfl
  | some t' => rw [utcmin_excludes_sec hm] at h; simp at h

/-! ## an accepted text has no fractional second -/

theorem getnum_suffix {s : Bytes} {fixed : Bool} {n : Nat} {r : Bytes} (h : getnum s fixed = some (n, r)) :
    ∃ pre, s = pre ++ r := by
  unfold getnum at h
  split at h
  · simp at h
  · rename_i a r1
    split at h
    · simp at h
    · split at h
      · split at h
        · simp at h
        · simp only [Option.some.injEq, Prod.mk.injEq] at h; exact ⟨[a], by rw [← h.2]; rfl⟩
      · rename_i b r2
        split at h
        · split at h
          · simp at h
          · simp only [Option.some.injEq, Prod.mk.injEq] at h; exact ⟨[a], by rw [← h.2]; rfl⟩
        · simp only [Option.some.injEq, Prod.mk.injEq] at h; exact ⟨[a, b], by rw [← h.2]; rfl⟩

theorem drop_suffix (v : Bytes) (n : Nat) : ∃ pre, v = pre ++ v.drop n := ⟨v.take n, (List.take_append_drop n v).symm⟩

/-- every chunk consumes a prefix of the value -/
theorem step_suffix {c : Std} {st st' : PState} {v v' : Bytes} (h : step c st v = some (st', v')) :
    ∃ pre, v = pre ++ v' := by
  cases c <;> simp only [step] at h
  · -- year
    split at h
    · simp at h
    · split at h
      · simp at h
      · simp only [Option.some.injEq, Prod.mk.injEq] at h; rw [← h.2]; exact drop_suffix v 2
  · -- longYear
    split at h
    · simp at h
    · split at h
      · simp at h
      · simp only [Option.some.injEq, Prod.mk.injEq] at h; rw [← h.2]; exact drop_suffix v 4
  · -- zeroMonth
    split at h
    · simp at h
    · rename_i m r hg
      split at h
      · simp at h
      · simp only [Option.some.injEq, Prod.mk.injEq] at h; rw [← h.2]; exact getnum_suffix hg
  · -- zeroDay
    split at h
    · simp at h
    · rename_i m r hg
      simp only [Option.some.injEq, Prod.mk.injEq] at h; rw [← h.2]; exact getnum_suffix hg
  · -- hour
    split at h
    · simp at h
    · rename_i m r hg
      split at h
      · simp at h
      · simp only [Option.some.injEq, Prod.mk.injEq] at h; rw [← h.2]; exact getnum_suffix hg
  · -- zeroMinute
    split at h
    · simp at h
    · rename_i m r hg
      split at h
      · simp at h
      · simp only [Option.some.injEq, Prod.mk.injEq] at h; rw [← h.2]; exact getnum_suffix hg
  · -- zeroSecond
    split at h
    · simp at h
    · rename_i m r hg
      obtain ⟨pre, hpre⟩ := getnum_suffix hg
      split at h
      · simp at h
      · split at h
        · rename_i c0 c1 r2
          split at h
          · simp only [Option.some.injEq, Prod.mk.injEq] at h
            rw [← h.2]
            obtain ⟨p2, hp2⟩ := drop_suffix (c0 :: c1 :: r2) (2 + digitRun r2)
            exact ⟨pre ++ p2, by rw [List.append_assoc, ← hp2]; exact hpre⟩
          · simp only [Option.some.injEq, Prod.mk.injEq] at h; rw [← h.2]; exact ⟨pre, hpre⟩
        · simp only [Option.some.injEq, Prod.mk.injEq] at h; rw [← h.2]; exact ⟨pre, hpre⟩
  · -- isoTZ
    split at h
    · simp at h
    · rename_i c0 r
      split at h
      · simp only [Option.some.injEq, Prod.mk.injEq] at h; rw [← h.2]; exact ⟨[c0], rfl⟩
      · split at h
        · simp at h
        · split at h
          · split at h
            · simp at h
            · split at h
              · simp only [Option.some.injEq, Prod.mk.injEq] at h; rw [← h.2]; exact drop_suffix _ 5
              · split at h
                · simp only [Option.some.injEq, Prod.mk.injEq] at h; rw [← h.2]; exact drop_suffix _ 5
                · simp at h
          · simp at h

/-- the seconds chunk leaves `nsec` alone unless the value contains a comma or period -/
theorem step_zeroSecond_nsec {st st' : PState} {v v' : Bytes} (h : step .zeroSecond st v = some (st', v'))
    (hv : ∀ b ∈ v, commaOrPeriod b = false) : st'.nsec = st.nsec := by
  simp only [step] at h
  split at h
  · simp at h
  · rename_i m r hg
    obtain ⟨pre, hpre⟩ := getnum_suffix hg
    split at h
    · simp at h
    · split at h
      · rename_i c0 c1 r2
        have : commaOrPeriod c0 = false := hv c0 (by rw [hpre]; simp)
        simp only [this, Bool.false_and, Bool.false_eq_true, if_false, Option.some.injEq, Prod.mk.injEq] at h
        rw [← h.1]
      · simp only [Option.some.injEq, Prod.mk.injEq] at h; rw [← h.1]

theorem step_other_nsec {c : Std} {st st' : PState} {v v' : Bytes} (hc : c ≠ .zeroSecond)
    (h : step c st v = some (st', v')) : st'.nsec = st.nsec := by
  cases c
  · obtain ⟨_, _, _, e⟩ := step_year_inv h; rw [e]
  · obtain ⟨_, _, _, e⟩ := step_longYear_inv h; rw [e]
  · obtain ⟨_, _, _, e⟩ := step_zeroMonth_inv h; rw [e]
  · obtain ⟨_, _, e⟩ := step_zeroDay_inv h; rw [e]
  · obtain ⟨_, _, e⟩ := step_hour_inv h; rw [e]
  · obtain ⟨_, _, e⟩ := step_zeroMinute_inv h; rw [e]
  · exact absurd rfl hc
  · rcases step_isoTZ_inv h with e | ⟨_, _, _, e⟩ <;> rw [e]

theorem parseLoop_nsec (L : List Std) : ∀ (st st' : PState) (v : Bytes), parseLoop L st v = some st' →
    (∀ b ∈ v, commaOrPeriod b = false) → st'.nsec = st.nsec := by
  induction L with
  | nil => intro st st' v h _; rw [parseLoop_nil_inv h]
  | cons c cs ih =>
    intro st st' v h hv
    obtain ⟨st1, v1, h1, h2⟩ := parseLoop_cons_inv h
    obtain ⟨pre, hpre⟩ := step_suffix h1
    have hv1 : ∀ b ∈ v1, commaOrPeriod b = false := fun b hb => hv b (by rw [hpre]; simp [hb])
    rw [ih st1 st' v1 h2 hv1]
    by_cases hc : c = .zeroSecond
    · subst hc; exact step_zeroSecond_nsec h1 hv
    · exact step_other_nsec hc h1

/-- the texts `Format` writes contain no comma or period -/
theorem digit_ncp (n : Nat) : commaOrPeriod (digit n) = false := commaOrPeriod_digit n

theorem zoneText_ncp (off : Int) : ∀ b ∈ zoneText off, commaOrPeriod b = false := by
  intro b hb
  unfold zoneText at hb
  split at hb
  · simp only [List.mem_singleton] at hb; subst hb; decide
  · simp only [EA.twoDigits, List.cons_append, List.nil_append, List.mem_cons, List.not_mem_nil, or_false] at hb
    rcases hb with h | h | h | h | h <;> subst h
    · split <;> decide
    all_goals exact digit_ncp _

theorem fieldsText_ncp (c : Civil) : ∀ b ∈ fieldsText c, commaOrPeriod b = false := by
  intro b hb
  simp only [fieldsText, EA.twoDigits, List.cons_append, List.nil_append, List.mem_cons, List.not_mem_nil, or_false] at hb
  rcases hb with h | h | h | h | h | h | h | h | h | h <;> subst h <;> exact digit_ncp _

theorem genText_ncp (t : GoTime) : ∀ b ∈ genText t, commaOrPeriod b = false := by
  intro b hb
  simp only [genText, EA.fourDigits, List.cons_append, List.nil_append, List.mem_cons, List.mem_append] at hb
  rcases hb with h | h | h | h | h | h
  · subst h; exact digit_ncp _
  · subst h; exact digit_ncp _
  · subst h; exact digit_ncp _
  · subst h; exact digit_ncp _
  · exact fieldsText_ncp _ b h
  · exact zoneText_ncp _ b h

theorem utcText_ncp (t : GoTime) : ∀ b ∈ utcText t, commaOrPeriod b = false := by
  intro b hb
  simp only [utcText, EA.twoDigits, List.cons_append, List.nil_append, List.mem_cons, List.mem_append] at hb
  rcases hb with h | h | h | h
  · subst h; exact digit_ncp _
  · subst h; exact digit_ncp _
  · exact fieldsText_ncp _ b h
  · exact zoneText_ncp _ b h

/-- **an accepted time has no fractional part**: `time.Parse` reads `.5`, but a text that `Format` reproduces
    contains no comma or period. -/
theorem whole_seconds_gen {s : Bytes} {t : GoTime} (hp : parse layoutGen s = some t) (hf : format layoutGen t = s) :
    t.nsec = 0 := by
  have p := parse_gen_facts hp
  obtain ⟨k, hk, hk0, hk1⟩ := p.zone
  have hs : s = genText t := by
    rw [← hf, format_gen_eq t p.year_lo p.year_hi (by omega) (by omega) (zone_ok_of_mul hk)]; rfl
  simp only [parse] at hp
  split at hp
  · simp at hp
  · rename_i st hst
    obtain ⟨hfl, _, _⟩ := parseLoop_gen_inv hst
    obtain ⟨c, _, _, _, _, _, hn⟩ := finish_inv hfl hp
    rw [hn, parseLoop_nsec _ _ _ _ hst (by rw [hs]; exact genText_ncp t)]

theorem whole_seconds_utcsec {s : Bytes} {t : GoTime} (hp : parse layoutUTCSec s = some t)
    (hf : format layoutUTCSec t = s) : t.nsec = 0 := by
  have p := parse_utcsec_facts hp
  obtain ⟨k, hk, hk0, hk1⟩ := p.zone
  have hs : s = utcText t := by
    rw [← hf, format_utcsec_eq t (by omega) (by omega) (zone_ok_of_mul hk)]; rfl
  simp only [parse] at hp
  split at hp
  · simp at hp
  · rename_i st hst
    obtain ⟨hfl, _, _⟩ := parseLoop_utcsec_inv hst
    obtain ⟨c, _, _, _, _, _, hn⟩ := finish_inv hfl hp
    rw [hn, parseLoop_nsec _ _ _ _ hst (by rw [hs]; exact utcText_ncp t)]

/-- the layout without seconds has no seconds chunk at all -/
theorem whole_seconds_utcmin {s : Bytes} {t : GoTime} (hp : parse layoutUTCMin s = some t) : t.nsec = 0 := by
  simp only [parse] at hp
  split at hp
  · simp at hp
  · rename_i st hst
    obtain ⟨hfl, _, _⟩ := parseLoop_utcmin_inv hst
    obtain ⟨c, _, _, _, _, _, hn⟩ := finish_inv hfl hp
    rw [hn]
    obtain ⟨s1, v1, h1, h⟩ := parseLoop_cons_inv hst
    obtain ⟨s2, v2, h2, h⟩ := parseLoop_cons_inv h
    obtain ⟨s3, v3, h3, h⟩ := parseLoop_cons_inv h
    obtain ⟨s4, v4, h4, h⟩ := parseLoop_cons_inv h
    obtain ⟨s5, v5, h5, h⟩ := parseLoop_cons_inv h
    obtain ⟨s7, v7, h7, h⟩ := parseLoop_cons_inv h
    rw [parseLoop_nil_inv h, step_other_nsec (by decide) h7, step_other_nsec (by decide) h5,
      step_other_nsec (by decide) h4, step_other_nsec (by decide) h3, step_other_nsec (by decide) h2,
      step_other_nsec (by decide) h1]

end ZV.Time
