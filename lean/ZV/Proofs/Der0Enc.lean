import ZV.Proofs.Der0Int
import ZV.Proofs.Der0B128
/-!
  encode → decode lemmas for the layer-0 DER model (the direction opposite to the canonicity lemmas
  of `Der0Int` / `Der0B128`): what the encoders write passes the decoders' checks and decodes to the
  value written.
-/
open ZV ZV.Der0
namespace ZV.Der0

/-! ### INTEGER -/

theorem intLen_pos (v : Int) : 1 ≤ intLen v := by
  rw [intLen]; split <;> omega

theorem intBytes_length (v : Int) (n : Nat) : (intBytes v n).length = n := by
  induction n with
  | zero => rfl
  | succ n ih => simp [intBytes, ih]

theorem intLen_eq_one {v : Int} (h : intLen v = 1) : -128 ≤ v ∧ v ≤ 127 := by
  by_contra hc
  have hb : v > 127 ∨ v < -128 := by omega
  have := intLen_big hb
  have := intLen_pos (v / 256)
  omega

theorem byteOfInt_toNat (v : Int) : (byteOfInt v).toNat = (v % 256).toNat := by
  unfold byteOfInt
  exact toNat_ofNat_lt (by omega)

theorem intBytes_one (v : Int) : intBytes v 1 = [byteOfInt v] := by
  simp [intBytes]

theorem checkInteger_snoc2 (a c : UInt8) (t : Bytes) (b : UInt8) :
    checkInteger (a :: c :: t ++ [b]) = checkInteger (a :: c :: t) := by
  simp [checkInteger]

/-- the minimal two's-complement contents written by `addASN1Signed` / `int64Encoder` pass
    `checkInteger` and decode to the value written — for every integer. -/
theorem int_enc (v : Int) :
    checkInteger (intBytes v (intLen v)) = true ∧ twos (intBytes v (intLen v)) = v := by
  induction v using intLen.induct with
  | case1 v hbig ih =>
    obtain ⟨ih1, ih2⟩ := ih
    rw [intLen_big hbig, intBytes_snoc]
    have hlen := intBytes_length (v / 256) (intLen (v / 256))
    have hpos := intLen_pos (v / 256)
    have hne : intBytes (v / 256) (intLen (v / 256)) ≠ [] := by
      intro h0; rw [h0] at hlen; simp at hlen; omega
    refine ⟨?_, ?_⟩
    · by_cases h1 : intLen (v / 256) = 1
      · have hr := intLen_eq_one h1
        rw [h1, intBytes_one]
        simp only [List.cons_append, List.nil_append, checkInteger]
        have ha := byteOfInt_toNat (v / 256)
        have hb := byteOfInt_toNat v
        have h0 : (byteOfInt (v / 256) == 0) = true ↔ (byteOfInt (v / 256)).toNat = 0 := by
          simp [← UInt8.toNat_inj]
        have hf : (byteOfInt (v / 256) == 0xff) = true ↔ (byteOfInt (v / 256)).toNat = 255 := by
          simp [← UInt8.toNat_inj]
        have hcond : ¬ (((byteOfInt (v / 256) == 0) && decide ((byteOfInt v).toNat < 128)
            || (byteOfInt (v / 256) == 0xff) && decide ((byteOfInt v).toNat ≥ 128)) = true) := by
          simp only [Bool.or_eq_true, Bool.and_eq_true, decide_eq_true_eq, h0, hf, ha, hb]
          omega
        simp [hcond]
      · match hm : intBytes (v / 256) (intLen (v / 256)), hne with
        | [a], _ => rw [hm] at hlen; simp at hlen; omega
        | a :: c :: t, _ =>
          rw [checkInteger_snoc2, ← hm]; exact ih1
    · rw [twos_snoc _ hne, ih2, byteOfInt_toNat]
      omega
  | case2 v hsmall =>
    have hr : -128 ≤ v ∧ v ≤ 127 := by omega
    rw [intLen_small hr.1 hr.2, intBytes_one]
    refine ⟨by simp [checkInteger], ?_⟩
    rw [twos_single, byteOfInt_toNat]
    split <;> omega

theorem checkInteger_intBytes (v : Int) : checkInteger (intBytes v (intLen v)) = true := (int_enc v).1
theorem twos_intBytes (v : Int) : twos (intBytes v (intLen v)) = v := (int_enc v).2

/-- `n` content octets suffice for every `v` with `-2^(8n-1) ≤ v < 2^(8n-1)`. -/
theorem intLen_le (n : Nat) : ∀ v : Int, -(2 ^ (8 * n + 7) : Int) ≤ v → v < (2 ^ (8 * n + 7) : Int) →
    intLen v ≤ n + 1 := by
  induction n with
  | zero =>
    intro v h1 h2
    rw [intLen_small (by simpa using h1) (by norm_num at h2; omega)]
  | succ n ih =>
    intro v h1 h2
    by_cases hb : v > 127 ∨ v < -128
    · rw [intLen_big hb]
      have e : (2 : Int) ^ (8 * (n + 1) + 7) = 2 ^ (8 * n + 7) * 256 := by
        rw [show 8 * (n + 1) + 7 = (8 * n + 7) + 8 by ring, pow_add]; norm_num
      rw [e] at h1 h2
      have := ih (v / 256) (by omega) (by omega)
      omega
    · rw [intLen_small (by omega) (by omega)]; omega

theorem intLen_int64 {v : Int} (h1 : -9223372036854775808 ≤ v) (h2 : v ≤ 9223372036854775807) :
    intLen v ≤ 8 := by
  have := intLen_le 7 v (by norm_num; omega) (by norm_num; omega)
  omega

/-- `AddASN1BigInt` writes the same minimal two's-complement string as `addASN1Signed` would. -/
theorem bigIntBytes_eq (v : Int) : bigIntBytes v = intBytes v (intLen v) := by
  have h := bigIntBytes_canon (checkInteger_intBytes v)
  rw [twos_intBytes] at h
  exact h

theorem uintLen_eq_intLen' (n : Nat) : CB.uintLen n = intLen (n : Int) := by
  induction n using Nat.strongRecOn with
  | _ n ih =>
    rw [CB.uintLen, intLen]
    by_cases h : n ≥ 128
    · have h' : (n : Int) > 127 ∨ (n : Int) < -128 := by omega
      rw [dif_pos h, dif_pos h', ih (n / 256) (by omega)]
      congr 2
    · have h' : ¬ ((n : Int) > 127 ∨ (n : Int) < -128) := by omega
      rw [dif_neg h, dif_neg h']

/-- a non-negative value: the first content octet is < 0x80 and the octets are the unsigned value. -/
theorem twos_nonneg_head {a : UInt8} {t : Bytes} (h : 0 ≤ twos (a :: t)) :
    a.toNat < 128 ∧ twos (a :: t) = (natOfBytes (a :: t) : Int) := by
  simp only [twos] at h ⊢
  split
  · rename_i hge
    simp only [hge, if_true] at h
    have := natOfBytes_lt (a :: t)
    omega
  · rename_i hlt
    exact ⟨by omega, rfl⟩

/-! ### base 128 -/

theorem b128Count_le (k : Nat) : ∀ n, n < 128 ^ k → b128Count n ≤ k := by
  induction k with
  | zero => intro n h; simp at h; subst h; simp [b128Count_zero]
  | succ k ih =>
    intro n h
    by_cases h0 : n = 0
    · subst h0; simp [b128Count_zero]
    · rw [b128Count_step h0]
      have := ih (n / 128) (by rw [Nat.pow_succ] at h; omega)
      omega

theorem b128Count_lb (n : Nat) (h : n ≠ 0) : 128 ^ (b128Count n - 1) ≤ n := by
  induction n using Nat.strongRecOn with
  | _ n ih =>
    rw [b128Count_step h]
    by_cases h1 : n / 128 = 0
    · simp [h1, b128Count_zero]; omega
    · have := ih (n / 128) (by omega) h1
      rw [b128Count_step h1] at this ⊢
      simp only [Nat.add_sub_cancel] at this ⊢
      rw [Nat.pow_succ]
      omega

theorem b128Count_ub (n : Nat) : n < 128 ^ b128Count n := by
  induction n using Nat.strongRecOn with
  | _ n ih =>
    by_cases h : n = 0
    · subst h; simp [b128Count_zero]
    · rw [b128Count_step h, Nat.pow_succ]
      have := ih (n / 128) (by omega)
      omega

/-- the reader loop over the last `j+1` groups written by `addBase128Int`, entered with
    `ret = n / 128^(j+1)` after `i` groups: succeeds with `n` provided the reader's two guards
    (at most 5 groups; `ret < 2^24` before every shift) hold, i.e. `n < 2^31`. -/
theorem CB.b128Loop_groups (n : Nat) (hn : n < 2147483648) (rest : Bytes) :
    ∀ (j i : Nat), i + j + 1 ≤ 5 → (i = 0 → j ≠ 0 → (n / 128 ^ j) % 128 ≠ 0) →
      CB.b128Loop (b128Groups n (j + 1) ++ rest) i (n / 128 ^ (j + 1)) = .ok (n, rest) := by
  intro j
  induction j with
  | zero =>
    intro i hi _
    simp only [b128Groups, List.cons_append, List.nil_append, CB.b128Loop]
    have hg : (UInt8.ofNat ((n / 128 ^ 0) % 128 + 0)).toNat = n % 128 := by
      simp only [Nat.pow_zero, Nat.div_one, Nat.add_zero]
      exact toNat_ofNat_lt (by omega)
    have h5 : ¬ i = 5 := by omega
    have hr : ¬ n / 128 ^ (0 + 1) ≥ 16777216 := by simp; omega
    have h80 : ¬ (i = 0 ∧ UInt8.ofNat ((n / 128 ^ 0) % 128 + 0) = 0x80) := by
      intro ⟨_, h⟩
      have := congrArg UInt8.toNat h
      rw [hg] at this; simp at this; omega
    simp only [if_true, h5, hr, h80, if_false, hg]
    have hlt : n % 128 < 128 := by omega
    have e : n / 128 ^ (0 + 1) * 128 + n % 128 % 128 = n := by simp; omega
    simp [hlt]; omega
  | succ j ih =>
    intro i hi htop
    rw [b128Groups]
    simp only [List.cons_append, CB.b128Loop]
    have hg : (UInt8.ofNat ((n / 128 ^ (j + 1)) % 128 + (if j + 1 = 0 then 0 else 128))).toNat
        = (n / 128 ^ (j + 1)) % 128 + 128 := by
      simp only [Nat.succ_ne_zero, if_false]
      exact toNat_ofNat_lt (by omega)
    have h5 : ¬ i = 5 := by omega
    have hdd : n / 128 ^ (j + 1 + 1) = n / 128 ^ (j + 1) / 128 := by
      rw [Nat.div_div_eq_div_mul, ← Nat.pow_succ]
    have hle : n / 128 ^ (j + 1) ≤ n / 128 := by
      rw [Nat.pow_succ, Nat.mul_comm, ← Nat.div_div_eq_div_mul]
      exact Nat.div_le_self _ _
    have hr : ¬ n / 128 ^ (j + 1 + 1) ≥ 16777216 := by rw [hdd]; omega
    have h80 : ¬ (i = 0 ∧ UInt8.ofNat ((n / 128 ^ (j + 1)) % 128 + (if j + 1 = 0 then 0 else 128)) = 0x80) := by
      intro ⟨hi0, h⟩
      have := congrArg UInt8.toNat h
      rw [hg] at this
      have := htop hi0 (by omega)
      simp at *; omega
    simp only [h5, hr, h80, if_false, hg]
    have hge : ¬ (n / 128 ^ (j + 1)) % 128 + 128 < 128 := by omega
    simp only [hge, if_false]
    have e : n / 128 ^ (j + 1 + 1) * 128 + ((n / 128 ^ (j + 1)) % 128 + 128) % 128 = n / 128 ^ (j + 1) := by
      rw [hdd]; omega
    rw [e]
    exact ih (i + 1) (by omega) (by intro h; omega)

/-- `readBase128Int` reads back what `addBase128Int` wrote, for every value below 2^31. -/
theorem CB.readBase128Int_back (n : Nat) (hn : n < 2147483648) (rest : Bytes) :
    CB.readBase128Int (appendBase128 n ++ rest) = .ok (n, rest) := by
  unfold CB.readBase128Int appendBase128
  have hL : b128Len n = (b128Len n - 1) + 1 := by
    unfold b128Len
    by_cases h0 : n = 0
    · simp [h0]
    · simp only [h0, if_false]; rw [b128Count_step h0]; omega
  have hzero : n / 128 ^ (b128Len n - 1 + 1) = 0 := by
    rw [← hL]
    apply Nat.div_eq_of_lt
    unfold b128Len
    by_cases h0 : n = 0
    · simp [h0]
    · simp only [h0, if_false]; exact b128Count_ub n
  have hlen5 : b128Len n ≤ 5 := by
    unfold b128Len
    split
    · omega
    · exact b128Count_le 5 n (by norm_num; omega)
  have := CB.b128Loop_groups n hn rest (b128Len n - 1) 0 (by omega) (by
    intro _ hj
    have h0 : n ≠ 0 := by
      intro h0; subst h0; simp [b128Len] at hj
    have hlb := b128Count_lb n h0
    have hub := b128Count_ub n
    have hcnt : b128Len n = b128Count n := by simp [b128Len, h0]
    rw [hcnt] at hj ⊢
    have hpos : 0 < n / 128 ^ (b128Count n - 1) := Nat.div_pos hlb (Nat.pow_pos (by decide))
    have hlt : n / 128 ^ (b128Count n - 1) < 128 := by
      apply Nat.div_lt_of_lt_mul
      have : 128 ^ (b128Count n - 1) * 128 = 128 ^ b128Count n := by
        rw [← Nat.pow_succ]; congr 1; omega
      omega
    omega)
  rw [hzero, ← hL] at this
  exact this

theorem appendBase128_ne_nil (n : Nat) : appendBase128 n ≠ [] := by
  rw [appendBase128_eq]; simp

/-- the arc loop of `ReadASN1ObjectIdentifier` over the concatenated sub-identifiers. -/
theorem CB.oidArcs_back (vs : List Nat) (hvs : ∀ v ∈ vs, v < 2147483648) :
    ∀ fuel, ((vs.map appendBase128).flatten).length ≤ fuel →
      CB.oidArcs fuel (vs.map appendBase128).flatten = .ok vs := by
  induction vs with
  | nil => intro fuel _; cases fuel <;> simp [CB.oidArcs]
  | cons v vs ih =>
    intro fuel hf
    simp only [List.map_cons, List.flatten_cons] at hf ⊢
    have hne := appendBase128_ne_nil v
    have hv : v < 2147483648 := hvs v (by simp)
    have hback := CB.readBase128Int_back v hv (vs.map appendBase128).flatten
    match hm : appendBase128 v, hne with
    | b :: t, _ =>
      rw [hm] at hback hf
      cases fuel with
      | zero => simp at hf
      | succ fuel =>
        simp only [List.cons_append] at hback ⊢
        simp only [CB.oidArcs, hback]
        rw [ih (fun w hw => hvs w (by simp [hw])) fuel (by simp only [List.length_cons, List.length_append] at hf; omega)]

/-- … and for every value from 2^31 on the reader rejects what `addBase128Int` wrote: whichever guard
    fires first (5 groups read, `ret ≥ 2^24`), the loop ends in an error. -/
theorem CB.b128Loop_groups_big (n : Nat) (hn : 2147483648 ≤ n) (rest : Bytes) :
    ∀ (j i : Nat), CB.b128Loop (b128Groups n (j + 1) ++ rest) i (n / 128 ^ (j + 1)) = .err := by
  intro j
  induction j with
  | zero =>
    intro i
    simp only [b128Groups, List.cons_append, List.nil_append, CB.b128Loop]
    have hr : n / 128 ^ (0 + 1) ≥ 16777216 := by simp; omega
    by_cases h5 : i = 5
    · rw [if_pos h5]
    · rw [if_neg h5, if_pos hr]
  | succ j ih =>
    intro i
    rw [b128Groups]
    simp only [List.cons_append, CB.b128Loop, show ¬ (j + 1 = 0) from Nat.succ_ne_zero j, if_false]
    have hg : (UInt8.ofNat ((n / 128 ^ (j + 1)) % 128 + 128)).toNat
        = (n / 128 ^ (j + 1)) % 128 + 128 := toNat_ofNat_lt (by omega)
    have hdd : n / 128 ^ (j + 1 + 1) = n / 128 ^ (j + 1) / 128 := by
      rw [Nat.div_div_eq_div_mul, ← Nat.pow_succ]
    by_cases h5 : i = 5
    · rw [if_pos h5]
    · rw [if_neg h5]
      by_cases hr : n / 128 ^ (j + 1 + 1) ≥ 16777216
      · rw [if_pos hr]
      · rw [if_neg hr]
        split
        · rfl
        · simp only [hg]
          have hge : ¬ (n / 128 ^ (j + 1)) % 128 + 128 < 128 := by omega
          simp only [hge, if_false]
          have e : n / 128 ^ (j + 1 + 1) * 128 + ((n / 128 ^ (j + 1)) % 128 + 128) % 128
              = n / 128 ^ (j + 1) := by rw [hdd]; omega
          rw [e]
          exact ih (i + 1)

theorem CB.readBase128Int_big (n : Nat) (hn : 2147483648 ≤ n) (rest : Bytes) :
    CB.readBase128Int (appendBase128 n ++ rest) = .err := by
  unfold CB.readBase128Int appendBase128
  have h0 : n ≠ 0 := by omega
  have hL : b128Len n = (b128Len n - 1) + 1 := by
    unfold b128Len
    simp only [h0, if_false]; rw [b128Count_step h0]; omega
  have hzero : n / 128 ^ (b128Len n - 1 + 1) = 0 := by
    rw [← hL]
    apply Nat.div_eq_of_lt
    unfold b128Len
    simp only [h0, if_false]; exact b128Count_ub n
  have := CB.b128Loop_groups_big n hn rest (b128Len n - 1) 0
  rw [hzero, ← hL] at this
  exact this

/-- the arc loop fails as soon as one sub-identifier is ≥ 2^31. -/
theorem CB.oidArcs_big (vs : List Nat) (hbig : ∃ v ∈ vs, 2147483648 ≤ v) :
    ∀ fuel, ((vs.map appendBase128).flatten).length ≤ fuel →
      CB.oidArcs fuel (vs.map appendBase128).flatten = .err := by
  induction vs with
  | nil => obtain ⟨v, hv, _⟩ := hbig; simp at hv
  | cons v vs ih =>
    intro fuel hf
    simp only [List.map_cons, List.flatten_cons] at hf ⊢
    have hne := appendBase128_ne_nil v
    match hm : appendBase128 v, hne with
    | b :: t, _ =>
      rw [hm] at hf
      cases fuel with
      | zero => simp at hf
      | succ fuel =>
        by_cases hv : 2147483648 ≤ v
        · have hback := CB.readBase128Int_big v hv (vs.map appendBase128).flatten
          rw [hm] at hback
          simp only [List.cons_append] at hback ⊢
          simp only [CB.oidArcs, hback]
        · have hback := CB.readBase128Int_back v (by omega) (vs.map appendBase128).flatten
          rw [hm] at hback
          simp only [List.cons_append] at hback ⊢
          simp only [CB.oidArcs, hback]
          have hrest : ∃ w ∈ vs, 2147483648 ≤ w := by
            obtain ⟨w, hw, hwb⟩ := hbig
            rcases List.mem_cons.mp hw with rfl | hw'
            · exact absurd hwb hv
            · exact ⟨w, hw', hwb⟩
          rw [ih hrest fuel (by simp only [List.length_cons, List.length_append] at hf; omega)]

end ZV.Der0
