import ZV.Proofs.C04Ext
import ZV.Proofs.C04Int
import ZV.Proofs.TimeRT
import ZV.Model.C04Val
/-! Lemmas for the Validity and serial-number round trips. -/
namespace ZV.C04
open ZV ZV.Der ZV.C06 ZV.Time

theorem utcText_length (t : GoTime) : (utcText t).length ≤ 17 := by
  have := zoneText_length t.off
  simp only [utcText, fieldsText, EA.twoDigits, List.length_append, List.length_cons, List.length_nil]
  omega

theorem ofNat24 : UInt8.ofNat 24 = (0x18 : UInt8) := by decide
theorem ofNat23 : UInt8.ofNat 23 = (0x17 : UInt8) := by decide

/-- one `Time` written by `encTime` and followed by anything is read back as `readBack t` -/
theorem encTime_parse (t : GoTime) (hy0 : 0 ≤ t.year) (hy1 : t.year ≤ 9999) (h1 : -90000 < t.off) (h2 : t.off < 90000)
    (rest : Bytes) :
    ∃ enc, encTime t = .ok enc ∧ enc.length ≤ 30 ∧ parseTimeField (enc ++ rest) = .ok (readBack t, rest) := by
  cases hu : EA.outsideUTCRange t with
  | true =>
    have hg : EA.useGeneralized 0 t = true := by simp [EA.useGeneralized, hu]
    have hl := genText_length t
    have hm : EA.makeTimeBody 0 t = .ok (genText t) := by
      simp only [EA.makeTimeBody, hg, if_true]; exact appendGeneralizedTime_eq t hy0 hy1
    refine ⟨writeTLV 0x18 (genText t), ?_, ?_, ?_⟩
    · unfold encTime
      rw [hm]
      simp only [EA.timeTag, hg, if_true, ofNat24]
    · have := encLen_length (genText t).length
      rw [writeTLV_length]; omega
    · unfold parseTimeField
      rw [field_tlv _ _ _ _ _ (by decide) (by omega) (by simp [Want.ok, hdrOf])]
      simp only [elemOf_body, EA.parseTimeBody]
      rw [if_neg (by decide), parseGeneralizedTime_genText false t hy0 hy1 h1 h2]
      rfl
  | false =>
    have hg : EA.useGeneralized 0 t = false := by simp [EA.useGeneralized, hu]
    have hy : 1950 ≤ t.year ∧ t.year < 2050 := by
      simp only [EA.outsideUTCRange, decide_eq_false_iff_not] at hu
      omega
    have hl := utcText_length t
    have hm : EA.makeTimeBody 0 t = .ok (utcText t) := by
      simp only [EA.makeTimeBody, hg, Bool.false_eq_true, if_false]; exact appendUTCTime_eq t hy.1 hy.2
    refine ⟨writeTLV 0x17 (utcText t), ?_, ?_, ?_⟩
    · unfold encTime
      rw [hm]
      simp only [EA.timeTag, hg, Bool.false_eq_true, if_false, ofNat23]
    · have := encLen_length (utcText t).length
      rw [writeTLV_length]; omega
    · unfold parseTimeField
      rw [field_skip _ _ _ _ (by decide) (by omega) (by simp [Want.ok, hdrOf])]
      simp only
      rw [field_tlv _ _ _ _ _ (by decide) (by omega) (by simp [Want.ok, hdrOf])]
      simp only [someElem, elemOf_body, EA.parseTimeBody, if_true]
      rw [parseUTCTime_utcText false t hy.1 hy.2 h1 h2]
      rfl

theorem readBack_toUTC (t : GoTime) : readBack (toUTC t) = ⟨t.unix, 0, 0⟩ := by
  simp [readBack, toUTC]

theorem parseValidity_build (nb na : GoTime)
    (hb0 : 0 ≤ (toUTC nb).year) (hb1 : (toUTC nb).year ≤ 9999) (ha0 : 0 ≤ (toUTC na).year) (ha1 : (toUTC na).year ≤ 9999) :
    ∃ der, buildValidity nb na = .ok der ∧ parseValidity der = .ok (⟨nb.unix, 0, 0⟩, ⟨na.unix, 0, 0⟩) := by
  obtain ⟨b', hb, lb, hpb⟩ := encTime_parse (toUTC na) ha0 ha1 (by simp [toUTC]) (by simp [toUTC]) []
  obtain ⟨a, ha, la, hpa⟩ := encTime_parse (toUTC nb) hb0 hb1 (by simp [toUTC]) (by simp [toUTC]) b'
  refine ⟨writeTLV 0x30 (a ++ b'), by unfold buildValidity; rw [ha, hb], ?_⟩
  unfold parseValidity
  rw [first_tlv _ _ _ (by decide) (by simp only [List.length_append]; omega) (by simp [Want.ok, hdrOf])]
  simp only [elemOf_body, hpa, Res.bind]
  rw [List.append_nil] at hpb
  simp only [hpb, readBack_toUTC]

/-! ### serial number -/

theorem natAbs_fuel (v : Int) : -(128 * (256 : Int) ^ v.natAbs) ≤ v ∧ v < 128 * (256 : Int) ^ v.natAbs := by
  have h : v.natAbs < 256 ^ v.natAbs := Nat.lt_pow_self (by decide)
  have h' : ((v.natAbs : Nat) : Int) < ((256 ^ v.natAbs : Nat) : Int) := by exact_mod_cast h
  have e : ((256 ^ v.natAbs : Nat) : Int) = (256 : Int) ^ v.natAbs := by simp
  rw [e] at h'
  omega

theorem encSerial_eq (v : Int) : encSerial v = beBytes (intLen v.natAbs v) (twos (intLen v.natAbs v) v) := rfl

theorem parseSerial_encSerial (v : Int) :
    parseSerial (encSerial v) = .ok v ∧ checkInteger (encSerial v) = true := by
  obtain ⟨h1, h2⟩ := natAbs_fuel v
  obtain ⟨c1, c2, _⟩ := int_roundtrip v.natAbs v h1 h2
  rw [encSerial_eq]
  exact ⟨by simp [parseSerial, c1, c2], c1⟩

end ZV.C04
