import ZV.Model.C23
import ZV.Proofs.C23Pss
/-! EME-OAEP: the padding layer of `EncryptOAEP` / `decryptOAEP` as two functions, and their round trip — for `ZV.Props.C23`. -/
namespace ZV.C23
open ZV ZV.Hash

/-- the encoded message `EncryptOAEP` hands to `encrypt`: `00 ‖ maskedSeed ‖ maskedDB`,
    `DB = lHash ‖ PS ‖ 01 ‖ M` (`k` = modulus size in octets) -/
def oaepPad (h : HashAlg) (k : Nat) (seed msg label : Bytes) : Bytes :=
  let db := h.hash label ++ List.replicate (k - 2 * h.outSize - 2 - msg.length) 0 ++ (1 :: msg)
  let db' := mgf1XOR h db seed
  let seed' := mgf1XOR h seed db'
  0 :: (seed' ++ db')

/-- what `decryptOAEP` does with the octets `decrypt` returns -/
def oaepUnpad (h mgf : HashAlg) (em label : Bytes) : Res Bytes :=
  match em with
  | [] => .panic
  | b0 :: body =>
    let seed := body.take h.outSize
    let db := body.drop h.outSize
    let seed' := mgf1XOR mgf seed db
    let db' := mgf1XOR mgf db seed'
    let lHash2 := db'.take h.outSize
    let rest := db'.drop h.outSize
    match rest.findIdx? (· == 1) with
    | none => .err
    | some idx =>
      if b0 = 0 ∧ h.hash label = lHash2 ∧ (rest.take idx).all (· == 0) then .ok (rest.drop (idx + 1))
      else .err

/-- `EncryptOAEP` is: guards, then `encrypt` of the padded message -/
theorem encryptOAEP_eq (h : HashAlg) (pub : Pub) (rnd msg label : Bytes) :
    encryptOAEP h pub rnd msg label =
      match checkPub pub with
      | .err => .err
      | .panic => .panic
      | .ok (n, e) =>
        if (msg.length : Int) > (sizeBytes n : Int) - 2 * (h.outSize : Int) - 2 then .err
        else if rnd.length < h.outSize then .err
        else encrypt n e (oaepPad h (sizeBytes n) (rnd.take h.outSize) msg label) := by
  unfold encryptOAEP oaepPad
  rfl

/-- `decryptOAEP` is: guards, `decrypt`, then the unpadding -/
theorem decryptOAEP_eq (h mgf : HashAlg) (k : Priv) (ct label : Bytes) :
    decryptOAEP h mgf k ct label =
      match checkPub k.pub with
      | .err => .err
      | .panic => .panic
      | .ok _ =>
        if ct.length > sizeBytes k.n ∨ sizeBytes k.n < h.outSize * 2 + 2 then .err
        else match decrypt k ct false with
          | .err => .err
          | .panic => .panic
          | .ok em => oaepUnpad h mgf em label := by
  unfold decryptOAEP oaepUnpad
  rfl

theorem oaepPad_length {h : HashAlg} (hk : HashOk h) (k : Nat) (seed msg label : Bytes)
    (hseed : seed.length = h.outSize) (hmsg : msg.length + 2 * h.outSize + 2 ≤ k) :
    (oaepPad h k seed msg label).length = k := by
  simp only [oaepPad, List.length_cons, List.length_append, mgf1XOR_length hk, hk.len, hseed, List.length_replicate]
  omega

/-- the padding layer round trip: for every seed of `hLen` octets and every message within the length bound,
    unpadding the padded message returns the message (MGF1 mask involution twice, lHash, PS, 01 separator) -/
theorem oaepUnpad_oaepPad {h : HashAlg} (hk : HashOk h) (k : Nat) (seed msg label : Bytes)
    (hseed : seed.length = h.outSize) :
    oaepUnpad h h (oaepPad h k seed msg label) label = .ok msg := by
  obtain ⟨db, hdb⟩ : ∃ db, db = h.hash label ++ List.replicate (k - 2 * h.outSize - 2 - msg.length) 0 ++ (1 :: msg) :=
    ⟨_, rfl⟩
  have hl1 : (mgf1XOR h seed (mgf1XOR h db seed)).length = h.outSize := by rw [mgf1XOR_length hk, hseed]
  unfold oaepUnpad oaepPad
  simp only [← hdb]
  rw [← hl1, List.take_left', List.drop_left', mgf1XOR_cancel hk, mgf1XOR_cancel hk, hl1, hdb]
  · have h2 : (h.hash label).length = h.outSize := hk.len _
    rw [List.append_assoc, ← h2, List.take_left', List.drop_left']
    · have := pssDB_findIdx (k - 2 * (h.hash label).length - 2 - msg.length) msg
      unfold pssDB at this
      rw [this]
      have h3 := pssDB_take (k - 2 * (h.hash label).length - 2 - msg.length) msg
      have h4 := pssDB_drop_succ (k - 2 * (h.hash label).length - 2 - msg.length) msg
      unfold pssDB at h3 h4
      simp only [h3, h4]
      simp
    · rfl
    · rfl
  · rfl
  · rfl

/-- zeros up to the first 01: the list is `00…00 ‖ 01 ‖ tail` -/
theorem split_at_first_one (rest : Bytes) (idx : Nat) (hfi : rest.findIdx? (· == 1) = some idx)
    (hz : (rest.take idx).all (· == 0) = true) :
    rest = List.replicate idx 0 ++ (1 :: rest.drop (idx + 1)) ∧ idx < rest.length := by
  obtain ⟨hlt, h1, _⟩ := List.findIdx?_eq_some_iff_getElem.1 hfi
  refine ⟨?_, hlt⟩
  have ht : rest.take idx = List.replicate idx 0 := by
    rw [List.eq_replicate_iff]
    refine ⟨by rw [List.length_take]; omega, ?_⟩
    intro b hb
    have := (List.all_eq_true.1 hz) b hb
    simpa using this
  have hd : rest.drop idx = 1 :: rest.drop (idx + 1) := by
    rw [List.drop_eq_getElem_cons hlt]
    congr 1
    simpa using h1
  rw [← ht, ← hd, List.take_append_drop]

/-- converse of `oaepUnpad_oaepPad`: every `k`-octet string the unpadding accepts is the padding of the returned message
    under some seed of `hLen` octets -/
theorem oaepUnpad_ok_inv {h : HashAlg} (hk : HashOk h) (k : Nat) {em label msg : Bytes}
    (hlen : em.length = k) (hk2 : 2 * h.outSize + 2 ≤ k) (hu : oaepUnpad h h em label = .ok msg) :
    ∃ seed, seed.length = h.outSize ∧ msg.length + 2 * h.outSize + 2 ≤ k ∧ em = oaepPad h k seed msg label := by
  unfold oaepUnpad at hu
  cases em with
  | nil => contradiction
  | cons b0 body =>
    dsimp only at hu
    have hbl : body.length = k - 1 := by simp at hlen; omega
    obtain ⟨seedM, hseedM⟩ : ∃ s, s = body.take h.outSize := ⟨_, rfl⟩
    obtain ⟨dbM, hdbM⟩ : ∃ s, s = body.drop h.outSize := ⟨_, rfl⟩
    rw [← hseedM, ← hdbM] at hu
    have hsl : seedM.length = h.outSize := by rw [hseedM, List.length_take]; omega
    have hdl : dbM.length = k - 1 - h.outSize := by rw [hdbM, List.length_drop]; omega
    have hbody : body = seedM ++ dbM := by rw [hseedM, hdbM, List.take_append_drop]
    obtain ⟨seed, hseed⟩ : ∃ s, s = mgf1XOR h seedM dbM := ⟨_, rfl⟩
    rw [← hseed] at hu
    obtain ⟨db, hdb⟩ : ∃ s, s = mgf1XOR h dbM seed := ⟨_, rfl⟩
    rw [← hdb] at hu
    have hseedl : seed.length = h.outSize := by rw [hseed, mgf1XOR_length hk, hsl]
    have hdbl : db.length = k - 1 - h.outSize := by rw [hdb, mgf1XOR_length hk, hdl]
    cases hfi : (db.drop h.outSize).findIdx? (· == 1) with
    | none => rw [hfi] at hu; contradiction
    | some idx =>
      rw [hfi] at hu
      dsimp only at hu
      split at hu
      · next hc =>
        obtain ⟨hb0, hlh, hz⟩ := hc
        have hmsg := Res.ok.inj hu
        obtain ⟨hrest, hidx⟩ := split_at_first_one _ idx hfi hz
        rw [hmsg] at hrest
        have hrl : (db.drop h.outSize).length = k - 1 - 2 * h.outSize := by rw [List.length_drop, hdbl]; omega
        have hml : idx + 1 + msg.length = k - 1 - 2 * h.outSize := by
          have hl' := congrArg List.length hrest
          rw [hrl] at hl'
          simp only [List.length_append, List.length_replicate, List.length_cons] at hl'
          omega
        refine ⟨seed, hseedl, by omega, ?_⟩
        have hDB : h.hash label ++ List.replicate (k - 2 * h.outSize - 2 - msg.length) 0 ++ (1 :: msg) = db := by
          rw [show k - 2 * h.outSize - 2 - msg.length = idx by omega, List.append_assoc, ← hrest, hlh,
            List.take_append_drop]
        unfold oaepPad
        dsimp only
        rw [hDB, hdb, mgf1XOR_cancel hk, hseed, mgf1XOR_cancel hk, hb0, hbody]
      · contradiction

end ZV.C23
