import ZV.Proofs.C10
import Mathlib.Data.List.Dedup
/-!
  Helper lemmas for the second layer of C10 theorems:
  * `AppendFromPEMErr` is the `AddCert` / `AddRoot` sequence of the certificates of the stream;
  * `AddCert c; AddRoot c` is `AddRoot c`;
  * the public observers read the history;
  * histories with the same certificates and the same root certificates are interchangeable.
-/
namespace ZV.C10

/-! ### `run` on concatenations -/

theorem run_append (V : Ver) (a b : List Op) : ∀ g, run V g (a ++ b) =
    match run V g a with
    | .ok g1 => run V g1 b
    | _ => .panic := by
  induction a with
  | nil => intro g; rfl
  | cons op a ih =>
    intro g
    simp only [List.cons_append, run]
    cases hs : step V g op with
    | ok g1 => simp only [ih g1]
    | err => rfl
    | panic => rfl

/-! ### the PEM loop -/

/-- the `AddCert` / `AddRoot` calls made by the loop -/
def pemOps (root : Bool) : List PemItem → List Op
  | [] => []
  | .junk :: r => pemOps root r
  | .bad :: r => pemOps root r
  | .big :: _ => []
  | .cert c :: r => (if root then [Op.add c, Op.root c] else [Op.add c]) ++ pemOps root r

/-- certificates before the first over-long stretch -/
def pemCount : List PemItem → Nat
  | [] => 0
  | .junk :: r => pemCount r
  | .bad :: r => pemCount r
  | .big :: _ => 0
  | .cert _ :: r => pemCount r + 1

/-- unparsable blocks before the first over-long stretch -/
def pemErrs : List PemItem → Nat
  | [] => 0
  | .junk :: r => pemErrs r
  | .bad :: r => pemErrs r + 1
  | .big :: _ => 0
  | .cert _ :: r => pemErrs r

def pemTooLong : List PemItem → Bool
  | [] => false
  | .junk :: r => pemTooLong r
  | .bad :: r => pemTooLong r
  | .big :: _ => true
  | .cert _ :: r => pemTooLong r

/-- the certificates the loop reaches -/
def pemCerts : List PemItem → List Cert
  | [] => []
  | .junk :: r => pemCerts r
  | .bad :: r => pemCerts r
  | .big :: _ => []
  | .cert c :: r => c :: pemCerts r

theorem pemLoop_eq_run (V : Ver) (root : Bool) (items : List PemItem) : ∀ g n ne,
    pemLoop V root g n ne items =
      match run V g (pemOps root items) with
      | .ok g' => .ok ⟨n + pemCount items, ne + pemErrs items, pemTooLong items, g'⟩
      | _ => .panic := by
  induction items with
  | nil => intro g n ne; simp [pemLoop, pemOps, run, pemCount, pemErrs, pemTooLong]
  | cons it rest ih =>
    intro g n ne
    cases it with
    | junk => simp only [pemLoop, pemOps, pemCount, pemErrs, pemTooLong]; exact ih g n ne
    | bad =>
      simp only [pemLoop, pemOps, pemCount, pemErrs, pemTooLong]
      rw [ih g n (ne + 1)]
      cases run V g (pemOps root rest) <;> simp only [Nat.add_assoc, Nat.add_comm 1]
    | big => simp [pemLoop, pemOps, run, pemCount, pemErrs, pemTooLong]
    | cert c =>
      simp only [pemLoop, pemOps, pemCount, pemErrs, pemTooLong]
      cases root with
      | false =>
        simp only [Bool.false_eq_true, if_false, List.cons_append, List.nil_append, run, step]
        cases hadd : addCert V g c with
        | ok g1 =>
          simp only
          rw [ih g1 (n + 1) ne]
          cases run V g1 (pemOps false rest) <;> simp only [Nat.add_assoc, Nat.add_comm 1]
        | err => rfl
        | panic => rfl
      | true =>
        simp only [if_true, List.cons_append, List.nil_append, run, step]
        cases hadd : addCert V g c with
        | ok g1 =>
          simp only
          cases hroot : addRoot V g1 c with
          | ok g2 =>
            simp only
            rw [ih g2 (n + 1) ne]
            cases run V g2 (pemOps true rest) <;> simp only [Nat.add_assoc, Nat.add_comm 1]
          | err => rfl
          | panic => rfl
        | err => rfl
        | panic => rfl

theorem mem_pemOps {root : Bool} {items : List PemItem} {o : Op} :
    o ∈ pemOps root items ↔ ∃ c ∈ pemCerts items, o = Op.add c ∨ (root = true ∧ o = Op.root c) := by
  induction items with
  | nil => simp [pemOps, pemCerts]
  | cons it rest ih =>
    cases it with
    | junk => simpa [pemOps, pemCerts] using ih
    | bad => simpa [pemOps, pemCerts] using ih
    | big => simp [pemOps, pemCerts]
    | cert c =>
      simp only [pemOps, pemCerts, List.mem_append, ih, List.mem_cons, exists_eq_or_imp]
      cases root <;> simp

theorem pemCount_eq (items : List PemItem) : pemCount items = (pemCerts items).length := by
  induction items with
  | nil => rfl
  | cons it rest ih => cases it <;> simp [pemCount, pemCerts, ih]

/-! ### `AddCert c; AddRoot c` = `AddRoot c` -/

theorem addCert_idem {V : Ver} {g g1 : Graph} (hinv : Inv V g) {c : Cert} (h : addCert V g c = .ok g1) :
    addCert V g1 c = .ok g1 := by
  obtain ⟨g', hadd, _, _, hskel⟩ := addCert_spec hinv c
  rw [h] at hadd; cases hadd
  have := hasEdge_after_add hskel
  unfold addCert
  simp [this]

theorem addRoot_after_addCert {V : Ver} {g g1 : Graph} (hinv : Inv V g) {c : Cert}
    (h : addCert V g c = .ok g1) : addRoot V g1 c = addRoot V g c := by
  unfold addRoot
  rw [addCert_idem hinv h, h]

/-! ### observers -/

theorem findEdge_isSome_iff {es : List Edge} {fp : Nat} :
    (findEdge es fp).isSome = true ↔ ∃ e ∈ es, e.cert.fp = fp := by
  unfold findEdge
  simp [List.find?_isSome]

theorem findNode_isSome_iff {ns : List Node} {k : NodeKey} :
    (findNode ns k).isSome = true ↔ ∃ n ∈ ns, n.key = k := by
  unfold findNode
  simp [List.find?_isSome]

/-! ### histories that differ only in how often / in which form a certificate was inserted -/

/-- same certificates, same root certificates -/
def SameCerts (H H' : List Op) : Prop :=
  (∀ c, (∃ o ∈ H, o.cert = c) ↔ (∃ o ∈ H', o.cert = c)) ∧ (∀ c, Op.root c ∈ H ↔ Op.root c ∈ H')

theorem SameCerts.symm {H H' : List Op} (h : SameCerts H H') : SameCerts H' H :=
  ⟨fun c => (h.1 c).symm, fun c => (h.2 c).symm⟩

theorem SameCerts.of_mem {H H' : List Op} (h : ∀ o, o ∈ H ↔ o ∈ H') : SameCerts H H' := by
  refine ⟨fun c => ?_, fun c => h _⟩
  constructor <;> rintro ⟨o, ho, hc⟩
  · exact ⟨o, (h o).mp ho, hc⟩
  · exact ⟨o, (h o).mpr ho, hc⟩

theorem Hist.congrCerts {H H' : List Op} {g : Graph} (hm : SameCerts H H') (h : Hist H g) : Hist H' g := by
  refine ⟨?_, ?_, ?_, ?_⟩
  · intro k; rw [h.nodes k]
    constructor <;> rintro ⟨o, ho, hk⟩
    · obtain ⟨o', ho', hc⟩ := (hm.1 o.cert).mp ⟨o, ho, rfl⟩
      exact ⟨o', ho', by rw [hc]; exact hk⟩
    · obtain ⟨o', ho', hc⟩ := (hm.1 o.cert).mpr ⟨o, ho, rfl⟩
      exact ⟨o', ho', by rw [hc]; exact hk⟩
  · intro fp; rw [h.edges fp]
    constructor <;> rintro ⟨o, ho, hk⟩
    · obtain ⟨o', ho', hc⟩ := (hm.1 o.cert).mp ⟨o, ho, rfl⟩
      exact ⟨o', ho', by rw [hc]; exact hk⟩
    · obtain ⟨o', ho', hc⟩ := (hm.1 o.cert).mpr ⟨o, ho, rfl⟩
      exact ⟨o', ho', by rw [hc]; exact hk⟩
  · intro e he
    obtain ⟨o, ho, hk⟩ := h.certs e he
    obtain ⟨o', ho', hc⟩ := (hm.1 o.cert).mp ⟨o, ho, rfl⟩
    exact ⟨o', ho', by rw [hc]; exact hk⟩
  · intro e he; rw [h.roots e he]
    constructor <;> rintro ⟨c, hc, hk⟩
    · exact ⟨c, (hm.2 c).mp hc, hk⟩
    · exact ⟨c, (hm.2 c).mpr hc, hk⟩

theorem FpInj.congrCerts {H H' : List Op} (hm : SameCerts H H') (h : FpInj H) : FpInj H' := by
  intro a ha b hb hfp
  obtain ⟨a', ha', hca⟩ := (hm.1 a.cert).mpr ⟨a, ha, rfl⟩
  obtain ⟨b', hb', hcb⟩ := (hm.1 b.cert).mpr ⟨b, hb, rfl⟩
  rw [← hca, ← hcb]
  exact h a' ha' b' hb' (by rw [hca, hcb]; exact hfp)

end ZV.C10
