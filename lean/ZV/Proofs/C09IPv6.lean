import ZV.Model.C09
import ZV.Proofs.C09
import ZV.Proofs.C09IPv4
/-!
  Declarative specification of the IPv6 text syntax accepted by `netip.parseIPv6`
  (without zones, as `net.ParseIP` uses it) and the proof that the model's
  `parseIPv6` accepts exactly that syntax with exactly that value.

  Part 1 (this file): hex groups, the one-step behaviour of the group loop.
-/
namespace ZV.C09

/-! ### the specification vocabulary -/

/-- an ASCII hexadecimal digit (either case) -/
def IsHexCh (c : UInt8) : Prop :=
  (48 ≤ c.toNat ∧ c.toNat ≤ 57) ∨ (97 ≤ c.toNat ∧ c.toNat ≤ 102) ∨ (65 ≤ c.toNat ∧ c.toNat ≤ 70)

/-- value of a hexadecimal digit -/
def hexNat (c : UInt8) : Nat :=
  if c.toNat ≤ 57 then c.toNat - 48 else if c.toNat ≤ 70 then c.toNat - 55 else c.toNat - 87

/-- value of a hexadecimal digit string (most significant digit first) -/
def hexVal (g : Str) : Nat := g.foldl (fun acc c => acc * 16 + hexNat c) 0

/-- `g` is the text of one 16-bit group with value `v`: one to four hex digits. -/
structure IsHexGroup (g : Str) (v : Nat) : Prop where
  ne : g ≠ []
  len : g.length ≤ 4
  hex : ∀ c ∈ g, IsHexCh c
  val : hexVal g = v

/-- big-endian bytes of a 16-bit group -/
def groupBytes (v : Nat) : List UInt8 := [UInt8.ofNat (v / 256), UInt8.ofNat (v % 256)]

/-- A non-empty sequence of hex groups separated by single colons, optionally ending in an
    embedded dotted quad (flag `true`), with the bytes it denotes. -/
inductive V6Seq : Str → List UInt8 → Bool → Prop
  | one {g : Str} {v : Nat} : IsHexGroup g v → V6Seq g (groupBytes v) false
  | quad {q : Str} {a b c d : UInt8} : DottedQuad q a b c d → V6Seq q [a, b, c, d] true
  | cons {g : Str} {v : Nat} {t : Str} {bs : List UInt8} {hq : Bool} :
      IsHexGroup g v → V6Seq t bs hq → V6Seq (g ++ 58 :: t) (groupBytes v ++ bs) hq

/-- what may stand left of "::" : nothing, or groups only -/
def V6Left (l : Str) (L : List UInt8) : Prop := (l = [] ∧ L = []) ∨ V6Seq l L false

/-- what may stand right of "::" : nothing, or groups optionally ending in a dotted quad -/
def V6Right (r : Str) (R : List UInt8) : Prop := (r = [] ∧ R = []) ∨ ∃ hq, V6Seq r R hq

/-- The IPv6 text forms: either eight groups (the last two possibly written as a dotted
    quad) with no "::", or exactly one "::" standing for at least one zero group. -/
def V6Spec (s : Str) (ip : List UInt8) : Prop :=
  (∃ hq, V6Seq s ip hq ∧ ip.length = 16) ∨
  (∃ l r L R, s = l ++ 58 :: 58 :: r ∧ V6Left l L ∧ V6Right r R ∧ L.length + R.length < 16 ∧
    ip = L ++ List.replicate (16 - (L.length + R.length)) 0 ++ R)

/-! ### hex digits -/

theorem hexDigitVal_of_hex {c : UInt8} (h : IsHexCh c) : hexDigitVal c = some (hexNat c) := by
  simp only [hexDigitVal, hexNat]
  rcases h with ⟨h1, h2⟩ | ⟨h1, h2⟩ | ⟨h1, h2⟩
  · rw [if_pos ⟨h1, h2⟩, if_pos h2]
  · rw [if_neg (by omega), if_pos ⟨h1, h2⟩, if_neg (by omega), if_neg (by omega)]
    congr 1; omega
  · rw [if_neg (by omega), if_neg (by omega), if_pos ⟨h1, h2⟩, if_neg (by omega), if_pos (by omega)]
    congr 1; omega

theorem hexDigitVal_of_not_hex {c : UInt8} (h : ¬ IsHexCh c) : hexDigitVal c = none := by
  simp only [hexDigitVal]
  simp only [IsHexCh, not_or] at h
  rw [if_neg h.1, if_neg h.2.1, if_neg h.2.2]

theorem hexDigitVal_some {c : UInt8} {d : Nat} (h : hexDigitVal c = some d) : IsHexCh c ∧ d = hexNat c := by
  by_cases hc : IsHexCh c
  · rw [hexDigitVal_of_hex hc] at h
    exact ⟨hc, by cases h; rfl⟩
  · rw [hexDigitVal_of_not_hex hc] at h; cases h

theorem hexNat_lt {c : UInt8} (h : IsHexCh c) : hexNat c < 16 := by
  simp only [hexNat]
  rcases h with ⟨h1, h2⟩ | ⟨h1, h2⟩ | ⟨h1, h2⟩
  · rw [if_pos h2]; omega
  · rw [if_neg (by omega), if_neg (by omega)]; omega
  · rw [if_neg (by omega), if_pos (by omega)]; omega

theorem isDec_isHex {c : UInt8} (h : IsDec c) : IsHexCh c := Or.inl h

theorem isHex_ne_colon {c : UInt8} (h : IsHexCh c) : c ≠ 58 := by
  rintro rfl
  simp [IsHexCh] at h

theorem isHex_ne_dot {c : UInt8} (h : IsHexCh c) : c ≠ dot := by
  rintro rfl
  simp [IsHexCh, dot] at h

theorem isHex_ne_pct {c : UInt8} (h : IsHexCh c) : c ≠ 37 := by
  rintro rfl
  simp [IsHexCh] at h

theorem not_hex_colon : ¬ IsHexCh 58 := fun h => isHex_ne_colon h rfl
theorem not_hex_dot : ¬ IsHexCh dot := fun h => isHex_ne_dot h rfl

/-! ### the inner hex loop -/

theorem pow16_le (off : Nat) (h : off ≤ 4) : 16 ^ off ≤ 65536 := by
  have : 16 ^ off ≤ 16 ^ 4 := Nat.pow_le_pow_right (by omega) h
  simpa using this

theorem foldl_hex_lt (g : Str) : ∀ (acc off : Nat), (∀ c ∈ g, IsHexCh c) → acc < 16 ^ off →
    g.foldl (fun a c => a * 16 + hexNat c) acc < 16 ^ (off + g.length) := by
  induction g with
  | nil => intro acc off _ h; simpa using h
  | cons c g ih =>
    intro acc off hg hacc
    have hd := hexNat_lt (hg c (by simp))
    have h16 : 16 ^ (off + 1) = 16 ^ off * 16 := Nat.pow_succ 16 off
    have hacc' : acc * 16 + hexNat c < 16 ^ (off + 1) := by
      rw [h16]
      have : (acc + 1) * 16 ≤ 16 ^ off * 16 := Nat.mul_le_mul_right 16 hacc
      omega
    have := ih (acc * 16 + hexNat c) (off + 1) (fun x hx => hg x (List.mem_cons_of_mem _ hx)) hacc'
    have e : off + 1 + g.length = off + (g.length + 1) := by omega
    simpa only [List.foldl_cons, List.length_cons, e] using this

/-- a group value fits in 16 bits -/
theorem IsHexGroup.val_lt {g : Str} {v : Nat} (h : IsHexGroup g v) : v < 65536 := by
  have h1 := foldl_hex_lt g 0 0 h.hex (by simp)
  have h2 := pow16_le (0 + g.length) (by have := h.len; omega)
  rw [← h.val]
  exact Nat.lt_of_lt_of_le h1 h2

/-- on a run `g` of hex digits followed by a non-hex byte (or the end) the loop consumes exactly `g`. -/
theorem hexGroup_append (g x : Str) : ∀ (acc off : Nat), (∀ c ∈ g, IsHexCh c) → off + g.length ≤ 4 →
    acc < 16 ^ off → (∀ c, x.head? = some c → ¬ IsHexCh c) →
    hexGroup acc off (g ++ x) = some (g.foldl (fun a c => a * 16 + hexNat c) acc, off + g.length, x) := by
  induction g with
  | nil =>
    intro acc off _ _ _ hx
    cases x with
    | nil => simp [hexGroup]
    | cons c r =>
      simp only [List.nil_append, hexGroup, hexDigitVal_of_not_hex (hx c rfl), List.foldl_nil,
        List.length_nil, Nat.add_zero]
  | cons c g ih =>
    intro acc off hg hlen hacc hx
    have hc : IsHexCh c := hg c (by simp)
    simp only [List.length_cons] at hlen
    have h16 : 16 ^ (off + 1) = 16 ^ off * 16 := Nat.pow_succ 16 off
    have hd := hexNat_lt hc
    have hacc' : acc * 16 + hexNat c < 16 ^ (off + 1) := by
      rw [h16]
      have : (acc + 1) * 16 ≤ 16 ^ off * 16 := Nat.mul_le_mul_right 16 hacc
      omega
    have hle := pow16_le (off + 1) (by omega)
    simp only [List.cons_append, hexGroup, hexDigitVal_of_hex hc]
    rw [if_neg (by omega), if_neg (by omega)]
    rw [ih (acc * 16 + hexNat c) (off + 1) (fun x hx => hg x (List.mem_cons_of_mem _ hx)) (by omega) hacc' hx]
    have e : off + 1 + g.length = off + (g.length + 1) := by omega
    simp only [List.foldl_cons, List.length_cons, e]

/-- conversely, whatever the loop consumes is a run of at most four hex digits, and it stops
    only at a non-hex byte or the end. -/
theorem hexGroup_some (s : Str) : ∀ (acc off acc' off' : Nat) (s' : Str),
    hexGroup acc off s = some (acc', off', s') → off ≤ 4 →
    ∃ g, s = g ++ s' ∧ (∀ c ∈ g, IsHexCh c) ∧ off' = off + g.length ∧ off' ≤ 4 ∧
      acc' = g.foldl (fun a c => a * 16 + hexNat c) acc ∧ (∀ c, s'.head? = some c → ¬ IsHexCh c) := by
  induction s with
  | nil =>
    intro acc off acc' off' s' h hoff
    simp only [hexGroup, Option.some.injEq, Prod.mk.injEq] at h
    obtain ⟨rfl, rfl, rfl⟩ := h
    exact ⟨[], rfl, by simp, rfl, hoff, rfl, by simp⟩
  | cons c r ih =>
    intro acc off acc' off' s' h hoff
    unfold hexGroup at h
    by_cases hc : IsHexCh c
    · simp only [hexDigitVal_of_hex hc] at h
      split at h
      · cases h
      · split at h
        · cases h
        · obtain ⟨g, hs, hg, ho, hle, ha, hx⟩ := ih _ _ _ _ _ h (by omega)
          refine ⟨c :: g, by simp [hs], ?_, by simp; omega, hle, by simpa using ha, hx⟩
          intro x hx'
          rcases List.mem_cons.mp hx' with rfl | hx'
          · exact hc
          · exact hg x hx'
    · simp only [hexDigitVal_of_not_hex hc, Option.some.injEq, Prod.mk.injEq] at h
      obtain ⟨rfl, rfl, rfl⟩ := h
      refine ⟨[], rfl, by simp, rfl, hoff, rfl, ?_⟩
      intro x hx
      simp only [List.head?_cons, Option.some.injEq] at hx
      subst hx; exact hc

/-- the first group of a string, as the loop sees it -/
theorem hexGroup_of_group {g : Str} {v : Nat} (hg : IsHexGroup g v) (x : Str)
    (hx : ∀ c, x.head? = some c → ¬ IsHexCh c) :
    hexGroup 0 0 (g ++ x) = some (v, g.length, x) := by
  rw [hexGroup_append g x 0 0 hg.hex (by have := hg.len; omega) (by simp) hx]
  simp only [Nat.zero_add]
  rw [show g.foldl (fun a c => a * 16 + hexNat c) 0 = hexVal g from rfl, hg.val]

theorem hexGroup_start (s : Str) (acc off : Nat) (s' : Str) (h : hexGroup 0 0 s = some (acc, off, s'))
    (hoff : off ≠ 0) :
    ∃ g, s = g ++ s' ∧ IsHexGroup g acc ∧ off = g.length ∧ (∀ c, s'.head? = some c → ¬ IsHexCh c) := by
  obtain ⟨g, hs, hg, ho, hle, ha, hx⟩ := hexGroup_some s 0 0 acc off s' h (by omega)
  simp only [Nat.zero_add] at ho
  refine ⟨g, hs, ⟨?_, by omega, hg, ha.symm⟩, ho, hx⟩
  rintro rfl
  simp at ho
  exact hoff ho

/-! ### one iteration of the group loop -/

theorem v6Loop_full (ip : List UInt8) (ell : Option Nat) (s : Str) (h : ¬ ip.length < 16) :
    v6Loop ip ell s = some (ip, ell, s) := by
  rw [v6Loop, if_neg h]

/-- the five ways one iteration of the `for i < 16` loop can end without an error, given the
    first group read (`acc`) and what follows it (`s'`). -/
def V6StepAlt (ip : List UInt8) (ell : Option Nat) (s : Str) (r : List UInt8 × Option Nat × Str)
    (acc : Nat) (s' : Str) : Prop :=
  (s' = [] ∧ r = (ip ++ groupBytes acc, ell, [])) ∨
  (∃ rest f, s' = dot :: rest ∧ (ell ≠ none ∨ ip.length = 12) ∧ ip.length + 4 ≤ 16 ∧
     parseIPv4Fields s = some f ∧ r = (ip ++ f, ell, [])) ∨
  (s' = [58, 58] ∧ ell = none ∧ r = (ip ++ groupBytes acc, some (ip.length + 2), [])) ∨
  (∃ rest2, rest2 ≠ [] ∧ s' = 58 :: 58 :: rest2 ∧ ell = none ∧
     v6Loop (ip ++ groupBytes acc) (some (ip.length + 2)) rest2 = some r) ∨
  (∃ c2 rest2, c2 ≠ 58 ∧ s' = 58 :: c2 :: rest2 ∧
     v6Loop (ip ++ groupBytes acc) ell (c2 :: rest2) = some r)

theorem v6Loop_step (ip : List UInt8) (ell : Option Nat) (s : Str)
    (r : List UInt8 × Option Nat × Str) (hlt : ip.length < 16) :
    v6Loop ip ell s = some r ↔
      ∃ acc off s', hexGroup 0 0 s = some (acc, off, s') ∧ off ≠ 0 ∧ V6StepAlt ip ell s r acc s' := by
  rw [v6Loop, if_pos hlt]
  cases hg : hexGroup 0 0 s with
  | none => simp
  | some t =>
    obtain ⟨acc, off, s'⟩ := t
    have key : (∃ a o s1, some (acc, off, s') = some (a, o, s1) ∧ o ≠ 0 ∧ V6StepAlt ip ell s r a s1) ↔
        (off ≠ 0 ∧ V6StepAlt ip ell s r acc s') := by
      constructor
      · rintro ⟨_, _, _, he, hp⟩; cases he; exact hp
      · intro hp; exact ⟨_, _, _, rfl, hp⟩
    rw [key]
    simp only
    by_cases hoff : off = 0
    · simp [hoff]
    · simp only [hoff, if_false, ne_eq, not_false_eq_true, true_and]
      have hlen : (ip ++ [UInt8.ofNat (acc / 256), UInt8.ofNat (acc % 256)]).length = ip.length + 2 := by simp
      rw [hlen]
      cases s' with
      | nil =>
        simp only [V6StepAlt, groupBytes, Option.some.injEq, true_and, reduceCtorEq, false_and,
          exists_false, and_false, or_false]
        exact eq_comm
      | cons c rest =>
        simp only
        by_cases hdot : c = dot
        · subst hdot
          simp only [if_true]
          have hd58 : dot ≠ 58 := by decide
          simp only [V6StepAlt, reduceCtorEq, false_and, List.cons.injEq, true_and,
            hd58, and_false, exists_false, or_false, false_or]
          by_cases h1 : ell = none ∧ ¬ ip.length = 12
          · rw [if_pos h1]
            simp only [reduceCtorEq, false_iff]
            rintro ⟨_, f, _, h2, _⟩
            rcases h2 with h2 | h2
            · exact h2 h1.1
            · exact h1.2 h2
          · rw [if_neg h1]
            by_cases h3 : ip.length + 4 > 16
            · rw [if_pos h3]
              simp only [reduceCtorEq, false_iff]
              rintro ⟨_, f, _, _, h4, _⟩
              omega
            · rw [if_neg h3]
              have h1' : ell ≠ none ∨ ip.length = 12 := by
                by_cases he : ell = none
                · right
                  by_cases h12 : ip.length = 12
                  · exact h12
                  · exact absurd ⟨he, h12⟩ h1
                · left; exact he
              cases hp : parseIPv4Fields s with
              | none => simp
              | some f =>
                simp only [Option.some.injEq]
                constructor
                · intro e; exact ⟨rest, f, rfl, h1', by omega, rfl, e.symm⟩
                · rintro ⟨_, f', _, _, _, hf, hr⟩
                  cases hf; exact hr.symm
        · simp only [hdot, if_false]
          by_cases h58 : c = 58
          · subst h58
            simp only [not_true_eq_false, if_false]
            cases rest with
            | nil =>
              simp [V6StepAlt, dot]
            | cons c2 rest2 =>
              simp only
              by_cases h2 : c2 = 58
              · subst h2
                simp only [if_true]
                cases rest2 with
                | nil =>
                  cases ell with
                  | none =>
                    simp only [Option.isSome_none, Bool.false_eq_true, if_false, Option.some.injEq]
                    simp [V6StepAlt, groupBytes, dot]
                    constructor
                    · intro h; exact Or.inl h.symm
                    · rintro (h | ⟨r2, h1, h2, _⟩ | ⟨c2, hne, _, ⟨he, _⟩, _⟩)
                      · exact h.symm
                      · exact absurd h2 h1
                      · exact absurd he.symm hne
                  | some e =>
                    simp [V6StepAlt, dot]
                    intro x h1 h2; exact absurd h2.symm h1
                | cons x rest3 =>
                  cases ell with
                  | none =>
                    simp only [Option.isSome_none, Bool.false_eq_true, if_false]
                    simp [V6StepAlt, groupBytes, dot]
                    constructor
                    · intro h; exact Or.inl ⟨_, by simp, rfl, h⟩
                    · rintro (⟨r2, _, rfl, h⟩ | ⟨c2, hne, _, ⟨he, _⟩, _⟩)
                      · exact h
                      · exact absurd he.symm hne
                  | some e =>
                    simp [V6StepAlt, dot]
                    intro x h1 h2; exact absurd h2.symm h1
              · simp only [h2, if_false]
                simp [V6StepAlt, groupBytes, dot, h2]
                constructor
                · intro h; exact ⟨c2, h2, rest2, ⟨rfl, rfl⟩, h⟩
                · rintro ⟨_, _, _, ⟨rfl, rfl⟩, h⟩; exact h
          · simp only [h58, not_false_eq_true, if_true, reduceCtorEq, false_iff]
            simp [V6StepAlt, hdot, h58]

end ZV.C09
