import ZV.Model.C01Ec
import ZV.Proofs.C01
/-! helper lemmas for the EC private-key post-processing (`ZV.C01.ecStrip`, `ecPrivPost`) -/
namespace ZV.C01
open ZV.TlsWire (beNat)

theorem beNat_zero_cons (t : Bytes) : beNat ((0 : UInt8) :: t) = beNat t := by
  simp [beNat]

theorem beNat_replicate_zero (n : Nat) (p : Bytes) : beNat (List.replicate n (0 : UInt8) ++ p) = beNat p := by
  induction n with
  | zero => simp
  | succ n ih => simp [List.replicate_succ, beNat, ih]

/-- a non-zero leading byte makes the value at least 256^(len-1) -/
theorem beNat_ge_of_head (b : UInt8) (t : Bytes) (hb : b ≠ 0) : 256 ^ t.length ≤ beNat (b :: t) := by
  have h1 : 1 ≤ b.toNat := by
    have : b.toNat ≠ 0 := fun h => hb (UInt8.toNat_inj.mp (by simpa using h))
    omega
  simp only [beNat]
  calc 256 ^ t.length = 1 * 256 ^ t.length := by omega
    _ ≤ b.toNat * 256 ^ t.length := Nat.mul_le_mul_right _ h1
    _ ≤ _ := Nat.le_add_right _ _

theorem idx_cons_zero (b : UInt8) (t : Bytes) : idx (b :: t) 0 = .ok b := by simp [idx]

theorem ecStrip_nil (size : Nat) : ecStrip size [] = .ok [] := by
  rw [ecStrip]; simp

theorem ecStrip_cons (size : Nat) (b : UInt8) (t : Bytes) :
    ecStrip size (b :: t) =
      if size < t.length + 1 then (if b ≠ 0 then .err else ecStrip size t) else .ok (b :: t) := by
  rw [ecStrip]
  simp [idx_cons_zero]

/-- the loop never indexes out of range -/
theorem ecStrip_no_panic (size : Nat) (pk : Bytes) : ecStrip size pk ≠ .panic := by
  induction pk with
  | nil => simp [ecStrip_nil]
  | cons b t ih =>
    rw [ecStrip_cons]
    split
    · split
      · simp
      · exact ih
    · simp

/-- what the loop returns fits the buffer, is a suffix of the input and has the same value -/
theorem ecStrip_ok (size : Nat) (pk p : Bytes) (h : ecStrip size pk = .ok p) :
    p.length ≤ size ∧ p <:+ pk ∧ beNat p = beNat pk := by
  induction pk with
  | nil =>
    simp [ecStrip_nil] at h
    subst h
    simp
  | cons b t ih =>
    rw [ecStrip_cons] at h
    split at h
    · split at h
      · cases h
      · rename_i hb
        have hb0 : b = 0 := by simpa using hb
        obtain ⟨h1, h2, h3⟩ := ih h
        refine ⟨h1, List.IsSuffix.trans h2 (List.suffix_cons b t), ?_⟩
        rw [h3, hb0, beNat_zero_cons]
    · rename_i hs
      cases h
      refine ⟨by simp at hs ⊢; omega, List.suffix_refl _, rfl⟩

/-- the error branch of the loop ("invalid private key length") needs a value of at least 256^size -/
theorem ecStrip_err (size : Nat) (pk : Bytes) (h : ecStrip size pk = .err) : 256 ^ size ≤ beNat pk := by
  induction pk with
  | nil => simp [ecStrip_nil] at h
  | cons b t ih =>
    rw [ecStrip_cons] at h
    split at h
    · rename_i hs
      split at h
      · rename_i hb
        have hb' : b ≠ 0 := by simpa using hb
        exact Nat.le_trans (Nat.pow_le_pow_right (by decide) (by omega)) (beNat_ge_of_head b t hb')
      · rename_i hb
        have hb0 : b = 0 := by simpa using hb
        rw [hb0, beNat_zero_cons]
        exact ih h
    · cases h

end ZV.C01
