import ZV.Model.C07
import ZV.Proofs.C07
/-!
  The recursion bound of `buildChains`.

  The Go recursion `intermediate.buildChains(cache, currentChain + intermediate, opts)` is only
  reached after `intermediate.isValid(CertificateTypeIntermediate, currentChain)` returned nil,
  and `isValid` rejects `len(currentChain) > maxIntermediateCount` (= 10).  Each recursive call
  makes `currentChain` one certificate longer, so a call with `len(currentChain) = 11` does not
  recurse any more.  In the model the recursion consumes one unit of fuel per call; the lemmas
  below show that `fuel ≥ 1 ∧ fuel + len(currentChain) ≥ maxIntermediateCount + 2` is an
  invariant of the recursion under which

  * the error `outOfFuel` is never produced (`buildChains_ne_outOfFuel`), and
  * the whole result (chains, error, cache) does not depend on the fuel
    (`buildChains_fuel_irrelevant`),

  i.e. the fuelled model IS the unbounded Go recursion.
-/
namespace ZV.C07

/-- the invariant: enough fuel for a call whose current chain has `len` certificates -/
def FuelOK (fuel len : Nat) : Prop := 1 ≤ fuel ∧ maxIntermediateCount + 2 ≤ fuel + len

/-- the four error kinds `isValid` can produce do not include `outOfFuel` -/
theorem isValid_err (x : Cert) (t : CertType) (cur : Chain) (e : Err) (h : isValid x t cur = some e) :
    e = .notAuthorizedToSign ∨ e = .tooManyIntermediates := by
  unfold isValid at h
  split at h
  · cases h; exact Or.inl rfl
  · split at h
    · cases h; exact Or.inr rfl
    · split at h
      · cases h; exact Or.inr rfl
      · cases h

theorem isValid_none_len (x : Cert) (t : CertType) (cur : Chain) (h : isValid x t cur = none) :
    cur.length ≤ maxIntermediateCount := (isValid_none_pathOK x t cur h).2

/-- error kinds the chain builder can hand back (besides nil) -/
def BuilderErr (e : Option Err) : Prop :=
  e = none ∨ e = some .isSelfSigned ∨ e = some .notAuthorizedToSign ∨ e = some .tooManyIntermediates ∨
  e = some .unknownAuthority

theorem builderErr_of_isValid (x : Cert) (t : CertType) (cur : Chain) : BuilderErr (isValid x t cur) := by
  cases h : isValid x t cur with
  | none => exact Or.inl rfl
  | some e =>
    rcases isValid_err x t cur e h with rfl | rfl
    · exact Or.inr (Or.inr (Or.inl rfl))
    · exact Or.inr (Or.inr (Or.inr (Or.inl rfl)))

theorem builderErr_ne_outOfFuel {e : Option Err} (h : BuilderErr e) : e ≠ some .outOfFuel := by
  rcases h with rfl | rfl | rfl | rfl | rfl <;> simp

theorem rootLoop_err (cur : Chain) (ps : List (Nat × Cert)) (st : List Chain × Option Err)
    (hst : BuilderErr st.2) : BuilderErr (rootLoop cur ps st).2 := by
  induction ps generalizing st with
  | nil => simpa [rootLoop] using hst
  | cons p ps ih =>
    obtain ⟨n, root⟩ := p
    obtain ⟨chains, e⟩ := st
    unfold rootLoop
    cases hv : isValid root .root cur with
    | some e' =>
      simp only
      exact ih _ (by have := builderErr_of_isValid root .root cur; rw [hv] at this; exact this)
    | none =>
      simp only
      split
      · exact ih _ (Or.inl rfl)
      · exact ih _ (Or.inl rfl)

/-- `interLoop` keeps the error inside the builder kinds, provided the recursive call does so
    whenever it is actually reached (i.e. `isValid` accepted, hence `len(currentChain) ≤ 10`). -/
theorem interLoop_err (rec : Cache → Cert → Chain → List Chain × Option Err × Cache) (env : Env) (cur : Chain)
    (hrec : cur.length ≤ maxIntermediateCount → ∀ cache x, BuilderErr (rec cache x (cur ++ [x])).2.1)
    (ps : List (Nat × Cert)) (st : BState) (hst : BuilderErr st.err) :
    BuilderErr (interLoop rec env cur ps st).err := by
  induction ps generalizing st with
  | nil => simpa [interLoop] using hst
  | cons p ps ih =>
    obtain ⟨num, inter⟩ := p
    unfold interLoop
    split
    · exact ih st hst
    · split
      · exact ih st hst
      · cases hv : isValid inter .intermediate cur with
        | some e =>
          simp only
          exact ih _ (by have := builderErr_of_isValid inter .intermediate cur; rw [hv] at this; exact this)
        | none =>
          simp only
          cases hc : st.cache num with
          | some childChains => simp only; exact ih _ (Or.inl rfl)
          | none => simp only; exact ih _ (hrec (isValid_none_len _ _ _ hv) st.cache inter)

/-- the final error assembly of `buildChains` -/
theorem builderErr_final (chains : List Chain) (e : Option Err) (h : BuilderErr e) :
    BuilderErr (if chains.length = 0 ∧ (if chains.length > 0 then none else e) = none then some Err.unknownAuthority
      else (if chains.length > 0 then none else e)) := by
  by_cases hl : chains.length > 0
  · have h0 : ¬ chains.length = 0 := by omega
    simp only [hl, h0, if_true, false_and, if_false]
    exact Or.inl rfl
  · have h0 : chains.length = 0 := by omega
    simp only [h0, Nat.lt_irrefl, if_false, true_and]
    by_cases he : e = none
    · simp only [he, if_true]; exact Or.inr (Or.inr (Or.inr (Or.inr rfl)))
    · simp only [he, if_false]; exact h

/-- With enough fuel the builder's error is nil or one of the four Go error kinds — never the
    model-only `outOfFuel`. -/
theorem buildChains_err (fuel : Nat) (env : Env) (cache : Cache) (c : Cert) (cur : Chain)
    (hf : FuelOK fuel cur.length) : BuilderErr (buildChains fuel env cache c cur).2.1 := by
  induction fuel generalizing cache c cur with
  | zero => exact absurd hf.1 (by omega)
  | succ fuel ih =>
    simp only [buildChains]
    apply builderErr_final
    apply interLoop_err
    · intro hlen cache' x
      apply ih
      unfold FuelOK maxIntermediateCount at *
      simp only [List.length_append, List.length_cons, List.length_nil]
      omega
    · apply rootLoop_err
      simp only
      generalize (if cur.length = 1 ∧ containsFp env.roots c = true then [[c]] else ([] : List Chain)) = chains0
      split
      · exact Or.inr (Or.inl rfl)
      · exact Or.inl rfl

theorem buildChains_ne_outOfFuel (fuel : Nat) (env : Env) (cache : Cache) (c : Cert) (cur : Chain)
    (hf : FuelOK fuel cur.length) : (buildChains fuel env cache c cur).2.1 ≠ some .outOfFuel :=
  builderErr_ne_outOfFuel (buildChains_err fuel env cache c cur hf)

/-! ### the result does not depend on the fuel -/

theorem interLoop_congr (rec rec' : Cache → Cert → Chain → List Chain × Option Err × Cache) (env : Env) (cur : Chain)
    (hrec : cur.length ≤ maxIntermediateCount → ∀ cache x, rec cache x (cur ++ [x]) = rec' cache x (cur ++ [x]))
    (ps : List (Nat × Cert)) (st : BState) :
    interLoop rec env cur ps st = interLoop rec' env cur ps st := by
  induction ps generalizing st with
  | nil => simp [interLoop]
  | cons p ps ih =>
    obtain ⟨num, inter⟩ := p
    unfold interLoop
    split
    · exact ih st
    · split
      · exact ih st
      · cases hv : isValid inter .intermediate cur with
        | some e => simp only; exact ih _
        | none =>
          simp only
          cases hc : st.cache num with
          | some childChains => simp only; exact ih _
          | none =>
            simp only
            rw [hrec (isValid_none_len _ _ _ hv) st.cache inter]
            exact ih _

/-- Any two amounts of fuel satisfying the invariant give the same chains, error and cache:
    the fuel is only a termination device, the depth bound is enforced by `isValid`. -/
theorem buildChains_fuel_irrelevant (fuel fuel' : Nat) (env : Env) (cache : Cache) (c : Cert) (cur : Chain)
    (hf : FuelOK fuel cur.length) (hf' : FuelOK fuel' cur.length) :
    buildChains fuel env cache c cur = buildChains fuel' env cache c cur := by
  induction fuel generalizing fuel' cache c cur with
  | zero => exact absurd hf.1 (by omega)
  | succ fuel ih =>
    cases fuel' with
    | zero => exact absurd hf'.1 (by omega)
    | succ fuel' =>
      simp only [buildChains]
      rw [interLoop_congr (buildChains fuel env) (buildChains fuel' env) env cur]
      intro hlen cache' x
      apply ih
      · unfold FuelOK maxIntermediateCount at *
        simp only [List.length_append, List.length_cons, List.length_nil]
        omega
      · unfold FuelOK maxIntermediateCount at *
        simp only [List.length_append, List.length_cons, List.length_nil]
        omega

/-! ### error ⇔ no chain -/

/-- `buildChains` returns a nil error exactly when it returns at least one chain. -/
theorem buildChains_err_none_iff (fuel : Nat) (env : Env) (cache : Cache) (c : Cert) (cur : Chain) :
    (buildChains (fuel + 1) env cache c cur).2.1 = none ↔ (buildChains (fuel + 1) env cache c cur).1 ≠ [] := by
  simp only [buildChains]
  generalize (interLoop (buildChains fuel env) env cur (findVerifiedParents env env.inters c) _) = st
  cases hch : st.chains with
  | nil =>
    simp only [List.length_nil, Nat.lt_irrefl, if_false, true_and, ne_eq, not_true_eq_false, iff_false]
    split
    · simp
    · assumption
  | cons a l => simp

end ZV.C07
