import ZV.Model.C05List
import ZV.Proofs.C05
import ZV.Proofs.TimeRT
/-! Lemmas for the list level of C05 (`ZV.Model.C05List`): the cryptobyte readers on written elements, the
    `time.Time` member round trip (on the theorems of `ZV.Proofs.TimeRT`), extensions, entries. -/
namespace ZV.C05
open ZV ZV.Der ZV.C06 ZV.C04

/-! ### cryptobyte readers on written elements -/

theorem peek_tlv (t t' : UInt8) (body rest : Bytes) : peek t' (writeTLV t body ++ rest) = (t == t') := by
  simp [peek, writeTLV]

theorem cbRead_tlv (t : UInt8) (body rest : Bytes) (ht : t.toNat % 32 ≠ 31) (hl : body.length < 2147483648) :
    cbRead t (writeTLV t body ++ rest) = .ok (elemOf t body, rest) := by
  simp only [cbRead, peek_tlv, beq_self_eq_true, Bool.not_true, Bool.false_eq_true, if_false]
  exact readElem_writeTLV t body rest ht hl

theorem cbRead_tlv_end (t : UInt8) (body : Bytes) (ht : t.toNat % 32 ≠ 31) (hl : body.length < 2147483648) :
    cbRead t (writeTLV t body) = .ok (elemOf t body, []) := by
  have := cbRead_tlv t body [] ht hl
  simpa using this

/-! ### times -/

/-- the value read back: the same second, in UTC -/
def secOf (t : GoTime) : GoTime := { unix := t.unix, off := 0, nsec := 0 }

theorem readBack_utc (t : GoTime) : Time.readBack (utc t) = secOf t := by
  simp [Time.readBack, utc, secOf]

theorem utcText_length (t : GoTime) : (Time.utcText t).length ≤ 17 := by
  have := Time.zoneText_length t.off
  simp only [Time.utcText, Time.fieldsText, Time.EA.twoDigits, List.length_append, List.length_cons, List.length_nil]
  omega

theorem cbUTCTime_utcText (t : GoTime) (hy0 : 1950 ≤ t.year) (hy1 : t.year < 2050)
    (h1 : -90000 < t.off) (h2 : t.off < 90000) : cbUTCTime (Time.utcText t) = .ok (Time.readBack t) := by
  obtain ⟨_, hsec⟩ := Time.parse_utcText t hy0 hy1 h1 h2
  simp only [cbUTCTime, hsec]
  by_cases hc : t.year ≤ 1968
  · simp only [hc, if_true]
    have hfmt := Time.format_utc_plus100 t hy0 hc h1 h2
    simp only [Time.plus100] at hfmt
    simp only [hfmt, bne_self_eq_false, Bool.false_eq_true, if_false]
    have hy : (Time.plus100 t).year = t.year + 100 := by simp only [Time.GoTime.year, Time.plus100_civil t hy0 hc]
    simp only [Time.plus100] at hy
    have : t.year + 100 ≥ 2050 := by omega
    simp only [hy, this, if_true]
    exact congrArg Res.ok (Time.addYears_plus100 t hy0 hc)
  · simp only [hc, if_false]
    simp only [Time.format_utc_readBack t h1 h2, bne_self_eq_false, Bool.false_eq_true, if_false, Time.readBack_year]
    have : ¬ (t.year ≥ 2050) := by omega
    simp only [this, if_false]

theorem cbGenTime_genText (t : GoTime) (hy0 : 0 ≤ t.year) (hy1 : t.year ≤ 9999)
    (h1 : -90000 < t.off) (h2 : t.off < 90000) : cbGenTime (Time.genText t) = .ok (Time.readBack t) := by
  simp only [cbGenTime, Time.parse_genText t hy0 hy1 h1 h2, Time.format_gen_readBack t hy0 hy1 h1 h2,
    bne_self_eq_false, Bool.false_eq_true, if_false]

/-- what `encTimeG` writes: a UTCTime for 1950..2049, a GeneralizedTime for the other years 0..9999 -/
theorem encTimeG_eq (t : GoTime) (tb : Bytes) (h : encTimeG t = .ok tb) :
    (1950 ≤ t.year ∧ t.year < 2050 ∧ tb = writeTLV 0x17 (Time.utcText t)) ∨
    ((t.year < 1950 ∨ 2050 ≤ t.year) ∧ 0 ≤ t.year ∧ t.year ≤ 9999 ∧ tb = writeTLV 0x18 (Time.genText t)) := by
  unfold encTimeG Time.EA.makeTimeBody Time.EA.timeTag Time.EA.useGeneralized Time.EA.outsideUTCRange at h
  by_cases hr : t.year < 1950 ∨ t.year ≥ 2050
  · right
    simp only [hr, decide_true, Bool.or_true, if_true] at h
    by_cases hg : t.year < 0 ∨ t.year > 9999
    · rw [Time.appendGeneralizedTime_err t hg] at h; cases h
    · rw [Time.appendGeneralizedTime_eq t (by omega) (by omega)] at h
      simp only [Res.ok.injEq] at h
      exact ⟨by omega, by omega, by omega, by rw [← h]; rfl⟩
  · left
    simp only [hr, decide_false, Bool.or_false] at h
    have h0 : ((0 : Nat) == 24) = false := by decide
    simp only [h0, Bool.false_eq_true, if_false] at h
    rw [Time.appendUTCTime_eq t (by omega) (by omega)] at h
    simp only [Res.ok.injEq] at h
    exact ⟨by omega, by omega, by rw [← h]; rfl⟩

/-- **time member round trip**: what `CreateRevocationList` writes for a time (forced to UTC) is read back by
    `parseTime` as the same second in UTC, whichever of UTCTime / GeneralizedTime was chosen. -/
theorem parseTimeCB_encTimeG (t : GoTime) (tb rest : Bytes) (h : encTimeG (utc t) = .ok tb) :
    parseTimeCB (tb ++ rest) = .ok (secOf t, rest) ∧ (peek 0x18 (tb ++ rest) || peek 0x17 (tb ++ rest)) = true ∧
      tb.length ≤ 23 := by
  have ho1 : -90000 < (utc t).off := by simp [utc]
  have ho2 : (utc t).off < 90000 := by simp [utc]
  rcases encTimeG_eq (utc t) tb h with ⟨a, b, rfl⟩ | ⟨_, a, b, rfl⟩
  · have hl := utcText_length (utc t)
    refine ⟨?_, by simp [peek_tlv], ?_⟩
    · simp only [parseTimeCB, peek_tlv, beq_self_eq_true, if_true]
      rw [cbRead_tlv _ _ _ (by decide) (by omega)]
      simp only [Res.bind, elemOf_body, cbUTCTime_utcText (utc t) a b ho1 ho2, readBack_utc]
    · have := writeTLV_length 0x17 (Time.utcText (utc t))
      have h2 : (encLen (Time.utcText (utc t)).length).length = 1 := by
        unfold encLen; split
        · rfl
        · omega
      omega
  · have hl := Time.genText_length (utc t)
    refine ⟨?_, by simp [peek_tlv], ?_⟩
    · have hp : peek 0x17 (writeTLV 0x18 (Time.genText (utc t)) ++ rest) = false := by simp [peek_tlv]
      simp only [parseTimeCB, hp, Bool.false_eq_true, if_false, peek_tlv, beq_self_eq_true, if_true]
      rw [cbRead_tlv _ _ _ (by decide) (by omega)]
      simp only [Res.bind, elemOf_body, cbGenTime_genText (utc t) a b ho1 ho2, readBack_utc]
    · have := writeTLV_length 0x18 (Time.genText (utc t))
      have h2 : (encLen (Time.genText (utc t)).length).length = 1 := by
        unfold encLen; split
        · rfl
        · omega
      omega

/-! ### extensions -/

theorem peek_tlv_end (t t' : UInt8) (body : Bytes) : peek t' (writeTLV t body) = (t == t') := by
  simp [peek, writeTLV]

/-- cryptobyte `parseExtension` on a written extension -/
theorem parseExtCB_build (x : EExt) (hv : validOID (oidC x) = true) (hl : (extBody x).length < 2147483648) :
    parseExtCB (extBody x) = .ok (triple x) := by
  have h1 := writeTLV_length_ge 0x06 (oidC x)
  have h2 := writeTLV_length_ge 0x04 x.value
  unfold extBody at hl ⊢
  simp only [List.length_append] at hl
  unfold parseExtCB
  simp only [List.append_assoc]
  rw [cbRead_tlv _ _ _ (by decide) (by omega)]
  simp only [Res.bind, elemOf_body, hv, Bool.not_true, Bool.false_eq_true, if_false]
  cases hc : x.critical
  · simp only [Bool.false_eq_true, if_false, List.nil_append, peek_tlv_end]
    have hb : ((0x04 : UInt8) == 0x01) = false := by decide
    simp only [hb, Bool.false_eq_true, if_false]
    rw [cbRead_tlv_end _ _ (by decide) (by omega)]
    simp [triple, hc]
  · simp only [if_true, peek_tlv, beq_self_eq_true]
    rw [cbRead_tlv _ _ _ (by decide) (by simp)]
    simp only [elemOf_body, parseBool]
    rw [if_neg (by decide)]
    rw [if_pos (by decide)]
    dsimp only
    rw [cbRead_tlv_end _ _ (by decide) (by omega)]
    simp [triple, hc]

theorem parseExtsCB_build : ∀ (xs : List EExt) (f : Nat),
    (∀ x ∈ xs, validOID (oidC x) = true ∧ (extBody x).length < 2147483648) →
    ((xs.map fun x => writeTLV 0x30 (extBody x)).flatten).length ≤ f →
    parseExtsCB f ((xs.map fun x => writeTLV 0x30 (extBody x)).flatten) = .ok (xs.map triple) := by
  intro xs
  induction xs with
  | nil => intro f _ _; cases f <;> simp [parseExtsCB]
  | cons x xs ih =>
    intro f hx hf
    obtain ⟨hv, hl⟩ := hx x List.mem_cons_self
    have hge := writeTLV_length_ge 0x30 (extBody x)
    simp only [List.map_cons, List.flatten_cons, List.length_append] at hf ⊢
    cases f with
    | zero => omega
    | succ f =>
      have hne : (writeTLV 0x30 (extBody x) ++ (xs.map fun x => writeTLV 0x30 (extBody x)).flatten).isEmpty = false := by
        simp [writeTLV]
      simp only [parseExtsCB, hne, Bool.false_eq_true, if_false]
      rw [cbRead_tlv _ _ _ (by decide) hl]
      simp only [Res.bind, elemOf_body, parseExtCB_build x hv hl]
      rw [ih f (fun y hy => hx y (List.mem_cons_of_mem _ hy)) (by omega)]

/-! ### ENUMERATED of an `int` -/

theorem encBigInt_len64 (n : Int) (h1 : -9223372036854775808 ≤ n) (h2 : n < 9223372036854775808) :
    (encBigInt n).length ≤ 8 := by
  obtain ⟨b1, b2⟩ := bigint_fits n
  obtain ⟨k, hk, _, hlo, hhi, hmin⟩ := intLen_spec (n.natAbs.log2 + 2) n b1 b2
  rw [encBigInt_eq, beBytes_length, hk]
  by_cases hk7 : k ≤ 7
  · omega
  · exfalso
    obtain ⟨j, rfl⟩ : ∃ j, k = j + 1 := ⟨k - 1, by omega⟩
    have hp : 256 ^ 7 ≤ 256 ^ j := Nat.pow_le_pow_right (by decide) (by omega)
    have h4 : (256 : Int) ^ j = ((256 ^ j : Nat) : Int) := by simp
    have := hmin j rfl
    rw [h4] at this
    have h7 : (256 : Nat) ^ 7 = 72057594037927936 := by decide
    omega

theorem parseBigInt_ok {bs : Bytes} {v : Int} (h : parseBigInt bs = .ok v) : checkInteger bs = true ∧ intOfBytes bs = v := by
  unfold parseBigInt at h
  by_cases hc : checkInteger bs = true
  · simp only [hc, if_true, Res.ok.injEq] at h; exact ⟨hc, h⟩
  · simp [hc] at h

theorem parseEnumCB_reasonExt (n : Int) (h1 : -9223372036854775808 ≤ n) (h2 : n < 9223372036854775808) :
    parseEnumCB (reasonExt n).value = .ok n := by
  have hl := encBigInt_len64 n h1 h2
  obtain ⟨hc, hv⟩ := parseBigInt_ok (parseBigInt_encBigInt n)
  unfold parseEnumCB reasonExt tlv
  simp only
  rw [cbRead_tlv_end _ _ (by decide) (by omega)]
  have : ¬ ((encBigInt n).length > 8) := by omega
  simp [Res.bind, parseInt64, hc, hv, this]

def decCB (x : EExt) : Option Int := match parseEnumCB x.value with | .ok n => some n | _ => none

theorem scanReasonCB_lift : ∀ (l : List EExt) (acc : Option Int),
    (∀ x ∈ l, encOID x.oid = some (oidC x) ∧ (x.oid = reasonOID ∨ oidOk x.oid = true)) →
    (∀ x ∈ l, x.oid = reasonOID → ∃ n, parseEnumCB x.value = .ok n) →
    scanReasonCB roB (l.map triple) acc = .ok (scanReasonA l acc decCB) := by
  intro l
  induction l with
  | nil => intro acc _ _; rfl
  | cons x xs ih =>
    intro acc h1 h2
    obtain ⟨he, hd⟩ := h1 x List.mem_cons_self
    have h1' := fun y hy => h1 y (List.mem_cons_of_mem _ hy)
    have h2' := fun y hy => h2 y (List.mem_cons_of_mem _ hy)
    simp only [List.map_cons, scanReasonCB, scanReasonA, triple]
    by_cases hx : x.oid = reasonOID
    · have hc : oidC x = roB := by
        rw [hx, encOID_reason] at he
        exact (Option.some.inj he).symm
      obtain ⟨n, hn⟩ := h2 x List.mem_cons_self hx
      simp only [hc, hx, if_true, hn, decCB, Res.bind]
      exact ih (some n) h1' h2'
    · have hc : oidC x ≠ roB := by
        intro hc
        rw [hc] at he
        rcases hd with hd | hd
        · exact hx hd
        · exact hx (encOID_inj he encOID_reason hd oidOk_reason)
      simp only [hc, hx, if_false]
      exact ih acc h1' h2'

/-! ### entries -/

/-- domain of the entry theorem (decidable): extra extensions whose OIDs — other than reasonCode ones, which are
    dropped — are within the reader's MaxInt32 limit, and a reason code that is a Go `int` (64 bits). -/
def EntryT.okT (e : EntryT) : Bool :=
  e.extras.all (fun x => x.oid == reasonOID || oidOk x.oid) &&
  (match e.reason with
   | none => true
   | some n => decide (-9223372036854775808 ≤ n ∧ n < 9223372036854775808))

def extsFieldT (l : List EExt) : Bytes :=
  if l.isEmpty then [] else writeTLV 0x30 ((l.map fun x => writeTLV 0x30 (extBody x)).flatten)

def entryBodyT (e : EntryT) (tb : Bytes) : Bytes := writeTLV 0x02 (encBigInt e.serial) ++ (tb ++ extsFieldT e.synth)

/-- what the parser reports for an entry whose encoding is `raw` -/
def EntryT.parsed (e : EntryT) (raw : Bytes) : PEntryT :=
  ⟨raw, e.serial, secOf e.time, normReason e.reason, e.synth.map triple⟩

theorem mapM_encExtension {l : List EExt} {xs : List Bytes} (h : l.mapM encExtension = some xs) :
    xs = l.map (fun x => writeTLV 0x30 (extBody x)) ∧ ∀ x ∈ l, encOID x.oid = some (oidC x) :=
  mapM_some_map encExtension (fun x => writeTLV 0x30 (extBody x)) (fun x => encOID x.oid = some (oidC x))
    (fun _ _ hab => ⟨(encExtension_eq hab).2, (encExtension_eq hab).1⟩) l xs h

theorem encExtsField_eq (l : List EExt) : encExtsField (l.map fun x => writeTLV 0x30 (extBody x)) = extsFieldT l := by
  cases l <;> simp [encExtsField, extsFieldT, tlv]

theorem encEntryT_eq {e : EntryT} {bs : Bytes} (h : encEntryT e = .ok bs) :
    ∃ tb, encTimeG (utc e.time) = .ok tb ∧ bs = writeTLV 0x30 (entryBodyT e tb) ∧
      ∀ x ∈ e.synth, encOID x.oid = some (oidC x) := by
  unfold encEntryT at h
  cases hm : e.synth.mapM encExtension with
  | none => simp [hm] at h
  | some xs =>
    obtain ⟨e1, p1⟩ := mapM_encExtension hm
    cases ht : encTimeG (utc e.time) with
    | ok tb =>
      simp only [hm, ht, Res.ok.injEq] at h
      exact ⟨tb, rfl, by rw [← h, e1, encExtsField_eq]; rfl, p1⟩
    | err => simp [hm, ht] at h
    | panic => simp [hm, ht] at h

theorem synthT_mem (e : EntryT) (x : EExt) (hx : x ∈ e.synth) :
    (x ∈ e.extras ∧ x.oid ≠ reasonOID) ∨ (∃ n, normReason e.reason = some n ∧ x = reasonExt n) :=
  synth_mem ⟨e.serial, [], e.reason, e.extras⟩ x hx

theorem okT_reason {e : EntryT} (hok : e.okT = true) (n : Int) (hn : normReason e.reason = some n) :
    -9223372036854775808 ≤ n ∧ n < 9223372036854775808 := by
  simp only [EntryT.okT, Bool.and_eq_true] at hok
  cases hr : e.reason with
  | none => simp [normReason, hr] at hn
  | some m =>
    have h2 := hok.2
    simp only [hr, decide_eq_true_eq] at h2
    simp only [normReason, hr] at hn
    split at hn
    · cases hn
    · simp only [Option.some.injEq] at hn; subst hn; exact h2

/-- **entry round trip (cryptobyte walk, real time parser)** -/
theorem parseEntryT_build (e : EntryT) (tb rest : Bytes) (ht : encTimeG (utc e.time) = .ok tb)
    (henc : ∀ x ∈ e.synth, encOID x.oid = some (oidC x)) (hok : e.okT = true)
    (hlen : (entryBodyT e tb).length < 2147483648) :
    parseEntryT (writeTLV 0x30 (entryBodyT e tb) ++ rest) =
      .ok (e.parsed (writeTLV 0x30 (entryBodyT e tb)), rest) := by
  have hS := writeTLV_length_ge 0x02 (encBigInt e.serial)
  have hext : e.extras.all (fun x => x.oid == reasonOID || oidOk x.oid) = true := by
    simp only [EntryT.okT, Bool.and_eq_true] at hok; exact hok.1
  have hoidok : ∀ x ∈ e.synth, x.oid = reasonOID ∨ oidOk x.oid = true := by
    intro x hx
    rcases synthT_mem e x hx with ⟨hm, _⟩ | ⟨n, _, rfl⟩
    · have := List.all_eq_true.mp hext x hm
      simpa using this
    · left; rfl
  unfold parseEntryT
  rw [cbRead_tlv _ _ _ (by decide) hlen]
  simp only [Res.bind, elemOf_body, elemOf_full]
  unfold entryBodyT at hlen ⊢
  simp only [List.length_append] at hlen
  rw [cbRead_tlv _ _ _ (by decide) (by omega)]
  simp only [elemOf_body, parseBigInt_encBigInt]
  rw [(parseTimeCB_encTimeG e.time tb _ ht).1]
  simp only []
  unfold extsFieldT at hlen ⊢
  by_cases hemp : e.synth.isEmpty = true
  · have hnil : e.synth = [] := by simpa using hemp
    have hr : normReason e.reason = none := by
      have := scanReasonA_synth ⟨e.serial, [], e.reason, e.extras⟩ (fun x => decCB x) (by
        intro n hn
        have : reasonExt n ∈ e.synth := by simp [EntryT.synth, synthExts, hn]
        rw [hnil] at this; cases this)
      have h' : synthExts ⟨e.serial, [], e.reason, e.extras⟩ = [] := hnil
      rw [h'] at this
      exact this.symm
    simp [hemp, peek, EntryT.parsed, hnil, hr]
  · simp only [hemp, Bool.false_eq_true, if_false] at hlen ⊢
    have hX := writeTLV_length_ge 0x30 ((e.synth.map fun x => writeTLV 0x30 (extBody x)).flatten)
    obtain ⟨_, hel⟩ := tlvs_bounds 0x30 (fun x => writeTLV 0x30 (extBody x)) e.synth 2147483648 (by omega)
    have hbl : ∀ x ∈ e.synth, (extBody x).length < 2147483648 := by
      intro x hx
      have := hel x hx
      have := writeTLV_length_ge 0x30 (extBody x)
      omega
    have hval : ∀ x ∈ e.synth, validOID (oidC x) = true := by
      intro x hx
      rcases hoidok x hx with h | h
      · have := henc x hx
        rw [h, encOID_reason] at this
        rw [← Option.some.inj this]; decide
      · exact validOID_encOID (henc x hx) h
    simp only [peek_tlv_end, beq_self_eq_true, if_true]
    rw [cbRead_tlv_end _ _ (by decide) (by omega)]
    simp only [elemOf_body]
    rw [parseExtsCB_build e.synth _ (fun x hx => ⟨hval x hx, hbl x hx⟩) (Nat.le_refl _)]
    simp only []
    have hro : reasonOIDBytes = roB := rfl
    rw [hro, scanReasonCB_lift e.synth none (fun x hx => ⟨henc x hx, hoidok x hx⟩) (by
      intro x hx ho
      rcases synthT_mem e x hx with ⟨_, hne⟩ | ⟨n, hn, rfl⟩
      · exact absurd ho hne
      · obtain ⟨a, b⟩ := okT_reason hok n hn
        exact ⟨n, parseEnumCB_reasonExt n a b⟩)]
    simp only []
    have hsc : scanReasonA e.synth none decCB = normReason e.reason :=
      scanReasonA_synth ⟨e.serial, [], e.reason, e.extras⟩ decCB (by
        intro n hn
        obtain ⟨a, b⟩ := okT_reason hok n hn
        simp only [decCB, parseEnumCB_reasonExt n a b])
    rw [hsc]
    rfl

/-! ### entry lists -/

theorem bind_ok {α β} (a : α) (f : α → Res β) : (Res.ok a).bind f = f a := rfl

/-- the time bytes of an entry (`[]` when the time cannot be encoded — then `encEntryT` fails) -/
def tbOf (e : EntryT) : Bytes := match encTimeG (utc e.time) with | .ok tb => tb | _ => []

def entryEnc (e : EntryT) : Bytes := writeTLV 0x30 (entryBodyT e (tbOf e))

theorem encEntryT_enc {e : EntryT} {bs : Bytes} (h : encEntryT e = .ok bs) :
    bs = entryEnc e ∧ encTimeG (utc e.time) = .ok (tbOf e) ∧ ∀ x ∈ e.synth, encOID x.oid = some (oidC x) := by
  obtain ⟨tb, h1, h2, h3⟩ := encEntryT_eq h
  have : tbOf e = tb := by unfold tbOf; rw [h1]
  exact ⟨by rw [h2, entryEnc, this], by rw [this]; exact h1, h3⟩

theorem mapRes_ok_map {α β} (f : α → Res β) (g : α → β) (P : α → Prop)
    (hfg : ∀ a b, f a = .ok b → b = g a ∧ P a) :
    ∀ (l : List α) (bs : List β), mapRes f l = .ok bs → bs = l.map g ∧ ∀ a ∈ l, P a := by
  intro l
  induction l with
  | nil => intro bs h; simp [mapRes] at h; subst h; simp
  | cons a l ih =>
    intro bs h
    simp only [mapRes] at h
    cases ha : f a with
    | ok b =>
      cases hl : mapRes f l with
      | ok r =>
        simp only [ha, hl, Res.ok.injEq] at h
        subst h
        obtain ⟨e1, p1⟩ := hfg a b ha
        obtain ⟨e2, p2⟩ := ih r hl
        refine ⟨by simp [e1, e2], ?_⟩
        intro x hx
        rcases List.mem_cons.mp hx with rfl | hx
        · exact p1
        · exact p2 x hx
      | err => simp [ha, hl] at h
      | panic => simp [ha, hl] at h
    | err => simp [ha] at h
    | panic => simp [ha] at h

theorem parseEntriesT_build : ∀ (es : List EntryT) (f : Nat),
    (∀ e ∈ es, encTimeG (utc e.time) = .ok (tbOf e) ∧ (∀ x ∈ e.synth, encOID x.oid = some (oidC x)) ∧ e.okT = true ∧
      (entryBodyT e (tbOf e)).length < 2147483648) →
    ((es.map entryEnc).flatten).length ≤ f →
    parseEntriesT f ((es.map entryEnc).flatten) = .ok (es.map fun e => e.parsed (entryEnc e)) := by
  intro es
  induction es with
  | nil => intro f _ _; cases f <;> simp [parseEntriesT]
  | cons e es ih =>
    intro f hx hf
    obtain ⟨ht, henc, hok, hl⟩ := hx e List.mem_cons_self
    have hge := writeTLV_length_ge 0x30 (entryBodyT e (tbOf e))
    simp only [List.map_cons, List.flatten_cons, List.length_append] at hf ⊢
    cases f with
    | zero => simp only [entryEnc] at hf; omega
    | succ f =>
      have hne : (entryEnc e ++ (es.map entryEnc).flatten).isEmpty = false := by simp [entryEnc, writeTLV]
      simp only [parseEntriesT, hne, Bool.false_eq_true, if_false]
      have := parseEntryT_build e (tbOf e) ((es.map entryEnc).flatten) ht henc hok hl
      rw [entryEnc, this]
      simp only [bind_ok]
      have hih := ih f (fun y hy => hx y (List.mem_cons_of_mem _ hy)) (by simp only [entryEnc] at hf ⊢; omega)
      simp only [entryEnc] at hih
      rw [hih]
      rfl

/-! ### list-level extensions -/

theorem encOID_aki : encOID oidAKI = some oidAKIBytes := by decide
theorem encOID_num : encOID oidCRLNumber = some oidCRLNumberBytes := by decide
theorem oidOk_aki : oidOk oidAKI = true := by decide
theorem oidOk_num : oidOk oidCRLNumber = true := by decide

theorem scanListExts_other : ∀ (l : List EExt) (a : Option Bytes) (n : Option Int),
    (∀ x ∈ l, encOID x.oid = some (oidC x) ∧ oidOk x.oid = true ∧ x.oid ≠ oidAKI ∧ x.oid ≠ oidCRLNumber) →
    scanListExts (l.map triple) a n = .ok (a, n) := by
  intro l
  induction l with
  | nil => intro a n _; rfl
  | cons x xs ih =>
    intro a n h
    obtain ⟨he, hok, h1, h2⟩ := h x List.mem_cons_self
    have c1 : oidC x ≠ oidAKIBytes := by
      intro hc; rw [hc] at he; exact h1 (encOID_inj he encOID_aki hok oidOk_aki)
    have c2 : oidC x ≠ oidCRLNumberBytes := by
      intro hc; rw [hc] at he; exact h2 (encOID_inj he encOID_num hok oidOk_num)
    simp only [List.map_cons, scanListExts, triple, c1, c2, if_false]
    exact ih a n (fun y hy => h y (List.mem_cons_of_mem _ hy))

end ZV.C05
