import ZV.Model.C02Views
import ZV.Proofs.C02
namespace ZV.C02

/-! ### orMask / GeneralSubtreeIP view -/

theorem orLoop_ok (mask : Bytes) (ip : Bytes) (idx : Nat) (h : idx + ip.length ≤ mask.length) :
    ∃ out, orLoop mask idx ip = .ok out ∧ out.length = ip.length := by
  induction ip generalizing idx with
  | nil => exact ⟨[], by simp [orLoop]⟩
  | cons b rest ih =>
    simp only [List.length_cons] at h
    obtain ⟨m, hm⟩ := at?_of_lt (l := mask) (i := idx) (by omega)
    obtain ⟨out, ho, hl⟩ := ih (idx + 1) (by omega)
    exact ⟨(b ||| m) :: out, by simp [orLoop, hm, ho], by simp [hl]⟩

/-- without the length guard the loop does index out of range: a mask shorter than the address -/
theorem orLoop_panic_of_short (mask ip : Bytes) (h : mask.length < ip.length) : orLoop mask 0 ip = .panic := by
  have gen : ∀ (ip : Bytes) (idx : Nat), mask.length < idx + ip.length → idx ≤ mask.length → orLoop mask idx ip = .panic := by
    intro ip
    induction ip with
    | nil => intro idx h1 h2; simp at h1; omega
    | cons b rest ih =>
      intro idx h1 h2
      simp only [List.length_cons] at h1
      by_cases hlt : idx < mask.length
      · obtain ⟨m, hm⟩ := at?_of_lt (l := mask) (i := idx) hlt
        have := ih (idx + 1) (by omega) (by omega)
        simp [orLoop, hm, this]
      · have : at? mask idx = .panic := by
          unfold at?
          rw [List.getElem?_eq_none (by omega)]
        simp [orLoop, this]
  exact gen ip 0 (by omega) (by omega)

theorem orMask_cases (ip mask : Bytes) :
    orMask ip mask = .ok none ∨ ∃ out, orMask ip mask = .ok (some out) ∧ out.length = ip.length := by
  unfold orMask
  split
  · exact Or.inl rfl
  · split
    · exact Or.inl rfl
    · split
      · exact Or.inl rfl
      · rename_i h1 h2 h3
        obtain ⟨out, ho, hl⟩ := orLoop_ok mask ip 0 (by omega)
        exact Or.inr ⟨out, by simp [ho], hl⟩

theorem orMask_some_of_shape (ip mask : Bytes) (h : ip.length = mask.length) (h4 : ip.length = 4 ∨ ip.length = 16) :
    ∃ out, orMask ip mask = .ok (some out) ∧ out.length = ip.length := by
  obtain ⟨out, ho, hl⟩ := orLoop_ok mask ip 0 (by omega)
  refine ⟨out, ?_, hl⟩
  unfold orMask
  rw [if_neg (by omega), if_neg (by omega), if_neg (by omega)]
  simp [ho]

theorem invertMask_length (m : Bytes) : (invertMask m).length = m.length := by simp [invertMask]

theorem subtreeIPView_ok (ip mask : Bytes) : ∃ v, subtreeIPView ip mask = .ok v := by
  unfold subtreeIPView
  simp only
  split
  · exact ⟨_, rfl⟩
  · rcases orMask_cases ip (invertMask mask) with h | ⟨out, h, _⟩ <;> simp [h]

/-! ### algorithm-name tables -/

/-- what `PublicKeyAlgorithm.String` needs of its table: the clamp bound does not exceed the table, and entry 0 exists -/
def KeyAlgTableCovers : Prop :=
  Gen.totalKeyAlgorithms ≤ Gen.keyAlgorithmNames.length ∧ 0 < Gen.keyAlgorithmNames.length

theorem keyAlgName_ok (hT : KeyAlgTableCovers) (p : Int) : ∃ s, keyAlgName p = .ok s := by
  unfold keyAlgName
  simp only
  split
  · apply at?_of_lt
    simpa using hT.2
  · rename_i h
    have h1 : 0 ≤ p ∧ p < (Gen.totalKeyAlgorithms : Int) := by omega
    apply at?_of_lt
    have := hT.1
    omega

theorem sigAlgString_ok (a : Int) : ∃ s, sigAlgString a = .ok s := by
  unfold sigAlgString
  split
  · rename_i h
    apply at?_of_lt
    have := h.2
    omega
  · exact ⟨_, rfl⟩

/-! ### JsonifyExtensions split -/

/-- the fold of `jsonifySplit` from any accumulator, in closed form for the unknown list -/
theorem jsonifySplit_fold_unknown (l : List (List Nat × Nat)) (acc : List Nat × List Nat) :
    (l.foldl jsonifyStep acc).2 =
    acc.2 ++ (l.filter (fun e => (knownExtOids.idxOf? e.1).isNone)).map (·.2) := by
  induction l generalizing acc with
  | nil => simp
  | cons e rest ih =>
    simp only [List.foldl_cons]
    rw [ih]
    unfold jsonifyStep
    cases hk : knownExtOids.idxOf? e.1 with
    | some k => simp [hk]
    | none => simp [hk]

/-- a view is filled iff some extension carries its OID -/
theorem jsonifySplit_fold_known (l : List (List Nat × Nat)) (acc : List Nat × List Nat) (k : Nat) :
    k ∈ (l.foldl jsonifyStep acc).1 ↔ k ∈ acc.1 ∨ ∃ e ∈ l, knownExtOids.idxOf? e.1 = some k := by
  induction l generalizing acc with
  | nil => simp
  | cons e rest ih =>
    simp only [List.foldl_cons]
    rw [ih]
    unfold jsonifyStep
    cases hk : knownExtOids.idxOf? e.1 with
    | some k' =>
      by_cases hc : acc.1.contains k' = true
      · simp only [hc, if_true, List.mem_cons, exists_eq_or_imp, hk, Option.some.injEq]
        constructor
        · rintro (h | h)
          · exact Or.inl h
          · exact Or.inr (Or.inr h)
        · rintro (h | h | h)
          · exact Or.inl h
          · subst h; exact Or.inl (by simpa using hc)
          · exact Or.inr h
      · have hc' : acc.1.contains k' = false := by simpa using hc
        simp only [hc', Bool.false_eq_true, if_false, List.mem_append, List.mem_cons, List.not_mem_nil, or_false,
          exists_eq_or_imp, hk, Option.some.injEq]
        constructor
        · rintro ((h | h) | h)
          · exact Or.inl h
          · exact Or.inr (Or.inl h.symm)
          · exact Or.inr (Or.inr h)
        · rintro (h | h | h)
          · exact Or.inl (Or.inl h)
          · exact Or.inl (Or.inr h.symm)
          · exact Or.inr h
    | none =>
      simp only [List.mem_cons, exists_eq_or_imp, hk]
      simp

end ZV.C02
