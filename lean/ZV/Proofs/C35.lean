import ZV.Model.C35
/-! helper lemmas for `ZV.Props.C35` (kept apart from the property theorems) -/
namespace ZV.C35

/-! ### invariant -/
def keys (q : Q) : List Key := q.map (·.1)

structure Inv (c : Cache) : Prop where
  capPos : 0 < c.cap
  bounded : c.q.length ≤ c.cap
  nodup : (keys c.q).Nodup
  noNil : ∀ e ∈ c.q, e.2 ≠ none

/-! ### helper lemmas -/
theorem hasKey_iff (k : Key) (q : Q) : hasKey k q = true ↔ k ∈ keys q := by
  induction q with
  | nil => simp [hasKey, keys]
  | cons e q ih =>
    simp only [hasKey, keys, List.any_cons, List.map_cons, List.mem_cons, Bool.or_eq_true,
      beq_iff_eq] at *
    constructor
    · rintro (h | h)
      · exact Or.inl h.symm
      · exact Or.inr (ih.mp h)
    · rintro (h | h)
      · exact Or.inl h.symm
      · exact Or.inr (ih.mpr h)

theorem erase_absent (k : Key) (q : Q) (h : k ∉ keys q) : erase k q = q := by
  induction q with
  | nil => rfl
  | cons e q ih =>
    simp only [keys, List.map_cons, List.mem_cons, not_or] at h
    simp only [erase, List.filter_cons]
    have : (e.1 != k) = true := by simp [bne_iff_ne]; exact fun h' => h.1 h'.symm
    simp only [this, if_true]
    exact congrArg _ (ih h.2)

theorem erase_length_le (k : Key) (q : Q) : (erase k q).length ≤ q.length :=
  List.length_filter_le _ _

theorem erase_length_lt (k : Key) (q : Q) (h : k ∈ keys q) : (erase k q).length < q.length := by
  induction q with
  | nil => simp [keys] at h
  | cons e q ih =>
    simp only [erase, List.filter_cons]
    by_cases he : e.1 = k
    · have : (e.1 != k) = false := by simp [he]
      simp only [this]
      have := erase_length_le k q
      simp only [erase] at this
      simp; omega
    · have : (e.1 != k) = true := by simp [bne_iff_ne, he]
      simp only [this, if_true, List.length_cons]
      have hk : k ∈ keys q := by
        simp only [keys, List.map_cons, List.mem_cons] at h
        rcases h with h | h
        · exact absurd h.symm he
        · exact h
      have := ih hk
      simp only [erase] at this
      omega

theorem keys_erase (k : Key) (q : Q) : keys (erase k q) = (keys q).filter (· != k) := by
  induction q with
  | nil => rfl
  | cons e q ih =>
    simp only [erase, keys, List.filter_cons, List.map_cons] at *
    by_cases he : e.1 = k
    · simp [he, ih]
    · have : (e.1 != k) = true := by simp [bne_iff_ne, he]
      simp [this, ih]

theorem not_mem_keys_erase (k : Key) (q : Q) : k ∉ keys (erase k q) := by
  rw [keys_erase]; simp

theorem mem_keys_erase {k k' : Key} {q : Q} : k' ∈ keys (erase k q) ↔ k' ∈ keys q ∧ k' ≠ k := by
  rw [keys_erase]; simp

theorem nodup_erase (k : Key) (q : Q) (h : (keys q).Nodup) : (keys (erase k q)).Nodup := by
  rw [keys_erase]; exact h.filter _

theorem mem_erase {k : Key} {q : Q} {e : Key × Val} (h : e ∈ erase k q) : e ∈ q :=
  (List.mem_filter.mp h).1

theorem find_erase_ne {k k' : Key} (q : Q) (h : k' ≠ k) : find k' (erase k q) = find k' q := by
  induction q with
  | nil => rfl
  | cons e q ih =>
    simp only [find, erase, List.filter_cons] at *
    by_cases he : e.1 = k
    · have h1 : (e.1 != k) = false := by simp [he]
      have h2 : (e.1 == k') = false := by simp [he]; exact fun h' => h h'.symm
      simp only [h1, List.find?_cons, h2]
      exact ih
    · have h1 : (e.1 != k) = true := by simp [bne_iff_ne, he]
      simp only [h1, if_true, List.find?_cons]
      cases hek : (e.1 == k') with
      | true => rfl
      | false => exact ih

theorem find_none_iff (k : Key) (q : Q) : find k q = none ↔ k ∉ keys q := by
  induction q with
  | nil => simp [find, keys]
  | cons e q ih =>
    simp only [find, keys, List.find?_cons, List.map_cons, List.mem_cons, not_or] at *
    by_cases he : e.1 = k
    · simp [he]
    · have : (e.1 == k) = false := by simp [he]
      simp only [this]
      constructor
      · intro h; exact ⟨fun h' => he h'.symm, ih.mp h⟩
      · intro h; exact ih.mpr h.2

theorem find_some_mem {k : Key} {q : Q} {v : Val} (h : find k q = some v) : (k, v) ∈ q := by
  induction q with
  | nil => simp [find] at h
  | cons e q ih =>
    simp only [find, List.find?_cons] at h
    by_cases he : e.1 = k
    · have : (e.1 == k) = true := by simp [he]
      simp only [this, Option.map_some, Option.some.injEq] at h
      have : e = (k, v) := by cases e; simp_all
      simp [this]
    · have : (e.1 == k) = false := by simp [he]
      simp only [this] at h
      exact List.mem_cons_of_mem _ (ih h)

end ZV.C35
