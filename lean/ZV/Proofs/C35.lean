import ZV.Model.C35
/-! helper lemmas for `ZV.Props.C35` (kept apart from the property theorems) -/
namespace ZV.C35

/-! ### invariant -/
def keys (q : Q) : List Key := q.map (·.1)

structure Inv (c : Cache) : Prop where
  capPos : 0 < c.cap
  bounded : c.q.length ≤ c.cap
  nodup : (keys c.q).Nodup
  noNil : ∀ e ∈ c.q, e.2 ≠ none

/-! ### helper lemmas -/
theorem hasKey_iff (k : Key) (q : Q) : hasKey k q = true ↔ k ∈ keys q := by
  induction q with
  | nil => simp [hasKey, keys]
  | cons e q ih =>
    simp only [hasKey, keys, List.any_cons, List.map_cons, List.mem_cons, Bool.or_eq_true,
      beq_iff_eq] at *
    constructor
    · rintro (h | h)
      · exact Or.inl h.symm
      · exact Or.inr (ih.mp h)
    · rintro (h | h)
      · exact Or.inl h.symm
      · exact Or.inr (ih.mpr h)

theorem erase_absent (k : Key) (q : Q) (h : k ∉ keys q) : erase k q = q := by
  induction q with
  | nil => rfl
  | cons e q ih =>
    simp only [keys, List.map_cons, List.mem_cons, not_or] at h
    simp only [erase, List.filter_cons]
    have : (e.1 != k) = true := by simp [bne_iff_ne]; exact fun h' => h.1 h'.symm
    simp only [this, if_true]
    exact congrArg _ (ih h.2)

theorem erase_length_le (k : Key) (q : Q) : (erase k q).length ≤ q.length :=
  List.length_filter_le _ _

theorem erase_length_lt (k : Key) (q : Q) (h : k ∈ keys q) : (erase k q).length < q.length := by
  induction q with
  | nil => simp [keys] at h
  | cons e q ih =>
    simp only [erase, List.filter_cons]
    by_cases he : e.1 = k
    · have : (e.1 != k) = false := by simp [he]
      simp only [this]
      have := erase_length_le k q
      simp only [erase] at this
      simp; omega
    · have : (e.1 != k) = true := by simp [bne_iff_ne, he]
      simp only [this, if_true, List.length_cons]
      have hk : k ∈ keys q := by
        simp only [keys, List.map_cons, List.mem_cons] at h
        rcases h with h | h
        · exact absurd h.symm he
        · exact h
      have := ih hk
      simp only [erase] at this
      omega

theorem keys_erase (k : Key) (q : Q) : keys (erase k q) = (keys q).filter (· != k) := by
  induction q with
  | nil => rfl
  | cons e q ih =>
    simp only [erase, keys, List.filter_cons, List.map_cons] at *
    by_cases he : e.1 = k
    · simp [he, ih]
    · have : (e.1 != k) = true := by simp [bne_iff_ne, he]
      simp [this, ih]

theorem not_mem_keys_erase (k : Key) (q : Q) : k ∉ keys (erase k q) := by
  rw [keys_erase]; simp

theorem mem_keys_erase {k k' : Key} {q : Q} : k' ∈ keys (erase k q) ↔ k' ∈ keys q ∧ k' ≠ k := by
  rw [keys_erase]; simp

theorem nodup_erase (k : Key) (q : Q) (h : (keys q).Nodup) : (keys (erase k q)).Nodup := by
  rw [keys_erase]; exact h.filter _

theorem mem_erase {k : Key} {q : Q} {e : Key × Val} (h : e ∈ erase k q) : e ∈ q :=
  (List.mem_filter.mp h).1

theorem find_erase_ne {k k' : Key} (q : Q) (h : k' ≠ k) : find k' (erase k q) = find k' q := by
  induction q with
  | nil => rfl
  | cons e q ih =>
    simp only [find, erase, List.filter_cons] at *
    by_cases he : e.1 = k
    · have h1 : (e.1 != k) = false := by simp [he]
      have h2 : (e.1 == k') = false := by simp [he]; exact fun h' => h h'.symm
      simp only [h1, List.find?_cons, h2]
      exact ih
    · have h1 : (e.1 != k) = true := by simp [bne_iff_ne, he]
      simp only [h1, if_true, List.find?_cons]
      cases hek : (e.1 == k') with
      | true => rfl
      | false => exact ih

theorem find_none_iff (k : Key) (q : Q) : find k q = none ↔ k ∉ keys q := by
  induction q with
  | nil => simp [find, keys]
  | cons e q ih =>
    simp only [find, keys, List.find?_cons, List.map_cons, List.mem_cons, not_or] at *
    by_cases he : e.1 = k
    · simp [he]
    · have : (e.1 == k) = false := by simp [he]
      simp only [this]
      constructor
      · intro h; exact ⟨fun h' => he h'.symm, ih.mp h⟩
      · intro h; exact ih.mpr h.2

theorem find_some_mem {k : Key} {q : Q} {v : Val} (h : find k q = some v) : (k, v) ∈ q := by
  induction q with
  | nil => simp [find] at h
  | cons e q ih =>
    simp only [find, List.find?_cons] at h
    by_cases he : e.1 = k
    · have : (e.1 == k) = true := by simp [he]
      simp only [this, Option.map_some, Option.some.injEq] at h
      have : e = (k, v) := by cases e; simp_all
      simp [this]
    · have : (e.1 == k) = false := by simp [he]
      simp only [this] at h
      exact List.mem_cons_of_mem _ (ih h)

end ZV.C35

/-! ## second wave: history-level helpers -/
namespace ZV.C35

def opKey : Op → Key
  | .put k _ => k
  | .get k => k

/-- 1-based position of the last operation of the history that names key `k` (0 = never named). -/
def lastUse (k : Key) : List Op → Nat
  | [] => 0
  | op :: ops => if lastUse k ops ≠ 0 then lastUse k ops + 1 else if opKey op = k then 1 else 0

/-- the session of the most recent `Put` on `k` in the history (`none` = no `Put` on `k`). -/
def lastPut (k : Key) : List Op → Option Val
  | [] => none
  | op :: ops =>
    match lastPut k ops with
    | some v => some v
    | none =>
      match op with
      | .put k' v => if k' = k then some v else none
      | .get _ => none

theorem lastUse_snoc (k : Key) (ops : List Op) (op : Op) :
    lastUse k (ops ++ [op]) = if opKey op = k then ops.length + 1 else lastUse k ops := by
  induction ops with
  | nil => simp [lastUse]
  | cons a ops ih =>
    simp only [List.cons_append, lastUse, ih, List.length_cons]
    by_cases h : opKey op = k
    · simp [h]
    · simp [h]

theorem lastUse_le (k : Key) (ops : List Op) : lastUse k ops ≤ ops.length := by
  induction ops with
  | nil => simp [lastUse]
  | cons a ops ih =>
    simp only [lastUse, List.length_cons]
    split
    · omega
    · split <;> omega

theorem run_snoc_state (c : Cache) (ops : List Op) (op : Op) :
    (run c (ops ++ [op])).1 = (step (run c ops).1 op).1 := by
  induction ops generalizing c with
  | nil => simp [run]
  | cons a ops ih => simp only [List.cons_append, run]; exact ih _

theorem keys_cons (e : Key × Val) (q : Q) : keys (e :: q) = e.1 :: keys q := rfl

theorem find_mem_keys {k : Key} {q : Q} {v : Val} (h : find k q = some v) : k ∈ keys q := by
  by_cases hn : k ∈ keys q
  · exact hn
  · rw [(find_none_iff k q).mpr hn] at h
    cases h

theorem hasKey_false_iff (k : Key) (q : Q) : hasKey k q = false ↔ k ∉ keys q := by
  rw [← hasKey_iff]; simp

theorem keys_dropLast (q : Q) : keys q.dropLast = (keys q).dropLast := by
  simp [keys, List.map_dropLast]

/-- shape of the key list after one step: the named key is either gone / absent, or at the front;
    everything else is a sublist (same relative order) of the old list. -/
theorem step_keys_shape (c : Cache) (op : Op) :
    ((keys (step c op).1.q).Sublist (keys c.q) ∧ opKey op ∉ keys (step c op).1.q) ∨
    ∃ l, keys (step c op).1.q = opKey op :: l ∧ l.Sublist (keys c.q) ∧ opKey op ∉ l := by
  have hsubE : ∀ k, (keys (erase k c.q)).Sublist (keys c.q) := by
    intro k; rw [keys_erase]; exact List.filter_sublist
  cases op with
  | put k v =>
    simp only [step, opKey, put]
    cases hk : hasKey k c.q with
    | true =>
      cases v with
      | none => exact Or.inl ⟨hsubE k, not_mem_keys_erase k c.q⟩
      | some x => exact Or.inr ⟨_, rfl, hsubE k, not_mem_keys_erase k c.q⟩
    | false =>
      have hmem := (hasKey_false_iff k c.q).mp hk
      cases v with
      | none => exact Or.inl ⟨List.Sublist.refl _, hmem⟩
      | some x =>
        simp only [Bool.false_eq_true, if_false]
        by_cases hlen : c.q.length < c.cap
        · simp only [hlen, if_true]
          exact Or.inr ⟨_, rfl, List.Sublist.refl _, hmem⟩
        · simp only [hlen, if_false]
          refine Or.inr ⟨keys c.q.dropLast, rfl, ?_, ?_⟩
          · rw [keys_dropLast]; exact List.dropLast_sublist _
          · rw [keys_dropLast]; exact fun h => hmem (List.dropLast_subset _ h)
  | get k =>
    simp only [step, opKey, get]
    cases hf : find k c.q with
    | none => exact Or.inl ⟨List.Sublist.refl _, (find_none_iff k c.q).mp hf⟩
    | some v => exact Or.inr ⟨_, rfl, hsubE k, not_mem_keys_erase k c.q⟩

theorem mem_not_dropLast_getLast {α} [DecidableEq α] {a : α} {l : List α} (h : a ∈ l) (hn : a ∉ l.dropLast) :
    l.getLast? = some a := by
  have hne : l ≠ [] := by intro h0; simp [h0] at h
  have hl := List.dropLast_concat_getLast hne
  rw [← hl, List.mem_append] at h
  rcases h with h | h
  · exact absurd h hn
  · simp only [List.mem_singleton] at h
    rw [List.getLast?_eq_some_getLast hne, h]

/-! find after one operation -/
theorem find_put_same {c : Cache} {k : Key} {v w : Val} (h : find k (put c k v).q = some w) : v = w := by
  unfold put at h
  cases hk : hasKey k c.q with
  | true =>
    simp only [hk, if_true] at h
    cases v with
    | none =>
      simp only at h
      rw [(find_none_iff k _).mpr (not_mem_keys_erase k c.q)] at h
      cases h
    | some x => simpa [find] using h
  | false =>
    have hmem := (hasKey_false_iff k c.q).mp hk
    simp only [hk, Bool.false_eq_true, if_false] at h
    cases v with
    | none =>
      simp only at h
      rw [(find_none_iff k _).mpr hmem] at h
      cases h
    | some x =>
      simp only at h
      split at h <;> simpa [find] using h

theorem find_get (c : Cache) (k k' : Key) : find k (get c k').1.q = find k c.q := by
  unfold get
  cases hf : find k' c.q with
  | none => rfl
  | some v =>
    simp only
    by_cases hkk : k = k'
    · have hf' := hf
      unfold find at hf'
      rw [hkk]
      simp only [find, List.find?_cons, beq_self_eq_true, Option.map_some]
      exact hf'.symm
    · have : (k' == k) = false := by simp; exact fun h => hkk h.symm
      simp only [find, List.find?_cons, this]
      exact find_erase_ne c.q hkk

end ZV.C35
