import ZV.Model.C15
import ZV.Proofs.Wire
/-! helper lemmas for C15: the association-list map, serial search, block loop -/
namespace ZV.C15
open ZV.Wire

/-! ### maps -/

theorem mget_mset_same {V} (m : List (Str × V)) (k : Str) (v : V) : mget (mset m k v) k = some v := by
  induction m with
  | nil => simp [mset, mget]
  | cons p rest ih =>
    obtain ⟨k', v'⟩ := p
    by_cases h : k' = k
    · simp [mset, mget, h]
    · simp [mset, mget, h, ih]

theorem mget_mset_other {V} (m : List (Str × V)) (k k2 : Str) (v : V) (h : k ≠ k2) :
    mget (mset m k v) k2 = mget m k2 := by
  induction m with
  | nil => simp [mset, mget, h]
  | cons p rest ih =>
    obtain ⟨k', v'⟩ := p
    by_cases h1 : k' = k
    · subst h1; simp [mset, mget, h]
    · by_cases h2 : k' = k2
      · subst h2; simp [mset, mget, h1]
      · simp [mset, mget, h1, h2, ih]

/-- `x` is listed under key `k` -/
def listed {V} (m : List (Str × List V)) (k : Str) (x : V) : Prop := ∃ l, mget m k = some l ∧ x ∈ l

theorem listed_madd {V} (m : List (Str × List V)) (k k2 : Str) (v x : V) :
    listed (madd m k v) k2 x ↔ listed m k2 x ∨ (k = k2 ∧ x = v) := by
  unfold listed madd
  by_cases hk : k = k2
  · subst hk
    cases hg : mget m k with
    | none =>
      simp only [mget_mset_same]
      constructor
      · rintro ⟨l, hl, hx⟩
        cases hl
        simp at hx
        exact Or.inr ⟨trivial, hx⟩
      · rintro (⟨l, hl, _⟩ | ⟨_, hx⟩)
        · cases hl
        · exact ⟨[v], rfl, by simp [hx]⟩
    | some l0 =>
      simp only [mget_mset_same]
      constructor
      · rintro ⟨l, hl, hx⟩
        cases hl
        simp only [List.mem_append, List.mem_singleton] at hx
        rcases hx with hx | hx
        · exact Or.inl ⟨l0, rfl, hx⟩
        · exact Or.inr ⟨trivial, hx⟩
      · rintro (⟨l, hl, hx⟩ | ⟨_, hx⟩)
        · cases hl; exact ⟨_, rfl, by simp [hx]⟩
        · exact ⟨_, rfl, by simp [hx]⟩
  · have hne : ¬ (k = k2 ∧ x = v) := fun h => hk h.1
    cases hg : mget m k with
    | none => simp only [mget_mset_other _ _ _ _ hk, hne, or_false]
    | some l0 => simp only [mget_mset_other _ _ _ _ hk, hne, or_false]

theorem not_listed_nil {V} (k : Str) (x : V) : ¬ listed ([] : List (Str × List V)) k x := by
  rintro ⟨l, hl, _⟩; simp [mget] at hl

theorem findSerial_isSome (l : List Int) (s : Int) : (findSerial l s).isSome = true ↔ s ∈ l := by
  induction l with
  | nil => simp [findSerial]
  | cons e rest ih =>
    by_cases h : e = s
    · simp [findSerial, h]
    · have h' : ¬ s = e := fun x => h x.symm
      simp [findSerial, h, h', ih]

theorem findSerial_eq (l : List Int) (s r : Int) (h : findSerial l s = some r) : r = s := by
  induction l with
  | nil => simp [findSerial] at h
  | cons e rest ih =>
    by_cases he : e = s
    · simp [findSerial, he] at h; exact h.symm
    · simp [findSerial, he] at h; exact ih h

/-! ### CRLSet blocks -/

theorem lawful_serial : Lawful serialFmt := by
  refine lawful_piso _ _ ?_ (lawful_varBytes (lawful_uintLE 1))
  intro b a h
  simp only [Option.some.injEq] at h
  subst h
  -- beVal (natBE b) = b
  have key : ∀ n, leVal (natLE n) = n := by
    intro n
    induction n using Nat.strongRecOn with
    | _ n ih =>
      rw [natLE]
      by_cases h0 : n = 0
      · simp [h0, leVal]
      · simp only [h0, dite_false, leVal]
        have hlt : n / 256 < n := Nat.div_lt_self (by omega) (by omega)
        rw [ih _ hlt]
        have : (UInt8.ofNat (n % 256)).toNat = n % 256 := by
          rw [UInt8.toNat_ofNat']; omega
        rw [this]
        omega
  simp [beVal, natBE, key]

theorem lawful_block : Lawful blockFmt :=
  lawful_pair (lawful_bytesN 32) (lawful_countList (lawful_uintLE 4) lawful_serial)

/-- a block consumes input -/
theorem block_progress (bs : Bytes) (b : Bytes × List Nat) (rest : Bytes) (h : blockFmt.par bs = .ok (b, rest)) :
    rest.length < bs.length := by
  simp only [blockFmt, pair, bytesN] at h
  by_cases hl : bs.length < 32
  · simp [hl] at h
  · simp only [hl, if_false] at h
    cases h2 : (countList (uintLE 4) serialFmt).par (bs.drop 32) with
    | ok r =>
      obtain ⟨y, r'⟩ := r
      rw [h2] at h
      cases h
      have := (lawful_countList (lawful_uintLE 4) lawful_serial).consumes _ _ _ h2
      simp only [List.length_drop] at this
      omega
    | err => rw [h2] at h; cases h
    | panic => rw [h2] at h; cases h

theorem block_ser_nonempty (b : Bytes × List Nat) (a : Bytes) (h : blockFmt.ser b = .ok a) : 0 < a.length := by
  simp only [blockFmt, pair, bytesN] at h
  by_cases hl : b.1.length = 32
  · simp only [hl, if_true] at h
    cases h2 : (countList (uintLE 4) serialFmt).ser b.2 with
    | ok y => rw [h2] at h; cases h; simp only [List.length_append, hl]; omega
    | err => rw [h2] at h; cases h
    | panic => rw [h2] at h; cases h
  · simp [hl] at h

/-- what the block loop computes from the accumulated map -/
def addBlocks (acc : List (Str × List Int)) (blocks : List (Bytes × List Nat)) : List (Str × List Int) :=
  blocks.foldl (fun a b => mset a (hexStr b.1) (b.2.map Int.ofNat)) acc

theorem parseBlocks_serAll (blocks : List (Bytes × List Nat)) (bs : Bytes) (acc : List (Str × List Int))
    (h : serAll blockFmt blocks = .ok bs) : parseBlocks bs acc = .ok (addBlocks acc blocks) := by
  induction blocks generalizing bs acc with
  | nil =>
    simp only [serAll] at h
    cases h
    rw [parseBlocks]
    simp [addBlocks]
  | cons b rest ih =>
    simp only [serAll] at h
    cases h1 : blockFmt.ser b with
    | ok a =>
      rw [h1] at h
      cases h2 : serAll blockFmt rest with
      | ok y =>
        rw [h2] at h
        cases h
        have hpos := block_ser_nonempty b a h1
        rw [parseBlocks]
        have hne : ¬ (a ++ y).length = 0 := by simp only [List.length_append]; omega
        simp only [hne, if_false]
        rw [lawful_block.rt b a y h1]
        have hlt : y.length < (a ++ y).length := by simp only [List.length_append]; omega
        simp only [hlt, if_true]
        rw [ih y _ h2]
        simp [addBlocks]
      | err => rw [h2] at h; cases h
      | panic => rw [h2] at h; cases h
    | err => rw [h1] at h; cases h
    | panic => rw [h1] at h; cases h

theorem parseBlocks_noPanic (bs : Bytes) (acc : List (Str × List Int)) : parseBlocks bs acc ≠ .panic := by
  induction hn : bs.length using Nat.strongRecOn generalizing bs acc with
  | _ n ih =>
    rw [parseBlocks]
    split
    · simp
    · cases hp : blockFmt.par bs with
      | ok r =>
        obtain ⟨⟨spki, serials⟩, rest⟩ := r
        have hlt := block_progress bs _ rest hp
        simp only [hlt, if_true]
        exact ih rest.length (by omega) rest _ rfl
      | err => simp
      | panic => exact absurd hp (lawful_block.parNoPanic bs)

theorem mset_absent {V} (m : List (Str × V)) (k : Str) (v : V) (h : k ∉ m.map (·.1)) : mset m k v = m ++ [(k, v)] := by
  induction m with
  | nil => simp [mset]
  | cons p rest ih =>
    obtain ⟨k', v'⟩ := p
    simp only [List.map_cons, List.mem_cons, not_or] at h
    have h1 : ¬ k' = k := fun x => h.1 x.symm
    simp [mset, h1, ih h.2]

/-- with pairwise distinct issuer keys nothing is overwritten: the map is the block list itself -/
theorem addBlocks_nodup (acc : List (Str × List Int)) (blocks : List (Bytes × List Nat))
    (h : (acc.map (·.1) ++ blocks.map (fun b => hexStr b.1)).Nodup) :
    addBlocks acc blocks = acc ++ blocks.map (fun b => (hexStr b.1, b.2.map Int.ofNat)) := by
  induction blocks generalizing acc with
  | nil => simp [addBlocks]
  | cons b rest ih =>
    simp only [addBlocks, List.foldl_cons]
    have hb : hexStr b.1 ∉ acc.map (·.1) := by
      intro hm
      rw [List.nodup_append] at h
      exact h.2.2 _ hm _ (by simp) rfl
    rw [mset_absent acc _ _ hb]
    have := ih (acc ++ [(hexStr b.1, b.2.map Int.ofNat)]) (by
      simp only [List.map_append, List.map_cons, List.map_nil, List.append_assoc, List.singleton_append]
      simpa using h)
    simp only [addBlocks] at this
    rw [this]
    simp

theorem mget_mem {V} (m : List (Str × V)) (k : Str) (v : V) (h : mget m k = some v) : (k, v) ∈ m := by
  induction m with
  | nil => simp [mget] at h
  | cons p rest ih =>
    obtain ⟨k', v'⟩ := p
    by_cases hk : k' = k
    · simp [mget, hk] at h; simp [hk, h]
    · simp [mget, hk] at h; exact List.mem_cons_of_mem _ (ih h)

theorem mget_of_mem_nodup {V} (m : List (Str × V)) (k : Str) (v : V) (hn : (m.map (·.1)).Nodup) (h : (k, v) ∈ m) :
    mget m k = some v := by
  induction m with
  | nil => cases h
  | cons p rest ih =>
    obtain ⟨k', v'⟩ := p
    simp only [List.map_cons, List.nodup_cons] at hn
    simp only [List.mem_cons, Prod.mk.injEq] at h
    rcases h with ⟨h1, h2⟩ | h
    · simp [mget, h1, h2]
    · have hk : ¬ k' = k := by
        intro hx
        apply hn.1
        rw [hx]
        exact List.mem_map.mpr ⟨(k, v), h, rfl⟩
      simp [mget, hk, ih hn.2 h]

/-! ### SST container -/

theorem readU32_leBytes (v : Nat) (hv : v < 256 ^ 4) (rest : Bytes) : readU32 (leBytes 4 v ++ rest) = (v, rest) := by
  have hl := leBytes_length 4 v
  unfold readU32
  have : ¬ ((leBytes 4 v ++ rest).length < 4) := by simp only [List.length_append]; omega
  simp only [this, if_false]
  rw [List.take_left' hl, List.drop_left' hl, leVal_leBytes, Nat.mod_eq_of_lt hv]

theorem sstLoop_end (acc : List Bytes) (tail : Bytes) : sstLoop (leBytes 4 0 ++ tail) acc = .ok acc := by
  have hl := leBytes_length 4 0
  rw [sstLoop]
  have : ¬ ((leBytes 4 0 ++ tail).length < 4) := by simp only [List.length_append]; omega
  simp only [this, dite_false]
  rw [List.take_left' hl, leVal_leBytes]
  simp

theorem sstLoop_cert (c rest : Bytes) (acc : List Bytes) (hc : c.length < 256 ^ 4) :
    sstLoop (leBytes 4 32 ++ (leBytes 4 1 ++ (leBytes 4 c.length ++ (c ++ rest)))) acc = sstLoop rest (acc ++ [c]) := by
  have hl := leBytes_length 4 32
  rw [sstLoop]
  have : ¬ ((leBytes 4 32 ++ (leBytes 4 1 ++ (leBytes 4 c.length ++ (c ++ rest)))).length < 4) := by
    simp only [List.length_append]; omega
  simp only [this, dite_false]
  rw [List.take_left' hl, List.drop_left' hl, leVal_leBytes]
  rw [readU32_leBytes 1 (by decide), readU32_leBytes c.length hc]
  have h32 : (32 : Nat) % 256 ^ 4 = 32 := by decide
  simp only [h32]
  have : ¬ (c.length > (c ++ rest).length) := by simp
  simp [this]
  intro hx
  omega

theorem sstLoop_encode (certs : List Bytes) (acc : List Bytes) (tail : Bytes) (h : ∀ c ∈ certs, c.length < 256 ^ 4) :
    sstLoop ((certs.map (fun c => leBytes 4 32 ++ leBytes 4 1 ++ leBytes 4 c.length ++ c)).flatten ++ (leBytes 4 0 ++ tail)) acc
      = .ok (acc ++ certs) := by
  induction certs generalizing acc with
  | nil => simp [sstLoop_end]
  | cons c rest ih =>
    simp only [List.map_cons, List.flatten_cons, List.append_assoc]
    rw [sstLoop_cert c _ acc (h c (by simp))]
    have := ih (acc ++ [c]) (fun x hx => h x (by simp [hx]))
    simp only [List.append_assoc] at this
    rw [this]
    simp

end ZV.C15
