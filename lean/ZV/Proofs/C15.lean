import ZV.Model.C15
import ZV.Proofs.Wire
/-! helper lemmas for C15: the association-list map, serial search, block loop -/
namespace ZV.C15
open ZV.Wire

/-! ### maps -/

theorem mget_mset_same {V} (m : List (Str × V)) (k : Str) (v : V) : mget (mset m k v) k = some v := by
  induction m with
  | nil => simp [mset, mget]
  | cons p rest ih =>
    obtain ⟨k', v'⟩ := p
    by_cases h : k' = k
    · simp [mset, mget, h]
    · simp [mset, mget, h, ih]

theorem mget_mset_other {V} (m : List (Str × V)) (k k2 : Str) (v : V) (h : k ≠ k2) :
    mget (mset m k v) k2 = mget m k2 := by
  induction m with
  | nil => simp [mset, mget, h]
  | cons p rest ih =>
    obtain ⟨k', v'⟩ := p
    by_cases h1 : k' = k
    · subst h1; simp [mset, mget, h]
    · by_cases h2 : k' = k2
      · subst h2; simp [mset, mget, h1]
      · simp [mset, mget, h1, h2, ih]

/-- `x` is listed under key `k` -/
def listed {V} (m : List (Str × List V)) (k : Str) (x : V) : Prop := ∃ l, mget m k = some l ∧ x ∈ l

theorem listed_madd {V} (m : List (Str × List V)) (k k2 : Str) (v x : V) :
    listed (madd m k v) k2 x ↔ listed m k2 x ∨ (k = k2 ∧ x = v) := by
  unfold listed madd
  by_cases hk : k = k2
  · subst hk
    cases hg : mget m k with
    | none =>
      simp only [mget_mset_same]
      constructor
      · rintro ⟨l, hl, hx⟩
        cases hl
        simp at hx
        exact Or.inr ⟨trivial, hx⟩
      · rintro (⟨l, hl, _⟩ | ⟨_, hx⟩)
        · cases hl
        · exact ⟨[v], rfl, by simp [hx]⟩
    | some l0 =>
      simp only [mget_mset_same]
      constructor
      · rintro ⟨l, hl, hx⟩
        cases hl
        simp only [List.mem_append, List.mem_singleton] at hx
        rcases hx with hx | hx
        · exact Or.inl ⟨l0, rfl, hx⟩
        · exact Or.inr ⟨trivial, hx⟩
      · rintro (⟨l, hl, hx⟩ | ⟨_, hx⟩)
        · cases hl; exact ⟨_, rfl, by simp [hx]⟩
        · exact ⟨_, rfl, by simp [hx]⟩
  · have hne : ¬ (k = k2 ∧ x = v) := fun h => hk h.1
    cases hg : mget m k with
    | none => simp only [mget_mset_other _ _ _ _ hk, hne, or_false]
    | some l0 => simp only [mget_mset_other _ _ _ _ hk, hne, or_false]

theorem not_listed_nil {V} (k : Str) (x : V) : ¬ listed ([] : List (Str × List V)) k x := by
  rintro ⟨l, hl, _⟩; simp [mget] at hl

theorem findSerial_isSome (l : List Int) (s : Int) : (findSerial l s).isSome = true ↔ s ∈ l := by
  induction l with
  | nil => simp [findSerial]
  | cons e rest ih =>
    by_cases h : e = s
    · simp [findSerial, h]
    · have h' : ¬ s = e := fun x => h x.symm
      simp [findSerial, h, h', ih]

theorem findSerial_eq (l : List Int) (s r : Int) (h : findSerial l s = some r) : r = s := by
  induction l with
  | nil => simp [findSerial] at h
  | cons e rest ih =>
    by_cases he : e = s
    · simp [findSerial, he] at h; exact h.symm
    · simp [findSerial, he] at h; exact ih h

/-! ### CRLSet blocks -/

theorem lawful_serial : Lawful serialFmt := by
  refine lawful_piso _ _ ?_ (lawful_varBytes (lawful_uintLE 1))
  intro b a h
  simp only [Option.some.injEq] at h
  subst h
  -- beVal (natBE b) = b
  have key : ∀ n, leVal (natLE n) = n := by
    intro n
    induction n using Nat.strongRecOn with
    | _ n ih =>
      rw [natLE]
      by_cases h0 : n = 0
      · simp [h0, leVal]
      · simp only [h0, dite_false, leVal]
        have hlt : n / 256 < n := Nat.div_lt_self (by omega) (by omega)
        rw [ih _ hlt]
        have : (UInt8.ofNat (n % 256)).toNat = n % 256 := by
          rw [UInt8.toNat_ofNat']; omega
        rw [this]
        omega
  simp [beVal, natBE, key]

theorem lawful_block : Lawful blockFmt :=
  lawful_pair (lawful_bytesN 32) (lawful_countList (lawful_uintLE 4) lawful_serial)

/-- a block consumes input -/
theorem block_progress (bs : Bytes) (b : Bytes × List Nat) (rest : Bytes) (h : blockFmt.par bs = .ok (b, rest)) :
    rest.length < bs.length := by
  simp only [blockFmt, pair, bytesN] at h
  by_cases hl : bs.length < 32
  · simp [hl] at h
  · simp only [hl, if_false] at h
    cases h2 : (countList (uintLE 4) serialFmt).par (bs.drop 32) with
    | ok r =>
      obtain ⟨y, r'⟩ := r
      rw [h2] at h
      cases h
      have := (lawful_countList (lawful_uintLE 4) lawful_serial).consumes _ _ _ h2
      simp only [List.length_drop] at this
      omega
    | err => rw [h2] at h; cases h
    | panic => rw [h2] at h; cases h

theorem block_ser_nonempty (b : Bytes × List Nat) (a : Bytes) (h : blockFmt.ser b = .ok a) : 0 < a.length := by
  simp only [blockFmt, pair, bytesN] at h
  by_cases hl : b.1.length = 32
  · simp only [hl, if_true] at h
    cases h2 : (countList (uintLE 4) serialFmt).ser b.2 with
    | ok y => rw [h2] at h; cases h; simp only [List.length_append, hl]; omega
    | err => rw [h2] at h; cases h
    | panic => rw [h2] at h; cases h
  · simp [hl] at h

/-- what the block loop computes from the accumulated map -/
def addBlocks (acc : List (Str × List Int)) (blocks : List (Bytes × List Nat)) : List (Str × List Int) :=
  blocks.foldl (fun a b => mset a (hexStr b.1) (b.2.map Int.ofNat)) acc

theorem parseBlocks_serAll (blocks : List (Bytes × List Nat)) (bs : Bytes) (acc : List (Str × List Int))
    (h : serAll blockFmt blocks = .ok bs) : parseBlocks bs acc = .ok (addBlocks acc blocks) := by
  induction blocks generalizing bs acc with
  | nil =>
    simp only [serAll] at h
    cases h
    rw [parseBlocks]
    simp [addBlocks]
  | cons b rest ih =>
    simp only [serAll] at h
    cases h1 : blockFmt.ser b with
    | ok a =>
      rw [h1] at h
      cases h2 : serAll blockFmt rest with
      | ok y =>
        rw [h2] at h
        cases h
        have hpos := block_ser_nonempty b a h1
        rw [parseBlocks]
        have hne : ¬ (a ++ y).length = 0 := by simp only [List.length_append]; omega
        simp only [hne, if_false]
        rw [lawful_block.rt b a y h1]
        have hlt : y.length < (a ++ y).length := by simp only [List.length_append]; omega
        simp only [hlt, if_true]
        rw [ih y _ h2]
        simp [addBlocks]
      | err => rw [h2] at h; cases h
      | panic => rw [h2] at h; cases h
    | err => rw [h1] at h; cases h
    | panic => rw [h1] at h; cases h

theorem parseBlocks_noPanic (bs : Bytes) (acc : List (Str × List Int)) : parseBlocks bs acc ≠ .panic := by
  induction hn : bs.length using Nat.strongRecOn generalizing bs acc with
  | _ n ih =>
    rw [parseBlocks]
    split
    · simp
    · cases hp : blockFmt.par bs with
      | ok r =>
        obtain ⟨⟨spki, serials⟩, rest⟩ := r
        have hlt := block_progress bs _ rest hp
        simp only [hlt, if_true]
        exact ih rest.length (by omega) rest _ rfl
      | err => simp
      | panic => exact absurd hp (lawful_block.parNoPanic bs)

theorem mset_absent {V} (m : List (Str × V)) (k : Str) (v : V) (h : k ∉ m.map (·.1)) : mset m k v = m ++ [(k, v)] := by
  induction m with
  | nil => simp [mset]
  | cons p rest ih =>
    obtain ⟨k', v'⟩ := p
    simp only [List.map_cons, List.mem_cons, not_or] at h
    have h1 : ¬ k' = k := fun x => h.1 x.symm
    simp [mset, h1, ih h.2]

/-- with pairwise distinct issuer keys nothing is overwritten: the map is the block list itself -/
theorem addBlocks_nodup (acc : List (Str × List Int)) (blocks : List (Bytes × List Nat))
    (h : (acc.map (·.1) ++ blocks.map (fun b => hexStr b.1)).Nodup) :
    addBlocks acc blocks = acc ++ blocks.map (fun b => (hexStr b.1, b.2.map Int.ofNat)) := by
  induction blocks generalizing acc with
  | nil => simp [addBlocks]
  | cons b rest ih =>
    simp only [addBlocks, List.foldl_cons]
    have hb : hexStr b.1 ∉ acc.map (·.1) := by
      intro hm
      rw [List.nodup_append] at h
      exact h.2.2 _ hm _ (by simp) rfl
    rw [mset_absent acc _ _ hb]
    have := ih (acc ++ [(hexStr b.1, b.2.map Int.ofNat)]) (by
      simp only [List.map_append, List.map_cons, List.map_nil, List.append_assoc, List.singleton_append]
      simpa using h)
    simp only [addBlocks] at this
    rw [this]
    simp

theorem mget_mem {V} (m : List (Str × V)) (k : Str) (v : V) (h : mget m k = some v) : (k, v) ∈ m := by
  induction m with
  | nil => simp [mget] at h
  | cons p rest ih =>
    obtain ⟨k', v'⟩ := p
    by_cases hk : k' = k
    · simp [mget, hk] at h; simp [hk, h]
    · simp [mget, hk] at h; exact List.mem_cons_of_mem _ (ih h)

theorem mget_of_mem_nodup {V} (m : List (Str × V)) (k : Str) (v : V) (hn : (m.map (·.1)).Nodup) (h : (k, v) ∈ m) :
    mget m k = some v := by
  induction m with
  | nil => cases h
  | cons p rest ih =>
    obtain ⟨k', v'⟩ := p
    simp only [List.map_cons, List.nodup_cons] at hn
    simp only [List.mem_cons, Prod.mk.injEq] at h
    rcases h with ⟨h1, h2⟩ | h
    · simp [mget, h1, h2]
    · have hk : ¬ k' = k := by
        intro hx
        apply hn.1
        rw [hx]
        exact List.mem_map.mpr ⟨(k, v), h, rfl⟩
      simp [mget, hk, ih hn.2 h]

/-! ### SST container -/

theorem readU32_leBytes (v : Nat) (hv : v < 256 ^ 4) (rest : Bytes) : readU32 (leBytes 4 v ++ rest) = (v, rest) := by
  have hl := leBytes_length 4 v
  unfold readU32
  have : ¬ ((leBytes 4 v ++ rest).length < 4) := by simp only [List.length_append]; omega
  simp only [this, if_false]
  rw [List.take_left' hl, List.drop_left' hl, leVal_leBytes, Nat.mod_eq_of_lt hv]

theorem sstLoop_end (acc : List Bytes) (tail : Bytes) : sstLoop (leBytes 4 0 ++ tail) acc = .ok acc := by
  have hl := leBytes_length 4 0
  rw [sstLoop]
  have : ¬ ((leBytes 4 0 ++ tail).length < 4) := by simp only [List.length_append]; omega
  simp only [this, dite_false]
  rw [List.take_left' hl, leVal_leBytes]
  simp

theorem sstLoop_cert (c rest : Bytes) (acc : List Bytes) (hc : c.length < 256 ^ 4) :
    sstLoop (leBytes 4 32 ++ (leBytes 4 1 ++ (leBytes 4 c.length ++ (c ++ rest)))) acc = sstLoop rest (acc ++ [c]) := by
  have hl := leBytes_length 4 32
  rw [sstLoop]
  have : ¬ ((leBytes 4 32 ++ (leBytes 4 1 ++ (leBytes 4 c.length ++ (c ++ rest)))).length < 4) := by
    simp only [List.length_append]; omega
  simp only [this, dite_false]
  rw [List.take_left' hl, List.drop_left' hl, leVal_leBytes]
  rw [readU32_leBytes 1 (by decide), readU32_leBytes c.length hc]
  have h32 : (32 : Nat) % 256 ^ 4 = 32 := by decide
  simp only [h32]
  have : ¬ (c.length > (c ++ rest).length) := by simp
  simp [this]
  intro hx
  omega

theorem sstLoop_encode (certs : List Bytes) (acc : List Bytes) (tail : Bytes) (h : ∀ c ∈ certs, c.length < 256 ^ 4) :
    sstLoop ((certs.map (fun c => leBytes 4 32 ++ leBytes 4 1 ++ leBytes 4 c.length ++ c)).flatten ++ (leBytes 4 0 ++ tail)) acc
      = .ok (acc ++ certs) := by
  induction certs generalizing acc with
  | nil => simp [sstLoop_end]
  | cons c rest ih =>
    simp only [List.map_cons, List.flatten_cons, List.append_assoc]
    rw [sstLoop_cert c _ acc (h c (by simp))]
    have := ih (acc ++ [c]) (fun x hx => h x (by simp [hx]))
    simp only [List.append_assoc] at this
    rw [this]
    simp

/-! ### base64 -/

theorem b64Val_b64Char : ∀ v, v < 64 → b64Val (b64Char v) = some v := by decide

theorem ofNat_eq (n : Nat) (x : UInt8) (h : n % 256 = x.toNat) : UInt8.ofNat n = x := by
  apply UInt8.toNat_inj.mp
  rw [UInt8.toNat_ofNat']
  simpa using h

theorem q4 (a b c : UInt8) :
    qBytes [a.toNat / 4, a.toNat % 4 * 16 + b.toNat / 16, b.toNat % 16 * 4 + c.toNat / 64, c.toNat % 64] = [a, b, c] := by
  have ha := a.toNat_lt; have hb := b.toNat_lt; have hc := c.toNat_lt
  simp only [qBytes, qVal, List.length_cons, List.length_nil, List.take]
  have e : a.toNat / 4 * 262144 + (a.toNat % 4 * 16 + b.toNat / 16) * 4096 + (b.toNat % 16 * 4 + c.toNat / 64) * 64 + c.toNat % 64
      = a.toNat * 65536 + b.toNat * 256 + c.toNat := by omega
  rw [e]
  congr 1
  · apply ofNat_eq; omega
  · congr 1
    · apply ofNat_eq; omega
    · congr 1; apply ofNat_eq; omega

theorem q3 (a b : UInt8) :
    qBytes [a.toNat / 4, a.toNat % 4 * 16 + b.toNat / 16, b.toNat % 16 * 4] = [a, b] := by
  have ha := a.toNat_lt; have hb := b.toNat_lt
  simp only [qBytes, qVal, List.length_cons, List.length_nil, List.take]
  have e : a.toNat / 4 * 262144 + (a.toNat % 4 * 16 + b.toNat / 16) * 4096 + (b.toNat % 16 * 4) * 64
      = a.toNat * 65536 + b.toNat * 256 := by omega
  rw [e]
  congr 1
  · apply ofNat_eq; omega
  · congr 1; apply ofNat_eq; omega

theorem q2 (a : UInt8) : qBytes [a.toNat / 4, a.toNat % 4 * 16] = [a] := by
  have ha := a.toNat_lt
  simp only [qBytes, qVal, List.length_cons, List.length_nil, List.take]
  have e : a.toNat / 4 * 262144 + (a.toNat % 4 * 16) * 4096 = a.toNat * 65536 := by omega
  rw [e]
  congr 1; apply ofNat_eq; omega

theorem b64Val_pad : b64Val 61 = none := by decide


theorem go_val (c : UInt8) (rest : Str) (acc : List Nat) (out : Bytes) (v : Nat) (h : b64Val c = some v) (hl : acc.length ≠ 3) :
    b64Go (c :: rest) acc out = b64Go rest (acc ++ [v]) out := by
  rw [b64Go, h]; simp [hl]

theorem go_val3 (c : UInt8) (rest : Str) (acc : List Nat) (out : Bytes) (v : Nat) (h : b64Val c = some v) (hl : acc.length = 3) :
    b64Go (c :: rest) acc out = b64Go rest [] (out ++ qBytes (acc ++ [v])) := by
  rw [b64Go, h]; simp [hl]

theorem go_pad2 (acc : List Nat) (out : Bytes) (hl : acc.length = 2) :
    b64Go [61, 61] acc out = (out ++ qBytes acc, false) := by
  rw [b64Go, b64Val_pad]; simp [isNL, skipNL, hl]

theorem go_pad3 (acc : List Nat) (out : Bytes) (hl : acc.length = 3) :
    b64Go [61] acc out = (out ++ qBytes acc, false) := by
  rw [b64Go, b64Val_pad]; simp [isNL, skipNL, hl]

/-- decoding the standard encoding of `bs` returns `bs` and no error (for every byte string) -/
theorem b64Go_encode (bs : Bytes) (out : Bytes) : b64Go (b64Encode bs) [] out = (out ++ bs, false) := by
  induction bs using b64Encode.induct generalizing out with
  | case1 => simp [b64Encode, b64Go]
  | case2 a =>
    have ha := a.toNat_lt
    simp only [b64Encode]
    rw [go_val _ _ _ _ _ (b64Val_b64Char _ (by omega)) (by simp)]
    rw [go_val _ _ _ _ _ (b64Val_b64Char _ (by omega)) (by simp)]
    rw [go_pad2 _ _ (by simp)]
    simp [q2]
  | case3 a b =>
    have ha := a.toNat_lt; have hb := b.toNat_lt
    simp only [b64Encode]
    rw [go_val _ _ _ _ _ (b64Val_b64Char _ (by omega)) (by simp)]
    rw [go_val _ _ _ _ _ (b64Val_b64Char _ (by omega)) (by simp)]
    rw [go_val _ _ _ _ _ (b64Val_b64Char _ (by omega)) (by simp)]
    rw [go_pad3 _ _ (by simp)]
    simp [q3]
  | case4 a b c rest ih =>
    have ha := a.toNat_lt; have hb := b.toNat_lt; have hc := c.toNat_lt
    simp only [b64Encode]
    rw [go_val _ _ _ _ _ (b64Val_b64Char _ (by omega)) (by simp)]
    rw [go_val _ _ _ _ _ (b64Val_b64Char _ (by omega)) (by simp)]
    rw [go_val _ _ _ _ _ (b64Val_b64Char _ (by omega)) (by simp)]
    rw [go_val3 _ _ _ _ _ (b64Val_b64Char _ (by omega)) (by simp)]
    simp [q4, ih]

/-! ### hex keys are injective; SST stores with property elements -/

theorem hexDigitB_inj : ∀ a, a < 16 → ∀ b, b < 16 → hexDigitB a = hexDigitB b → a = b := by decide

theorem hexStr_inj (a b : Bytes) (h : hexStr a = hexStr b) : a = b := by
  induction a generalizing b with
  | nil => cases b with
    | nil => rfl
    | cons y ys => simp [hexStr] at h
  | cons x xs ih =>
    cases b with
    | nil => simp [hexStr] at h
    | cons y ys =>
      simp only [hexStr, List.cons.injEq] at h
      obtain ⟨h1, h2, h3⟩ := h
      have hx := x.toNat_lt; have hy := y.toNat_lt
      have e1 := hexDigitB_inj _ (by omega) _ (by omega) h1
      have e2 := hexDigitB_inj _ (by omega) _ (by omega) h2
      have : x = y := UInt8.toNat_inj.mp (by omega)
      rw [this, ih ys h3]

theorem sstLoop_prop (id format : Nat) (v rest : Bytes) (acc : List Bytes)
    (hid : id < 256 ^ 4) (h0 : id ≠ 0) (h32 : id ≠ 32) (hf : format < 256 ^ 4) (hv : v.length < 256 ^ 4) :
    sstLoop (leBytes 4 id ++ (leBytes 4 format ++ (leBytes 4 v.length ++ (v ++ rest)))) acc = sstLoop rest acc := by
  have hl := leBytes_length 4 id
  rw [sstLoop]
  have : ¬ ((leBytes 4 id ++ (leBytes 4 format ++ (leBytes 4 v.length ++ (v ++ rest)))).length < 4) := by
    simp only [List.length_append]; omega
  simp only [this, dite_false]
  rw [List.take_left' hl, List.drop_left' hl, leVal_leBytes]
  rw [readU32_leBytes format hf, readU32_leBytes v.length hv]
  rw [Nat.mod_eq_of_lt hid]
  simp [h0, h32]

/-- well-formed element: id, format and length fit their u32 fields, the id is not the end marker, and a
    certificate element (id 32) declares ASN.1 encoding (format 1) -/
def SstElemOk (e : SstElem) : Prop :=
  e.id < 256 ^ 4 ∧ e.id ≠ 0 ∧ e.format < 256 ^ 4 ∧ e.value.length < 256 ^ 4 ∧ (e.id = 32 → e.format = 1)

theorem sstLoop_elems (es : List SstElem) (acc : List Bytes) (tail : Bytes) (h : ∀ e ∈ es, SstElemOk e) :
    sstLoop ((es.map sstElemBytes).flatten ++ (leBytes 4 0 ++ tail)) acc = .ok (acc ++ sstCerts es) := by
  induction es generalizing acc with
  | nil => simp [sstLoop_end, sstCerts]
  | cons e rest ih =>
    obtain ⟨h1, h2, h3, h4, h5⟩ := h e (by simp)
    simp only [List.map_cons, List.flatten_cons, sstElemBytes, List.append_assoc]
    by_cases h32 : e.id = 32
    · rw [h32, h5 h32, sstLoop_cert e.value _ acc h4]
      have := ih (acc ++ [e.value]) (fun x hx => h x (by simp [hx]))
      rw [this]
      simp [sstCerts, h32]
    · rw [sstLoop_prop e.id e.format e.value _ acc h1 h2 h32 h3 h4]
      rw [ih acc (fun x hx => h x (by simp [hx]))]
      simp [sstCerts, h32]

theorem leVal_natLE (n : Nat) : leVal (natLE n) = n := by
  induction n using Nat.strongRecOn with
  | _ n ih =>
    rw [natLE]
    by_cases h0 : n = 0
    · simp [h0, leVal]
    · simp only [h0, dite_false, leVal]
      have hlt : n / 256 < n := Nat.div_lt_self (by omega) (by omega)
      rw [ih _ hlt]
      have : (UInt8.ofNat (n % 256)).toNat = n % 256 := by
        rw [UInt8.toNat_ofNat']; omega
      rw [this]
      omega

/-- `new(big.Int).SetBytes(n.Bytes()) = n` -/
theorem beVal_natBE (n : Nat) : beVal (natBE n) = n := by
  simp [beVal, natBE, leVal_natLE]

theorem b64Decode_encode (bs : Bytes) : b64Decode (b64Encode bs) = (bs, false) := by
  unfold b64Decode
  simpa using b64Go_encode bs []

theorem b64Encode_isEmpty (bs : Bytes) : (b64Encode bs).isEmpty = bs.isEmpty := by
  match bs with
  | [] => simp [b64Encode]
  | [_] => simp [b64Encode]
  | [_, _] => simp [b64Encode]
  | _ :: _ :: _ :: _ => simp [b64Encode]

/-! ### OneCRL field decoding -/

theorem cond_iff (r : Rec) : (!r.subject.isEmpty && !r.pubKeyHash.isEmpty) = true ↔ r.subject ≠ [] ∧ r.pubKeyHash ≠ [] := by
  simp

theorem decodePkixName_ok (name : Str) (ntbl : Bytes → Option Str) (s : Str) (raw : Bytes) :
    decodePkixName name ntbl = .ok (s, raw) ↔ b64Decode name = (raw, false) ∧ ntbl raw = some s := by
  unfold decodePkixName
  cases he : (b64Decode name).2
  · simp only [Bool.false_eq_true, if_false]
    cases ht : ntbl (b64Decode name).1 with
    | none =>
      constructor
      · intro h; cases h
      · rintro ⟨h1, h2⟩; rw [h1] at ht; rw [ht] at h2; cases h2
    | some x =>
      simp only [Res.ok.injEq, Prod.mk.injEq]
      constructor
      · rintro ⟨h1, h2⟩
        subst h1 h2
        exact ⟨by rw [← he], ht⟩
      · rintro ⟨h1, h2⟩
        rw [h1] at ht
        simp only at ht
        rw [ht] at h2
        cases h2
        exact ⟨rfl, by rw [h1]⟩
  · simp only [if_true]
    constructor
    · intro h; cases h
    · rintro ⟨h1, _⟩; rw [h1] at he; cases he

theorem decodePkixName_noPanic (name : Str) (ntbl : Bytes → Option Str) : decodePkixName name ntbl ≠ .panic := by
  unfold decodePkixName
  split
  · simp
  · split <;> simp


end ZV.C15
