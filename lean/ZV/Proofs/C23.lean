import ZV.Model.C23
import ZV.Proofs.C23Bytes
import Mathlib.FieldTheory.Finite.Basic
import Mathlib.Data.ZMod.Basic
import Mathlib.Data.Nat.ChineseRemainder
import Mathlib.Tactic.Ring
import Mathlib.Tactic.Linarith
import Mathlib.Tactic.NormNum.Prime
/-! helper lemmas for `ZV.Props.C23`: square-and-multiply, Fermat, Garner/CRT recombination. -/
namespace ZV.C23

/-! ### Fermat -/

/-- exponents may be reduced modulo `p - 1`, provided the reduced exponent is not zero
    (so that `0 ^ _` stays `0`). -/
theorem zmod_pow_mod (p : Nat) [Fact p.Prime] (x : ZMod p) (a : Nat) (h : a % (p - 1) ≠ 0) :
    x ^ (a % (p - 1)) = x ^ a := by
  by_cases hx : x = 0
  · subst hx
    have ha : a ≠ 0 := by intro h0; subst h0; simp at h
    rw [zero_pow h, zero_pow ha]
  · conv_rhs => rw [← Nat.div_add_mod a (p - 1)]
    rw [pow_add, pow_mul, ZMod.pow_card_sub_one_eq_one hx, one_pow, one_mul]

theorem exp_mod_ne_zero {e d m : Nat} (h : e * d % m = 1) : d % m ≠ 0 := by
  intro h0
  rw [Nat.mul_mod, h0, Nat.mul_zero, Nat.zero_mod] at h
  exact absurd h (by decide)

theorem pow_mod_prime {p : Nat} (hp : p.Prime) {e d : Nat} (hed : e * d % (p - 1) = 1) (c : Nat) :
    c ^ (d % (p - 1)) % p = c ^ d % p := by
  have := Fact.mk hp
  have := zmod_pow_mod p (c : ZMod p) d (exp_mod_ne_zero hed)
  have h2 : ((c ^ (d % (p - 1)) : ℕ) : ZMod p) = ((c ^ d : ℕ) : ZMod p) := by push_cast; exact this
  exact (ZMod.natCast_eq_natCast_iff' _ _ p).1 h2

theorem pow_ed_mod_prime {p : Nat} (hp : p.Prime) {e d : Nat} (hed : e * d % (p - 1) = 1) (m : Nat) :
    m ^ (e * d) % p = m % p := by
  have := Fact.mk hp
  have h1 : (e * d) % (p - 1) ≠ 0 := by rw [hed]; decide
  have := zmod_pow_mod p (m : ZMod p) (e * d) h1
  rw [hed, pow_one] at this
  have h2 : ((m ^ (e * d) : ℕ) : ZMod p) = ((m : ℕ) : ZMod p) := by push_cast; exact this.symm
  exact (ZMod.natCast_eq_natCast_iff' _ _ p).1 h2

/-! ### Garner recombination (the CRT branch of `decrypt`) -/

theorem garner (p q qinv m1 m2 M : Nat) (h1p : 1 < p) (hqinv : qinv * q % p = 1) (hm2 : m2 < q)
    (hMp : M % p = m1 % p) (hMq : M % q = m2) (hcop : Nat.Coprime p q) :
    (Int.emod ((if (m1 : Int) - (m2 : Int) < 0 then (m1 : Int) - (m2 : Int) + (p : Int)
        else (m1 : Int) - (m2 : Int)) * (qinv : Int)) (p : Int) * (q : Int) + (m2 : Int)).toNat
      = M % (p * q) := by
  have hp0 : (0 : Int) < (p : Int) := by exact_mod_cast (by omega : 0 < p)
  obtain ⟨h1, hh1def⟩ : ∃ h1 : Int, h1 = (if (m1 : Int) - (m2 : Int) < 0 then (m1 : Int) - (m2 : Int) + (p : Int)
        else (m1 : Int) - (m2 : Int)) := ⟨_, rfl⟩
  rw [← hh1def]
  obtain ⟨h, hhdef⟩ : ∃ h : Int, h = Int.emod (h1 * (qinv : Int)) (p : Int) := ⟨_, rfl⟩
  rw [← hhdef]
  have hh0 : 0 ≤ h := by rw [hhdef]; exact Int.emod_nonneg _ (ne_of_gt hp0)
  have hhp : h < p := by rw [hhdef]; exact Int.emod_lt_of_pos _ hp0
  have hq0 : (0 : Int) ≤ (q : Int) := Int.natCast_nonneg q
  have hm20 : (0 : Int) ≤ (m2 : Int) := Int.natCast_nonneg m2
  have hz : 0 ≤ h * (q : Int) + (m2 : Int) := by
    have := Int.mul_nonneg hh0 hq0; omega
  -- the result is below p*q
  have hzlt : h * (q : Int) + (m2 : Int) < (p : Int) * (q : Int) := by
    have h' : h + 1 ≤ (p : Int) := hhp
    have hm2' : (m2 : Int) < (q : Int) := by exact_mod_cast hm2
    calc h * (q : Int) + (m2 : Int) < h * (q : Int) + (q : Int) := by omega
      _ = (h + 1) * (q : Int) := by ring
      _ ≤ (p : Int) * (q : Int) := Int.mul_le_mul_of_nonneg_right h' hq0
  have hRlt : (h * (q : Int) + (m2 : Int)).toNat < p * q := by
    have : ((h * (q : Int) + (m2 : Int)).toNat : Int) < ((p * q : ℕ) : Int) := by
      rw [Int.toNat_of_nonneg hz]; push_cast; exact hzlt
    exact_mod_cast this
  -- residues
  have castR : ∀ n : ℕ, (((h * (q : Int) + (m2 : Int)).toNat : ℕ) : ZMod n)
      = ((h : ℤ) : ZMod n) * (q : ZMod n) + (m2 : ZMod n) := by
    intro n
    rw [← Int.cast_natCast (R := ZMod n), Int.toNat_of_nonneg hz]; push_cast; rfl
  have hq' : (h * (q : Int) + (m2 : Int)).toNat % q = M % q := by
    apply (ZMod.natCast_eq_natCast_iff' _ _ q).1
    rw [castR q, ZMod.natCast_self, mul_zero, zero_add, ← hMq, ZMod.natCast_mod]
  have hp' : (h * (q : Int) + (m2 : Int)).toNat % p = M % p := by
    apply (ZMod.natCast_eq_natCast_iff' _ _ p).1
    have hqi : (qinv : ZMod p) * (q : ZMod p) = 1 := by
      have := (ZMod.natCast_eq_natCast_iff' (qinv * q) 1 p).2 (by rw [hqinv, Nat.mod_eq_of_lt h1p])
      simpa using this
    have hh1 : ((h1 : ℤ) : ZMod p) = (m1 : ZMod p) - (m2 : ZMod p) := by
      rw [hh1def]; split_ifs <;> push_cast <;> simp
    have hh : ((h : ℤ) : ZMod p) = ((h1 : ℤ) : ZMod p) * (qinv : ZMod p) := by
      rw [hhdef, show Int.emod (h1 * (qinv : Int)) (p : Int) = (h1 * (qinv : Int)) % (p : Int) from rfl,
        ZMod.intCast_mod]; push_cast; rfl
    have hM : (M : ZMod p) = (m1 : ZMod p) := (ZMod.natCast_eq_natCast_iff' _ _ p).2 hMp
    rw [castR p, hh, hh1, hM]
    calc ((m1 : ZMod p) - (m2 : ZMod p)) * (qinv : ZMod p) * (q : ZMod p) + (m2 : ZMod p)
        = ((m1 : ZMod p) - (m2 : ZMod p)) * ((qinv : ZMod p) * (q : ZMod p)) + (m2 : ZMod p) := by ring
      _ = (m1 : ZMod p) := by rw [hqi]; ring
  have hmod : (h * (q : Int) + (m2 : Int)).toNat ≡ M [MOD p * q] :=
    (Nat.modEq_and_modEq_iff_modEq_mul hcop).1 ⟨hp', hq'⟩
  have hpq : 0 < p * q := Nat.mul_pos (by omega) (by omega)
  calc (h * (q : Int) + (m2 : Int)).toNat = (h * (q : Int) + (m2 : Int)).toNat % (p * q) :=
        (Nat.mod_eq_of_lt hRlt).symm
    _ = M % (p * q) := hmod

/-- what `PrivateKey.Validate` + `Precompute` establish for a two-prime key -/
structure KeyOk2 (p q e d dp dq qinv : Nat) : Prop where
  pp : p.Prime
  pq : q.Prime
  ne : p ≠ q
  edp : e * d % (p - 1) = 1
  edq : e * d % (q - 1) = 1
  hdp : dp = d % (p - 1)
  hdq : dq = d % (q - 1)
  hqinv : qinv * q % p = 1

theorem crt_eq_plain2 {p q e d dp dq qinv : Nat} (h : KeyOk2 p q e d dp dq qinv) (c : Nat) :
    decryptCRT p q dp dq qinv c = c ^ d % (p * q) := by
  unfold decryptCRT
  simp only [modPow_eq]
  apply garner p q qinv (c ^ dp % p) (c ^ dq % q) (c ^ d) h.pp.one_lt h.hqinv
    (Nat.mod_lt _ h.pq.pos)
  · rw [Nat.mod_mod, h.hdp, pow_mod_prime h.pp h.edp]
  · rw [h.hdq, pow_mod_prime h.pq h.edq]
  · exact (Nat.coprime_primes h.pp h.pq).2 h.ne

/-! ### multi-prime RSA round trip -/

theorem pow_ed_mod_prod (ps : List Nat) (e d : Nat) (hp : ∀ p ∈ ps, p.Prime) (hnd : ps.Nodup)
    (hed : ∀ p ∈ ps, e * d % (p - 1) = 1) (m : Nat) : m ^ (e * d) % ps.prod = m % ps.prod := by
  have co : ps.Pairwise Nat.Coprime := by
    refine List.Pairwise.imp_of_mem ?_ hnd
    intro a b ha hb hab
    exact (Nat.coprime_primes (hp a ha) (hp b hb)).2 hab
  refine (Nat.modEq_list_prod_iff co).2 ?_
  intro i
  have hmem : ps.get i ∈ ps := List.get_mem ps i
  exact pow_ed_mod_prime (hp _ hmem) (hed _ hmem) m

theorem rsa_roundtrip (ps : List Nat) (e d : Nat) (hp : ∀ p ∈ ps, p.Prime) (hnd : ps.Nodup)
    (hed : ∀ p ∈ ps, e * d % (p - 1) = 1) (m : Nat) (hm : m < ps.prod) :
    (m ^ e % ps.prod) ^ d % ps.prod = m := by
  rw [← Nat.pow_mod, ← pow_mul, pow_ed_mod_prod ps e d hp hnd hed m, Nat.mod_eq_of_lt hm]

theorem rsa_roundtrip' (ps : List Nat) (e d : Nat) (hp : ∀ p ∈ ps, p.Prime) (hnd : ps.Nodup)
    (hed : ∀ p ∈ ps, e * d % (p - 1) = 1) (m : Nat) (hm : m < ps.prod) :
    (m ^ d % ps.prod) ^ e % ps.prod = m := by
  rw [← Nat.pow_mod, ← pow_mul, Nat.mul_comm, pow_ed_mod_prod ps e d hp hnd hed m, Nat.mod_eq_of_lt hm]

theorem prime_11 : Nat.Prime 11 := by norm_num
theorem prime_13 : Nat.Prime 13 := by norm_num

end ZV.C23
