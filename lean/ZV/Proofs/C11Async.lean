/-!
  The asynchronous delivery of `WalkChains`: the walk runs in a goroutine that sends each chain
  on a buffered channel and closes it when done; the caller ranges over the channel.
  A tiny bounded-FIFO producer / consumer model: every scheduling of the two sides delivers
  exactly the produced sequence, in order, and then terminates (no deadlock, no loss, no
  duplication), for every capacity `cap ≥ 1`.

  (An unbuffered Go channel, `cap = 0`, is a rendezvous: send and receive happen as one step;
  it behaves like this model with `cap = 1` in which `send` is immediately followed by `recv`.)
-/
namespace ZV.C11.Async

structure St (α : Type) where
  remaining : List α      -- chains the producer has still to send, in order
  buffer : List α         -- the channel buffer (FIFO), `length ≤ cap`
  closed : Bool           -- `close(ch)` done
  received : List α       -- what the consumer got so far, in order
  deriving Repr, DecidableEq

inductive Step where
  | send    -- `ch <- chain`
  | close   -- `close(ch)` after the last send
  | recv    -- one iteration of `for chain := range ch`
  deriving Repr, DecidableEq

variable {α : Type}

def init (items : List α) : St α := { remaining := items, buffer := [], closed := false, received := [] }

def enabled (cap : Nat) (s : St α) : Step → Bool
  | .send => !s.remaining.isEmpty && decide (s.buffer.length < cap)
  | .close => s.remaining.isEmpty && !s.closed
  | .recv => !s.buffer.isEmpty

/-- a disabled step is a no-op (the goroutine stays blocked) -/
def step (cap : Nat) (s : St α) : Step → St α
  | .send =>
    match s.remaining with
    | [] => s
    | x :: r => if s.buffer.length < cap then { s with remaining := r, buffer := s.buffer ++ [x] } else s
  | .close =>
    match s.remaining with
    | [] => if s.closed then s else { s with closed := true }
    | _ :: _ => s
  | .recv =>
    match s.buffer with
    | [] => s
    | x :: b => { s with buffer := b, received := s.received ++ [x] }

def run (cap : Nat) : St α → List Step → St α
  | s, [] => s
  | s, t :: ts => run cap (step cap s t) ts

/-- everything in flight, in order -/
def stream (s : St α) : List α := s.received ++ s.buffer ++ s.remaining

/-- no step is enabled -/
def terminal (cap : Nat) (s : St α) : Prop := ∀ t, enabled cap s t = false

/-- termination measure -/
def measure (s : St α) : Nat :=
  2 * s.remaining.length + s.buffer.length + (if s.closed then 0 else 1)

/-- the state invariant: the buffer never exceeds the capacity, and nothing is left to send
    once the channel is closed (no send on a closed channel, which would panic in Go) -/
def Inv (cap : Nat) (s : St α) : Prop :=
  s.buffer.length ≤ cap ∧ (s.closed = true → s.remaining = [])

/-! ### single steps -/

theorem step_stream (cap : Nat) (s : St α) (t : Step) : stream (step cap s t) = stream s := by
  cases t with
  | send =>
    unfold step
    cases hr : s.remaining with
    | nil => simp only
    | cons x r =>
      simp only
      split
      · simp [stream, hr]
      · rfl
  | close =>
    unfold step
    cases hr : s.remaining with
    | nil =>
      simp only
      split
      · rfl
      · simp [stream, hr]
    | cons x r => simp only
  | recv =>
    unfold step
    cases hb : s.buffer with
    | nil => simp only
    | cons x b => simp [stream, hb]

theorem step_inv (cap : Nat) (s : St α) (t : Step) (h : Inv cap s) : Inv cap (step cap s t) := by
  obtain ⟨h1, h2⟩ := h
  cases t with
  | send =>
    unfold step
    cases hr : s.remaining with
    | nil => exact ⟨h1, h2⟩
    | cons x r =>
      simp only
      split
      · refine ⟨by simp only [List.length_append, List.length_singleton]; omega, ?_⟩
        intro hc
        have := h2 hc
        rw [hr] at this
        cases this
      · exact ⟨h1, h2⟩
  | close =>
    unfold step
    cases hr : s.remaining with
    | nil =>
      simp only
      split
      · exact ⟨h1, h2⟩
      · exact ⟨h1, fun _ => rfl⟩
    | cons x r => exact ⟨h1, h2⟩
  | recv =>
    unfold step
    cases hb : s.buffer with
    | nil => exact ⟨h1, h2⟩
    | cons x b =>
      rw [hb] at h1
      simp only [List.length_cons] at h1
      exact ⟨by simp only; omega, h2⟩

/-- a disabled step changes nothing -/
theorem step_disabled (cap : Nat) (s : St α) (t : Step) (h : enabled cap s t = false) :
    step cap s t = s := by
  cases t with
  | send =>
    unfold step
    unfold enabled at h
    cases hr : s.remaining with
    | nil => rfl
    | cons x r =>
      simp only [hr, List.isEmpty_cons, Bool.not_false, Bool.true_and, decide_eq_false_iff_not] at h
      simp only [h, if_false]
  | close =>
    unfold step
    unfold enabled at h
    cases hr : s.remaining with
    | nil =>
      simp only [hr, List.isEmpty_nil, Bool.true_and, Bool.not_eq_false'] at h
      simp only [h, if_true]
    | cons x r => rfl
  | recv =>
    unfold step
    unfold enabled at h
    cases hb : s.buffer with
    | nil => rfl
    | cons x b => simp [hb] at h

/-- every enabled step makes progress: the measure strictly decreases -/
theorem step_measure (cap : Nat) (s : St α) (t : Step) (h : enabled cap s t = true) :
    measure (step cap s t) < measure s := by
  cases t with
  | send =>
    unfold enabled at h
    unfold step
    cases hr : s.remaining with
    | nil => simp [hr] at h
    | cons x r =>
      simp only [hr, List.isEmpty_cons, Bool.not_false, Bool.true_and, decide_eq_true_eq] at h
      simp only [h, if_true]
      simp only [measure, hr, List.length_cons, List.length_append, List.length_nil]
      omega
  | close =>
    unfold enabled at h
    unfold step
    cases hr : s.remaining with
    | nil =>
      simp only [hr, List.isEmpty_nil, Bool.true_and, Bool.not_eq_true'] at h
      simp [measure, hr, h]
    | cons x r => simp [hr] at h
  | recv =>
    unfold enabled at h
    unfold step
    cases hb : s.buffer with
    | nil => simp [hb] at h
    | cons x b =>
      simp only [measure, hb, List.length_cons]
      omega

/-- in a state where nothing can move, everything has been delivered and the channel is closed -/
theorem terminal_delivered {cap : Nat} (hcap : 1 ≤ cap) {s : St α} (h : terminal cap s) :
    s.received = stream s ∧ s.buffer = [] ∧ s.remaining = [] ∧ s.closed = true := by
  have hrecv := h .recv
  have hsend := h .send
  have hclose := h .close
  unfold enabled at hrecv hsend hclose
  have hb : s.buffer = [] := by
    cases hb : s.buffer with
    | nil => rfl
    | cons x b => simp [hb] at hrecv
  have hr : s.remaining = [] := by
    cases hr : s.remaining with
    | nil => rfl
    | cons x r =>
      simp only [hr, hb, List.isEmpty_cons, Bool.not_false, Bool.true_and, List.length_nil,
        decide_eq_false_iff_not] at hsend
      omega
  have hc : s.closed = true := by
    simpa [hr] using hclose
  exact ⟨by simp [stream, hb, hr], hb, hr, hc⟩

/-- no deadlock: as long as something is undelivered or the channel is still open, some side
    can move -/
theorem deadlock_free {cap : Nat} (hcap : 1 ≤ cap) (s : St α)
    (h : s.received ≠ stream s ∨ s.closed = false) : ∃ t, enabled cap s t = true := by
  cases hb : s.buffer with
  | cons x b => exact ⟨.recv, by simp [enabled, hb]⟩
  | nil =>
    cases hr : s.remaining with
    | cons x r =>
      refine ⟨.send, ?_⟩
      simp only [enabled, hr, hb, List.isEmpty_cons, Bool.not_false, Bool.true_and, List.length_nil,
        decide_eq_true_eq]
      omega
    | nil =>
      cases hc : s.closed with
      | false => exact ⟨.close, by simp [enabled, hr, hc]⟩
      | true =>
        rcases h with h | h
        · exact absurd (by simp [stream, hb, hr]) h
        · rw [hc] at h; cases h

/-! ### runs -/

theorem run_stream (cap : Nat) : ∀ (sched : List Step) (s : St α),
    stream (run cap s sched) = stream s := by
  intro sched
  induction sched with
  | nil => intro s; rfl
  | cons t ts ih => intro s; rw [run, ih, step_stream]

theorem run_inv (cap : Nat) : ∀ (sched : List Step) (s : St α), Inv cap s → Inv cap (run cap s sched) := by
  intro sched
  induction sched with
  | nil => intro s h; exact h
  | cons t ts ih => intro s h; rw [run]; exact ih _ (step_inv cap s t h)

theorem init_inv (cap : Nat) (items : List α) : Inv cap (init items) :=
  ⟨Nat.zero_le _, fun h => by cases h⟩

/-- a schedule all of whose steps are enabled when taken -/
def AllEnabled (cap : Nat) : St α → List Step → Prop
  | _, [] => True
  | s, t :: ts => enabled cap s t = true ∧ AllEnabled cap (step cap s t) ts

/-- every run of enabled steps is finite: at most `measure s` steps -/
theorem allEnabled_length (cap : Nat) : ∀ (sched : List Step) (s : St α),
    AllEnabled cap s sched → sched.length + measure (run cap s sched) ≤ measure s := by
  intro sched
  induction sched with
  | nil => intro s _; simp [run]
  | cons t ts ih =>
    intro s h
    obtain ⟨h1, h2⟩ := h
    have := ih _ h2
    have hm := step_measure cap s t h1
    rw [run]
    simp only [List.length_cons]
    omega

/-- The delivery theorem.  For every capacity `cap ≥ 1`, every sequence `items` of produced
    chains and EVERY schedule (disabled steps are no-ops), in the state `s` reached:
    * nothing is lost, duplicated or reordered: `received ++ buffer ++ remaining = items`
      (in particular `received` is a prefix of `items`);
    * the buffer respects the capacity and nothing is sent after `close`;
    * if no step is enabled, the consumer has received exactly `items` and the channel is closed;
    * otherwise some step is enabled (no deadlock) and every enabled step strictly decreases
      `measure`, so every run that keeps taking enabled steps stops after at most
      `2 * items.length + 1` of them (`allEnabled_length`). -/
theorem async_delivers {cap : Nat} (hcap : 1 ≤ cap) (items : List α) (sched : List Step) :
    let s := run cap (init items) sched
    s.received ++ s.buffer ++ s.remaining = items ∧
    (∃ t, items = s.received ++ t) ∧
    s.buffer.length ≤ cap ∧ (s.closed = true → s.remaining = []) ∧
    (terminal cap s → s.received = items ∧ s.closed = true) ∧
    (¬ terminal cap s → ∃ t, enabled cap s t = true) ∧
    (∀ t, enabled cap s t = true → measure (step cap s t) < measure s) := by
  intro s
  have hst : stream s = items := by
    show stream (run cap (init items) sched) = items
    rw [run_stream]
    simp [stream, init]
  have hinv : Inv cap s := run_inv cap sched _ (init_inv cap items)
  refine ⟨hst, ⟨s.buffer ++ s.remaining, ?_⟩, hinv.1, hinv.2, ?_, ?_, fun t ht => step_measure cap s t ht⟩
  · rw [← hst]; simp [stream]
  · intro ht
    have := terminal_delivered hcap ht
    exact ⟨by rw [← hst]; exact this.1, this.2.2.2⟩
  · intro hnt
    apply deadlock_free hcap
    cases hc : s.closed with
    | false => exact Or.inr rfl
    | true =>
      left
      intro heq
      apply hnt
      -- received = stream, closed: nothing enabled
      have hlen : s.buffer.length + s.remaining.length = 0 := by
        have := congrArg List.length heq
        simp only [stream, List.length_append] at this
        omega
      have hb : s.buffer = [] := List.eq_nil_of_length_eq_zero (by omega)
      have hr : s.remaining = [] := List.eq_nil_of_length_eq_zero (by omega)
      intro t
      cases t <;> simp [enabled, hb, hr, hc]

/-- a fair complete run: from the initial state, any maximal run of enabled steps has at most
    `2 * items.length + 1` steps and ends with everything delivered -/
theorem async_terminates {cap : Nat} (hcap : 1 ≤ cap) (items : List α) (sched : List Step)
    (hen : AllEnabled cap (init items) sched) :
    sched.length ≤ 2 * items.length + 1 ∧
    (terminal cap (run cap (init items) sched) →
      (run cap (init items) sched).received = items ∧ (run cap (init items) sched).closed = true) := by
  constructor
  · have := allEnabled_length cap sched (init items) hen
    have hm : measure (init items) = 2 * items.length + 1 := by simp [measure, init]
    omega
  · exact (async_delivers hcap items sched).2.2.2.2.1

/-! ### the hypotheses are satisfiable -/

example : run 1 (init [10, 20]) [.send, .send, .recv, .close, .send, .recv, .close, .recv] =
    { remaining := [], buffer := [], closed := true, received := [10, 20] } := by decide
example : terminal 1 (run 1 (init [10, 20]) [.send, .recv, .send, .recv, .close]) := by
  intro t; cases t <;> decide
example : AllEnabled 2 (init [10, 20]) [.send, .send, .recv, .close, .recv] := by
  simp only [AllEnabled]; decide
example : enabled 1 (init [10, 20]) .send = true := by decide
example : enabled 1 (init [10, 20]) .recv = false := by decide
example : Inv 1 (init [10, 20]) := init_inv 1 _
example : (init [10]).received ≠ stream (init [10]) ∨ (init [10]).closed = false := Or.inr rfl

end ZV.C11.Async
