import ZV.Model.C28Sched
/-! helper lemmas for the logging-schedule theorems of C28: what one `step` can change, field by field -/
namespace ZV.C28

theorem run_cons (s : St) (m : Item) (r : List Item) : run s (m :: r) = run (step s m) r := rfl

theorem run_app (s : St) (a b : List Item) : run s (a ++ b) = run (run s a) b := by
  simp [run, List.foldl_append]

theorem snoc_len {α} (pre : List α) (m : α) (n : Nat) (h : n = pre.length) : (pre ++ [m])[n]? = some m := by
  subst h; simp

theorem snoc_old {α} (pre : List α) (m x : α) (i : Nat) (h : pre[i]? = some x) : (pre ++ [m])[i]? = some x := by
  have : i < pre.length := by
    rcases Nat.lt_or_ge i pre.length with h' | h'
    · exact h'
    · simp [List.getElem?_eq_none h'] at h
  simp [List.getElem?_append_left this, h]

/-- an invariant of `step` relative to the consumed prefix is an invariant of `run` -/
theorem run_inv (P : List Item → St → Prop) (hstep : ∀ pre s m, P pre s → P (pre ++ [m]) (step s m)) :
    ∀ (ins pre : List Item) (s : St), P pre s → P (pre ++ ins) (run s ins) := by
  intro ins
  induction ins with
  | nil => intro pre s h; simpa [run] using h
  | cons m r ih =>
    intro pre s h
    have := ih (pre ++ [m]) (step s m) (hstep pre s m h)
    simpa [run_cons, List.append_assoc] using this

/-- the certificate message (attributes, position) a phase still has to log -/
def Phase.certAt : Phase → Option (CertA × Nat)
  | .gotCert _ c i | .gotStatus _ c i => some (c, i)
  | _ => none

theorem step_n (s : St) (m : Item) : (step s m).n = s.n + 1 := by
  unfold step
  cases s.phase <;> cases m <;> simp [St.abort, St.goto, St.finish, onShd, onCreq, onKx, onCert13] <;>
    (repeat' split) <;> simp

theorem step_sh (s : St) (m : Item) :
    (step s m).log.serverHello = s.log.serverHello ∨
      (s.phase = .start ∧ (∃ a, m = .serverHello a) ∧ (step s m).log.serverHello = some s.n) := by
  unfold step
  cases s.phase <;> cases m <;> simp [St.abort, St.goto, St.finish, onShd, onCreq, onKx, onCert13] <;>
    (repeat' split) <;> simp

theorem step_skx (s : St) (m : Item) :
    (step s m).log.skx = s.log.skx ∨ (m = .serverKeyExchange true ∧ (step s m).log.skx = some s.n) := by
  unfold step
  cases s.phase <;> cases m <;> simp [St.abort, St.goto, St.finish, onShd, onCreq, onKx, onCert13] <;>
    (repeat' split) <;> simp_all

theorem step_sfin (s : St) (m : Item) :
    (step s m).log.serverFin = s.log.serverFin ∨ ((∃ ok, m = .finished ok) ∧ (step s m).log.serverFin = some s.n) := by
  unfold step
  cases s.phase <;> cases m <;> simp [St.abort, St.goto, St.finish, onShd, onCreq, onKx, onCert13] <;>
    (repeat' split) <;> simp

theorem step_sess (s : St) (m : Item) :
    (step s m).sess = s.sess ∨ (m = .newSessionTicket ∧ (step s m).sess = .msg s.n) := by
  unfold step
  cases s.phase <;> cases m <;> simp [St.abort, St.goto, St.finish, onShd, onCreq, onKx, onCert13] <;>
    (repeat' split) <;> simp

theorem step_ticket (s : St) (m : Item) :
    (step s m).log.ticket = s.log.ticket ∨ ((step s m).log.ticket = s.sess ∧ (step s m).sess = s.sess ∧ (step s m).log.done = true) := by
  unfold step
  cases s.phase <;> cases m <;> simp [St.abort, St.goto, St.finish, onShd, onCreq, onKx, onCert13] <;>
    (repeat' split) <;> simp

theorem step_km (s : St) (m : Item) :
    (step s m).log.keyMaterial = s.log.keyMaterial ∨
      ((step s m).log.keyMaterial = true ∧ (step s m).log.done = true ∧
        m = .finished true ∧ (step s m).log.serverFin = some s.n) := by
  unfold step
  cases s.phase <;> cases m <;> simp [St.abort, St.goto, St.finish, onShd, onCreq, onKx, onCert13] <;>
    (repeat' split) <;> simp_all

/-- once set, `done`, `clientFin` and a populated `serverFin` stay (the machine stops in `complete`) -/
theorem step_done (s : St) (m : Item) (h : s.log.done = true → s.phase = .complete) :
    ((step s m).log.done = true → (step s m).phase = .complete) ∧
    (s.log.done = true → (step s m).log = s.log ∧ (step s m).sess = s.sess) := by
  unfold step
  cases hp : s.phase <;> cases m <;> simp [St.abort, St.goto, St.finish, onShd, onCreq, onKx, onCert13] <;>
    (repeat' split) <;> simp_all

end ZV.C28
