import ZV.Model.C08
/-! helper definitions and lemmas for `ZV.Props.C08` -/
namespace ZV.C08

/-! ### the specification vocabulary: ordered sets keyed by fingerprint -/

def fps (l : List Cert) : List Nat := l.map (·.fp)

/-- insertion into the ordered set -/
def specAdd (l : List Cert) (c : Cert) : List Cert := if c.fp ∈ fps l then l else l ++ [c]

/-- distinct-by-fingerprint, FIRST occurrences, original order:
    keep the head, drop every later certificate with the same fingerprint. -/
def dedupFp : List Cert → List Cert
  | [] => []
  | c :: cs => c :: (dedupFp cs).filter (fun x => x.fp ≠ c.fp)

/-- positions (counted from `off`) of the certificates satisfying `p`, ascending. -/
def idxs (p : Cert → Bool) : List Cert → Nat → List Nat
  | [], _ => []
  | c :: cs, off => if p c then off :: idxs p cs (off + 1) else idxs p cs (off + 1)

/-- representation invariant of `CertPool`: the three index maps are exactly the
    indices computed from `certs`, and no fingerprint occurs twice. -/
structure Inv (s : Pool) : Prop where
  nodup : (fps s.certs).Nodup
  sha : ∀ k, s.bySHA256 k = s.certs.findIdx? (fun c => c.fp = k)
  name : ∀ k, s.byName k = idxs (fun c => c.subject = k) s.certs 0
  skid : ∀ k, s.bySubjectKeyId k = if k = 0 then [] else idxs (fun c => c.skid = k) s.certs 0

/-! ### lists -/

theorem idxs_append (p : Cert → Bool) (l : List Cert) (c : Cert) (off : Nat) :
    idxs p (l ++ [c]) off = idxs p l off ++ (if p c then [off + l.length] else []) := by
  induction l generalizing off with
  | nil => simp [idxs]
  | cons a l ih =>
    simp only [List.cons_append, idxs, ih, List.length_cons]
    have : off + 1 + l.length = off + (l.length + 1) := by omega
    split <;> simp [this]

theorem mem_idxs (p : Cert → Bool) (l : List Cert) (off i : Nat) :
    i ∈ idxs p l off ↔ ∃ j x, i = off + j ∧ l[j]? = some x ∧ p x = true := by
  induction l generalizing off with
  | nil => simp [idxs]
  | cons a l ih =>
    unfold idxs
    constructor
    · intro h
      split at h
      · rename_i hp
        rcases List.mem_cons.mp h with rfl | h
        · exact ⟨0, a, by simp, by simp, hp⟩
        · obtain ⟨j, x, e, g, q⟩ := (ih (off + 1)).mp h
          exact ⟨j + 1, x, by omega, by simpa using g, q⟩
      · obtain ⟨j, x, e, g, q⟩ := (ih (off + 1)).mp h
        exact ⟨j + 1, x, by omega, by simpa using g, q⟩
    · rintro ⟨j, x, e, g, q⟩
      cases j with
      | zero =>
        simp only [List.getElem?_cons_zero, Option.some.injEq] at g
        subst g
        simp [q, e]
      | succ j =>
        have : i ∈ idxs p l (off + 1) := (ih (off + 1)).mpr ⟨j, x, by omega, by simpa using g, q⟩
        split
        · exact List.mem_cons_of_mem _ this
        · exact this

theorem findIdx?_some_mem (l : List Cert) (k n : Nat)
    (h : l.findIdx? (fun c => decide (c.fp = k)) = some n) : k ∈ fps l := by
  have := List.findIdx?_eq_some_iff_getElem.mp h
  obtain ⟨hn, hp, _⟩ := this
  simp only [decide_eq_true_eq] at hp
  exact List.mem_map.mpr ⟨l[n], List.getElem_mem _, hp⟩

theorem findIdx?_none_not_mem (l : List Cert) (k : Nat)
    (h : l.findIdx? (fun c => decide (c.fp = k)) = none) : k ∉ fps l := by
  rw [List.findIdx?_eq_none_iff] at h
  intro hm
  obtain ⟨c, hc, e⟩ := List.mem_map.mp hm
  have := h c hc
  simp [e] at this

theorem findIdx?_append_single (l : List Cert) (c : Cert) (k : Nat)
    (hk : k ∉ fps l) :
    (l ++ [c]).findIdx? (fun x => decide (x.fp = k)) = if c.fp = k then some l.length else none := by
  have hnone : l.findIdx? (fun x => decide (x.fp = k)) = none := by
    rw [List.findIdx?_eq_none_iff]
    intro x hx
    simp only [decide_eq_false_iff_not]
    intro e
    exact hk (List.mem_map.mpr ⟨x, hx, e⟩)
  rw [List.findIdx?_append, hnone]
  by_cases e : c.fp = k <;> simp [List.findIdx?_cons, e]

theorem findIdx?_append_single_of_ne (l : List Cert) (c : Cert) (k : Nat) (hne : c.fp ≠ k) :
    (l ++ [c]).findIdx? (fun x => decide (x.fp = k)) = l.findIdx? (fun x => decide (x.fp = k)) := by
  rw [List.findIdx?_append]
  cases h : l.findIdx? (fun x => decide (x.fp = k)) with
  | some n => simp
  | none => simp [List.findIdx?_cons, hne]

/-! ### AddCert -/

theorem inv_new : Inv newPool := by
  constructor <;> simp [newPool, fps, idxs]

theorem addCert_spec (s : Pool) (c : Cert) (h : Inv s) :
    (addCert s c).certs = specAdd s.certs c ∧ Inv (addCert s c) := by
  unfold addCert specAdd
  cases hs : s.bySHA256 c.fp with
  | some n =>
    have hm : c.fp ∈ fps s.certs := findIdx?_some_mem _ _ n (by rw [← h.sha]; exact hs)
    simp only [hm, if_true]
    exact ⟨trivial, h⟩
  | none =>
    have hm : c.fp ∉ fps s.certs := findIdx?_none_not_mem _ _ (by rw [← h.sha]; exact hs)
    simp only [hm, if_false]
    refine ⟨trivial, ?_⟩
    constructor
    · simp only [fps, List.map_append, List.map_cons, List.map_nil]
      have hn := h.nodup
      simp only [fps] at hn hm
      rw [List.nodup_append]
      refine ⟨hn, by simp, ?_⟩
      intro a ha b hb
      simp only [List.mem_cons, List.not_mem_nil, or_false] at hb
      subst hb
      intro e; subst e; exact hm ha
    · intro k
      simp only [setKey]
      by_cases e : k = c.fp
      · subst e
        rw [findIdx?_append_single _ _ _ hm]; simp
      · have e' : c.fp ≠ k := fun x => e x.symm
        rw [findIdx?_append_single_of_ne _ _ _ e']
        simp only [e, if_false]
        exact h.sha k
    · intro k
      simp only [setKey]
      rw [idxs_append]
      by_cases e : k = c.subject
      · subst e; simp [h.name]
      · have e' : c.subject ≠ k := fun x => e x.symm
        simp [e, e', h.name]
    · intro k
      rw [idxs_append]
      by_cases e0 : c.skid = 0
      · simp only [e0, ne_eq, not_true_eq_false, if_false]
        rw [h.skid k]
        by_cases k0 : k = 0
        · simp [k0]
        · have : ¬ (0 = k) := fun x => k0 x.symm
          simp [k0, this]
      · simp only [ne_eq, e0, not_false_eq_true, if_true, setKey]
        by_cases e : k = c.skid
        · subst e; simp [h.skid, e0]
        · have e' : c.skid ≠ k := fun x => e x.symm
          simp only [e, if_false, h.skid k]
          by_cases k0 : k = 0
          · simp [k0]
          · simp [k0, e']

theorem foldl_addCert_spec (l : List Cert) (s : Pool) (h : Inv s) :
    (l.foldl addCert s).certs = l.foldl specAdd s.certs ∧ Inv (l.foldl addCert s) := by
  induction l generalizing s with
  | nil => exact ⟨rfl, h⟩
  | cons c l ih =>
    simp only [List.foldl_cons]
    have := addCert_spec s c h
    rw [← this.1]
    exact ih _ this.2

/-! ### dedupFp -/

theorem fps_filter_subset (l : List Cert) (q : Cert → Bool) : ∀ k ∈ fps (l.filter q), k ∈ fps l := by
  intro k hk
  obtain ⟨c, hc, e⟩ := List.mem_map.mp hk
  exact List.mem_map.mpr ⟨c, (List.mem_filter.mp hc).1, e⟩

theorem filter_filter_comm (l : List Cert) (p q : Cert → Bool) :
    (l.filter p).filter q = (l.filter q).filter p := by
  simp only [List.filter_filter]
  congr 1; funext x; exact Bool.and_comm _ _

/-- folding the insertion over `l` appends the first occurrences of the new fingerprints. -/
theorem foldl_specAdd (l acc : List Cert) :
    l.foldl specAdd acc = acc ++ (dedupFp l).filter (fun c => decide (c.fp ∉ fps acc)) := by
  induction l generalizing acc with
  | nil => simp [dedupFp]
  | cons c cs ih =>
    simp only [List.foldl_cons, dedupFp]
    by_cases hm : c.fp ∈ fps acc
    · have : specAdd acc c = acc := by simp [specAdd, hm]
      rw [this, ih acc]
      congr 1
      rw [List.filter_cons]
      simp only [hm, not_true_eq_false, decide_false, Bool.false_eq_true, if_false]
      rw [List.filter_filter]
      apply List.filter_congr
      intro x _
      by_cases hx : x.fp ∈ fps acc
      · simp [hx]
      · have : x.fp ≠ c.fp := fun e => hx (e ▸ hm)
        simp [hx, this]
    · have : specAdd acc c = acc ++ [c] := by simp [specAdd, hm]
      rw [this, ih (acc ++ [c])]
      rw [List.filter_cons]
      simp only [hm, not_false_eq_true, decide_true, if_true]
      rw [List.append_assoc]
      congr 1
      simp only [List.singleton_append]
      congr 1
      rw [List.filter_filter]
      apply List.filter_congr
      intro x _
      simp only [fps, List.map_append, List.map_cons, List.map_nil, List.mem_append, List.mem_cons,
        List.not_mem_nil, or_false, not_or]
      by_cases hx : x.fp ∈ List.map (fun x => x.fp) acc <;> by_cases he : x.fp = c.fp <;> simp [hx, he]

theorem foldl_specAdd_nil (l : List Cert) : l.foldl specAdd [] = dedupFp l := by
  rw [foldl_specAdd]; simp [fps]

theorem dedupFp_append (l m : List Cert) : dedupFp (l ++ m) = m.foldl specAdd (dedupFp l) := by
  rw [← foldl_specAdd_nil, List.foldl_append, foldl_specAdd_nil]

theorem dedupFp_mem_fps (l : List Cert) (k : Nat) : k ∈ fps (dedupFp l) ↔ k ∈ fps l := by
  induction l with
  | nil => simp [dedupFp]
  | cons c cs ih =>
    simp only [dedupFp, fps, List.map_cons, List.mem_cons]
    constructor
    · rintro (e | h)
      · exact Or.inl e
      · exact Or.inr (ih.mp (fps_filter_subset _ _ k h))
    · rintro (e | h)
      · exact Or.inl e
      · by_cases e : k = c.fp
        · exact Or.inl e
        · right
          obtain ⟨x, hx, ex⟩ := List.mem_map.mp (ih.mpr h)
          exact List.mem_map.mpr ⟨x, List.mem_filter.mpr ⟨hx, by simp [ex, e]⟩, ex⟩

theorem nodup_filter_fps (l : List Cert) (q : Cert → Bool) (h : (fps l).Nodup) : (fps (l.filter q)).Nodup := by
  induction l with
  | nil => simp [fps]
  | cons c cs ih =>
    simp only [fps, List.map_cons, List.nodup_cons] at h
    rw [List.filter_cons]
    split
    · simp only [fps, List.map_cons, List.nodup_cons]
      exact ⟨fun hm => h.1 (fps_filter_subset cs q _ hm), ih h.2⟩
    · exact ih h.2

theorem dedupFp_nodup (l : List Cert) : (fps (dedupFp l)).Nodup := by
  induction l with
  | nil => simp [dedupFp, fps]
  | cons c cs ih =>
    simp only [dedupFp, fps, List.map_cons, List.nodup_cons]
    refine ⟨?_, nodup_filter_fps _ _ ih⟩
    intro hm
    obtain ⟨x, hx, ex⟩ := List.mem_map.mp hm
    have := (List.mem_filter.mp hx).2
    simp [ex] at this

theorem dedupFp_of_nodup (l : List Cert) (h : (fps l).Nodup) : dedupFp l = l := by
  induction l with
  | nil => rfl
  | cons c cs ih =>
    simp only [fps, List.map_cons, List.nodup_cons] at h
    simp only [dedupFp, ih h.2]
    congr 1
    rw [List.filter_eq_self]
    intro x hx
    simp only [ne_eq, decide_not, Bool.not_eq_eq_eq_not, Bool.not_true, decide_eq_false_iff_not]
    intro e
    exact h.1 (List.mem_map.mpr ⟨x, hx, e⟩)

theorem dedupFp_sublist (l : List Cert) : (dedupFp l).Sublist l := by
  induction l with
  | nil => exact List.Sublist.slnil
  | cons c cs ih =>
    simp only [dedupFp]
    exact List.Sublist.cons_cons c ((List.filter_sublist).trans ih)

theorem foldl_specAdd_dedup (acc m : List Cert) : (dedupFp m).foldl specAdd acc = m.foldl specAdd acc := by
  rw [foldl_specAdd, foldl_specAdd, dedupFp_of_nodup _ (dedupFp_nodup m)]

/-! ### AppendCertsFromPEM, Sum -/

/-- what one block contributes: the parsed certificate of a block that passes both `continue` tests -/
def Block.accepted (b : Block) : Option Cert := if b.skipped then none else b.parsed

/-- the certificates `AppendCertsFromPEM` hands to `AddCert`, in order -/
def pemCerts (bs : List Block) : List Cert := bs.filterMap Block.accepted

/-- `AppendCertsFromPEM` IS the sequence of `AddCert` calls on the accepted blocks, and its result is
    "at least one block was accepted" -- for EVERY pool (no invariant needed) and EVERY block list. -/
theorem appendPEM_eq_addCerts (bs : List Block) (s : Pool) :
    appendCertsFromPEM s bs = ((pemCerts bs).foldl addCert s, !(pemCerts bs).isEmpty) := by
  induction bs generalizing s with
  | nil => rfl
  | cons b bs ih =>
    unfold appendCertsFromPEM
    by_cases hs : b.skipped = true
    · have : pemCerts (b :: bs) = pemCerts bs := by simp [pemCerts, Block.accepted, hs]
      simp only [hs, if_true, this]; exact ih s
    · cases hp : b.parsed with
      | none =>
        have : pemCerts (b :: bs) = pemCerts bs := by simp [pemCerts, Block.accepted, hs, hp]
        simp only [hs, this]; exact ih s
      | some c =>
        have : pemCerts (b :: bs) = c :: pemCerts bs := by simp [pemCerts, Block.accepted, hs, hp]
        simp only [hs, this, ih (addCert s c), List.foldl_cons, List.isEmpty_cons, Bool.not_false]
        trivial

theorem any_accepted (bs : List Block) :
    bs.any (fun b => !b.skipped && b.parsed.isSome) = !(pemCerts bs).isEmpty := by
  induction bs with
  | nil => rfl
  | cons b bs ih =>
    simp only [List.any_cons, ih, pemCerts, List.filterMap_cons, Block.accepted]
    by_cases hs : b.skipped = true
    · simp [hs]
    · cases b.parsed <;> simp [hs]

theorem appendPEM_spec (bs : List Block) (s : Pool) (h : Inv s) :
    (appendCertsFromPEM s bs).1.certs = (pemCerts bs).foldl specAdd s.certs ∧
    Inv (appendCertsFromPEM s bs).1 ∧
    (appendCertsFromPEM s bs).2 = !(pemCerts bs).isEmpty := by
  rw [appendPEM_eq_addCerts]
  have := foldl_addCert_spec (pemCerts bs) s h
  exact ⟨this.1, this.2, rfl⟩

def optCerts : Option Pool → List Cert
  | none => []
  | some p => p.certs

theorem sum_spec (a b : Option Pool) :
    (sum a b).certs = dedupFp (optCerts a ++ optCerts b) ∧ Inv (sum a b) := by
  have h1 : ∀ x : Pool, (x.certs.foldl addCert newPool).certs = dedupFp x.certs ∧ Inv (x.certs.foldl addCert newPool) := by
    intro x
    have := foldl_addCert_spec x.certs newPool inv_new
    exact ⟨by rw [this.1]; exact foldl_specAdd_nil _, this.2⟩
  cases a with
  | none =>
    cases b with
    | none => exact ⟨rfl, inv_new⟩
    | some y => simpa [sum, optCerts] using h1 y
  | some x =>
    cases b with
    | none => simpa [sum, optCerts] using h1 x
    | some y =>
      simp only [sum, optCerts]
      have := foldl_addCert_spec y.certs _ (h1 x).2
      refine ⟨?_, this.2⟩
      rw [this.1, (h1 x).1, dedupFp_append]

/-! ### findVerifiedParents -/

theorem parentsLoop_spec (chk : Cert → Cert → Bool) (certs : List Cert) (cert : Cert) (cands : List Nat)
    (acc : Parents) (hc : ∀ i ∈ cands, ∃ x, certs[i]? = some x) :
    ∃ res, parentsLoop chk certs cert acc cands = .ok res ∧
      ∀ i, i ∈ res.parents ↔ i ∈ acc.parents ∨ (i ∈ cands ∧ ∃ x, certs[i]? = some x ∧ chk cert x = true) := by
  induction cands generalizing acc with
  | nil => exact ⟨acc, rfl, by simp⟩
  | cons c cs ih =>
    obtain ⟨x, hx⟩ := hc c List.mem_cons_self
    have hc' : ∀ i ∈ cs, ∃ x, certs[i]? = some x := fun i hi => hc i (List.mem_cons_of_mem _ hi)
    unfold parentsLoop
    simp only [hx]
    by_cases hk : chk cert x = true
    · simp only [hk, if_true]
      obtain ⟨res, e, m⟩ := ih { acc with parents := acc.parents ++ [c], errNil := true, valid := true } hc'
      refine ⟨res, e, ?_⟩
      intro i
      rw [m i]
      simp only [List.mem_append, List.mem_cons, List.not_mem_nil, or_false]
      constructor
      · rintro ((h | h) | h)
        · exact Or.inl h
        · subst h; exact Or.inr ⟨Or.inl rfl, x, hx, hk⟩
        · exact Or.inr ⟨Or.inr h.1, h.2⟩
      · rintro (h | ⟨h | h, y, hy, hky⟩)
        · exact Or.inl (Or.inl h)
        · exact Or.inl (Or.inr h)
        · exact Or.inr ⟨h, y, hy, hky⟩
    · simp only [hk, Bool.false_eq_true, if_false]
      obtain ⟨res, e, m⟩ := ih { acc with errCert := some x, errNil := false } hc'
      refine ⟨res, e, ?_⟩
      intro i
      rw [m i]
      simp only [List.mem_cons]
      constructor
      · rintro (h | h)
        · exact Or.inl h
        · exact Or.inr ⟨Or.inr h.1, h.2⟩
      · rintro (h | ⟨h | h, y, hy, hky⟩)
        · exact Or.inl h
        · subst h; rw [hx] at hy; cases hy; exact absurd hky hk
        · exact Or.inr ⟨h, y, hy, hky⟩

/-- the `ValidSignature` side effect: after the loop the child's flag is its old value OR "a parent was found". -/
theorem parentsLoop_valid (chk : Cert → Cert → Bool) (certs : List Cert) (cert : Cert) (v0 : Bool) (cands : List Nat)
    (acc res : Parents) (ha : acc.valid = (v0 || !acc.parents.isEmpty))
    (h : parentsLoop chk certs cert acc cands = .ok res) : res.valid = (v0 || !res.parents.isEmpty) := by
  induction cands generalizing acc with
  | nil => simp only [parentsLoop, Res.ok.injEq] at h; rw [← h]; exact ha
  | cons c cs ih =>
    unfold parentsLoop at h
    cases hx : certs[c]? with
    | none => simp [hx] at h
    | some x =>
      simp only [hx] at h
      by_cases hk : chk cert x = true
      · simp only [hk, if_true] at h
        exact ih _ (by simp) h
      · simp only [hk, Bool.false_eq_true, if_false] at h
        exact ih { acc with errCert := some x, errNil := false } ha h

end ZV.C08
