import ZV.Proofs.C18
/-! C18: `*big.Int` content round trip — `parseBigInt (makeBigInt i) = i` for EVERY integer (two's complement, any size). -/
namespace ZV.C18

theorem beNat_append (l : Bytes) (x : UInt8) : beNat (l ++ [x]) = beNat l * 256 + x.toNat := by
  simp [beNat, List.foldl_append]

theorem beNat_foldl_zero (l : Bytes) (a : Nat) :
    List.foldl (fun a b => a * 256 + b.toNat) a l = a * 256 ^ l.length + beNat l := by
  induction l generalizing a with
  | nil => simp [beNat]
  | cons b r ih =>
    simp only [List.foldl_cons, List.length_cons, beNat]
    rw [ih, ih (0 * 256 + b.toNat)]
    rw [Nat.pow_succ]
    simp only [Nat.zero_mul, Nat.zero_add, Nat.add_mul]
    rw [Nat.mul_assoc, Nat.mul_comm 256, Nat.add_assoc]

theorem beNat_cons (b : UInt8) (r : Bytes) : beNat (b :: r) = b.toNat * 256 ^ r.length + beNat r := by
  have := beNat_foldl_zero r b.toNat
  simpa [beNat] using this

theorem beNat_zero_cons (b : UInt8) (r : Bytes) (h : b.toNat = 0) : beNat (b :: r) = beNat r := by
  rw [beNat_cons, h]; simp

/-- `big.Int.Bytes` is inverted by the big-endian accumulation -/
theorem beNat_natBytes (n : Nat) : beNat (natBytes n) = n := by
  induction n using natBytes.induct with
  | case1 => rw [natBytes_zero]; rfl
  | case2 n h ih =>
    rw [natBytes_pos (by omega), beNat_append, ih, toNat_ofNat_lt (by omega)]
    omega

/-- `big.Int.Bytes` has no leading zero byte -/
theorem natBytes_head (n : Nat) : ∀ b r, natBytes n = b :: r → b.toNat ≠ 0 := by
  induction n using natBytes.induct with
  | case1 => intro b r h; rw [natBytes_zero] at h; cases h
  | case2 n h ih =>
    intro b r hb
    rw [natBytes_pos (by omega)] at hb
    cases hq : natBytes (n / 256) with
    | nil =>
      rw [hq] at hb
      simp only [List.nil_append, List.cons.injEq] at hb
      have h0 : n / 256 = 0 := by
        by_contra hc
        rw [natBytes_pos (by omega)] at hq
        simp at hq
      rw [← hb.1, toNat_ofNat_lt (by omega)]
      omega
    | cons c t =>
      rw [hq] at hb
      simp only [List.cons_append, List.cons.injEq] at hb
      rw [← hb.1]
      exact ih c t hq

theorem natBytes_ne_nil {n : Nat} (h : 0 < n) : natBytes n ≠ [] := by
  rw [natBytes_pos h]; simp

theorem notByte_toNat (b : UInt8) : (notByte b).toNat = 255 - b.toNat := by
  unfold notByte
  have := b.toNat_lt
  rw [toNat_ofNat_lt (by omega)]

theorem notByte_notByte (b : UInt8) : notByte (notByte b) = b := by
  apply UInt8.toNat_inj.mp
  rw [notByte_toNat, notByte_toNat]
  have := b.toNat_lt
  omega

theorem map_notByte_notByte (l : Bytes) : (l.map notByte).map notByte = l := by
  induction l with
  | nil => rfl
  | cons b r ih => simp only [List.map_cons, ih, notByte_notByte]

theorem checkInteger_cons2 (b0 b1 : UInt8) (r : Bytes)
    (h : ¬ ((b0.toNat = 0 ∧ b1.toNat < 128) ∨ (b0.toNat = 255 ∧ b1.toNat ≥ 128))) :
    checkInteger false (b0 :: b1 :: r) = true := by
  simp [checkInteger, h]

theorem checkInteger_head (b0 : UInt8) (r : Bytes) (h0 : b0.toNat ≠ 0) (h1 : b0.toNat ≠ 255) :
    checkInteger false (b0 :: r) = true := by
  cases r with
  | nil => rfl
  | cons b1 r' => exact checkInteger_cons2 b0 b1 r' (by omega)

/-- **INTEGER content round trip for `*big.Int`**: every integer, any size -/
theorem parseBigInt_makeBigInt (i : Int) : parseBigInt false (makeBigInt i) = .ok i := by
  unfold makeBigInt
  by_cases hneg : i < 0
  · rw [if_pos hneg]
    by_cases hm : (-i - 1).toNat = 0
    · rw [hm, natBytes_zero]
      simp only [List.map_nil]
      have : i = -1 := by omega
      subst this
      decide
    · have hpos : 0 < (-i - 1).toNat := by omega
      cases hq : natBytes (-i - 1).toNat with
      | nil => exact absurd hq (natBytes_ne_nil hpos)
      | cons c0 t =>
        have hc0 := natBytes_head _ c0 t hq
        have hval : beNat (c0 :: t) = (-i - 1).toNat := by rw [← hq, beNat_natBytes]
        have hlt := c0.toNat_lt
        simp only [List.map_cons]
        have hnb := notByte_toNat c0
        by_cases hsmall : (notByte c0).toNat < 128
        · rw [if_pos hsmall]
          unfold parseBigInt
          rw [checkInteger_cons2 _ _ _ (by
            have : (255 : UInt8).toNat = 255 := rfl
            omega)]
          simp only [Bool.not_true, Bool.false_eq_true, if_false]
          have h255 : (255 : UInt8).toNat ≥ 128 := by decide
          rw [if_pos h255]
          simp only [List.map_cons, map_notByte_notByte, notByte_notByte]
          rw [beNat_zero_cons _ _ (by decide), hval]
          simp only [Res.ok.injEq]
          omega
        · rw [if_neg hsmall]
          unfold parseBigInt
          rw [checkInteger_head _ _ (by omega) (by omega)]
          simp only [Bool.not_true, Bool.false_eq_true, if_false]
          rw [if_pos (by omega)]
          simp only [List.map_cons, map_notByte_notByte, notByte_notByte]
          rw [hval]
          simp only [Res.ok.injEq]
          omega
  · rw [if_neg hneg]
    by_cases h0 : i = 0
    · subst h0; decide
    · rw [if_neg h0]
      have hpos : 0 < i.toNat := by omega
      cases hq : natBytes i.toNat with
      | nil => exact absurd hq (natBytes_ne_nil hpos)
      | cons c0 t =>
        have hc0 := natBytes_head _ c0 t hq
        have hval : beNat (c0 :: t) = i.toNat := by rw [← hq, beNat_natBytes]
        have hlt := c0.toNat_lt
        simp only
        by_cases hbig : c0.toNat ≥ 128
        · rw [if_pos hbig]
          unfold parseBigInt
          rw [checkInteger_cons2 _ _ _ (by
            have : (0 : UInt8).toNat = 0 := rfl
            omega)]
          simp only [Bool.not_true, Bool.false_eq_true, if_false]
          have h0' : ¬ ((0 : UInt8).toNat ≥ 128) := by decide
          rw [if_neg h0', beNat_zero_cons _ _ (by decide), hval]
          simp only [Res.ok.injEq]
          omega
        · rw [if_neg hbig]
          unfold parseBigInt
          rw [checkInteger_head _ _ hc0 (by omega)]
          simp only [Bool.not_true, Bool.false_eq_true, if_false]
          rw [if_neg hbig, hval]
          simp only [Res.ok.injEq]
          omega

end ZV.C18
