import ZV.Model.C18
import ZV.Proofs.C18
import ZV.Proofs.C18Leaf
import ZV.Proofs.C18Opt
import ZV.Proofs.C18Seq
import ZV.Proofs.C18Sort
import ZV.Proofs.C18Dom
/-! C18: the main induction over the schema (`roundtrip_both`): field level (`RT`) and field-list level (`RTF`). -/
namespace ZV.C18

/-- fields part of the induction: what is established for a field list -/
def RTF (s : Schema) (v : Val) (enc : Bytes) : Prop :=
  ∃ v', parseFields false s enc = .ok (v', []) ∧ VEq s {} v v' ∧ makeFields s v' = .ok enc ∧
    (Exact s {} v = true → v' = v) ∧ (v' = zeroVal s → v = zeroVal s)

theorem omitted_struct_zero (fs : Schema) (p : Params) (v : Val) (h : omitted (.struct fs) p v = false) :
    p.optional = false ∨ p.defaultValue ≠ none ∨ v ≠ zeroVal fs := by
  unfold omitted at h
  simp only [isSliceKind, Bool.false_and, Bool.false_or, isIntKind, zeroVal] at h
  cases ho : p.optional with
  | false => exact Or.inl rfl
  | true =>
    right
    rw [ho] at h
    cases hd : p.defaultValue with
    | some d => left; simp
    | none => right; rw [hd] at h; simpa using h

theorem omitted_struct_of (fs : Schema) (p : Params) (v v' : Val) (h : omitted (.struct fs) p v = false)
    (hz : v' = zeroVal fs → v = zeroVal fs) : omitted (.struct fs) p v' = false := by
  rcases omitted_struct_zero fs p v h with h1 | h1 | h1
  · unfold omitted; simp [isSliceKind, h1]
  · unfold omitted
    cases hd : p.defaultValue with
    | none => exact absurd hd h1
    | some d => simp [isSliceKind, isIntKind]
  · unfold omitted
    have : v' ≠ zeroVal fs := fun hc => h1 (hz hc)
    cases hd : p.defaultValue <;> simp [isSliceKind, isIntKind, zeroVal, this]

/-- what the induction hypothesis gives for one slice element -/
def EQ (e : Schema) (x : Val) (b : Bytes) (y : Val) : Prop :=
  VEq e {} x y ∧ makeField e {} y = .ok b ∧ (Exact e {} x = true → y = x)

theorem elems_shape (e : Schema) (ma : Bool) (etag : Nat) (ecomp : Bool) (hu : univ e = some (ma, etag, ecomp)) :
    ∀ (l : List Val) (bs : List Bytes), All2 (fun x b => makeField e {} x = .ok b) l bs →
      (∀ x ∈ l, InDomain e {} x = true) → (∀ b ∈ bs, b.length < 2147483648) →
      ∀ b ∈ bs, ElemShape ma etag ecomp b := by
  intro l
  induction l with
  | nil =>
    intro bs h _ _ b hb'
    cases bs with
    | nil => simp at hb'
    | cons _ _ => exact h.elim
  | cons x l ihl =>
    intro bs h hdl hsl b hb'
    cases bs with
    | nil => exact h.elim
    | cons c cs =>
      rcases List.mem_cons.mp hb' with rfl | hb''
      · exact elem_shape e x b ma etag ecomp (hdl x (by simp)) h.1 (hsl b (by simp)) hu
      · exact ihl cs h.2 (fun y hy => hdl y (by simp [hy])) (fun y hy => hsl y (by simp [hy])) b hb''

theorem elems_decode (e : Schema)
    (ih : ∀ p v enc rest, InDomain e p v = true → makeField e p v = .ok enc → enc.length < 2147483648 →
        (omitted e p v = true → Skips e p rest) → RT e p v enc rest) :
    ∀ (l : List Val) (bs : List Bytes), All2 (fun x b => makeField e {} x = .ok b) l bs →
      (∀ x ∈ l, InDomain e {} x = true) → (∀ b ∈ bs, b.length < 2147483648) →
      All2 (fun x b => ∀ rest', ∃ y, parseField false e {} (b ++ rest') = .ok (y, rest') ∧ EQ e x b y) l bs := by
  intro l
  induction l with
  | nil =>
    intro bs h _ _
    cases bs with
    | nil => trivial
    | cons _ _ => exact h.elim
  | cons x l ihl =>
    intro bs h hdl hsl
    cases bs with
    | nil => exact h.elim
    | cons c cs =>
      refine ⟨?_, ihl cs h.2 (fun y hy => hdl y (by simp [hy])) (fun y hy => hsl y (by simp [hy]))⟩
      intro rest'
      obtain ⟨y, hy1, hy2, hy3, hy4, _⟩ := ih {} x c rest' (hdl x (by simp)) h.1 (hsl c (by simp))
        (fun ho => by rw [omitted_false e {} x rfl rfl] at ho; cases ho)
      exact ⟨y, hy1, hy2, hy3, hy4⟩

theorem All2_eq {α : Type} {R : α → α → Prop} : ∀ {l ys : List α}, All2 R l ys → (∀ x ∈ l, ∀ y, R x y → y = x) → ys = l
  | [], [], _, _ => rfl
  | x :: l, y :: ys, h, hr => by
    rw [hr x (by simp) y h.1, All2_eq h.2 (fun a ha b hab => hr a (by simp [ha]) b hab)]
  | [], _ :: _, h, _ => h.elim
  | _ :: _, [], h, _ => h.elim

theorem roundtrip_both (s : Schema) :
    (∀ p v enc rest, InDomain s p v = true → makeField s p v = .ok enc → enc.length < 2147483648 →
        (omitted s p v = true → Skips s p rest) → RT s p v enc rest) ∧
    (∀ v enc, InDomain s {} v = true → makeFields s v = .ok enc → enc.length < 2147483648 → RTF s v enc) := by
  induction s with
  | struct fs ih =>
    refine ⟨fun p v enc rest hd hm hl hsk => ?_, fun v enc hd hm hl => by simp [makeFields] at hm⟩
    simp only [InDomain, Bool.and_eq_true] at hd
    have hg := goodB_good p hd.1
    cases homit : omitted (.struct fs) p v with
    | true =>
      rw [homit] at hd
      exact absent_rt _ p v enc rest hm homit hd.2 (hsk homit)
    | false =>
      rw [homit] at hd
      simp only [Bool.false_eq_true, if_false] at hd
      have hm0 := hm
      simp only [makeField, homit, Bool.false_eq_true, if_false] at hm
      by_cases h1 : p.timeType ≠ 0
      · rw [if_pos h1] at hm; cases hm
      rw [if_neg h1] at hm
      by_cases h2 : p.stringType ≠ 0
      · rw [if_pos h2] at hm; cases hm
      rw [if_neg h2] at hm
      cases hb : makeFields fs v with
      | err => rw [hb] at hm; cases hm
      | panic => rw [hb] at hm; cases hm
      | ok body =>
        rw [hb] at hm
        have henc : enc = wrap p (if p.set = true then 17 else 16) true body := by simpa using hm.symm
        subst henc
        have hbl : body.length < 2147483648 := by
          have := wrap_length_ge p (if p.set = true then 17 else 16) true body; omega
        obtain ⟨vs', hp, hveq, hmk, hex, hz⟩ := ih.2 v body hd.2 hb hbl
        refine ⟨vs', ?_, by simpa only [VEq] using hveq, ?_, ?_, by simpa only [zeroVal] using hz⟩
        · simp only [parseField]
          rw [append_isEmpty_false (wrap_nonempty _ _ _ _)]
          simp only [Bool.false_eq_true, if_false]
          rw [parsePre_wrap false (.struct fs) p 16 _ true body rest rfl hg hl (by split_ifs <;> omega)
            (by intro _; simp only [substTag]; split_ifs <;> simp_all)]
          simp only [hp]
        · simp only [makeField, omitted_struct_of fs p v vs' homit hz, Bool.false_eq_true, if_false, if_neg h1, if_neg h2,
            hmk]
        · intro he
          simp only [Exact, homit, Bool.false_or] at he
          exact hex he
  | seqOf sn e ih =>
    refine ⟨fun p v enc rest hd hm hl hsk => ?_, fun v enc hd hm hl => by simp [makeFields] at hm⟩
    simp only [InDomain, Bool.and_eq_true] at hd
    have hg := goodB_good p hd.1.1
    cases homit : omitted (.seqOf sn e) p v with
    | true =>
      rw [homit] at hd
      exact absent_rt _ p v enc rest hm homit hd.2 (hsk homit)
    | false =>
      rw [homit] at hd
      simp only [Bool.false_eq_true, if_false] at hd
      obtain ⟨⟨_, hue⟩, hall⟩ := hd
      simp only [makeField, homit, Bool.false_eq_true, if_false] at hm
      by_cases h1 : p.timeType ≠ 0
      · rw [if_pos h1] at hm; cases hm
      rw [if_neg h1] at hm
      by_cases h2 : p.stringType ≠ 0
      · rw [if_pos h2] at hm; cases hm
      rw [if_neg h2] at hm
      by_cases h3 : (p.set && sn) = true
      · rw [if_pos h3] at hm; cases hm
      rw [if_neg h3] at hm
      cases hb : mapElems (fun x => makeField e {} x) v with
      | err => rw [hb] at hm; cases hm
      | panic => rw [hb] at hm; cases hm
      | ok encs =>
        rw [hb] at hm
        simp only [Res.ok.injEq] at hm
        have hall2 := mapElems_ok _ v encs hb
        -- the (possibly sorted) element encodings and the matching permutation of the elements
        obtain ⟨encs', xs', hencs', hsort, hpx, hax, hid⟩ : ∃ (encs' : List Bytes) (xs' : List Val),
            encs' = (if (p.set || sn) = true then sortEnc encs else encs) ∧
            (if (p.set || sn) = true then sortEnc encs' else encs') = encs' ∧
            xs'.Perm (elems v) ∧ All2 (fun x b => makeField e {} x = .ok b) xs' encs' ∧
            ((p.set || sn) = false → xs' = elems v) := by
          by_cases hset : (p.set || sn) = true
          · obtain ⟨xs', hpx, hax⟩ := All2_perm (perm_sortEnc encs) (elems v) hall2
            exact ⟨sortEnc encs, xs', by rw [if_pos hset], by rw [if_pos hset]; exact sortEnc_sortEnc encs, hpx, hax,
              fun h => by rw [h] at hset; cases hset⟩
          · exact ⟨encs, elems v, by rw [if_neg hset], by rw [if_neg hset], List.Perm.refl _, hall2, fun _ => rfl⟩
        have hbody : enc = wrap p (if (p.set || sn) = true then 17 else 16) true encs'.flatten := by
          rw [← hm, hencs']; split_ifs <;> rfl
        clear hm
        subst hbody
        have hbl : encs'.flatten.length < 2147483648 := by
          have := wrap_length_ge p (if (p.set || sn) = true then 17 else 16) true encs'.flatten; omega
        have hdom : ∀ x ∈ xs', InDomain e {} x = true := fun x hx =>
          allChain_mem _ v hall x (hpx.mem_iff.mp hx)
        have hshort : ∀ b ∈ encs', b.length < 2147483648 := by
          intro b hb'
          have : b.length ≤ encs'.flatten.length := by
            obtain ⟨l1, l2, rfl⟩ := List.append_of_mem hb'
            simp only [List.flatten_append, List.flatten_cons, List.length_append]; omega
          omega
        cases hu : univ e with
        | none => rw [hu] at hue; simp at hue
        | some x =>
          obtain ⟨ma, etag, ecomp⟩ := x
          have hshape := elems_shape e ma etag ecomp hu xs' encs' hax hdom hshort
          have hcount := countElems_flatten ma etag ecomp encs' encs'.flatten.length hshape (Nat.le_refl _) hbl
          obtain ⟨ys, hpe, hR1, hR2⟩ := parseElems_flatten (fun b => parseField false e {} b) (EQ e) xs' encs'
            (elems_decode e ih.1 xs' encs' hax hdom hshort)
          have hlenxy : xs'.length = ys.length := All2_length hR1
          have hveq : All2 (fun a b => VEq e {} a b) xs' ys :=
            All2_mono (fun a _ b hab => by obtain ⟨_, h, _⟩ := hab; exact h) hR1
          have hmk : All2 (fun y b => makeField e {} y = .ok b) ys encs' :=
            All2_mono (fun a _ b hab => by obtain ⟨_, _, h, _⟩ := hab; exact h) hR2
          refine ⟨ofList ys, ?_, ?_, ?_, ?_, ?_⟩
          · simp only [parseField]
            rw [append_isEmpty_false (wrap_nonempty _ _ _ _)]
            simp only [Bool.false_eq_true, if_false]
            rw [parsePre_wrap false (.seqOf sn e) p (if sn = true then 17 else 16) _ true encs'.flatten rest rfl hg hl
              (by split_ifs <;> omega)
              (by intro _; simp only [substTag]; cases hs : p.set <;> cases sn <;> simp_all)]
            simp only [hu, hcount, hpe]
          · simp only [VEq, elems_ofList]
            by_cases hset : (p.set || sn) = true
            · rw [if_pos hset]; exact ⟨xs', hpx, hveq⟩
            · rw [if_neg hset, ← hid (by simpa using hset)]; exact hveq
          · have hlen : (elems v).length = ys.length := by rw [← hlenxy]; exact hpx.length_eq.symm
            simp only [makeField, omitted_seq_ofList sn e p v ys _ encs homit hb hlen, Bool.false_eq_true, if_false,
              if_neg h1, if_neg h2, if_neg h3, mapElems_ofList _ ys encs' hmk]
            by_cases hset : (p.set || sn) = true
            · rw [if_pos hset] at hsort; simp only [if_pos hset, hsort]
            · simp only [if_neg hset]
          · intro he
            simp only [Exact, homit, Bool.false_or, Bool.and_eq_true, Bool.not_eq_true'] at he
            obtain ⟨⟨hns, hproper⟩, hallex⟩ := he
            have hxs := hid hns
            subst hxs
            have hys : ys = elems v := All2_eq hR1 (fun x hx y hxy => by
              obtain ⟨_, _, _, h⟩ := hxy; exact h (allChain_mem _ v hallex x hx))
            rw [hys]; exact ofList_elems v hproper
          · intro hz; cases ys <;> simp [ofList, zeroVal] at hz
  | fnil =>
    refine ⟨fun p v enc rest hd hm hl _ => by simp [makeField] at hm, fun v enc hd hm hl => ?_⟩
    simp only [InDomain, beq_iff_eq] at hd
    subst hd
    simp only [makeFields, Res.ok.injEq] at hm
    subst hm
    exact ⟨.vnil, by simp [parseFields], by simp [VEq], by simp [makeFields], fun _ => rfl, fun h => h⟩
  | fcons p s r ihs ihr =>
    refine ⟨fun p v enc rest hd hm hl _ => by simp [makeField] at hm, fun v enc hd hm hl => ?_⟩
    cases v <;> simp only [InDomain, Bool.false_eq_true, Bool.and_eq_true] at hd
    rename_i x xs
    obtain ⟨⟨hdx, hdxs⟩, hskip⟩ := hd
    simp only [makeFields] at hm
    cases h1 : makeField s p x with
    | err => rw [h1] at hm; cases hm
    | panic => rw [h1] at hm; cases hm
    | ok b =>
      rw [h1] at hm
      cases h2 : makeFields r xs with
      | err => rw [h2] at hm; cases hm
      | panic => rw [h2] at hm; cases hm
      | ok bs =>
        rw [h2] at hm
        simp only [Res.ok.injEq] at hm
        subst hm
        simp only [List.length_append] at hl
        have hsk : omitted s p x = true → Skips s p bs := by
          intro ho
          rw [ho] at hskip
          simp only [Bool.not_true, Bool.false_or] at hskip
          have hf := fields_hdr r xs bs hdxs h2 (by omega)
          cases hfh : firstHdr r xs with
          | none => rw [hfh] at hf; exact Or.inl hf
          | some h =>
            rw [hfh] at hf hskip
            obtain ⟨t, r', hp, hh⟩ := hf
            refine Or.inr ⟨t, r', hp, ?_⟩
            rw [← hh] at hskip
            exact hskip
        obtain ⟨y, hy1, hy2, hy3, hy4, hy5⟩ := ihs.1 p x b bs hdx h1 (by omega) hsk
        obtain ⟨ys, hys1, hys2, hys3, hys4, hys5⟩ := ihr.2 xs bs hdxs h2 (by omega)
        refine ⟨.vcons y ys, ?_, ?_, ?_, ?_, ?_⟩
        · simp only [parseFields, hy1, hys1]
        · simp only [VEq]; exact ⟨hy2, hys2⟩
        · simp only [makeFields, hy3, hys3]
        · intro he
          simp only [Exact, Bool.and_eq_true] at he
          rw [hy4 he.1, hys4 he.2]
        · intro hz
          simp only [zeroVal, Val.vcons.injEq] at hz ⊢
          exact ⟨hy5 hz.1, hys5 hz.2⟩
  | _ =>
    refine ⟨fun p v enc rest hd hm hl hsk => ?_, fun v enc hd hm hl => by simp [makeFields] at hm⟩
    rw [InDomain_leaf _ p v rfl] at hd
    simp only [Bool.and_eq_true] at hd
    have hg := goodB_good p hd.1
    cases homit : omitted _ p v with
    | true =>
      rw [homit] at hd
      exact absent_rt _ p v enc rest hm homit hd.2 (hsk homit)
    | false =>
      rw [homit] at hd
      simp only [Bool.false_eq_true, if_false] at hd
      exact leaf_present _ p v enc rest rfl hg hd.2 homit hm hl

theorem encInt64_small (i : Int) (h : -128 ≤ i ∧ i ≤ 127) : encInt64 i = [byteOfInt i] := by
  rw [encInt64, if_pos h]

end ZV.C18
