import ZV.Proofs.DerLite
/-! The DER TLV reader is *local*: what it accepts and returns depends only on the bytes it consumes.
    `readX bs = ok (v, rest)  →  readX (bs ++ t) = ok (v, rest ++ t)` for every reader of `ZV.Model.DerLite`,
    and the SEQUENCE OF reader on a concatenation of arbitrary accepted elements (not only `writeTLV` ones). -/
namespace ZV.Der

theorem readBase128_append : ∀ (f s acc : Nat) (bs : Bytes) (v : Nat) (rest t : Bytes),
    readBase128 f s acc bs = .ok (v, rest) → readBase128 f s acc (bs ++ t) = .ok (v, rest ++ t) := by
  intro f
  induction f with
  | zero => intro s acc bs v rest t h; simp [readBase128] at h
  | succ f ih =>
    intro s acc bs v rest t h
    cases bs with
    | nil => simp [readBase128] at h
    | cons b tl =>
      simp only [readBase128, List.cons_append] at h ⊢
      split at h
      · cases h
      · rename_i hc
        rw [if_neg hc]
        split at h
        · rename_i hb
          simp only [hb, if_true]
          split at h
          · cases h
          · rename_i hgt
            rw [if_neg hgt]
            injection h with h; injection h with h1 h2; subst h1; subst h2; rfl
        · rename_i hb
          simp only [hb, if_false]
          exact ih _ _ _ _ _ t h

theorem readLenLoop_append : ∀ (n acc : Nat) (bs : Bytes) (v : Nat) (rest t : Bytes),
    readLenLoop n acc bs = .ok (v, rest) → readLenLoop n acc (bs ++ t) = .ok (v, rest ++ t) := by
  intro n
  induction n with
  | zero =>
    intro acc bs v rest t h
    simp only [readLenLoop] at h ⊢
    injection h with h; injection h with h1 h2; subst h1; subst h2; rfl
  | succ n ih =>
    intro acc bs v rest t h
    cases bs with
    | nil => simp [readLenLoop] at h
    | cons b tl =>
      simp only [readLenLoop, List.cons_append] at h ⊢
      split at h
      · cases h
      · rename_i h1
        rw [if_neg h1]
        split at h
        · cases h
        · rename_i h2
          rw [if_neg h2]
          exact ih _ _ _ _ t h

theorem readLen_append (bs : Bytes) (v : Nat) (rest t : Bytes) (h : readLen bs = .ok (v, rest)) :
    readLen (bs ++ t) = .ok (v, rest ++ t) := by
  cases bs with
  | nil => simp [readLen] at h
  | cons b tl =>
    simp only [readLen, List.cons_append] at h ⊢
    split at h
    · rename_i h1
      rw [if_pos h1]
      injection h with h; injection h with h1 h2; subst h1; subst h2; rfl
    · rename_i h1
      rw [if_neg h1]
      split at h
      · cases h
      · rename_i h2
        rw [if_neg h2]
        split at h
        · rename_i len rest' heq
          rw [readLenLoop_append _ _ _ _ _ t heq]
          simp only
          split at h
          · cases h
          · rename_i h3
            rw [if_neg h3]
            simp only [Res.ok.injEq, Prod.mk.injEq] at h
            rw [h.1, h.2]
        · cases h
        · cases h

theorem readHdr_append (bs : Bytes) (hd : Hdr) (rest t : Bytes) (h : readHdr bs = .ok (hd, rest)) :
    readHdr (bs ++ t) = .ok (hd, rest ++ t) := by
  cases bs with
  | nil => simp [readHdr] at h
  | cons b tl =>
    simp only [readHdr, List.cons_append] at h ⊢
    split at h
    · rename_i h31
      rw [if_pos h31]
      split at h
      · rename_i tg rest1 heq
        rw [readBase128_append _ _ _ _ _ _ t heq]
        simp only
        split at h
        · cases h
        · rename_i hlt
          rw [if_neg hlt]
          split at h
          · rename_i l rest2 heq2
            rw [readLen_append _ _ _ t heq2]
            simp only
            injection h with h; injection h with h1 h2; subst h1; subst h2; rfl
          · cases h
          · cases h
      · cases h
      · cases h
    · rename_i h31
      rw [if_neg h31]
      split at h
      · rename_i l rest2 heq2
        rw [readLen_append _ _ _ t heq2]
        simp only
        injection h with h; injection h with h1 h2; subst h1; subst h2; rfl
      · cases h
      · cases h

/-- what `readElem` returns has the header `readHdr` reports -/
theorem readElem_hdr (bs : Bytes) (e : Elem) (rest : Bytes) (h : readElem bs = .ok (e, rest)) :
    ∃ after, readHdr bs = .ok (e.hdr, after) ∧ e.hdr.len ≤ after.length ∧ rest = after.drop e.hdr.len := by
  simp only [readElem] at h
  split at h
  · rename_i hd after heq
    split at h
    · cases h
    · rename_i hlen
      injection h with h; injection h with h1 h2
      subst h1; subst h2
      exact ⟨after, heq, by simp only; omega, rfl⟩
  · cases h
  · cases h

/-- **Locality of the element reader**: an accepted element is accepted unchanged (same header, body, full
    encoding) whatever follows it. -/
theorem readElem_append (bs : Bytes) (e : Elem) (rest t : Bytes) (h : readElem bs = .ok (e, rest)) :
    readElem (bs ++ t) = .ok (e, rest ++ t) := by
  simp only [readElem] at h ⊢
  split at h
  · rename_i hd after heq
    rw [readHdr_append _ _ _ t heq]
    simp only
    split at h
    · cases h
    · rename_i hlen
      have hle : hd.len ≤ after.length := by omega
      have hn : ¬ (after ++ t).length < hd.len := by simp; omega
      rw [if_neg hn]
      injection h with h; injection h with h1 h2
      subst h1; subst h2
      obtain ⟨pre, _, hp⟩ := readHdr_suffix _ _ _ heq
      subst hp
      have e1 : (pre ++ after ++ t).length - (after ++ t).length + hd.len = pre.length + hd.len := by
        simp only [List.length_append]; omega
      have e2 : (pre ++ after).length - after.length + hd.len = pre.length + hd.len := by simp
      rw [e1, e2]
      have e3 : (pre ++ after ++ t).take (pre.length + hd.len) = (pre ++ after).take (pre.length + hd.len) := by
        rw [List.take_append_of_le_length (by simp; omega)]
      rw [e3, List.take_append_of_le_length hle, List.drop_append_of_le_length hle]
  · cases h
  · cases h

theorem readElem_nil : readElem [] = .err := by simp [readElem, readHdr]

theorem readElem_ne_nil (bs : Bytes) (e : Elem) (rest : Bytes) (h : readElem bs = .ok (e, rest)) :
    bs.isEmpty = false := by
  cases bs with
  | nil => rw [readElem_nil] at h; cases h
  | cons _ _ => rfl

/-- the full encoding of an accepted element is itself accepted, with nothing left -/
theorem readElem_full (bs : Bytes) (e : Elem) (rest : Bytes) (h : readElem bs = .ok (e, rest)) :
    bs = e.full ++ rest := (readElem_split bs e rest h).1

/-- **SEQUENCE OF reader on accepted elements**: a concatenation of byte strings each of which is exactly one
    accepted element is read back element by element. -/
theorem readElemsFuel_flatten (el : Bytes → Elem) : ∀ (l : List Bytes) (f : Nat),
    (∀ b ∈ l, readElem b = .ok (el b, [])) → l.flatten.length ≤ f →
    readElemsFuel f l.flatten = .ok (l.map el) := by
  intro l
  induction l with
  | nil => intro f _ _; simp [readElemsFuel_nil]
  | cons b bs ih =>
    intro f h hf
    have hb := h b List.mem_cons_self
    have hne := readElem_ne_nil _ _ _ hb
    have h2 := readElem_rest_lt _ _ _ hb
    simp only [List.flatten_cons, List.length_append, List.map_cons] at hf ⊢
    cases f with
    | zero => simp at h2; omega
    | succ f =>
      have hne' : (b ++ bs.flatten).isEmpty = false := by
        cases b with
        | nil => cases hne
        | cons _ _ => rfl
      simp only [readElemsFuel, hne']
      have := readElem_append _ _ _ bs.flatten hb
      simp only [List.nil_append] at this
      rw [this]
      simp only [Bool.false_eq_true, if_false]
      rw [ih f (fun y hy => h y (List.mem_cons_of_mem _ hy)) (by simp at h2; omega)]

theorem readElems_flatten (el : Bytes → Elem) (l : List Bytes)
    (h : ∀ b ∈ l, readElem b = .ok (el b, [])) : readElems l.flatten = .ok (l.map el) :=
  readElemsFuel_flatten el l _ h (Nat.le_refl _)

/-! ### the length field grows with the length (so a size bound on a larger encoding bounds a smaller one) -/

theorem encLen_length_mono (a b : Nat) (h : a ≤ b) : (encLen a).length ≤ (encLen b).length := by
  unfold encLen lenDigits
  repeat' split
  all_goals simp
  all_goals omega

theorem writeTLV_length_mono (t t' : UInt8) (a b : Bytes) (h : a.length ≤ b.length) :
    (writeTLV t a).length ≤ (writeTLV t' b).length := by
  have := encLen_length_mono _ _ h
  rw [writeTLV_length, writeTLV_length]; omega

theorem length_le_writeTLV (t : UInt8) (b : Bytes) : b.length ≤ (writeTLV t b).length := by
  have := writeTLV_length_ge t b; omega

end ZV.Der
