import ZV.Model.C23
import Mathlib.Tactic.NormNum.Prime
/-! a concrete multi-prime key large enough for SHA-256 PSS / OAEP — used by the `example`s of `ZV.Props.C23` -/
namespace ZV.C23
open ZV

/-- 40 distinct 16-bit primes, e = 65537, d = e⁻¹ mod lcm(pᵢ-1): a 622-bit (78-octet) multi-prime key -/
def key40 : Priv :=
  ⟨9364465914897895446762591474441777849652110304743097545796305410096928947396068455562424817044211082776543644251132911207577128653329090255565683843709968999164083183027293226624691399323,
   65537,
   554798946939259005782368226842884757497410792139993432019972536154622965988447768807024868638913866855569611288488553473,
   [33343, 33461, 33569, 33751, 34231, 35149, 36319, 36457, 37253, 38327, 40151, 41077, 41627, 42043, 42257, 44269, 45307,
    46093, 48407, 48449, 48857, 49297, 51197, 51287, 51581, 52163, 52667, 54563, 55229, 56003, 58549, 58687, 59951, 59981,
    60271, 61681, 64081, 64901, 65267, 65309], none⟩

theorem key40_primes : ∀ p ∈ key40.primes, p.Prime := by
  intro p hp
  simp only [key40, List.mem_cons, List.not_mem_nil, or_false] at hp
  rcases hp with rfl | rfl | rfl | rfl | rfl | rfl | rfl | rfl | rfl | rfl | rfl | rfl | rfl | rfl | rfl | rfl | rfl
    | rfl | rfl | rfl | rfl | rfl | rfl | rfl | rfl | rfl | rfl | rfl | rfl | rfl | rfl | rfl | rfl | rfl | rfl | rfl
    | rfl | rfl | rfl | rfl <;> norm_num

theorem key40_ed : ∀ p ∈ key40.primes, key40.e * key40.d % (p - 1) = 1 := by
  intro p hp
  simp only [key40, List.mem_cons, List.not_mem_nil, or_false] at hp
  rcases hp with rfl | rfl | rfl | rfl | rfl | rfl | rfl | rfl | rfl | rfl | rfl | rfl | rfl | rfl | rfl | rfl | rfl
    | rfl | rfl | rfl | rfl | rfl | rfl | rfl | rfl | rfl | rfl | rfl | rfl | rfl | rfl | rfl | rfl | rfl | rfl | rfl
    | rfl | rfl | rfl | rfl <;> decide

set_option exponentiation.threshold 1000 in
theorem key40_log2 : key40.n.log2 = 621 := by
  rw [Nat.log2_eq_iff (by decide)]
  constructor <;> decide

theorem key40_size : sizeBytes key40.n = 78 ∧ bitLen key40.n = 622 := by
  unfold sizeBytes bitLen
  rw [if_neg (by decide), key40_log2]
  decide

end ZV.C23
