import ZV.Proofs.C18
/-! C18: SEQUENCE OF / SET OF — element lists, the two passes of `parseSequenceOf` on a concatenation of element encodings,
    transport of a pointwise relation along a permutation. -/
namespace ZV.C18

/-- the elements of a slice value (`nil` and the empty slice both have none) -/
def elems : Val → List Val
  | .vcons x r => x :: elems r
  | _ => []

/-- the non-nil slice with the given elements -/
def ofList : List Val → Val
  | [] => .vnil
  | x :: r => .vcons x (ofList r)

theorem elems_ofList (l : List Val) : elems (ofList l) = l := by
  induction l with
  | nil => rfl
  | cons x r ih => simp [ofList, elems, ih]

theorem ofList_elems (v : Val) (h : properChain v = true) : ofList (elems v) = v := by
  induction v with
  | vnil => rfl
  | vcons x r _ ihr => simp only [properChain] at h; simp [elems, ofList, ihr h]
  | _ => simp [properChain] at h

/-- pointwise relation between two lists of the same length -/
def All2 {α β : Type} (R : α → β → Prop) : List α → List β → Prop
  | [], [] => True
  | a :: as, b :: bs => R a b ∧ All2 R as bs
  | _, _ => False

theorem All2_length {α β : Type} {R : α → β → Prop} : ∀ {l1 : List α} {l2 : List β}, All2 R l1 l2 → l1.length = l2.length
  | [], [], _ => rfl
  | _ :: _, _ :: _, h => by simp [All2_length h.2]
  | [], _ :: _, h => h.elim
  | _ :: _, [], h => h.elim

theorem All2_mono {α β : Type} {R S : α → β → Prop} : ∀ {l1 : List α} {l2 : List β},
    (∀ a ∈ l1, ∀ b, R a b → S a b) → All2 R l1 l2 → All2 S l1 l2
  | [], [], _, _ => trivial
  | a :: as, b :: bs, hi, h =>
    ⟨hi a (by simp) b h.1, All2_mono (fun x hx y hxy => hi x (by simp [hx]) y hxy) h.2⟩
  | [], _ :: _, _, h => h.elim
  | _ :: _, [], _, h => h.elim

/-- a pointwise relation follows a permutation of its right-hand list -/
theorem All2_perm {α β : Type} {R : α → β → Prop} {bs' bs : List β} (hp : bs'.Perm bs) :
    ∀ xs, All2 R xs bs → ∃ xs', xs'.Perm xs ∧ All2 R xs' bs' := by
  induction hp with
  | nil => intro xs h; exact ⟨xs, List.Perm.refl _, h⟩
  | cons b _ ih =>
    intro xs h
    cases xs with
    | nil => exact h.elim
    | cons x xs0 =>
      obtain ⟨xs0', hp', ha⟩ := ih xs0 h.2
      exact ⟨x :: xs0', List.Perm.cons x hp', h.1, ha⟩
  | swap a b l =>
    intro xs h
    match xs, h with
    | x1 :: x2 :: xs0, h => exact ⟨x2 :: x1 :: xs0, List.Perm.swap x1 x2 xs0, h.2.1, h.1, h.2.2⟩
    | [], h => exact h.elim
    | [_], h => exact h.2.elim
  | trans _ _ ih1 ih2 =>
    intro xs h
    obtain ⟨xs1, hp1, ha1⟩ := ih2 xs h
    obtain ⟨xs2, hp2, ha2⟩ := ih1 xs1 ha1
    exact ⟨xs2, hp2.trans hp1, ha2⟩

/-- `mapElems` succeeded: element by element -/
theorem mapElems_ok (f : Val → Res Bytes) : ∀ (v : Val) (encs : List Bytes), mapElems f v = .ok encs →
    All2 (fun x b => f x = .ok b) (elems v) encs := by
  intro v
  induction v with
  | vnil => intro encs h; simp only [mapElems, Res.ok.injEq] at h; subst h; trivial
  | null => intro encs h; simp only [mapElems, Res.ok.injEq] at h; subst h; trivial
  | vcons x r _ ihr =>
    intro encs h
    simp only [mapElems] at h
    cases hx : f x with
    | err => rw [hx] at h; cases h
    | panic => rw [hx] at h; cases h
    | ok b =>
      rw [hx] at h
      cases hr : mapElems f r with
      | err => rw [hr] at h; cases h
      | panic => rw [hr] at h; cases h
      | ok bs =>
        rw [hr] at h
        simp only [Res.ok.injEq] at h
        subst h
        exact ⟨hx, ihr bs hr⟩
  | _ => intro encs h; simp [mapElems] at h

theorem mapElems_ofList (f : Val → Res Bytes) : ∀ (ys : List Val) (encs : List Bytes),
    All2 (fun y b => f y = .ok b) ys encs → mapElems f (ofList ys) = .ok encs
  | [], [], _ => rfl
  | y :: ys, b :: bs, h => by
    simp only [ofList, mapElems, h.1, mapElems_ofList f ys bs h.2]
  | [], _ :: _, h => h.elim
  | _ :: _, [], h => h.elim

/-- the shape `parseSequenceOf`'s first pass wants of one element encoding -/
def ElemShape (ma : Bool) (etag : Nat) (ecomp : Bool) (enc : Bytes) : Prop :=
  ∃ t body, enc = appendTL t ++ body ∧ t.len = body.length ∧ t.cls < 4 ∧ t.tag ≤ 2147483647 ∧
    (ma = true ∨ (t.cls = 0 ∧ t.compound = ecomp ∧ normSeqTag t.tag = etag))

/-- first pass of `parseSequenceOf` on a concatenation of well-shaped element encodings: counts them -/
theorem countElems_flatten (ma : Bool) (etag : Nat) (ecomp : Bool) (encs : List Bytes) : ∀ fuel,
    (∀ e ∈ encs, ElemShape ma etag ecomp e) → encs.flatten.length ≤ fuel → encs.flatten.length < 2147483648 →
    countElems false ma etag ecomp fuel encs.flatten = .ok encs.length := by
  induction encs with
  | nil => intro fuel _ _ _; cases fuel <;> simp [countElems]
  | cons e es ih =>
    intro fuel hs hf hl
    obtain ⟨t, body, he, hlen, hc, ht, hm⟩ := hs e (by simp)
    have hrest : ∀ x ∈ es, ElemShape ma etag ecomp x := fun x hx => hs x (by simp [hx])
    simp only [List.flatten_cons, List.length_append] at hf hl ⊢
    subst he
    simp only [List.length_append] at hf hl
    have hpos := appendTL_length_pos t
    have hdec := parseTL_appendTL false t hc ht (by omega) (body ++ es.flatten)
    cases fuel with
    | zero => omega
    | succ f =>
      cases ha : appendTL t with
      | nil => rw [ha] at hpos; simp at hpos
      | cons c tl =>
        rw [ha] at hdec
        simp only [List.cons_append, List.append_assoc] at hdec ⊢
        simp only [countElems, hdec]
        have hcond : (!ma && (t.cls != 0 || t.compound != ecomp || normSeqTag t.tag != etag)) = false := by
          rcases hm with h | ⟨h1, h2, h3⟩
          · simp [h]
          · simp [h1, h2, h3]
        rw [hcond]
        simp only [Bool.false_eq_true, if_false, List.length_append]
        rw [if_neg (by omega), hlen, List.drop_left]
        rw [ha] at hf
        simp only [List.length_cons] at hf
        rw [ih f hrest (by omega) (by omega)]
        simp

/-- second pass of `parseSequenceOf`: if every element encoding, in front of anything, decodes to some value related to
    its source, the concatenation decodes to the list of those values -/
theorem parseElems_flatten (pf : Bytes → Res (Val × Bytes)) (Q : Val → Bytes → Val → Prop) :
    ∀ (xs : List Val) (encs : List Bytes),
      All2 (fun x b => ∀ rest, ∃ y, pf (b ++ rest) = .ok (y, rest) ∧ Q x b y) xs encs →
      ∃ ys, parseElems pf encs.length encs.flatten = .ok (ofList ys) ∧
        All2 (fun x y => ∃ b, Q x b y) xs ys ∧ All2 (fun y b => ∃ x, Q x b y) ys encs
  | [], [], _ => ⟨[], rfl, trivial, trivial⟩
  | x :: xs, b :: bs, h => by
    obtain ⟨y, hy, hq⟩ := h.1 bs.flatten
    obtain ⟨ys, hys, h1, h2⟩ := parseElems_flatten pf Q xs bs h.2
    refine ⟨y :: ys, ?_, ⟨⟨b, hq⟩, h1⟩, ⟨⟨x, hq⟩, h2⟩⟩
    simp only [List.length_cons, List.flatten_cons, parseElems, hy, hys, ofList]
  | [], _ :: _, h => h.elim
  | _ :: _, [], h => h.elim

end ZV.C18
