import ZV.Model.C18
import ZV.Model.C18Dom
import Mathlib.Tactic.SplitIfs
import Mathlib.Tactic.NormNum
/-! Lemmas for C18: header (identifier + length) round trip, primitive content round trips. -/
namespace ZV.C18

theorem toNat_ofNat_lt {n : Nat} (h : n < 256) : (UInt8.ofNat n).toNat = n := by
  rw [UInt8.toNat_ofNat']; omega

/-! ### closed forms of the digit generators on the ranges the decoder accepts -/

theorem natBytes_zero : natBytes 0 = [] := by rw [natBytes]; simp

theorem natBytes_pos {n : Nat} (h : 0 < n) : natBytes n = natBytes (n / 256) ++ [UInt8.ofNat (n % 256)] := by
  rw [natBytes]; simp [Nat.ne_of_gt h]

theorem natBytes_1 {n : Nat} (h0 : 0 < n) (h : n < 256) : natBytes n = [UInt8.ofNat n] := by
  rw [natBytes_pos h0, show n / 256 = 0 by omega, natBytes_zero, show n % 256 = n by omega]; rfl

theorem natBytes_2 {n : Nat} (h0 : 256 ≤ n) (h : n < 65536) :
    natBytes n = [UInt8.ofNat (n / 256), UInt8.ofNat (n % 256)] := by
  rw [natBytes_pos (by omega), natBytes_1 (by omega) (by omega)]; rfl

theorem natBytes_3 {n : Nat} (h0 : 65536 ≤ n) (h : n < 16777216) :
    natBytes n = [UInt8.ofNat (n / 65536), UInt8.ofNat (n / 256 % 256), UInt8.ofNat (n % 256)] := by
  rw [natBytes_pos (by omega), natBytes_2 (by omega) (by omega), show n / 256 / 256 = n / 65536 by omega]; rfl

theorem natBytes_4 {n : Nat} (h0 : 16777216 ≤ n) (h : n < 4294967296) :
    natBytes n = [UInt8.ofNat (n / 16777216), UInt8.ofNat (n / 65536 % 256), UInt8.ofNat (n / 256 % 256), UInt8.ofNat (n % 256)] := by
  rw [natBytes_pos (by omega), natBytes_3 (by omega) (by omega), show n / 256 / 65536 = n / 16777216 by omega,
    show n / 256 / 256 % 256 = n / 65536 % 256 by omega]; rfl

theorem base128Hi_zero : base128Hi 0 = [] := by rw [base128Hi]; simp

theorem base128Hi_pos {n : Nat} (h : 0 < n) : base128Hi n = base128Hi (n / 128) ++ [UInt8.ofNat (n % 128 + 128)] := by
  rw [base128Hi]; simp [Nat.ne_of_gt h]

theorem base128Hi_1 {n : Nat} (h0 : 0 < n) (h : n < 128) : base128Hi n = [UInt8.ofNat (n + 128)] := by
  rw [base128Hi_pos h0, show n / 128 = 0 by omega, base128Hi_zero, show n % 128 = n by omega]; rfl

theorem base128Hi_2 {n : Nat} (h0 : 128 ≤ n) (h : n < 16384) :
    base128Hi n = [UInt8.ofNat (n / 128 + 128), UInt8.ofNat (n % 128 + 128)] := by
  rw [base128Hi_pos (by omega), base128Hi_1 (by omega) (by omega)]; rfl

theorem base128Hi_3 {n : Nat} (h0 : 16384 ≤ n) (h : n < 2097152) :
    base128Hi n = [UInt8.ofNat (n / 16384 + 128), UInt8.ofNat (n / 128 % 128 + 128), UInt8.ofNat (n % 128 + 128)] := by
  rw [base128Hi_pos (by omega), base128Hi_2 (by omega) (by omega), show n / 128 / 128 = n / 16384 by omega]; rfl

theorem base128Hi_4 {n : Nat} (h0 : 2097152 ≤ n) (h : n < 268435456) :
    base128Hi n = [UInt8.ofNat (n / 2097152 + 128), UInt8.ofNat (n / 16384 % 128 + 128), UInt8.ofNat (n / 128 % 128 + 128), UInt8.ofNat (n % 128 + 128)] := by
  rw [base128Hi_pos (by omega), base128Hi_3 (by omega) (by omega), show n / 128 / 16384 = n / 2097152 by omega,
    show n / 128 / 128 % 128 = n / 16384 % 128 by omega]; rfl

theorem base128_cont (sh acc : Nat) (b : UInt8) (r : Bytes) (d : Nat) (hb : b.toNat = d + 128) (hd : d < 128)
    (h1 : sh < 5) (h2 : sh = 0 → d ≠ 0) : base128 sh acc (b :: r) = base128 (sh + 1) (acc * 128 + d) r := by
  simp only [base128, hb]
  split_ifs <;> first | omega | (congr 1; omega)

theorem base128_last (sh acc : Nat) (b : UInt8) (r : Bytes) (d : Nat) (hb : b.toNat = d) (hd : d < 128)
    (h1 : sh < 5) (h2 : acc * 128 + d ≤ 2147483647) : base128 sh acc (b :: r) = .ok (acc * 128 + d, r) := by
  simp only [base128, hb]
  split_ifs <;> first | omega | (simp only [Res.ok.injEq, Prod.mk.injEq, and_true]; omega)

/-- `parseBase128Int` inverts `appendBase128Int` on `[0, 2^31)` -/
theorem base128_digits (n : Nat) (h : n ≤ 2147483647) (rest : Bytes) :
    base128 0 0 (base128Digits n ++ rest) = .ok (n, rest) := by
  unfold base128Digits
  have e0 : (UInt8.ofNat (n % 128)).toNat = n % 128 := toNat_ofNat_lt (by omega)
  by_cases c0 : n / 128 = 0
  · rw [c0, base128Hi_zero]
    simp only [List.nil_append, List.cons_append]
    rw [base128_last 0 0 _ _ _ e0 (by omega) (by omega) (by omega)]
    simp only [Res.ok.injEq, Prod.mk.injEq, and_true]; omega
  by_cases c1 : n / 128 < 128
  · rw [base128Hi_1 (by omega) c1]
    simp only [List.cons_append, List.nil_append]
    rw [base128_cont 0 0 _ _ (n / 128) (toNat_ofNat_lt (by omega)) (by omega) (by omega) (by omega),
      base128_last _ _ _ _ _ e0 (by omega) (by omega) (by omega)]
    simp only [Res.ok.injEq, Prod.mk.injEq, and_true]; omega
  by_cases c2 : n / 128 < 16384
  · rw [base128Hi_2 (by omega) c2]
    simp only [List.cons_append, List.nil_append]
    rw [base128_cont 0 0 _ _ (n / 128 / 128) (toNat_ofNat_lt (by omega)) (by omega) (by omega) (by omega),
      base128_cont _ _ _ _ (n / 128 % 128) (toNat_ofNat_lt (by omega)) (by omega) (by omega) (by omega),
      base128_last _ _ _ _ _ e0 (by omega) (by omega) (by omega)]
    simp only [Res.ok.injEq, Prod.mk.injEq, and_true]; omega
  by_cases c3 : n / 128 < 2097152
  · rw [base128Hi_3 (by omega) c3]
    simp only [List.cons_append, List.nil_append]
    rw [base128_cont 0 0 _ _ (n / 128 / 16384) (toNat_ofNat_lt (by omega)) (by omega) (by omega) (by omega),
      base128_cont _ _ _ _ (n / 128 / 128 % 128) (toNat_ofNat_lt (by omega)) (by omega) (by omega) (by omega),
      base128_cont _ _ _ _ (n / 128 % 128) (toNat_ofNat_lt (by omega)) (by omega) (by omega) (by omega),
      base128_last _ _ _ _ _ e0 (by omega) (by omega) (by omega)]
    simp only [Res.ok.injEq, Prod.mk.injEq, and_true]; omega
  · rw [base128Hi_4 (by omega) (by omega)]
    simp only [List.cons_append, List.nil_append]
    rw [base128_cont 0 0 _ _ (n / 128 / 2097152) (toNat_ofNat_lt (by omega)) (by omega) (by omega) (by omega),
      base128_cont _ _ _ _ (n / 128 / 16384 % 128) (toNat_ofNat_lt (by omega)) (by omega) (by omega) (by omega),
      base128_cont _ _ _ _ (n / 128 / 128 % 128) (toNat_ofNat_lt (by omega)) (by omega) (by omega) (by omega),
      base128_cont _ _ _ _ (n / 128 % 128) (toNat_ofNat_lt (by omega)) (by omega) (by omega) (by omega),
      base128_last _ _ _ _ _ e0 (by omega) (by omega) (by omega)]
    simp only [Res.ok.injEq, Prod.mk.injEq, and_true]; omega

theorem parseLenBytes_step (k acc : Nat) (b : UInt8) (r : Bytes) (d : Nat) (hb : b.toNat = d)
    (h1 : acc < 8388608) (h2 : acc * 256 + d ≠ 0) :
    parseLenBytes (k + 1) acc (b :: r) = parseLenBytes k (acc * 256 + d) r := by
  simp only [parseLenBytes, hb]
  split_ifs <;> first | omega | rfl

/-- the length octets: what `appendTagAndLength` writes for `n`, `parseTagAndLength` reads back as `n` -/
def lenOctets (n : Nat) : Bytes :=
  if n ≥ 128 then UInt8.ofNat (128 + (lengthBytes n).length) :: lengthBytes n else [UInt8.ofNat n]

/-- reading the length octets (the part of `parseTL` after the tag number) -/
def readLen (perm : Bool) (r2 : Bytes) : Res (Nat × Bytes) :=
  match r2 with
  | [] => .err
  | b2 :: r3 =>
    if b2.toNat < 128 then .ok (b2.toNat, r3)
    else if b2.toNat % 128 = 0 then .err
    else
      match parseLenBytes (b2.toNat % 128) 0 r3 with
      | .err => .err
      | .panic => .panic
      | .ok (len, r4) => if !perm && decide (len < 128) then .err else .ok (len, r4)

theorem parseTL_eq (perm : Bool) (b : UInt8) (r1 : Bytes) :
    parseTL perm (b :: r1) =
      match parseTagNum b r1 with
      | .err => .err
      | .panic => .panic
      | .ok (tag, r2) =>
        match readLen perm r2 with
        | .ok (len, r) => .ok ({ cls := b.toNat / 64, tag := tag, len := len, compound := b.toNat / 32 % 2 = 1 }, r)
        | .err => .err
        | .panic => .panic := by
  simp only [parseTL, readLen]
  cases parseTagNum b r1 with
  | err => rfl
  | panic => rfl
  | ok x =>
    obtain ⟨tag, r2⟩ := x
    cases r2 with
    | nil => rfl
    | cons b2 r3 =>
      simp only
      split_ifs
      · rfl
      · rfl
      · cases parseLenBytes (b2.toNat % 128) 0 r3 with
        | err => rfl
        | panic => rfl
        | ok y => obtain ⟨len, r4⟩ := y; simp only; split_ifs <;> rfl

theorem readLen_lenOctets (perm : Bool) (n : Nat) (h : n < 2147483648) (rest : Bytes) :
    readLen perm (lenOctets n ++ rest) = .ok (n, rest) := by
  unfold lenOctets lengthBytes
  by_cases c0 : n < 128
  · have e : (UInt8.ofNat n).toNat = n := toNat_ofNat_lt (by omega)
    simp only [show ¬ n ≥ 128 by omega, if_false, List.cons_append, List.nil_append, readLen, e]
    simp [c0]
  simp only [show n ≥ 128 by omega, if_true]
  by_cases c1 : n < 256
  · simp only [c1, if_true, List.length_singleton, List.cons_append, List.nil_append, readLen]
    rw [show (UInt8.ofNat (128 + 1)).toNat = 129 from rfl]
    simp only [show ¬ (129 < 128) by omega, if_false, show 129 % 128 = 1 from rfl, show ¬ (1 = 0) by omega]
    rw [parseLenBytes_step 0 0 _ _ n (toNat_ofNat_lt (by omega)) (by omega) (by omega)]
    simp only [parseLenBytes]
    cases perm <;> simp <;> (try split_ifs) <;> first | omega | (simp only [Res.ok.injEq, Prod.mk.injEq, and_true]; omega)
  simp only [c1, if_false]
  by_cases c2 : n < 65536
  · rw [natBytes_2 (by omega) c2]
    simp only [List.length_cons, List.length_nil, List.cons_append, List.nil_append, readLen]
    rw [show (UInt8.ofNat (128 + (0 + 1 + 1))).toNat = 130 from rfl]
    simp only [show ¬ (130 < 128) by omega, if_false, show 130 % 128 = 2 from rfl, show ¬ (2 = 0) by omega]
    rw [parseLenBytes_step 1 0 _ _ (n / 256) (toNat_ofNat_lt (by omega)) (by omega) (by omega),
      parseLenBytes_step 0 _ _ _ (n % 256) (toNat_ofNat_lt (by omega)) (by omega) (by omega)]
    simp only [parseLenBytes]
    cases perm <;> simp <;> (try split_ifs) <;> first | omega | (simp only [Res.ok.injEq, Prod.mk.injEq, and_true]; omega)
  by_cases c3 : n < 16777216
  · rw [natBytes_3 (by omega) c3]
    simp only [List.length_cons, List.length_nil, List.cons_append, List.nil_append, readLen]
    rw [show (UInt8.ofNat (128 + (0 + 1 + 1 + 1))).toNat = 131 from rfl]
    simp only [show ¬ (131 < 128) by omega, if_false, show 131 % 128 = 3 from rfl, show ¬ (3 = 0) by omega]
    rw [parseLenBytes_step 2 0 _ _ (n / 65536) (toNat_ofNat_lt (by omega)) (by omega) (by omega),
      parseLenBytes_step 1 _ _ _ (n / 256 % 256) (toNat_ofNat_lt (by omega)) (by omega) (by omega),
      parseLenBytes_step 0 _ _ _ (n % 256) (toNat_ofNat_lt (by omega)) (by omega) (by omega)]
    simp only [parseLenBytes]
    cases perm <;> simp <;> (try split_ifs) <;> first | omega | (simp only [Res.ok.injEq, Prod.mk.injEq, and_true]; omega)
  · rw [natBytes_4 (by omega) (by omega)]
    simp only [List.length_cons, List.length_nil, List.cons_append, List.nil_append, readLen]
    rw [show (UInt8.ofNat (128 + (0 + 1 + 1 + 1 + 1))).toNat = 132 from rfl]
    simp only [show ¬ (132 < 128) by omega, if_false, show 132 % 128 = 4 from rfl, show ¬ (4 = 0) by omega]
    rw [parseLenBytes_step 3 0 _ _ (n / 16777216) (toNat_ofNat_lt (by omega)) (by omega) (by omega),
      parseLenBytes_step 2 _ _ _ (n / 65536 % 256) (toNat_ofNat_lt (by omega)) (by omega) (by omega),
      parseLenBytes_step 1 _ _ _ (n / 256 % 256) (toNat_ofNat_lt (by omega)) (by omega) (by omega),
      parseLenBytes_step 0 _ _ _ (n % 256) (toNat_ofNat_lt (by omega)) (by omega) (by omega)]
    simp only [parseLenBytes]
    cases perm <;> simp <;> (try split_ifs) <;> first | omega | (simp only [Res.ok.injEq, Prod.mk.injEq, and_true]; omega)

theorem appendTL_eq (t : TL) :
    appendTL t = (if t.tag ≥ 31 then UInt8.ofNat ((t.cls % 4) * 64 + (if t.compound then 32 else 0) + 31) :: base128Digits t.tag
                  else [UInt8.ofNat ((t.cls % 4) * 64 + (if t.compound then 32 else 0) + t.tag)]) ++ lenOctets t.len := by
  unfold appendTL lenOctets appendBase128
  have h : ¬ ((t.tag : Int) < 0) := by omega
  simp only [h, if_false, Int.toNat_natCast]

/-- **header round trip**: `parseTagAndLength (appendTagAndLength t ++ rest) = (t, rest)` in both modes -/
theorem parseTL_appendTL (perm : Bool) (t : TL) (hc : t.cls < 4) (ht : t.tag ≤ 2147483647) (hl : t.len < 2147483648)
    (rest : Bytes) : parseTL perm (appendTL t ++ rest) = .ok (t, rest) := by
  rw [appendTL_eq]
  obtain ⟨cls, tag, len, comp⟩ := t
  simp only at hc ht hl ⊢
  have hcm : cls % 4 = cls := by omega
  by_cases h31 : tag ≥ 31
  · simp only [h31, if_true, List.cons_append, List.append_assoc]
    rw [parseTL_eq]
    have eb : (UInt8.ofNat (cls % 4 * 64 + (if comp = true then 32 else 0) + 31)).toNat
        = cls * 64 + (if comp = true then 32 else 0) + 31 := by
      rw [hcm]; apply toNat_ofNat_lt; split_ifs <;> omega
    simp only [parseTagNum, eb]
    have hm : (cls * 64 + (if comp = true then 32 else 0) + 31) % 32 = 31 := by split_ifs <;> omega
    simp only [hm, if_true]
    rw [base128_digits tag ht]
    simp only [show ¬ tag < 31 by omega, if_false]
    rw [readLen_lenOctets perm len hl]
    simp only [Res.ok.injEq, Prod.mk.injEq, and_true, TL.mk.injEq, true_and]
    refine ⟨by split_ifs <;> omega, ?_⟩
    cases comp <;> simp <;> omega
  · simp only [h31, if_false, List.cons_append, List.nil_append]
    rw [parseTL_eq]
    have eb : (UInt8.ofNat (cls % 4 * 64 + (if comp = true then 32 else 0) + tag)).toNat
        = cls * 64 + (if comp = true then 32 else 0) + tag := by
      rw [hcm]; apply toNat_ofNat_lt; split_ifs <;> omega
    simp only [parseTagNum, eb]
    have hm : (cls * 64 + (if comp = true then 32 else 0) + tag) % 32 = tag := by split_ifs <;> omega
    simp only [hm, show ¬ tag = 31 by omega, if_false]
    rw [readLen_lenOctets perm len hl]
    simp only [Res.ok.injEq, Prod.mk.injEq, and_true, TL.mk.injEq, true_and]
    refine ⟨by split_ifs <;> omega, ?_⟩
    cases comp <;> simp <;> omega

theorem appendTL_length_pos (t : TL) : 0 < (appendTL t).length := by
  rw [appendTL_eq]; split_ifs <;> simp

/-- parameters of the proved fragment: not both APPLICATION and PRIVATE, tag number < 2^31,
    `explicit` comes with a tag (as `parseFieldParameters` guarantees), a known string kind -/
structure Good (p : Params) : Prop where
  notBoth : ¬ (p.application = true ∧ p.priv = true)
  tagRange : ∀ tg, p.tag = some tg → tg ≤ 2147483647
  explicitTag : p.explicit = true → p.tag ≠ none
  strKind : p.stringType = 0 ∨ p.stringType = 12 ∨ p.stringType = 18 ∨ p.stringType = 19 ∨ p.stringType = 22

/-- the header the decoder finally matches for `wrap p tag comp body` -/
def innerTL (p : Params) (tag : Nat) (comp : Bool) (body : Bytes) : TL :=
  match p.tag with
  | some tg => if p.explicit then { cls := 0, tag := tag, len := body.length, compound := comp }
               else { cls := if p.application then 1 else if p.priv then 3 else 2, tag := tg, len := body.length, compound := comp }
  | none => { cls := 0, tag := tag, len := body.length, compound := comp }

/-- **tag stage round trip**: on Marshal's framing of a body, the decoder's header/explicit/implicit matching succeeds and
    hands exactly the body (and the untouched rest) to the type switch -/
theorem parsePre_wrap (perm : Bool) (s : Schema) (p : Params) (utag0 tag : Nat) (comp : Bool) (body rest : Bytes)
    (hu : univ s = some (false, utag0, comp)) (hg : Good p)
    (hlen : (wrap p tag comp body).length < 2147483648) (htag : tag ≤ 30)
    (hU : (p.tag = none ∨ p.explicit = true) → substTag p { cls := 0, tag := tag, len := body.length, compound := comp } utag0 = tag) :
    parsePre perm s p (wrap p tag comp body ++ rest) =
      .go (innerTL p tag comp body) (substTag p (innerTL p tag comp body) utag0) body rest := by
  have hraw : isRaw s = false := by cases s <;> simp_all [univ, isRaw]
  unfold wrap innerTL at *
  cases hpt : p.tag with
  | none =>
    simp only [hpt] at hlen hU ⊢
    have hne : p.explicit = false := by
      cases he : p.explicit with
      | false => rfl
      | true => exact absurd hpt (hg.explicitTag he)
    simp only [List.length_append] at hlen
    unfold parsePre
    rw [List.append_assoc, parseTL_appendTL perm _ (by simp) (by simp; omega) (by simp; omega)]
    simp only [explicitStage, hne, Bool.false_eq_true, if_false, matchStage, hu, expected, hpt]
    rw [hU (Or.inl trivial)]
    simp
  | some tg =>
    have htg := hg.tagRange tg hpt
    simp only [hpt] at hlen hU ⊢
    cases he : p.explicit with
    | true =>
      simp only [he, if_true] at hlen hU ⊢
      simp only [List.length_append] at hlen
      have hpos := appendTL_length_pos { cls := 0, tag := tag, len := body.length, compound := comp }
      unfold parsePre
      have hcls : (if p.application = true then 1 else if p.priv = true then 3 else 2) < 4 := by split_ifs <;> omega
      rw [List.append_assoc, parseTL_appendTL perm _ (by simpa using hcls) (by simpa using htg) (by simp; omega)]
      simp only [explicitStage, he, if_true, hpt, hraw, Bool.false_eq_true, if_false, List.length_append]
      simp only [true_and, or_true, if_true]
      have h1 : (appendTL { cls := 0, tag := tag, len := body.length, compound := comp }).length + body.length > 0 := by omega
      have h2 : (appendTL { cls := 0, tag := tag, len := body.length, compound := comp } ++ body ++ rest).isEmpty = false := by
        cases hh : appendTL { cls := 0, tag := tag, len := body.length, compound := comp } with
        | nil => rw [hh] at hpos; simp at hpos
        | cons a l => simp
      simp only [h1, if_true, h2, Bool.false_eq_true, if_false]
      rw [List.append_assoc, parseTL_appendTL perm _ (by simp) (by simp; omega) (by simp; omega)]
      simp only [matchStage, hu, expected, he, hpt]
      rw [hU (Or.inr trivial)]
      simp
    | false =>
      simp only [he, Bool.false_eq_true, if_false] at hlen ⊢
      simp only [List.length_append] at hlen
      unfold parsePre
      have hcls : (if p.application = true then 1 else if p.priv = true then 3 else 2) < 4 := by split_ifs <;> omega
      rw [List.append_assoc, parseTL_appendTL perm _ (by simpa using hcls) (by simpa using htg) (by simp; omega)]
      simp only [explicitStage, he, Bool.false_eq_true, if_false, matchStage, hu, expected, hpt]
      have hnb := hg.notBoth
      cases ha : p.application <;> cases hpv : p.priv <;> simp_all

theorem appendTL_append_isEmpty (t : TL) (x : Bytes) : (appendTL t ++ x).isEmpty = false := by
  have := appendTL_length_pos t
  cases h : appendTL t with
  | nil => rw [h] at this; simp at this
  | cons a l => simp

theorem wrap_nonempty (p : Params) (tag : Nat) (comp : Bool) (body : Bytes) : (wrap p tag comp body).isEmpty = false := by
  unfold wrap
  cases p.tag with
  | none => exact appendTL_append_isEmpty _ _
  | some tg =>
    simp only
    cases p.explicit
    · simp only [Bool.false_eq_true, if_false]; exact appendTL_append_isEmpty _ _
    · simp only [if_true]; exact appendTL_append_isEmpty _ _

theorem wrap_length_ge (p : Params) (tag : Nat) (comp : Bool) (body : Bytes) : body.length ≤ (wrap p tag comp body).length := by
  unfold wrap
  cases p.tag with
  | none => simp
  | some tg =>
    simp only
    cases p.explicit
    · simp
    · simp only [if_true, List.length_append]; omega

theorem append_isEmpty_false {a b : Bytes} (h : a.isEmpty = false) : (a ++ b).isEmpty = false := by
  cases a <;> simp_all

/-- without OPTIONAL and omitempty nothing is ever left out -/
theorem omitted_false (s : Schema) (p : Params) (v : Val) (h1 : p.optional = false) (h2 : p.omitEmpty = false) :
    omitted s p v = false := by
  unfold omitted; simp [h1, h2]

/-! ### content round trips -/

theorem isPrintable_weaken (b : UInt8) (x y : Bool) (h : isPrintable b x y = true) : isPrintable b true true = true := by
  unfold isPrintable at h ⊢
  generalize b.toNat = c at h ⊢
  cases x <;> cases y <;> simp at h ⊢ <;> omega

theorem all_printable_weaken (bs : Bytes) (x y : Bool) (h : bs.all (fun b => isPrintable b x y) = true) :
    bs.all (fun b => isPrintable b true true) = true := by
  rw [List.all_eq_true] at h ⊢
  intro b hb; exact isPrintable_weaken b x y (h b hb)


theorem prim_roundtrip_core (s : Schema) (p : Params) (v : Val) (utag0 tag : Nat) (body enc rest : Bytes)
    (hu : univ s = some (false, utag0, false)) (hg : Good p)
    (henc : enc = wrap p tag false body) (hlen : enc.length < 2147483648) (htag : tag ≤ 30)
    (hU : (p.tag = none ∨ p.explicit = true) → substTag p { cls := 0, tag := tag, len := body.length, compound := false } utag0 = tag)
    (hprim : ∀ full, parsePrim false s (substTag p (innerTL p tag false body) utag0) (innerTL p tag false body) body full = .ok v) :
    primField false s p (enc ++ rest) = .ok (v, rest) := by
  subst henc
  unfold primField
  rw [append_isEmpty_false (wrap_nonempty p tag false body)]
  simp only [Bool.false_eq_true, if_false]
  rw [parsePre_wrap false s p utag0 tag false body rest hu hg hlen htag hU]
  simp only [hprim]

/-- what a successful `primMake` produced -/
theorem primMake_ok (s : Schema) (p : Params) (v : Val) (enc : Bytes) (m : Bool) (utag0 : Nat) (comp : Bool)
    (hu : univ s = some (m, utag0, comp)) (homit : omitted s p v = false) (hm : primMake s p v = .ok enc) :
    ∃ tag body, marshalTag p utag0 v = some tag ∧
      p.set = false ∧ makePrimBody s p v = .ok body ∧ enc = wrap p tag comp body ∧ (p.stringType ≠ 0 → utag0 = 19) := by
  unfold primMake at hm
  rw [homit, hu] at hm
  simp only [Bool.false_eq_true, if_false] at hm
  by_cases h1 : p.timeType ≠ 0 ∧ utag0 ≠ 23
  · rw [if_pos h1] at hm; cases hm
  rw [if_neg h1] at hm
  by_cases h2 : p.stringType ≠ 0 ∧ utag0 ≠ 19
  · rw [if_pos h2] at hm; cases hm
  rw [if_neg h2] at hm
  cases hopt : marshalTag p utag0 v with
  | none => rw [hopt] at hm; cases hm
  | some tag =>
    rw [hopt] at hm
    simp only at hm
    cases hset : p.set with
    | true => rw [hset] at hm; simp at hm
    | false =>
      rw [hset] at hm
      simp only [Bool.false_eq_true, if_false] at hm
      cases hb : makePrimBody s p v with
      | err => rw [hb] at hm; cases hm
      | panic => rw [hb] at hm; cases hm
      | ok body =>
        rw [hb] at hm
        refine ⟨tag, body, rfl, rfl, rfl, ?_, ?_⟩
        · simpa using hm.symm
        · intro h; exact Decidable.byContradiction (fun hc => h2 ⟨h, hc⟩)

theorem bool_field_roundtrip (p : Params) (b : Bool) (enc rest : Bytes) (hg : Good p)
    (homit : omitted .bool p (.bool b) = false) (hm : primMake .bool p (.bool b) = .ok enc) (hlen : enc.length < 2147483648) :
    primField false .bool p (enc ++ rest) = .ok (.bool b, rest) := by
  obtain ⟨tag, body, htag, hset, hb, henc, _⟩ := primMake_ok .bool p _ enc false 1 false rfl homit hm
  simp only [marshalTag, show ¬ (1 = 19) by omega, if_false, Option.some.injEq] at htag
  subst htag
  simp only [makePrimBody, Res.ok.injEq] at hb
  subst hb
  refine prim_roundtrip_core .bool p (.bool b) 1 1 _ enc rest rfl hg henc hlen (by omega) ?_ ?_
  · intro _; simp [substTag, hset]
  · intro full; cases b <;> simp [parsePrim, parseBool]

theorem octets_field_roundtrip (p : Params) (bs : Bytes) (enc rest : Bytes) (hg : Good p)
    (homit : omitted .octets p (.bytes bs) = false) (hm : primMake .octets p (.bytes bs) = .ok enc) (hlen : enc.length < 2147483648) :
    primField false .octets p (enc ++ rest) = .ok (.bytes bs, rest) := by
  obtain ⟨tag, body, htag, hset, hb, henc, _⟩ := primMake_ok .octets p _ enc false 4 false rfl homit hm
  simp only [marshalTag, show ¬ (4 = 19) by omega, if_false, Option.some.injEq] at htag
  subst htag
  simp only [makePrimBody, Res.ok.injEq] at hb
  subst hb
  refine prim_roundtrip_core .octets p (.bytes bs) 4 4 _ enc rest rfl hg henc hlen (by omega) ?_ ?_
  · intro _; simp [substTag, hset]
  · intro full; simp [parsePrim]

theorem makeString_body (st : Nat) (bs body : Bytes) (h : makeString st bs = .ok body) : body = bs := by
  unfold makeString at h
  split_ifs at h <;> simp_all

theorem stringTag_cases (p : Params) (bs : Bytes) (tag : Nat) (h : stringTag p bs = some tag) :
    (p.stringType = 0 ∧ tag = 19 ∧ bs.all (fun b => decide (b.toNat < 128) && isPrintable b false false) = true) ∨
    (p.stringType = 0 ∧ tag = 12 ∧ utf8Valid bs = true) ∨ (p.stringType ≠ 0 ∧ tag = p.stringType) := by
  unfold stringTag at h
  by_cases h0 : p.stringType = 0
  · rw [if_pos h0] at h
    by_cases h1 : bs.all (fun b => decide (b.toNat < 128) && isPrintable b false false) = true
    · rw [if_pos h1] at h; exact Or.inl ⟨h0, by injection h with h; exact h.symm, h1⟩
    · rw [if_neg h1] at h
      by_cases h2 : utf8Valid bs = true
      · rw [if_pos h2] at h; exact Or.inr (Or.inl ⟨h0, by injection h with h; exact h.symm, h2⟩)
      · rw [if_neg h2] at h; cases h
  · rw [if_neg h0] at h; exact Or.inr (Or.inr ⟨h0, by injection h with h; exact h.symm⟩)

theorem all_and_printable (bs : Bytes) (h : bs.all (fun b => decide (b.toNat < 128) && isPrintable b false false) = true) :
    bs.all (fun b => isPrintable b true true) = true := by
  rw [List.all_eq_true] at h ⊢
  intro b hb
  have := h b hb
  simp only [Bool.and_eq_true] at this
  exact isPrintable_weaken b false false this.2

theorem makeString_checks (st : Nat) (bs body : Bytes) (h : makeString st bs = .ok body) :
    (st = 22 → bs.all (fun b => decide (b.toNat < 128)) = true) ∧
    (st = 19 → bs.all (fun b => isPrintable b true false) = true) ∧
    (st = 18 → bs.all isNumeric = true) := by
  unfold makeString at h
  refine ⟨fun h1 => ?_, fun h1 => ?_, fun h1 => ?_⟩ <;> subst h1
  · by_cases hc : (bs.all fun b => decide (b.toNat ≤ 127)) = true
    · rw [List.all_eq_true] at hc ⊢
      intro b hb; have := hc b hb; simp at this ⊢; omega
    · simp [hc] at h
  · by_cases hc : (bs.all fun b => isPrintable b true false) = true
    · exact hc
    · simp [hc] at h
  · by_cases hc : bs.all isNumeric = true
    · exact hc
    · simp [hc] at h

theorem substTag_inner (p : Params) (tag : Nat) (body : Bytes) (hset : p.set = false)
    (hk : tag = 19 ∨ tag = 18 ∨ tag = 22 ∨ tag = 12) (hst : p.stringType ≠ 0 → tag = p.stringType) :
    substTag p (innerTL p tag false body) 19 =
      if (p.tag ≠ none ∧ p.explicit = false) ∧ p.stringType = 0 then 19 else tag := by
  unfold substTag innerTL
  simp only [hset, Bool.false_eq_true, if_false, if_true, isOtherStringTag]
  cases hpt : p.tag with
  | none => simp only; rcases hk with h | h | h | h <;> subst h <;> simp
  | some tg =>
    cases he : p.explicit with
    | true => simp only [if_true]; rcases hk with h | h | h | h <;> subst h <;> simp
    | false =>
      simp only [Bool.false_eq_true, if_false]
      have hc : (if p.application = true then 1 else if p.priv = true then 3 else 2) ≠ 0 := by split_ifs <;> omega
      simp only [hc, if_false]
      by_cases h0 : p.stringType = 0
      · simp [h0]
      · simp [h0, hst h0]

theorem parseString_ok (utag : Nat) (bs : Bytes)
    (hk : utag = 19 ∨ utag = 18 ∨ utag = 22 ∨ utag = 12)
    (h19 : utag = 19 → bs.all (fun b => isPrintable b true true) = true)
    (h18 : utag = 18 → bs.all isNumeric = true)
    (h22 : utag = 22 → bs.all (fun b => decide (b.toNat < 128)) = true)
    (h12 : utag = 12 → utf8Valid bs = true) :
    parseString false utag bs = .ok (.bytes bs) := by
  unfold parseString parsePrintableString parseNumericString parseIA5String parseUTF8String
  rcases hk with h | h | h | h <;> subst h <;> simp_all

theorem str_field_roundtrip (p : Params) (bs : Bytes) (enc rest : Bytes) (hg : Good p) (hok : strOK p bs = true)
    (homit : omitted .str p (.bytes bs) = false) (hm : primMake .str p (.bytes bs) = .ok enc) (hlen : enc.length < 2147483648) :
    primField false .str p (enc ++ rest) = .ok (.bytes bs, rest) := by
  obtain ⟨tag, body, htag, hset, hb, henc, _⟩ := primMake_ok .str p _ enc false 19 false rfl homit hm
  simp only [marshalTag, if_true] at htag
  simp only [makePrimBody] at hb
  have hbody := makeString_body _ _ _ hb
  subst hbody
  have hcases := stringTag_cases p body tag htag
  have hkind := hg.strKind
  have htag30 : tag ≤ 30 := by omega
  refine prim_roundtrip_core .str p (.bytes body) 19 tag _ enc rest rfl hg henc hlen htag30 ?_ ?_
  · intro _
    simp only [substTag, hset, Bool.false_eq_true, if_false, if_true, isOtherStringTag]
    rcases hcases with ⟨_, ht, _⟩ | ⟨_, ht, _⟩ | ⟨h0, ht⟩
    · subst ht; simp
    · subst ht; simp
    · rcases hkind with h | h | h | h | h <;> simp_all
  · intro full
    simp only [parsePrim]
    have hmk := makeString_checks _ _ _ hb
    have hutf : p.stringType = 12 → utf8Valid body = true := by
      intro h; unfold strOK at hok; simp [h] at hok; exact hok
    have himp : p.stringType = 0 → p.tag ≠ none → p.explicit = false → body.all (fun b => isPrintable b true true) = true := by
      intro h1 h2 h3; unfold strOK at hok
      simp only [h1, h2, h3, show ¬ (0 = 12) by omega, if_false, Bool.true_and, ne_eq, not_false_eq_true, and_self, if_true] at hok
      exact hok
    have hk : tag = 19 ∨ tag = 18 ∨ tag = 22 ∨ tag = 12 := by omega
    have hst : p.stringType ≠ 0 → tag = p.stringType := by
      intro h; rcases hcases with ⟨h0, _, _⟩ | ⟨h0, _, _⟩ | ⟨_, ht⟩ <;> first | exact absurd h0 h | exact ht
    rw [substTag_inner p tag body hset hk hst]
    by_cases himpl : (p.tag ≠ none ∧ p.explicit = false) ∧ p.stringType = 0
    · rw [if_pos himpl]
      apply parseString_ok 19 body (Or.inl rfl) _ (by omega) (by omega) (by omega)
      intro _
      rcases hcases with ⟨_, _, hp⟩ | ⟨_, _, _⟩ | ⟨h0, _⟩
      · exact all_and_printable _ hp
      · exact himp himpl.2 himpl.1.1 himpl.1.2
      · exact absurd himpl.2 h0
    · rw [if_neg himpl]
      apply parseString_ok tag body hk
      · intro h
        rcases hcases with ⟨_, _, hp⟩ | ⟨_, ht, _⟩ | ⟨h0, ht⟩
        · exact all_and_printable _ hp
        · omega
        · exact all_printable_weaken _ _ _ (hmk.2.1 (by omega))
      · intro h
        rcases hcases with ⟨_, ht, _⟩ | ⟨_, ht, _⟩ | ⟨h0, ht⟩
        · omega
        · omega
        · exact hmk.2.2 (by omega)
      · intro h
        rcases hcases with ⟨_, ht, _⟩ | ⟨_, ht, _⟩ | ⟨h0, ht⟩
        · omega
        · omega
        · exact hmk.1 (by omega)
      · intro h
        rcases hcases with ⟨_, ht, _⟩ | ⟨_, _, hv⟩ | ⟨h0, ht⟩
        · omega
        · exact hv
        · exact hutf (by omega)

/-- signed big-endian value: first byte signed, then base-256 digits -/
def sval : Bytes → Int
  | [] => 0
  | b :: r => r.foldl (fun a x => a * 256 + (x.toNat : Int)) (if b.toNat ≥ 128 then (b.toNat : Int) - 256 else b.toNat)

theorem byteOfInt_toNat (i : Int) : ((byteOfInt i).toNat : Int) = i % 256 := by
  unfold byteOfInt
  rw [toNat_ofNat_lt (by omega)]
  omega

theorem sval_append (l : Bytes) (x : UInt8) (h : l ≠ []) : sval (l ++ [x]) = sval l * 256 + x.toNat := by
  cases l with
  | nil => exact absurd rfl h
  | cons b r => simp [sval, List.foldl_append]

theorem encInt64_ne_nil (i : Int) : encInt64 i ≠ [] := by
  rw [encInt64]; split_ifs <;> simp

theorem sval_encInt64 (i : Int) : sval (encInt64 i) = i := by
  induction i using encInt64.induct with
  | case1 i h =>
    rw [encInt64, if_pos h]
    have := byteOfInt_toNat i
    simp only [sval, List.foldl_nil]
    split_ifs <;> omega
  | case2 i h ih =>
    rw [encInt64, if_neg h, sval_append _ _ (encInt64_ne_nil _), ih, byteOfInt_toNat]
    omega

theorem parseInt64_sval (bs : Bytes) (hc : checkInteger false bs = true) (hl : bs.length ≤ 8) :
    parseInt64 false bs = .ok (sval bs) := by
  unfold parseInt64
  simp only [hc, Bool.not_true, Bool.false_eq_true, if_false, show ¬ (bs.length > 8) by omega]
  match bs, hl with
  | [], _ => simp [checkInteger] at hc
  | [a], _ =>
    have := a.toNat_lt
    simp only [beNat, List.foldl, sval, List.length]
    norm_num
    split_ifs <;> first | omega | (simp only [Res.ok.injEq]; try omega)
  | [a, b], _ =>
    have := a.toNat_lt; have := b.toNat_lt
    simp only [beNat, List.foldl, sval, List.length]
    norm_num
    split_ifs <;> first | omega | (simp only [Res.ok.injEq]; try omega)
  | [a, b, c], _ =>
    have := a.toNat_lt; have := b.toNat_lt; have := c.toNat_lt
    simp only [beNat, List.foldl, sval, List.length]
    norm_num
    split_ifs <;> first | omega | (simp only [Res.ok.injEq]; try omega)
  | [a, b, c, d], _ =>
    have := a.toNat_lt; have := b.toNat_lt; have := c.toNat_lt; have := d.toNat_lt
    simp only [beNat, List.foldl, sval, List.length]
    norm_num
    split_ifs <;> first | omega | (simp only [Res.ok.injEq]; try omega)
  | [a, b, c, d, e], _ =>
    have := a.toNat_lt; have := b.toNat_lt; have := c.toNat_lt; have := d.toNat_lt; have := e.toNat_lt
    simp only [beNat, List.foldl, sval, List.length]
    norm_num
    split_ifs <;> first | omega | (simp only [Res.ok.injEq]; try omega)
  | [a, b, c, d, e, f], _ =>
    have := a.toNat_lt; have := b.toNat_lt; have := c.toNat_lt; have := d.toNat_lt; have := e.toNat_lt; have := f.toNat_lt
    simp only [beNat, List.foldl, sval, List.length]
    norm_num
    split_ifs <;> first | omega | (simp only [Res.ok.injEq]; try omega)
  | [a, b, c, d, e, f, g], _ =>
    have := a.toNat_lt; have := b.toNat_lt; have := c.toNat_lt; have := d.toNat_lt; have := e.toNat_lt; have := f.toNat_lt; have := g.toNat_lt
    simp only [beNat, List.foldl, sval, List.length]
    norm_num
    split_ifs <;> first | omega | (simp only [Res.ok.injEq]; try omega)
  | [a, b, c, d, e, f, g, h], _ =>
    have := a.toNat_lt; have := b.toNat_lt; have := c.toNat_lt; have := d.toNat_lt; have := e.toNat_lt; have := f.toNat_lt; have := g.toNat_lt; have := h.toNat_lt
    simp only [beNat, List.foldl, sval, List.length]
    norm_num
    split_ifs <;> first | omega | (simp only [Res.ok.injEq]; try omega)
  | _ :: _ :: _ :: _ :: _ :: _ :: _ :: _ :: _ :: _, h =>
    simp only [List.length_cons] at h; omega
theorem encInt64_len_step (B : Int) (n : Nat)
    (h : ∀ j, -B ≤ j → j < B → (encInt64 j).length ≤ n) :
    ∀ i, -(256 * B) ≤ i → i < 256 * B → (encInt64 i).length ≤ n + 1 := by
  intro i h1 h2
  rw [encInt64]
  split_ifs
  · simp
  · simp only [List.length_append, List.length_singleton]
    have := h (i / 256) (by omega) (by omega)
    omega

theorem encInt64_len8 (i : Int) (h1 : -9223372036854775808 ≤ i) (h2 : i < 9223372036854775808) :
    (encInt64 i).length ≤ 8 := by
  have l1 : ∀ j : Int, -128 ≤ j → j < 128 → (encInt64 j).length ≤ 1 := by
    intro j a b; rw [encInt64, if_pos (by omega)]; simp
  have l2 := encInt64_len_step 128 1 l1
  have l3 := encInt64_len_step (256 * 128) 2 l2
  have l4 := encInt64_len_step (256 * (256 * 128)) 3 l3
  have l5 := encInt64_len_step (256 * (256 * (256 * 128))) 4 l4
  have l6 := encInt64_len_step (256 * (256 * (256 * (256 * 128)))) 5 l5
  have l7 := encInt64_len_step (256 * (256 * (256 * (256 * (256 * 128))))) 6 l6
  have l8 := encInt64_len_step (256 * (256 * (256 * (256 * (256 * (256 * 128)))))) 7 l7
  exact l8 i (by omega) (by omega)

theorem encInt64_single (j : Int) (b : UInt8) (h : encInt64 j = [b]) : -128 ≤ j ∧ j ≤ 127 ∧ b = byteOfInt j := by
  rw [encInt64] at h
  split_ifs at h with hc
  · simp at h; exact ⟨hc.1, hc.2, h.symm⟩
  · have := congrArg List.length h
    have hne := encInt64_ne_nil (j / 256)
    cases hl : encInt64 (j / 256) with
    | nil => exact absurd hl hne
    | cons a r => rw [hl] at this; simp at this

theorem encInt64_minimal (i : Int) : checkInteger false (encInt64 i) = true := by
  induction i using encInt64.induct with
  | case1 i h => rw [encInt64, if_pos h]; rfl
  | case2 i h ih =>
    rw [encInt64, if_neg h]
    cases hl : encInt64 (i / 256) with
    | nil => exact absurd hl (encInt64_ne_nil _)
    | cons b0 r =>
      cases r with
      | nil =>
        obtain ⟨h1, h2, hb⟩ := encInt64_single _ _ hl
        have e0 := byteOfInt_toNat (i / 256)
        have e1 := byteOfInt_toNat i
        rw [← hb] at e0
        have hno : ¬((b0.toNat = 0 ∧ (byteOfInt i).toNat < 128) ∨ (b0.toNat = 255 ∧ (byteOfInt i).toNat ≥ 128)) := by omega
        simp [checkInteger, hno]
      | cons b1 r' =>
        rw [hl] at ih
        simpa [checkInteger] using ih

/-- **INTEGER content round trip** for every int64 -/
theorem parseInt64_encInt64 (i : Int) (h1 : -9223372036854775808 ≤ i) (h2 : i < 9223372036854775808) :
    parseInt64 false (encInt64 i) = .ok i := by
  rw [parseInt64_sval _ (encInt64_minimal i) (encInt64_len8 i h1 h2), sval_encInt64]

theorem parseInt32_encInt64 (i : Int) (h1 : -2147483648 ≤ i) (h2 : i ≤ 2147483647) :
    parseInt32 false (encInt64 i) = .ok i := by
  unfold parseInt32
  rw [encInt64_minimal i, parseInt64_encInt64 i (by omega) (by omega)]
  simp only [Bool.not_true, Bool.false_eq_true, if_false]
  rw [if_neg (by omega)]

theorem int64_field_roundtrip (p : Params) (i : Int) (enc rest : Bytes) (hg : Good p)
    (h1 : -9223372036854775808 ≤ i) (h2 : i < 9223372036854775808)
    (homit : omitted .int64 p (.int i) = false) (hm : primMake .int64 p (.int i) = .ok enc) (hlen : enc.length < 2147483648) :
    primField false .int64 p (enc ++ rest) = .ok (.int i, rest) := by
  obtain ⟨tag, body, htag, hset, hb, henc, _⟩ := primMake_ok .int64 p _ enc false 2 false rfl homit hm
  simp only [marshalTag, show ¬ (2 = 19) by omega, if_false, Option.some.injEq] at htag
  subst htag
  simp only [makePrimBody, Res.ok.injEq] at hb
  subst hb
  refine prim_roundtrip_core .int64 p (.int i) 2 2 _ enc rest rfl hg henc hlen (by omega) ?_ ?_
  · intro _; simp [substTag, hset]
  · intro full; simp [parsePrim, parseInt64_encInt64 i h1 h2, resInt]

theorem int32_field_roundtrip (p : Params) (i : Int) (enc rest : Bytes) (hg : Good p)
    (h1 : -2147483648 ≤ i) (h2 : i ≤ 2147483647)
    (homit : omitted .int32 p (.int i) = false) (hm : primMake .int32 p (.int i) = .ok enc) (hlen : enc.length < 2147483648) :
    primField false .int32 p (enc ++ rest) = .ok (.int i, rest) := by
  obtain ⟨tag, body, htag, hset, hb, henc, _⟩ := primMake_ok .int32 p _ enc false 2 false rfl homit hm
  simp only [marshalTag, show ¬ (2 = 19) by omega, if_false, Option.some.injEq] at htag
  subst htag
  simp only [makePrimBody, Res.ok.injEq] at hb
  subst hb
  refine prim_roundtrip_core .int32 p (.int i) 2 2 _ enc rest rfl hg henc hlen (by omega) ?_ ?_
  · intro _; simp [substTag, hset]
  · intro full; simp [parsePrim, parseInt32_encInt64 i h1 h2, resInt]

theorem enum_field_roundtrip (p : Params) (i : Int) (enc rest : Bytes) (hg : Good p)
    (h1 : -2147483648 ≤ i) (h2 : i ≤ 2147483647)
    (homit : omitted .enum p (.int i) = false) (hm : primMake .enum p (.int i) = .ok enc) (hlen : enc.length < 2147483648) :
    primField false .enum p (enc ++ rest) = .ok (.int i, rest) := by
  obtain ⟨tag, body, htag, hset, hb, henc, _⟩ := primMake_ok .enum p _ enc false 10 false rfl homit hm
  simp only [marshalTag, show ¬ (10 = 19) by omega, if_false, Option.some.injEq] at htag
  subst htag
  simp only [makePrimBody, Res.ok.injEq] at hb
  subst hb
  refine prim_roundtrip_core .enum p (.int i) 10 10 _ enc rest rfl hg henc hlen (by omega) ?_ ?_
  · intro _; simp [substTag, hset]
  · intro full; simp [parsePrim, parseInt32_encInt64 i h1 h2, resInt]

end ZV.C18
