import ZV.Proofs.C21
import ZV.Proofs.Der0Enc
/-!
  write → read lemmas for the ASN.1 leaf operations of C21: every `ReadASN1…` reader returns exactly
  what the matching `AddASN1…` builder method wrote, and leaves exactly the tail.
-/
open ZV ZV.Der0
namespace ZV.C21

/-- the sub-identifiers `AddASN1ObjectIdentifier` writes: `40·a + b`, then every further arc. -/
def oidSubIds : List Nat → List Nat
  | a :: b :: rest => (a * 40 + b) :: rest
  | _ => []

theorem element_length {tag : UInt8} {body pre : Bytes} (h : CB.element tag body = .ok pre) :
    pre.length ≤ body.length + 6 := by
  unfold CB.element at h
  split at h
  · simp at h
  · rcases derLength_cases body.length with ⟨_, hd⟩ | ⟨k, lb, _, hk4, _, _, _, _, hd⟩ | ⟨_, hd⟩
    · rw [hd] at h; simp only [Res.ok.injEq] at h; subst h; simp
    · rw [hd] at h; simp only [Res.ok.injEq] at h; subst h; simp [beBytes_length]; omega
    · rw [hd] at h; simp at h

theorem element_head {tag : UInt8} {body pre : Bytes} (h : CB.element tag body = .ok pre) :
    ∃ r, pre = tag :: r := by
  unfold CB.element at h
  split at h
  · simp at h
  · split at h
    · simp only [Res.ok.injEq] at h; exact ⟨_, h.symm⟩
    · simp at h
    · simp at h

theorem peekTag_element {tag : UInt8} {body pre : Bytes} (t : Bytes) (h : CB.element tag body = .ok pre) :
    peekTag (pre ++ t) tag = true := by
  obtain ⟨r, hr⟩ := element_head h
  subst hr
  simp [peekTag]

/-! ### INTEGER -/

theorem signedContent_length (v : Int) : (CB.signedContent v).length = intLen v := by
  simp [CB.signedContent, intBytes_length]

/-- `ReadASN1Int64WithTag` / `ReadASN1Integer(*int64)` / `ReadASN1Enum` after `addASN1Signed`. -/
theorem readInt64Tag_back (tag : UInt8) (v : Int) (pre t : Bytes)
    (h : CB.addASN1Int64Tag tag v = .ok pre)
    (h1 : -9223372036854775808 ≤ v) (h2 : v ≤ 9223372036854775807) :
    CB.readInt64Tag (pre ++ t) tag = .ok (v, t) := by
  have hl := intLen_int64 h1 h2
  have hsl := signedContent_length v
  unfold CB.addASN1Int64Tag at h
  unfold CB.readInt64Tag
  rw [readASN1Tag_back tag _ pre t h (by omega)]
  have hc : checkInteger (CB.signedContent v) = true := checkInteger_intBytes v
  have ht : twos (CB.signedContent v) = v := twos_intBytes v
  have h8 : ¬ (CB.signedContent v).length > 8 := by omega
  simp [hc, CB.asn1Signed, h8, ht]

/-- `ReadASN1Integer(*uint64)` after `AddASN1Uint64`. -/
theorem readUint64_back (v : Nat) (pre t : Bytes) (h : CB.addASN1Uint64 v = .ok pre)
    (hr : v < 18446744073709551616) : CB.readUint64 (pre ++ t) = .ok (v, t) := by
  have hcont : CB.unsignedContent v = intBytes (v : Int) (intLen (v : Int)) := by
    rw [CB.unsignedContent, uintLen_eq_intLen']
  have hl : intLen (v : Int) ≤ 9 := by
    have := intLen_le 8 (v : Int) (by norm_num) (by norm_num; omega)
    omega
  have hlen : (CB.unsignedContent v).length = intLen (v : Int) := by rw [hcont, intBytes_length]
  unfold CB.addASN1Uint64 at h
  unfold CB.readUint64
  rw [readASN1Tag_back 2 _ pre t h (by omega)]
  have hc : checkInteger (CB.unsignedContent v) = true := by rw [hcont]; exact checkInteger_intBytes _
  have ht : twos (CB.unsignedContent v) = (v : Int) := by rw [hcont]; exact twos_intBytes _
  have hpos := intLen_pos (v : Int)
  match hm : CB.unsignedContent v with
  | [] => rw [hm] at hlen; simp at hlen; omega
  | a :: tl =>
    rw [hm] at hc ht hlen
    obtain ⟨ha, hnat⟩ := twos_nonneg_head (a := a) (t := tl) (by rw [ht]; omega)
    have hval : natOfBytes (a :: tl) = v := by
      have : (natOfBytes (a :: tl) : Int) = (v : Int) := by rw [← hnat, ht]
      exact_mod_cast this
    have h9 : ¬ ((a :: tl).length > 9 ∨ ((a :: tl).length = 9 ∧ a ≠ 0)) := by
      intro hcon
      rcases hcon with hgt | ⟨h9, hne⟩
      · omega
      · have hcons := natOfBytes_cons a tl
        have htl : tl.length = 8 := by simpa using h9
        rw [htl, hval] at hcons
        have : a.toNat = 0 := by
          by_contra hnz
          have : 1 ≤ a.toNat := by omega
          have := Nat.mul_le_mul_right (256 ^ 8) this
          omega
        exact hne ((uint8_eq_zero_iff a).2 this)
    have h128 : ¬ a.toNat ≥ 128 := by omega
    have h9' : ¬ (9 < tl.length + 1 ∨ tl.length = 8 ∧ ¬ a = 0) := by simpa using h9
    simp [hc, CB.asn1Unsigned, h9', h128, hval]

/-- `ReadASN1Integer(*big.Int)` after `AddASN1BigInt`, any magnitude. -/
theorem readBigInt_back (v : Int) (pre t : Bytes) (h : CB.addASN1BigInt v = .ok pre)
    (hsz : (bigIntBytes v).length < 4294967290) : CB.readBigInt (pre ++ t) = .ok (v, t) := by
  unfold CB.addASN1BigInt at h
  unfold CB.readBigInt
  rw [readASN1Tag_back 2 _ pre t h hsz]
  have hc : checkInteger (bigIntBytes v) = true := by rw [bigIntBytes_eq]; exact checkInteger_intBytes v
  have ht : bigOfBytes (bigIntBytes v) = v := by
    rw [bigOfBytes_eq_twos, bigIntBytes_eq]; exact twos_intBytes v
  simp [hc, ht]

/-! ### BOOLEAN, BIT STRING -/

theorem readBool_back (v : Bool) (pre t : Bytes) (h : CB.addASN1Boolean v = .ok pre) :
    CB.readBool (pre ++ t) = .ok (v, t) := by
  unfold CB.addASN1Boolean at h
  have hsz : (boolContent v).length < 4294967290 := by cases v <;> simp [boolContent]
  have hv : boolOfContent (boolContent v) = .ok v := by cases v <;> simp [boolContent, boolOfContent]
  simp only [CB.readBool, readASN1Tag_back 1 (boolContent v) pre t h hsz, hv]

/-- `ReadASN1BitString` after `AddASN1BitString` (whole bytes, no unused bits). -/
theorem readBitString_back (bs pre t : Bytes) (h : CB.addASN1BitString 0 bs = .ok pre)
    (hsz : bs.length + 1 < 4294967290) :
    CB.readBitString (pre ++ t) = .ok ({ bitLength := (bs.length : Int) * 8, bytes := bs }, t) := by
  unfold CB.addASN1BitString at h
  unfold CB.readBitString
  rw [readASN1Tag_back 3 _ pre t h (by simpa using hsz)]
  simp [Nat.mod_one]

/-! ### OBJECT IDENTIFIER -/

theorem splitFirst_valid {a b : Nat} {rest : List Nat} (h : CB.isValidOID (a :: b :: rest) = true) :
    splitFirst (a * 40 + b) = [a, b] := by
  simp only [CB.isValidOID, Bool.not_eq_true', Bool.or_eq_false_iff, Bool.and_eq_false_iff,
    decide_eq_false_iff_not] at h
  unfold splitFirst
  split
  · have ha : a ≤ 1 := by omega
    have hb : b < 40 := by omega
    have e1 : (a * 40 + b) / 40 = a := by omega
    have e2 : (a * 40 + b) % 40 = b := by omega
    rw [e1, e2]
  · have ha : a = 2 := by omega
    subst ha
    have : 2 * 40 + b - 80 = b := by omega
    rw [this]

/-- `ReadASN1ObjectIdentifier` after `AddASN1ObjectIdentifier`, provided every sub-identifier is
    below 2^31 (the reader's limit: at most 5 groups, and `ret < 2^24` before every shift). -/
theorem readOID_back (o : List Nat) (pre t : Bytes) (h : CB.addASN1OID o = .ok pre)
    (hsub : ∀ x ∈ oidSubIds o, x < 2147483648) (hsz : (oidBody o).length < 4294967290) :
    CB.readOID (pre ++ t) = .ok (o, t) := by
  unfold CB.addASN1OID at h
  split at h
  · simp at h
  · rename_i hv
    have hvalid : CB.isValidOID o = true := by simpa using hv
    match o, hvalid with
    | a :: b :: rest, hvalid =>
      unfold CB.readOID
      rw [readASN1Tag_back 6 _ pre t h hsz]
      simp only [oidBody]
      have hne := appendBase128_ne_nil (a * 40 + b)
      have hfirst := CB.readBase128Int_back (a * 40 + b) (hsub _ (by simp [oidSubIds]))
        (rest.map appendBase128).flatten
      have harcs := CB.oidArcs_back rest (fun w hw => hsub w (by simp [oidSubIds, hw]))
        ((rest.map appendBase128).flatten).length (Nat.le_refl _)
      match hm : appendBase128 (a * 40 + b), hne with
      | x :: xs, _ =>
        rw [hm] at hfirst
        simp only [List.cons_append] at hfirst ⊢
        simp only [hfirst, harcs, splitFirst_valid hvalid, List.cons_append, List.nil_append]

/-- … and rejects it as soon as one sub-identifier is ≥ 2^31 (finding F-C21-oid-arc-2^31). -/
theorem readOID_big (o : List Nat) (pre t : Bytes) (h : CB.addASN1OID o = .ok pre)
    (hbig : ∃ x ∈ oidSubIds o, 2147483648 ≤ x) (hsz : (oidBody o).length < 4294967290) :
    CB.readOID (pre ++ t) = .err := by
  unfold CB.addASN1OID at h
  split at h
  · simp at h
  · rename_i hv
    have hvalid : CB.isValidOID o = true := by simpa using hv
    match o, hvalid with
    | a :: b :: rest, hvalid =>
      unfold CB.readOID
      rw [readASN1Tag_back 6 _ pre t h hsz]
      simp only [oidBody]
      have hne := appendBase128_ne_nil (a * 40 + b)
      match hm : appendBase128 (a * 40 + b), hne with
      | x :: xs, _ =>
        by_cases hfirst : 2147483648 ≤ a * 40 + b
        · have hf := CB.readBase128Int_big (a * 40 + b) hfirst (rest.map appendBase128).flatten
          rw [hm] at hf
          simp only [List.cons_append] at hf ⊢
          simp only [hf]
        · have hf := CB.readBase128Int_back (a * 40 + b) (by omega) (rest.map appendBase128).flatten
          rw [hm] at hf
          have hrest : ∃ w ∈ rest, 2147483648 ≤ w := by
            obtain ⟨w, hw, hwb⟩ := hbig
            simp only [oidSubIds] at hw
            rcases List.mem_cons.mp hw with rfl | hw'
            · exact absurd hwb hfirst
            · exact ⟨w, hw', hwb⟩
          have harcs := CB.oidArcs_big rest hrest ((rest.map appendBase128).flatten).length (Nat.le_refl _)
          simp only [List.cons_append] at hf ⊢
          simp only [hf, harcs]

/-! ### optional readers, tag present -/

theorem readOptionalASN1_present (tag : UInt8) (body pre t : Bytes) (h : CB.element tag body = .ok pre)
    (hsz : body.length < 4294967290) : readOptionalASN1 (pre ++ t) tag = .ok (some body, t) := by
  simp only [readOptionalASN1, peekTag_element t h, if_true, readASN1Tag_back tag body pre t h hsz]

theorem readOptionalInt_present (tag : UInt8) (v d : Int) (inner pre t : Bytes)
    (hi : CB.addASN1Int64 v = .ok inner) (h : CB.element tag inner = .ok pre)
    (h1 : -9223372036854775808 ≤ v) (h2 : v ≤ 9223372036854775807) :
    readOptionalInt (pre ++ t) tag d = .ok (v, t) := by
  have hil : inner.length ≤ (CB.signedContent v).length + 6 := element_length hi
  have hl := intLen_int64 h1 h2
  rw [signedContent_length] at hil
  have hrd := readInt64Tag_back 2 v inner [] hi h1 h2
  simp only [List.append_nil] at hrd
  simp only [readOptionalInt, readOptionalASN1_present tag inner pre t h (by omega), CB.readInt64, hrd,
    List.isEmpty_nil, if_true]

theorem readOptionalOctets_present (tag : UInt8) (bs inner pre t : Bytes)
    (hi : CB.element 4 bs = .ok inner) (h : CB.element tag inner = .ok pre)
    (hsz : bs.length < 4294967290) (hsz2 : inner.length < 4294967290) :
    readOptionalOctets (pre ++ t) tag = .ok (some bs, t) := by
  have hrd := readASN1Tag_back 4 bs inner [] hi hsz
  simp only [List.append_nil] at hrd
  simp only [readOptionalOctets, readOptionalASN1_present tag inner pre t h hsz2, hrd,
    List.isEmpty_nil, if_true]

theorem readOptionalBool_present (v d : Bool) (pre t : Bytes) (h : CB.addASN1Boolean v = .ok pre) :
    readOptionalBool (pre ++ t) d = .ok (v, t) := by
  have hp : peekTag (pre ++ t) 1 = true := peekTag_element t h
  simp only [readOptionalBool, hp, Bool.not_true, Bool.false_eq_true, if_false, readBool_back v pre t h]

/-! ### the ingredients of the predicate `readable` (ZV/Props/C21.lean) -/

/-- an ASN.1 body the reader can accept: shorter than 2^32 - 6 bytes (`readASN1`'s uint32 guard). -/
def bodyFits (r : Res Bytes) : Bool :=
  match r with
  | .ok c => decide (c.length < 4294967290)
  | _ => true

/-- the byte that follows an absent optional field is not the field's tag. -/
def nextIsNot (tag : UInt8) (r : Res Bytes) (tail : Bytes) : Bool :=
  match r with
  | .ok y => !peekTag (y ++ tail) tag
  | _ => true

def int64Range (v : Int) : Bool := decide (-9223372036854775808 ≤ v ∧ v ≤ 9223372036854775807)

/-- every sub-identifier written for the OID is below 2^31 (what `readBase128Int` can return). -/
def oidInRange (o : List Nat) : Bool := (oidSubIds o).all (fun x => decide (x < 2147483648))

theorem bodyFits_ok {r : Res Bytes} {c : Bytes} (h : bodyFits r = true) (hr : r = .ok c) :
    c.length < 4294967290 := by
  subst hr; simpa [bodyFits] using h

theorem nextIsNot_ok {tag : UInt8} {r : Res Bytes} {tail y : Bytes} (h : nextIsNot tag r tail = true)
    (hr : r = .ok y) : peekTag (y ++ tail) tag = false := by
  subst hr; simpa [nextIsNot] using h

theorem int64Range_ok {v : Int} (h : int64Range v = true) :
    -9223372036854775808 ≤ v ∧ v ≤ 9223372036854775807 := by
  simpa [int64Range] using h

theorem elementR_ok {tag : UInt8} {r : Res Bytes} {x : Bytes} (h : elementR tag r = .ok x) :
    ∃ c, r = .ok c ∧ CB.element tag c = .ok x := by
  unfold elementR at h
  split at h
  · exact ⟨_, rfl, h⟩
  · simp at h
  · simp at h

theorem inline_ok {rb rk : Bytes → Res (List Val × Bytes)} {s mid tail : Bytes} {vs ws : List Val}
    (hb : rb s = .ok (vs, mid)) (hk : rk mid = .ok (ws, tail)) :
    inline rb rk s = .ok (vs ++ ws, tail) := by
  simp [inline, hb, hk]

/-! ### the alternative readers -/

/-- `readASN1` (the common core of ReadASN1 / ReadASN1Element / ReadAnyASN1 / ReadAnyASN1Element / SkipASN1) on an
    element the Builder wrote: tag, body and remainder are the written ones. -/
theorem readASN1_back (tag : UInt8) (body pre t : Bytes) (h : CB.element tag body = .ok pre)
    (hsz : body.length < 4294967290) :
    ∃ e, CB.readASN1 (pre ++ t) = .ok e ∧ e.tag = tag ∧ e.body = body ∧ e.rest = t := by
  have hb := readASN1Tag_back tag body pre t h hsz
  unfold CB.readASN1Tag at hb
  split at hb
  · rename_i e he
    split at hb
    · simp at hb
    · rename_i htag
      simp only [Res.ok.injEq, Prod.mk.injEq] at hb
      exact ⟨e, he, by simpa using htag, hb.1, hb.2⟩
  · simp at hb
  · simp at hb

theorem consumed_append (pre t : Bytes) : consumed (pre ++ t) t = pre := by
  simp [consumed]

/-- what an alternative reader needs: the ASN.1 body passes `readASN1`'s uint32 guard; an ABSENT element
    skipped by `SkipOptionalASN1` is followed by a byte different from its tag. -/
def altReadable (a : Alt) (r : Res Bytes) (tail : Bytes) : Bool :=
  match a with
  | .skip _ => true
  | .copy _ => true
  | .elem _ b => decide (b.length < 4294967290)
  | .any _ b => decide (b.length < 4294967290)
  | .anyElem _ b => decide (b.length < 4294967290)
  | .skipAsn1 _ b => decide (b.length < 4294967290)
  | .skipOpt _ b => decide (b.length < 4294967290)
  | .noSkipOpt tag => nextIsNot tag r tail
  | .bitsBytes b => decide (b.length + 1 < 4294967290)

theorem altRead_back (a : Alt) (r : Res Bytes) (x y tail : Bytes) (h : altSer a = .ok x) (hr : r = .ok y)
    (ha : altReadable a r tail = true) : altRead a (x ++ (y ++ tail)) = .ok (altVal a, y ++ tail) := by
  cases a with
  | skip bs =>
    simp only [altSer, Res.ok.injEq] at h; subst h
    simp only [altRead, readBytes_append, altVal]
  | copy bs =>
    simp only [altSer, Res.ok.injEq] at h; subst h
    simp only [altRead, readBytes_append, altVal]
  | elem tag bs =>
    simp only [altReadable, decide_eq_true_eq] at ha
    obtain ⟨e, he, h1, _, h3⟩ := readASN1_back tag bs x (y ++ tail) h ha
    simp only [altSer] at h
    simp only [altRead, he, h1, ne_eq, not_true_eq_false, if_false, h3, consumed_append, altVal, elemBytes, h]
  | any tag bs =>
    simp only [altReadable, decide_eq_true_eq] at ha
    obtain ⟨e, he, h1, h2, h3⟩ := readASN1_back tag bs x (y ++ tail) h ha
    simp only [altRead, he, h1, h2, h3, altVal]
  | anyElem tag bs =>
    simp only [altReadable, decide_eq_true_eq] at ha
    obtain ⟨e, he, h1, _, h3⟩ := readASN1_back tag bs x (y ++ tail) h ha
    simp only [altSer] at h
    simp only [altRead, he, h1, h3, consumed_append, altVal, elemBytes, h]
  | skipAsn1 tag bs =>
    simp only [altReadable, decide_eq_true_eq] at ha
    simp only [altRead, readASN1Tag_back tag bs x (y ++ tail) h ha, altVal]
  | skipOpt tag bs =>
    simp only [altReadable, decide_eq_true_eq] at ha
    simp only [altSer] at h
    simp only [altRead, peekTag_element (y ++ tail) h, Bool.not_true, Bool.false_eq_true, if_false,
      readASN1Tag_back tag bs x (y ++ tail) h ha, altVal]
  | noSkipOpt tag =>
    simp only [altSer, Res.ok.injEq] at h; subst h
    simp only [altReadable] at ha
    have := nextIsNot_ok ha hr
    simp only [altRead, List.nil_append, this, Bool.not_false, if_true, altVal]
  | bitsBytes bs =>
    simp only [altReadable, decide_eq_true_eq] at ha
    simp only [altSer, CB.addASN1BitString] at h
    simp only [altRead, readASN1Tag_back 3 (0 :: bs) x (y ++ tail) h (by simpa using ha), ne_eq,
      not_true_eq_false, if_false, altVal]

theorem nested_ok {rb rk : Bytes → Res (List Val × Bytes)} {child rest tail : Bytes} {vs ws : List Val}
    (hb : rb child = .ok (vs, [])) (hk : rk rest = .ok (ws, tail)) :
    nested rb rk child rest = .ok (vs ++ ws, tail) := by
  simp [nested, hb, hk]

end ZV.C21
