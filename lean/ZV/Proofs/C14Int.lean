import ZV.Model.C14
import ZV.Proofs.C18
/-! C14 helper lemmas: `asn1.Unmarshal(bs, &int)` through the shared encoding/asn1 model `ZV.C18.unmarshal`. -/
namespace ZV.C14
open ZV.C18

theorem unmarshal_int64 (bs : Bytes) : unmarshal false .int64 {} bs = primField false .int64 {} bs := by
  simp [unmarshal, parseField]

/-- the int64 field with empty parameters: header must be UNIVERSAL primitive INTEGER, content by parseInt64 -/
theorem primField_int64 (bs : Bytes) :
    primField false .int64 {} bs =
      match parseTL false bs with
      | .ok (t, r) =>
        if t.cls = 0 ∧ t.tag = 2 ∧ t.compound = false then
          (if t.len > r.length then .err
           else match parseInt64 false (r.take t.len) with
             | .ok i => .ok (.int i, r.drop t.len)
             | .err => .err
             | .panic => .panic)
        else .err
      | .err => .err
      | .panic => .err := by
  cases bs with
  | nil => simp [primField, dfltOrErr, parseTL]
  | cons b r =>
    simp only [primField, List.isEmpty_cons, Bool.false_eq_true, if_false, parsePre]
    cases h : parseTL false (b :: r) with
    | err => rfl
    | panic => rfl
    | ok x =>
      obtain ⟨t, r'⟩ := x
      simp only [explicitStage, matchStage, univ, substTag, expected, dfltOrErr]
      by_cases hc : t.cls = 0 ∧ t.tag = 2 ∧ t.compound = false
      · obtain ⟨h1, h2, h3⟩ := hc
        by_cases hl : t.len > r'.length
        · simp [h1, h2, h3, hl]
        · have hl' : ¬ (List.length r' < t.len) := by omega
          have hc' : ¬ ((¬t.cls = 0 ∨ ¬t.tag = 2) ∨ t.compound = true) := by simp [h1, h2, h3]
          simp [parsePrim, resInt, hc', hl']
          cases parseInt64 false (List.take t.len r') <;> simp [h1, h2, h3, hl']
      · simp only [hc, if_false]
        have hd : (¬t.cls = 0 ∨ ¬t.tag = 2) ∨ t.compound = true := by
          by_cases h1 : t.cls = 0
          · by_cases h2 : t.tag = 2
            · right
              cases h3 : t.compound with
              | true => rfl
              | false => exact absurd ⟨h1, h2, h3⟩ hc
            · left; right; exact h2
          · left; left; exact h1
        simp [hd]

/-- a header accepted for an `int` target starts with the single identifier octet 0x02 -/
theorem int_header (b : UInt8) (r1 r' : Bytes) (t : TL) (h : parseTL false (b :: r1) = .ok (t, r'))
    (h1 : t.cls = 0) (h2 : t.tag = 2) (h3 : t.compound = false) :
    b = 2 ∧ readLen false r1 = .ok (t.len, r') := by
  rw [parseTL_eq] at h
  unfold parseTagNum at h
  by_cases hb : b.toNat % 32 = 31
  · simp only [hb, if_true] at h
    cases hq : base128 0 0 r1 with
    | err => simp [hq] at h
    | panic => simp [hq] at h
    | ok x =>
      obtain ⟨tg, r2⟩ := x
      simp only [hq] at h
      by_cases h31 : tg < 31
      · simp [h31] at h
      · simp only [h31, if_false] at h
        cases hr : readLen false r2 with
        | err => simp [hr] at h
        | panic => simp [hr] at h
        | ok y =>
          obtain ⟨len, r3⟩ := y
          simp only [hr, Res.ok.injEq, Prod.mk.injEq] at h
          obtain ⟨ht, _⟩ := h
          subst ht
          simp only at h2
          omega
  · simp only [hb, if_false] at h
    cases hr : readLen false r1 with
    | err => simp [hr] at h
    | panic => simp [hr] at h
    | ok y =>
      obtain ⟨len, r3⟩ := y
      simp only [hr, Res.ok.injEq, Prod.mk.injEq] at h
      obtain ⟨ht, hr'⟩ := h
      subst ht
      subst hr'
      simp only at h1 h2 h3 ⊢
      have hlt := b.toNat_lt
      have h3' : ¬ (b.toNat / 32 % 2 = 1) := by simpa using h3
      refine ⟨?_, trivial⟩
      apply UInt8.toNat_inj.mp
      show b.toNat = 2
      omega

/-- strict mode: a length read from the long form is at least 128 -/
theorem readLen_strict (r2 r : Bytes) (len : Nat) (h : readLen false r2 = .ok (len, r)) :
    (∃ b2, r2 = b2 :: r ∧ b2.toNat < 128 ∧ len = b2.toNat) ∨ 128 ≤ len := by
  unfold readLen at h
  cases r2 with
  | nil => simp at h
  | cons b2 r3 =>
    simp only at h
    by_cases hs : b2.toNat < 128
    · simp only [hs, if_true, Res.ok.injEq, Prod.mk.injEq] at h
      exact Or.inl ⟨b2, by rw [h.2], hs, h.1.symm⟩
    · simp only [hs, if_false] at h
      by_cases hz : b2.toNat % 128 = 0
      · simp [hz] at h
      · simp only [hz, if_false] at h
        cases hp : parseLenBytes (b2.toNat % 128) 0 r3 with
        | err => simp [hp] at h
        | panic => simp [hp] at h
        | ok y =>
          obtain ⟨l, r4⟩ := y
          simp only [hp] at h
          by_cases hl : l < 128
          · simp [hl] at h
          · simp only [hl, decide_false, Bool.and_false, Bool.false_eq_true, if_false, Res.ok.injEq, Prod.mk.injEq] at h
            right; omega

theorem parseInt64_ok (bs : Bytes) (v : Int) (h : parseInt64 false bs = .ok v) :
    checkInteger false bs = true ∧ bs.length ≤ 8 := by
  unfold parseInt64 at h
  cases hc : checkInteger false bs with
  | false => simp [hc] at h
  | true =>
    simp only [hc, Bool.not_true, Bool.false_eq_true, if_false] at h
    by_cases hl : bs.length > 8
    · simp [hl] at h
    · exact ⟨rfl, by omega⟩

theorem checkInteger_ne_nil (bs : Bytes) (h : checkInteger false bs = true) : 1 ≤ bs.length := by
  cases bs with
  | nil => simp [checkInteger] at h
  | cons _ _ => simp

theorem parseTL_short (n : Nat) (r : Bytes) (h : n < 128) :
    parseTL false (2 :: UInt8.ofNat n :: r) = .ok ({ cls := 0, tag := 2, len := n, compound := false }, r) := by
  have hl : (UInt8.ofNat n).toNat = n := toNat_ofNat_lt (by omega)
  have h2 : (2 : UInt8).toNat = 2 := rfl
  simp only [parseTL, parseTagNum, h2, hl, h]
  norm_num
  have h256 : n % 256 = n := by omega
  rw [h256, if_pos h]

/-- `derInt` on a short-form header: the content parser decides -/
theorem derInt_short (c tail : Bytes) (h : c.length < 128) :
    derInt (2 :: UInt8.ofNat c.length :: (c ++ tail)) =
      match parseInt64 false c with | .ok v => some v | _ => none := by
  unfold derInt
  rw [unmarshal_int64, primField_int64, parseTL_short _ _ h]
  simp only [true_and, and_self, if_true, List.length_append, List.take_left' rfl, List.drop_left' rfl]
  have : ¬ (c.length > c.length + tail.length) := by omega
  simp only [this, if_false]
  cases parseInt64 false c <;> rfl

end ZV.C14
