import ZV.Model.C09
import ZV.Proofs.C09
import ZV.Proofs.C09IPv4
import ZV.Proofs.C09IPv6
import ZV.Proofs.C09IPv6Loop
/-!
  `net.ParseIP` (model `parseIP`) against the declarative grammar `IPLiteral`:
  ellipsis expansion (`v6Finish`), zone rejection and "::" prefix (`parseIPv6`),
  dispatch on the first separator (`parseIP`), and the character set of IP literals.
-/
namespace ZV.C09

/-- A textual IP address and the 16 bytes it denotes: a dotted quad (as an IPv4-mapped
    address, like `net.ParseIP` returns it) or one of the IPv6 forms. -/
def IPLiteral (s : Str) (ip : List UInt8) : Prop :=
  (∃ a b c d, DottedQuad s a b c d ∧ ip = v4InV6Prefix ++ [a, b, c, d]) ∨ V6Spec s ip

/-- the only bytes that can occur in an IP literal: hex digits, ':' and '.' -/
def IPChar (c : UInt8) : Prop := IsHexCh c ∨ c = 58 ∨ c = 46

/-! ### ellipsis expansion -/

theorem v6Finish_iff (ell : Option Nat) (s : Str) (ip : List UInt8) :
    v6Finish ell s = some ip ↔
      ∃ out ell', v6Loop [] ell s = some (out, ell', []) ∧
        ((out.length < 16 ∧ ∃ e, ell' = some e ∧
            ip = out.take e ++ List.replicate (16 - out.length) 0 ++ out.drop e) ∨
         (¬ out.length < 16 ∧ ell' = none ∧ ip = out)) := by
  unfold v6Finish
  cases hv : v6Loop [] ell s with
  | none => simp
  | some t =>
    obtain ⟨out, ell', rest⟩ := t
    simp only [Option.some.injEq, Prod.mk.injEq]
    by_cases hrest : rest = []
    · subst hrest
      simp only [ne_eq, not_true_eq_false, if_false]
      by_cases hlt : out.length < 16
      · simp only [hlt, if_true]
        cases ell' with
        | none =>
          simp only [reduceCtorEq, false_iff]
          rintro ⟨o, e', ⟨rfl, rfl, _⟩, h⟩
          rcases h with ⟨_, e, he, _⟩ | ⟨h, _⟩
          · cases he
          · exact h hlt
        | some e =>
          simp only [Option.some.injEq]
          constructor
          · rintro rfl
            exact ⟨out, some e, ⟨rfl, rfl, trivial⟩, Or.inl ⟨hlt, e, rfl, rfl⟩⟩
          · rintro ⟨o, e', ⟨rfl, rfl, _⟩, h⟩
            rcases h with ⟨_, e2, he, hip⟩ | ⟨h, _⟩
            · cases he; exact hip.symm
            · exact absurd hlt h
      · simp only [hlt, if_false]
        cases ell' with
        | none =>
          simp only [Option.isSome_none, Bool.false_eq_true, if_false, Option.some.injEq]
          constructor
          · rintro rfl
            exact ⟨out, none, ⟨rfl, rfl, trivial⟩, Or.inr ⟨hlt, rfl, rfl⟩⟩
          · rintro ⟨o, e', ⟨rfl, rfl, _⟩, h⟩
            rcases h with ⟨h, _⟩ | ⟨_, _, hip⟩
            · exact absurd h hlt
            · exact hip.symm
        | some e =>
          simp only [Option.isSome_some, if_true, reduceCtorEq, false_iff]
          rintro ⟨o, e', ⟨rfl, rfl, _⟩, h⟩
          rcases h with ⟨h, _⟩ | ⟨_, he, _⟩
          · exact hlt h
          · cases he
    · simp only [ne_eq, hrest, not_false_eq_true, if_true, reduceCtorEq, false_iff]
      rintro ⟨o, e', ⟨_, _, h⟩, _⟩
      exact h

/-- without a leading "::" -/
theorem v6Finish_none_iff (s : Str) (ip : List UInt8) :
    v6Finish none s = some ip ↔
      (∃ hq, V6Seq s ip hq ∧ ip.length = 16) ∨
      (∃ l r L R, s = l ++ 58 :: 58 :: r ∧ V6Seq l L false ∧ V6Right r R ∧ L.length + R.length < 16 ∧
        ip = L ++ List.replicate (16 - (L.length + R.length)) 0 ++ R) := by
  rw [v6Finish_iff]
  constructor
  · rintro ⟨out, ell', hv, hfin⟩
    have hbound := v6Loop_length [] none s (by simp) (by simp) out ell' [] hv
    rcases v6Loop_sound 16 [] none s out ell' (by simp) (by simp) hv with
      ⟨he, bs, hq, hseq, hout, _⟩ | ⟨_, l, r, L, R, hs, hl, hr, he, hout⟩
    · simp only [List.nil_append] at hout
      subst hout he
      rcases hfin with ⟨_, e, he, _⟩ | ⟨hge, _, rfl⟩
      · cases he
      · left; exact ⟨hq, hseq, by omega⟩
    · simp only [List.nil_append, List.length_nil, Nat.zero_add] at hout he
      subst hout he
      rcases hfin with ⟨hlt, e, he, hip⟩ | ⟨_, he, _⟩
      · cases he
        right
        refine ⟨l, r, L, R, hs, hl, hr, by simpa using hlt, ?_⟩
        rw [hip]
        simp
      · cases he
  · rintro (⟨hq, hseq, hlen⟩ | ⟨l, r, L, R, hs, hl, hr, hlt, hip⟩)
    · have := v6Loop_complete_seq hseq [] none (by simp; omega) (fun _ => Or.inr (by simp; omega))
      simp only [List.nil_append] at this
      exact ⟨ip, none, this, Or.inr ⟨by omega, rfl, rfl⟩⟩
    · have := v6Loop_complete_ell hl rfl [] r R hr (by simp; omega)
      simp only [List.nil_append, List.length_nil, Nat.zero_add] at this
      rw [hs]
      refine ⟨L ++ R, some L.length, this, Or.inl ⟨by simpa using hlt, L.length, rfl, ?_⟩⟩
      rw [hip]
      simp

/-- after a leading "::" -/
theorem v6Finish_lead_iff (r : Str) (ip : List UInt8) :
    v6Finish (some 0) r = some ip ↔
      ∃ R hq, V6Seq r R hq ∧ R.length < 16 ∧ ip = List.replicate (16 - R.length) 0 ++ R := by
  rw [v6Finish_iff]
  constructor
  · rintro ⟨out, ell', hv, hfin⟩
    rcases v6Loop_sound 16 [] (some 0) r out ell' (by simp) (by simp) hv with
      ⟨he, bs, hq, hseq, hout, _⟩ | ⟨he, _⟩
    · simp only [List.nil_append] at hout
      subst hout he
      rcases hfin with ⟨hlt, e, he, hip⟩ | ⟨_, he, _⟩
      · cases he
        exact ⟨out, hq, hseq, hlt, by simpa using hip⟩
      · cases he
    · cases he
  · rintro ⟨R, hq, hseq, hlt, hip⟩
    have := v6Loop_complete_seq hseq [] (some 0) (by simp; omega) (fun _ => Or.inl (by simp))
    simp only [List.nil_append] at this
    exact ⟨R, some 0, this, Or.inl ⟨hlt, 0, rfl, by simpa using hip⟩⟩

/-! ### characters -/

theorem V6Seq.chars {s : Str} {bs : List UInt8} {hq : Bool} (h : V6Seq s bs hq) : ∀ x ∈ s, IPChar x := by
  induction h with
  | one hg => intro x hx; exact Or.inl (hg.hex x hx)
  | quad hd =>
    intro x hx
    rcases hd.chars x hx with h | h
    · exact Or.inl (isDec_isHex h)
    · exact Or.inr (Or.inr h)
  | cons hg _ ih =>
    intro x hx
    simp only [List.mem_append, List.mem_cons] at hx
    rcases hx with hx | hx | hx
    · exact Or.inl (hg.hex x hx)
    · exact Or.inr (Or.inl hx)
    · exact ih x hx

theorem V6Spec.chars {s : Str} {ip : List UInt8} (h : V6Spec s ip) : ∀ x ∈ s, IPChar x := by
  rcases h with ⟨hq, hseq, _⟩ | ⟨l, r, L, R, rfl, hl, hr, _, _⟩
  · exact hseq.chars
  · intro x hx
    simp only [List.mem_append, List.mem_cons] at hx
    rcases hx with hx | hx | hx | hx
    · rcases hl with ⟨rfl, _⟩ | hl
      · cases hx
      · exact hl.chars x hx
    · exact Or.inr (Or.inl hx)
    · exact Or.inr (Or.inl hx)
    · rcases hr with ⟨rfl, _⟩ | ⟨_, hr⟩
      · cases hx
      · exact hr.chars x hx

theorem IPLiteral.chars {s : Str} {ip : List UInt8} (h : IPLiteral s ip) : ∀ x ∈ s, IPChar x := by
  rcases h with ⟨a, b, c, d, hd, _⟩ | h
  · intro x hx
    rcases hd.chars x hx with h | h
    · exact Or.inl (isDec_isHex h)
    · exact Or.inr (Or.inr h)
  · exact h.chars

theorem IPChar.ne_pct {c : UInt8} (h : IPChar c) : c ≠ 37 := by
  rcases h with h | rfl | rfl
  · exact isHex_ne_pct h
  · decide
  · decide

/-! ### `parseIPv6` -/

theorem contains_pct_false {s : Str} (h : ∀ x ∈ s, IPChar x) : s.contains 37 = false := by
  cases hc : s.contains 37 with
  | false => rfl
  | true =>
    have : (37 : UInt8) ∈ s := by simpa using hc
    exact absurd rfl (h 37 this).ne_pct

theorem parseIPv6_lead (rest : Str) (h : (58 :: 58 :: rest : Str).contains 37 = false) :
    parseIPv6 (58 :: 58 :: rest) = if rest = [] then some (List.replicate 16 0) else v6Finish (some 0) rest := by
  unfold parseIPv6
  rw [h]
  simp only [Bool.false_eq_true, if_false]

theorem parseIPv6_nolead (s : Str) (h : s.contains 37 = false) (hn : ∀ rest, s ≠ 58 :: 58 :: rest) :
    parseIPv6 s = v6Finish none s := by
  unfold parseIPv6
  rw [h]
  simp only [Bool.false_eq_true, if_false]

theorem parseIPv6_iff (s : Str) (ip : List UInt8) : parseIPv6 s = some ip ↔ V6Spec s ip := by
  constructor
  · intro h
    have hc : s.contains 37 = false := by
      cases hc : s.contains 37 with
      | false => rfl
      | true => unfold parseIPv6 at h; rw [hc] at h; simp at h
    by_cases hlead : ∃ rest, s = 58 :: 58 :: rest
    · obtain ⟨rest, rfl⟩ := hlead
      rw [parseIPv6_lead rest hc] at h
      by_cases hr : rest = []
      · subst hr
        simp only [if_true, Option.some.injEq] at h
        subst h
        right
        exact ⟨[], [], [], [], rfl, Or.inl ⟨rfl, rfl⟩, Or.inl ⟨rfl, rfl⟩, by simp, by simp⟩
      · rw [if_neg hr] at h
        obtain ⟨R, hq, hseq, hlt, hip⟩ := (v6Finish_lead_iff rest ip).mp h
        right
        exact ⟨[], rest, [], R, rfl, Or.inl ⟨rfl, rfl⟩, Or.inr ⟨hq, hseq⟩, by simpa using hlt, by simpa using hip⟩
    · have hn : ∀ rest, s ≠ 58 :: 58 :: rest := fun rest e => hlead ⟨rest, e⟩
      rw [parseIPv6_nolead s hc hn] at h
      rcases (v6Finish_none_iff s ip).mp h with h1 | ⟨l, r, L, R, hs, hl, hr, hlt, hip⟩
      · exact Or.inl h1
      · exact Or.inr ⟨l, r, L, R, hs, Or.inr hl, hr, hlt, hip⟩
  · intro h
    have hc : s.contains 37 = false := contains_pct_false h.chars
    rcases h with ⟨hq, hseq, hlen⟩ | ⟨l, r, L, R, hs, hl, hr, hlt, hip⟩
    · have hn : ∀ rest, s ≠ 58 :: 58 :: rest := by
        intro rest e
        obtain ⟨c, t, hs, hcx⟩ := hseq.head_hex
        rw [hs] at e
        simp only [List.cons.injEq] at e
        exact isHex_ne_colon hcx e.1
      rw [parseIPv6_nolead s hc hn]
      exact (v6Finish_none_iff s ip).mpr (Or.inl ⟨hq, hseq, hlen⟩)
    · rcases hl with ⟨rfl, rfl⟩ | hl
      · simp only [List.nil_append] at hs
        subst hs
        rw [parseIPv6_lead r hc]
        rcases hr with ⟨rfl, rfl⟩ | ⟨hq, hseq⟩
        · simp only [if_true, Option.some.injEq]
          rw [hip]; simp
        · have hrne : r ≠ [] := by
            obtain ⟨c, t, e, _⟩ := hseq.head_hex
            rw [e]; simp
          rw [if_neg hrne]
          exact (v6Finish_lead_iff r ip).mpr ⟨R, hq, hseq, by simpa using hlt, by simpa using hip⟩
      · have hn : ∀ rest, s ≠ 58 :: 58 :: rest := by
          intro rest e
          obtain ⟨c, t, hl', hcx⟩ := hl.head_hex
          rw [hs, hl'] at e
          simp only [List.cons_append, List.cons.injEq] at e
          exact isHex_ne_colon hcx e.1
        rw [parseIPv6_nolead s hc hn]
        exact (v6Finish_none_iff s ip).mpr (Or.inr ⟨l, r, L, R, hs, hl, hr, hlt, hip⟩)

/-! ### `parseIP` -/

theorem firstSep_mem {s : Str} {c : UInt8} (h : firstSep s = some c) : c ∈ s := by
  induction s with
  | nil => cases h
  | cons x t ih =>
    unfold firstSep at h
    split at h
    · cases h; simp
    · exact List.mem_cons_of_mem _ (ih h)

theorem firstSep_append (g t : Str) (x : UInt8) (hg : ∀ c ∈ g, IsHexCh c) (hx : x = dot ∨ x = 58 ∨ x = 37) :
    firstSep (g ++ x :: t) = some x := by
  induction g with
  | nil => simp [firstSep, hx]
  | cons c g ih =>
    have hc := hg c (by simp)
    have : ¬ (c = dot ∨ c = 58 ∨ c = 37) := by
      rintro (h | h | h)
      · exact isHex_ne_dot hc h
      · exact isHex_ne_colon hc h
      · exact isHex_ne_pct hc h
    simp only [List.cons_append, firstSep, this, if_false]
    exact ih (fun c hc => hg c (List.mem_cons_of_mem _ hc))

theorem DottedQuad.firstSep_eq {s : Str} {a b c d : UInt8} (h : DottedQuad s a b c d) :
    firstSep s = some dot := by
  obtain ⟨f1, f2, f3, f4, rfl, o1, _⟩ := h
  exact firstSep_append f1 _ 46 (fun x hx => isDec_isHex (o1.digits x hx)) (Or.inl rfl)

/-- groups followed by a colon: the first separator is that of the first group -/
theorem V6Seq.firstSep_colon {l : Str} {L : List UInt8} {hq : Bool} (h : V6Seq l L hq) (hf : hq = false)
    (x : Str) : firstSep (l ++ 58 :: x) = some 58 := by
  cases h with
  | one hg => exact firstSep_append _ _ 58 hg.hex (Or.inr (Or.inl rfl))
  | quad _ => cases hf
  | cons hg _ =>
    rw [List.append_assoc]
    exact firstSep_append _ _ 58 hg.hex (Or.inr (Or.inl rfl))

theorem V6Spec.firstSep_eq {s : Str} {ip : List UInt8} (h : V6Spec s ip) : firstSep s = some 58 := by
  rcases h with ⟨hq, hseq, hlen⟩ | ⟨l, r, L, R, rfl, hl, _, _, _⟩
  · cases hseq with
    | one _ => simp [groupBytes] at hlen
    | quad _ => simp at hlen
    | cons hg _ => exact firstSep_append _ _ 58 hg.hex (Or.inr (Or.inl rfl))
  · rcases hl with ⟨rfl, _⟩ | hl
    · simp [firstSep]
    · exact hl.firstSep_colon rfl _

/-- **`net.ParseIP`** (model) accepts exactly the IP literals, with exactly their value. -/
theorem parseIP_iff_literal (s : Str) (ip : List UInt8) : parseIP s = some ip ↔ IPLiteral s ip := by
  constructor
  · intro h
    unfold parseIP at h
    cases hf : firstSep s with
    | none => rw [hf] at h; cases h
    | some c =>
      rw [hf] at h
      simp only at h
      by_cases hd : c = dot
      · rw [if_pos hd] at h
        cases hp : parseIPv4Fields s with
        | none => rw [hp] at h; cases h
        | some f =>
          rw [hp] at h
          simp only [Option.some.injEq] at h
          obtain ⟨a, b, c', d, rfl, hq⟩ := parseIPv4Fields_some s f hp
          exact Or.inl ⟨a, b, c', d, hq, h.symm⟩
      · rw [if_neg hd] at h
        by_cases h58 : c = 58
        · rw [if_pos h58] at h
          exact Or.inr ((parseIPv6_iff s ip).mp h)
        · rw [if_neg h58] at h; cases h
  · rintro (⟨a, b, c, d, hq, rfl⟩ | h)
    · unfold parseIP
      rw [hq.firstSep_eq]
      simp only [if_true]
      rw [(parseIPv4Fields_iff s a b c d).mpr hq]
    · unfold parseIP
      rw [h.firstSep_eq]
      have : (58 : UInt8) ≠ dot := by decide
      simp only [this, if_false, if_true]
      exact (parseIPv6_iff s ip).mpr h

theorem parseIP_none_iff (s : Str) : parseIP s = none ↔ ∀ ip, ¬ IPLiteral s ip := by
  constructor
  · intro h ip hl
    rw [(parseIP_iff_literal s ip).mpr hl] at h; cases h
  · intro h
    cases hp : parseIP s with
    | none => rfl
    | some ip => exact absurd ((parseIP_iff_literal s ip).mp hp) (h ip)

/-- the IPv4 form is the only literal without a colon -/
theorem parseIP_v4_iff' (s : Str) (a b c d : UInt8) :
    (parseIP s = some (v4InV6Prefix ++ [a, b, c, d]) ∧ (58 : UInt8) ∉ s) ↔ DottedQuad s a b c d := by
  constructor
  · rintro ⟨h, hno⟩
    rcases (parseIP_iff_literal s _).mp h with ⟨a', b', c', d', hq, he⟩ | h6
    · have := List.append_cancel_left he
      simp only [List.cons.injEq, and_true] at this
      obtain ⟨rfl, rfl, rfl, rfl⟩ := this
      exact hq
    · exact absurd (firstSep_mem h6.firstSep_eq) hno
  · intro hq
    refine ⟨(parseIP_iff_literal s _).mpr (Or.inl ⟨a, b, c, d, hq, rfl⟩), ?_⟩
    intro hm
    rcases hq.chars 58 hm with h | h
    · simp [IsDec] at h
    · cases h

end ZV.C09
