import ZV.Model.Der0
import Mathlib.Data.List.Induction
import Mathlib.Tactic.Ring
/-! Helper lemmas about the shared DER primitive model `ZV.Model.Der0`. -/
open ZV ZV.Der0
namespace ZV.Der0

theorem toNat_lt (b : UInt8) : b.toNat < 256 := UInt8.toNat_lt_size b
theorem toNat_ofNat_lt {n : Nat} (h : n < 256) : (UInt8.ofNat n).toNat = n := by
  simp [UInt8.toNat_ofNat']; omega
theorem ofNat_eq_of {n : Nat} {b : UInt8} (h : n = b.toNat) : UInt8.ofNat n = b := by
  subst h; exact UInt8.ofNat_toNat
theorem eq_of_toNat {a b : UInt8} (h : a.toNat = b.toNat) : a = b := UInt8.toNat_inj.mp h

/-! ### natOfBytes / natToBytes -/
theorem natOfBytesAux_eq (acc : Nat) (bs : Bytes) :
    natOfBytesAux acc bs = acc * 256 ^ bs.length + natOfBytes bs := by
  induction bs generalizing acc with
  | nil => simp [natOfBytesAux, natOfBytes]
  | cons b bs ih =>
    simp only [natOfBytes, natOfBytesAux, List.length_cons]
    rw [ih, ih (0 * 256 + b.toNat)]
    simp [Nat.pow_succ]; ring

theorem natOfBytes_nil : natOfBytes [] = 0 := rfl

theorem natOfBytes_cons (b : UInt8) (bs : Bytes) :
    natOfBytes (b :: bs) = b.toNat * 256 ^ bs.length + natOfBytes bs := by
  simp only [natOfBytes, natOfBytesAux]
  rw [natOfBytesAux_eq]; simp [natOfBytes]

theorem natOfBytes_snoc (bs : Bytes) (b : UInt8) :
    natOfBytes (bs ++ [b]) = natOfBytes bs * 256 + b.toNat := by
  induction bs with
  | nil => simp [natOfBytes, natOfBytesAux]
  | cons a bs ih =>
    simp only [List.cons_append, natOfBytes_cons, ih, List.length_append, List.length_singleton,
      Nat.pow_succ]
    ring

theorem natOfBytes_lt (bs : Bytes) : natOfBytes bs < 256 ^ bs.length := by
  induction bs with
  | nil => simp [natOfBytes, natOfBytesAux]
  | cons a bs ih =>
    rw [natOfBytes_cons, List.length_cons, Nat.pow_succ]
    have h1 : a.toNat + 1 ≤ 256 := toNat_lt a
    have h2 := Nat.mul_le_mul_right (256 ^ bs.length) h1
    rw [Nat.add_mul] at h2
    rw [Nat.mul_comm (256 ^ bs.length) 256]
    omega

def headNZ : Bytes → Prop
  | [] => True
  | b :: _ => b ≠ 0

theorem natOfBytes_pos {b : UInt8} {bs : Bytes} (h : b ≠ 0) : 0 < natOfBytes (b :: bs) := by
  rw [natOfBytes_cons]
  have hb : 0 < b.toNat := by
    rcases Nat.eq_zero_or_pos b.toNat with h0 | h0
    · exact absurd (eq_of_toNat (by simpa using h0)) h
    · exact h0
  have h2 : 0 < 256 ^ bs.length := Nat.pow_pos (by decide)
  have := Nat.mul_pos hb h2
  omega

theorem natToBytes_zero : natToBytes 0 = [] := by rw [natToBytes]; simp

theorem natToBytes_step {n : Nat} (h : n ≠ 0) :
    natToBytes n = natToBytes (n / 256) ++ [UInt8.ofNat (n % 256)] := by
  rw [natToBytes]; simp [h]

theorem headNZ_snoc {bs : Bytes} {b : UInt8} (hne : bs ≠ []) (h : headNZ (bs ++ [b])) : headNZ bs := by
  cases bs with
  | nil => exact absurd rfl hne
  | cons a t => simpa [headNZ] using h

/-- `big.Int.Bytes ∘ SetBytes` is the identity on strings without a leading zero byte. -/
theorem natToBytes_natOfBytes (bs : Bytes) (h : headNZ bs) : natToBytes (natOfBytes bs) = bs := by
  induction bs using List.reverseRecOn with
  | nil => simp [natOfBytes_nil, natToBytes_zero]
  | append_singleton init l ih =>
    rw [natOfBytes_snoc]
    have hl := toNat_lt l
    by_cases hi : init = []
    · subst hi
      have hl0 : l ≠ 0 := by simpa [headNZ] using h
      have : l.toNat ≠ 0 := fun h0 => hl0 (eq_of_toNat (by simpa using h0))
      rw [natToBytes_step (by simp [natOfBytes_nil]; exact this)]
      simp only [natOfBytes_nil, Nat.zero_mul, Nat.zero_add, List.nil_append]
      rw [Nat.div_eq_of_lt hl, natToBytes_zero, Nat.mod_eq_of_lt hl, UInt8.ofNat_toNat]; rfl
    · have hh := headNZ_snoc hi h
      have hpos : 0 < natOfBytes init := by
        cases init with
        | nil => exact absurd rfl hi
        | cons a t => exact natOfBytes_pos (by simpa [headNZ] using hh)
      rw [natToBytes_step (by omega)]
      have h1 : (natOfBytes init * 256 + l.toNat) / 256 = natOfBytes init := by omega
      have h2 : (natOfBytes init * 256 + l.toNat) % 256 = l.toNat := by omega
      rw [h1, h2, ih hh, UInt8.ofNat_toNat]

theorem natOfBytes_zero_cons (bs : Bytes) : natOfBytes ((0 : UInt8) :: bs) = natOfBytes bs := by
  rw [natOfBytes_cons]; simp

end ZV.Der0
