import ZV.Model.C21
import ZV.Proofs.Der0CB
/-! read-back lemmas (write → read direction) for the C21 fragment. -/
open ZV ZV.Der0
namespace ZV.C21

theorem take_append_len {α} (a b : List α) : (a ++ b).take a.length = a := by simp
theorem drop_append_len {α} (a b : List α) : (a ++ b).drop a.length = b := by simp
theorem take_append_of_len {α} (a b : List α) (k : Nat) (h : a.length = k) : (a ++ b).take k = a := by
  subst h; simp
theorem drop_append_of_len {α} (a b : List α) (k : Nat) (h : a.length = k) : (a ++ b).drop k = b := by
  subst h; simp

theorem derLength_cases (n : Nat) :
    (n ≤ 0x7f ∧ CB.derLength n = .ok [UInt8.ofNat n]) ∨
    (∃ k lb, 1 ≤ k ∧ k ≤ 4 ∧ (lb : UInt8).toNat = 128 + k ∧ 128 ≤ n ∧ n / 256 ^ (k - 1) ≠ 0 ∧ n < 256 ^ k ∧
        CB.derLength n = .ok (lb :: beBytes k n)) ∨
    (n > 0xfffffffe ∧ CB.derLength n = .err) := by
  unfold CB.derLength
  by_cases h5 : n > 0xfffffffe
  · right; right; simp [h5]
  · by_cases h4 : n > 0xffffff
    · right; left; refine ⟨4, 0x84, by omega, by omega, by decide, by omega, by simp; omega, by simp; omega, ?_⟩
      simp [h5, h4]
    · by_cases h3 : n > 0xffff
      · right; left; refine ⟨3, 0x83, by omega, by omega, by decide, by omega, by simp; omega, by simp; omega, ?_⟩
        simp [h5, h4, h3]
      · by_cases h2 : n > 0xff
        · right; left; refine ⟨2, 0x82, by omega, by omega, by decide, by omega, by simp; omega, by simp; omega, ?_⟩
          simp [h5, h4, h3, h2]
        · by_cases h1 : n > 0x7f
          · right; left; refine ⟨1, 0x81, by omega, by omega, by decide, by omega, by simp; omega, by simp; omega, ?_⟩
            simp [h5, h4, h3, h2, h1]
          · left; exact ⟨by omega, by simp [h5, h4, h3, h2, h1]⟩

theorem readU_beBytes (w v : Nat) (t : Bytes) (h : v < 256 ^ w) :
    readU w (beBytes w v ++ t) = .ok (v, t) := by
  unfold readU
  have hl := beBytes_length w v
  have h1 : ¬ (beBytes w v ++ t).length < w := by simp [hl]
  simp only [h1, if_false]
  have e1 : (beBytes w v ++ t).take w = beBytes w v := take_append_of_len _ _ _ hl
  have e2 : (beBytes w v ++ t).drop w = t := drop_append_of_len _ _ _ hl
  rw [e1, e2, natOfBytes_beBytes w v h]

theorem readBytes_append (c t : Bytes) : readBytes c.length (c ++ t) = .ok (c, t) := by
  unfold readBytes
  simp

theorem readLengthPrefixed_back (n : Nat) (c t : Bytes) (h : c.length < 256 ^ n) :
    readLengthPrefixed n (beBytes n c.length ++ (c ++ t)) = .ok (c, t) := by
  unfold readLengthPrefixed
  rw [readU_beBytes n c.length (c ++ t) h]
  exact readBytes_append c t

/-- `ReadASN1(tag)` reads back exactly what `AddASN1(tag){AddBytes(body)}` wrote, leaving the tail.
    (`hsz`: the reader's uint32 overflow guard rejects bodies within 6 bytes of 4 GiB, which the
    Builder still accepts — see the report.) -/
theorem readASN1Tag_back (tag : UInt8) (body pre t : Bytes) (h : CB.element tag body = .ok pre)
    (hsz : body.length < 4294967290) :
    CB.readASN1Tag (pre ++ t) tag = .ok (body, t) := by
  unfold CB.element at h
  split at h
  · simp at h
  · rename_i htag
    generalize hn : body.length = n at h hsz
    have key : ∀ (k : Nat) (hk1 : 1 ≤ k) (hk4 : k ≤ 4) (lb : UInt8), lb.toNat = 128 + k →
        128 ≤ n → n / 256 ^ (k - 1) ≠ 0 → n < 256 ^ k →
        CB.readASN1Tag (tag :: lb :: beBytes k n ++ body ++ t) tag = .ok (body, t) := by
      intro k hk1 hk4 lb hlb h128 htop hlt
      have hbl := beBytes_length k n
      unfold CB.readASN1Tag CB.readASN1
      simp only [List.cons_append, List.append_assoc]
      have hmod : lb.toNat % 128 = k := by omega
      have hns : ¬ lb.toNat < 128 := by omega
      simp only [htag, if_false, hns, hmod]
      have hlen : (tag :: lb :: (beBytes k n ++ (body ++ t))).length = 2 + k + n + t.length := by
        simp [hbl, hn]; omega
      have hc : ¬ (k = 0 ∨ k > 4 ∨ (tag :: lb :: (beBytes k n ++ (body ++ t))).length < 2 + k) := by
        rw [hlen]; omega
      simp only [hc, if_false]
      have etake : (beBytes k n ++ (body ++ t)).take k = beBytes k n := take_append_of_len _ _ _ hbl
      rw [etake, natOfBytes_beBytes k n hlt]
      have hpow : 256 ^ k ≤ 4294967296 := by
        have : k = 1 ∨ k = 2 ∨ k = 3 ∨ k = 4 := by omega
        rcases this with rfl | rfl | rfl | rfl <;> decide
      have hm : (2 + k + n) % 4294967296 = 2 + k + n := Nat.mod_eq_of_lt (by omega)
      have c1 : ¬ n < 128 := by omega
      have c3 : ¬ 2 + k + n < n := by omega
      simp only [c1, htop, hm, c3, if_false]
      have c4 : ¬ (tag :: lb :: (beBytes k n ++ (body ++ t))).length < 2 + k + n := by rw [hlen]; omega
      simp only [c4, if_false]
      have htk : ((tag :: lb :: (beBytes k n ++ (body ++ t))).take (2 + k + n)) = tag :: lb :: (beBytes k n ++ body) := by
        have : 2 + k + n = (tag :: lb :: (beBytes k n ++ body)).length := by simp [hbl, hn]; omega
        rw [this]
        have e : tag :: lb :: (beBytes k n ++ (body ++ t)) = (tag :: lb :: (beBytes k n ++ body)) ++ t := by simp
        rw [e]; exact take_append_len _ _
      have hdr : ((tag :: lb :: (beBytes k n ++ (body ++ t))).drop (2 + k + n)) = t := by
        have : 2 + k + n = (tag :: lb :: (beBytes k n ++ body)).length := by simp [hbl, hn]; omega
        rw [this]
        have e : tag :: lb :: (beBytes k n ++ (body ++ t)) = (tag :: lb :: (beBytes k n ++ body)) ++ t := by simp
        rw [e]; exact drop_append_len _ _
      rw [htk, hdr]
      have c5 : ¬ (tag :: lb :: (beBytes k n ++ body)).length < 2 + k := by simp [hbl]; omega
      simp only [c5, if_false]
      have hd2 : (tag :: lb :: (beBytes k n ++ body)).drop (2 + k) = body := by
        have : 2 + k = (tag :: lb :: beBytes k n).length := by simp [hbl]; omega
        rw [this]
        have e : tag :: lb :: (beBytes k n ++ body) = (tag :: lb :: beBytes k n) ++ body := by simp
        rw [e]; exact drop_append_len _ _
      simp [hd2]
    rcases derLength_cases n with ⟨hsmall, hd⟩ | ⟨k, lb, hk1, hk4, hlb, h128, htop, hlt, hd⟩ | ⟨hbig, _⟩
    · rw [hd] at h
      simp only [Res.ok.injEq] at h
      subst h
      unfold CB.readASN1Tag CB.readASN1
      simp only [List.cons_append, List.nil_append]
      have hlb : (UInt8.ofNat n).toNat = n := toNat_ofNat_lt (by omega)
      have hs : (UInt8.ofNat n).toNat < 128 := by omega
      simp only [htag, if_false, hs, if_true, hlb]
      have hlen : (tag :: UInt8.ofNat n :: (body ++ t)).length = n + 2 + t.length := by simp [hn]; omega
      have c4 : ¬ (tag :: UInt8.ofNat n :: (body ++ t)).length < n + 2 := by rw [hlen]; omega
      have hs2 : n < 128 := by omega
      simp only [hs2, if_true]
      have htk : (tag :: UInt8.ofNat n :: (body ++ t)).take (n + 2) = tag :: UInt8.ofNat n :: body := by
        have e : tag :: UInt8.ofNat n :: (body ++ t) = (tag :: UInt8.ofNat n :: body) ++ t := by simp
        rw [e]; exact take_append_of_len _ _ _ (by simp [hn])
      have hdr : (tag :: UInt8.ofNat n :: (body ++ t)).drop (n + 2) = t := by
        have e : tag :: UInt8.ofNat n :: (body ++ t) = (tag :: UInt8.ofNat n :: body) ++ t := by simp
        rw [e]; exact drop_append_of_len _ _ _ (by simp [hn])
      rw [htk, hdr]
      have g1 : ¬ (body.length + t.length < n) := by omega
      have g2 : ¬ (body.length + 1 + 1 < 2) := by omega
      simp [g1, g2]
    · rw [hd] at h
      simp only [Res.ok.injEq] at h
      subst h
      exact key k hk1 hk4 lb hlb h128 htop hlt
    · omega

end ZV.C21
