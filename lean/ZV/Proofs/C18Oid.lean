import ZV.Proofs.C18
/-! C18: OBJECT IDENTIFIER and BIT STRING content round trips. -/
namespace ZV.C18

/-! ### OBJECT IDENTIFIER -/

theorem base128Digits_ne_nil (n : Nat) : base128Digits n ≠ [] := by
  unfold base128Digits; simp

theorem appendBase128_nonneg (a : Int) (h : 0 ≤ a) : appendBase128 a = base128Digits a.toNat := by
  unfold appendBase128; rw [if_neg (by omega)]

/-- the arc loop inverts the concatenation of the arcs' base-128 encodings -/
theorem parseArcs_enc (l : List Int) : ∀ fuel, (∀ a ∈ l, 0 ≤ a ∧ a ≤ 2147483647) →
    ((l.map appendBase128).flatten).length ≤ fuel →
    parseArcs fuel ((l.map appendBase128).flatten) = .ok l := by
  induction l with
  | nil => intro fuel _ _; cases fuel <;> simp [parseArcs]
  | cons a l ih =>
    intro fuel hr hf
    have ha := hr a (by simp)
    have hrest : ∀ x ∈ l, 0 ≤ x ∧ x ≤ 2147483647 := fun x hx => hr x (by simp [hx])
    simp only [List.map_cons, List.flatten_cons, List.length_append] at hf ⊢
    rw [appendBase128_nonneg a ha.1] at hf ⊢
    have hdec := base128_digits a.toNat (by omega) ((l.map appendBase128).flatten)
    cases hd : base128Digits a.toNat with
    | nil => exact absurd hd (base128Digits_ne_nil _)
    | cons b t =>
      rw [hd] at hf hdec
      simp only [List.length_cons] at hf
      cases fuel with
      | zero => omega
      | succ f =>
        simp only [List.cons_append] at hdec ⊢
        simp only [parseArcs, hdec]
        rw [ih f hrest (by omega)]
        simp only [Res.ok.injEq, List.cons.injEq, and_true]
        omega

/-- **OBJECT IDENTIFIER content round trip** -/
theorem parseOID_makeOID (l : List Int) (h : oidOK l = true) :
    ∃ body, makeOID l = .ok body ∧ parseOID body = .ok (.oid l) := by
  match l, h with
  | a :: b :: rest, h =>
    simp only [oidOK, Bool.and_eq_true, Bool.or_eq_true, decide_eq_true_eq, List.all_eq_true] at h
    obtain ⟨⟨⟨⟨⟨h1, h2⟩, h3⟩, h4⟩, h5⟩, h6⟩ := h
    have hcond : ¬ (a > 2 ∨ (a < 2 ∧ b ≥ 40)) := by omega
    refine ⟨appendBase128 (a * 40 + b) ++ (rest.map appendBase128).flatten, by simp only [makeOID, if_neg hcond], ?_⟩
    have hnn : 0 ≤ a * 40 + b := by omega
    rw [appendBase128_nonneg _ hnn]
    have hdec := base128_digits (a * 40 + b).toNat (by omega) ((rest.map appendBase128).flatten)
    have harcs := parseArcs_enc rest ((rest.map appendBase128).flatten).length (fun x hx => h6 x hx) (Nat.le_refl _)
    cases hd : base128Digits (a * 40 + b).toNat with
    | nil => exact absurd hd (base128Digits_ne_nil _)
    | cons c t =>
      rw [hd] at hdec
      simp only [List.cons_append] at hdec ⊢
      simp only [parseOID, hdec, harcs]
      by_cases h80 : (a * 40 + b).toNat < 80
      · rw [if_pos h80]
        simp only [Res.ok.injEq, Val.oid.injEq, List.cons.injEq, and_true]
        omega
      · rw [if_neg h80]
        simp only [Res.ok.injEq, Val.oid.injEq, List.cons.injEq, and_true]
        omega

/-! ### BIT STRING -/

/-- **BIT STRING content round trip** -/
theorem parseBitString_makeBits (bs : Bytes) (n : Int) (h : bitsOK bs n = true) :
    parseBitString (makeBits bs n) = .ok (.bits bs n) := by
  simp only [bitsOK, Bool.and_eq_true, decide_eq_true_eq] at h
  obtain ⟨⟨h0, hlen⟩, hpad⟩ := h
  unfold makeBits
  have htm : Int.tmod n 8 = n % 8 := Int.tmod_eq_emod_of_nonneg h0
  rw [htm]
  have hp : (UInt8.ofNat ((8 - n % 8) % 8).toNat).toNat = ((8 - n % 8) % 8).toNat := toNat_ofNat_lt (by omega)
  simp only [parseBitString, hp]
  cases hl : bs.getLast? with
  | none =>
    have hnil : bs = [] := by simpa using hl
    subst hnil
    simp only [List.length_nil, Int.natCast_zero] at hlen
    have hn : n = 0 := by omega
    subst hn
    decide
  | some l =>
    rw [hl] at hpad
    simp only [decide_eq_true_eq] at hpad
    have hne : bs.isEmpty = false := by
      cases bs with
      | nil => simp at hl
      | cons _ _ => rfl
    have hcond : ¬ (((8 - n % 8) % 8).toNat > 7 ∨ (bs.isEmpty = true ∧ ((8 - n % 8) % 8).toNat > 0) ∨
        l.toNat % 2 ^ ((8 - n % 8) % 8).toNat ≠ 0) := by
      rw [hne]; simp only [Bool.false_eq_true, false_and, false_or, not_or, not_not]
      exact ⟨by omega, hpad⟩
    rw [if_neg hcond]
    simp only [Res.ok.injEq, Val.bits.injEq, true_and]
    omega

end ZV.C18
