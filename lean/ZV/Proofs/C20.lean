import ZV.Model.C18
import Mathlib.Tactic.SplitIfs
/-! Lemmas for C20: every parser of the model, run strictly with an `ok` result, gives the same result permissively. -/
namespace ZV.C18

theorem parseTL_perm (bs : Bytes) (x : TL × Bytes) (h : parseTL false bs = .ok x) : parseTL true bs = .ok x := by
  cases bs with
  | nil => simp [parseTL] at h
  | cons b r1 =>
    simp only [parseTL] at h ⊢
    cases htn : parseTagNum b r1 with
    | err => simp [htn] at h
    | panic => simp [htn] at h
    | ok tr =>
      obtain ⟨tag, r2⟩ := tr
      simp only [htn] at h ⊢
      cases r2 with
      | nil => simp at h
      | cons b2 r3 =>
        simp only at h ⊢
        by_cases h1 : b2.toNat < 128
        · simpa [h1] using h
        · simp only [h1, if_false] at h ⊢
          by_cases h2 : b2.toNat % 128 = 0
          · simp [h2] at h
          · simp only [h2, if_false] at h ⊢
            cases hl : parseLenBytes (b2.toNat % 128) 0 r3 with
            | ok lr =>
              obtain ⟨len, r4⟩ := lr
              simp only [hl] at h ⊢
              by_cases h3 : len < 128 <;> simp_all
            | err => simp [hl] at h
            | panic => simp [hl] at h

theorem checkInteger_perm (bs : Bytes) (h : checkInteger false bs = true) : checkInteger true bs = true := by
  unfold checkInteger at h ⊢
  split <;> simp_all

theorem parseInt64_perm (bs : Bytes) (i : Int) (h : parseInt64 false bs = .ok i) : parseInt64 true bs = .ok i := by
  unfold parseInt64 at h ⊢
  by_cases hc : checkInteger false bs = true
  · have hp := checkInteger_perm bs hc
    simp only [hc, hp] at h ⊢
    exact h
  · simp [hc] at h

theorem parseInt32_perm (bs : Bytes) (i : Int) (h : parseInt32 false bs = .ok i) : parseInt32 true bs = .ok i := by
  unfold parseInt32 at h ⊢
  by_cases hc : checkInteger false bs = true
  · have hp := checkInteger_perm bs hc
    simp only [hc, hp] at h ⊢
    cases h64 : parseInt64 false bs with
    | ok j => rw [parseInt64_perm bs j h64]; rw [h64] at h; exact h
    | err => rw [h64] at h; simp at h
    | panic => rw [h64] at h; simp at h
  · simp [hc] at h

theorem parseBigInt_perm (bs : Bytes) (i : Int) (h : parseBigInt false bs = .ok i) : parseBigInt true bs = .ok i := by
  unfold parseBigInt at h ⊢
  by_cases hc : checkInteger false bs = true
  · have hp := checkInteger_perm bs hc
    simp only [hc, hp] at h ⊢
    exact h
  · simp [hc] at h

theorem parseString_perm (utag : Nat) (bs : Bytes) (v : Val) (h : parseString false utag bs = .ok v) :
    parseString true utag bs = .ok v := by
  unfold parseString at h ⊢
  unfold parsePrintableString parseNumericString parseIA5String parseUTF8String at *
  repeat' split at h
  all_goals simp_all

theorem resInt_ok {r : Res Int} {v : Val} (h : resInt r = .ok v) : ∃ i, r = .ok i ∧ v = .int i := by
  cases r <;> simp [resInt] at h
  exact ⟨_, rfl, h.symm⟩

theorem parsePrim_perm (s : Schema) (utag : Nat) (t : TL) (inner full : Bytes) (v : Val)
    (h : parsePrim false s utag t inner full = .ok v) : parsePrim true s utag t inner full = .ok v := by
  cases s <;> simp only [parsePrim] at h ⊢ <;> try exact h
  · obtain ⟨i, hi, rfl⟩ := resInt_ok h; rw [parseInt64_perm _ _ hi]; rfl
  · obtain ⟨i, hi, rfl⟩ := resInt_ok h; rw [parseInt32_perm _ _ hi]; rfl
  · obtain ⟨i, hi, rfl⟩ := resInt_ok h; rw [parseInt32_perm _ _ hi]; rfl
  · obtain ⟨i, hi, rfl⟩ := resInt_ok h; rw [parseBigInt_perm _ _ hi]; rfl
  · exact parseString_perm _ _ _ h


/-- the explicit-tag stage: every non-error strict outcome is also the permissive outcome -/
theorem explicitStage_perm (s : Schema) (p : Params) (t0 : TL) (r0 : Bytes) :
    (∀ r, explicitStage false s p t0 r0 = .flag r → explicitStage true s p t0 r0 = .flag r) ∧
    (∀ t r, explicitStage false s p t0 r0 = .cont t r → explicitStage true s p t0 r0 = .cont t r) ∧
    (explicitStage false s p t0 r0 = .dflt → explicitStage true s p t0 r0 = .dflt) := by
  unfold explicitStage
  cases hp : parseTL false r0 with
  | ok x => rw [parseTL_perm r0 x hp]; exact ⟨fun _ h => h, fun _ _ h => h, fun h => h⟩
  | err => refine ⟨?_, ?_, ?_⟩ <;> intros <;> split_ifs at * <;> simp_all
  | panic => refine ⟨?_, ?_, ?_⟩ <;> intros <;> split_ifs at * <;> simp_all

theorem parsePre_perm (s : Schema) (p : Params) (bs : Bytes) :
    (∀ r, parsePre false s p bs = .flag r → parsePre true s p bs = .flag r) ∧
    (∀ t u i r, parsePre false s p bs = .go t u i r → parsePre true s p bs = .go t u i r) ∧
    (parsePre false s p bs = .dflt → parsePre true s p bs = .dflt) := by
  unfold parsePre
  cases hp : parseTL false bs with
  | err => simp
  | panic => simp
  | ok x =>
    obtain ⟨t0, r0⟩ := x
    rw [parseTL_perm bs _ hp]
    simp only
    obtain ⟨hf, hc, hd⟩ := explicitStage_perm s p t0 r0
    cases he : explicitStage false s p t0 r0 with
    | err => simp
    | dflt => rw [hd he]; simp
    | flag r => rw [hf r he]; simp
    | cont t r => rw [hc t r he]; simp

theorem countElems_perm (ma : Bool) (et : Nat) (ec : Bool) (fuel : Nat) (bs : Bytes) (n : Nat)
    (h : countElems false ma et ec fuel bs = .ok n) : countElems true ma et ec fuel bs = .ok n := by
  induction fuel generalizing bs n with
  | zero => cases bs <;> simp_all [countElems]
  | succ f ih =>
    cases bs with
    | nil => simpa [countElems] using h
    | cons b r =>
      simp only [countElems] at h ⊢
      cases hp : parseTL false (b :: r) with
      | err => simp [hp] at h
      | panic => simp [hp] at h
      | ok x =>
        obtain ⟨t, r'⟩ := x
        rw [parseTL_perm _ _ hp]
        simp only [hp] at h ⊢
        split at h
        · cases h
        · rename_i h1
          simp only [h1, if_false]
          split at h
          · cases h
          · rename_i h2
            simp only [h2, if_false]
            cases hc : countElems false ma et ec f (List.drop t.len r') with
            | ok m => rw [ih _ _ hc]; simpa [hc] using h
            | err => simp [hc] at h
            | panic => simp [hc] at h

theorem parseElems_perm (pf pf' : Bytes → Res (Val × Bytes))
    (hpf : ∀ bs r, pf bs = .ok r → pf' bs = .ok r) (n : Nat) (bs : Bytes) (v : Val)
    (h : parseElems pf n bs = .ok v) : parseElems pf' n bs = .ok v := by
  induction n generalizing bs v with
  | zero => simpa [parseElems] using h
  | succ n ih =>
    simp only [parseElems] at h ⊢
    cases h1 : pf bs with
    | ok x =>
      obtain ⟨v1, r1⟩ := x
      rw [hpf _ _ h1]
      simp only [h1] at h ⊢
      cases h2 : parseElems pf n r1 with
      | ok vs => rw [ih _ _ h2]; simpa [h2] using h
      | err => simp [h2] at h
      | panic => simp [h2] at h
    | err => simp [h1] at h
    | panic => simp [h1] at h


theorem primField_perm (s : Schema) (p : Params) (bs : Bytes) (r : Val × Bytes)
    (h : primField false s p bs = .ok r) : primField true s p bs = .ok r := by
  unfold primField at h ⊢
  by_cases hb : bs.isEmpty = true
  · rw [if_pos hb] at h ⊢; exact h
  · rw [if_neg hb] at h ⊢
    obtain ⟨hf, hg, hd⟩ := parsePre_perm s p bs
    cases hp : parsePre false s p bs with
    | err => simp [hp] at h
    | dflt => rw [hd hp]; simpa [hp] using h
    | flag r' => rw [hf r' hp]; simpa [hp] using h
    | go t u inner rest =>
      rw [hg t u inner rest hp]
      simp only [hp] at h ⊢
      cases hpp : parsePrim false s u t inner (takeFull bs rest) with
      | ok v => rw [parsePrim_perm _ _ _ _ _ _ hpp]; simpa [hpp] using h
      | err => simp [hpp] at h
      | panic => simp [hpp] at h

/-- both directions of the mutual recursion `parseField` / `parseFields` (used by `ZV.C20.perm_extends`) -/
theorem perm_both (s : Schema) :
    (∀ p bs r, parseField false s p bs = .ok r → parseField true s p bs = .ok r) ∧
    (∀ bs r, parseFields false s bs = .ok r → parseFields true s bs = .ok r) := by
  induction s with
  | struct fs ih =>
    refine ⟨?_, fun bs r h => by simp [parseFields] at h⟩
    intro p bs r h
    simp only [parseField] at h ⊢
    by_cases hb : bs.isEmpty = true
    · rw [if_pos hb] at h ⊢; exact h
    · rw [if_neg hb] at h ⊢
      obtain ⟨hf, hg, hd⟩ := parsePre_perm (.struct fs) p bs
      cases hp : parsePre false (.struct fs) p bs with
      | err => simp [hp] at h
      | dflt => rw [hd hp]; simpa [hp] using h
      | flag r' => rw [hf r' hp]; simpa [hp] using h
      | go t u inner rest =>
        rw [hg t u inner rest hp]
        simp only [hp] at h ⊢
        cases hfs : parseFields false fs inner with
        | ok x => rw [ih.2 _ _ hfs]; simpa [hfs] using h
        | err => simp [hfs] at h
        | panic => simp [hfs] at h
  | seqOf sn e ih =>
    refine ⟨?_, fun bs r h => by simp [parseFields] at h⟩
    intro p bs r h
    simp only [parseField] at h ⊢
    by_cases hb : bs.isEmpty = true
    · rw [if_pos hb] at h ⊢; exact h
    · rw [if_neg hb] at h ⊢
      obtain ⟨hf, hg, hd⟩ := parsePre_perm (.seqOf sn e) p bs
      cases hp : parsePre false (.seqOf sn e) p bs with
      | err => simp [hp] at h
      | dflt => rw [hd hp]; simpa [hp] using h
      | flag r' => rw [hf r' hp]; simpa [hp] using h
      | go t u inner rest =>
        rw [hg t u inner rest hp]
        simp only [hp] at h ⊢
        cases hu : univ e with
        | none => simp [hu] at h
        | some x =>
          obtain ⟨ma, et, ec⟩ := x
          simp only [hu] at h ⊢
          cases hc : countElems false ma et ec inner.length inner with
          | err => simp [hc] at h
          | panic => simp [hc] at h
          | ok n =>
            rw [countElems_perm _ _ _ _ _ _ hc]
            simp only [hc] at h ⊢
            cases hpe : parseElems (fun b => parseField false e {} b) n inner with
            | ok vs =>
              rw [parseElems_perm _ (fun b => parseField true e {} b) (fun bs r hh => ih.1 {} bs r hh) n inner vs hpe]
              simpa [hpe] using h
            | err => simp [hpe] at h
            | panic => simp [hpe] at h
  | fnil =>
    refine ⟨fun p bs r h => by simp [parseField] at h, fun bs r h => ?_⟩
    simpa [parseFields] using h
  | fcons p s rest ihs ihr =>
    refine ⟨fun p bs r h => by simp [parseField] at h, fun bs r h => ?_⟩
    simp only [parseFields] at h ⊢
    cases h1 : parseField false s p bs with
    | ok x =>
      obtain ⟨v, r1⟩ := x
      rw [ihs.1 _ _ _ h1]
      simp only [h1] at h ⊢
      cases h2 : parseFields false rest r1 with
      | ok y => rw [ihr.2 _ _ h2]; simpa [h2] using h
      | err => simp [h2] at h
      | panic => simp [h2] at h
    | err => simp [h1] at h
    | panic => simp [h1] at h
  | _ =>
    refine ⟨?_, fun bs r h => by simp [parseFields] at h⟩
    intro p bs r h
    simp only [parseField] at h ⊢
    exact primField_perm _ p bs r h


end ZV.C18
