import ZV.Model.C27Sel
/-! helper lemmas for the selection theorems of C27 -/
namespace ZV.C27

theorem isSupported_iff (s : Nat) (l : List Nat) : isSupported s l = true ↔ s ∈ l := by
  simp [isSupported, List.any_eq_true]

theorem firstTrue_some (l : List Bool) (i : Nat) (h : firstTrue l = some i) :
    l[i]? = some true ∧ ∀ j, j < i → l[j]? = some false := by
  induction l generalizing i with
  | nil => simp [firstTrue] at h
  | cons b rest ih =>
    cases b with
    | true =>
      simp [firstTrue] at h
      subst h
      simp
    | false =>
      simp only [firstTrue] at h
      cases hr : firstTrue rest with
      | none => simp [hr] at h
      | some k =>
        simp [hr] at h
        subst h
        have := ih k hr
        refine ⟨by simpa using this.1, ?_⟩
        intro j hj
        cases j with
        | zero => simp
        | succ j' => simpa using this.2 j' (by omega)

theorem firstTrue_none (l : List Bool) (h : firstTrue l = none) : ∀ b ∈ l, b = false := by
  induction l with
  | nil => simp
  | cons b rest ih =>
    cases b with
    | true => simp [firstTrue] at h
    | false =>
      simp only [firstTrue] at h
      cases hr : firstTrue rest with
      | none =>
        intro x hx
        simp at hx
        rcases hx with rfl | hx
        · rfl
        · exact ih hr x hx
      | some k => simp [hr] at h

theorem firstTrue_lt (l : List Bool) (i : Nat) (h : firstTrue l = some i) : i < l.length := by
  have := (firstTrue_some l i h).1
  exact (List.getElem?_eq_some_iff.mp this).1

theorem lookup_insert (m : NameMap) (k k' : List Char) (v : Nat) :
    (m.insert k v).lookup k' = if k = k' then some v else m.lookup k' := by
  induction m with
  | nil => simp [NameMap.insert, NameMap.lookup]
  | cons e rest ih =>
    obtain ⟨a, b⟩ := e
    simp only [NameMap.insert]
    by_cases h : a = k
    · subst h
      by_cases h3 : a = k' <;> simp [NameMap.lookup, h3]
    · simp only [h, if_false, NameMap.lookup]
      by_cases h2 : a = k'
      · have : ¬ k = k' := fun e => h (by rw [h2, e])
        simp [h2, this]
      · simp [h2, ih]

theorem lookup_insertAll (m : NameMap) (names : List (List Char)) (i : Nat) (k : List Char) :
    (insertAll m names i).lookup k = if k ∈ names then some i else m.lookup k := by
  induction names generalizing m with
  | nil => simp [insertAll]
  | cons n rest ih =>
    simp only [insertAll, ih, lookup_insert]
    by_cases h1 : k ∈ rest
    · simp [h1]
    · by_cases h2 : n = k
      · simp [h2]
      · have : ¬ k = n := fun e => h2 e.symm
        simp [h1, h2, this]

/-- the LAST certificate (from index `i` on) that contributes the name `k` -/
def lastListing (i : Nat) : List LeafNames → List Char → Option Nat
  | [], _ => none
  | l :: rest, k =>
    match lastListing (i + 1) rest k with
    | some j => some j
    | none => if k ∈ l.keys then some i else none

theorem lookup_buildFrom (m : NameMap) (i : Nat) (certs : List LeafNames) (k : List Char) :
    (buildFrom m i certs).lookup k = match lastListing i certs k with
      | some j => some j
      | none => m.lookup k := by
  induction certs generalizing m i with
  | nil => simp [buildFrom, lastListing]
  | cons l rest ih =>
    simp only [buildFrom, lastListing, ih, lookup_insertAll]
    cases lastListing (i + 1) rest k with
    | some j => simp
    | none => by_cases h : k ∈ l.keys <;> simp [h]

theorem mem_rsaSchemes (size version s : Nat) (table : List (Nat × Nat × Nat)) (h : s ∈ rsaSchemes size version table) :
    ∃ minB maxV, (s, minB, maxV) ∈ table ∧ size ≥ minB ∧ version ≤ maxV := by
  induction table with
  | nil => simp [rsaSchemes] at h
  | cons row rest ih =>
    obtain ⟨sc, mb, mv⟩ := row
    simp only [rsaSchemes] at h
    by_cases hc : size ≥ mb ∧ version ≤ mv
    · simp only [hc, and_self, if_true, List.mem_cons] at h
      rcases h with rfl | h
      · exact ⟨mb, mv, by simp, hc.1, hc.2⟩
      · obtain ⟨a, b, h1, h2, h3⟩ := ih h
        exact ⟨a, b, by simp [h1], h2, h3⟩
    · simp only [hc, if_false] at h
      obtain ⟨a, b, h1, h2, h3⟩ := ih h
      exact ⟨a, b, by simp [h1], h2, h3⟩

theorem chainAcceptable_sound (cas : List Nat) (iss : List (Option Nat)) (h : chainAcceptable cas iss = true) :
    ∃ ca, ca ∈ cas ∧ some ca ∈ iss := by
  induction iss with
  | nil => simp [chainAcceptable] at h
  | cons e rest ih =>
    cases e with
    | none => simp [chainAcceptable] at h
    | some x =>
      simp only [chainAcceptable] at h
      by_cases hx : cas.any (· == x) = true
      · have : x ∈ cas := by simpa [List.any_eq_true] using hx
        exact ⟨x, this, by simp⟩
      · simp only [hx] at h
        obtain ⟨ca, h1, h2⟩ := ih (by simpa using h)
        exact ⟨ca, h1, by simp [h2]⟩

theorem getClientCertificate_some (vers : Nat) (schemes cas : List Nat) (certs : List ClientCert) (i : Nat)
    (h : getClientCertificate vers schemes cas certs = some i) :
    (∃ c, certs[i]? = some c ∧ criSupports vers schemes cas c = true) ∧
    ∀ j, j < i → ∃ c, certs[j]? = some c ∧ criSupports vers schemes cas c = false := by
  induction certs generalizing i with
  | nil => simp [getClientCertificate] at h
  | cons c rest ih =>
    simp only [getClientCertificate] at h
    by_cases hc : criSupports vers schemes cas c = true
    · simp [hc] at h
      subst h
      exact ⟨⟨c, by simp, hc⟩, by intro j hj; omega⟩
    · simp only [hc] at h
      cases hr : getClientCertificate vers schemes cas rest with
      | none => simp [hr] at h
      | some k =>
        simp [hr] at h
        subst h
        obtain ⟨⟨c', h1, h2⟩, h3⟩ := ih k hr
        refine ⟨⟨c', by simpa using h1, h2⟩, ?_⟩
        intro j hj
        cases j with
        | zero => exact ⟨c, by simp, by simpa using hc⟩
        | succ j' =>
          obtain ⟨c2, h4, h5⟩ := h3 j' (by omega)
          exact ⟨c2, by simpa using h4, h5⟩

theorem getClientCertificate_none (vers : Nat) (schemes cas : List Nat) (certs : List ClientCert) :
    getClientCertificate vers schemes cas certs = none ↔ ∀ c ∈ certs, criSupports vers schemes cas c = false := by
  induction certs with
  | nil => simp [getClientCertificate]
  | cons c rest ih =>
    simp only [getClientCertificate]
    by_cases hc : criSupports vers schemes cas c = true
    · simp [hc]
    · have hc' : criSupports vers schemes cas c = false := by simpa using hc
      simp only [hc]
      cases hr : getClientCertificate vers schemes cas rest with
      | none =>
        have := ih.mp hr
        simp [hc']
        exact this
      | some k =>
        simp
        intro _
        have : ¬ ∀ c ∈ rest, criSupports vers schemes cas c = false := fun hh => by
          have := ih.mpr hh
          rw [hr] at this
          cases this
        simpa using this

theorem mem_filterSchemes (rsaAvail ecAvail : Bool) (algs : List Nat) (s : Nat) (h : s ∈ filterSchemes rsaAvail ecAvail algs) :
    s ∈ algs ∧ ∃ t, sigTypeOf s Gen.sigTypeTable = some t ∧
      (((t = Gen.signatureECDSA ∨ t = Gen.signatureEd25519) ∧ ecAvail = true) ∨
       ((t = Gen.signatureRSAPSS ∨ t = Gen.signaturePKCS1v15) ∧ rsaAvail = true)) := by
  induction algs with
  | nil => simp [filterSchemes] at h
  | cons a rest ih =>
    have lift : (s ∈ rest ∧ ∃ t, sigTypeOf s Gen.sigTypeTable = some t ∧
      (((t = Gen.signatureECDSA ∨ t = Gen.signatureEd25519) ∧ ecAvail = true) ∨
       ((t = Gen.signatureRSAPSS ∨ t = Gen.signaturePKCS1v15) ∧ rsaAvail = true))) →
      (s ∈ a :: rest ∧ ∃ t, sigTypeOf s Gen.sigTypeTable = some t ∧
      (((t = Gen.signatureECDSA ∨ t = Gen.signatureEd25519) ∧ ecAvail = true) ∨
       ((t = Gen.signatureRSAPSS ∨ t = Gen.signaturePKCS1v15) ∧ rsaAvail = true))) :=
      fun ⟨h1, h2⟩ => ⟨by simp [h1], h2⟩
    simp only [filterSchemes] at h
    cases ht : sigTypeOf a Gen.sigTypeTable with
    | none => simp only [ht] at h; exact lift (ih h)
    | some t =>
      simp only [ht] at h
      by_cases h1 : t = Gen.signatureECDSA ∨ t = Gen.signatureEd25519
      · simp only [h1, if_true] at h
        cases ecAvail with
        | false => simp at h; exact lift (ih h)
        | true =>
          simp only [if_true, List.mem_cons] at h
          rcases h with rfl | h
          · exact ⟨by simp, t, ht, Or.inl ⟨h1, rfl⟩⟩
          · exact lift (ih h)
      · simp only [h1, if_false] at h
        by_cases h2 : t = Gen.signatureRSAPSS ∨ t = Gen.signaturePKCS1v15
        · simp only [h2, if_true] at h
          cases rsaAvail with
          | false => simp at h; exact lift (ih h)
          | true =>
            simp only [if_true, List.mem_cons] at h
            rcases h with rfl | h
            · exact ⟨by simp, t, ht, Or.inr ⟨h2, rfl⟩⟩
            · exact lift (ih h)
        · simp only [h2, if_false] at h
          exact lift (ih h)

/-- `processCertsFromClient` reads the ClientAuthType only through `requiresClientCert` and `>= VerifyClientCertIfGiven` -/
def processCertsB (req ver : Bool) (p : Presented) (vpc : Hook) : PolicyRes :=
  if p.count > 0 ∧ !p.parses then ⟨some Gen.alertBadCertificate, 0, false, false⟩
  else if p.count = 0 ∧ req then ⟨some Gen.alertBadCertificate, 0, false, false⟩
  else
    let verifying := ver && decide (p.count > 0)
    if verifying && !p.verifies then ⟨some Gen.alertBadCertificate, 0, false, false⟩
    else if p.count > 0 ∧ !p.keyKnown then ⟨some Gen.alertUnsupportedCertificate, p.count, verifying, false⟩
    else if vpc = .reject then ⟨some Gen.alertBadCertificate, p.count, verifying, true⟩
    else ⟨none, p.count, verifying, vpc.installed⟩

theorem processCerts_eq (m : Nat) (p : Presented) (vpc : Hook) :
    processCerts m p vpc = processCertsB (requiresClientCertN m) (decide (m ≥ Gen.verifyClientCertIfGiven)) p vpc := rfl

end ZV.C27
