import ZV.Model.C23
/-! EME-PKCS1-v1_5 (`EncryptPKCS1v15` / `DecryptPKCS1v15`): the non-zero padding string and the separator scan — for
    `ZV.Props.C23`. -/
namespace ZV.C23
open ZV

theorem redraw_ne_zero {rnd rnd' : Bytes} {b : UInt8} (h : redraw rnd = some (b, rnd')) : b ≠ 0 := by
  induction rnd with
  | nil => simp [redraw] at h
  | cons r rest ih =>
    unfold redraw at h
    split at h
    · exact ih h
    · next hne =>
      simp only [Option.some.injEq, Prod.mk.injEq] at h
      rw [← h.1]; exact hne

/-- the fix-up loop returns as many octets as it was given, none of them zero -/
theorem fixZeros_spec {bs rnd out : Bytes} (h : fixZeros bs rnd = some out) :
    out.length = bs.length ∧ ∀ b ∈ out, b ≠ 0 := by
  induction bs generalizing rnd out with
  | nil => simp [fixZeros] at h; subst h; simp
  | cons b bs ih =>
    unfold fixZeros at h
    split at h
    · next hb =>
      split at h
      · simp at h
      · next b' rnd' hr =>
        cases hf : fixZeros bs rnd' with
        | none => rw [hf] at h; simp at h
        | some o =>
          rw [hf] at h
          simp only [Option.map_some, Option.some.injEq] at h
          subst h
          obtain ⟨h1, h2⟩ := ih hf
          refine ⟨by simp [h1], ?_⟩
          intro x hx
          rcases List.mem_cons.1 hx with rfl | hx
          · exact redraw_ne_zero hr
          · exact h2 x hx
    · next hb =>
      cases hf : fixZeros bs rnd with
      | none => rw [hf] at h; simp at h
      | some o =>
        rw [hf] at h
        simp only [Option.map_some, Option.some.injEq] at h
        subst h
        obtain ⟨h1, h2⟩ := ih hf
        refine ⟨by simp [h1], ?_⟩
        intro x hx
        rcases List.mem_cons.1 hx with rfl | hx
        · exact hb
        · exact h2 x hx

/-- `nonZeroRandomBytes` returns exactly `n` octets, all non-zero -/
theorem nonZeroRandomBytes_spec {n : Nat} {rnd ps : Bytes} (h : nonZeroRandomBytes n rnd = some ps) :
    ps.length = n ∧ ∀ b ∈ ps, b ≠ 0 := by
  unfold nonZeroRandomBytes at h
  split at h
  · simp at h
  · next hl =>
    obtain ⟨h1, h2⟩ := fixZeros_spec h
    refine ⟨?_, h2⟩
    rw [h1, List.length_take]; omega

theorem findIdx_zero_after_nonzero (ps rest : Bytes) (h : ∀ b ∈ ps, b ≠ 0) :
    (ps ++ 0 :: rest).findIdx? (· == 0) = some ps.length := by
  induction ps with
  | nil => simp [List.findIdx?_cons]
  | cons p ps ih =>
    have hp : p ≠ 0 := h p (by simp)
    have := ih (fun b hb => h b (by simp [hb]))
    simp [List.findIdx?_cons, hp, this]

/-- the separator scan of `DecryptPKCS1v15` on `b0 b1 PS 00 M` with a zero-free `PS` stops right after `PS` -/
theorem firstZeroFrom2_em (b0 b1 : UInt8) (ps msg : Bytes) (h : ∀ b ∈ ps, b ≠ 0) :
    firstZeroFrom2 (b0 :: b1 :: (ps ++ 0 :: msg)) = some (ps.length + 2) := by
  unfold firstZeroFrom2
  simp only [List.drop_succ_cons, List.drop_zero]
  rw [findIdx_zero_after_nonzero ps msg h]

theorem drop_em (b0 b1 : UInt8) (ps msg : Bytes) :
    (b0 :: b1 :: (ps ++ 0 :: msg)).drop (ps.length + 2 + 1) = msg := by
  simp only [List.drop_succ_cons]
  rw [show ps.length + 1 = (ps ++ [0]).length by simp, show ps ++ 0 :: msg = (ps ++ [0]) ++ msg by simp,
    List.drop_left']
  rfl

/-- the separator scan, read backwards: if the first zero octet at position ≥ 2 is at `idx`, the string is
    `b0 b1 ‖ PS ‖ 00 ‖ M` with a zero-free `PS` of `idx - 2` octets -/
theorem firstZeroFrom2_inv {b0 b1 : UInt8} {t : Bytes} {idx : Nat} (h : firstZeroFrom2 (b0 :: b1 :: t) = some idx) :
    ∃ ps, (∀ b ∈ ps, b ≠ 0) ∧ idx = ps.length + 2 ∧ t = ps ++ 0 :: (b0 :: b1 :: t).drop (idx + 1) := by
  unfold firstZeroFrom2 at h
  simp only [List.drop_succ_cons, List.drop_zero] at h
  cases hfi : t.findIdx? (· == 0) with
  | none => rw [hfi] at h; contradiction
  | some i =>
    rw [hfi] at h
    simp only [Option.some.injEq] at h
    subst h
    obtain ⟨hlt, h0, hbefore⟩ := List.findIdx?_eq_some_iff_getElem.1 hfi
    refine ⟨t.take i, ?_, by rw [List.length_take]; omega, ?_⟩
    · intro b hb
      obtain ⟨j, hj, rfl⟩ := List.getElem_of_mem hb
      rw [List.length_take] at hj
      rw [List.getElem_take]
      have := hbefore j (by omega)
      simpa using this
    · simp only [List.drop_succ_cons]
      have hd : t.drop i = 0 :: t.drop (i + 1) := by
        rw [List.drop_eq_getElem_cons hlt]
        congr 1
        simpa using h0
      rw [← hd, List.take_append_drop]

end ZV.C23
