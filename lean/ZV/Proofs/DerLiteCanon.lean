import ZV.Proofs.DerLiteAppend
/-! Two more facts about the strict DER reader of `ZV.Model.DerLite`:
    * **truncation** — an accepted element read on its own bytes alone gives the same element
      (`readElem bs = ok (e, rest) → readElem e.full = ok (e, [])`);
    * **canonicity (writer ∘ reader)** — an accepted length field is the one `encLen` writes, so an accepted
      element with a low tag number is `writeTLV identifier body`: there is exactly one accepted encoding of a
      given (identifier octet, body). -/
namespace ZV.Der

/-! ### truncation -/

theorem readBase128_trunc : ∀ (f s acc : Nat) (bs : Bytes) (v : Nat) (rest : Bytes),
    readBase128 f s acc bs = .ok (v, rest) → ∃ pre, bs = pre ++ rest ∧ readBase128 f s acc pre = .ok (v, []) := by
  intro f
  induction f with
  | zero => intro s acc bs v rest h; simp [readBase128] at h
  | succ f ih =>
    intro s acc bs v rest h
    cases bs with
    | nil => simp [readBase128] at h
    | cons b tl =>
      simp only [readBase128] at h
      split at h
      · cases h
      · rename_i hc
        split at h
        · rename_i hb
          split at h
          · cases h
          · rename_i hgt
            simp only [Res.ok.injEq, Prod.mk.injEq] at h
            obtain ⟨h1, h2⟩ := h
            subst h1; subst h2
            refine ⟨[b], by simp, ?_⟩
            simp only [readBase128, if_neg hc, hb, if_true, if_neg hgt]
        · rename_i hb
          obtain ⟨pre, hp, hr⟩ := ih _ _ _ _ _ h
          refine ⟨b :: pre, by simp [hp], ?_⟩
          simp only [readBase128, if_neg hc, hb, if_false]
          exact hr

theorem readLenLoop_trunc : ∀ (n acc : Nat) (bs : Bytes) (v : Nat) (rest : Bytes),
    readLenLoop n acc bs = .ok (v, rest) → ∃ pre, bs = pre ++ rest ∧ readLenLoop n acc pre = .ok (v, []) := by
  intro n
  induction n with
  | zero =>
    intro acc bs v rest h
    simp only [readLenLoop, Res.ok.injEq, Prod.mk.injEq] at h
    exact ⟨[], by simp [h.2], by simp [readLenLoop, h.1]⟩
  | succ n ih =>
    intro acc bs v rest h
    cases bs with
    | nil => simp [readLenLoop] at h
    | cons b tl =>
      simp only [readLenLoop] at h
      split at h
      · cases h
      · rename_i h1
        split at h
        · cases h
        · rename_i h2
          obtain ⟨pre, hp, hr⟩ := ih _ _ _ _ h
          refine ⟨b :: pre, by simp [hp], ?_⟩
          simp only [readLenLoop, if_neg h1, if_neg h2]
          exact hr

theorem readLen_trunc (bs : Bytes) (v : Nat) (rest : Bytes) (h : readLen bs = .ok (v, rest)) :
    ∃ pre, bs = pre ++ rest ∧ readLen pre = .ok (v, []) := by
  cases bs with
  | nil => simp [readLen] at h
  | cons b tl =>
    simp only [readLen] at h
    split at h
    · rename_i h1
      simp only [Res.ok.injEq, Prod.mk.injEq] at h
      obtain ⟨h2, h3⟩ := h
      subst h2; subst h3
      exact ⟨[b], by simp, by simp only [readLen, if_pos h1]⟩
    · rename_i h1
      split at h
      · cases h
      · rename_i h2
        split at h
        · rename_i len rest' heq
          split at h
          · cases h
          · rename_i h3
            simp only [Res.ok.injEq, Prod.mk.injEq] at h
            obtain ⟨h4, h5⟩ := h
            subst h4; subst h5
            obtain ⟨pre, hp, hr⟩ := readLenLoop_trunc _ _ _ _ _ heq
            refine ⟨b :: pre, by simp [hp], ?_⟩
            simp only [readLen, if_neg h1, if_neg h2, hr, if_neg h3]
        · cases h
        · cases h

theorem readHdr_trunc (bs : Bytes) (hd : Hdr) (rest : Bytes) (h : readHdr bs = .ok (hd, rest)) :
    ∃ pre, bs = pre ++ rest ∧ readHdr pre = .ok (hd, []) := by
  cases bs with
  | nil => simp [readHdr] at h
  | cons b tl =>
    simp only [readHdr] at h
    split at h
    · rename_i h31
      split at h
      · rename_i tg rest1 heq
        split at h
        · cases h
        · rename_i hlt
          split at h
          · rename_i l rest2 heq2
            simp only [Res.ok.injEq, Prod.mk.injEq] at h
            obtain ⟨p1, hp1, hr1⟩ := readBase128_trunc _ _ _ _ _ _ heq
            obtain ⟨p2, hp2, hr2⟩ := readLen_trunc _ _ _ heq2
            refine ⟨b :: (p1 ++ p2), by simp [hp1, hp2, h.2], ?_⟩
            have := readBase128_append _ _ _ _ _ _ p2 hr1
            simp only [List.nil_append] at this
            simp only [readHdr, if_pos h31, this, if_neg hlt, hr2, h.1]
          · cases h
          · cases h
      · cases h
      · cases h
    · rename_i h31
      split at h
      · rename_i l rest2 heq2
        simp only [Res.ok.injEq, Prod.mk.injEq] at h
        obtain ⟨p2, hp2, hr2⟩ := readLen_trunc _ _ _ heq2
        refine ⟨b :: p2, by simp [hp2, h.2], ?_⟩
        simp only [readHdr, if_neg h31, hr2, h.1]
      · cases h
      · cases h

/-- **Truncation**: an accepted element, read from its own encoding alone, is the same element. -/
theorem readElem_trunc (bs : Bytes) (e : Elem) (rest : Bytes) (h : readElem bs = .ok (e, rest)) :
    readElem e.full = .ok (e, []) := by
  obtain ⟨hs, ⟨hb, _, hfull⟩, hlen⟩ := readElem_split bs e rest h
  obtain ⟨after, hh, hle, hrest⟩ := readElem_hdr bs e rest h
  obtain ⟨pre, hp, hr⟩ := readHdr_trunc _ _ _ hh
  -- bs = pre ++ after, after = body ++ rest, full = pre ++ body
  have hpre : bs = e.full ++ rest := hs
  have ha : after = e.body ++ rest := by
    have h1 : pre ++ after = hb ++ (e.body ++ rest) := by rw [← hp, hs, hfull, List.append_assoc]
    have h2 := readHdr_suffix _ _ _ hh
    -- lengths: |after| = |body| + |rest| since rest = after.drop len and |body| = len ≤ |after|
    have hl : after.length = e.body.length + rest.length := by
      rw [hrest, List.length_drop, hlen]; omega
    have hl2 : pre.length = hb.length := by
      have := congrArg List.length h1
      simp only [List.length_append] at this; omega
    have := List.append_inj h1 (by simpa using hl2)
    simpa using this.2
  have hfull' : e.full = pre ++ e.body := by
    have h1 : pre ++ after = e.full ++ rest := by rw [← hp, hs]
    rw [ha, ← List.append_assoc] at h1
    exact (List.append_cancel_right h1).symm
  have hr' := readHdr_append _ _ _ e.body hr
  simp only [List.nil_append] at hr'
  simp only [readElem]
  rw [hfull', hr']
  have hn : ¬ e.body.length < e.hdr.len := by omega
  simp only [if_neg hn]
  have e1 : (pre ++ e.body).length - e.body.length + e.hdr.len = (pre ++ e.body).length := by
    simp only [List.length_append]; omega
  rw [e1, List.take_length, ← hlen, List.take_length, List.drop_length, ← hfull']

/-! ### canonicity of the length field -/

theorem readLenLoop_lt : ∀ (n acc : Nat) (bs : Bytes) (v : Nat) (rest : Bytes), acc < 2147483648 →
    readLenLoop n acc bs = .ok (v, rest) → v < 2147483648 := by
  intro n
  induction n with
  | zero => intro acc bs v rest ha h; simp only [readLenLoop, Res.ok.injEq, Prod.mk.injEq] at h; omega
  | succ n ih =>
    intro acc bs v rest ha h
    cases bs with
    | nil => simp [readLenLoop] at h
    | cons b tl =>
      simp only [readLenLoop] at h
      split at h
      · cases h
      · rename_i h1
        split at h
        · cases h
        · have := b.toNat_lt
          exact ih _ _ _ _ (by omega) h

/-- every accepted length is below 2^31 -/
theorem readLen_lt (bs : Bytes) (v : Nat) (rest : Bytes) (h : readLen bs = .ok (v, rest)) : v < 2147483648 := by
  cases bs with
  | nil => simp [readLen] at h
  | cons b tl =>
    simp only [readLen] at h
    split at h
    · simp only [Res.ok.injEq, Prod.mk.injEq] at h; omega
    · split at h
      · cases h
      · split at h
        · rename_i len rest' heq
          split at h
          · cases h
          · simp only [Res.ok.injEq, Prod.mk.injEq] at h
            have := readLenLoop_lt _ _ _ _ _ (by omega) heq
            omega
        · cases h
        · cases h

theorem u8_ofNat_toNat_eq (b : UInt8) (n : Nat) (h : n = b.toNat) : UInt8.ofNat n = b := by
  subst h; exact UInt8.ofNat_toNat

theorem readLenLoop_step (k acc : Nat) (b : UInt8) (tl : Bytes) (v : Nat) (rest : Bytes)
    (h : readLenLoop (k + 1) acc (b :: tl) = .ok (v, rest)) :
    readLenLoop k (acc * 256 + b.toNat) tl = .ok (v, rest) ∧ acc < 8388608 ∧ acc * 256 + b.toNat ≠ 0 := by
  simp only [readLenLoop] at h
  split at h
  · cases h
  · split at h
    · cases h
    · rename_i h1 h2
      exact ⟨h, by omega, h2⟩

/-- the long-form octets the reader accepts are exactly the digits the writer emits -/
theorem readLenLoop_canonical (k : Nat) (bs : Bytes) (len : Nat) (rest : Bytes)
    (h : readLenLoop k 0 bs = .ok (len, rest)) (hk : 1 ≤ k) (hlen : 128 ≤ len) :
    bs = lenDigits len ++ rest ∧ (lenDigits len).length = k := by
  match k, bs, h with
  | 0, _, _ => omega
  | 1, [], h => simp [readLenLoop] at h
  | 1, b1 :: r, h =>
    simp only [readLenLoop] at h
    split at h
    · cases h
    · split at h
      · cases h
      · simp only [Res.ok.injEq, Prod.mk.injEq] at h
        obtain ⟨h1, h2⟩ := h
        have := b1.toNat_lt
        have hl : len < 256 := by omega
        simp only [lenDigits, if_pos hl]
        rw [u8_ofNat_toNat_eq b1 len (by omega), h2]
        exact ⟨rfl, rfl⟩
  | 2, [], h => simp [readLenLoop] at h
  | 2, [_], h => simp [readLenLoop] at h
  | 2, b1 :: b2 :: r, h =>
    simp only [readLenLoop] at h
    repeat' split at h
    all_goals cases h
    generalize hL : (0 * 256 + b1.toNat) * 256 + b2.toNat = len at hlen ⊢
    have h2 : rest = rest := rfl
    have := b1.toNat_lt
    have := b2.toNat_lt
    have hl1 : ¬ len < 256 := by omega
    have hl2 : len < 65536 := by omega
    simp only [lenDigits, if_neg hl1, if_pos hl2]
    rw [u8_ofNat_toNat_eq b1 (len / 256) (by omega), u8_ofNat_toNat_eq b2 (len % 256) (by omega), h2]
    exact ⟨rfl, rfl⟩
  | 3, [], h => simp [readLenLoop] at h
  | 3, [_], h => simp [readLenLoop] at h
  | 3, [_, _], h => simp [readLenLoop] at h
  | 3, b1 :: b2 :: b3 :: r, h =>
    simp only [readLenLoop] at h
    repeat' split at h
    all_goals cases h
    generalize hL : ((0 * 256 + b1.toNat) * 256 + b2.toNat) * 256 + b3.toNat = len at hlen ⊢
    have h2 : rest = rest := rfl
    have := b1.toNat_lt
    have := b2.toNat_lt
    have := b3.toNat_lt
    have hl1 : ¬ len < 256 := by omega
    have hl2 : ¬ len < 65536 := by omega
    have hl3 : len < 16777216 := by omega
    simp only [lenDigits, if_neg hl1, if_neg hl2, if_pos hl3]
    rw [u8_ofNat_toNat_eq b1 (len / 65536) (by omega), u8_ofNat_toNat_eq b2 (len / 256 % 256) (by omega),
      u8_ofNat_toNat_eq b3 (len % 256) (by omega), h2]
    exact ⟨rfl, rfl⟩
  | 4, [], h => simp [readLenLoop] at h
  | 4, [_], h => simp [readLenLoop] at h
  | 4, [_, _], h => simp [readLenLoop] at h
  | 4, [_, _, _], h => simp [readLenLoop] at h
  | 4, b1 :: b2 :: b3 :: b4 :: r, h =>
    simp only [readLenLoop] at h
    repeat' split at h
    all_goals cases h
    generalize hL : (((0 * 256 + b1.toNat) * 256 + b2.toNat) * 256 + b3.toNat) * 256 + b4.toNat = len at hlen ⊢
    have h2 : rest = rest := rfl
    have := b1.toNat_lt
    have := b2.toNat_lt
    have := b3.toNat_lt
    have := b4.toNat_lt
    have hl1 : ¬ len < 256 := by omega
    have hl2 : ¬ len < 65536 := by omega
    have hl3 : ¬ len < 16777216 := by omega
    simp only [lenDigits, if_neg hl1, if_neg hl2, if_neg hl3]
    rw [u8_ofNat_toNat_eq b1 (len / 16777216 % 256) (by omega), u8_ofNat_toNat_eq b2 (len / 65536 % 256) (by omega),
      u8_ofNat_toNat_eq b3 (len / 256 % 256) (by omega), u8_ofNat_toNat_eq b4 (len % 256) (by omega), h2]
    exact ⟨rfl, rfl⟩
  | n + 5, [], h => simp [readLenLoop] at h
  | n + 5, [_], h => simp [readLenLoop] at h
  | n + 5, [_, _], h => simp [readLenLoop] at h
  | n + 5, [_, _, _], h => simp [readLenLoop] at h
  | n + 5, [_, _, _, _], h => simp [readLenLoop] at h
  | n + 5, b1 :: b2 :: b3 :: b4 :: b5 :: r, h =>
    exfalso
    obtain ⟨h, a1, n1⟩ := readLenLoop_step _ _ _ _ _ _ h
    obtain ⟨h, a2, n2⟩ := readLenLoop_step _ _ _ _ _ _ h
    obtain ⟨h, a3, n3⟩ := readLenLoop_step _ _ _ _ _ _ h
    obtain ⟨h, a4, n4⟩ := readLenLoop_step _ _ _ _ _ _ h
    obtain ⟨h, a5, n5⟩ := readLenLoop_step _ _ _ _ _ _ h
    omega

/-- **Canonicity of the length field**: what `readLen` accepts is what `encLen` writes. -/
theorem readLen_canonical (bs : Bytes) (n : Nat) (rest : Bytes) (h : readLen bs = .ok (n, rest)) :
    bs = encLen n ++ rest := by
  cases bs with
  | nil => simp [readLen] at h
  | cons b tl =>
    simp only [readLen] at h
    split at h
    · rename_i h1
      simp only [Res.ok.injEq, Prod.mk.injEq] at h
      obtain ⟨h2, h3⟩ := h
      have hn : n < 128 := by omega
      simp only [encLen, if_pos hn]
      rw [u8_ofNat_toNat_eq b n (by omega), h3]; rfl
    · rename_i h1
      split at h
      · cases h
      · rename_i h2
        split at h
        · rename_i len rest' heq
          split at h
          · cases h
          · rename_i h3
            simp only [Res.ok.injEq, Prod.mk.injEq] at h
            obtain ⟨h4, h5⟩ := h
            subst h4; subst h5
            obtain ⟨c1, c2⟩ := readLenLoop_canonical _ _ _ _ heq (by omega) (by omega)
            have hn : ¬ len < 128 := h3
            simp only [encLen, if_neg hn]
            have := b.toNat_lt
            rw [c2, u8_ofNat_toNat_eq b (128 + (b.toNat - 128)) (by omega), c1]; rfl
        · cases h
        · cases h

/-- **Canonicity of elements with a low tag number**: the accepted encoding is `writeTLV t body` for the
    identifier octet `t` it starts with, and the reported header is `hdrOf t |body|`. -/
theorem readElem_canonical (bs : Bytes) (e : Elem) (rest : Bytes) (h : readElem bs = .ok (e, rest))
    (hlow : e.hdr.tag < 31) :
    ∃ t : UInt8, t.toNat % 32 ≠ 31 ∧ e.hdr = hdrOf t e.body.length ∧ e.full = writeTLV t e.body ∧
      e.body.length < 2147483648 := by
  obtain ⟨hs, ⟨hb, _, hfull⟩, hlen⟩ := readElem_split bs e rest h
  obtain ⟨after, hh, hle, hrest⟩ := readElem_hdr bs e rest h
  cases bs with
  | nil => simp [readHdr] at hh
  | cons b tl =>
    simp only [readHdr] at hh
    split at hh
    · -- high-tag-number form: the tag is ≥ 31
      exfalso
      split at hh
      · split at hh
        · cases hh
        · rename_i hge
          split at hh
          · simp only [Res.ok.injEq, Prod.mk.injEq] at hh
            rw [← hh.1] at hlow
            simp only at hlow
            omega
          · cases hh
          · cases hh
      · cases hh
      · cases hh
    · rename_i h31
      split at hh
      · rename_i l rest2 heq
        simp only [Res.ok.injEq, Prod.mk.injEq] at hh
        obtain ⟨h1, h2⟩ := hh
        subst h2
        have hc := readLen_canonical _ _ _ heq
        have hlt := readLen_lt _ _ _ heq
        have hl : e.hdr.len = l := by rw [← h1]
        have hbl : e.body.length = l := by rw [hlen, hl]
        refine ⟨b, h31, ?_, ?_, by omega⟩
        · rw [← h1, hbl]; rfl
        · -- full ++ rest = b :: encLen l ++ after, after = body ++ rest
          have ha : rest2 = e.body ++ rest := by
            have hb1 : e.body = rest2.take l := by
              have := readElem_split (b :: tl) e rest h
              -- body is the first l octets of `after`
              simp only [readElem, readHdr, if_neg h31, heq] at h
              split at h
              · cases h
              · simp only [Res.ok.injEq, Prod.mk.injEq] at h
                rw [← h.1]
            rw [hb1, hrest, hl, List.take_append_drop]
          have h3 : b :: tl = (b :: encLen l ++ e.body) ++ rest := by
            rw [hc, ha]; simp
          rw [hs] at h3
          have := List.append_cancel_right h3
          rw [this]; simp [writeTLV, hbl]
      · cases hh
      · cases hh

end ZV.Der
