import ZV.Model.C32
/-! helper lemmas for C32: invariants of the record reader, the fill loop and readHandshake -/
namespace ZV.C32

theorem idx_ok_of_lt (l : Bytes) (i : Nat) (h : i < l.length) : ∃ b, idx l i = .ok b := by
  unfold idx
  rw [List.getElem?_eq_getElem h]
  exact ⟨_, rfl⟩

/-- what one call of the record reader guarantees -/
def Good (st : St) (s : Bytes) : Out → Prop
  | .panic => False
  | .err _ => True
  | .ok st' rest =>
    rest.length + 5 ≤ s.length ∧ st'.pos - st.pos = s.length - rest.length ∧ st.pos ≤ st'.pos ∧
    st'.retry ≤ max st.retry maxUselessRecords ∧
    st.hand.length < st'.hand.length ∧ st'.hand.length ≤ st.hand.length + maxPlaintext

/-- a retried read (after an ignored record of `k` bytes) inherits the guarantee -/
theorem good_lift {st st' : St} {s rest : Bytes} {o : Out} (k : Nat)
    (hg : Good st' rest o) (hh : st'.hand = st.hand) (hp : st'.pos = st.pos + k) (hl : s.length = rest.length + k)
    (hr : st'.retry ≤ maxUselessRecords) : Good st s o := by
  cases o with
  | panic => exact hg
  | err _ => trivial
  | ok st2 r2 =>
    simp only [Good] at hg ⊢
    obtain ⟨h1, h2, h3, h4, h5, h6⟩ := hg
    rw [hh] at h5 h6
    refine ⟨by omega, by omega, by omega, ?_, h5, h6⟩
    have : max st'.retry maxUselessRecords = maxUselessRecords := Nat.max_eq_right hr
    rw [this] at h4
    exact Nat.le_trans h4 (Nat.le_max_right _ _)

theorem readRecord_good (vers : Nat) (st : St) (s : Bytes) : Good st s (readRecord vers st s) := by
  fun_induction readRecord vers st s
  all_goals try (simp [Good]; done)
  case case13 st t v1 v2 n1 n2 body typ rv n _ _ _ _ hbody data rest st1 _ _ st2 _ htyp _ d1 d0 _ _ _ _ _ hretry ih =>
    have hst2 : st2 = st1 := by simp [st2, htyp]
    refine good_lift (5 + n) ih ?_ ?_ ?_ ?_
    · simp [hst2, st1]
    · simp [hst2, st1]; omega
    · simp [rest, List.length_drop]; omega
    · simp only; omega
  case case15 st t v1 v2 n1 n2 body typ rv n _ _ _ _ _ data st1 _ _ st2 _ _ hlen hx =>
    obtain ⟨b1, h1⟩ := idx_ok_of_lt data 1 (by omega)
    obtain ⟨b0, h0⟩ := idx_ok_of_lt data 0 (by omega)
    exact hx b1 b0 h1 h0
  case case20 st t v1 v2 n1 n2 body typ rv n _ _ _ _ hbody data rest st1 _ _ st2 _ _ htyp _ d0 _ _ _ _ hretry ih =>
    have hst2 : st2 = st1 := by simp [st2, htyp]
    refine good_lift (5 + n) ih ?_ ?_ ?_ ?_
    · simp [hst2, st1]
    · simp [hst2, st1]; omega
    · simp [rest, List.length_drop]; omega
    · simp only; omega
  case case22 st t v1 v2 n1 n2 body typ rv n _ _ _ _ _ data st1 _ _ st2 _ _ _ hlen hx =>
    obtain ⟨b0, h0⟩ := idx_ok_of_lt data 0 (by omega)
    exact hx b0 h0
  case case24 st t v1 v2 n1 n2 body typ rv n _ _ _ _ hbody data rest st1 hmax _ st2 _ _ _ htyp hne =>
    have hd : data.length = n := by simp [data, List.length_take]; omega
    have hst2 : st2 = { st1 with retry := 0 } := by
      have : data.length > 0 := by omega
      simp [st2, htyp, this]
    simp only [Good, hst2, st1, List.length_append, List.length_cons]
    simp only [maxPlaintext] at hmax ⊢
    refine ⟨?_, ?_, by omega, by omega, by omega, by omega⟩
    · simp [rest, List.length_drop]; try omega
    · simp [rest, List.length_drop]; try omega

/-- guarantee of the `for c.hand.Len() < want { readRecord }` loop -/
def FillGood (want : Nat) (st : St) (s : Bytes) : Out → Prop
  | .panic => False
  | .err _ => True
  | .ok st' rest =>
    rest.length ≤ s.length ∧ want ≤ st'.hand.length ∧
    st'.hand.length < max (st.hand.length + 1) (want + maxPlaintext) ∧
    st'.retry ≤ max st.retry maxUselessRecords ∧ st.hand.length ≤ st'.hand.length

theorem fill_good (vers want : Nat) (st : St) (s : Bytes) : FillGood want st s (fill vers want st s) := by
  fun_induction fill vers want st s
  case case1 st s h =>
    simp only [FillGood]
    refine ⟨Nat.le_refl _, h, ?_, Nat.le_max_left _ _, Nat.le_refl _⟩
    exact Nat.lt_of_lt_of_le (Nat.lt_succ_self _) (Nat.le_max_left _ _)
  case case2 st s hlt st' rest hrr hlen ih =>
    have hg := readRecord_good vers st s
    rw [hrr] at hg
    simp only [Good] at hg
    obtain ⟨g1, g2, g3, g4, g5, g6⟩ := hg
    cases hf : fill vers want st' rest with
    | panic => rw [hf] at ih; exact ih
    | err _ => trivial
    | ok st2 r2 =>
      rw [hf] at ih
      simp only [FillGood] at ih ⊢
      obtain ⟨i1, i2, i3, i4, i5⟩ := ih
      refine ⟨by omega, i2, ?_, ?_, by omega⟩
      · have : st'.hand.length + 1 ≤ want + maxPlaintext := by omega
        have h2 : max (st'.hand.length + 1) (want + maxPlaintext) = want + maxPlaintext := Nat.max_eq_right this
        rw [h2] at i3
        exact Nat.lt_of_lt_of_le i3 (Nat.le_max_right _ _)
      · have : max st'.retry maxUselessRecords ≤ max st.retry maxUselessRecords := by
          apply Nat.max_le.mpr
          exact ⟨g4, Nat.le_max_right _ _⟩
        exact Nat.le_trans i4 this
  case case3 st s hlt st' rest hrr hlen =>
    have hg := readRecord_good vers st s
    rw [hrr] at hg
    simp only [Good] at hg
    omega
  case case4 => trivial
  case case5 st s hlt hrr =>
    have hg := readRecord_good vers st s
    rw [hrr] at hg
    exact hg

def bufBound : Nat := 4 + maxHandshake + maxPlaintext

theorem buf_arith {e h n N H P : Nat} (h0 : e < 4 + H + P) (a3 : h < max (e + 1) (4 + P))
    (b3 : n < max (h + 1) (4 + N + P)) (_hN : N ≤ H) : n - (4 + N) < 4 + H + P := by
  omega

def HGood (st : St) (s : Bytes) : HOut → Prop
  | .panic => False
  | .err _ => True
  | .complex st' => st'.hand.length < bufBound ∧ st'.retry ≤ max st.retry maxUselessRecords
  | .msg _ len st' rest =>
    4 ≤ len ∧ len ≤ 4 + maxHandshake ∧ st'.hand.length < bufBound ∧ rest.length ≤ s.length ∧
    st'.retry ≤ max st.retry maxUselessRecords

theorem readHandshake_good (vers : Nat) (st : St) (s : Bytes) (h0 : st.hand.length < bufBound) :
    HGood st s (readHandshake vers st s) := by
  unfold readHandshake
  have f1 := fill_good vers 4 st s
  cases h1 : fill vers 4 st s with
  | panic => rw [h1] at f1; exact f1
  | err _ => trivial
  | ok st1 s1 =>
    rw [h1] at f1
    simp only [FillGood] at f1
    obtain ⟨a1, a2, a3, a4, a5⟩ := f1
    obtain ⟨t, ht⟩ := idx_ok_of_lt st1.hand 0 (by omega)
    obtain ⟨a, ha⟩ := idx_ok_of_lt st1.hand 1 (by omega)
    obtain ⟨b, hb⟩ := idx_ok_of_lt st1.hand 2 (by omega)
    obtain ⟨c, hc⟩ := idx_ok_of_lt st1.hand 3 (by omega)
    simp only [ht, ha, hb, hc]
    by_cases hn : a.toNat * 65536 + b.toNat * 256 + c.toNat > maxHandshake
    · rw [if_pos hn]; trivial
    rw [if_neg hn]
    have f2 := fill_good vers (4 + (a.toNat * 65536 + b.toNat * 256 + c.toNat)) st1 s1
    cases h2 : fill vers (4 + (a.toNat * 65536 + b.toNat * 256 + c.toNat)) st1 s1 with
    | panic => rw [h2] at f2; exact f2
    | err _ => trivial
    | ok st2 s2 =>
      rw [h2] at f2
      simp only [FillGood] at f2
      obtain ⟨b1, b2, b3, b4, b5⟩ := f2
      have hr : st2.retry ≤ max st.retry maxUselessRecords := by
        have : max st1.retry maxUselessRecords ≤ max st.retry maxUselessRecords :=
          Nat.max_le.mpr ⟨a4, Nat.le_max_right _ _⟩
        exact Nat.le_trans b4 this
      have hN : a.toNat * 65536 + b.toNat * 256 + c.toNat ≤ maxHandshake := by omega
      have hbuf : (st2.hand.drop (4 + (a.toNat * 65536 + b.toNat * 256 + c.toNat))).length < bufBound := by
        rw [List.length_drop]
        exact buf_arith h0 a3 b3 hN
      cases hk : msgKind t.toNat with
      | unknown => trivial
      | complex => exact ⟨hbuf, hr⟩
      | simple =>
        simp only
        by_cases hs : simpleOK t.toNat (a.toNat * 65536 + b.toNat * 256 + c.toNat) = true
        · rw [if_pos hs]
          simp only [HGood]
          exact ⟨by omega, by omega, hbuf, by omega, hr⟩
        · rw [if_neg hs]; trivial
/-! ### halfConn.decrypt: no slice / index expression can fail, whatever the primitives return -/

theorem macPart_ne_panic (hc : HC) (typ pl : Nat) (payload : Bytes) (padLen : Nat) (good auth : Bool) :
    macPart hc typ pl payload padLen good auth ≠ .panic := by
  unfold macPart
  split
  · split
    · simp
    · rename_i hlen
      have h1 : slice payload (payload.length - hc.macSize - padLen) (payload.length - hc.macSize - padLen + hc.macSize)
          = .ok ((payload.take (payload.length - hc.macSize - padLen + hc.macSize)).drop (payload.length - hc.macSize - padLen)) := by
        unfold slice; rw [if_pos]; omega
      have h2 : sliceTo payload (payload.length - hc.macSize - padLen) = .ok (payload.take (payload.length - hc.macSize - padLen)) := by
        unfold sliceTo; rw [if_pos]; omega
      have h3 : sliceFrom payload (payload.length - hc.macSize - padLen + hc.macSize)
          = .ok (payload.drop (payload.length - hc.macSize - padLen + hc.macSize)) := by
        unfold sliceFrom; rw [if_pos]; omega
      simp only [h1, h2, h3]
      split <;> simp
  · simp

theorem tls13Part_ne_panic (hc : HC) (typ : Nat) (pt : Bytes) (k : Nat → Nat → DOut)
    (hk : ∀ t n, k t n ≠ .panic) : tls13Part hc typ pt k ≠ .panic := by
  unfold tls13Part
  split
  · split
    · simp
    · split
      · simp
      · split
        · simp
        · exact hk _ _
  · exact hk _ _

theorem padLoop_ok (payload : Bytes) (pl : Nat) : ∀ (k i : Nat) (g : Bool), i + k ≤ payload.length →
    ∃ b, padLoop payload pl k i g = .ok b := by
  intro k
  induction k with
  | zero => intro i g _; exact ⟨g, rfl⟩
  | succ k ih =>
    intro i g h
    unfold padLoop
    rw [if_pos (by omega)]
    obtain ⟨b, hb⟩ := idx_ok_of_lt payload (payload.length - 1 - i) (by omega)
    rw [hb]
    exact ih (i + 1) _ (by omega)

theorem extractPadding_ok (payload : Bytes) : ∃ r, extractPadding payload = .ok r := by
  unfold extractPadding
  split
  · exact ⟨_, rfl⟩
  · rename_i h
    obtain ⟨b, hb⟩ := idx_ok_of_lt payload (payload.length - 1) (by omega)
    rw [hb]
    simp only
    obtain ⟨g, hg⟩ := padLoop_ok payload b.toNat (if 256 > payload.length then payload.length else 256) 0
      (decide (b.toNat ≤ payload.length - 1)) (by split <;> omega)
    rw [hg]
    exact ⟨_, rfl⟩

/-- well-formed read state: a CBC cipher has a non-zero block size and comes with a MAC (true of every suite in the table) -/
def HC.WF (hc : HC) : Prop := hc.kind = .cbc → (0 < hc.block ∧ hc.hasMac = true)

theorem decrypt_ne_panic (hc : HC) (hwf : hc.WF) (typ : Nat) (payload dec : Bytes) (auth : Bool) :
    decrypt hc typ payload dec auth ≠ .panic := by
  unfold decrypt
  split
  · simp
  · simp only
    cases hk : hc.kind with
    | none => exact macPart_ne_panic _ _ _ _ _ _ _
    | stream => exact tls13Part_ne_panic _ _ _ _ (fun t n => macPart_ne_panic _ _ _ _ _ _ _)
    | aead =>
      simp only
      split
      · simp
      · rename_i hlen
        have h1 : sliceTo payload (explicitNonceLen hc) = .ok (payload.take (explicitNonceLen hc)) := by
          unfold sliceTo; rw [if_pos]; omega
        have h2 : sliceFrom payload (explicitNonceLen hc) = .ok (payload.drop (explicitNonceLen hc)) := by
          unfold sliceFrom; rw [if_pos]; omega
        simp only [h1, h2]
        split
        · simp
        · exact tls13Part_ne_panic _ _ _ _ (fun t n => macPart_ne_panic _ _ _ _ _ _ _)
    | cbc =>
      obtain ⟨hb, hm⟩ := hwf hk
      have hnm : ¬ (¬ hc.hasMac = true) := by simp [hm]
      simp only
      rw [if_neg hnm]
      have hru : roundUp (hc.macSize + 1) hc.block = .ok (hc.macSize + 1 + (hc.block - (hc.macSize + 1) % hc.block) % hc.block) := by
        unfold roundUp; rw [if_neg]; omega
      rw [hru]
      simp only
      split
      · simp
      · rename_i hg
        have hmod : payload.length % hc.block = 0 := by
          by_cases h : payload.length % hc.block = 0
          · exact h
          · exact absurd (Or.inl h) hg
        have hmin : ¬ payload.length < explicitNonceLen hc + (hc.macSize + 1 + (hc.block - (hc.macSize + 1) % hc.block) % hc.block) :=
          fun h => hg (Or.inr h)
        -- the part behind the IV is a whole number of blocks
        have hbody : ∃ body : Bytes, stripIV hc.block (explicitNonceLen hc) payload = .ok body ∧ body.length % hc.block = 0 := by
          unfold stripIV
          by_cases he : explicitNonceLen hc > 0
          · rw [if_pos he]
            have henl : explicitNonceLen hc = hc.block := by
              unfold explicitNonceLen at he ⊢
              rw [hk] at he ⊢
              simp only at he ⊢
              split
              · rfl
              · rename_i hv; rw [if_neg hv] at he; omega
            have h1 : sliceTo payload (explicitNonceLen hc) = .ok (payload.take (explicitNonceLen hc)) := by
              unfold sliceTo; rw [if_pos]; omega
            have h2 : sliceFrom payload (explicitNonceLen hc) = .ok (payload.drop (explicitNonceLen hc)) := by
              unfold sliceFrom; rw [if_pos]; omega
            simp only [h1, h2]
            have h3 : (payload.take (explicitNonceLen hc)).length = hc.block := by
              rw [List.length_take, henl]; omega
            rw [if_pos h3]
            refine ⟨_, rfl, ?_⟩
            rw [List.length_drop, henl]
            have hle : hc.block ≤ payload.length := by omega
            have := Nat.sub_mod_eq_zero_of_mod_eq (m := payload.length) (n := hc.block) (k := hc.block) (by rw [hmod, Nat.mod_self])
            exact this
          · rw [if_neg he]; exact ⟨payload, rfl, hmod⟩
        obtain ⟨body, hbe, hbm⟩ := hbody
        rw [hbe]
        simp only
        rw [if_neg (by omega)]
        obtain ⟨r, hr⟩ := extractPadding_ok (if dec.length = body.length then dec else body)
        rw [hr]
        exact tls13Part_ne_panic _ _ _ _ (fun t n => macPart_ne_panic _ _ _ _ _ _ _)

/-- only an authenticated record is ever delivered by a read state that has a cipher
    (outside the TLS 1.3 change_cipher_spec bypass) -/
theorem macPart_plain_auth (hc : HC) (typ pl : Nat) (payload : Bytes) (padLen : Nat) (good auth : Bool) (t n : Nat)
    (hm : hc.hasMac = true) (h : macPart hc typ pl payload padLen good auth = .plain t n) : auth = true := by
  by_cases hag : (auth && good) = true
  · simp at hag; exact hag.1
  · unfold macPart at h
    rw [if_pos hm] at h
    split at h
    · simp at h
    · simp only at h
      split at h <;> simp at h

end ZV.C32
