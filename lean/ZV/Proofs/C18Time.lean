import ZV.Model.C18Time
import ZV.Proofs.C18
import ZV.Proofs.TimeRT
/-!
  `MarshalWithParams` / `UnmarshalWithParams` of a bare `time.Time` (`ZV.Model.C18Time`): on Marshal's framing of
  the time content the decoder's header / EXPLICIT / IMPLICIT matching succeeds, selects the parser that matches
  the encoder, and returns `readBack t`.
-/
namespace ZV.C18.TimeField
open ZV ZV.C18 ZV.Time

/-- the tag the decoder will use to pick the content parser, for the header Marshal wrote -/
theorem timeSubstTag_universal (p : Params) (tag len : Nat) (hset : p.set = false) (htag : tag = 23 ∨ tag = 24) :
    timeSubstTag p { cls := 0, tag := tag, len := len, compound := false } = tag := by
  simp only [timeSubstTag, hset, Bool.false_eq_true, if_false, if_true]
  rcases htag with h | h <;> subst h <;> simp

/-- the domain of `time_field_roundtrip` beyond `Good p`: no string kind, no `set`, and — for an IMPLICIT tag,
    where the wire carries no universal tag — the decoder's choice (`utc` / `generalized` parameter, else UTCTime)
    is the encoder's choice. -/
def fieldOK (p : Params) (t : GoTime) : Bool :=
  decide (p.stringType = 0) && !p.set && !omittedTime p t &&
  (match p.tag with
   | some _ => p.explicit || decide (EA.timeTag p.timeType t = (if p.timeType ≠ 0 then p.timeType else 23))
   | none => true)

theorem timeTag_cases (tt : Nat) (t : GoTime) : EA.timeTag tt t = 23 ∨ EA.timeTag tt t = 24 := by
  simp only [EA.timeTag]; split <;> simp

theorem parseTimeField_wrap (perm : Bool) (p : Params) (t : GoTime) (body rest : Bytes) (hg : Good p)
    (hok : fieldOK p t = true) (hlen : (wrap p (EA.timeTag p.timeType t) false body).length < 2147483648) :
    parseTimeField perm p (wrap p (EA.timeTag p.timeType t) false body ++ rest) =
      (match EA.parseTimeBody perm (EA.timeTag p.timeType t) body with
       | .ok v => .ok (v, rest)
       | .err => .err
       | .panic => .panic) := by
  simp only [fieldOK, Bool.and_eq_true, decide_eq_true_eq, Bool.not_eq_true'] at hok
  obtain ⟨⟨⟨hstr, hset⟩, _⟩, himp⟩ := hok
  have htc := timeTag_cases p.timeType t
  generalize EA.timeTag p.timeType t = tag at *
  have htag30 : tag ≤ 30 := by omega
  have hne : (wrap p tag false body ++ rest).isEmpty = false := by
    have := wrap_nonempty p tag false body
    exact append_isEmpty_false this
  unfold parseTimeField
  simp only [hne, Bool.false_eq_true, if_false]
  unfold wrap at *
  cases hpt : p.tag with
  | none =>
    simp only [hpt] at hlen ⊢
    have hnex : p.explicit = false := by
      cases he : p.explicit with
      | false => rfl
      | true => exact absurd hpt (hg.explicitTag he)
    simp only [List.length_append] at hlen
    rw [List.append_assoc, parseTL_appendTL perm _ (by simp) (by simp; omega) (by simp; omega)]
    simp only [explicitStage, hnex, Bool.false_eq_true, if_false, timeSubstTag_universal p tag _ hset htc, expected, hpt]
    simp
    cases EA.parseTimeBody perm tag body <;> rfl
  | some tg =>
    have htg := hg.tagRange tg hpt
    simp only [hpt] at hlen himp ⊢
    cases he : p.explicit with
    | true =>
      simp only [he, if_true] at hlen ⊢
      simp only [List.length_append] at hlen
      have hpos := appendTL_length_pos { cls := 0, tag := tag, len := body.length, compound := false }
      have hcls : (if p.application = true then 1 else if p.priv = true then 3 else 2) < 4 := by split_ifs <;> omega
      rw [List.append_assoc, parseTL_appendTL perm _ (by simpa using hcls) (by simpa using htg) (by simp; omega)]
      simp only [explicitStage, he, if_true, hpt, anyPlainType, isRaw, isFlag, Bool.false_eq_true, if_false,
        List.length_append]
      simp only [true_and, or_true, if_true]
      have h1 : (appendTL { cls := 0, tag := tag, len := body.length, compound := false }).length + body.length > 0 := by
        omega
      have h2 : (appendTL { cls := 0, tag := tag, len := body.length, compound := false } ++ body ++ rest).isEmpty = false := by
        cases hh : appendTL { cls := 0, tag := tag, len := body.length, compound := false } with
        | nil => rw [hh] at hpos; simp at hpos
        | cons a l => simp
      simp only [h1, if_true, h2, Bool.false_eq_true, if_false]
      rw [List.append_assoc, parseTL_appendTL perm _ (by simp) (by simp; omega) (by simp; omega)]
      simp only [timeSubstTag_universal p tag _ hset htc, expected, he, hpt]
      simp
      cases EA.parseTimeBody perm tag body <;> rfl
    | false =>
      simp only [he, Bool.false_eq_true, if_false] at hlen ⊢
      simp only [he, Bool.false_or, decide_eq_true_eq] at himp
      simp only [List.length_append] at hlen
      have hcls : (if p.application = true then 1 else if p.priv = true then 3 else 2) < 4 := by split_ifs <;> omega
      rw [List.append_assoc, parseTL_appendTL perm _ (by simpa using hcls) (by simpa using htg) (by simp; omega)]
      simp only [explicitStage, he, Bool.false_eq_true, if_false, expected, hpt]
      have hcls0 : (if p.application = true then 1 else if p.priv = true then 3 else 2) ≠ 0 := by split_ifs <;> omega
      have hsub : ∀ c : Nat, c ≠ 0 → timeSubstTag p ⟨c, tg, body.length, false⟩ = tag := by
        intro c hc
        simp only [timeSubstTag, hset, Bool.false_eq_true, if_false, hc]
        rw [himp]
      rw [hsub _ hcls0]
      have hnb := hg.notBoth
      cases ha : p.application <;> cases hpv : p.priv <;> simp_all <;>
        (cases EA.parseTimeBody perm tag body <;> rfl)

end ZV.C18.TimeField
