import ZV.Model.C04
import ZV.Generated.C04
import ZV.Proofs.C06
/-! Lemmas for C04: the field reader applied to a written TLV. -/
namespace ZV.C04
open ZV ZV.Der ZV.C06

theorem writeTLV_ne_nil (t : UInt8) (body rest : Bytes) : (writeTLV t body ++ rest).isEmpty = false := by
  simp [writeTLV]

/-- `field` on a freshly written element whose header the field accepts. -/
theorem field_writeTLV (w : Want) (o : Bool) (t : UInt8) (body rest : Bytes) (ht : t.toNat % 32 ≠ 31)
    (hl : body.length < 2147483648) (hw : w.ok (hdrOf t body.length) = true) :
    field w o (writeTLV t body ++ rest) = .ok (some ⟨hdrOf t body.length, body, writeTLV t body⟩, rest) := by
  unfold field
  rw [writeTLV_ne_nil, readHdr_writeTLV t body rest ht hl, readElem_writeTLV t body rest ht hl]
  simp [hw]

/-- an optional field whose tag does not match consumes nothing -/
theorem field_skip (w : Want) (t : UInt8) (body rest : Bytes) (ht : t.toNat % 32 ≠ 31)
    (hl : body.length < 2147483648) (hw : w.ok (hdrOf t body.length) = false) :
    field w true (writeTLV t body ++ rest) = .ok (none, writeTLV t body ++ rest) := by
  unfold field
  rw [writeTLV_ne_nil, readHdr_writeTLV t body rest ht hl]
  simp [hw]

theorem field_nil_opt (w : Want) : field w true [] = .ok (none, []) := by
  simp [field]

theorem first_writeTLV (w : Want) (t : UInt8) (body : Bytes) (ht : t.toNat % 32 ≠ 31)
    (hl : body.length < 2147483648) (hw : w.ok (hdrOf t body.length) = true) :
    first w (writeTLV t body) = .ok ⟨hdrOf t body.length, body, writeTLV t body⟩ := by
  have := field_writeTLV w false t body [] ht hl hw
  simp only [List.append_nil] at this
  simp [first, someElem, this]

theorem gen_mem {cond : Bool} {oid : List Nat} {crit : Bool} {v : Option Bytes} {extra l : List Ext}
    (h : gen cond oid crit v extra = .ok l) : ∀ x ∈ l, x.oid = oid ∧ inExtra oid extra = false := by
  unfold gen at h
  split at h
  · rename_i hc
    split at h
    · simp at h; subst h
      intro x hx; simp at hx; subst hx
      simp at hc
      exact ⟨rfl, by simpa using hc.2⟩
    · cases h
  · simp at h; subst h; intro x hx; cases hx

theorem catRes_mem {rs : List (Res (List Ext))} {l : List Ext} (h : catRes rs = .ok l) :
    ∀ x ∈ l, ∃ r ∈ rs, ∃ lr, r = .ok lr ∧ x ∈ lr := by
  induction rs generalizing l with
  | nil => simp [catRes] at h; subst h; intro x hx; cases hx
  | cons r rs ih =>
    unfold catRes at h
    split at h
    · rename_i a
      split at h
      · rename_i b hb
        simp at h; subst h
        intro x hx
        rcases List.mem_append.mp hx with hx | hx
        · exact ⟨_, List.mem_cons_self, a, rfl, hx⟩
        · obtain ⟨r', hr', lr, e, hm⟩ := ih hb x hx
          exact ⟨r', List.mem_cons_of_mem _ hr', lr, e, hm⟩
      · cases h
      · cases h
    · cases h
    · cases h

end ZV.C04
