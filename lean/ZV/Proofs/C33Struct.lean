import ZV.Model.C33Struct
import ZV.Proofs.C33
/-! helper lemmas for the structured types of C33: decimal, dotted OIDs, hex, base64 -/
namespace ZV.C33

/-! ### decimal: `Atoi (Itoa n) = n` -/

theorem digitVal_digitChar : ∀ d : Fin 10, digitVal (digitChar d.val) = some d.val := by decide

theorem digitChar_ne_dot : ∀ d : Fin 10, digitChar d.val ≠ '.' ∧ digitChar d.val ≠ '-' ∧ digitChar d.val ≠ '+' := by decide

theorem parseDigitsAux_natToDecAux (f n : Nat) (acc : Str) (h : n < f) :
    parseDigitsAux (natToDecAux f n acc) 0 = parseDigitsAux acc n := by
  induction f generalizing n acc with
  | zero => omega
  | succ f ih =>
    simp only [natToDecAux]
    have hd := digitVal_digitChar ⟨n % 10, Nat.mod_lt _ (by decide)⟩
    simp only at hd
    split
    · rename_i h0
      simp only [parseDigitsAux, hd]
      have : 0 * 10 + n % 10 = n := by omega
      rw [this]
    · rename_i h0
      rw [ih (n / 10) _ (by omega)]
      simp only [parseDigitsAux, hd]
      have : n / 10 * 10 + n % 10 = n := by omega
      rw [this]

theorem natToDecAux_ne_nil (f n : Nat) (acc : Str) : natToDecAux (f + 1) n acc ≠ [] := by
  induction f generalizing n acc with
  | zero =>
    simp only [natToDecAux]
    split <;> simp
  | succ f ih =>
    rw [natToDecAux]
    split
    · simp
    · exact ih _ _

theorem natToDec_ne_nil (n : Nat) : natToDec n ≠ [] := natToDecAux_ne_nil n n []

theorem parseDigits_natToDec (n : Nat) : parseDigits (natToDec n) = some n := by
  have h := parseDigitsAux_natToDecAux (n + 1) n [] (by omega)
  have hne := natToDec_ne_nil n
  unfold parseDigits
  cases hs : natToDec n with
  | nil => exact absurd hs hne
  | cons c r =>
    simp only
    rw [← hs]
    unfold natToDec
    rw [h]
    rfl

/-- every character of `Itoa n` is a decimal digit. -/
theorem natToDecAux_mem (f n : Nat) (acc : Str) (c : Char) (h : c ∈ natToDecAux f n acc) :
    c ∈ acc ∨ ∃ d : Fin 10, c = digitChar d.val := by
  induction f generalizing n acc with
  | zero => simp only [natToDecAux] at h; exact Or.inl h
  | succ f ih =>
    simp only [natToDecAux] at h
    split at h
    · simp only [List.mem_cons] at h
      rcases h with h | h
      · exact Or.inr ⟨⟨n % 10, Nat.mod_lt _ (by decide)⟩, h⟩
      · exact Or.inl h
    · rcases ih _ _ h with h | h
      · simp only [List.mem_cons] at h
        rcases h with h | h
        · exact Or.inr ⟨⟨n % 10, Nat.mod_lt _ (by decide)⟩, h⟩
        · exact Or.inl h
      · exact Or.inr h

theorem natToDec_digits (n : Nat) (c : Char) (h : c ∈ natToDec n) : ∃ d : Fin 10, c = digitChar d.val := by
  rcases natToDecAux_mem _ _ _ _ h with h | h
  · simp at h
  · exact h

theorem natToDec_no_dot (n : Nat) : '.' ∉ natToDec n := by
  intro h
  obtain ⟨d, hd⟩ := natToDec_digits n _ h
  exact (digitChar_ne_dot d).1 hd.symm

theorem natToDec_head (n : Nat) : ∃ c r, natToDec n = c :: r ∧ c ≠ '-' ∧ c ≠ '+' := by
  cases hs : natToDec n with
  | nil => exact absurd hs (natToDec_ne_nil n)
  | cons c r =>
    refine ⟨c, r, rfl, ?_⟩
    have hm : c ∈ natToDec n := by rw [hs]; simp
    obtain ⟨d, hd⟩ := natToDec_digits n c hm
    have := digitChar_ne_dot d
    rw [hd]
    exact ⟨this.2.1, this.2.2⟩

theorem intToDec_ofNat (n : Nat) : intToDec (Int.ofNat n) = natToDec n := by
  have : ¬ ((n : Int) < 0) := by omega
  simp [intToDec, this]

theorem intToDec_no_dot (i : Int) : '.' ∉ intToDec i := by
  unfold intToDec
  split
  · intro h
    simp only [List.mem_cons] at h
    rcases h with h | h
    · exact absurd h (by decide)
    · exact natToDec_no_dot _ h
  · exact natToDec_no_dot _

theorem intToDec_ne_nil (i : Int) : intToDec i ≠ [] := by
  unfold intToDec
  split
  · simp
  · exact natToDec_ne_nil _

/-- `strconv.Atoi (strconv.Itoa i) = i` on the whole int64 range. -/
theorem atoi_intToDec (i : Int) (h0 : -9223372036854775808 ≤ i) (h1 : i < 9223372036854775808) :
    atoi (intToDec i) = some i := by
  unfold intToDec
  split
  · rename_i hneg
    simp only [atoi]
    simp only [or_true, if_true, parseDigits_natToDec]
    have : ¬ ((-i).toNat > 9223372036854775808) := by omega
    simp only [this, if_false]
    simp
    omega
  · rename_i hneg
    obtain ⟨c, r, hs, hc1, hc2⟩ := natToDec_head i.toNat
    have hp := parseDigits_natToDec i.toNat
    rw [hs] at hp ⊢
    simp only [atoi, hc1, hc2, or_self, if_false, hp]
    have : ¬ (i.toNat ≥ 9223372036854775808) := by omega
    simp only [this, if_false]
    simp
    omega

/-! ### `strings.Split(s, ".")` after a join -/

theorem splitDot_ne_nil (s : Str) : splitDot s ≠ [] := by
  induction s with
  | nil => simp [splitDot]
  | cons c r ih =>
    simp only [splitDot]
    split
    · simp
    · split <;> simp

theorem splitDot_noDot (p : Str) (h : '.' ∉ p) : splitDot p = [p] := by
  induction p with
  | nil => rfl
  | cons c r ih =>
    simp only [List.mem_cons, not_or] at h
    have hc : c ≠ '.' := fun e => h.1 e.symm
    simp only [splitDot, hc, if_false, ih h.2]

theorem splitDot_append (p rest : Str) (h : '.' ∉ p) :
    splitDot (p ++ '.' :: rest) = p :: splitDot rest := by
  induction p with
  | nil => simp [splitDot]
  | cons c r ih =>
    simp only [List.mem_cons, not_or] at h
    have hc : c ≠ '.' := fun e => h.1 e.symm
    simp only [List.cons_append, splitDot, hc, if_false, ih h.2]

theorem splitDot_joinDot (ps : List Str) (hne : ps ≠ []) (h : ∀ p ∈ ps, '.' ∉ p) :
    splitDot (joinDot ps) = ps := by
  induction ps with
  | nil => exact absurd rfl hne
  | cons a r ih =>
    cases r with
    | nil => simp only [joinDot]; exact splitDot_noDot a (h a (by simp))
    | cons b r' =>
      simp only [joinDot]
      rw [splitDot_append a _ (h a (by simp))]
      rw [ih (by simp) (fun p hp => h p (by simp only [List.mem_cons] at hp ⊢; exact Or.inr hp))]

theorem splitDot_oidStringI (o : List Int) (hne : o ≠ []) : splitDot (oidStringI o) = o.map intToDec := by
  unfold oidStringI
  apply splitDot_joinDot
  · simpa using hne
  · intro p hp
    simp only [List.mem_map] at hp
    obtain ⟨i, _, rfl⟩ := hp
    exact intToDec_no_dot i

def int64 (i : Int) : Prop := -9223372036854775808 ≤ i ∧ i < 9223372036854775808

theorem atoiAll_map (o : List Int) (h : ∀ a ∈ o, int64 a) : atoiAll (o.map intToDec) = some o := by
  induction o with
  | nil => rfl
  | cons a r ih =>
    have ha := h a (by simp)
    simp only [List.map_cons, atoiAll, atoi_intToDec a ha.1 ha.2,
      ih (fun x hx => h x (by simp only [List.mem_cons]; exact Or.inr hx))]

theorem atoiNonNeg_map (o : List Nat) (h : ∀ a ∈ o, a < 9223372036854775808) :
    atoiNonNeg (o.map natToDec) = some o := by
  induction o with
  | nil => rfl
  | cons a r ih =>
    have ha := h a (by simp)
    have h1 := atoi_intToDec (Int.ofNat a) (by simp only [Int.ofNat_eq_natCast]; omega) (by simp only [Int.ofNat_eq_natCast]; omega)
    rw [intToDec_ofNat] at h1
    simp only [List.map_cons, atoiNonNeg, h1,
      ih (fun x hx => h x (by simp only [List.mem_cons]; exact Or.inr hx))]
    simp

theorem oidStringI_ofNat (o : List Nat) : oidStringI (o.map Int.ofNat) = oidString o := by
  unfold oidStringI oidString
  congr 1
  rw [List.map_map]
  apply List.map_congr_left
  intro a _
  exact intToDec_ofNat a

theorem oidStringI_ne_nil (o : List Int) (hne : o ≠ []) : oidStringI o ≠ [] := by
  cases o with
  | nil => exact absurd rfl hne
  | cons a r =>
    unfold oidStringI
    cases r with
    | nil => simpa [joinDot] using intToDec_ne_nil a
    | cons b r' =>
      simp only [List.map_cons, joinDot]
      intro h
      have := intToDec_ne_nil a
      cases hh : intToDec a with
      | nil => exact this hh
      | cons _ _ => rw [hh] at h; simp at h

theorem intToDec_natCast (n : Nat) : intToDec (n : Int) = natToDec n := intToDec_ofNat n

/-- an integer literal written by `Itoa` / `big.Int.String` reads back (any size). -/
theorem litInt_intToDec (i : Int) : litInt (intToDec i) = some i := by
  unfold intToDec
  split
  · rename_i hneg
    have hi : -Int.ofNat (-i).toNat = i := by simp only [Int.ofNat_eq_natCast]; omega
    simp only [litInt, parseDigits_natToDec, hi]
  · rename_i hneg
    obtain ⟨c, r, hs, hc1, _⟩ := natToDec_head i.toNat
    have hp := parseDigits_natToDec i.toNat
    have hi : Int.ofNat i.toNat = i := by simp only [Int.ofNat_eq_natCast]; omega
    rw [hs] at hp ⊢
    unfold litInt
    split
    · rename_i heq
      injection heq with h1 _
      exact absurd h1 hc1
    · simp only [hp, hi]

theorem bigSetString10_intToDec (e : Int) : bigSetString10 (intToDec e) = some e := by
  unfold intToDec
  split
  · rename_i hneg
    have hi : -Int.ofNat (-e).toNat = e := by simp only [Int.ofNat_eq_natCast]; omega
    simp only [bigSetString10, or_true, if_true, parseDigits_natToDec, hi]
  · rename_i hneg
    obtain ⟨c, r, hs, hc1, hc2⟩ := natToDec_head e.toNat
    have hp := parseDigits_natToDec e.toNat
    have hi : Int.ofNat e.toNat = e := by simp only [Int.ofNat_eq_natCast]; omega
    rw [hs] at hp ⊢
    simp only [bigSetString10, hc1, hc2, or_self, if_false, hp, hi]

theorem memInt_num_intToDec (i : Int) (h : int64 i) :
    memInt int64Min int64Max (some (JV.num (intToDec i))) = .ok i := by
  have hr : inRange int64Min int64Max i = true := by
    rw [inRange_iff]; unfold int64 at h; simp only [int64Min, int64Max]; omega
  simp only [memInt, litInt_intToDec, hr, if_true]

/-! ### hex -/

theorem hexVal_hexDigit : ∀ n : Fin 16, hexVal (hexDigit n.val) = some n.val := by decide

theorem hexDecode_hexEncode (b : Bytes) : hexDecode (hexEncode b) = some b := by
  unfold hexDecode
  induction b with
  | nil => rfl
  | cons x r ih =>
    have h1 := hexVal_hexDigit ⟨x.toNat / 16, by have := x.toNat_lt; omega⟩
    have h2 := hexVal_hexDigit ⟨x.toNat % 16, Nat.mod_lt _ (by decide)⟩
    simp only at h1 h2
    simp only [hexEncode, ofHexChars, h1, h2, ih]
    congr 2
    have : x.toNat / 16 * 16 + x.toNat % 16 = x.toNat := by omega
    rw [this]
    simp

/-! ### base64 -/

theorem b64Val_b64Char : ∀ n : Fin 64, b64Val (b64Char n.val) = some n.val := by decide

theorem b64Char_ok : ∀ n : Fin 64, b64Char n.val ≠ '=' ∧ notCRLF (b64Char n.val) = true := by decide

theorem b64Encode_filter (b : Bytes) : (b64Encode b).filter notCRLF = b64Encode b := by
  rw [List.filter_eq_self]
  intro c hc
  fun_induction b64Encode b with
  | case1 => simp at hc
  | case2 a =>
    have h1 := (b64Char_ok ⟨a.toNat / 4, by have := a.toNat_lt; omega⟩).2
    have h2 := (b64Char_ok ⟨a.toNat % 4 * 16, by omega⟩).2
    simp only [List.mem_cons, List.not_mem_nil, or_false] at hc
    rcases hc with rfl | rfl | rfl | rfl
    · exact h1
    · exact h2
    · decide
    · decide
  | case3 a b =>
    have h1 := (b64Char_ok ⟨a.toNat / 4, by have := a.toNat_lt; omega⟩).2
    have h2 := (b64Char_ok ⟨a.toNat % 4 * 16 + b.toNat / 16, by have := b.toNat_lt; omega⟩).2
    have h3 := (b64Char_ok ⟨b.toNat % 16 * 4, by omega⟩).2
    simp only [List.mem_cons, List.not_mem_nil, or_false] at hc
    rcases hc with rfl | rfl | rfl | rfl
    · exact h1
    · exact h2
    · exact h3
    · decide
  | case4 a b c' r ih =>
    have h1 := (b64Char_ok ⟨a.toNat / 4, by have := a.toNat_lt; omega⟩).2
    have h2 := (b64Char_ok ⟨a.toNat % 4 * 16 + b.toNat / 16, by have := b.toNat_lt; omega⟩).2
    have h3 := (b64Char_ok ⟨b.toNat % 16 * 4 + c'.toNat / 64, by have := c'.toNat_lt; omega⟩).2
    have h4 := (b64Char_ok ⟨c'.toNat % 64, by omega⟩).2
    simp only [List.mem_cons] at hc
    rcases hc with rfl | rfl | rfl | rfl | hc
    · exact h1
    · exact h2
    · exact h3
    · exact h4
    · exact ih hc

theorem b64DecodeQ_b64Encode (b : Bytes) : b64DecodeQ (b64Encode b) = some b := by
  fun_induction b64Encode b with
  | case1 => rfl
  | case2 a =>
    have ha := a.toNat_lt
    have v1 := b64Val_b64Char ⟨a.toNat / 4, by omega⟩
    have v2 := b64Val_b64Char ⟨a.toNat % 4 * 16, by omega⟩
    simp only at v1 v2
    simp only [b64DecodeQ, v1, v2, and_self, if_true]
    have : a.toNat / 4 * 4 + a.toNat % 4 * 16 / 16 = a.toNat := by omega
    rw [this]; simp
  | case3 a b =>
    have ha := a.toNat_lt
    have hb := b.toNat_lt
    have v1 := b64Val_b64Char ⟨a.toNat / 4, by omega⟩
    have v2 := b64Val_b64Char ⟨a.toNat % 4 * 16 + b.toNat / 16, by omega⟩
    have v3 := b64Val_b64Char ⟨b.toNat % 16 * 4, by omega⟩
    have n3 := (b64Char_ok ⟨b.toNat % 16 * 4, by omega⟩).1
    simp only at v1 v2 v3 n3
    simp only [b64DecodeQ, v1, v2, v3, n3, if_false, if_true]
    have e1 : a.toNat / 4 * 4 + (a.toNat % 4 * 16 + b.toNat / 16) / 16 = a.toNat := by omega
    have e2 : (a.toNat % 4 * 16 + b.toNat / 16) % 16 * 16 + b.toNat % 16 * 4 / 4 = b.toNat := by omega
    rw [e1, e2]; simp
  | case4 a b c r ih =>
    have ha := a.toNat_lt
    have hb := b.toNat_lt
    have hc := c.toNat_lt
    have v1 := b64Val_b64Char ⟨a.toNat / 4, by omega⟩
    have v2 := b64Val_b64Char ⟨a.toNat % 4 * 16 + b.toNat / 16, by omega⟩
    have v3 := b64Val_b64Char ⟨b.toNat % 16 * 4 + c.toNat / 64, by omega⟩
    have v4 := b64Val_b64Char ⟨c.toNat % 64, by omega⟩
    have n3 := (b64Char_ok ⟨b.toNat % 16 * 4 + c.toNat / 64, by omega⟩).1
    have n4 := (b64Char_ok ⟨c.toNat % 64, by omega⟩).1
    simp only at v1 v2 v3 v4 n3 n4
    simp only [b64DecodeQ, v1, v2, v3, v4, n3, n4, if_false, ih]
    have e1 : a.toNat / 4 * 4 + (a.toNat % 4 * 16 + b.toNat / 16) / 16 = a.toNat := by omega
    have e2 : (a.toNat % 4 * 16 + b.toNat / 16) % 16 * 16 + (b.toNat % 16 * 4 + c.toNat / 64) / 4 = b.toNat := by omega
    have e3 : (b.toNat % 16 * 4 + c.toNat / 64) % 4 * 64 + c.toNat % 64 = c.toNat := by omega
    rw [e1, e2, e3]; simp

/-- `base64.StdEncoding`: `DecodeString (EncodeToString b) = b`. -/
theorem b64Decode_b64Encode (b : Bytes) : b64Decode (b64Encode b) = some b := by
  unfold b64Decode
  rw [b64Encode_filter, b64DecodeQ_b64Encode]

/-! ### IPv4 subtrees -/

theorem parseOctet_natToDec : ∀ n : Fin 256, parseOctet (natToDec n.val) = some (UInt8.ofNat n.val) := by
  decide +kernel

theorem digitChar_plain : ∀ d : Fin 10, digitChar d.val ≠ '/' ∧ digitChar d.val ≠ ':' ∧ digitChar d.val ≠ '%' := by decide

theorem cutSlash_append (p q : Str) (h : ∀ c ∈ p, c ≠ '/') :
    cutSlash (p ++ '/' :: q) = some (p, q) := by
  induction p with
  | nil => simp [cutSlash]
  | cons c r ih =>
    have hc : c ≠ '/' := h c (by simp)
    simp only [List.cons_append, cutSlash, hc, if_false, ih (fun x hx => h x (by simp only [List.mem_cons]; exact Or.inr hx))]

theorem firstSpecial_digits (p r : Str) (h : ∀ c ∈ p, ∃ d : Fin 10, c = digitChar d.val) :
    firstSpecial (p ++ '.' :: r) = some '.' := by
  induction p with
  | nil => simp [firstSpecial]
  | cons c t ih =>
    obtain ⟨d, hd⟩ := h c (by simp)
    have h1 := digitChar_ne_dot d
    have h2 := digitChar_plain d
    rw [← hd] at h1 h2
    simp only [List.cons_append, firstSpecial, h1.1, h2.2.1, h2.2.2, or_self, if_false,
      ih (fun x hx => h x (by simp only [List.mem_cons]; exact Or.inr hx))]

theorem octet_roundtrip (b : UInt8) : parseOctet (natToDec b.toNat) = some b := by
  have := parseOctet_natToDec ⟨b.toNat, b.toNat_lt⟩
  simpa using this

theorem ipv4String_mem (a b c d : UInt8) (x : Char) (h : x ∈ ipv4String [a, b, c, d]) :
    x = '.' ∨ ∃ k : Fin 10, x = digitChar k.val := by
  simp only [ipv4String, List.map_cons, List.map_nil, joinDot, List.mem_append, List.mem_cons] at h
  rcases h with h | h | h | h | h | h | h
  · exact Or.inr (natToDec_digits _ _ h)
  · exact Or.inl h
  · exact Or.inr (natToDec_digits _ _ h)
  · exact Or.inl h
  · exact Or.inr (natToDec_digits _ _ h)
  · exact Or.inl h
  · exact Or.inr (natToDec_digits _ _ h)

theorem parseV4_ipv4String (a b c d : UInt8) : parseV4 (ipv4String [a, b, c, d]) = some [a, b, c, d] := by
  have hs : splitDot (ipv4String [a, b, c, d]) = [natToDec a.toNat, natToDec b.toNat, natToDec c.toNat, natToDec d.toNat] := by
    unfold ipv4String
    apply splitDot_joinDot
    · simp
    · intro p hp
      simp only [List.map_cons, List.map_nil, List.mem_cons, List.not_mem_nil, or_false] at hp
      rcases hp with rfl | rfl | rfl | rfl <;> exact natToDec_no_dot _
  have hf : firstSpecial (ipv4String [a, b, c, d]) = some '.' := by
    simp only [ipv4String, List.map_cons, List.map_nil, joinDot]
    exact firstSpecial_digits _ _ (fun x hx => natToDec_digits _ _ hx)
  simp only [parseV4, hf, hs, octet_roundtrip]

theorem cutSlash_ipv4 (a b c d : UInt8) (q : Str) :
    cutSlash (ipv4String [a, b, c, d] ++ '/' :: q) = some (ipv4String [a, b, c, d], q) := by
  apply cutSlash_append
  intro x hx
  rcases ipv4String_mem a b c d x hx with h | ⟨k, h⟩
  · rw [h]; decide
  · rw [h]; exact (digitChar_plain k).1

theorem ipv4String_ne_nil (a b c d : UInt8) (q : Str) : ∃ x r, ipv4String [a, b, c, d] ++ '/' :: q = x :: r := by
  cases h : ipv4String [a, b, c, d] ++ '/' :: q with
  | nil => simp at h
  | cons x r => exact ⟨x, r, rfl⟩

theorem ones8_spec : ∀ v : Fin 256, ∀ k, ones8 v.val = some k → k < 8 ∧ UInt8.ofNat (256 - 2 ^ (8 - k)) = UInt8.ofNat v.val := by
  decide +kernel

theorem cidrMask_zero (l : Nat) (r : Bytes) (h : allZero r = true) (hl : r.length = l) : cidrMask l 0 = r := by
  induction r generalizing l with
  | nil => subst hl; rfl
  | cons b t ih =>
    subst hl
    simp only [allZero, Bool.decide_and, Bool.decide_eq_true, Bool.and_eq_true, decide_eq_true_eq] at h
    simp only [List.length_cons, cidrMask]
    have : ¬ (0 ≥ 8) := by omega
    simp only [this, if_false, ih _ h.2 rfl]
    rw [h.1]; rfl

/-- a contiguous mask IS `CIDRMask(its prefix length)`, and the length is at most 8·len. -/
theorem cidrMask_simpleMaskLength (m : Bytes) (n : Nat) (h : simpleMaskLength m = some n) :
    cidrMask m.length n = m ∧ n ≤ 8 * m.length := by
  induction m generalizing n with
  | nil => simp only [simpleMaskLength] at h; injection h with h; subst h; exact ⟨rfl, by simp⟩
  | cons v r ih =>
    simp only [simpleMaskLength] at h
    split at h
    · rename_i hv
      cases hr : simpleMaskLength r with
      | none => rw [hr] at h; cases h
      | some k =>
        rw [hr] at h
        injection h with h; subst h
        obtain ⟨h1, h2⟩ := ih k hr
        refine ⟨?_, by simp only [List.length_cons]; omega⟩
        simp only [List.length_cons, cidrMask]
        have : k + 8 ≥ 8 := by omega
        simp only [this, if_true, Nat.add_sub_cancel, h1, hv]
    · cases ho : ones8 v.toNat with
      | none => rw [ho] at h; cases h
      | some k =>
        rw [ho] at h
        simp only at h
        split at h
        · rename_i hz
          injection h with h; subst h
          obtain ⟨hk, hb⟩ := ones8_spec ⟨v.toNat, v.toNat_lt⟩ k ho
          refine ⟨?_, by simp only [List.length_cons]; omega⟩
          simp only [List.length_cons, cidrMask]
          have : ¬ (k ≥ 8) := by omega
          simp only [this, if_false, cidrMask_zero r.length r hz rfl, hb]
          simp
        · cases h

/-- a decimal prefix length (1–2 digits) is never taken for an eight-digit hex mask. -/
theorem hexMask4_prefix : ∀ l : Fin 33, hexMask4 (natToDec l.val) = none := by decide +kernel

theorem hexMask4_hexEncode (mask : Bytes) (h : mask.length = 4) : hexMask4 (hexEncode mask) = some mask := by
  simp only [hexMask4, hexDecode_hexEncode, h, if_true]

end ZV.C33
