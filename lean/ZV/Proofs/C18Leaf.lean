import ZV.Proofs.C18
import ZV.Proofs.C18Big
import ZV.Proofs.C18Oid
/-! C18: field-level round trips of the remaining leaf kinds: *big.Int, OBJECT IDENTIFIER, BIT STRING, Flag, nil []byte,
    RawValue. -/
namespace ZV.C18

/-- a leaf whose universal tag is fixed (not a string): framing + content -/
theorem plain_field_roundtrip (s : Schema) (p : Params) (v v' : Val) (utag : Nat) (enc rest : Bytes) (hg : Good p)
    (hu : univ s = some (false, utag, false)) (hne : utag ≠ 19) (ht : utag ≤ 30)
    (homit : omitted s p v = false) (hm : primMake s p v = .ok enc) (hlen : enc.length < 2147483648)
    (hbody : ∀ body, makePrimBody s p v = .ok body → ∀ u t full, parsePrim false s u t body full = .ok v') :
    primField false s p (enc ++ rest) = .ok (v', rest) := by
  obtain ⟨tag, body, htag, hset, hb, henc, _⟩ := primMake_ok s p _ enc false utag false hu homit hm
  simp only [marshalTag, hne, if_false, Option.some.injEq] at htag
  subst htag
  refine prim_roundtrip_core s p v' utag utag body enc rest hu hg henc hlen ht ?_ ?_
  · intro _; simp [substTag, hset, hne]
  · intro full; exact hbody body hb _ _ full

theorem bigint_field_roundtrip (p : Params) (i : Int) (enc rest : Bytes) (hg : Good p)
    (homit : omitted .bigint p (.int i) = false) (hm : primMake .bigint p (.int i) = .ok enc)
    (hlen : enc.length < 2147483648) :
    primField false .bigint p (enc ++ rest) = .ok (.int i, rest) := by
  refine plain_field_roundtrip .bigint p _ _ 2 enc rest hg rfl (by omega) (by omega) homit hm hlen ?_
  intro body hb u t full
  simp only [makePrimBody, Res.ok.injEq] at hb
  subst hb
  simp [parsePrim, parseBigInt_makeBigInt, resInt]

theorem oid_field_roundtrip (p : Params) (l : List Int) (enc rest : Bytes) (hg : Good p) (hok : oidOK l = true)
    (homit : omitted .oid p (.oid l) = false) (hm : primMake .oid p (.oid l) = .ok enc)
    (hlen : enc.length < 2147483648) :
    primField false .oid p (enc ++ rest) = .ok (.oid l, rest) := by
  refine plain_field_roundtrip .oid p _ _ 6 enc rest hg rfl (by omega) (by omega) homit hm hlen ?_
  intro body hb u t full
  obtain ⟨body', h1, h2⟩ := parseOID_makeOID l hok
  simp only [makePrimBody] at hb
  rw [h1] at hb
  simp only [Res.ok.injEq] at hb
  subst hb
  simp [parsePrim, h2]

theorem bits_field_roundtrip (p : Params) (bs : Bytes) (n : Int) (enc rest : Bytes) (hg : Good p)
    (hok : bitsOK bs n = true)
    (homit : omitted .bits p (.bits bs n) = false) (hm : primMake .bits p (.bits bs n) = .ok enc)
    (hlen : enc.length < 2147483648) :
    primField false .bits p (enc ++ rest) = .ok (.bits bs n, rest) := by
  refine plain_field_roundtrip .bits p _ _ 3 enc rest hg rfl (by omega) (by omega) homit hm hlen ?_
  intro body hb u t full
  simp only [makePrimBody, Res.ok.injEq] at hb
  subst hb
  simp [parsePrim, parseBitString_makeBits bs n hok]

/-- a Flag that is written at all is read back as `true` -/
theorem flag_field_roundtrip (p : Params) (b : Bool) (enc rest : Bytes) (hg : Good p)
    (homit : omitted .flag p (.bool b) = false) (hm : primMake .flag p (.bool b) = .ok enc)
    (hlen : enc.length < 2147483648) :
    primField false .flag p (enc ++ rest) = .ok (.bool true, rest) := by
  refine plain_field_roundtrip .flag p _ _ 1 enc rest hg rfl (by omega) (by omega) homit hm hlen ?_
  intro body hb u t full
  simp [parsePrim]

/-- a nil `[]byte` is written as an empty OCTET STRING and read back as the empty (non-nil) slice -/
theorem octets_null_roundtrip (p : Params) (enc rest : Bytes) (hg : Good p)
    (homit : omitted .octets p .null = false) (hm : primMake .octets p .null = .ok enc)
    (hlen : enc.length < 2147483648) :
    primField false .octets p (enc ++ rest) = .ok (.bytes [], rest) := by
  refine plain_field_roundtrip .octets p _ _ 4 enc rest hg rfl (by omega) (by omega) homit hm hlen ?_
  intro body hb u t full
  simp only [makePrimBody, Res.ok.injEq] at hb
  subst hb
  simp [parsePrim]

/-- and the two marshal identically -/
theorem octets_null_same (p : Params) (h : omitted .octets p .null = false) :
    primMake .octets p (.bytes []) = primMake .octets p .null := by
  have h2 : omitted .octets p (.bytes []) = false := by
    unfold omitted at h ⊢
    simp only [isSliceKind, lenZero, zeroVal, isIntKind, Bool.true_and, Bool.false_and, List.isEmpty_nil] at h ⊢
    cases hd : p.defaultValue <;> simp_all
  simp only [primMake, h, h2, makePrimBody, marshalTag, univ, show ¬ (4 = 19) by omega, if_false]

theorem takeFull_append (a b : Bytes) : takeFull (a ++ b) b = a := by
  unfold takeFull; simp

theorem raw_field_roundtrip (p : Params) (cls tag : Nat) (comp : Bool) (bs full enc rest : Bytes) (hg : Good p)
    (hpt : p.tag = none) (hok : rawOK cls tag comp bs full = true)
    (homit : omitted .raw p (.raw cls tag comp bs full) = false)
    (hm : makeField .raw p (.raw cls tag comp bs full) = .ok enc) (hlen : enc.length < 2147483648) :
    primField false .raw p (enc ++ rest) = .ok (.raw cls tag comp bs full, rest) := by
  simp only [rawOK, Bool.and_eq_true, decide_eq_true_eq] at hok
  obtain ⟨⟨hc, ht⟩, hfull⟩ := hok
  have hfl : full.length ≠ 0 := by
    have := appendTL_length_pos { cls := cls, tag := tag, len := bs.length, compound := comp }
    rw [hfull, List.length_append]; omega
  simp only [makeField, homit, Bool.false_eq_true, if_false, hfl, ne_eq, not_false_eq_true, if_true,
    Res.ok.injEq] at hm
  subst hm
  have hne : p.explicit = false := by
    cases he : p.explicit with
    | false => rfl
    | true => exact absurd hpt (hg.explicitTag he)
  have hbl : bs.length < 2147483648 := by rw [hfull, List.length_append] at hlen; omega
  have hemp : (full ++ rest).isEmpty = false := by
    cases hh : full with
    | nil => rw [hh] at hfl; simp at hfl
    | cons a l => simp
  unfold primField
  rw [hemp]
  simp only [Bool.false_eq_true, if_false]
  have hpre : parsePre false .raw p (full ++ rest) =
      .go { cls := cls, tag := tag, len := bs.length, compound := comp }
        (substTag p { cls := cls, tag := tag, len := bs.length, compound := comp } 0) bs rest := by
    unfold parsePre
    rw [hfull, List.append_assoc, parseTL_appendTL false _ hc ht hbl]
    simp [explicitStage, hne, matchStage, univ, expected, hpt]
  rw [hpre]
  simp only [parsePrim, takeFull_append]

end ZV.C18
