import ZV.Proofs.C06
import ZV.Proofs.DerLiteAppend
/-! C06: the structural parser run on the canonical encoder (`parseTbsPre` / `parseTbs` / `parseCert` on
    `encTbsPre` / `encTbsBody` / `encCert`), field by field. -/
namespace ZV.C06
open ZV ZV.Der

/-! ### single elements -/

theorem isElem_spec {w : Want} {bs : Bytes} (h : isElem w bs = true) :
    readElem bs = .ok (elemAt bs, []) ∧ w.ok (elemAt bs).hdr = true := by
  unfold isElem at h
  unfold elemAt
  split at h
  · rename_i e rest heq
    simp only [Bool.and_eq_true, List.isEmpty_iff] at h
    rw [heq, h.1]
    exact ⟨rfl, h.2⟩
  · cases h

theorem isElem_ne_nil {w : Want} {bs : Bytes} (h : isElem w bs = true) (t : Bytes) : (bs ++ t).isEmpty = false := by
  have := readElem_ne_nil _ _ _ (isElem_spec h).1
  cases bs with
  | nil => cases this
  | cons _ _ => rfl

theorem isElem_length {w : Want} {bs : Bytes} (h : isElem w bs = true) : 2 ≤ bs.length := by
  have := readElem_rest_lt _ _ _ (isElem_spec h).1
  simpa using this

theorem isElem_full {w : Want} {bs : Bytes} (h : isElem w bs = true) : (elemAt bs).full = bs := by
  have := (readElem_split _ _ _ (isElem_spec h).1).1
  simpa using this.symm

/-- the header `readHdr` reports for `bs ++ t` when `bs` is one element -/
theorem isElem_hdr {w : Want} {bs : Bytes} (h : isElem w bs = true) (t : Bytes) :
    ∃ after, readHdr (bs ++ t) = .ok ((elemAt bs).hdr, after) := by
  obtain ⟨after, hh, _, _⟩ := readElem_hdr _ _ _ (isElem_spec h).1
  exact ⟨after ++ t, readHdr_append _ _ _ t hh⟩

theorem readElem_isElem {w : Want} {bs : Bytes} (h : isElem w bs = true) (t : Bytes) :
    readElem (bs ++ t) = .ok (elemAt bs, t) := by
  have := readElem_append _ _ _ t (isElem_spec h).1
  simpa using this

/-- `parseField` on an element of the wanted kind followed by anything: the element, and what follows. -/
theorem field_isElem {w : Want} (o : Bool) {bs : Bytes} (t : Bytes) (h : isElem w bs = true) :
    field w o (bs ++ t) = .ok (some (elemAt bs), t) := by
  obtain ⟨after, hh⟩ := isElem_hdr h t
  unfold field
  rw [isElem_ne_nil h t, hh]
  simp only [Bool.false_eq_true, if_false, (isElem_spec h).2, Bool.not_true]
  rw [readElem_isElem h t]

theorem someElem_field_isElem {w : Want} (o : Bool) {bs : Bytes} (t : Bytes) (h : isElem w bs = true) :
    someElem (field w o (bs ++ t)) = .ok (elemAt bs, t) := by
  rw [field_isElem o t h]; rfl

/-- a written TLV is one element -/
theorem isElem_writeTLV (w : Want) (t : UInt8) (body : Bytes) (ht : t.toNat % 32 ≠ 31)
    (hl : body.length < 2147483648) (hw : w.ok (hdrOf t body.length) = true) :
    isElem w (writeTLV t body) = true ∧ elemAt (writeTLV t body) = elemOf t body := by
  have h := readElem_writeTLV t body [] ht hl
  rw [List.append_nil] at h
  unfold isElem elemAt
  rw [h]
  exact ⟨by simpa using hw, rfl⟩

/-! ### "what follows does not start with `[k]`" -/

/-- the input is exhausted, or its next header is not context-specific tag `k` -/
def startsWithout (k : Nat) (bs : Bytes) : Prop :=
  bs = [] ∨ ∃ h after, readHdr bs = .ok (h, after) ∧ (h.cls == 2 && h.tag == k) = false

theorem readHdr_ne_nil {bs : Bytes} {h : Hdr} {after : Bytes} (hh : readHdr bs = .ok (h, after)) :
    bs.isEmpty = false := by
  cases bs with
  | nil => simp [readHdr] at hh
  | cons _ _ => rfl

theorem field_ctx_absent {k : Nat} {c : Bool} {bs : Bytes} (h : startsWithout k bs) :
    field (.ctx k c) true bs = .ok (none, bs) := by
  rcases h with h | ⟨hd, after, hh, hk⟩
  · subst h; rfl
  · unfold field
    rw [readHdr_ne_nil hh, hh]
    have : (Want.ctx k c).ok hd = false := by
      simp only [Want.ok]
      rw [hk]; rfl
    simp [this]

theorem explicitField_absent {k : Nat} {w : Want} {bs : Bytes} (h : startsWithout k bs) :
    explicitField k w bs = .ok (none, bs) := by
  rcases h with h | ⟨hd, after, hh, hk⟩
  · subst h; rfl
  · unfold explicitField
    rw [readHdr_ne_nil hh, hh]
    simp only [Bool.false_eq_true, if_false, hk, Bool.false_and]

theorem optBitString_absent {k : Nat} {bs : Bytes} (h : startsWithout k bs) : optBitString k bs = .ok bs := by
  unfold optBitString
  rw [field_ctx_absent h]
  rfl

theorem res_bind_ok {α β} (a : α) (f : α → Res β) : (Res.ok a).bind f = f a := rfl

theorem isOk_elim {α} {r : Res α} (h : r.isOk = true) : ∃ a, r = .ok a := by
  cases r with
  | ok a => exact ⟨a, rfl⟩
  | err => cases h
  | panic => cases h

theorem optBitString_present {k : Nat} {u : Bytes} (t : Bytes) (h : wfUID k (some u) = true) :
    optBitString k (u ++ t) = .ok t := by
  simp only [wfUID, Bool.and_eq_true] at h
  obtain ⟨v, hv⟩ := isOk_elim h.2
  unfold optBitString
  rw [field_isElem true t h.1]
  simp only [Res.bind, hv]

/-- an element whose header is acceptable for `w` does not start with `[k]` when `w` excludes that -/
theorem startsWithout_isElem {k : Nat} {w : Want} {bs : Bytes} (t : Bytes) (h : isElem w bs = true)
    (hw : ∀ hd, w.ok hd = true → (hd.cls == 2 && hd.tag == k) = false) : startsWithout k (bs ++ t) := by
  obtain ⟨after, hh⟩ := isElem_hdr h t
  exact Or.inr ⟨_, after, hh, hw _ (isElem_spec h).2⟩

theorem univ_not_ctx (k tg : Nat) (c : Bool) (hd : Hdr) (h : (Want.univ tg c).ok hd = true) :
    (hd.cls == 2 && hd.tag == k) = false := by
  simp only [Want.ok, Bool.and_eq_true, beq_iff_eq] at h
  simp [h.1.1]

theorem ctx_not_ctx (k j : Nat) (c : Bool) (hjk : j ≠ k) (hd : Hdr) (h : (Want.ctx j c).ok hd = true) :
    (hd.cls == 2 && hd.tag == k) = false := by
  simp only [Want.ok, Bool.and_eq_true, beq_iff_eq] at h
  simp [h.1.2, hjk]

theorem startsWithout_writeTLV (k : Nat) (t : UInt8) (body rest : Bytes) (ht : t.toNat % 32 ≠ 31)
    (hl : body.length < 2147483648) (hk : t.toNat % 32 ≠ k) : startsWithout k (writeTLV t body ++ rest) := by
  refine Or.inr ⟨_, _, readHdr_writeTLV t body rest ht hl, ?_⟩
  simp [hdrOf, hk]

/-! ### explicit wrapper -/

theorem explicitField_wrap {k : Nat} {w : Want} (t : UInt8) {inner : Bytes} (rest : Bytes)
    (ht31 : t.toNat % 32 ≠ 31) (hcls : t.toNat / 64 = 2) (hcmp : t.toNat / 32 % 2 = 1) (htag : t.toNat % 32 = k)
    (hi : isElem w inner = true) (hl : inner.length < 2147483648) :
    explicitField k w (writeTLV t inner ++ rest) = .ok (some (elemAt inner, writeTLV t inner), rest) := by
  have hne : (writeTLV t inner ++ rest).isEmpty = false := by simp [writeTLV]
  have hlen := isElem_length hi
  have hl0 : (inner.length == 0) = false := by
    rw [beq_eq_false_iff_ne]; omega
  obtain ⟨after, hh⟩ := isElem_hdr hi rest
  unfold explicitField
  rw [hne, readHdr_writeTLV t inner rest ht31 hl]
  simp only [Bool.false_eq_true, if_false, hdrOf, hcls, hcmp, htag, beq_self_eq_true, Bool.true_and,
    decide_true, Bool.or_true, if_true, hl0, isElem_ne_nil hi rest, hh, (isElem_spec hi).2, Bool.not_true,
    readElem_isElem hi rest, take_sub_suffix]

/-! ### the fields before the extensions -/

theorem wfFields_iff (f : TbsFields) : wfFields f = true ↔
    wfVersion f.version = true ∧ isElem (.univ 2 false) f.serial = true ∧ checkInteger (elemAt f.serial).body = true ∧
    isElem (.univ 16 true) f.sigalg = true ∧ isElem .any f.issuer = true ∧ isElem (.univ 16 true) f.validity = true ∧
    isElem .any f.subject = true ∧ isElem (.univ 16 true) f.spki = true ∧
    wfUID 1 f.issuerUID = true ∧ wfUID 2 f.subjectUID = true := by
  simp only [wfFields, Bool.and_eq_true]
  constructor
  · rintro ⟨⟨⟨⟨⟨⟨⟨⟨a, b, c⟩, d⟩, e⟩, g⟩, h⟩, i⟩, j⟩, k⟩; exact ⟨a, b, c, d, e, g, h, i, j, k⟩
  · rintro ⟨a, b, c, d, e, g, h, i, j, k⟩; exact ⟨⟨⟨⟨⟨⟨⟨⟨a, b, c⟩, d⟩, e⟩, g⟩, h⟩, i⟩, j⟩, k⟩

/-- the version field: absent (next element is the universal INTEGER serial) or `A0 len INTEGER` -/
theorem version_step (v : Option Bytes) {serial : Bytes} (R : Bytes) (hv : wfVersion v = true)
    (hs : isElem (.univ 2 false) serial = true) (hl : ∀ b, v = some b → b.length < 2147483648) :
    ∃ ver, explicitField 0 (.univ 2 false) (encVersion v ++ (serial ++ R)) = .ok (ver, serial ++ R) ∧
      consumed ver = encVersion v ∧
      (match ver with | none => Res.ok (0 : Int) | some ve => parseInt64 ve.1.body) = .ok (verInt v) := by
  cases v with
  | none =>
    refine ⟨none, ?_, rfl, rfl⟩
    simp only [encVersion, List.nil_append]
    exact explicitField_absent (startsWithout_isElem R hs (univ_not_ctx 0 2 false))
  | some b =>
    simp only [wfVersion, Bool.and_eq_true] at hv
    refine ⟨some (elemAt b, writeTLV 0xA0 b), ?_, rfl, ?_⟩
    · simp only [encVersion]
      exact explicitField_wrap 0xA0 (serial ++ R) (by decide) (by decide) (by decide) (by decide) hv.1 (hl b rfl)
    · simp only [verInt]
      obtain ⟨x, hx⟩ := isOk_elim hv.2
      rw [hx]
      unfold parseInt64 at hx
      split at hx
      · cases hx
      · split at hx
        · cases hx
        · injection hx with hx; rw [hx]

/-- the two optional unique ids -/
theorem uid_steps (iu su : Option Bytes) (tail : Bytes) (h1 : wfUID 1 iu = true) (h2 : wfUID 2 su = true)
    (t1 : startsWithout 1 tail) (t2 : startsWithout 2 tail) :
    ((optBitString 1 (optBytes iu ++ (optBytes su ++ tail))).bind fun r7 => optBitString 2 r7) = .ok tail := by
  have s2 : optBitString 2 (optBytes su ++ tail) = .ok tail := by
    cases su with
    | none => simpa [optBytes] using optBitString_absent t2
    | some u => exact optBitString_present tail h2
  have s1 : optBitString 1 (optBytes iu ++ (optBytes su ++ tail)) = .ok (optBytes su ++ tail) := by
    cases iu with
    | some u => exact optBitString_present _ h1
    | none =>
      simp only [optBytes, List.nil_append]
      apply optBitString_absent
      cases su with
      | none => simpa [optBytes] using t1
      | some u =>
        simp only [wfUID, Bool.and_eq_true] at h2
        exact startsWithout_isElem tail h2.1 (ctx_not_ctx 1 2 false (by decide))
  rw [s1]; exact s2

/-- **`parseTbsPre ∘ encTbsPre`**: the fields before the extensions are read back, whatever follows them as
    long as it does not start with `[1]` or `[2]`. -/
theorem parseTbsPre_encTbsPre (f : TbsFields) (tail : Bytes) (hf : wfFields f = true)
    (hl : ∀ b, f.version = some b → b.length < 2147483648)
    (t1 : startsWithout 1 tail) (t2 : startsWithout 2 tail) :
    parseTbsPre (encTbsPre f ++ tail) =
      .ok (⟨verInt f.version, encVersion f.version, elemAt f.serial, elemAt f.sigalg, elemAt f.issuer,
            elemAt f.validity, elemAt f.subject, elemAt f.spki⟩, tail) := by
  obtain ⟨hver, hser, hchk, hsa, hiss, hval, hsub, hspki, hu1, hu2⟩ := (wfFields_iff f).mp hf
  obtain ⟨ver, e0, ec, ev⟩ := version_step f.version
    (f.sigalg ++ (f.issuer ++ (f.validity ++ (f.subject ++ (f.spki ++ (optBytes f.issuerUID ++ (optBytes f.subjectUID ++ tail)))))))
    hver hser hl
  have hu := uid_steps f.issuerUID f.subjectUID tail hu1 hu2 t1 t2
  rw [bind_ok] at hu
  obtain ⟨r7, hr7, hr8⟩ := hu
  unfold parseTbsPre
  simp only [encTbsPre, List.append_assoc]
  rw [e0, res_bind_ok]
  rcases ver with _ | ve <;>
  · dsimp only at ev ⊢
    rw [ev]
    simp only [res_bind_ok, someElem_field_isElem false _ hser, someElem_field_isElem false _ hsa,
      someElem_field_isElem false _ hiss, someElem_field_isElem false _ hval, someElem_field_isElem false _ hsub,
      someElem_field_isElem false _ hspki, hchk, Bool.not_true, Bool.false_eq_true, if_false, hr7, hr8, ec]

/-! ### the extension list -/

theorem wfExt_spec {x : Ext} (h : wfExt x = true) :
    readElem x.full = .ok (elemAt x.full, []) ∧ isSeqHdr (elemAt x.full).hdr = true ∧
      parseExt (elemAt x.full) = .ok x := by
  unfold wfExt at h
  unfold elemAt
  split at h
  · rename_i e rest heq
    simp only [Bool.and_eq_true, List.isEmpty_iff, decide_eq_true_eq] at h
    rw [heq, h.1.1]
    exact ⟨rfl, h.1.2, h.2⟩
  · cases h

theorem wfExt_intro {x : Ext} {e : Elem} (h1 : readElem x.full = .ok (e, [])) (h2 : isSeqHdr e.hdr = true)
    (h3 : parseExt e = .ok x) : wfExt x = true := by
  unfold wfExt
  rw [h1]
  simp [h2, h3]

theorem parseExtList_wf : ∀ (xs : List Ext), (∀ x ∈ xs, wfExt x = true) →
    parseExtList (xs.map fun x => elemAt x.full) = .ok xs := by
  intro xs
  induction xs with
  | nil => intro _; rfl
  | cons x xs ih =>
    intro h
    simp only [List.map_cons, parseExtList]
    rw [(wfExt_spec (h x List.mem_cons_self)).2.2, ih (fun y hy => h y (List.mem_cons_of_mem _ hy))]

/-- **SEQUENCE OF Extension reader on the concatenated extension encodings.** -/
theorem parseExts_extsFlat (xs : List Ext) (h : ∀ x ∈ xs, wfExt x = true) : parseExts (extsFlat xs) = .ok xs := by
  unfold parseExts extsFlat
  have hr : readElems (xs.map (·.full)).flatten = .ok ((xs.map (·.full)).map elemAt) := by
    apply readElems_flatten elemAt
    intro b hb
    obtain ⟨x, hx, rfl⟩ := List.mem_map.mp hb
    exact (wfExt_spec (h x hx)).1
  rw [hr]
  simp only [List.map_map]
  have hall : ((xs.map ((fun b => elemAt b) ∘ fun x => x.full)).all fun e => isSeqHdr e.hdr) = true := by
    rw [List.all_eq_true]
    intro e he
    obtain ⟨x, hx, rfl⟩ := List.mem_map.mp he
    exact (wfExt_spec (h x hx)).2.1
  rw [hall]
  exact parseExtList_wf xs h

theorem encExtsField_nil : encExtsField false [] = [] := rfl

/-- the field is written: the list is non-empty or `wrapEmpty` is set -/
def wraps (w : Bool) (xs : List Ext) : Prop := xs ≠ [] ∨ w = true

theorem encExtsField_wraps {w : Bool} {xs : List Ext} (h : wraps w xs) :
    encExtsField w xs = writeTLV 0xA3 (writeTLV 0x30 (extsFlat xs)) := by
  unfold encExtsField
  rcases h with h | h
  · cases xs with
    | nil => exact absurd rfl h
    | cons _ _ => rfl
  · subst h; simp

theorem encExtsField_ne {w : Bool} {xs : List Ext} (h : xs ≠ []) :
    encExtsField w xs = writeTLV 0xA3 (writeTLV 0x30 (extsFlat xs)) := encExtsField_wraps (Or.inl h)

theorem wraps_or (w : Bool) (xs : List Ext) : wraps w xs ∨ (xs = [] ∧ w = false) := by
  by_cases h : xs = []
  · cases w
    · exact Or.inr ⟨h, rfl⟩
    · exact Or.inl (Or.inr rfl)
  · exact Or.inl (Or.inl h)

theorem encExtsField_bounds (w : Bool) (xs : List Ext) (h : (encExtsField w xs).length < 2147483648)
    (hne : wraps w xs) :
    (extsFlat xs).length < 2147483648 ∧ (writeTLV 0x30 (extsFlat xs)).length < 2147483648 := by
  rw [encExtsField_wraps hne] at h
  have a := length_le_writeTLV 0xA3 (writeTLV 0x30 (extsFlat xs))
  have b := length_le_writeTLV 0x30 (extsFlat xs)
  omega

theorem startsWithout_encExtsField (k : Nat) (hk : k ≠ 3) (w : Bool) (xs : List Ext)
    (h : (encExtsField w xs).length < 2147483648) : startsWithout k (encExtsField w xs) := by
  rcases wraps_or w xs with hne | ⟨h1, h2⟩
  · have hb := encExtsField_bounds w xs h hne
    rw [encExtsField_wraps hne]
    have := startsWithout_writeTLV k 0xA3 (writeTLV 0x30 (extsFlat xs)) [] (by decide) hb.2
      (by intro h3; apply hk; rw [← h3]; decide)
    simpa using this
  · subst h1; subst h2; exact Or.inl rfl

theorem encTbsBody_bounds (f : TbsFields) (xs : List Ext) (hl : (encTbsBody f xs).length < 2147483648) :
    (∀ b, f.version = some b → b.length < 2147483648) ∧ (encExtsField f.wrapEmpty xs).length < 2147483648 := by
  simp only [encTbsBody, encTbsPre, List.length_append] at hl
  refine ⟨?_, by omega⟩
  intro b hb
  rw [hb] at hl
  have := length_le_writeTLV 0xA0 b
  simp only [encVersion] at hl
  omega

/-- the `[3]` field when the wrapper is ALWAYS written (what the no-CT re-encoding does), empty list included -/
theorem exts_wrapped_step (xs : List Ext) (h : ∀ x ∈ xs, wfExt x = true)
    (hl : (writeTLV 0xA3 (writeTLV 0x30 (extsFlat xs))).length < 2147483648) :
    ((explicitField 3 (.univ 16 true) (writeTLV 0xA3 (writeTLV 0x30 (extsFlat xs)))).bind fun x =>
      (match x.1 with
       | none => Res.ok []
       | some xe => parseExts xe.1.body)) = .ok xs := by
  have a := length_le_writeTLV 0xA3 (writeTLV 0x30 (extsFlat xs))
  have b := length_le_writeTLV 0x30 (extsFlat xs)
  obtain ⟨i1, i2⟩ := isElem_writeTLV (.univ 16 true) 0x30 (extsFlat xs) (by decide) (by omega) (by simp [Want.ok, hdrOf])
  have := explicitField_wrap (k := 3) (w := .univ 16 true) 0xA3 (inner := writeTLV 0x30 (extsFlat xs)) []
    (by decide) (by decide) (by decide) (by decide) i1 (by omega)
  rw [List.append_nil] at this
  rw [this]
  simp only [Res.bind, i2, elemOf]
  exact parseExts_extsFlat xs h

/-- the `[3]` field: omitted for the empty list (unless `wrapEmpty`), otherwise `A3 len 30 len extensions…` -/
theorem exts_step (w : Bool) (xs : List Ext) (h : ∀ x ∈ xs, wfExt x = true)
    (hl : (encExtsField w xs).length < 2147483648) :
    ((explicitField 3 (.univ 16 true) (encExtsField w xs)).bind fun x =>
      (match x.1 with
       | none => Res.ok []
       | some xe => parseExts xe.1.body)) = .ok xs := by
  rcases wraps_or w xs with hne | ⟨h1, h2⟩
  · rw [encExtsField_wraps hne] at hl ⊢
    exact exts_wrapped_step xs h hl
  · subst h1; subst h2; rfl

/-- **`parseTbs ∘ encTbs`** on the contents of the TBS SEQUENCE. -/
theorem parseTbs_encTbsBody (f : TbsFields) (xs : List Ext) (hf : wfFields f = true)
    (hx : ∀ x ∈ xs, wfExt x = true) (hl : (encTbsBody f xs).length < 2147483648) :
    parseTbs (encTbsBody f xs) =
      .ok ⟨verInt f.version, encVersion f.version, elemAt f.serial, elemAt f.sigalg, elemAt f.issuer,
           elemAt f.validity, elemAt f.subject, elemAt f.spki, encTbsPre f, xs⟩ := by
  obtain ⟨hv, he⟩ := encTbsBody_bounds f xs hl
  have hp := parseTbsPre_encTbsPre f (encExtsField f.wrapEmpty xs) hf hv
    (startsWithout_encExtsField 1 (by decide) _ xs he) (startsWithout_encExtsField 2 (by decide) _ xs he)
  have hs := exts_step f.wrapEmpty xs hx he
  rw [bind_ok] at hs
  obtain ⟨x, hx1, hx2⟩ := hs
  unfold parseTbs encTbsBody
  rw [hp, res_bind_ok]
  dsimp only
  rw [hx1, res_bind_ok]
  obtain ⟨x1, x2⟩ := x
  cases x1 <;>
  · dsimp only at hx2 ⊢
    rw [hx2, res_bind_ok, take_sub_suffix]

/-- `parseTbs` on the fields followed by an always-present `[3]` wrapper -/
theorem parseTbs_wrapped (f : TbsFields) (xs : List Ext) (hf : wfFields f = true)
    (hx : ∀ x ∈ xs, wfExt x = true)
    (hl : (encTbsPre f ++ writeTLV 0xA3 (writeTLV 0x30 (extsFlat xs))).length < 2147483648) :
    parseTbs (encTbsPre f ++ writeTLV 0xA3 (writeTLV 0x30 (extsFlat xs))) =
      .ok ⟨verInt f.version, encVersion f.version, elemAt f.serial, elemAt f.sigalg, elemAt f.issuer,
           elemAt f.validity, elemAt f.subject, elemAt f.spki, encTbsPre f, xs⟩ := by
  have hv : ∀ b, f.version = some b → b.length < 2147483648 := by
    intro b hb
    have := length_le_writeTLV 0xA0 b
    simp only [encTbsPre, hb, encVersion, List.length_append] at hl
    omega
  have he : (writeTLV 0xA3 (writeTLV 0x30 (extsFlat xs))).length < 2147483648 := by
    simp only [List.length_append] at hl; omega
  have hb : (writeTLV 0x30 (extsFlat xs)).length < 2147483648 := by
    have := length_le_writeTLV 0xA3 (writeTLV 0x30 (extsFlat xs)); omega
  have sw : ∀ k, k ≠ 3 → startsWithout k (writeTLV 0xA3 (writeTLV 0x30 (extsFlat xs))) := by
    intro k hk
    have := startsWithout_writeTLV k 0xA3 (writeTLV 0x30 (extsFlat xs)) [] (by decide) hb
      (by intro h3; apply hk; rw [← h3]; decide)
    simpa using this
  have hp := parseTbsPre_encTbsPre f _ hf hv (sw 1 (by decide)) (sw 2 (by decide))
  have hs := exts_wrapped_step xs hx he
  rw [bind_ok] at hs
  obtain ⟨x, hx1, hx2⟩ := hs
  unfold parseTbs
  rw [hp, res_bind_ok]
  dsimp only
  rw [hx1, res_bind_ok]
  obtain ⟨x1, x2⟩ := x
  cases x1 <;>
  · dsimp only at hx2 ⊢
    rw [hx2, res_bind_ok, take_sub_suffix]

/-- `parseTbs` after well-formed fields: what remains is decided by the `[3]` field parser on the tail alone. -/
theorem parseTbs_tail (f : TbsFields) (tail : Bytes) (hf : wfFields f = true)
    (hl : (encTbsPre f).length < 2147483648) (t1 : startsWithout 1 tail) (t2 : startsWithout 2 tail) :
    parseTbs (encTbsPre f ++ tail) =
      (explicitField 3 (.univ 16 true) tail).bind fun x =>
      (match x.1 with
       | none => Res.ok []
       | some xe => parseExts xe.1.body).bind fun xs =>
      .ok ⟨verInt f.version, encVersion f.version, elemAt f.serial, elemAt f.sigalg, elemAt f.issuer,
           elemAt f.validity, elemAt f.subject, elemAt f.spki, encTbsPre f, xs⟩ := by
  have hv : ∀ b, f.version = some b → b.length < 2147483648 := by
    intro b hb
    have := length_le_writeTLV 0xA0 b
    simp only [encTbsPre, hb, encVersion, List.length_append] at hl
    omega
  have hp := parseTbsPre_encTbsPre f tail hf hv t1 t2
  unfold parseTbs
  rw [hp, res_bind_ok]
  simp only [take_sub_suffix]
  rfl

/-! ### the certificate -/

theorem encCert_bounds (tbsBody sa sv : Bytes) (hl : (writeTLV 0x30 tbsBody ++ sa ++ sv).length < 2147483648) :
    tbsBody.length < 2147483648 := by
  have := length_le_writeTLV 0x30 tbsBody
  simp only [List.length_append] at hl
  omega

/-- **`parseCert ∘ encCert`**. -/
theorem parseCert_encCert (f : TbsFields) (xs : List Ext) (sa sv : Bytes) (hf : wfFields f = true)
    (hx : ∀ x ∈ xs, wfExt x = true) (hs : wfSig sa sv = true)
    (hl : (encTbs f xs ++ sa ++ sv).length < 2147483648) :
    parseCert (encCert (encTbs f xs) sa sv) =
      .ok ⟨elemOf 0x30 (encTbs f xs ++ sa ++ sv), elemOf 0x30 (encTbsBody f xs),
           ⟨verInt f.version, encVersion f.version, elemAt f.serial, elemAt f.sigalg, elemAt f.issuer,
            elemAt f.validity, elemAt f.subject, elemAt f.spki, encTbsPre f, xs⟩,
           elemAt sa, elemAt sv⟩ := by
  have hb := encCert_bounds (encTbsBody f xs) sa sv hl
  simp only [wfSig, Bool.and_eq_true] at hs
  obtain ⟨⟨hsa, hsv⟩, hbit⟩ := hs
  obtain ⟨bv, hbv⟩ := isOk_elim hbit
  obtain ⟨o1, o2⟩ := isElem_writeTLV (.univ 16 true) 0x30 (encTbs f xs ++ sa ++ sv) (by decide) hl
    (by simp [Want.ok, hdrOf])
  obtain ⟨i1, i2⟩ := isElem_writeTLV (.univ 16 true) 0x30 (encTbsBody f xs) (by decide) hb
    (by simp [Want.ok, hdrOf])
  have s1 := someElem_field_isElem false [] o1
  rw [List.append_nil, o2] at s1
  have s2 := someElem_field_isElem false (sa ++ sv) i1
  rw [i2] at s2
  have s3 := someElem_field_isElem false sv hsa
  have s4 := someElem_field_isElem false [] hsv
  rw [List.append_nil] at s4
  unfold parseCert encCert
  rw [s1]
  simp only [Res.bind, List.isEmpty_nil, Bool.not_true, Bool.false_eq_true, if_false, elemOf]
  have e : encTbs f xs ++ sa ++ sv = writeTLV 0x30 (encTbsBody f xs) ++ (sa ++ sv) := by
    simp [encTbs]
  rw [e, s2]
  simp only [elemOf]
  rw [parseTbs_encTbsBody f xs hf hx hb]
  simp only
  rw [s3]
  simp only
  rw [s4]
  simp only [hbv]

/-! ### canonical extensions -/

theorem validOID_poison : validOID oidPoison = true := by decide
theorem validOID_sctList : validOID oidSCTList = true := by decide

theorem isCT_mkExt_poison (c : Bool) (v : Bytes) : isCT (mkExt oidPoison c v) = true := by
  simp [isCT, mkExt]
theorem isCT_mkExt_sctList (c : Bool) (v : Bytes) : isCT (mkExt oidSCTList c v) = true := by
  simp [isCT, mkExt]

/-- contents of the Extension SEQUENCE written by `encExt` -/
def extBody (oid : Bytes) (critical : Bool) (value : Bytes) : Bytes :=
  writeTLV 0x06 oid ++ (if critical then writeTLV 0x01 [0xff] else []) ++ writeTLV 0x04 value

/-- **`parseExt ∘ encExt`**: a canonically written extension (valid OID contents, sizes below 2^31) is
    well-formed, i.e. it is one SEQUENCE element that `parseExt` decodes to `(oid, critical, value)`. -/
theorem wfExt_mkExt (oid : Bytes) (critical : Bool) (value : Bytes) (ho : validOID oid = true)
    (hl : (extBody oid critical value).length < 2147483648) : wfExt (mkExt oid critical value) = true := by
  have hlo : oid.length < 2147483648 := by
    have := length_le_writeTLV 0x06 oid
    simp only [extBody, List.length_append] at hl; omega
  have hlv : value.length < 2147483648 := by
    have := length_le_writeTLV 0x04 value
    simp only [extBody, List.length_append] at hl; omega
  obtain ⟨o1, o2⟩ := isElem_writeTLV (.univ 6 false) 0x06 oid (by decide) hlo (by simp [Want.ok, hdrOf])
  obtain ⟨v1, v2⟩ := isElem_writeTLV (.univ 4 false) 0x04 value (by decide) hlv (by simp [Want.ok, hdrOf])
  obtain ⟨c1, c2⟩ := isElem_writeTLV (.univ 1 false) 0x01 [0xff] (by decide) (by decide) (by simp [Want.ok, hdrOf])
  have hr := readElem_writeTLV 0x30 (extBody oid critical value) [] (by decide) hl
  rw [List.append_nil] at hr
  have fv := field_isElem false [] v1
  rw [List.append_nil, v2] at fv
  refine wfExt_intro (e := ⟨hdrOf 0x30 (extBody oid critical value).length, extBody oid critical value,
    writeTLV 0x30 (extBody oid critical value)⟩) hr (by simp [isSeqHdr, hdrOf]) ?_
  unfold parseExt
  simp only [extBody, List.append_assoc]
  rw [field_isElem false _ o1]
  simp only [o2, elemOf, ho, Bool.not_true, Bool.false_eq_true, if_false]
  cases critical with
  | true =>
    simp only [if_true]
    rw [field_isElem true _ c1]
    simp only [c2, elemOf, parseBool]
    simp only [fv, elemOf]
    simp [mkExt, encExt]
  | false =>
    simp only [Bool.false_eq_true, if_false, List.nil_append]
    have hskip : field (.univ 1 false) true (writeTLV 0x04 value) = .ok (none, writeTLV 0x04 value) := by
      have hh := readHdr_writeTLV 0x04 value [] (by decide) hlv
      rw [List.append_nil] at hh
      unfold field
      rw [readHdr_ne_nil hh, hh]
      simp [Want.ok, hdrOf]
    rw [hskip]
    simp only [fv, elemOf]
    simp [mkExt, encExt]

/-! ### sizes: inserting an extension only makes the encoding longer -/

theorem extsFlat_insertAt_length (i : Nat) (ct : Ext) (xs : List Ext) :
    (extsFlat (insertAt i ct xs)).length = (extsFlat xs).length + ct.full.length := by
  have e : extsFlat xs = extsFlat (xs.take i) ++ extsFlat (xs.drop i) := by
    unfold extsFlat
    rw [← List.flatten_append, ← List.map_append, List.take_append_drop]
  have e2 : extsFlat (insertAt i ct xs) = extsFlat (xs.take i) ++ (ct.full ++ extsFlat (xs.drop i)) := by
    unfold extsFlat insertAt
    simp
  rw [e2, e]
  simp only [List.length_append]; omega

theorem insertAt_ne_nil {α} (i : Nat) (x : α) (l : List α) : insertAt i x l ≠ [] := by
  unfold insertAt; simp

theorem encExtsField_length_mono (w : Bool) (i : Nat) (ct : Ext) (xs : List Ext) :
    (encExtsField w xs).length ≤ (encExtsField w (insertAt i ct xs)).length := by
  rcases wraps_or w xs with hne | ⟨h1, h2⟩
  · rw [encExtsField_wraps hne, encExtsField_ne (insertAt_ne_nil i ct xs)]
    apply writeTLV_length_mono
    apply writeTLV_length_mono
    rw [extsFlat_insertAt_length]; omega
  · subst h1; subst h2; simp [encExtsField_nil]

theorem encCert_size_mono (f : TbsFields) (i : Nat) (ct : Ext) (xs : List Ext) (sa sv : Bytes) :
    (encTbs f xs ++ sa ++ sv).length ≤ (encTbs f (insertAt i ct xs) ++ sa ++ sv).length := by
  have h : (encTbs f xs).length ≤ (encTbs f (insertAt i ct xs)).length := by
    unfold encTbs
    apply writeTLV_length_mono
    have := encExtsField_length_mono f.wrapEmpty i ct xs
    simp only [encTbsBody, List.length_append]; omega
  simp only [List.length_append]; omega

/-! ### accepted inputs are single elements -/

theorem field_some_isElem {w : Want} {o : Bool} {bs : Bytes} {e : Elem} (h : field w o bs = .ok (some e, [])) :
    isElem w bs = true ∧ elemAt bs = e := by
  have hr := field_some h
  unfold field at h
  split at h
  · split at h <;> simp at h
  · split at h
    · rename_i hd after heq
      split at h
      · split at h <;> simp at h
      · rename_i hw
        have hhd : e.hdr = hd := by
          obtain ⟨after', hh, _, _⟩ := readElem_hdr _ _ _ hr
          rw [heq] at hh
          injection hh with hh; injection hh with h1 _; exact h1.symm
        unfold isElem elemAt
        rw [hr]
        refine ⟨?_, rfl⟩
        show (([] : Bytes).isEmpty && w.ok e.hdr) = true
        rw [hhd]
        simpa using hw
    · cases h
    · cases h

theorem someElem_field_nil {w : Want} {o : Bool} {bs : Bytes} {e : Elem} {rest : Bytes}
    (h : someElem (field w o bs) = .ok (e, rest)) : field w o bs = .ok (some e, rest) := by
  unfold someElem at h
  split at h
  · rename_i e' r' heq
    simp at h; obtain ⟨h1, h2⟩ := h; subst h1; subst h2; exact heq
  · cases h
  · cases h
  · cases h

theorem wfCert_iff (f : TbsFields) (exts : List Ext) (sa sv : Bytes) : wfCert f exts sa sv = true ↔
    wfFields f = true ∧ (∀ x ∈ exts, wfExt x = true) ∧ wfSig sa sv = true ∧
      (encTbs f exts ++ sa ++ sv).length < 2147483648 := by
  simp only [wfCert, Bool.and_eq_true, List.all_eq_true, decide_eq_true_eq]
  constructor
  · rintro ⟨⟨⟨a, b⟩, c⟩, d⟩; exact ⟨a, b, c, d⟩
  · rintro ⟨a, b, c, d⟩; exact ⟨⟨⟨a, b⟩, c⟩, d⟩

end ZV.C06
