import ZV.Model.C11
import ZV.Proofs.C10Inv
/-!
  Helper lemmas for C11 (the chain walk).  Core Lean only.

  * `findNode` / `findEdge` return THE node / edge with the key when keys are distinct;
  * `mem_walk_step`: one layer of `walk`, with the adjacency maps replaced by `g.edges`
    through `WF.parents` (this is where the iteration order disappears);
  * length bound, prefix property and absence of duplicates of `walk`.
-/
namespace ZV.C11
open ZV.C10

/-! ### lookups -/

theorem findNode_some {ns : List Node} {k : NodeKey} {n : Node} (h : findNode ns k = some n) :
    n ∈ ns ∧ n.key = k := by
  unfold findNode at h
  refine ⟨List.mem_of_find?_eq_some h, ?_⟩
  have := List.find?_some h
  simpa using this

theorem findNode_of_mem {ns : List Node} {n : Node} (hn : n ∈ ns)
    (hd : (ns.map (·.key)).Nodup) : findNode ns n.key = some n := by
  induction ns with
  | nil => cases hn
  | cons a t ih =>
    simp only [List.map_cons, List.nodup_cons] at hd
    unfold findNode
    rw [List.find?_cons]
    rcases List.mem_cons.mp hn with rfl | hm
    · simp
    · have hne : a.key ≠ n.key := by
        intro he
        apply hd.1
        rw [he]
        exact List.mem_map_of_mem (f := fun x : Node => x.key) hm
      have hb : (a.key == n.key) = false := by simpa using hne
      simp only [hb]
      exact ih hm hd.2

theorem findEdge_some {es : List Edge} {fp : Nat} {e : Edge} (h : findEdge es fp = some e) :
    e ∈ es ∧ e.cert.fp = fp := by
  unfold findEdge at h
  refine ⟨List.mem_of_find?_eq_some h, ?_⟩
  have := List.find?_some h
  simpa using this

theorem findEdge_of_mem {es : List Edge} {e : Edge} (he : e ∈ es)
    (hd : (es.map (·.cert.fp)).Nodup) : findEdge es e.cert.fp = some e := by
  induction es with
  | nil => cases he
  | cons a t ih =>
    simp only [List.map_cons, List.nodup_cons] at hd
    unfold findEdge
    rw [List.find?_cons]
    rcases List.mem_cons.mp he with rfl | hm
    · simp
    · have hne : a.cert.fp ≠ e.cert.fp := by
        intro h
        apply hd.1
        rw [h]
        exact List.mem_map_of_mem (f := fun x : Edge => x.cert.fp) hm
      have hb : (a.cert.fp == e.cert.fp) = false := by simpa using hne
      simp only [hb]
      exact ih hm hd.2

/-- distinct fingerprints: an edge is determined by its fingerprint -/
theorem edge_ext_fp {V : Ver} {g : Graph} (wf : WF V g) {e e' : Edge}
    (he : e ∈ g.edges) (he' : e' ∈ g.edges) (h : e.cert.fp = e'.cert.fp) : e = e' := by
  have h1 := findEdge_of_mem he wf.edgesNodup
  have h2 := findEdge_of_mem he' wf.edgesNodup
  rw [h] at h1
  rw [h1] at h2
  exact Option.some.inj h2

theorem hasNode_of_mem {ns : List Node} {n : Node} (hn : n ∈ ns) : hasNode ns n.key = true := by
  unfold hasNode
  rw [List.any_eq_true]
  exact ⟨n, hn, by simp⟩

/-- the issuer of the start edge is a node of the graph -/
theorem startEdge_issuer_node {V : Ver} {g : Graph} (wf : WF V g) (c : Cert) :
    ∀ k, (startEdge V g c).issuer = some k → ∃ n ∈ g.nodes, n.key = k := by
  intro k hk
  unfold startEdge at hk
  cases hf : findEdge g.edges c.fp with
  | some e =>
    rw [hf] at hk
    exact (wf.issuerSome e (findEdge_some hf).1 k hk).2.2
  | none =>
    rw [hf] at hk
    simp only at hk
    cases hs : searchIssuer V g.nodes c.iss c.fp with
    | none => rw [hs] at hk; cases hk
    | some n =>
      rw [hs] at hk
      simp only [Option.map_some, Option.some.injEq] at hk
      unfold searchIssuer at hs
      exact ⟨n, List.mem_of_find?_eq_some hs, hk⟩

/-! ### one layer of `walk` -/

/-- the edges that `continueWalking` may append after `last`, stated over `g.edges` only -/
def NextEdge (g : Graph) (soFar : List Cert) (last e : Edge) : Prop :=
  e ∈ g.edges ∧
  (∃ k, last.issuer = some k ∧ e.child = k) ∧
  (∃ k', e.issuer = some k' ∧ skInChain k' soFar = false) ∧
  canAddToChain e.cert e.root soFar = true

theorem mem_walk_root {g : Graph} {fuel : Nat} {soFar : List Cert} {last : Edge} {ch : List Cert}
    (hr : last.root = true) : ch ∈ walk g fuel soFar last ↔ ch = soFar := by
  rw [walk.eq_1]
  simp only [hr, if_true, List.mem_singleton]

theorem walk_zero {g : Graph} {soFar : List Cert} {last : Edge} (hr : last.root = false) :
    walk g 0 soFar last = [] := by
  rw [walk.eq_1]
  simp only [hr, Bool.false_eq_true, if_false]
  cases last.issuer <;> rfl

/-- soundness of one layer -/
theorem mem_walk_step_mp {V : Ver} {g : Graph} (wf : WF V g) {fuel : Nat} {soFar : List Cert}
    {last : Edge} {ch : List Cert} (hr : last.root = false)
    (h : ch ∈ walk g (fuel + 1) soFar last) :
    ∃ e, NextEdge g soFar last e ∧ ch ∈ walk g fuel (soFar ++ [e.cert]) e := by
  rw [walk.eq_1] at h
  simp only [hr, Bool.false_eq_true, if_false] at h
  cases hi : last.issuer with
  | none => rw [hi] at h; cases h
  | some cur =>
    rw [hi] at h
    simp only at h
    cases hn : findNode g.nodes cur with
    | none => rw [hn] at h; cases h
    | some n =>
      rw [hn] at h
      simp only at h
      obtain ⟨hnmem, hnkey⟩ := findNode_some hn
      rw [List.mem_flatMap] at h
      obtain ⟨grp, hgrp, h⟩ := h
      split at h
      · cases h
      · rename_i hcond
        rw [List.mem_flatMap] at h
        obtain ⟨fp, hfp, h⟩ := h
        cases hfe : findEdge g.edges fp with
        | none => rw [hfe] at h; cases h
        | some e =>
          rw [hfe] at h
          simp only at h
          split at h
          · rename_i hcan
            obtain ⟨hemem, hefp⟩ := findEdge_some hfe
            have hp : pmem n grp.1 fp := ⟨grp.2, hgrp, hfp⟩
            obtain ⟨e', he'mem, he'fp, he'child, he'iss⟩ := (wf.parents n hnmem grp.1 fp).mp hp
            have hee : e = e' := edge_ext_fp wf hemem he'mem (by rw [hefp, he'fp])
            subst hee
            obtain ⟨_, _, m, hm, hmk⟩ := wf.issuerSome e hemem grp.1 he'iss
            have hhas : hasNode g.nodes grp.1 = true := by rw [← hmk]; exact hasNode_of_mem hm
            have hsk : skInChain grp.1 soFar = false := by
              rw [hhas] at hcond
              simpa using hcond
            exact ⟨e, ⟨hemem, ⟨cur, hi, by rw [he'child, hnkey]⟩, ⟨grp.1, he'iss, hsk⟩, hcan⟩, h⟩
          · cases h

/-- completeness of one layer -/
theorem mem_walk_step_mpr {V : Ver} {g : Graph} (wf : WF V g) {fuel : Nat} {soFar : List Cert}
    {last : Edge} {ch : List Cert} (hr : last.root = false)
    (hlast : ∀ k, last.issuer = some k → ∃ n ∈ g.nodes, n.key = k)
    {e : Edge} (hne : NextEdge g soFar last e) (h : ch ∈ walk g fuel (soFar ++ [e.cert]) e) :
    ch ∈ walk g (fuel + 1) soFar last := by
  obtain ⟨hemem, ⟨cur, hi, hchild⟩, ⟨k', hiss, hsk⟩, hcan⟩ := hne
  obtain ⟨n, hnmem, hnkey⟩ := hlast cur hi
  have hn : findNode g.nodes cur = some n := by
    rw [← hnkey]; exact findNode_of_mem hnmem wf.nodesNodup
  rw [walk.eq_1]
  simp only [hr, Bool.false_eq_true, if_false, hi, hn]
  obtain ⟨l, hl, hfp⟩ := (wf.parents n hnmem k' e.cert.fp).mpr
    ⟨e, hemem, rfl, by rw [hchild, hnkey], hiss⟩
  rw [List.mem_flatMap]
  refine ⟨(k', l), hl, ?_⟩
  simp only [hsk, Bool.and_false, Bool.false_eq_true, if_false]
  rw [List.mem_flatMap]
  refine ⟨e.cert.fp, hfp, ?_⟩
  rw [findEdge_of_mem hemem wf.edgesNodup]
  simp only [hcan, if_true]
  exact h

/-! ### length and prefix (no hypothesis on the graph) -/

/-- raw one-layer decomposition, without `WF` -/
theorem mem_walk_succ_raw {g : Graph} {fuel : Nat} {soFar : List Cert} {last : Edge}
    {ch : List Cert} (hr : last.root = false) (h : ch ∈ walk g (fuel + 1) soFar last) :
    ∃ e, ch ∈ walk g fuel (soFar ++ [e.cert]) e := by
  rw [walk.eq_1] at h
  simp only [hr, Bool.false_eq_true, if_false] at h
  cases hi : last.issuer with
  | none => rw [hi] at h; cases h
  | some cur =>
    rw [hi] at h
    simp only at h
    cases hn : findNode g.nodes cur with
    | none => rw [hn] at h; cases h
    | some n =>
      rw [hn] at h
      simp only at h
      rw [List.mem_flatMap] at h
      obtain ⟨grp, _, h⟩ := h
      split at h
      · cases h
      · rw [List.mem_flatMap] at h
        obtain ⟨fp, _, h⟩ := h
        cases hfe : findEdge g.edges fp with
        | none => rw [hfe] at h; cases h
        | some e =>
          rw [hfe] at h
          simp only at h
          split at h
          · exact ⟨e, h⟩
          · cases h

theorem walk_prefix_len {g : Graph} : ∀ (fuel : Nat) (soFar : List Cert) (last : Edge) (ch : List Cert),
    ch ∈ walk g fuel soFar last → (∃ t, ch = soFar ++ t) ∧ ch.length ≤ soFar.length + fuel := by
  intro fuel
  induction fuel with
  | zero =>
    intro soFar last ch h
    cases hr : last.root with
    | true =>
      rw [mem_walk_root hr] at h
      subst h
      exact ⟨⟨[], by simp⟩, by omega⟩
    | false => rw [walk_zero hr] at h; cases h
  | succ fuel ih =>
    intro soFar last ch h
    cases hr : last.root with
    | true =>
      rw [mem_walk_root hr] at h
      subst h
      exact ⟨⟨[], by simp⟩, by omega⟩
    | false =>
      obtain ⟨e, he⟩ := mem_walk_succ_raw hr h
      obtain ⟨⟨t, ht⟩, hlen⟩ := ih _ _ _ he
      refine ⟨⟨e.cert :: t, by rw [ht]; simp⟩, ?_⟩
      simp only [List.length_append, List.length_singleton] at hlen
      omega

/-! ### no duplicates -/

theorem walk_nodup_aux {V : Ver} {g : Graph} (wf : WF V g) (adj : AdjNodup g) :
    ∀ (fuel : Nat) (soFar : List Cert) (last : Edge), (walk g fuel soFar last).Nodup := by
  intro fuel
  induction fuel with
  | zero =>
    intro soFar last
    cases hr : last.root with
    | true => rw [walk.eq_1]; simp [hr]
    | false => rw [walk_zero hr]; exact List.nodup_nil
  | succ fuel ih =>
    intro soFar last
    rw [walk.eq_1]
    cases hr : last.root with
    | true => simp
    | false =>
      simp only [Bool.false_eq_true, if_false]
      cases hi : last.issuer with
      | none => exact List.nodup_nil
      | some cur =>
        simp only
        cases hn : findNode g.nodes cur with
        | none => exact List.nodup_nil
        | some n =>
          simp only
          obtain ⟨hnmem, hnkey⟩ := findNode_some hn
          -- a chain produced through fingerprint `fp` has the certificate of edge `fp` at
          -- position `soFar.length`
          have key : ∀ (fp : Nat) (ch : List Cert),
              ch ∈ (match findEdge g.edges fp with
                    | none => []
                    | some e =>
                      if canAddToChain e.cert e.root soFar = true
                      then walk g fuel (soFar ++ [e.cert]) e else []) →
              ∃ e t, e ∈ g.edges ∧ e.cert.fp = fp ∧ ch = soFar ++ e.cert :: t := by
            intro fp ch h
            cases hfe : findEdge g.edges fp with
            | none => rw [hfe] at h; cases h
            | some e =>
              rw [hfe] at h
              simp only at h
              split at h
              · obtain ⟨⟨t, ht⟩, _⟩ := walk_prefix_len _ _ _ _ h
                obtain ⟨hem, hefp⟩ := findEdge_some hfe
                exact ⟨e, t, hem, hefp, by rw [ht]; simp⟩
              · cases h
          have keyfp : ∀ (fp fp' : Nat) (ch : List Cert),
              (∃ e t, e ∈ g.edges ∧ e.cert.fp = fp ∧ ch = soFar ++ e.cert :: t) →
              (∃ e t, e ∈ g.edges ∧ e.cert.fp = fp' ∧ ch = soFar ++ e.cert :: t) → fp = fp' := by
            intro fp fp' ch ⟨e, t, _, hfp, h1⟩ ⟨e', t', _, hfp', h2⟩
            rw [h1] at h2
            have := List.append_cancel_left h2
            simp only [List.cons.injEq] at this
            rw [← hfp, ← hfp', this.1]
          unfold List.Nodup
          rw [List.pairwise_flatMap]
          constructor
          · intro grp hgrp
            split
            · exact List.Pairwise.nil
            · rw [List.pairwise_flatMap]
              constructor
              · intro fp _
                cases hfe : findEdge g.edges fp with
                | none => exact List.Pairwise.nil
                | some e =>
                  simp only
                  split
                  · exact ih _ _
                  · exact List.Pairwise.nil
              · have hs : grp.2.Nodup := adj.sets n hnmem grp hgrp
                unfold List.Nodup at hs
                refine hs.imp ?_
                intro fp fp' hne x hx y hy hxy
                subst hxy
                exact hne (keyfp fp fp' x (key fp x hx) (key fp' x hy))
          · have hk : (n.parents.map (·.1)).Nodup := adj.keys n hnmem
            unfold List.Nodup at hk
            rw [List.pairwise_map] at hk
            refine List.Pairwise.imp_of_mem ?_ hk
            intro grp grp' hgrp hgrp' hne x hx y hy hxy
            subst hxy
            split at hx
            · cases hx
            · split at hy
              · cases hy
              · rw [List.mem_flatMap] at hx hy
                obtain ⟨fp, hfp, hx⟩ := hx
                obtain ⟨fp', hfp', hy⟩ := hy
                have hff : fp = fp' := keyfp fp fp' x (key fp x hx) (key fp' x hy)
                subst hff
                obtain ⟨e, hem, hefp, _, heiss⟩ :=
                  (wf.parents n hnmem grp.1 fp).mp ⟨grp.2, hgrp, hfp⟩
                obtain ⟨e', hem', hefp', _, heiss'⟩ :=
                  (wf.parents n hnmem grp'.1 fp).mp ⟨grp'.2, hgrp', hfp'⟩
                have : e = e' := edge_ext_fp wf hem hem' (by rw [hefp, hefp'])
                subst this
                rw [heiss] at heiss'
                exact hne (Option.some.inj heiss')

/-! ### a concrete well-formed graph (for the `example`s of `ZV.Props.C11`)

  root `exR` (self-signed, added with `AddRoot`), intermediate `exI` issued by the root,
  leaf `exL` issued by the intermediate and NOT added to the graph. -/

def exR : Cert := { fp := 1, subj := 1, key := 1, iss := 1, isCA := true, bcValid := true }
def exI : Cert := { fp := 2, subj := 2, key := 2, iss := 1, isCA := true, bcValid := true }
def exL : Cert := { fp := 3, subj := 3, key := 3, iss := 2 }
def exV : Ver := fun k fp => (k == (1, 1) && (fp == 1 || fp == 2)) || (k == (2, 2) && fp == 3)
def exER : Edge := { cert := exR, issuer := some (1, 1), child := (1, 1), root := true }
def exEI : Edge := { cert := exI, issuer := some (1, 1), child := (2, 2), root := false }
def exN1 : Node :=
  { key := (1, 1), children := [((1, 1), [1]), ((2, 2), [2])], parents := [((1, 1), [1])] }
def exN2 : Node := { key := (2, 2), children := [], parents := [((1, 1), [2])] }
def exG : Graph := { nodes := [exN1, exN2], edges := [exER, exEI], missing := [] }
/-- the same graph with the node list in the other order -/
def exG' : Graph := { nodes := [exN2, exN1], edges := [exER, exEI], missing := [] }

/-- `exG` is the graph the model of `AddRoot` / `AddCert` builds -/
theorem exG_reachable : run exV Graph.empty [.root exR, .add exI] = .ok exG := by decide

theorem exG_wf : WF exV exG where
  nodesNodup := by decide
  edgesNodup := by decide
  child := by decide
  issuerSome := by
    intro e he k hk
    simp only [exG, List.mem_cons, List.not_mem_nil, or_false] at he
    rcases he with rfl | rfl <;>
      (simp only [exER, exEI, Option.some.injEq] at hk; subst hk; decide)
  issuerNone := by decide
  parents := by
    intro n hn k fp
    simp only [exG, List.mem_cons, List.not_mem_nil, or_false] at hn
    rcases hn with rfl | rfl <;> simp [pmem, exG, exN1, exN2, exER, exEI, exR, exI] <;> grind
  children := by
    intro n hn k fp
    simp only [exG, List.mem_cons, List.not_mem_nil, or_false] at hn
    rcases hn with rfl | rfl <;> simp [cmem, exG, exN1, exN2, exER, exEI, exR, exI] <;> grind
  missing := by
    intro name fp
    simp [mmem, exG, exER, exEI, exR, exI]

theorem exG'_wf : WF exV exG' where
  nodesNodup := by decide
  edgesNodup := by decide
  child := by decide
  issuerSome := by
    intro e he k hk
    simp only [exG', List.mem_cons, List.not_mem_nil, or_false] at he
    rcases he with rfl | rfl <;>
      (simp only [exER, exEI, Option.some.injEq] at hk; subst hk; decide)
  issuerNone := by decide
  parents := by
    intro n hn k fp
    simp only [exG', List.mem_cons, List.not_mem_nil, or_false] at hn
    rcases hn with rfl | rfl <;> simp [pmem, exG', exN1, exN2, exER, exEI, exR, exI] <;> grind
  children := by
    intro n hn k fp
    simp only [exG', List.mem_cons, List.not_mem_nil, or_false] at hn
    rcases hn with rfl | rfl <;> simp [cmem, exG', exN1, exN2, exER, exEI, exR, exI] <;> grind
  missing := by
    intro name fp
    simp [mmem, exG', exER, exEI, exR, exI]

theorem exG_adj : AdjNodup exG where
  keys := by decide
  sets := by decide

/-! a graph in which one (subject, key) pair carries a self-issued non-root certificate `exA1`
    and a cross-certificate `exA2` issued by the root; `exM` is a leaf issued by that key -/
def exA1 : Cert := { fp := 4, subj := 5, key := 5, iss := 5, isCA := true, bcValid := true }
def exA2 : Cert := { fp := 5, subj := 5, key := 5, iss := 1, isCA := true, bcValid := true }
def exM : Cert := { fp := 6, subj := 6, key := 6, iss := 5 }
def exV2 : Ver := fun k fp =>
  (k == (1, 1) && (fp == 1 || fp == 5)) || (k == (5, 5) && (fp == 4 || fp == 6))
def exG2 : Graph :=
  { nodes := [{ key := (1, 1), children := [((1, 1), [1]), ((5, 5), [5])], parents := [((1, 1), [1])] },
              { key := (5, 5), children := [((5, 5), [4])], parents := [((5, 5), [4]), ((1, 1), [5])] }],
    edges := [exER,
              { cert := exA1, issuer := some (5, 5), child := (5, 5), root := false },
              { cert := exA2, issuer := some (1, 1), child := (5, 5), root := false }],
    missing := [] }
theorem exG2_reachable : run exV2 Graph.empty [.root exR, .add exA1, .add exA2] = .ok exG2 := by
  decide

theorem skInChain_false {k : NodeKey} {l : List Cert} (h : skInChain k l = false) {c : Cert}
    (hc : c ∈ l) : c.sk ≠ k := by
  intro he
  have : skInChain k l = true := by
    unfold skInChain
    rw [List.any_eq_true]
    exact ⟨c, hc, by rw [← he]; simp [Cert.sk]⟩
  rw [h] at this
  cases this

end ZV.C11
