import ZV.Model.C25
/-! helper lemmas for ZV.Props.C25 -/
namespace ZV.C25

/-! ### extractPadding: the bit tricks -/

theorem ones8 : ∀ i (h : i < 8), (255#8)[i] = true := by decide

theorem sshift31 (x : BitVec 32) :
    BitVec.signExtend 8 (x.sshiftRight 31) = if x.msb then 255#8 else 0#8 := by
  ext i hi
  have h2 : i < 32 := by omega
  rw [BitVec.getElem_signExtend hi]
  simp only [h2, dite_true]
  rw [BitVec.getElem_sshiftRight h2]
  by_cases h0 : i = 0
  · subst h0
    simp only [Nat.add_zero, show (31 < 32) from by omega, dite_true]
    rw [BitVec.msb_eq_getLsbD_last]
    simp only [show 32 - 1 = 31 from rfl]
    rw [← BitVec.getLsbD_eq_getElem]
    by_cases h : x.getLsbD 31 = true
    · simp only [h, if_true]; exact (ones8 0 (by omega)).symm
    · have h' : x.getLsbD 31 = false := by simpa using h
      simp only [h', Bool.false_eq_true, if_false]; simp
  · have : ¬ (31 + i < 32) := by omega
    simp only [this, dite_false]
    cases hm : x.msb <;> simp
    exact ones8 i hi

/-- `byte(int32(^t) >> 31)` is `0xff` iff bit 31 of `t` is clear. -/
theorem msbMask_eq (t : UInt64) : msbMask t = if t.toNat / 2^31 % 2 = 1 then 0 else 255 := by
  unfold msbMask
  apply UInt8.eq_of_toBitVec_eq
  simp
  rw [sshift31, BitVec.msb_not, BitVec.msb_setWidth]
  simp only [show (0 < 32) from by omega, decide_true, Bool.true_and, show 32 - 1 = 31 from rfl]
  rw [← BitVec.testBit_toNat, Nat.testBit_eq_decide_div_mod_eq]
  simp only [UInt64.toNat_toBitVec]
  by_cases h : t.toNat / 2^31 % 2 = 1
  · simp [h]
  · simp [h]

/-- the loop mask: `0xff` iff `i ≤ paddingLen` -/
theorem mask_loop (n : UInt8) (i : Nat) (hi : i ≤ 2^31) :
    msbMask (n.toUInt64 - UInt64.ofNat i) = if i ≤ n.toNat then 255 else 0 := by
  rw [msbMask_eq, UInt64.toNat_sub, UInt64.toNat_ofNat', UInt8.toNat_toUInt64]
  have hn : n.toNat < 256 := n.toNat_lt
  split <;> split <;> first | rfl | omega

/-- the initial `good`: `0xff` iff `paddingLen ≤ len - 1` -/
theorem mask_init (n : UInt8) (a : Nat) (ha : a < 2^31) :
    msbMask (UInt64.ofNat a - n.toUInt64) = if n.toNat ≤ a then 255 else 0 := by
  rw [msbMask_eq, UInt64.toNat_sub, UInt64.toNat_ofNat', UInt8.toNat_toUInt64]
  have hn : n.toNat < 256 := n.toNat_lt
  split <;> split <;> first | rfl | omega

set_option maxRecDepth 100000 in
theorem foldGood_ofNat : ∀ n, n < 256 → foldGood (UInt8.ofNat n) = if n = 255 then 255 else 0 := by
  decide

/-- the final folding maps `0xff ↦ 0xff` and everything else to `0` (all 256 values checked). -/
theorem foldGood_eq (g : UInt8) : foldGood g = if g = 255 then 255 else 0 := by
  have h := foldGood_ofNat g.toNat g.toNat_lt
  rw [UInt8.ofNat_toNat] at h
  rw [h]
  by_cases hg : g = 255
  · subst hg; rfl
  · have : g.toNat ≠ 255 := fun e => hg (UInt8.toNat_inj.mp (by rw [e]; rfl))
    simp [hg, this]

theorem and_not_step (g n b : UInt8) :
    g &&& ~~~((255 &&& n) ^^^ (255 &&& b)) = 255 ↔ g = 255 ∧ b = n := by
  have e : (255 : UInt8) = -1 := by decide
  rw [e, UInt8.neg_one_and, UInt8.neg_one_and, UInt8.and_eq_neg_one_iff]
  constructor
  · rintro ⟨h1, h2⟩
    refine ⟨h1, ?_⟩
    rw [← UInt8.not_zero, UInt8.not_inj, UInt8.xor_eq_zero_iff] at h2
    exact h2.symm
  · rintro ⟨h1, h2⟩
    refine ⟨h1, ?_⟩
    rw [← UInt8.not_zero, UInt8.not_inj, UInt8.xor_eq_zero_iff]
    exact h2.symm

theorem and_not_skip (g n b : UInt8) : g &&& ~~~((0 &&& n) ^^^ (0 &&& b)) = g := by
  have e : (255 : UInt8) = -1 := by decide
  rw [UInt8.zero_and, UInt8.zero_and]
  simp

/-- what the checking loop demands: the byte at loop index `j` equals `n` whenever `j ≤ n` -/
def padOk (n : UInt8) : Nat → List UInt8 → Prop
  | _, [] => True
  | i, b :: rest => (i ≤ n.toNat → b = n) ∧ padOk n (i + 1) rest

theorem padLoop_spec (n : UInt8) (bs : List UInt8) (i : Nat) (g : UInt8) (h : i + bs.length ≤ 2^31) :
    padLoop n i bs g = 255 ↔ g = 255 ∧ padOk n i bs := by
  induction bs generalizing i g with
  | nil => simp [padLoop, padOk]
  | cons b rest ih =>
    simp only [List.length_cons] at h
    simp only [padLoop, padOk]
    rw [ih (i + 1) _ (by omega), mask_loop n i (by omega)]
    by_cases hi : i ≤ n.toNat
    · simp only [hi, if_true, and_not_step, forall_const]
      exact ⟨fun ⟨⟨a, b⟩, c⟩ => ⟨a, b, c⟩, fun ⟨a, b, c⟩ => ⟨⟨a, b⟩, c⟩⟩
    · simp only [hi, if_false, and_not_skip, false_imp_iff, true_and]

theorem padOk_iff (n : UInt8) (bs : List UInt8) (i : Nat) :
    padOk n i bs ↔ ∀ b ∈ bs.take (n.toNat + 1 - i), b = n := by
  induction bs generalizing i with
  | nil => simp [padOk]
  | cons b rest ih =>
    simp only [padOk]
    rw [ih (i + 1)]
    by_cases hi : i ≤ n.toNat
    · have e : n.toNat + 1 - i = (n.toNat + 1 - (i + 1)) + 1 := by omega
      rw [e, List.take_succ_cons]
      simp [hi]
    · have e : n.toNat + 1 - i = 0 := by omega
      have e' : n.toNat + 1 - (i + 1) = 0 := by omega
      simp [e, e', hi]

/-- the padding rule of RFC 5246 §6.2.3.2 as the code reads it: last byte `n`, at least `n+1` bytes,
    and the last `n+1` bytes all equal `n` -/
def validPadding (p : Bytes) (n : UInt8) : Prop :=
  n.toNat + 1 ≤ p.length ∧ ∀ b ∈ p.drop (p.length - (n.toNat + 1)), b = n

instance (p : Bytes) (n : UInt8) : Decidable (validPadding p n) := by
  unfold validPadding; infer_instance

theorem extractPadding_cons (p : Bytes) (n : UInt8) (hl : p.getLast? = some n) (hlen : p.length ≤ 2^31) :
    extractPadding p = if validPadding p n then (n.toNat + 1, 255) else (1, 0) := by
  have hrev : p.reverse.head? = some n := by rw [List.head?_reverse]; exact hl
  unfold extractPadding
  cases hr : p.reverse with
  | nil => rw [hr] at hrev; simp at hrev
  | cons m restRev =>
    rw [hr] at hrev
    simp only [List.head?_cons, Option.some.injEq] at hrev
    subst hrev
    have hlen' : p.length = restRev.length + 1 := by
      have := congrArg List.length hr
      simpa using this
    have hpos : 0 < p.length := by omega
    simp only
    rw [foldGood_eq, ← hr]
    have hn : m.toNat < 256 := m.toNat_lt
    have key : padLoop m 0 (List.take (if 256 > p.length then p.length else 256) p.reverse)
        (msbMask (UInt64.ofNat (p.length - 1) - m.toUInt64)) = 255 ↔ validPadding p m := by
      rw [padLoop_spec _ _ _ _ (by simp only [List.length_take, List.length_reverse]; split <;> omega),
        mask_init m (p.length - 1) (by omega), padOk_iff]
      unfold validPadding
      constructor
      · rintro ⟨h1, h2⟩
        have h1' : m.toNat ≤ p.length - 1 := by
          by_cases h : m.toNat ≤ p.length - 1
          · exact h
          · simp [h] at h1
        refine ⟨by omega, ?_⟩
        intro b hb
        apply h2
        rw [List.take_take, Nat.sub_zero]
        have : min (m.toNat + 1) (if 256 > p.length then p.length else 256) = m.toNat + 1 := by
          split <;> omega
        rw [this, List.take_reverse]
        exact List.mem_reverse.mpr hb
      · rintro ⟨h1, h2⟩
        have h1' : m.toNat ≤ p.length - 1 := by omega
        refine ⟨by simp [h1'], ?_⟩
        intro b hb
        apply h2
        rw [List.take_take, Nat.sub_zero] at hb
        have : min (m.toNat + 1) (if 256 > p.length then p.length else 256) = m.toNat + 1 := by
          split <;> omega
        rw [this, List.take_reverse] at hb
        exact List.mem_reverse.mp hb
    by_cases hv : validPadding p m
    · have := key.mpr hv
      rw [this]
      simp only [if_true, hv]
      have e : (255 : UInt8) = -1 := by decide
      rw [e, UInt8.and_neg_one]
    · have hne : ¬ (padLoop m 0 (List.take (if 256 > p.length then p.length else 256) p.reverse)
        (msbMask (UInt64.ofNat (p.length - 1) - m.toUInt64)) = 255) := fun h => hv (key.mp h)
      simp only [hne, if_false, hv]
      simp



/-- value of a little-endian byte list -/
def leNat : List UInt8 → Nat
  | [] => 0
  | b :: rest => b.toNat + 256 * leNat rest

/-- value of the big-endian sequence number array -/
def beNat (seq : Bytes) : Nat := leNat seq.reverse

theorem incSeqRev_some (l r : List UInt8) (h : incSeqRev l = some r) :
    leNat r = leNat l + 1 ∧ r.length = l.length := by
  induction l generalizing r with
  | nil => simp [incSeqRev] at h
  | cons b rest ih =>
    simp only [incSeqRev] at h
    by_cases hb : (b + 1 != 0) = true
    · simp only [hb, if_true, Option.some.injEq] at h
      subst h
      have hb' : b + 1 ≠ 0 := by simpa using hb
      have : (b + 1).toNat = b.toNat + 1 := by
        have hlt := b.toNat_lt
        rw [UInt8.toNat_add]
        have : b.toNat ≠ 255 := by
          intro e
          apply hb'
          apply UInt8.toNat_inj.mp
          rw [UInt8.toNat_add, e]; rfl
        simp; omega
      simp [leNat, this]; omega
    · simp only [hb, Bool.false_eq_true, if_false] at h
      have hb' : b + 1 = 0 := by simpa using hb
      cases hr : incSeqRev rest with
      | none => simp [hr] at h
      | some r' =>
        simp only [hr, Option.some.injEq] at h
        subst h
        obtain ⟨h1, h2⟩ := ih r' hr
        have hb255 : b.toNat = 255 := by
          have := congrArg UInt8.toNat hb'
          rw [UInt8.toNat_add] at this
          have hlt := b.toNat_lt
          simp at this; omega
        simp [leNat, h1, h2, hb255]; omega

theorem incSeqRev_none (l : List UInt8) : incSeqRev l = none ↔ ∀ b ∈ l, b = 255 := by
  induction l with
  | nil => simp [incSeqRev]
  | cons b rest ih =>
    simp only [incSeqRev]
    by_cases hb : (b + 1 != 0) = true
    · simp only [hb, if_true, List.mem_cons, forall_eq_or_imp]
      constructor
      · intro h; simp at h
      · rintro ⟨h, _⟩; subst h; simp at hb
    · simp only [hb, Bool.false_eq_true, if_false, List.mem_cons, forall_eq_or_imp]
      have hb' : b + 1 = 0 := by simpa using hb
      have hb255 : b = 255 := by
        have : b = 0 - 1 := by rw [← hb']; simp
        rw [this]; decide
      cases hr : incSeqRev rest with
      | none => simp only [true_iff]; exact ⟨hb255, ih.mp hr⟩
      | some r' =>
        simp only [false_iff, not_and, reduceCtorEq]
        intro _ hall
        rw [ih.mpr hall] at hr; simp at hr

theorem incSeq_ne_err (seq : Bytes) : incSeq seq ≠ .err := by
  unfold incSeq; split <;> simp

theorem copyInto_eq (d s : Bytes) (h : s.length = d.length) : copyInto d s = s := by
  induction d generalizing s with
  | nil => cases s with
    | nil => rfl
    | cons _ _ => simp at h
  | cons x ds ih => cases s with
    | nil => simp at h
    | cons y ss => simp only [copyInto]; rw [ih ss (by simpa using h)]

theorem xorInto_inj (d s s' : Bytes) (h : s.length = d.length) (h' : s'.length = d.length)
    (e : xorInto d s = xorInto d s') : s = s' := by
  induction d generalizing s s' with
  | nil => cases s <;> cases s' <;> simp_all
  | cons x ds ih =>
    cases s with
    | nil => simp at h
    | cons y ss =>
      cases s' with
      | nil => simp at h'
      | cons y' ss' =>
        simp only [xorInto, List.cons.injEq] at e
        have hy : y = y' := by
          have := e.1
          have h2 : x ^^^ (x ^^^ y) = x ^^^ (x ^^^ y') := by rw [this]
          simpa [← UInt8.xor_assoc] using h2
        rw [hy, ih ss ss' (by simpa using h) (by simpa using h') e.2]

theorem prefixNonce_eq (fixed s : Bytes) (hf : fixed.length = 12) (hs : s.length = 8) :
    prefixNonce fixed s = fixed.take 4 ++ s := by
  unfold prefixNonce; rw [copyInto_eq _ s (by simp [hf, hs])]

theorem be16_inj (n n' : Nat) (h : n < 65536) (h' : n' < 65536) (e : be16 n = be16 n') : n = n' := by
  unfold be16 byteOf at e
  simp only [List.cons.injEq, and_true] at e
  obtain ⟨e1, e2⟩ := e
  have a1 := congrArg UInt8.toNat e1
  have a2 := congrArg UInt8.toNat e2
  simp only [UInt8.toNat_ofNat'] at a1 a2
  have b1 : (Int.emod (Int.ediv (n : Int) 256) 256).toNat = n / 256 % 256 := by
    show ((n : Int) / 256 % 256).toNat = _
    omega
  have b1' : (Int.emod (Int.ediv (n' : Int) 256) 256).toNat = n' / 256 % 256 := by
    show ((n' : Int) / 256 % 256).toNat = _
    omega
  have b2 : (Int.emod (n : Int) 256).toNat = n % 256 := by
    show ((n : Int) % 256).toNat = _
    omega
  have b2' : (Int.emod (n' : Int) 256).toNat = n' % 256 := by
    show ((n' : Int) % 256).toNat = _
    omega
  rw [b1, b1'] at a1
  rw [b2, b2'] at a2
  omega

/-- a MAC returns `Size()` bytes -/
def MacLaws (m : Mac) : Prop := ∀ x, (m.sum x).length = m.size

/-- XOR-style stream cipher: processing `a ++ b` = processing `a` then `b` on the advanced state;
    applying the keystream twice from the same state gives the input back and advances the state
    identically; lengths are preserved. -/
structure StreamLaws {σ} (xor : σ → Bytes → Bytes × σ) : Prop where
  append : ∀ s a b, xor s (a ++ b) = ((xor s a).1 ++ (xor (xor s a).2 b).1, (xor (xor s a).2 b).2)
  invol : ∀ s a, xor s (xor s a).1 = (a, (xor s a).2)

theorem be16_nat (n : Nat) : be16 (n : Int) = [UInt8.ofNat (n / 256), UInt8.ofNat n] := by
  unfold be16 byteOf
  have b1 : (Int.emod (Int.ediv (n : Int) 256) 256).toNat = n / 256 % 256 := by
    show ((n : Int) / 256 % 256).toNat = _
    omega
  have b2 : (Int.emod (n : Int) 256).toNat = n % 256 := by
    show ((n : Int) % 256).toNat = _
    omega
  rw [b1, b2]
  congr 1
  · apply UInt8.toNat_inj.mp; simp
  · congr 1; apply UInt8.toNat_inj.mp; simp

/-- the MAC block of decrypt accepts `p ‖ MAC(seq ‖ hdr ‖ len p ‖ p) ‖ pad` given the padding length -/
theorem decryptMac_ok (mac : Mac) (hm : MacLaws mac) (seq hdr3 p pad : Bytes) :
    decryptMac mac seq hdr3 (p ++ mac.sum (seq ++ (hdr3 ++ be16 p.length) ++ p) ++ pad) pad.length 255
      = .ok p := by
  unfold decryptMac
  have hl := hm (seq ++ (hdr3 ++ be16 p.length) ++ p)
  simp only [List.length_append, hl]
  have h1 : ¬ (p.length + mac.size + pad.length < mac.size) := by omega
  simp only [h1, if_false]
  have hn : ((↑(p.length + mac.size + pad.length) : Int) - ↑mac.size - ↑pad.length) = (p.length : Int) := by
    push_cast; omega
  rw [hn]
  have h2 : ¬ ((p.length : Int) < 0) := by omega
  simp only [h2, if_false, Int.toNat_natCast]
  rw [List.append_assoc, List.take_left' rfl, List.drop_left' rfl, List.take_left' hl]
  simp [tls10MAC]

theorem decrypt13_other (v : Nat) (hv : v ≠ VersionTLS13) (t : UInt8) (p : Bytes) :
    decrypt13 v t p = .ok (t, p) := by
  unfold decrypt13
  have : (v == VersionTLS13) = false := by simpa using hv
  simp [this]

/-- AEAD: `Open` inverts `Seal` under the same nonce and additional data; `Seal` adds `Overhead()` bytes -/
structure AeadLaws (a : Aead) : Prop where
  open_seal : ∀ n p ad, a.openFn n (a.sealFn n p ad) ad = some p
  seal_length : ∀ n p ad, (a.sealFn n p ad).length = p.length + a.overhead

theorem copyInto_length (d s : Bytes) : (copyInto d s).length = d.length := by
  induction d generalizing s with
  | nil => cases s <;> rfl
  | cons x ds ih => cases s with
    | nil => rfl
    | cons y ss => simp [copyInto, ih]

theorem decrypt_aead12_sealed {σ} (a : Aead) (ha : AeadLaws a) (v : Nat) (hv : v ≠ VersionTLS13) (st : σ)
    (seq seq' : Bytes) (hs : incSeq seq = .ok seq') (typ v1 v2 l1 l2 : UInt8) (p en : Bytes)
    (hen : en.length = a.explicitNonceLen) :
    decrypt ⟨v, .aead a, st, seq⟩ (typ :: v1 :: v2 :: l1 :: l2 :: (en ++
        a.sealFn (if en.length == 0 then seq else en) p
          (seq ++ [typ, v1, v2, UInt8.ofNat (p.length / 256), UInt8.ofNat p.length])))
      = .ok (p, typ, ⟨v, .aead a, st, seq'⟩) := by
  have hv' : (v == VersionTLS13) = false := by simpa using hv
  simp only [decrypt, hv', Bool.false_and, Bool.false_eq_true, if_false, explicitNonceLen,
    List.length_append, ← hen]
  have h1 : ¬ (en.length + (a.sealFn (if en.length == 0 then seq else en) p
      (seq ++ [typ, v1, v2, UInt8.ofNat (p.length / 256), UInt8.ofNat p.length])).length < en.length) := by omega
  simp only [h1, if_false, List.take_left' rfl, List.drop_left' rfl, ha.seal_length]
  have h1' : ¬ (en.length + (p.length + a.overhead) < en.length) := by omega
  simp only [h1', if_false]
  have hn : ((↑(p.length + a.overhead) : Int) - ↑a.overhead) = (p.length : Int) := by push_cast; omega
  rw [hn, be16_nat]
  simp only [List.append_assoc, List.cons_append, List.nil_append, ha.open_seal,
    decrypt13_other v hv, hs]

/-- the explicit nonce `encrypt` puts on the wire for an AEAD: the sequence number (explicit nonce
    shorter than 16 bytes), random bytes otherwise, nothing when the AEAD has no explicit nonce -/
def aeadExplicitNonce (a : Aead) (seq rand : Bytes) : Bytes :=
  if a.explicitNonceLen > 0 then
    (if a.explicitNonceLen < 16 then copyInto (List.replicate a.explicitNonceLen 0) seq
     else rand.take a.explicitNonceLen)
  else []

theorem aeadExplicitNonce_length (a : Aead) (seq rand : Bytes)
    (hr : a.explicitNonceLen < 16 ∨ a.explicitNonceLen ≤ rand.length) :
    (aeadExplicitNonce a seq rand).length = a.explicitNonceLen := by
  unfold aeadExplicitNonce
  split
  · split
    · simp [copyInto_length]
    · simp; omega
  · simp; omega

theorem encrypt_aead12_eq {σ} (a : Aead) (v : Nat) (hv : v ≠ VersionTLS13) (st : σ)
    (seq seq' : Bytes) (hs : incSeq seq = .ok seq') (typ v1 v2 l1 l2 : UInt8) (p rand : Bytes)
    (hr : a.explicitNonceLen < 16 ∨ a.explicitNonceLen ≤ rand.length) :
    ∃ rand', encrypt ⟨v, .aead a, st, seq⟩ [typ, v1, v2, l1, l2] p rand =
      .ok ([typ, v1, v2] ++ be16 ((aeadExplicitNonce a seq rand ++ a.sealFn
              (if (aeadExplicitNonce a seq rand).length == 0 then seq else aeadExplicitNonce a seq rand) p
              (seq ++ [typ, v1, v2, l1, l2])).length : Nat) ++
            (aeadExplicitNonce a seq rand ++ a.sealFn
              (if (aeadExplicitNonce a seq rand).length == 0 then seq else aeadExplicitNonce a seq rand) p
              (seq ++ [typ, v1, v2, l1, l2])),
          ⟨v, .aead a, st, seq'⟩, rand') := by
  have hv' : (v == VersionTLS13) = false := by simpa using hv
  unfold aeadExplicitNonce
  by_cases h0 : a.explicitNonceLen > 0
  · by_cases h16 : a.explicitNonceLen < 16
    · refine ⟨rand, ?_⟩
      simp only [encrypt, h0, h16, decide_true, decide_false,
          Bool.not_true, Bool.and_false, Bool.false_and, Bool.false_eq_true, if_false, if_true, hv',
          finishEncrypt, hs]
    · have hnl : ¬ (rand.length < a.explicitNonceLen) := by omega
      refine ⟨rand.drop a.explicitNonceLen, ?_⟩
      simp only [encrypt, h0, h16, hnl, decide_true, decide_false,
          Bool.not_false, Bool.and_true, Bool.and_false, Bool.false_eq_true, if_false, if_true, hv',
          finishEncrypt, hs]
  · refine ⟨rand, ?_⟩
    simp only [encrypt, h0, decide_false,
        Bool.false_and, Bool.false_eq_true, if_false, hv', finishEncrypt, hs]

theorem decrypt13_inner (typ : UInt8) (ht : typ ≠ 0) (p : Bytes) (hp : p.length ≤ maxPlaintext) :
    decrypt13 VersionTLS13 recordTypeApplicationData (p ++ [typ]) = .ok (typ, p) := by
  unfold decrypt13
  have h1 : ¬ ((p ++ [typ]).length > maxPlaintext + 1) := by simp; omega
  simp only [beq_self_eq_true, if_true, bne_self_eq_false, Bool.false_eq_true, if_false, h1]
  cases hpp : p ++ [typ] with
  | nil => simp at hpp
  | cons x xs =>
    simp only
    rw [← hpp, List.reverse_append]
    have ht' : (typ != 0) = true := by simpa using ht
    simp [strip13Rev, ht']

theorem pad_total (n bs : Nat) (hbs : 0 < bs) : (n + (bs - n % bs)) % bs = 0 := by
  have h := Nat.div_add_mod n bs
  have hr := Nat.mod_lt n hbs
  have e : n + (bs - n % bs) = bs * (n / bs + 1) := by
    rw [Nat.mul_add, Nat.mul_one]
    generalize bs * (n / bs) = k at *
    omega
  rw [e, Nat.mul_mod_right]

theorem roundUp_le (a b L : Nat) (hb : 0 < b) (hL : L % b = 0) (ha : a ≤ L) : roundUp a b ≤ L := by
  unfold roundUp
  have hr := Nat.mod_lt a hb
  by_cases h0 : a % b = 0
  · simp [h0, ha]
  · have h1 : (b - a % b) % b = b - a % b := Nat.mod_eq_of_lt (by omega)
    rw [h1]
    have hda := Nat.div_add_mod a b
    have hdL := Nat.div_add_mod L b
    rw [hL] at hdL
    have hle : a / b ≤ L / b := Nat.div_le_div_right ha
    have hlt : a / b + 1 ≤ L / b := by
      rcases Nat.lt_or_ge (a / b) (L / b) with h | h
      · exact h
      · have heq : a / b = L / b := by omega
        rw [← heq] at hdL
        generalize b * (a / b) = k at *
        omega
    have := Nat.mul_le_mul_left b hlt
    rw [Nat.mul_add, Nat.mul_one] at this
    generalize b * (a / b) = k at *
    generalize b * (L / b) = k' at *
    omega

/-- what `encrypt` feeds into `CryptBlocks`: payload ‖ MAC ‖ padding -/
def cbcPlain (bs : Nat) (p m : Bytes) : Bytes :=
  p ++ m ++ List.replicate (bs - (p.length + m.length) % bs) (UInt8.ofNat (bs - (p.length + m.length) % bs - 1))

theorem cbcPlain_length_mod (bs : Nat) (hbs : 0 < bs) (p m : Bytes) : (cbcPlain bs p m).length % bs = 0 := by
  unfold cbcPlain
  simp only [List.length_append, List.length_replicate]
  exact pad_total _ _ hbs

theorem extractPadding_cbcPlain (bs : Nat) (hbs : 0 < bs) (hbs' : bs ≤ 256) (p m : Bytes)
    (hlen : p.length + m.length + 256 ≤ 2^31) :
    extractPadding (cbcPlain bs p m) = (bs - (p.length + m.length) % bs, 255) := by
  have hr := Nat.mod_lt (p.length + m.length) hbs
  generalize hk : bs - (p.length + m.length) % bs = k
  have hk1 : 1 ≤ k := by omega
  have hk2 : k ≤ 256 := by omega
  have hlast : (cbcPlain bs p m).getLast? = some (UInt8.ofNat (k - 1)) := by
    unfold cbcPlain
    rw [hk]
    obtain ⟨j, rfl⟩ : ∃ j, k = j + 1 := ⟨k - 1, by omega⟩
    rw [List.replicate_succ', ← List.append_assoc]
    simp
  have hto : (UInt8.ofNat (k - 1)).toNat = k - 1 := by
    rw [UInt8.toNat_ofNat']; omega
  rw [extractPadding_cons _ _ hlast (by unfold cbcPlain; simp; omega)]
  have hv : validPadding (cbcPlain bs p m) (UInt8.ofNat (k - 1)) := by
    unfold validPadding cbcPlain
    rw [hk, hto]
    have e : k - 1 + 1 = k := by omega
    rw [e]
    refine ⟨by simp only [List.length_append, List.length_replicate]; omega, ?_⟩
    intro b hb
    rw [List.drop_left' (by simp only [List.length_append, List.length_replicate]; omega)] at hb
    exact List.eq_of_mem_replicate hb
  simp only [hv, if_true, hto]
  congr 1; omega

/-- CBC mode pair (encrypting object of the writer, decrypting object of the reader) on states
    satisfying `ok` (an IV of one block): same block size, `SetIV` installs any one-block IV,
    `CryptBlocks` keeps lengths, and decrypting from the same chaining state inverts encrypting and
    leaves both objects in the same state. -/
structure CbcLaws {σ} (enc dec : Cbc σ) (ok : σ → Prop) : Prop where
  bs_eq : dec.blockSize = enc.blockSize
  setIV_eq : ∀ s iv, dec.setIV s iv = enc.setIV s iv
  setIV_ok : ∀ s iv, iv.length = enc.blockSize → ok (enc.setIV s iv)
  crypt_ok : ∀ s x, ok s → x.length % enc.blockSize = 0 → ok (enc.cryptBlocks s x).2
  length : ∀ s x, ok s → x.length % enc.blockSize = 0 → (enc.cryptBlocks s x).1.length = x.length
  inv : ∀ s x, ok s → x.length % enc.blockSize = 0 →
    dec.cryptBlocks s (enc.cryptBlocks s x).1 = (x, (enc.cryptBlocks s x).2)

theorem decrypt_cbc_core {σ} (enc dec : Cbc σ) (ok : σ → Prop) (hc : CbcLaws enc dec ok) (mac : Mac)
    (hm : MacLaws mac) (hbs : 0 < enc.blockSize) (hbs' : enc.blockSize ≤ 256)
    (v : Nat) (hv : v ≠ VersionTLS13) (st : σ) (seq seq' : Bytes) (hs : incSeq seq = .ok seq')
    (typ v1 v2 l1 l2 : UInt8) (p en : Bytes) (hlen : p.length + mac.size + 256 ≤ 2^31)
    (hen : en.length = if v ≥ VersionTLS11 then enc.blockSize else 0)
    (hok : ok (if en.length > 0 then enc.setIV st en else st)) :
    decrypt ⟨v, .cbc dec mac, st, seq⟩ (typ :: v1 :: v2 :: l1 :: l2 :: (en ++
        (enc.cryptBlocks (if en.length > 0 then enc.setIV st en else st)
          (cbcPlain enc.blockSize p
            (mac.sum (seq ++ [typ, v1, v2, UInt8.ofNat (p.length / 256), UInt8.ofNat p.length] ++ p)))).1))
      = .ok (p, typ, ⟨v, .cbc dec mac, (enc.cryptBlocks (if en.length > 0 then enc.setIV st en else st)
          (cbcPlain enc.blockSize p
            (mac.sum (seq ++ [typ, v1, v2, UInt8.ofNat (p.length / 256), UInt8.ofNat p.length] ++ p)))).2, seq'⟩) := by
  have hv' : (v == VersionTLS13) = false := by simpa using hv
  generalize hmdef : mac.sum (seq ++ [typ, v1, v2, UInt8.ofNat (p.length / 256), UInt8.ofNat p.length] ++ p) = m
  have hml : m.length = mac.size := by rw [← hmdef]; exact hm _
  generalize hst1 : (if en.length > 0 then enc.setIV st en else st) = st1 at *
  have hmod := cbcPlain_length_mod enc.blockSize hbs p m
  have hctl := hc.length st1 (cbcPlain enc.blockSize p m) hok hmod
  have henl : explicitNonceLen ⟨v, .cbc dec mac, st, seq⟩ = en.length := by
    simp only [explicitNonceLen, hc.bs_eq, hen]
  have hplen : (cbcPlain enc.blockSize p m).length ≥ mac.size + 1 := by
    unfold cbcPlain
    have hr := Nat.mod_lt (p.length + m.length) hbs
    simp only [List.length_append, List.length_replicate]; omega
  have hmin := roundUp_le (mac.size + 1) enc.blockSize _ hbs hmod hplen
  have hmodp : (en.length + (enc.cryptBlocks st1 (cbcPlain enc.blockSize p m)).1.length) % enc.blockSize = 0 := by
    rw [hctl, hen]
    split
    · rw [Nat.add_mod_left]; exact hmod
    · rw [Nat.zero_add]; exact hmod
  simp only [decrypt, hv', Bool.false_and, Bool.false_eq_true, if_false, henl, hc.bs_eq, List.length_append,
    hmodp]
  have h2 : ¬ (en.length + (enc.cryptBlocks st1 (cbcPlain enc.blockSize p m)).1.length
      < en.length + roundUp (mac.size + 1) enc.blockSize) := by rw [hctl]; omega
  simp only [bne_self_eq_false, Bool.false_or, h2, decide_false, Bool.false_eq_true, if_false]
  have hst1' : (if en.length > 0 then dec.setIV st (List.take en.length (en ++
      (enc.cryptBlocks st1 (cbcPlain enc.blockSize p m)).1)) else st) = st1 := by
    rw [List.take_left' rfl, hc.setIV_eq]; exact hst1
  have hdrop : (if en.length > 0 then List.drop en.length (en ++
      (enc.cryptBlocks st1 (cbcPlain enc.blockSize p m)).1) else (en ++
      (enc.cryptBlocks st1 (cbcPlain enc.blockSize p m)).1)) = (enc.cryptBlocks st1 (cbcPlain enc.blockSize p m)).1 := by
    split
    · rw [List.drop_left' rfl]
    · have : en = [] := List.eq_nil_of_length_eq_zero (by omega)
      rw [this]; rfl
  rw [hst1', hdrop]
  have hinv := hc.inv st1 _ hok hmod
  simp only [hinv]
  rw [extractPadding_cbcPlain enc.blockSize hbs hbs' p m (by omega)]
  simp only [decrypt13_other v hv]
  have hmac := decryptMac_ok mac hm seq [typ, v1, v2] p
    (List.replicate (enc.blockSize - (p.length + m.length) % enc.blockSize)
      (UInt8.ofNat (enc.blockSize - (p.length + m.length) % enc.blockSize - 1)))
  simp only [be16_nat, List.cons_append, List.nil_append, List.length_replicate] at hmac
  rw [hmdef] at hmac
  unfold cbcPlain
  rw [hmac]
  simp only [hs]

/-- the explicit IV `encrypt` takes from `rand` for CBC suites from TLS 1.1 on -/
def cbcExplicitIV (v bs : Nat) (rand : Bytes) : Bytes := if v ≥ VersionTLS11 then rand.take bs else []

theorem encrypt_cbc_eq {σ} (enc : Cbc σ) (mac : Mac) (hbs : 0 < enc.blockSize) (v : Nat) (st : σ)
    (seq seq' : Bytes) (hs : incSeq seq = .ok seq') (typ v1 v2 l1 l2 : UInt8) (p rand : Bytes)
    (hr : v ≥ VersionTLS11 → enc.blockSize ≤ rand.length) :
    encrypt ⟨v, .cbc enc mac, st, seq⟩ [typ, v1, v2, l1, l2] p rand =
      .ok ([typ, v1, v2] ++ be16 ((cbcExplicitIV v enc.blockSize rand ++
              (enc.cryptBlocks (if (cbcExplicitIV v enc.blockSize rand).length > 0 then
                  enc.setIV st (cbcExplicitIV v enc.blockSize rand) else st)
                (cbcPlain enc.blockSize p (mac.sum (seq ++ [typ, v1, v2, l1, l2] ++ p)))).1).length : Nat) ++
            (cbcExplicitIV v enc.blockSize rand ++
              (enc.cryptBlocks (if (cbcExplicitIV v enc.blockSize rand).length > 0 then
                  enc.setIV st (cbcExplicitIV v enc.blockSize rand) else st)
                (cbcPlain enc.blockSize p (mac.sum (seq ++ [typ, v1, v2, l1, l2] ++ p)))).1),
          ⟨v, .cbc enc mac, (enc.cryptBlocks (if (cbcExplicitIV v enc.blockSize rand).length > 0 then
                  enc.setIV st (cbcExplicitIV v enc.blockSize rand) else st)
                (cbcPlain enc.blockSize p (mac.sum (seq ++ [typ, v1, v2, l1, l2] ++ p)))).2, seq'⟩,
          if v ≥ VersionTLS11 then rand.drop enc.blockSize else rand) := by
  unfold cbcExplicitIV
  by_cases h11 : v ≥ VersionTLS11
  · have hl := hr h11
    have hnl : ¬ (rand.length < enc.blockSize) := by omega
    simp only [encrypt, explicitNonceLen, h11, if_true, hbs, gt_iff_lt, decide_true, Bool.true_and, hnl,
      decide_false, Bool.false_eq_true, if_false, tls10MAC, finishEncrypt, hs, cbcPlain]
  · simp only [encrypt, explicitNonceLen, h11, if_false, Nat.lt_irrefl, gt_iff_lt, decide_false,
      Bool.false_and, Bool.false_eq_true, tls10MAC, finishEncrypt, hs, cbcPlain, List.length_nil]


theorem decryptMac_accept (mac : Mac) (seq hdr3 payload : Bytes) (padLen : Nat) (good : UInt8) (p : Bytes)
    (h : decryptMac mac seq hdr3 payload padLen good = .ok p) :
    p = payload.take p.length ∧ p.length + mac.size ≤ payload.length ∧
    (payload.drop p.length).take mac.size = mac.sum (seq ++ (hdr3 ++ be16 p.length) ++ p) ∧
    good.toNat % 2 = 1 := by
  unfold decryptMac at h
  by_cases h1 : payload.length < mac.size
  · simp [h1] at h
  · simp only [h1, if_false] at h
    generalize hn : (if ((payload.length : Int) - mac.size - padLen) < 0 then 0
      else ((payload.length : Int) - mac.size - padLen).toNat) = n at h
    have hnle : n + mac.size ≤ payload.length := by
      rw [← hn]; split <;> omega
    by_cases heq : (tls10MAC mac seq (hdr3 ++ be16 ↑n) (List.take n payload) ==
        List.take mac.size (List.drop n payload)) = true
    · simp only [heq, if_true] at h
      have heq' := eq_of_beq heq
      by_cases hg : (1 &&& good.toNat != 1) = true
      · rw [if_pos hg] at h; exact absurd h (by simp)
      · rw [if_neg hg] at h; simp only [Res.ok.injEq] at h
        have hpl : p.length = n := by rw [← h]; simp; omega
        refine ⟨by rw [hpl]; exact h.symm, by omega, ?_, ?_⟩
        · rw [hpl, ← heq', ← h]; rfl
        · have := Nat.and_one_is_mod good.toNat
          rw [Nat.and_comm] at this
          simp only [bne_iff_ne, ne_eq, Decidable.not_not] at hg
          omega
    · simp only [heq, Bool.false_eq_true, if_false] at h
      simp at h

/-- the block-decrypted payload `decrypt` works on for a CBC suite (explicit IV stripped from TLS 1.1 on) -/
def cbcDecrypted {σ} (c : Cbc σ) (v : Nat) (st : σ) (payload : Bytes) : Bytes :=
  (c.cryptBlocks (if (if v ≥ VersionTLS11 then c.blockSize else 0) > 0 then
      c.setIV st (payload.take (if v ≥ VersionTLS11 then c.blockSize else 0)) else st)
    (if (if v ≥ VersionTLS11 then c.blockSize else 0) > 0 then
      payload.drop (if v ≥ VersionTLS11 then c.blockSize else 0) else payload)).1

/-- nonce the reader passes to `Open` for TLS ≤ 1.2: the explicit nonce from the record, or the
    sequence number when the AEAD has none -/
def readerNonce (a : Aead) (seq payload : Bytes) : Bytes :=
  if (payload.take a.explicitNonceLen).length == 0 then seq else payload.take a.explicitNonceLen

/-- additional data the reader passes to `Open` for TLS ≤ 1.2 -/
def readerAD12 (a : Aead) (seq : Bytes) (typ v1 v2 : UInt8) (payload : Bytes) : Bytes :=
  seq ++ [typ, v1, v2] ++ be16 (((payload.drop a.explicitNonceLen).length : Int) - a.overhead)

theorem accept_implies_open12 {σ} (a : Aead) (v : Nat) (hv : v ≠ VersionTLS13) (st : σ) (seq : Bytes)
    (typ v1 v2 l1 l2 : UInt8) (payload p' : Bytes) (t' : UInt8) (hc' : HalfConn σ)
    (h : decrypt ⟨v, .aead a, st, seq⟩ (typ :: v1 :: v2 :: l1 :: l2 :: payload) = .ok (p', t', hc')) :
    t' = typ ∧ a.explicitNonceLen ≤ payload.length ∧
    a.openFn (readerNonce a seq payload) (payload.drop a.explicitNonceLen) (readerAD12 a seq typ v1 v2 payload)
      = some p' := by
  have hv' : (v == VersionTLS13) = false := by simpa using hv
  simp only [decrypt, hv', Bool.false_and, Bool.false_eq_true, if_false, explicitNonceLen] at h
  split at h
  · simp at h
  · rename_i hlen
    split at h
    · simp at h
    · rename_i pt hopen
      rw [decrypt13_other v hv] at h
      simp only at h
      split at h
      · simp only [Res.ok.injEq, Prod.mk.injEq] at h
        obtain ⟨h1, h2, _⟩ := h
        subst h1; subst h2
        exact ⟨rfl, by omega, hopen⟩
      · simp at h

theorem strip13Rev_spec (l : List UInt8) (t : UInt8) (rest : List UInt8) (h : strip13Rev l = some (t, rest)) :
    t ≠ 0 ∧ ∃ k, l = List.replicate k 0 ++ t :: rest := by
  induction l with
  | nil => simp [strip13Rev] at h
  | cons b bs ih =>
    simp only [strip13Rev] at h
    by_cases hb : (b != 0) = true
    · simp only [hb, if_true, Option.some.injEq, Prod.mk.injEq] at h
      obtain ⟨h1, h2⟩ := h
      subst h1; subst h2
      exact ⟨by simpa using hb, 0, by simp⟩
    · simp only [hb, Bool.false_eq_true, if_false] at h
      obtain ⟨h1, k, hk⟩ := ih h
      have hb0 : b = 0 := by simpa using hb
      exact ⟨h1, k + 1, by rw [hk, hb0, List.replicate_succ]; rfl⟩


open Toy

theorem xorKS_append (key : Bytes) (j : Nat) (a b : Bytes) :
    xorKS key j (a ++ b) = xorKS key j a ++ xorKS key (j + a.length) b := by
  induction a generalizing j with
  | nil => simp [xorKS]
  | cons x xs ih => simp [xorKS, ih, Nat.add_assoc, Nat.add_comm 1]

theorem xorKS_length (key : Bytes) (j : Nat) (a : Bytes) : (xorKS key j a).length = a.length := by
  induction a generalizing j with
  | nil => rfl
  | cons x xs ih => simp [xorKS, ih]

theorem xorKS_invol (key : Bytes) (j : Nat) (a : Bytes) : xorKS key j (xorKS key j a) = a := by
  induction a generalizing j with
  | nil => rfl
  | cons x xs ih => simp [xorKS, ih, UInt8.xor_assoc]

/-- the toy stream cipher of the correspondence check satisfies the stream laws -/
theorem toy_stream_laws (key : Bytes) : StreamLaws (streamXor key) := by
  constructor
  · intro s a b
    simp [streamXor, xorKS_append, Nat.add_assoc]
  · intro s a
    simp [streamXor, xorKS_invol, xorKS_length]

theorem xorPad_length (key nonce : Bytes) (i : Nat) (a : Bytes) : (xorPad key nonce i a).length = a.length := by
  induction a generalizing i with
  | nil => rfl
  | cons x xs ih => simp [xorPad, ih]

theorem xorPad_invol (key nonce : Bytes) (i : Nat) (a : Bytes) :
    xorPad key nonce i (xorPad key nonce i a) = a := by
  induction a generalizing i with
  | nil => rfl
  | cons x xs ih => simp [xorPad, ih, UInt8.xor_assoc]

theorem tagBytes_length (s : UInt32) (j n : Nat) : (tagBytes s j n).length = n := by
  induction n generalizing j with
  | zero => rfl
  | succ n ih => simp [tagBytes, ih]

theorem tag_length (key : Bytes) (tagLen : Nat) (nonce ad pt : Bytes) : (tag key tagLen nonce ad pt).length = tagLen := by
  simp [tag, tagBytes_length]

theorem toyAead_open_seal (key : Bytes) (tagLen : Nat) (n p ad : Bytes) :
    (toyAead key tagLen).openFn n ((toyAead key tagLen).sealFn n p ad) ad = some p := by
  simp only [toyAead, List.length_append, xorPad_length, tag_length]
  have h1 : ¬ (p.length + tagLen < tagLen) := by omega
  simp only [h1, if_false, Nat.add_sub_cancel]
  rw [List.take_left' (xorPad_length _ _ _ _), List.drop_left' (xorPad_length _ _ _ _), xorPad_invol]
  simp

/-- the real nonce wrappers around the toy AEAD satisfy the AEAD laws -/
theorem toy_prefix_laws (key : Bytes) (tagLen : Nat) (fixed : Bytes) :
    AeadLaws (prefixNonceAEAD (toyAead key tagLen) fixed) := by
  constructor
  · intro n p ad; exact toyAead_open_seal key tagLen _ p ad
  · intro n p ad; simp [prefixNonceAEAD, toyAead, xorPad_length, tag_length]

theorem toy_xor_laws (key : Bytes) (tagLen : Nat) (mask : Bytes) :
    AeadLaws (xorNonceAEAD (toyAead key tagLen) mask) := by
  constructor
  · intro n p ad; exact toyAead_open_seal key tagLen _ p ad
  · intro n p ad; simp [xorNonceAEAD, toyAead, xorPad_length, tag_length]

/-- HMAC-SHA1 as instantiated by the correspondence check returns 20 bytes -/
theorem hmac_sha1_laws (key : Bytes) : MacLaws (hmacMac ZV.Hash.HashAlg.sha1 key) := by
  intro x
  simp [hmacMac, ZV.Hash.hmac, ZV.Hash.HashAlg.sha1, ZV.Hash.sha1, ZV.Hash.flatMapTR, ZV.Hash.flatMapRevAux,
    ZV.Hash.SHA1.State.words, ZV.Hash.be32Bytes]


section toycbc
open Toy
/-- block cipher laws: `E` maps blocks to blocks and `D` inverts it -/
structure BlockLaws (bs : Nat) (E D : Bytes → Bytes) : Prop where
  lenE : ∀ b, b.length = bs → (E b).length = bs
  inv : ∀ b, b.length = bs → D (E b) = b

theorem xorBytes_length (a b : Bytes) (h : a.length = b.length) : (xorBytes a b).length = a.length := by
  simp [xorBytes, h]

theorem xorBytes_invol (a b : Bytes) (h : a.length = b.length) : xorBytes (xorBytes a b) b = a := by
  induction a generalizing b with
  | nil => simp [xorBytes]
  | cons x xs ih =>
    cases b with
    | nil => simp at h
    | cons y ys =>
      simp only [xorBytes, List.zipWith_cons_cons, List.cons.injEq]
      refine ⟨by simp [UInt8.xor_assoc], ?_⟩
      exact ih ys (by simpa using h)

theorem chunkN_spec (bs n : Nat) (x : Bytes) (h : x.length = bs * n) :
    (chunkN bs n x).flatten = x ∧ (∀ c ∈ chunkN bs n x, c.length = bs) ∧ (chunkN bs n x).length = n := by
  induction n generalizing x with
  | zero =>
    have : x = [] := List.eq_nil_of_length_eq_zero (by simpa using h)
    subst this; simp [chunkN]
  | succ n ih =>
    have hl : (x.drop bs).length = bs * n := by simp [h, Nat.mul_succ]
    obtain ⟨h1, h2, h3⟩ := ih (x.drop bs) hl
    simp only [chunkN, List.flatten_cons, h1, List.take_append_drop, List.mem_cons, List.length_cons, h3]
    refine ⟨trivial, ?_, trivial⟩
    intro c hc
    rcases hc with hc | hc
    · subst hc; simp [h, Nat.mul_succ]
    · exact h2 c hc

theorem chunkN_append (bs n : Nat) (c cs : Bytes) (hc : c.length = bs) :
    chunkN bs (n + 1) (c ++ cs) = c :: chunkN bs n cs := by
  simp [chunkN, List.take_left' hc, List.drop_left' hc]

theorem cbc_blocks (bs : Nat) (E D : Bytes → Bytes) (h : BlockLaws bs E D) (blocks : List Bytes) (iv : Bytes)
    (hiv : iv.length = bs) (hb : ∀ b ∈ blocks, b.length = bs) :
    (cbcEnc E iv blocks).1.length = bs * blocks.length ∧ (cbcEnc E iv blocks).2.length = bs ∧
    cbcDec D iv (chunkN bs blocks.length (cbcEnc E iv blocks).1) = (blocks.flatten, (cbcEnc E iv blocks).2) := by
  induction blocks generalizing iv with
  | nil => simp [cbcEnc, cbcDec, chunkN, hiv]
  | cons b rest ih =>
    have hbl : b.length = bs := hb b (by simp)
    have hxl : (xorBytes b iv).length = bs := by rw [xorBytes_length _ _ (by rw [hbl, hiv]), hbl]
    have hcl : (E (xorBytes b iv)).length = bs := h.lenE _ hxl
    obtain ⟨i1, i2, i3⟩ := ih (E (xorBytes b iv)) hcl (fun x hx => hb x (by simp [hx]))
    simp only [cbcEnc, List.length_cons, List.length_append, hcl, i1, i2, Nat.mul_succ, true_and]
    refine ⟨by omega, ?_⟩
    rw [chunkN_append _ _ _ _ hcl]
    simp only [cbcDec, i3, List.flatten_cons, h.inv _ hxl, xorBytes_invol b iv (by rw [hbl, hiv])]

/-- CBC mode over any invertible block function satisfies the CBC laws (on states holding a one-block IV) -/
theorem cbcOf_laws (bs : Nat) (hbs : 0 < bs) (E D : Bytes → Bytes) (h : BlockLaws bs E D) :
    CbcLaws (cbcOf bs E false) (cbcOf bs D true) (fun s => s.iv.length = bs) := by
  have key : ∀ (s : St) (x : Bytes), s.iv.length = bs → x.length % bs = 0 →
      (cbcEnc E s.iv (chunks bs x)).1.length = x.length ∧ (cbcEnc E s.iv (chunks bs x)).2.length = bs ∧
      cbcDec D s.iv (chunks bs (cbcEnc E s.iv (chunks bs x)).1) = (x, (cbcEnc E s.iv (chunks bs x)).2) := by
    intro s x hs hx
    have hbs' : bs ≠ 0 := by omega
    have hxl : x.length = bs * (x.length / bs) := by
      have := Nat.div_add_mod x.length bs
      omega
    obtain ⟨c1, c2, c3⟩ := chunkN_spec bs (x.length / bs) x hxl
    obtain ⟨e1, e2, e3⟩ := cbc_blocks bs E D h (chunkN bs (x.length / bs) x) s.iv hs c2
    simp only [chunks, hbs', if_false]
    rw [c3] at e1 e3
    rw [e1, Nat.mul_div_cancel_left _ hbs, e3, c1]
    exact ⟨hxl.symm, e2, rfl⟩
  refine ⟨rfl, fun _ _ => rfl, fun s iv hiv => hiv, ?_, ?_, ?_⟩
  · intro s x hs hx
    exact (key s x hs hx).2.1
  · intro s x hs hx
    exact (key s x hs hx).1
  · intro s x hs hx
    obtain ⟨k1, k2, k3⟩ := key s x hs hx
    simp only [cbcOf, Bool.false_eq_true, if_false, if_true, k3]

theorem zip_inv (b key : Bytes) (h : b.length = key.length) :
    List.zipWith (fun y k => (y - 1) ^^^ k) (List.zipWith (fun x k => (x ^^^ k) + 1) b key) key = b := by
  induction b generalizing key with
  | nil => simp
  | cons x xs ih =>
    cases key with
    | nil => simp at h
    | cons k ks =>
      simp only [List.zipWith_cons_cons, List.cons.injEq]
      refine ⟨by simp [UInt8.xor_assoc], ih ks (by simpa using h)⟩

/-- the toy block cipher of the correspondence check is an invertible block function -/
theorem toy_block_laws (key : Bytes) : BlockLaws key.length (blockE key) (blockD key) := by
  constructor
  · intro b hb; simp [blockE, hb]
  · intro b hb; simp only [blockD, blockE, List.reverse_reverse]; exact zip_inv b key hb

/-- … so the toy CBC mode satisfies `CbcLaws` -/
theorem toy_cbc_laws (key : Bytes) (hk : 0 < key.length) :
    CbcLaws (toyCbc key false) (toyCbc key true) (fun s => s.iv.length = key.length) := by
  have := cbcOf_laws key.length hk (blockE key) (blockD key) (toy_block_laws key)
  simpa [toyCbc] using this

end toycbc

end ZV.C25
