import ZV.Model.C11
import ZV.Proofs.C11
import ZV.Proofs.C11Async
/-!
  C11, second layer: the small deterministic logic around the walk
  (`canAddReason`, `chanCap`, `validSigAfter`, start-edge synthesis), the abandoned-channel lemma of the
  producer/consumer model, and the relation between the synthesized start edge and the edge `AddCert` stores.
-/
namespace ZV.C11
open ZV.C10

/-! ### the abandoned channel -/
namespace Async
variable {α : Type}

theorem step_received_le (cap : Nat) (s : St α) (t : Step) :
    (step cap s t).received.length ≤ s.received.length + (if t = .recv then 1 else 0) := by
  cases t with
  | send =>
    unfold step
    cases hr : s.remaining with
    | nil => simp
    | cons x r => simp only; split <;> simp
  | close =>
    unfold step
    cases hr : s.remaining with
    | nil => simp only; split <;> simp
    | cons x r => simp
  | recv =>
    unfold step
    cases hb : s.buffer with
    | nil => simp
    | cons x b => simp

/-- the consumer has received at most as many items as it made `recv` steps -/
theorem run_received_le (cap : Nat) : ∀ (sched : List Step) (s : St α),
    (run cap s sched).received.length ≤ s.received.length + sched.count .recv := by
  intro sched
  induction sched with
  | nil => intro s; simp [run]
  | cons t ts ih =>
    intro s
    have h1 := ih (step cap s t)
    have h2 := step_received_le cap s t
    simp only [run, List.count_cons]
    cases t <;> simp at h2 ⊢ <;> omega

/-- The abandoned channel.  If the consumer makes fewer than `items.length - cap` receive steps in total
    (it stopped ranging over the channel), the channel is NOT closed, whatever the producer does and however long
    it runs: the goroutine of `walkFromEdgeToRoot` stays blocked in a send (a goroutine leak, as the doc comment
    of `WalkChainsAsync` says: "If the channel does not get consumed, this function may block indefinitely"). -/
theorem abandoned_not_closed {cap : Nat} (hcap : 1 ≤ cap) (items : List α) (sched : List Step)
    (h : sched.count .recv + cap < items.length) :
    (run cap (init items) sched).closed = false ∧ (run cap (init items) sched).remaining ≠ [] := by
  obtain ⟨hstream, _, hbuf, hclosed, _⟩ := async_delivers hcap items sched
  have hrec := run_received_le cap sched (init items)
  simp only [init, List.length_nil, Nat.zero_add] at hrec
  have hlen := congrArg List.length hstream
  simp only [List.length_append] at hlen
  have hrem : (run cap (init items) sched).remaining ≠ [] := by
    intro h0
    simp only [init] at hlen hbuf h0
    rw [h0] at hlen
    simp only [List.length_nil] at hlen
    omega
  refine ⟨?_, hrem⟩
  cases hc : (run cap (init items) sched).closed with
  | false => rfl
  | true => exact absurd (hclosed hc) hrem

/-- conversely a producer whose output fits into the buffer needs no consumer: `items.length` sends and the
    close are all enabled in turn (the goroutine ends, the channel is closed) -/
theorem run_sends (cap : Nat) : ∀ (items : List α) (s : St α),
    s.buffer.length + items.length ≤ cap → s.remaining = items →
    run cap s (List.replicate items.length Step.send) =
      { s with remaining := [], buffer := s.buffer ++ items } := by
  intro items
  induction items with
  | nil => intro s _ hr; cases s; simp only at hr; subst hr; simp [run]
  | cons x r ih =>
    intro s hlen hr
    simp only [List.length_cons] at hlen
    simp only [List.length_cons, List.replicate_succ, run]
    have hlt : s.buffer.length < cap := by omega
    have hs : step cap s .send = { s with remaining := r, buffer := s.buffer ++ [x] } := by
      simp [step, hr, hlt]
    rw [hs, ih _ (by simp only [List.length_append, List.length_singleton]; omega) rfl]
    simp

theorem fits_closes_without_consumer {cap : Nat} (items : List α) (h : items.length ≤ cap) :
    (run cap (init items) (List.replicate items.length Step.send ++ [Step.close])).closed = true ∧
    (run cap (init items) (List.replicate items.length Step.send ++ [Step.close])).buffer = items := by
  have hr : ∀ (s : St α) (a b : List Step), run cap s (a ++ b) = run cap (run cap s a) b := by
    intro s a
    induction a generalizing s with
    | nil => intro b; rfl
    | cons t ts ih => intro b; simp only [List.cons_append, run]; exact ih _ b
  rw [hr, run_sends cap items (init items) (by simpa [init] using h) rfl]
  simp [run, step, init]

end Async

/-! ### `chanCap` -/

theorem chanCap_pos (n : Int) : 1 ≤ chanCap n := by
  unfold chanCap; split <;> omega

theorem chanCap_default {n : Int} (h : n ≤ 0) : chanCap n = Gen.defaultChannelSize := by
  unfold chanCap; simp [h, Gen.defaultChannelSize]

theorem chanCap_given {n : Int} (h : 0 < n) : (chanCap n : Int) = n := by
  unfold chanCap
  have : ¬ n ≤ 0 := by omega
  simp only [this, if_false]; omega

/-! ### `canAddReason` refines `canAddToChain` -/

theorem canAddToChain_eq_reason (c : Cert) (isRoot : Bool) (chain : List Cert) :
    canAddToChain c isRoot chain = (canAddReason c isRoot chain.length == 0) := by
  unfold canAddToChain canAddReason
  split
  · rfl
  · split <;> rfl

/-- what `canAddToChain` admits, in words: before the root only CA certificates with valid basic constraints; a
    certificate with a path-length limit `L ≥ 0` is admitted only when at most `L` certificates lie between the
    start certificate and it -/
theorem canAddToChain_iff (c : Cert) (isRoot : Bool) (chain : List Cert) :
    canAddToChain c isRoot chain = true ↔
      (isRoot = false → c.bcValid = true ∧ c.isCA = true) ∧
      (c.bcValid = true → 0 ≤ c.maxPathLen → (chain.length : Int) - 1 ≤ c.maxPathLen) := by
  unfold canAddToChain
  cases isRoot <;> cases c.bcValid <;> cases c.isCA <;> simp <;> omega

/-! ### start-edge synthesis and the `ValidSignature` flag -/

theorem startEdge_in_graph {V : Ver} {g : Graph} {c : Cert} {e : Edge} (h : findEdge g.edges c.fp = some e) :
    startEdge V g c = e := by
  simp [startEdge, h]

theorem startEdge_synth {V : Ver} {g : Graph} {c : Cert} (h : findEdge g.edges c.fp = none) :
    startEdge V g c =
      { cert := c, issuer := (searchIssuer V g.nodes c.iss c.fp).map (·.key), child := c.sk, root := false } := by
  simp [startEdge, h]

/-- the synthesized issuer is the FIRST node (in `g.nodes` order = `nodesBySubject[RawIssuer]` order) that has the
    issuer name and whose key verifies the certificate; every earlier node fails one of the two tests -/
theorem searchIssuer_spec {V : Ver} {ns : List Node} {iss fp : Nat} {n : Node}
    (h : searchIssuer V ns iss fp = some n) :
    n.key.1 = iss ∧ V n.key fp = true ∧
      ∃ pre post, ns = pre ++ n :: post ∧ ∀ m ∈ pre, ¬ (m.key.1 = iss ∧ V m.key fp = true) := by
  unfold searchIssuer at h
  obtain ⟨hp, pre, post, hd, hall⟩ := List.find?_eq_some_iff_append.mp h
  simp only [Bool.and_eq_true, beq_iff_eq] at hp
  refine ⟨hp.1, hp.2, pre, post, hd, fun m hm => ?_⟩
  have := hall m hm
  intro ⟨h1, h2⟩
  simp [h1, h2] at this

theorem searchIssuer_none {V : Ver} {ns : List Node} {iss fp : Nat}
    (h : searchIssuer V ns iss fp = none) : ∀ m ∈ ns, ¬ (m.key.1 = iss ∧ V m.key fp = true) := by
  unfold searchIssuer at h
  intro m hm
  have := List.find?_eq_none.mp h m hm
  simpa using this

/-- the flag on `c` is set exactly when `c` is in the graph or some node with the issuer name verifies it;
    it is never cleared -/
theorem validSigAfter_iff (V : Ver) (g : Graph) (c : Cert) (before : Bool) :
    validSigAfter V g c before = true ↔
      before = true ∨ (findEdge g.edges c.fp).isSome = true ∨
        ∃ n ∈ g.nodes, n.key.1 = c.iss ∧ V n.key c.fp = true := by
  unfold validSigAfter
  cases he : findEdge g.edges c.fp with
  | some e => simp
  | none =>
    cases hs : searchIssuer V g.nodes c.iss c.fp with
    | some n =>
      obtain ⟨h1, h2, pre, post, hd, _⟩ := searchIssuer_spec hs
      simp only [true_iff]
      exact Or.inr (Or.inr ⟨n, by rw [hd]; simp, h1, h2⟩)
    | none =>
      have hn := searchIssuer_none hs
      simp only [Option.isSome_none, Bool.false_eq_true, false_or]
      constructor
      · intro h; exact Or.inl h
      · rintro (h | ⟨n, hn1, hn2⟩)
        · exact h
        · exact absurd hn2 (hn n hn1)

/-- no issuer found for an out-of-graph certificate: the walk returns nothing -/
theorem walkChains_no_issuer {V : Ver} {g : Graph} {c : Cert} (he : findEdge g.edges c.fp = none)
    (hs : searchIssuer V g.nodes c.iss c.fp = none) : walkChains V g c = [] := by
  unfold walkChains
  rw [startEdge_synth he, hs]
  unfold walk
  simp

/-! ### the synthesized start edge is the edge `AddCert` would store

  `AddCert(c)` for a certificate that is not in the graph appends the edge
  `{cert := c, issuer := first verifying node with the issuer name, child := c.sk, root := false}` —
  searched in `g.nodes` PLUS the node of `c` itself when that node is new.  So when the node `(subject, key)`
  of `c` already exists (cross certificate / re-issue), or `c` does not verify under its own (subject, key)
  (`c` is not self-signed), the stored edge is literally `startEdge V g c`. -/

theorem findEdge_append_new {es : List Edge} {e : Edge} (h : hasEdge es e.cert.fp = false) :
    findEdge (es ++ [e]) e.cert.fp = some e := by
  unfold findEdge hasEdge at *
  rw [List.find?_append]
  have : List.find? (fun x => x.cert.fp == e.cert.fp) es = none := by
    rw [List.find?_eq_none]
    intro x hx
    have := List.any_eq_false.mp h x hx
    simpa using this
  simp [this]

theorem searchIssuer_append_new {V : Ver} {ns : List Node} {c : Cert}
    (h : ¬ (c.subj = c.iss ∧ V c.sk c.fp = true)) :
    searchIssuer V (ns ++ [newNode c.sk]) c.iss c.fp = searchIssuer V ns c.iss c.fp := by
  unfold searchIssuer
  rw [List.find?_append]
  have : List.find? (fun n => n.key.1 == c.iss && V n.key c.fp) [newNode c.sk] = none := by
    simp only [List.find?_cons, List.find?_nil, newNode, Cert.sk]
    have : (c.subj == c.iss && V (c.subj, c.key) c.fp) = false := by
      cases h1 : (c.subj == c.iss) <;> cases h2 : V (c.subj, c.key) c.fp <;> simp_all [Cert.sk]
    simp [this]
  rw [this]; simp

theorem findEdge_none_of_hasEdge {es : List Edge} {fp : Nat} (h : hasEdge es fp = false) :
    findEdge es fp = none := by
  unfold findEdge hasEdge at *
  rw [List.find?_eq_none]
  intro x hx
  have := List.any_eq_false.mp h x hx
  simpa using this

/-- `AddCert(c)` for a certificate not in the graph whose (subject, key) node already exists stores exactly the
    edge the walk synthesizes for `c` -/
theorem addCert_stores_startEdge_partial {V : Ver} {g g1 : Graph} {c : Cert}
    (hne : hasEdge g.edges c.fp = false) (hnode : hasNode g.nodes c.sk = true)
    (h : addCert V g c = .ok g1) :
    findEdge g1.edges c.fp = some (startEdge V g c) ∧ g1.edges = g.edges ++ [startEdge V g c] := by
  have hs := startEdge_synth (V := V) (findEdge_none_of_hasEdge hne)
  unfold addCert at h
  simp only [hne, Bool.false_eq_true, if_false, hnode, Bool.not_true] at h
  cases hsi : searchIssuer V g.nodes c.iss c.fp with
  | some p =>
    simp only [hsi] at h
    cases hl : link g.nodes p.key c.sk c.fp with
    | ok ns2 =>
      simp only [hl, Res.ok.injEq] at h
      subst h
      rw [hs, hsi]
      exact ⟨findEdge_append_new (e := { cert := c, issuer := some p.key, child := c.sk, root := false }) hne, rfl⟩
    | err => simp [hl] at h
    | panic => simp [hl] at h
  | none =>
    simp only [hsi] at h
    cases hm : g.missing.has c.iss c.fp with
    | true => simp [hm] at h
    | false =>
      simp only [hm, Bool.false_eq_true, if_false, Res.ok.injEq] at h
      subst h
      rw [hs, hsi]
      exact ⟨findEdge_append_new (e := { cert := c, issuer := none, child := c.sk, root := false }) hne, rfl⟩

end ZV.C11
