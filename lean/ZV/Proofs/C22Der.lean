import ZV.Model.C22Der
import ZV.Proofs.C22
import ZV.Props.C18
/-! C22, DER leg: `pkix.RDNSequence` as an instance of the C18 round-trip theorem.
    1. values: `seqToVal` lands in `InDomain rdnSchema`, Marshal succeeds on `seqOK`;
    2. `VEq` at `rdnSchema` is "RDN by RDN a permutation";
    3. `FillFromRDNSequence` of a sequence whose RDNs are permuted internally. -/
namespace ZV.C22
open ZV.C18 (Schema Val Params All2)

/-! ### slice values -/

theorem velems_eq (v : Val) : velems v = C18.elems v := by
  induction v <;> simp_all [velems, C18.elems]

theorem chain_eq (l : List Val) : chain l = C18.ofList l := by
  induction l <;> simp_all [chain, C18.ofList]

@[simp] theorem velems_chain (l : List Val) : velems (chain l) = l := by
  rw [velems_eq, chain_eq, C18.elems_ofList]

theorem allChain_chain (f : Val → Bool) (l : List Val) : C18.allChain f (chain l) = l.all f := by
  induction l <;> simp_all [chain, C18.allChain]

theorem lenZero_chain_cons (x : Val) (l : List Val) : C18.lenZero (chain (x :: l)) = false := rfl

/-! ### the string choice -/

/-- Marshal's choice for a valid UTF-8 string is PrintableString or UTF8String … -/
theorem stringChoice_cases (s : Bytes) (h : C18.utf8Valid s = true) :
    (stringChoice s = some 19 ∧ s.all (fun b => decide (b.toNat < 128) && C18.isPrintable b false false) = true) ∨
    stringChoice s = some 12 := by
  unfold stringChoice C18.stringTag
  simp only [if_true]
  by_cases hp : s.all (fun b => decide (b.toNat < 128) && C18.isPrintable b false false) = true
  · left; simp [hp]
  · right; simp [hp, h]

/-- … and an invalid one that is not printable ASCII is refused -/
theorem stringChoice_none (s : Bytes) (h : C18.utf8Valid s = false)
    (hp : s.all (fun b => decide (b.toNat < 128) && C18.isPrintable b false false) = false) : stringChoice s = none := by
  unfold stringChoice C18.stringTag
  simp [hp, h]

theorem all_printable_weaken (s : Bytes)
    (h : s.all (fun b => decide (b.toNat < 128) && C18.isPrintable b false false) = true) :
    s.all (fun b => C18.isPrintable b true true) = true := by
  rw [List.all_eq_true] at h ⊢
  intro b hb
  have := h b hb
  simp only [Bool.and_eq_true] at this
  exact C18.isPrintable_weaken b false false this.2

/-- whichever of the two kinds Marshal picks, the strict decoder reads the content back as the same string -/
theorem readBack_choice (s : Bytes) (t : Nat) (h : stringChoice s = some t) : readBack t s = .ok (.bytes s) := by
  unfold stringChoice C18.stringTag at h
  simp only [if_true] at h
  split at h
  · rename_i hp
    cases h
    simp [readBack, C18.parseString, C18.parsePrintableString, all_printable_weaken s hp]
  · split at h
    · rename_i hu
      cases h
      simp [readBack, C18.parseString, C18.parseUTF8String, hu]
    · cases h

/-! ### Marshal succeeds on the domain -/

theorem exists_all2 {α β : Type} (P : α → β → Prop) : ∀ (l : List α), (∀ x ∈ l, ∃ b, P x b) → ∃ bs, All2 P l bs
  | [], _ => ⟨[], trivial⟩
  | x :: l, h => by
    obtain ⟨b, hb⟩ := h x (by simp)
    obtain ⟨bs, hbs⟩ := exists_all2 P l (fun y hy => h y (by simp [hy]))
    exact ⟨b :: bs, hb, hbs⟩

/-- `makeField` of a slice type without parameters: succeeds as soon as every element does -/
theorem makeField_slice_ok (sn : Bool) (e : Schema) (l : List Val) (h : ∀ x ∈ l, ∃ b, C18.makeField e {} x = .ok b) :
    ∃ b, C18.makeField (.seqOf sn e) {} (chain l) = .ok b := by
  obtain ⟨encs, henc⟩ := exists_all2 (fun x b => C18.makeField e {} x = .ok b) l h
  have hm := C18.mapElems_ofList (fun x => C18.makeField e {} x) l encs henc
  rw [← chain_eq] at hm
  simp only [C18.makeField, C18.omitted_false _ {} _ rfl rfl, Bool.false_eq_true, if_false, hm]
  simp only [show (({} : Params).timeType ≠ 0) = False from by simp, if_false, Bool.false_and, Bool.false_eq_true]
  exact ⟨_, rfl⟩

theorem makeField_atv_ok (a : ATV) (h : atvOK a = true) : ∃ b, C18.makeField atvSchema {} (atvToVal a) = .ok b := by
  obtain ⟨t, val⟩ := a
  simp only [atvOK, Bool.and_eq_true] at h
  cases val with
  | other tg r => simp at h
  | str s =>
    obtain ⟨hu, ho⟩ := h
    simp only at hu ho
    obtain ⟨body, hb, _⟩ := C18.parseOID_makeOID _ ho
    have hoid : ∃ b1, C18.makeField .oid {} (.oid (t.map Int.ofNat)) = .ok b1 := by
      rw [C18.makeField_leaf .oid {} _ rfl rfl]
      simp only [C18.primMake, C18.omitted_false _ {} _ rfl rfl, Bool.false_eq_true, if_false, C18.univ, C18.marshalTag,
        C18.makePrimBody, hb]
      simp
    have hstr : ∃ b2, C18.makeField .str {} (.bytes s) = .ok b2 := by
      rw [C18.makeField_leaf .str {} _ rfl rfl]
      have hc : ∃ tg, C18.stringTag {} s = some tg := by
        rcases stringChoice_cases s hu with h1 | h1
        · exact ⟨19, h1.1⟩
        · exact ⟨12, h1⟩
      obtain ⟨tg, htg⟩ := hc
      simp only [C18.primMake, C18.omitted_false _ {} _ rfl rfl, Bool.false_eq_true, if_false, C18.univ, C18.marshalTag,
        C18.makePrimBody, htg, C18.makeString]
      simp
    obtain ⟨b1, h1⟩ := hoid
    obtain ⟨b2, h2⟩ := hstr
    rw [C18.makeField_leaf .oid {} _ rfl rfl] at h1
    rw [C18.makeField_leaf .str {} _ rfl rfl] at h2
    simp only [atvSchema, atvToVal, C18.makeField, C18.omitted_false _ {} _ rfl rfl, Bool.false_eq_true, if_false,
      C18.makeFields, h1, h2]
    simp

theorem marshalSeq_ok (seq : Option RDNSeq) (h : seqOK (orNil seq) = true) :
    ∃ enc, marshalSeq seq = .ok enc := by
  cases seq with
  | none => exact ⟨[0x30, 0], by decide⟩
  | some s =>
    simp only [seqOK, List.all_eq_true] at h
    unfold marshalSeq C18.marshal rdnSchema seqToVal
    apply makeField_slice_ok
    intro x hx
    obtain ⟨r, hr, rfl⟩ := List.mem_map.mp hx
    unfold rdnToVal
    apply makeField_slice_ok
    intro y hy
    obtain ⟨a, ha, rfl⟩ := List.mem_map.mp hy
    exact makeField_atv_ok a (h r hr a ha)

/-! ### the values are in the domain of the C18 theorem -/

theorem inDomain_atv (a : ATV) (h : atvOK a = true) : C18.InDomain atvSchema {} (atvToVal a) = true := by
  obtain ⟨t, val⟩ := a
  simp only [atvOK, Bool.and_eq_true] at h
  cases val with
  | other tg r => simp at h
  | str s =>
    have ho : C18.oidOK (t.map Int.ofNat) = true := h.2
    simp [atvSchema, atvToVal, C18.InDomain, C18.omitted_false _ {} _ rfl rfl, C18.goodB, C18.leafOK, C18.strOK, ho]

theorem inDomain_seq (seq : Option RDNSeq) (h : seqOK (orNil seq) = true) :
    C18.InDomain rdnSchema {} (seqToVal seq) = true := by
  cases seq with
  | none => decide
  | some s =>
    simp only [seqOK, List.all_eq_true] at h
    simp only [rdnSchema, seqToVal, C18.InDomain, C18.omitted_false _ {} _ rfl rfl, Bool.false_eq_true, if_false,
      allChain_chain, Bool.and_eq_true, List.all_eq_true]
    refine ⟨⟨by decide, by decide⟩, ?_⟩
    intro x hx
    obtain ⟨r, hr, rfl⟩ := List.mem_map.mp hx
    simp only [rdnToVal, C18.InDomain, C18.omitted_false _ {} _ rfl rfl, Bool.false_eq_true, if_false, allChain_chain,
      Bool.and_eq_true, List.all_eq_true]
    refine ⟨⟨by decide, by decide⟩, ?_⟩
    intro y hy
    obtain ⟨a, ha, rfl⟩ := List.mem_map.mp hy
    exact inDomain_atv a (h r hr a ha)

/-! ### `≈` of the C18 theorem at `rdnSchema`: RDN by RDN a permutation -/

/-- the sequence-level relation: same number of RDNs, each RDN a permutation of the original one -/
def RdnPerm (seq seq' : RDNSeq) : Prop := All2 (fun r r' => r'.Perm r) seq seq'

theorem RdnPerm.length {seq seq' : RDNSeq} (h : RdnPerm seq seq') : seq.length = seq'.length := C18.All2_length h

theorem veq_atv (a b : Val) (h : C18.VEq atvSchema {} a b) : b = a := by
  simp only [atvSchema, C18.VEq] at h
  cases a with
  | vcons a1 as =>
    cases b with
    | vcons b1 bs =>
      simp only at h
      obtain ⟨h1, h2⟩ := h
      cases as with
      | vcons a2 as2 =>
        cases bs with
        | vcons b2 bs2 =>
          simp only at h2
          obtain ⟨h3, h4⟩ := h2
          rw [h1, h3, h4]
        | _ => simp_all
      | _ => simp_all
    | _ => simp_all
  | _ => simp_all

theorem veq_rdn (a b : Val) (h : C18.VEq (.seqOf true atvSchema) {} a b) : (C18.elems b).Perm (C18.elems a) := by
  simp only [C18.VEq, Bool.or_true, if_true] at h
  obtain ⟨l, hl, hall⟩ := h
  have : C18.elems b = l := C18.All2_eq hall (fun x _ y hxy => veq_atv x y hxy)
  rw [this]; exact hl

theorem atvOfVal_atvToVal (a : ATV) (h : atvOK a = true) : atvOfVal (atvToVal a) = a := by
  obtain ⟨t, val⟩ := a
  cases val with
  | other tg r => simp [atvOK] at h
  | str s =>
    simp only [atvToVal, atvOfVal, List.map_map]
    congr 1
    clear h
    induction t <;> simp_all

theorem veq_seq_aux : ∀ (s : RDNSeq) (ys : List Val), (∀ r ∈ s, ∀ a ∈ r, atvOK a = true) →
    All2 (fun a b => C18.VEq (.seqOf true atvSchema) {} a b) (s.map rdnToVal) ys →
    RdnPerm s (ys.map (fun r => (velems r).map atvOfVal))
  | [], [], _, _ => trivial
  | r :: s, y :: ys, hok, h => by
    refine ⟨?_, veq_seq_aux s ys (fun r' hr' => hok r' (by simp [hr'])) h.2⟩
    have hp := veq_rdn _ _ h.1
    rw [← velems_eq, ← velems_eq, rdnToVal, velems_chain] at hp
    have hp2 := hp.map atvOfVal
    rw [List.map_map] at hp2
    have : r.map (atvOfVal ∘ atvToVal) = r := by
      conv_rhs => rw [← List.map_id r]
      apply List.map_congr_left
      intro a ha
      exact atvOfVal_atvToVal a (hok r (by simp) a ha)
    rw [this] at hp2
    exact hp2
  | [], _ :: _, _, h => h.elim
  | _ :: _, [], _, h => h.elim

/-- what `VEq` says about the decoded value of an RDN sequence of the domain -/
theorem veq_seq (seq : Option RDNSeq) (v' : Val) (hok : seqOK (orNil seq) = true)
    (h : C18.VEq rdnSchema {} (seqToVal seq) v') : RdnPerm (orNil seq) (valToSeq v') := by
  simp only [rdnSchema, C18.VEq, Bool.or_false] at h
  simp only [show (({} : Params).set = true) = False from by simp, if_false] at h
  simp only [seqOK, List.all_eq_true] at hok
  unfold valToSeq
  rw [velems_eq]
  cases seq with
  | none =>
    simp only [seqToVal, C18.elems] at h
    cases hv : C18.elems v' with
    | nil => trivial
    | cons _ _ => rw [hv] at h; exact h.elim
  | some s =>
    simp only [seqToVal] at h
    rw [← velems_eq, velems_chain] at h
    exact veq_seq_aux s _ hok h

/-! ### re-marshalling the decoded sequence -/

theorem all2_map_left {α β : Type} {P : α → β → Prop} (g : α → α) : ∀ (l : List α) (bs : List β),
    All2 P l bs → (∀ x ∈ l, ∀ b, P x b → P (g x) b) → All2 P (l.map g) bs
  | [], [], _, _ => trivial
  | x :: l, b :: bs, h, hg =>
    ⟨hg x (by simp) b h.1, all2_map_left g l bs h.2 (fun y hy => hg y (by simp [hy]))⟩
  | [], _ :: _, h, _ => h.elim
  | _ :: _, [], h, _ => h.elim

theorem all2_left_ex {α β : Type} {P : α → β → Prop} : ∀ (l : List α) (bs : List β), All2 P l bs → ∀ x ∈ l, ∃ b, P x b
  | x :: l, b :: bs, h, y, hy => by
    rcases List.mem_cons.mp hy with rfl | hy'
    · exact ⟨b, h.1⟩
    · exact all2_left_ex l bs h.2 y hy'
  | [], _, _, _, hy => by simp at hy
  | _ :: _, [], h, _, _ => h.elim

theorem all2_right_ex {α β : Type} {P : α → β → Prop} : ∀ (l : List α) (bs : List β), All2 P l bs → ∀ b ∈ bs, ∃ x ∈ l, P x b
  | x :: l, b :: bs, h, y, hy => by
    rcases List.mem_cons.mp hy with rfl | hy'
    · exact ⟨x, by simp, h.1⟩
    · obtain ⟨x', hx', hp⟩ := all2_right_ex l bs h.2 y hy'
      exact ⟨x', by simp [hx'], hp⟩
  | _, [], _, _, hy => by simp at hy
  | [], _ :: _, h, _, _ => h.elim

/-- what a successful `makeField` of a parameterless slice says about the elements -/
theorem makeField_slice_inv (sn : Bool) (e : Schema) (v : Val) (b : Bytes) (h : C18.makeField (.seqOf sn e) {} v = .ok b) :
    ∃ encs, C18.mapElems (fun x => C18.makeField e {} x) v = .ok encs ∧
      All2 (fun x c => C18.makeField e {} x = .ok c) (C18.elems v) encs := by
  simp only [C18.makeField, C18.omitted_false _ {} _ rfl rfl, Bool.false_eq_true, if_false] at h
  simp only [show (({} : Params).timeType ≠ 0) = False from by simp, if_false, Bool.false_and, Bool.false_eq_true] at h
  cases hm : C18.mapElems (fun x => C18.makeField e {} x) v with
  | ok encs => exact ⟨encs, rfl, C18.mapElems_ok _ v encs hm⟩
  | err => rw [hm] at h; cases h
  | panic => rw [hm] at h; cases h

/-- `makeField` of a slice only looks at the element encodings -/
theorem makeField_slice_congr (sn : Bool) (e : Schema) (v : Val) (g : Val → Val) (b : Bytes)
    (h : C18.makeField (.seqOf sn e) {} v = .ok b)
    (hg : ∀ x ∈ C18.elems v, ∀ c, C18.makeField e {} x = .ok c → C18.makeField e {} (g x) = .ok c) :
    C18.makeField (.seqOf sn e) {} (chain ((C18.elems v).map g)) = .ok b := by
  obtain ⟨encs, hm, hall⟩ := makeField_slice_inv sn e v b h
  have hall' := all2_map_left (P := fun x c => C18.makeField e {} x = .ok c) g _ _ hall hg
  have hm' := C18.mapElems_ofList (fun x => C18.makeField e {} x) _ encs hall'
  rw [← chain_eq] at hm'
  simp only [C18.makeField, C18.omitted_false _ {} _ rfl rfl, Bool.false_eq_true, if_false] at h ⊢
  simp only [show (({} : Params).timeType ≠ 0) = False from by simp, if_false, Bool.false_and, Bool.false_eq_true] at h ⊢
  rw [hm] at h
  rw [hm']
  exact h

/-- the decoded value and the value of the decoded SEQUENCE marshal to the same bytes -/
theorem remarshal (s : RDNSeq) (v' : Val) (der : Bytes) (hok : ∀ r ∈ s, ∀ a ∈ r, atvOK a = true)
    (hall : All2 (fun a b => (C18.elems b).Perm (C18.elems a)) (s.map rdnToVal) (C18.elems v'))
    (hm : C18.marshal rdnSchema {} v' = .ok der) : marshalSeq (some (valToSeq v')) = .ok der := by
  unfold marshalSeq C18.marshal valToSeq
  simp only [seqToVal]
  rw [List.map_map, velems_eq]
  unfold C18.marshal at hm
  unfold rdnSchema at hm ⊢
  apply makeField_slice_congr false _ v' _ der hm
  intro y hy c hc
  obtain ⟨x, hx, hp⟩ := all2_right_ex _ _ hall y hy
  obtain ⟨r, hr, rfl⟩ := List.mem_map.mp hx
  simp only [Function.comp, rdnToVal, List.map_map, velems_eq]
  apply makeField_slice_congr true _ y _ c hc
  intro z hz d hd
  rw [rdnToVal, ← velems_eq (chain _), velems_chain] at hp
  obtain ⟨a, ha, rfl⟩ := List.mem_map.mp ((List.Perm.mem_iff hp).mp hz)
  rw [Function.comp, atvOfVal_atvToVal a (hok r hr a ha)]
  exact hd

/-! ### `FillFromRDNSequence` when the members of each RDN are permuted -/

theorem RdnPerm.flatten : ∀ {s s' : RDNSeq}, RdnPerm s s' → s'.flatten.Perm s.flatten
  | [], [], _ => List.Perm.refl _
  | r :: s, r' :: s', h => by
    simp only [List.flatten_cons]
    exact List.Perm.append h.1 (RdnPerm.flatten h.2)
  | [], _ :: _, h => h.elim
  | _ :: _, [], h => h.elim

/-- a scalar is set only by attributes that stand alone in their RDN: then permuting inside the RDNs does not change it -/
theorem scalar_perm (sc : Scalar) : ∀ (s s' : RDNSeq), RdnPerm s s' →
    (∀ r ∈ s, r.length ≤ 1 ∨ ∀ a ∈ r, ∀ x, stepS sc x a = x) →
    ∀ x, s'.flatten.foldl (stepS sc) x = s.flatten.foldl (stepS sc) x
  | [], [], _, _, _ => rfl
  | r :: s, r' :: s', h, hs, x => by
    simp only [List.flatten_cons, List.foldl_append]
    have ih := scalar_perm sc s s' h.2 (fun r0 h0 => hs r0 (by simp [h0]))
    have hr : r'.foldl (stepS sc) x = r.foldl (stepS sc) x := by
      rcases hs r (by simp) with hlen | hno
      · have hp : r'.Perm r := h.1
        match r, hlen, hp with
        | [], _, hp => rw [List.Perm.eq_nil hp]
        | [a], _, hp => rw [List.perm_singleton.mp hp]
        | _ :: _ :: _, hlen, _ => simp at hlen
      · have h1 : ∀ (l : List ATV), (∀ a ∈ l, ∀ y, stepS sc y a = y) → ∀ y, l.foldl (stepS sc) y = y := by
          intro l
          induction l with
          | nil => intro _ _; rfl
          | cons a l ihl =>
            intro hl y
            rw [List.foldl_cons, hl a (by simp), ihl (fun b hb => hl b (by simp [hb]))]
        rw [h1 r hno, h1 r' (fun a ha => hno a ((List.Perm.mem_iff h.1).mp ha))]
    rw [hr, ih]
  | [], _ :: _, h, _, _ => h.elim
  | _ :: _, [], h, _, _ => h.elim

/-- every RDN `ToRDNSequence` emits with more than one member comes from a slice field whose attribute type sets no scalar -/
def sliceRowsSetNothing : Bool :=
  emitRows.all (fun row => match row.1 with
    | .slice _ => (armOf row.2).all (fun act => match act with | .set _ => false | .app _ => true)
    | .guarded _ => true)

theorem sliceRowsSetNothing_ok : sliceRowsSetNothing = true := by decide

theorem emit_multi_no_scalar (n : Name) (sc : Scalar) :
    ∀ r ∈ emit n, r.length ≤ 1 ∨ ∀ a ∈ r, ∀ x, stepS sc x a = x := by
  intro r hr
  rw [emit_eq, List.mem_append] at hr
  rcases hr with hr | hr
  · simp only [emitL, List.mem_flatMap] at hr
    obtain ⟨row, hrow, hmem⟩ := hr
    have htab := sliceRowsSetNothing_ok
    simp only [sliceRowsSetNothing, List.all_eq_true] at htab
    have hrowt := htab row hrow
    obtain ⟨src, oid⟩ := row
    cases src with
    | guarded s =>
      left
      simp only [mkRDN, Src.vals] at hmem
      by_cases hg : (n.getS s).length > 0
      · simp only [hg, if_true, List.mem_singleton] at hmem
        subst hmem; simp
      · simp [hg] at hmem
    | slice f =>
      right
      simp only at hrowt
      simp only [mkRDN] at hmem
      split at hmem
      · simp at hmem
      · simp only [List.mem_singleton] at hmem
        subst hmem
        intro a ha x
        obtain ⟨v, _, rfl⟩ := List.mem_map.mp ha
        simp only [stepS, mkATV]
        have : Act.set sc ∉ armOf oid := by
          intro hc
          have := (List.all_eq_true.mp hrowt) _ hc
          simp at this
        simp [this]
  · left
    obtain ⟨a, _, rfl⟩ := List.mem_map.mp hr
    simp

/-- **Fill of an internally permuted sequence**: slice fields and `Names` as multisets, scalars exactly -/
theorem fill_rdnPerm (s s' : RDNSeq) (h : RdnPerm s s')
    (hs : ∀ sc, ∀ r ∈ s, r.length ≤ 1 ∨ ∀ a ∈ r, ∀ x, stepS sc x a = x) :
    (∀ f, ((fill (some s')).get f).Perm (s.flatten.flatMap (valsFor f))) ∧
    (∀ sc, (fill (some s')).getS sc = s.flatten.foldl (stepS sc) []) ∧
    (fill (some s')).names.Perm s.flatten ∧ (fill (some s')).extraNames = [] ∧
    (fill (some s')).originalRDNS = some s' := by
  unfold fill
  rw [fillInto_eq]
  simp only [flat]
  refine ⟨fun f => ?_, fun sc => ?_, ?_, ?_, ?_⟩
  · rw [fillFlat_get]
    have : ({ Name.empty with originalRDNS := some s' } : Name).get f = [] := by cases f <;> rfl
    rw [this, List.nil_append]
    exact List.Perm.flatMap_right _ h.flatten
  · rw [fillFlat_getS]
    have : ({ Name.empty with originalRDNS := some s' } : Name).getS sc = [] := by cases sc <;> rfl
    rw [this]
    exact scalar_perm sc s s' h (hs sc) []
  · rw [(fillFlat_rest _ _).1]
    simpa [Name.empty] using h.flatten
  · rw [(fillFlat_rest _ _).2.1]; rfl
  · rw [(fillFlat_rest _ _).2.2]

end ZV.C22
