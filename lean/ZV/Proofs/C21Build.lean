import ZV.Proofs.C21
/-!
  The low-level Builder model (`build`: shared buffer, `offset`, `pendingLenLen`, `pendingIsASN1`,
  `flushChild` back-patching incl. the DER long-form widening by `copyWithin`) computes the
  specification serializer `ser`.

  `Impl f r` — the Builder transformer `f` implements the specification result `r`:
  it is the identity on a Builder that already carries an error, appends exactly `c` to `result`
  (touching no other field) when `r = ok c`, and sets `err` (never `panicked`) when `r = err`.
-/
open ZV ZV.Der0
namespace ZV.C21

/-! ### buffer surgery -/

theorem set_append_cons {α} (P Q : List α) (x v : α) :
    (P ++ x :: Q).set P.length v = P ++ v :: Q := by
  induction P with
  | nil => rfl
  | cons a P ih => simp [ih]

theorem exists_snoc {α} (X : List α) (i : Nat) (h : X.length = i + 1) :
    ∃ X' x, X = X' ++ [x] ∧ X'.length = i := by
  rcases List.eq_nil_or_concat X with h0 | ⟨X', x, hx⟩
  · subst h0; simp at h
  · refine ⟨X', x, by simpa using hx, ?_⟩
    subst hx; simpa using h

/-- the back-patching loop of `flushChild` overwrites the `i` reserved bytes `X` by the big-endian
    field and returns what is left of the length. -/
theorem writeBE_spec (A : Bytes) : ∀ (i : Nat) (X B : Bytes) (l : Nat), X.length = i →
    writeBE (A ++ X ++ B) A.length i l = (A ++ beBytes i l ++ B, l / 256 ^ i) := by
  intro i
  induction i with
  | zero =>
    intro X B l h
    have : X = [] := List.length_eq_zero_iff.mp h
    subst this
    simp [writeBE, beBytes]
  | succ i ih =>
    intro X B l h
    obtain ⟨X', x, hX, hl⟩ := exists_snoc X i h
    subst hX
    have e1 : A ++ (X' ++ [x]) ++ B = (A ++ X') ++ x :: B := by simp
    have e2 : A.length + i = (A ++ X').length := by simp [hl]
    rw [writeBE, e1, e2, set_append_cons]
    have e3 : (A ++ X') ++ UInt8.ofNat (l % 256) :: B = A ++ X' ++ (UInt8.ofNat (l % 256) :: B) := by simp
    rw [e3, ih X' _ (l / 256) hl]
    simp only [beBytes, List.append_assoc, List.cons_append, List.nil_append, Prod.mk.injEq, true_and]
    rw [Nat.div_div_eq_div_mul, Nat.pow_succ, Nat.mul_comm]

theorem zeros_length (n : Nat) : (zeros n).length = n := by simp [zeros]

/-- DER long-form widening: after `lenByte` has been stored, `e` more bytes are appended, the body is
    moved up by `copy`, and the `e` length bytes are patched in. -/
theorem widen_spec (P c : Bytes) (e l : Nat) :
    writeBE (copyWithin (P ++ c ++ zeros e) (P.length + e) P.length) P.length e l
      = (P ++ beBytes e l ++ c, l / 256 ^ e) := by
  have hcw : copyWithin (P ++ c ++ zeros e) (P.length + e) P.length
      = P ++ (c ++ zeros e).take e ++ c := by
    unfold copyWithin
    have h1 : (P ++ c ++ zeros e).take (P.length + e) = P ++ (c ++ zeros e).take e := by
      rw [List.append_assoc, List.take_length_add_append]
    have h2 : (P ++ c ++ zeros e).drop P.length = c ++ zeros e := by
      rw [List.append_assoc, List.drop_left]
    have h3 : (P ++ c ++ zeros e).length - (P.length + e) = c.length := by
      simp [zeros_length]; omega
    rw [h1, h2, h3, List.take_left]
  rw [hcw]
  exact writeBE_spec P e _ c l (by simp [zeros_length])

/-! ### `Impl` -/

structure Impl (f : Builder → Builder) (r : Res Bytes) : Prop where
  np : r ≠ .panic
  errd : ∀ b : Builder, b.err = true → f b = b
  ok : ∀ (b : Builder) (c : Bytes), b.err = false → b.panicked = false → r = .ok c →
        f b = { b with result := b.result ++ c }
  bad : ∀ b : Builder, b.err = false → b.panicked = false → r = .err →
        (f b).err = true ∧ (f b).panicked = false

theorem append_ok {a b : Res Bytes} {bs : Bytes} (h : Res.append a b = .ok bs) :
    ∃ x y, a = .ok x ∧ b = .ok y ∧ bs = x ++ y := by
  unfold Res.append at h
  split at h <;> simp at h
  rename_i x y
  exact ⟨x, y, rfl, rfl, h.symm⟩

theorem impl_id : Impl (fun b => b) (.ok []) where
  np := by simp
  errd := by intro b _; rfl
  ok := by intro b c _ _ h; simp only [Res.ok.injEq] at h; subst h; simp
  bad := by intro b _ _ h; simp at h

theorem impl_add (bytes : Bytes) : Impl (fun b => add b bytes) (.ok bytes) where
  np := by simp
  errd := by intro b h; simp [add, h]
  ok := by intro b c he _ h; simp only [Res.ok.injEq] at h; subst h; simp [add, he]
  bad := by intro b _ _ h; simp at h

theorem impl_err : Impl (fun c => { c with err := true }) .err where
  np := by simp
  errd := by intro b h; cases b; simp at h; simp [h]
  ok := by intro b c _ _ h; simp at h
  bad := by intro b _ hp _; exact ⟨by simp, by simpa using hp⟩

theorem impl_comp {f g : Builder → Builder} {r s : Res Bytes} (hf : Impl f r) (hg : Impl g s) :
    Impl (fun b => g (f b)) (Res.append r s) where
  np := by
    have := hf.np; have := hg.np
    cases r <;> cases s <;> simp_all [Res.append]
  errd := by intro b h; simp only [hf.errd b h, hg.errd b h]
  ok := by
    intro b c he hp h
    obtain ⟨x, y, hx, hy, e⟩ := append_ok h
    subst e
    simp only [hf.ok b x he hp hx]
    rw [hg.ok _ y (by simpa using he) (by simpa using hp) hy]
    simp
  bad := by
    intro b he hp h
    cases r with
    | panic => exact absurd rfl hf.np
    | err =>
      have hb := hf.bad b he hp rfl
      simp only [hg.errd _ hb.1]
      exact hb
    | ok x =>
      cases s with
      | panic => exact absurd rfl hg.np
      | ok y => simp [Res.append] at h
      | err =>
        simp only [hf.ok b x he hp rfl]
        exact hg.bad _ (by simpa using he) (by simpa using hp) rfl

/-! ### `flushChild` -/

theorem flushChild_err (b child : Builder) (he : child.err = true) (hp : child.panicked = false) :
    flushChild b child = { b with err := true } := by
  simp [flushChild, he, hp]

/-- plain (non-ASN.1) length prefix of `n` bytes -/
theorem flushChild_lp (b : Builder) (R c : Bytes) (n : Nat) :
    flushChild b { result := R ++ zeros n ++ c, offset := R.length, pendingLenLen := n,
                   pendingIsASN1 := false } =
      if c.length ≥ 256 ^ n then { b with err := true }
      else { b with result := R ++ (beBytes n c.length ++ c) } := by
  have hlen : (R ++ zeros n ++ c).length = R.length + n + c.length := by simp [zeros_length]; omega
  have hsub : R.length + n + c.length - n - R.length = c.length := by omega
  have hnlt : ¬ (R.length + n + c.length < n + R.length) := by omega
  simp only [flushChild, Bool.false_eq_true, if_false, hlen, hnlt, hsub,
    writeBE_spec R n (zeros n) c c.length (zeros_length n)]
  have hpos : 0 < 256 ^ n := Nat.pow_pos (by decide)
  by_cases h : c.length ≥ 256 ^ n
  · have : c.length / 256 ^ n ≠ 0 := by
      intro h0
      rcases (Nat.div_eq_zero_iff).mp h0 with h1 | h1 <;> omega
    simp [h, this]
  · have : c.length / 256 ^ n = 0 := Nat.div_eq_of_lt (by omega)
    simp [h, this]

/-- ASN.1 child: one length byte reserved, widened to the DER long form where necessary. -/
theorem flushChild_asn1 (b : Builder) (R c : Bytes) (tag : UInt8) :
    flushChild b { result := R ++ [tag] ++ zeros 1 ++ c, offset := R.length + 1, pendingLenLen := 1,
                   pendingIsASN1 := true } =
      match CB.derLength c.length with
      | .ok l => { b with result := R ++ (tag :: l ++ c) }
      | _ => { b with err := true } := by
  have hlen : (R ++ [tag] ++ zeros 1 ++ c).length = R.length + 2 + c.length := by
    simp [zeros_length]; omega
  have hsub : R.length + 2 + c.length - 1 - (R.length + 1) = c.length := by omega
  have hnlt : ¬ (R.length + 2 + c.length < 1 + (R.length + 1)) := by omega
  have hoff : ¬ (R.length + 1 ≥ R.length + 2 + c.length) := by omega
  have hset : ∀ lb : UInt8, (R ++ [tag] ++ zeros 1 ++ c).set (R.length + 1) lb = (R ++ [tag, lb]) ++ c := by
    intro lb
    have e1 : R ++ [tag] ++ zeros 1 ++ c = (R ++ [tag]) ++ (0 : UInt8) :: c := by simp [zeros]
    have e2 : R.length + 1 = (R ++ [tag]).length := by simp
    rw [e1, e2, set_append_cons]; simp
  have hP : ∀ lb : UInt8, R.length + 1 + 1 = (R ++ [tag, lb]).length := by intro lb; simp
  simp only [flushChild, Bool.false_eq_true, if_false, if_true, hlen, hnlt, hsub, hoff, ne_eq,
    not_true_eq_false, hset]
  unfold CB.derLength
  by_cases h5 : c.length > 0xfffffffe
  · simp [h5]
  · by_cases h4 : c.length > 0xffffff
    · simp only [h5, h4, if_true, if_false]
      have := widen_spec (R ++ [tag, 0x84]) c 4 c.length
      simp only [← hP, List.append_assoc, List.cons_append, List.nil_append] at this
      have hz : c.length / 256 ^ 4 = 0 := Nat.div_eq_of_lt (by omega)
      rw [hz] at this
      simp only [show (5 : Nat) - 1 = 4 from rfl, show ((4 : Nat) = 0) = False from by simp, not_false_eq_true, if_true, List.append_assoc, List.cons_append, List.nil_append, this]
      simp
    · by_cases h3 : c.length > 0xffff
      · simp only [h5, h4, h3, if_true, if_false]
        have := widen_spec (R ++ [tag, 0x83]) c 3 c.length
        simp only [← hP, List.append_assoc, List.cons_append, List.nil_append] at this
        have hz : c.length / 256 ^ 3 = 0 := Nat.div_eq_of_lt (by omega)
        rw [hz] at this
        simp only [show (4 : Nat) - 1 = 3 from rfl, show ((3 : Nat) = 0) = False from by simp, not_false_eq_true, if_true, List.append_assoc, List.cons_append, List.nil_append, this]
        simp
      · by_cases h2 : c.length > 0xff
        · simp only [h5, h4, h3, h2, if_true, if_false]
          have := widen_spec (R ++ [tag, 0x82]) c 2 c.length
          simp only [← hP, List.append_assoc, List.cons_append, List.nil_append] at this
          have hz : c.length / 256 ^ 2 = 0 := Nat.div_eq_of_lt (by omega)
          rw [hz] at this
          simp only [show (3 : Nat) - 1 = 2 from rfl, show ((2 : Nat) = 0) = False from by simp, not_false_eq_true, if_true, List.append_assoc, List.cons_append, List.nil_append, this]
          simp
        · by_cases h1 : c.length > 0x7f
          · simp only [h5, h4, h3, h2, h1, if_true, if_false]
            have := widen_spec (R ++ [tag, 0x81]) c 1 c.length
            simp only [← hP, List.append_assoc, List.cons_append, List.nil_append] at this
            have hz : c.length / 256 ^ 1 = 0 := Nat.div_eq_of_lt (by omega)
            rw [hz] at this
            simp only [show (2 : Nat) - 1 = 1 from rfl, show ((1 : Nat) = 0) = False from by simp, not_false_eq_true, if_true, List.append_assoc, List.cons_append, List.nil_append, this]
            simp
          · simp only [h5, h4, h3, h2, h1, if_false]
            simp [writeBE]

/-! ### the two block combinators -/

def mkChild (R : Bytes) (off n : Nat) (a : Bool) : Builder :=
  { result := R, offset := off, pendingLenLen := n, pendingIsASN1 := a }

theorem derLength_ne_panic (n : Nat) : CB.derLength n ≠ .panic := by
  unfold CB.derLength
  repeat' split
  all_goals simp

theorem lpBytes_ok {n : Nat} {r : Res Bytes} {c' : Bytes} (h : lpBytes n r = .ok c') :
    ∃ c, r = .ok c ∧ c.length < 256 ^ n ∧ c' = beBytes n c.length ++ c := by
  unfold lpBytes at h
  split at h
  · rename_i c
    split at h
    · simp at h
    · rename_i hl
      simp only [Res.ok.injEq] at h
      exact ⟨c, rfl, by omega, h.symm⟩
  · simp at h
  · simp at h

theorem impl_lp (n : Nat) {f : Builder → Builder} {r : Res Bytes} (hf : Impl f r) :
    Impl (fun b => addLengthPrefixed b n false f) (lpBytes n r) where
  np := by
    have := hf.np
    cases r with
    | ok c => simp only [lpBytes]; split <;> simp
    | err => simp [lpBytes]
    | panic => exact absurd rfl this
  errd := by intro b h; simp [addLengthPrefixed, h]
  ok := by
    intro b c' he hp h
    obtain ⟨c, hr, hl, hc'⟩ := lpBytes_ok h
    subst hc'
    simp only [addLengthPrefixed, he, Bool.false_eq_true, if_false, add]
    rw [hf.ok _ c rfl rfl hr]
    have := flushChild_lp { b with result := b.result ++ zeros n } b.result c n
    simp only [he] at this ⊢
    rw [this]
    have : ¬ c.length ≥ 256 ^ n := by omega
    simp [this]
  bad := by
    intro b he hp h
    simp only [addLengthPrefixed, he, Bool.false_eq_true, if_false, add]
    cases r with
    | panic => exact absurd rfl hf.np
    | err =>
      have hb := hf.bad (mkChild (b.result ++ zeros n) b.result.length n false) rfl rfl rfl
      simp only [mkChild] at hb
      rw [flushChild_err _ _ hb.1 hb.2]
      exact ⟨by simp, by simpa using hp⟩
    | ok c =>
      rw [hf.ok _ c rfl rfl rfl]
      have := flushChild_lp { b with result := b.result ++ zeros n } b.result c n
      simp only [he] at this ⊢
      rw [this]
      have hge : c.length ≥ 256 ^ n := by
        simp only [lpBytes] at h
        split at h
        · assumption
        · simp at h
      simp only [hge, if_true]
      exact ⟨by simp, by simpa using hp⟩

theorem impl_asn1 (tag : UInt8) {f : Builder → Builder} {r : Res Bytes} (hf : Impl f r) :
    Impl (fun b => addASN1 b tag f) (elementR tag r) where
  np := by
    have := hf.np
    cases r with
    | ok c =>
      simp only [elementR, CB.element]
      split
      · simp
      · have := derLength_ne_panic c.length
        split <;> simp_all
    | err => simp [elementR]
    | panic => exact absurd rfl this
  errd := by intro b h; simp [addASN1, h]
  ok := by
    intro b c' he hp h
    cases r with
    | panic => exact absurd rfl hf.np
    | err => simp [elementR] at h
    | ok c =>
      simp only [elementR, CB.element] at h
      split at h
      · simp at h
      · rename_i htag
        simp only [addASN1, he, Bool.false_eq_true, if_false, htag, addLengthPrefixed, add]
        rw [hf.ok _ c rfl rfl rfl]
        have := flushChild_asn1 { b with result := b.result ++ [tag] ++ zeros 1 } b.result c tag
        simp only [he, List.length_append, List.length_singleton] at this ⊢
        rw [this]
        split at h
        · rename_i l hl
          simp only [Res.ok.injEq] at h
          subst h
          simp [hl]
        · simp at h
        · simp at h
  bad := by
    intro b he hp h
    simp only [addASN1, he, Bool.false_eq_true, if_false]
    by_cases htag : tag.toNat % 32 = 31
    · simp only [htag, if_true]; exact ⟨by simp, by simpa using hp⟩
    · simp only [htag, if_false, addLengthPrefixed, add, he, Bool.false_eq_true]
      cases r with
      | panic => exact absurd rfl hf.np
      | err =>
        have hb := hf.bad (mkChild (b.result ++ [tag] ++ zeros 1) (b.result ++ [tag]).length 1 true) rfl rfl rfl
        simp only [mkChild] at hb
        rw [flushChild_err _ _ hb.1 hb.2]
        exact ⟨by simp, by simpa using hp⟩
      | ok c =>
        rw [hf.ok _ c rfl rfl rfl]
        have := flushChild_asn1 { b with result := b.result ++ [tag] ++ zeros 1 } b.result c tag
        simp only [he, List.length_append, List.length_singleton] at this ⊢
        rw [this]
        simp only [elementR, CB.element, htag, if_false] at h
        split at h
        · simp at h
        · rename_i hl; simp only [hl]; exact ⟨by simp, by simpa using hp⟩
        · rename_i hl; simp only [hl]; exact ⟨by simp, by simpa using hp⟩

/-! ### every program -/

theorem impl_congr {f g : Builder → Builder} {r : Res Bytes} (h : Impl f r) (e : ∀ b, g b = f b) :
    Impl g r := by
  have : g = f := funext e
  rw [this]; exact h

theorem impl_alt (a : Alt) : Impl (altBuild a) (altSer a) := by
  cases a with
  | skip bs => exact impl_add bs
  | copy bs => exact impl_add bs
  | elem tag bs => exact impl_congr (impl_asn1 tag (impl_add bs)) (fun _ => rfl)
  | any tag bs => exact impl_congr (impl_asn1 tag (impl_add bs)) (fun _ => rfl)
  | anyElem tag bs => exact impl_congr (impl_asn1 tag (impl_add bs)) (fun _ => rfl)
  | skipAsn1 tag bs => exact impl_congr (impl_asn1 tag (impl_add bs)) (fun _ => rfl)
  | skipOpt tag bs => exact impl_congr (impl_asn1 tag (impl_add bs)) (fun _ => rfl)
  | noSkipOpt tag => exact impl_id
  | bitsBytes bs =>
    have : Impl (fun c => add (add c [0]) bs) (.ok (0 :: bs)) := impl_comp (impl_add [0]) (impl_add bs)
    exact impl_congr (impl_asn1 3 this) (fun _ => rfl)

/-- `AddValue`: whatever `Marshal` does to the Builder, then the returned error is latched. -/
theorem impl_value {f : Builder → Builder} {r : Res Bytes} (hf : Impl f r) (fail : Bool) :
    Impl (fun b => addValue b f fail) (Res.append r (if fail then .err else .ok [])) := by
  cases fail with
  | true => exact impl_congr (impl_comp hf impl_err) (fun _ => rfl)
  | false => exact impl_congr (impl_comp hf impl_id) (fun _ => rfl)

theorem impl_build (p : Prog) : Impl (build p) (ser p) := by
  induction p with
  | done => exact impl_id
  | uN w v k ih => exact impl_congr (impl_comp (impl_add _) ih) (fun _ => rfl)
  | raw bs k ih => exact impl_congr (impl_comp (impl_add _) ih) (fun _ => rfl)
  | lp n body k ihb ihk => exact impl_congr (impl_comp (impl_lp n ihb) ihk) (fun _ => rfl)
  | asn1 tag body k ihb ihk => exact impl_congr (impl_comp (impl_asn1 tag ihb) ihk) (fun _ => rfl)
  | int64 tag v k ih => exact impl_congr (impl_comp (impl_asn1 tag (impl_add _)) ih) (fun _ => rfl)
  | uint64 v k ih => exact impl_congr (impl_comp (impl_asn1 2 (impl_add _)) ih) (fun _ => rfl)
  | big v k ih => exact impl_congr (impl_comp (impl_asn1 2 (impl_add _)) ih) (fun _ => rfl)
  | bool v k ih => exact impl_congr (impl_comp (impl_asn1 1 (impl_add _)) ih) (fun _ => rfl)
  | oid o k ih =>
    by_cases hv : CB.isValidOID o = true
    · have : Impl (fun b => addASN1 b 6 (fun c => if !CB.isValidOID o then { c with err := true } else add c (oidBody o)))
          (CB.addASN1OID o) := by
        simp only [hv, CB.addASN1OID, Bool.not_true, Bool.false_eq_true, if_false]
        exact impl_asn1 6 (impl_add _)
      exact impl_congr (impl_comp this ih) (fun _ => rfl)
    · have : Impl (fun b => addASN1 b 6 (fun c => if !CB.isValidOID o then { c with err := true } else add c (oidBody o)))
          (CB.addASN1OID o) := by
        have hv' : CB.isValidOID o = false := by simpa using hv
        simp only [hv', CB.addASN1OID, Bool.not_false, if_true]
        exact impl_asn1 6 impl_err
      exact impl_congr (impl_comp this ih) (fun _ => rfl)
  | octets bs k ih => exact impl_congr (impl_comp (impl_asn1 4 (impl_add _)) ih) (fun _ => rfl)
  | bitstr bs k ih =>
    have : Impl (fun c => add (add c [0]) bs) (.ok (0 :: bs)) := impl_comp (impl_add [0]) (impl_add bs)
    exact impl_congr (impl_comp (impl_asn1 3 this) ih) (fun _ => rfl)
  | null k ih => exact impl_congr (impl_comp (impl_add _) ih) (fun _ => rfl)
  | optAsn1 tag body k ihb ihk => exact impl_congr (impl_comp (impl_asn1 tag ihb) ihk) (fun _ => rfl)
  | noAsn1 tag k ih => exact ih
  | optInt tag v d k ih => exact impl_congr (impl_comp (impl_asn1 tag (impl_asn1 2 (impl_add _))) ih) (fun _ => rfl)
  | noInt tag d k ih => exact ih
  | optOctets tag bs k ih => exact impl_congr (impl_comp (impl_asn1 tag (impl_asn1 4 (impl_add _))) ih) (fun _ => rfl)
  | noOctets tag k ih => exact ih
  | optBool v d k ih => exact impl_congr (impl_comp (impl_asn1 1 (impl_add _)) ih) (fun _ => rfl)
  | noBool d k ih => exact ih
  | gtime t k ih =>
    by_cases hy : t.year < 0 ∨ t.year > 9999
    · have : Impl (fun b => if t.year < 0 ∨ t.year > 9999 then { b with err := true }
            else addASN1 b 0x18 (fun c => add c (ZV.Time.format ZV.Time.layoutGen t)))
          (ZV.Time.CB.addGeneralizedTime t) := by
        simp only [hy, if_true, ZV.Time.CB.addGeneralizedTime]
        exact impl_err
      exact impl_congr (impl_comp this ih) (fun _ => rfl)
    · have : Impl (fun b => if t.year < 0 ∨ t.year > 9999 then { b with err := true }
            else addASN1 b 0x18 (fun c => add c (ZV.Time.format ZV.Time.layoutGen t)))
          (ZV.Time.CB.addGeneralizedTime t) := by
        simp only [hy, if_false, ZV.Time.CB.addGeneralizedTime]
        exact impl_asn1 0x18 (impl_add _)
      exact impl_congr (impl_comp this ih) (fun _ => rfl)
  | alt a k ih => exact impl_congr (impl_comp (impl_alt a) ih) (fun _ => rfl)
  | setErr k ih => exact impl_congr (impl_comp impl_err ih) (fun _ => rfl)
  | value body fail k ihb ihk => exact impl_congr (impl_comp (impl_value ihb fail) ihk) (fun _ => rfl)

theorem buildBytes_eq_ser (p : Prog) : buildBytes p = ser p := by
  have h := impl_build p
  unfold buildBytes
  cases hs : ser p with
  | panic => exact absurd hs h.np
  | err =>
    have := h.bad {} rfl rfl hs
    simp [this.1, this.2]
  | ok c =>
    have := h.ok {} c rfl rfl hs
    simp [this]

end ZV.C21
