import ZV.Proofs.Der0Hdr
/-! cryptobyte `readASN1` against the DER length chosen by `Builder.flushChild`. -/
open ZV ZV.Der0
namespace ZV.Der0

theorem beBytes_length (k n : Nat) : (beBytes k n).length = k := by
  induction k generalizing n with
  | zero => rfl
  | succ k ih => simp [beBytes, ih]

/-- a k-byte big-endian field read back (`readUnsigned`, `readLengthPrefixed`) -/
theorem beBytes_natOfBytes (bs : Bytes) : beBytes bs.length (natOfBytes bs) = bs := by
  induction bs using List.reverseRecOn with
  | nil => rfl
  | append_singleton init l ih =>
    have hl := toNat_lt l
    rw [List.length_append, List.length_singleton, natOfBytes_snoc, beBytes]
    have e1 : (natOfBytes init * 256 + l.toNat) / 256 = natOfBytes init := by omega
    have e2 : (natOfBytes init * 256 + l.toNat) % 256 = l.toNat := by omega
    rw [e1, e2, ih, UInt8.ofNat_toNat]

theorem natOfBytes_beBytes (k n : Nat) (h : n < 256 ^ k) : natOfBytes (beBytes k n) = n := by
  induction k generalizing n with
  | zero => simp at h; subst h; rfl
  | succ k ih =>
    rw [beBytes, natOfBytes_snoc, ih (n / 256) (by rw [Nat.pow_succ] at h; omega),
      toNat_ofNat_lt (by omega)]
    omega

theorem CB.derLength_long {k n : Nat} (hk1 : 1 ≤ k) (hk4 : k ≤ 4) (h128 : 128 ≤ n)
    (hlo : n / 256 ^ (k - 1) ≠ 0) (hhi : n < 256 ^ k) (hmax : n ≤ 0xfffffffe) :
    CB.derLength n = .ok (UInt8.ofNat (128 + k) :: beBytes k n) := by
  have hk : k = 1 ∨ k = 2 ∨ k = 3 ∨ k = 4 := by omega
  unfold CB.derLength
  rcases hk with rfl | rfl | rfl | rfl
  · simp at hlo hhi
    have h1 : ¬ n > 0xfffffffe := by omega
    have h2 : ¬ n > 0xffffff := by omega
    have h3 : ¬ n > 0xffff := by omega
    have h4 : ¬ n > 0xff := by omega
    have h5 : n > 0x7f := by omega
    simp only [h1, h2, h3, h4, h5, if_true, if_false]; rfl
  · simp at hlo hhi
    have h1 : ¬ n > 0xfffffffe := by omega
    have h2 : ¬ n > 0xffffff := by omega
    have h3 : ¬ n > 0xffff := by omega
    have h4 : n > 0xff := by omega
    simp only [h1, h2, h3, h4, if_true, if_false]; rfl
  · simp at hlo hhi
    have h1 : ¬ n > 0xfffffffe := by omega
    have h2 : ¬ n > 0xffffff := by omega
    have h3 : n > 0xffff := by omega
    simp only [h1, h2, h3, if_true, if_false]; rfl
  · simp at hlo hhi
    have h1 : ¬ n > 0xfffffffe := by omega
    have h2 : n > 0xffffff := by omega
    simp only [h1, h2, if_true, if_false]; rfl

theorem split3 {α} (l : List α) (a b : Nat) :
    l = l.take a ++ ((l.drop a).take b ++ (l.drop a).drop b) := by
  rw [List.take_append_drop, List.take_append_drop]

/-- `readASN1` accepts exactly what `AddASN1` writes: the consumed bytes are
    `tag :: derLength |body| ++ body`. It never reaches the internal-error panic. -/
theorem CB.readASN1_canon {s : Bytes} {e : CB.Elem} (h : CB.readASN1 s = .ok e) :
    ∃ l, CB.derLength e.body.length = .ok l ∧ s = e.tag :: l ++ e.body ++ e.rest
      ∧ e.tag.toNat % 32 ≠ 31 ∧ e.headerLen = 1 + l.length := by
  match s, h with
  | tag :: lenByte :: after, h =>
    have hlb := toNat_lt lenByte
    simp only [CB.readASN1] at h
    split at h
    · simp at h
    · rename_i htag
      by_cases hshort : lenByte.toNat < 128
      · simp only [hshort, if_true] at h
        split at h
        · simp at h
        · rename_i hlen
          simp only [List.length_cons] at hlen
          split at h
          · simp at h
          · simp only [Res.ok.injEq] at h
            subst h
            have hal : lenByte.toNat ≤ after.length := by omega
            refine ⟨[lenByte], ?_, ?_, htag, rfl⟩
            · have : ((List.take (lenByte.toNat + 2) (tag :: lenByte :: after)).drop 2).length = lenByte.toNat := by
                simp; omega
              simp only [this]
              unfold CB.derLength
              have h1 : ¬ lenByte.toNat > 0xfffffffe := by omega
              have h2 : ¬ lenByte.toNat > 0xffffff := by omega
              have h3 : ¬ lenByte.toNat > 0xffff := by omega
              have h4 : ¬ lenByte.toNat > 0xff := by omega
              have h5 : ¬ lenByte.toNat > 0x7f := by omega
              simp only [h1, h2, h3, h4, h5, if_false, UInt8.ofNat_toNat]
            · simp [List.take_append_drop]
      · simp only [hshort, if_false] at h
        split at h
        · rename_i length headerLen heq
          split at heq
          · simp at heq
          · rename_i hc
            simp only [List.length_cons, not_or] at hc
            obtain ⟨hk0, hk4, hsl⟩ := hc
            split at heq
            · simp at heq
            · rename_i h128
              split at heq
              · simp at heq
              · rename_i htop
                split at heq
                · simp at heq
                · rename_i hwrap
                  simp only [Res.ok.injEq, Prod.mk.injEq] at heq
                  obtain ⟨hL, hH⟩ := heq
                  subst hL; subst hH
                  split at h
                  · simp at h
                  · rename_i hlen
                    split at h
                    · simp at h
                    · simp only [Res.ok.injEq] at h
                      subst h
                      generalize hk : lenByte.toNat % 128 = k at *
                      have hk1 : 1 ≤ k := by omega
                      have hk4' : k ≤ 4 := by omega
                      have htl : (after.take k).length = k := by simp; omega
                      generalize hn : natOfBytes (after.take k) = n at *
                      have hnlt : n < 256 ^ k := by
                        have h' := natOfBytes_lt (after.take k); rw [htl, hn] at h'; exact h'
                      have hpow : 256 ^ k ≤ 4294967296 := by
                        have : k = 1 ∨ k = 2 ∨ k = 3 ∨ k = 4 := by omega
                        rcases this with rfl | rfl | rfl | rfl <;> decide
                      have hnowrap : 2 + k + n < 4294967296 := by
                        by_contra hcon
                        have : (2 + k + n) % 4294967296 = 2 + k + n - 4294967296 := by omega
                        omega
                      have hmod : (2 + k + n) % 4294967296 = 2 + k + n := Nat.mod_eq_of_lt hnowrap
                      rw [hmod] at hlen ⊢
                      simp only [List.length_cons] at hlen
                      have hbody : ((List.take (2 + k + n) (tag :: lenByte :: after)).drop (2 + k))
                          = (after.drop k).take n := by
                        rw [List.drop_take]
                        have e1 : 2 + k + n - (2 + k) = n := by omega
                        have e2 : (tag :: lenByte :: after).drop (2 + k) = after.drop k := by
                          rw [Nat.add_comm 2 k]; rfl
                        rw [e1, e2]
                      have hrest : (tag :: lenByte :: after).drop (2 + k + n) = (after.drop k).drop n := by
                        have : 2 + k + n = (k + n) + 2 := by omega
                        rw [this, List.drop_drop]; rfl
                      rw [hbody, hrest]
                      have hbl : ((after.drop k).take n).length = n := by simp; omega
                      refine ⟨UInt8.ofNat (128 + k) :: beBytes k n, ?_, ?_, htag, ?_⟩
                      · rw [hbl]
                        exact CB.derLength_long hk1 hk4' (by omega) htop hnlt (by omega)
                      · have hbe : beBytes k n = after.take k := by
                          have h' := beBytes_natOfBytes (after.take k); rw [htl, hn] at h'; exact h'
                        rw [hbe]
                        have hb : UInt8.ofNat (128 + k) = lenByte := by apply ofNat_eq_of; omega
                        rw [hb]
                        simp only [List.cons_append, List.append_assoc, List.cons.injEq, true_and]
                        exact split3 after k n
                      · simp [beBytes_length]; omega
        · simp at h
        · simp at h

theorem CB.readASN1_no_panic (s : Bytes) : CB.readASN1 s ≠ .panic := by
  intro h
  match s, h with
  | [], h => simp [CB.readASN1] at h
  | [_], h => simp [CB.readASN1] at h
  | tag :: lenByte :: after, h =>
    have hlb := toNat_lt lenByte
    simp only [CB.readASN1] at h
    split at h
    · simp at h
    · by_cases hshort : lenByte.toNat < 128
      · simp only [hshort, if_true] at h
        split at h
        · simp at h
        · rename_i hlen
          split at h
          · rename_i hp
            simp only [List.length_take, List.length_cons] at hp hlen
            omega
          · simp at h
      · simp only [hshort, if_false] at h
        split at h
        · rename_i length headerLen heq
          split at heq
          · simp at heq
          · split at heq
            · simp at heq
            · split at heq
              · simp at heq
              · split at heq
                · simp at heq
                · rename_i hc _ _ hwrap
                  simp only [Res.ok.injEq, Prod.mk.injEq] at heq
                  obtain ⟨hL, hH⟩ := heq
                  subst hL; subst hH
                  split at h
                  · simp at h
                  · rename_i hlen
                    split at h
                    · rename_i hp
                      simp only [List.length_take, List.length_cons] at hp hlen
                      have hn := natOfBytes_lt (after.take (lenByte.toNat % 128))
                      generalize natOfBytes (after.take (lenByte.toNat % 128)) = n at *
                      have : (2 + lenByte.toNat % 128 + n) % 4294967296 ≥ 2 + lenByte.toNat % 128 := by
                        by_contra hcon
                        have : 2 + lenByte.toNat % 128 + n ≥ 4294967296 := by
                          by_contra h2
                          rw [Nat.mod_eq_of_lt (by omega)] at hcon; omega
                        omega
                      omega
                    · simp at h
        · simp at h
        · rename_i heq
          split at heq
          · simp at heq
          · split at heq
            · simp at heq
            · split at heq
              · simp at heq
              · split at heq <;> simp at heq

end ZV.Der0
