import ZV.Model.C13Der
import ZV.Props.C18
import ZV.Props.C01
import ZV.Proofs.C13
/-! C13, ASN.1 leg: `ocspRequest` as an instance of the C18 round-trip theorem (Marshal succeeds, the value is in the domain),
    consumption of `parseNext`, and the decoders' rests. -/
namespace ZV.C13
open ZV.C18

/-! ### `Request.Marshal` succeeds and does not depend on `Parameters.FullBytes` being filled in -/

theorem makeField_struct_eq (fs : Schema) (v : Val) :
    makeField (.struct fs) {} v =
      (match makeFields fs v with
       | .ok body => .ok (wrap {} 16 true body)
       | .err => .err
       | .panic => .panic) := by
  simp only [makeField, omitted_false _ {} _ rfl rfl, Bool.false_eq_true, if_false]
  rfl

theorem makeField_seqOf_eq (e : Schema) (v : Val) :
    makeField (.seqOf false e) {} v =
      (match mapElems (fun x => makeField e {} x) v with
       | .ok encs => .ok (wrap {} 16 true encs.flatten)
       | .err => .err
       | .panic => .panic) := by
  simp only [makeField, omitted_false _ {} _ rfl rfl, Bool.false_eq_true, if_false]
  rfl

theorem makeField_octets (b : Bytes) : makeField .octets {} (.bytes b) = .ok (wrap {} 4 false b) := by
  rw [makeField_leaf .octets {} _ rfl rfl]
  simp [primMake, omitted_false _ {} _ rfl rfl, univ, marshalTag, makePrimBody]

theorem makeField_bigint (i : Int) : makeField .bigint {} (.int i) = .ok (wrap {} 2 false (makeBigInt i)) := by
  rw [makeField_leaf .bigint {} _ rfl rfl]
  simp [primMake, omitted_false _ {} _ rfl rfl, univ, marshalTag, makePrimBody]

theorem makeField_oid' (l : List Int) (body : Bytes) (hb : makeOID l = .ok body) :
    makeField .oid {} (.oid l) = .ok (wrap {} 6 false body) := by
  rw [makeField_leaf .oid {} _ rfl rfl]
  simp [primMake, omitted_false _ {} _ rfl rfl, univ, marshalTag, makePrimBody, hb]

theorem makeField_null_params (full : Bytes) (h : full = [] ∨ full = [5, 0]) :
    makeField .raw { optional := true } (.raw 0 5 false [] full) = .ok [5, 0] := by
  rcases h with rfl | rfl
  · simp [makeField, omitted, isSliceKind, zeroVal]; decide
  · simp [makeField, omitted, isSliceKind, zeroVal]

theorem makeField_version0 :
    makeField .int64 { explicit := true, tag := some 0, defaultValue := some 0, optional := true } (.int 0) = .ok [] := by
  rw [makeField_leaf .int64 _ _ rfl rfl]
  simp [primMake, omitted, isSliceKind, isIntKind]

theorem makeField_noName :
    makeField rdnSeqRawS { explicit := true, tag := some 1, optional := true } .null = .ok [] := by
  simp [rdnSeqRawS, makeField, omitted, isSliceKind, lenZero, zeroVal]

theorem marshal_reqVal (oid : List Int) (body : Bytes) (hb : makeOID oid = .ok body) (r : Req) :
    ∃ der, ∀ full, (full = [] ∨ full = [5, 0]) → marshal ocspRequestS {} (reqVal oid full r) = .ok der := by
  refine ⟨?der, fun full hf => ?_⟩
  case der =>
    exact wrap {} 16 true (wrap {} 16 true (wrap {} 16 true (wrap {} 16 true (wrap {} 16 true
      (wrap {} 16 true (wrap {} 6 false body ++ [5, 0]) ++
        (wrap {} 4 false r.nameHash ++ (wrap {} 4 false r.keyHash ++ wrap {} 2 false (makeBigInt r.serial))))))))
  simp only [marshal, ocspRequestS, tbsRequestS, requestS, certIDS, algIdS, reqVal, certIDVal, makeField_struct_eq, makeFields,
    makeField_seqOf_eq, mapElems, makeField_oid' oid body hb, makeField_null_params full hf, makeField_octets, makeField_bigint,
    makeField_version0, makeField_noName]
  simp

/-! ### the request value is in the domain of the C18 theorem (with the canonical `FullBytes`) -/

theorem inDomain_reqVal (oid : List Int) (ho : oidOK oid = true) (r : Req) :
    InDomain ocspRequestS {} (reqVal oid [5, 0] r) = true ∧ Exact ocspRequestS {} (reqVal oid [5, 0] r) = true := by
  constructor
  · simp [ocspRequestS, tbsRequestS, rdnSeqRawS, requestS, certIDS, algIdS, reqVal, certIDVal, InDomain, omitted, isSliceKind, isIntKind,
      lenZero, zeroVal, goodB, absentOK, dfltVal, valFits, leafOK, allChain, skipsNext, firstHdr, fieldHdr, skipsH, pcls, univ, rawOK, ho]
    decide
  · simp [ocspRequestS, tbsRequestS, rdnSeqRawS, requestS, certIDS, algIdS, reqVal, certIDVal, Exact, omitted, isSliceKind,
      lenZero, zeroVal, properChain, allChain]

/-- `hashOIDs` and `getHashAlgorithmFromOID` are inverse on the supported hashes, whose OIDs are encodable -/
theorem hashOID_supported (h : Nat) (hh : hashSupported h = true) :
    ∃ oid, hashOID h = some oid ∧ oidOK oid = true ∧ hashOfOID oid = h := by
  simp only [hashSupported, decide_eq_true_eq] at hh
  rcases hh with rfl | rfl | rfl | rfl
  · exact ⟨_, rfl, by decide, by decide⟩
  · exact ⟨_, rfl, by decide, by decide⟩
  · exact ⟨_, rfl, by decide, by decide⟩
  · exact ⟨_, rfl, by decide, by decide⟩

theorem hashOID_unsupported (h : Nat) (hh : hashSupported h = false) : hashOID h = none := by
  simp only [hashSupported, decide_eq_false_iff_not, not_or] at hh
  simp [hashOID, hh]

theorem reqOfVal_reqVal (oid : List Int) (full : Bytes) (r : Req) (h : hashOfOID oid ≠ 0) :
    reqOfVal (reqVal oid full r) = .ok { r with hash := hashOfOID oid } := by
  simp [reqOfVal, reqVal, certIDVal, h]

/-! ### a top-level struct without parameters consumes a whole element -/

theorem struct_top_adv (perm : Bool) (fs : Schema) (bs : Bytes) (v : Val) (rest : Bytes)
    (h : parseField perm (.struct fs) {} bs = .ok (v, rest)) : rest.length + 2 ≤ bs.length := by
  simp only [parseField] at h
  split_ifs at h
  · simp [dfltOrErr] at h
  · split at h
    · cases h
    · simp [dfltOrErr] at h
    · rename_i r hp
      simp only [Res.ok.injEq, Prod.mk.injEq] at h
      rw [← h.2]
      exact (C01Asn1.parsePre_flag perm _ _ bs r hp).2
    · rename_i t utag inner rest' hp
      have hg := (C01Asn1.parsePre_go perm _ _ bs t utag inner rest' hp).2.2.1
      split at h
      · simp only [Res.ok.injEq, Prod.mk.injEq] at h
        rw [← h.2]
        have := hg.2
        omega
      · cases h
      · cases h

/-! ### `parseNext` stays inside its input -/

theorem explicitStage_cont (perm : Bool) (s : Schema) (p : Params) (t0 : TL) (r0 : Bytes) (t : TL) (r : Bytes)
    (h : explicitStage perm s p t0 r0 = .cont t r) : r <:+ r0 := by
  unfold explicitStage at h
  split_ifs at h
  all_goals first
    | (cases h; exact List.suffix_refl _)
    | (split at h
       · rename_i t' r' hp'
         cases h
         exact (C01.asn1_header_consumed perm r0 _ _ hp').1
       · cases h
       · cases h)

theorem parseNext_consumed (bs : Bytes) (x : Option Int) (r : Bytes) (h : parseNext bs = .ok (x, r)) :
    r <:+ bs ∧ (x = none → r = bs) := by
  have hdflt : ∀ {y : Option Int} {q : Bytes}, (Res.ok (none, bs) : Res (Option Int × Bytes)) = .ok (y, q) →
      q <:+ bs ∧ (y = none → q = bs) := by
    intro y q hq
    simp only [Res.ok.injEq, Prod.mk.injEq] at hq
    exact ⟨by rw [← hq.2]; exact List.suffix_refl _, fun _ => hq.2.symm⟩
  unfold parseNext at h
  split_ifs at h with he
  · exact hdflt h
  · split at h
    · cases h
    · cases h
    · rename_i t0 r0 hp
      have h0 := (C01.asn1_header_consumed false bs t0 r0 hp)
      split at h
      · cases h
      · exact hdflt h
      · cases h
      · rename_i t r' hex
        have hr := explicitStage_cont _ _ _ _ _ _ _ hex
        simp only at h
        generalize (if t.cls = 0 ∧ t.tag = 24 then 24 else 23) = utag at h
        split_ifs at h
        · exact hdflt h
        · split at h
          · simp only [Res.ok.injEq, Prod.mk.injEq] at h
            refine ⟨?_, fun hx => by rw [hx] at h; cases h.1⟩
            rw [← h.2]
            exact ((List.drop_suffix _ _).trans hr).trans h0.1
          · cases h

/-! ### the field loop is compositional -/

/-- concatenation of field lists / of field-value lists -/
def fapp : Schema → Schema → Schema
  | .fcons p s rest, g => .fcons p s (fapp rest g)
  | _, g => g

def vapp : Val → Val → Val
  | .vcons v vs, w => .vcons v (vapp vs w)
  | _, w => w

def isFieldList : Schema → Bool
  | .fnil => true
  | .fcons _ _ rest => isFieldList rest
  | _ => false

/-- the field loop of the struct arm is compositional: the fields of `f`, then the fields of `g` on what is left -/
theorem parseFields_fapp (perm : Bool) (f g : Schema) (hf : isFieldList f = true) (bs : Bytes) :
    parseFields perm (fapp f g) bs =
      (match parseFields perm f bs with
       | .ok (v1, r1) =>
         (match parseFields perm g r1 with
          | .ok (v2, r2) => .ok (vapp v1 v2, r2)
          | .err => .err
          | .panic => .panic)
       | .err => .err
       | .panic => .panic) := by
  induction f generalizing bs with
  | fnil =>
    simp only [fapp, parseFields]
    cases parseFields perm g bs with
    | ok x => obtain ⟨v2, r2⟩ := x; rfl
    | err => rfl
    | panic => rfl
  | fcons p s rest _ ihr =>
    simp only [isFieldList] at hf
    simp only [fapp, parseFields]
    cases h1 : parseField perm s p bs with
    | err => rfl
    | panic => rfl
    | ok x =>
      obtain ⟨v, r⟩ := x
      simp only
      rw [ihr hf r]
      cases h2 : parseFields perm rest r with
      | err => rfl
      | panic => rfl
      | ok y =>
        obtain ⟨vs, r'⟩ := y
        simp only
        cases h3 : parseFields perm g r' with
        | err => rfl
        | panic => rfl
        | ok z => obtain ⟨v2, r2⟩ := z; rfl
  | _ => simp [isFieldList] at hf

/-! ### a header read from a prefix -/

theorem base128_append (c : Bytes) : ∀ (a : Bytes) (sh acc v : Nat) (r : Bytes), base128 sh acc a = .ok (v, r) →
    base128 sh acc (a ++ c) = .ok (v, r ++ c)
  | [], _, _, _, _, h => by simp [base128] at h
  | b :: a, sh, acc, v, r, h => by
    simp only [List.cons_append, base128] at h ⊢
    split_ifs at h ⊢
    · simp only [Res.ok.injEq, Prod.mk.injEq] at h ⊢
      exact ⟨h.1, by rw [h.2]⟩
    · exact base128_append c a _ _ v r h

theorem parseLenBytes_append (c : Bytes) : ∀ (n acc : Nat) (a : Bytes) (l : Nat) (r : Bytes),
    parseLenBytes n acc a = .ok (l, r) → parseLenBytes n acc (a ++ c) = .ok (l, r ++ c)
  | 0, acc, a, l, r, h => by
    simp only [parseLenBytes, Res.ok.injEq, Prod.mk.injEq] at h ⊢
    exact ⟨h.1, by rw [h.2]⟩
  | n + 1, acc, [], l, r, h => by simp [parseLenBytes] at h
  | n + 1, acc, b :: a, l, r, h => by
    simp only [List.cons_append, parseLenBytes] at h ⊢
    split_ifs at h ⊢
    exact parseLenBytes_append c n _ a l r h

theorem parseTagNum_append (c : Bytes) (b : UInt8) (r1 : Bytes) (t : Nat) (r : Bytes)
    (h : parseTagNum b r1 = .ok (t, r)) : parseTagNum b (r1 ++ c) = .ok (t, r ++ c) := by
  unfold parseTagNum at h ⊢
  split_ifs at h ⊢
  · split at h
    · rename_i t' r' hb
      rw [base128_append c r1 0 0 t' r' hb]
      simp only at h ⊢
      split_ifs at h ⊢
      simp only [Res.ok.injEq, Prod.mk.injEq] at h ⊢
      exact ⟨h.1, by rw [h.2]⟩
    · cases h
    · cases h
  · simp only [Res.ok.injEq, Prod.mk.injEq] at h ⊢
    exact ⟨h.1, by rw [h.2]⟩

/-- a header read from a prefix is read identically from any extension of it -/
theorem parseTL_append (perm : Bool) (a c : Bytes) (t : TL) (r : Bytes) (h : parseTL perm a = .ok (t, r)) :
    parseTL perm (a ++ c) = .ok (t, r ++ c) := by
  cases a with
  | nil => simp [parseTL] at h
  | cons b r1 =>
    simp only [List.cons_append, parseTL] at h ⊢
    split at h
    · cases h
    · cases h
    · rename_i tag r2 htn
      rw [parseTagNum_append c b r1 tag r2 htn]
      simp only
      cases r2 with
      | nil => simp at h
      | cons b2 r3 =>
        simp only [List.cons_append] at h ⊢
        split_ifs at h ⊢
        · simp only [Res.ok.injEq, Prod.mk.injEq] at h ⊢
          exact ⟨h.1, by rw [h.2]⟩
        · split at h
          · cases h
          · cases h
          · rename_i len r4 hl
            rw [parseLenBytes_append c _ 0 r3 len r4 hl]
            simp only at h ⊢
            split_ifs at h ⊢
            simp only [Res.ok.injEq, Prod.mk.injEq] at h ⊢
            exact ⟨h.1, by rw [h.2]⟩

/-! ### `NextUpdate`: the RawValue of `singleResponseS` against `parseNext` -/

/-- the EXPLICIT test of the decoder for `tag:0` -/
def isCtx0 (t0 : TL) : Prop := t0.cls = 2 ∧ some t0.tag = some 0 ∧ (t0.len = 0 ∨ t0.compound = true)

instance (t0 : TL) : Decidable (isCtx0 t0) := by unfold isCtx0; infer_instance

theorem nextOfRaw_zero : nextOfRaw (zeroVal .raw) = .absent := by decide

theorem dflt_nextRaw (bs : Bytes) : dfltOrErr .raw nextRawP bs = .ok (zeroVal .raw, bs) := by
  simp [dfltOrErr]

theorem exStage_raw (t0 : TL) (r0 : Bytes) :
    explicitStage false .raw nextRawP t0 r0 = if isCtx0 t0 then .cont t0 r0 else .dflt := by
  unfold explicitStage isCtx0
  simp only [if_true, Bool.false_eq_true, if_false, isRaw]

theorem exStage_time (t0 : TL) (r0 : Bytes) :
    explicitStage false .bool nextP t0 r0 =
      if isCtx0 t0 then
        (if t0.len > 0 then
          (if r0.isEmpty then .err else match parseTL false r0 with
            | .ok (t, r) => .cont t r
            | .err => .err
            | .panic => .err)
         else .err)
      else .dflt := by
  unfold explicitStage isCtx0
  simp only [nextP, if_true, Bool.false_eq_true, if_false, isRaw, isFlag]
  rfl

theorem parsePre_raw (bs : Bytes) (t0 : TL) (r0 : Bytes) (hp : parseTL false bs = .ok (t0, r0)) :
    parsePre false .raw nextRawP bs =
      if isCtx0 t0 then (if t0.len > r0.length then .err else .go t0 0 (r0.take t0.len) (r0.drop t0.len)) else .dflt := by
  unfold parsePre
  rw [hp]
  simp only [exStage_raw]
  split_ifs with hc hl
  · simp [matchStage, univ, hl, substTag, expected]
  · simp [matchStage, univ, hl, substTag, expected]
  · rfl

theorem parseNext_eq (bs : Bytes) (t0 : TL) (r0 : Bytes) (hne : bs.isEmpty = false) (hp : parseTL false bs = .ok (t0, r0)) :
    parseNext bs =
      (match explicitStage false .bool nextP t0 r0 with
       | .err => .err
       | .dflt => .ok (none, bs)
       | .flag _ => .err
       | .cont t r =>
         if t.cls ≠ 0 ∨ t.tag ≠ (if t.cls = 0 ∧ t.tag = 24 then 24 else 23) ∨ t.compound then .ok (none, bs)
         else if t.len > r.length then .err
         else
           match parseTime (if t.cls = 0 ∧ t.tag = 24 then 24 else 23) (r.take t.len) with
           | .ok x => .ok (some x, r.drop t.len)
           | _ => .err) := by
  unfold parseNext
  simp only [hne, Bool.false_eq_true, if_false, hp]
  rfl

/-- the RawValue reading of `NextUpdate` inside `singleResponseS` and the `time.Time` reading `parseNext` of the same bytes:
    wherever `nextOfRaw` does not answer `inexact` they agree on the value, on the error and on the remaining bytes -/
theorem next_raw_exact (bs : Bytes) (v : Val) (r2 : Bytes)
    (h : parseField false .raw nextRawP bs = .ok (v, r2)) :
    (nextOfRaw v = .absent → parseNext bs = .ok (none, bs) ∧ r2 = bs) ∧
    (∀ x, nextOfRaw v = .at x → parseNext bs = .ok (some x, r2)) ∧
    (nextOfRaw v = .err → parseNext bs = .err) := by
  simp only [parseField, primField] at h
  by_cases he : bs.isEmpty = true
  · simp only [he, if_true, dflt_nextRaw, Res.ok.injEq, Prod.mk.injEq] at h
    obtain ⟨rfl, rfl⟩ := h
    rw [nextOfRaw_zero]
    refine ⟨fun _ => ⟨?_, rfl⟩, ?_, ?_⟩
    · unfold parseNext; simp [he]
    · intro x hx; cases hx
    · intro hx; cases hx
  · have hne : bs.isEmpty = false := by simpa using he
    simp only [he] at h
    cases hp : parseTL false bs with
    | err => simp [parsePre, hp] at h
    | panic => simp [parsePre, hp] at h
    | ok tr =>
      obtain ⟨t0, r0⟩ := tr
      have h0 := C01.asn1_header_consumed false bs t0 r0 hp
      rw [parsePre_raw bs t0 r0 hp] at h
      rw [parseNext_eq bs t0 r0 hne hp, exStage_time]
      by_cases hc : isCtx0 t0
      · simp only [hc, if_true] at h ⊢
        by_cases hlen : t0.len > r0.length
        · simp [hlen] at h
        · simp only [hlen, if_false, parsePrim] at h
          obtain ⟨rfl, rfl⟩ := h
          have hlen' : t0.len ≤ r0.length := by omega
          have hfull : (takeFull bs (List.drop t0.len r0)).isEmpty = false := by
            unfold takeFull
            have : (List.drop t0.len r0).length ≤ r0.length := by simp
            cases hq : List.take (bs.length - (List.drop t0.len r0).length) bs with
            | nil =>
              have := congrArg List.length hq
              simp only [List.length_take, List.length_nil] at this
              omega
            | cons _ _ => rfl
          by_cases hz : t0.len = 0
          · -- empty wrapper: error in both
            have hinner : (List.take t0.len r0).isEmpty = true := by simp [hz]
            simp only [nextOfRaw, hfull, Bool.false_eq_true, if_false, hinner, if_true]
            have : ¬ (t0.len > 0) := by omega
            simp only [this, if_false]
            simp
          · have hpos : t0.len > 0 := by omega
            have hr0ne : r0.isEmpty = false := by
              cases r0 with
              | nil => simp at hlen'; exact absurd hlen' hz
              | cons _ _ => rfl
            have hinner : (List.take t0.len r0).isEmpty = false := by
              cases hq : List.take t0.len r0 with
              | nil =>
                have := congrArg List.length hq
                simp only [List.length_take, List.length_nil] at this
                omega
              | cons _ _ => rfl
            simp only [nextOfRaw, hfull, Bool.false_eq_true, if_false, hinner, hpos, if_true, hr0ne]
            have hr0 : r0 = List.take t0.len r0 ++ List.drop t0.len r0 := (List.take_append_drop _ _).symm
            cases hin : parseTL false (List.take t0.len r0) with
            | err => simp
            | panic => simp
            | ok tr =>
              obtain ⟨t, r⟩ := tr
              simp only
              by_cases hcond : t.cls = 0 ∧ (t.tag = 23 ∨ t.tag = 24) ∧ t.compound = false ∧ t.len = r.length
              · obtain ⟨hcls, htag, hcomp, hlenr⟩ := hcond
                have hwhole : parseTL false r0 = .ok (t, r ++ List.drop t0.len r0) := by
                  conv_lhs => rw [hr0]
                  exact parseTL_append false _ _ t r hin
                simp only [hwhole, hcls, htag, hcomp, hlenr, and_self, if_true, ne_eq, not_true_eq_false, Bool.false_eq_true,
                  List.length_append, gt_iff_lt]
                have htake : List.take r.length (r ++ List.drop t0.len r0) = r := List.take_left' rfl
                have hdrop : List.drop r.length (r ++ List.drop t0.len r0) = List.drop t0.len r0 := List.drop_left' rfl
                have hnlt : ¬ (r.length + (List.drop t0.len r0).length < r.length) := by omega
                simp only [hnlt, if_false, htake, hdrop]
                rcases htag with h23 | h24
                · simp only [h23]
                  cases hpt : parseTime 23 r <;> simp [hpt]
                · simp only [h24]
                  cases hpt : parseTime 24 r <;> simp [hpt]
              · simp [hcond]
      · simp only [hc, if_false, dflt_nextRaw, Res.ok.injEq, Prod.mk.injEq] at h ⊢
        obtain ⟨rfl, rfl⟩ := h
        rw [nextOfRaw_zero]
        simp

/-! ### the decoders' rests -/

theorem decodeOuter_rest (der : Bytes) (st : Int) (ty : List Int) (body rest : Bytes)
    (h : decodeOuter der = .ok (st, ty, body, rest)) : rest <:+ der ∧ rest.length + 2 ≤ der.length := by
  unfold decodeOuter at h
  split at h
  · rename_i st' ty' body' rest' hu
    have hc := C01.asn1_unmarshal_consumed false _ _ _ _ _ hu
    have ha := struct_top_adv false _ _ _ _ hu
    split at h <;> first | (cases h; exact ⟨hc, ha⟩) | cases h
  all_goals cases h

theorem decodeBasic_rest (body : Bytes) (b : DBasic) (rest : Bytes)
    (h : decodeBasic body = .ok (b, rest)) : rest <:+ body ∧ rest.length + 2 ≤ body.length := by
  unfold decodeBasic at h
  split at h
  · cases h
  · cases h
  · rename_i hu
    have hc := C01.asn1_unmarshal_consumed false _ _ _ _ _ hu
    have ha := struct_top_adv false _ _ _ _ hu
    repeat' split at h
    all_goals first
      | (cases h; exact ⟨hc, ha⟩)
      | cases h
  · cases h

/-! ### from the bytes to the abstract input -/

section
variable {K B : Type}

/-- the abstract input of a response whose two decoding steps succeeded without trailing data -/
def fullInput (tbsOf : Bytes → B) (sigOf : Bytes → Int → B) (algOf : List Int → Nat)
    (certOf : Bytes → Option (ECert K B)) (st : Int) (ty : List Int) (b : DBasic) : Input K B :=
  { outerOk := true, status := st.natAbs, typeOk := decide (ty = idBasic), basicOk := true, tbs := tbsOf b.tbs,
    sig := sigOf b.sigBytes b.sigBitLen, alg := algOf b.sigOid, responderTag := b.ridTag,
    responderOk := responderOkOf b.ridTag b.ridBytes, singles := b.singles.map singleOfD, certs := b.certs.map certOf }

theorem inputOfBytes_basic (tbsOf : Bytes → B) (sigOf : Bytes → Int → B) (algOf : List Int → Nat)
    (certOf : Bytes → Option (ECert K B)) (der : Bytes) (inp : Input K B)
    (h : inputOfBytes tbsOf sigOf algOf certOf der = .ok inp) (hb : inp.basicOk = true) :
    ∃ st ty body b, decodeOuter der = .ok (st, ty, body, []) ∧ decodeBasic body = .ok (b, []) ∧
      inp = fullInput tbsOf sigOf algOf certOf st ty b := by
  unfold inputOfBytes at h
  simp only at h
  split at h
  · cases h
  · cases h; simp at hb
  · rename_i st ty body rest hout
    split_ifs at h with hr
    · cases h; simp at hb
    · have hrest : rest = [] := by
        cases rest with
        | nil => rfl
        | cons _ _ => simp at hr
      subst hrest
      split at h
      · cases h
      · cases h; simp at hb
      · rename_i b rest2 hbas
        split_ifs at h with hr2
        · cases h; simp at hb
        · have hrest2 : rest2 = [] := by
            cases rest2 with
            | nil => rfl
            | cons _ _ => simp at hr2
          subst hrest2
          cases h
          exact ⟨st, ty, body, b, hout, hbas, rfl⟩
end

end ZV.C13
