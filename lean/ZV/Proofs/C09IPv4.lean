import ZV.Model.C09
import ZV.Proofs.C09
/-!
  Declarative specification of the dotted-quad syntax accepted by
  `netip.parseIPv4Fields` (the IPv4 half of `net.ParseIP`) and the proof that the
  model's `parseIPv4Fields` accepts exactly that syntax with exactly that value.

  The specification (`decVal`, `IsDec`, `IsOctet`, `DottedQuad`) does not mention any
  model function.
-/
namespace ZV.C09

/-! ### the specification -/

/-- an ASCII decimal digit -/
def IsDec (c : UInt8) : Prop := 48 ≤ c.toNat ∧ c.toNat ≤ 57

/-- value of a decimal digit string (most significant digit first) -/
def decVal (f : Str) : Nat := f.foldl (fun acc c => acc * 10 + (c.toNat - 48)) 0

/-- `f` is the text of one IPv4 field with value `v`: at least one decimal digit, no leading
    zero unless the field is exactly "0", value at most 255.  (At most three digits is a
    consequence: `IsOctet.length_le`.) -/
structure IsOctet (f : Str) (v : Nat) : Prop where
  ne : f ≠ []
  digits : ∀ c ∈ f, IsDec c
  nlz : 2 ≤ f.length → f.head? ≠ some 48
  val : decVal f = v
  le : v ≤ 255

/-- `s` is four octets separated by single dots, with values `a b c d`. -/
def DottedQuad (s : Str) (a b c d : UInt8) : Prop :=
  ∃ f1 f2 f3 f4 : Str, s = f1 ++ 46 :: (f2 ++ 46 :: (f3 ++ 46 :: f4)) ∧
    IsOctet f1 a.toNat ∧ IsOctet f2 b.toNat ∧ IsOctet f3 c.toNat ∧ IsOctet f4 d.toNat

/-! ### decimal values -/

theorem isDigit_iff (c : UInt8) : isDigit c = true ↔ IsDec c := by
  simp [isDigit, IsDec]

theorem isDec_ne_dot {c : UInt8} (h : IsDec c) : c ≠ dot := by
  rintro rfl
  simp [IsDec, dot] at h

theorem decVal_nil : decVal [] = 0 := rfl

theorem decVal_snoc (f : Str) (c : UInt8) : decVal (f ++ [c]) = decVal f * 10 + (c.toNat - 48) := by
  simp [decVal, List.foldl_append]

theorem foldl_dec_ge (y : Str) (acc : Nat) :
    acc ≤ y.foldl (fun acc c => acc * 10 + (c.toNat - 48)) acc := by
  induction y generalizing acc with
  | nil => exact Nat.le_refl _
  | cons c y ih =>
    simp only [List.foldl_cons]
    exact Nat.le_trans (by omega) (ih _)

theorem decVal_append_ge (x y : Str) : decVal x ≤ decVal (x ++ y) := by
  simp only [decVal, List.foldl_append]
  exact foldl_dec_ge y _

theorem decVal_single (c : UInt8) : decVal [c] = c.toNat - 48 := by simp [decVal]

/-- four or more digits without a leading zero exceed 255 -/
theorem IsOctet.length_le {f : Str} {v : Nat} (h : IsOctet f v) : f.length ≤ 3 := by
  match f, h with
  | [], h => simp
  | [_], _ => simp
  | [_, _], _ => simp
  | [_, _, _], _ => simp
  | c1 :: c2 :: c3 :: c4 :: r, h =>
    exfalso
    have hnz := h.nlz (by simp)
    have hd1 := h.digits c1 (by simp)
    have hv := h.val
    have hle := h.le
    have hge : decVal [c1, c2, c3, c4] ≤ decVal ([c1, c2, c3, c4] ++ r) := decVal_append_ge _ _
    simp only [List.cons_append, List.nil_append] at hge
    rw [hv] at hge
    have hc1 : c1.toNat ≠ 48 := by
      intro e
      apply hnz
      simp only [List.head?_cons, Option.some.injEq]
      exact UInt8.toNat_inj.mp (by simpa using e)
    simp only [decVal, List.foldl_cons, List.foldl_nil] at hge
    simp only [IsDec] at hd1
    omega

/-! ### the loop of `parseIPv4Fields` against the grammar -/

/-- what remains to be read when `cur` (the digits of the current field read so far) has been
    consumed and `k` more dots are expected: the rest of the current field, then `k` further
    dot-prefixed fields; `vs` are the field values. -/
def V4Tail : Nat → Str → Str → List Nat → Prop
  | 0, cur, s, vs => ∃ v, IsOctet (cur ++ s) v ∧ vs = [v]
  | k + 1, cur, s, vs => ∃ d rest v vs', s = d ++ dot :: rest ∧ IsOctet (cur ++ d) v ∧
      V4Tail k [] rest vs' ∧ vs = v :: vs'

theorem V4Tail_nil_nil (k : Nat) (vs : List Nat) : ¬ V4Tail k [] [] vs := by
  cases k with
  | zero =>
    rintro ⟨v, h, _⟩
    exact h.ne rfl
  | succ k =>
    rintro ⟨d, rest, v, vs', h, _⟩
    have := congrArg List.length h
    simp at this

/-- a digit moves from the input to the current field -/
theorem V4Tail_digit (k : Nat) (cur rest : Str) (c : UInt8) (vs : List Nat) (hc : IsDec c) :
    V4Tail k cur (c :: rest) vs ↔ V4Tail k (cur ++ [c]) rest vs := by
  cases k with
  | zero => simp [V4Tail]
  | succ k =>
    simp only [V4Tail]
    constructor
    · rintro ⟨d, r, v, vs', hs, ho, ht, hv⟩
      cases d with
      | nil =>
        simp only [List.nil_append, List.cons.injEq] at hs
        exact absurd hs.1 (isDec_ne_dot hc)
      | cons x d' =>
        simp only [List.cons_append, List.cons.injEq] at hs
        obtain ⟨rfl, rfl⟩ := hs
        exact ⟨d', r, v, vs', rfl, by simpa using ho, ht, hv⟩
    · rintro ⟨d, r, v, vs', hs, ho, ht, hv⟩
      exact ⟨c :: d, r, v, vs', by simp [hs], by simpa using ho, ht, hv⟩

/-- a dot closes the current field -/
theorem V4Tail_dot (k : Nat) (cur rest : Str) (vs : List Nat) :
    V4Tail k cur (dot :: rest) vs ↔
      ∃ k' v vs', k = k' + 1 ∧ IsOctet cur v ∧ V4Tail k' [] rest vs' ∧ vs = v :: vs' := by
  cases k with
  | zero =>
    simp only [V4Tail]
    constructor
    · rintro ⟨v, ho, _⟩
      exact absurd rfl (isDec_ne_dot (ho.digits dot (by simp)))
    · rintro ⟨k', _, _, hk, _⟩
      omega
  | succ k =>
    simp only [V4Tail]
    constructor
    · rintro ⟨d, r, v, vs', hs, ho, ht, hv⟩
      cases d with
      | nil =>
        simp only [List.nil_append, List.cons.injEq, true_and] at hs
        subst hs
        exact ⟨k, v, vs', rfl, by simpa using ho, ht, hv⟩
      | cons x d' =>
        simp only [List.cons_append, List.cons.injEq] at hs
        obtain ⟨rfl, _⟩ := hs
        exact absurd rfl (isDec_ne_dot (ho.digits dot (by simp)))
    · rintro ⟨k', v, vs', hk, ho, ht, hv⟩
      have : k = k' := by omega
      subst this
      exact ⟨[], rest, v, vs', rfl, by simpa using ho, ht, hv⟩

/-- any other byte is not part of the grammar -/
theorem V4Tail_other (k : Nat) (cur rest : Str) (c : UInt8) (vs : List Nat)
    (hd : ¬ IsDec c) (hdot : c ≠ dot) : ¬ V4Tail k cur (c :: rest) vs := by
  cases k with
  | zero =>
    rintro ⟨v, ho, _⟩
    exact hd (ho.digits c (by simp))
  | succ k =>
    rintro ⟨d, r, v, vs', hs, ho, _, _⟩
    cases d with
    | nil =>
      simp only [List.nil_append, List.cons.injEq] at hs
      exact hdot hs.1
    | cons x d' =>
      simp only [List.cons_append, List.cons.injEq] at hs
      obtain ⟨rfl, _⟩ := hs
      exact hd (ho.digits c (by simp))

theorem IsOctet.val_unique {f : Str} {v w : Nat} (h1 : IsOctet f v) (h2 : IsOctet f w) : v = w := by
  rw [← h1.val, ← h2.val]

/-- extending a (possibly empty) field prefix by one digit, under the two checks of the loop -/
theorem IsOctet.snoc {cur : Str} {val : Nat} {c : UInt8} (hcur : cur = [] ∨ IsOctet cur val)
    (hval : val = decVal cur) (hc : IsDec c) (hlz : ¬ (cur.length = 1 ∧ val = 0))
    (hle : val * 10 + (c.toNat - 48) ≤ 255) :
    IsOctet (cur ++ [c]) (val * 10 + (c.toNat - 48)) := by
  refine ⟨by simp, ?_, ?_, by rw [decVal_snoc, hval], hle⟩
  · intro x hx
    rcases List.mem_append.mp hx with hx | hx
    · rcases hcur with rfl | ho
      · cases hx
      · exact ho.digits x hx
    · simp only [List.mem_singleton] at hx
      subst hx; exact hc
  · intro hlen
    rcases hcur with rfl | ho
    · simp at hlen
    · match cur, ho with
      | [], ho => exact absurd rfl ho.ne
      | [x], ho =>
        simp only [List.cons_append, List.nil_append, List.head?_cons, ne_eq, Option.some.injEq]
        rintro rfl
        apply hlz
        refine ⟨rfl, ?_⟩
        rw [hval]; rfl
      | x :: y :: r, ho =>
        have := ho.nlz (by simp)
        simpa using this

/-- a field that already reads "0" cannot be extended -/
theorem IsOctet.no_extend_zero {cur d : Str} {c : UInt8} {v : Nat}
    (hlen : cur.length = 1) (hz : decVal cur = 0) (hdig : ∀ x ∈ cur, IsDec x) :
    ¬ IsOctet (cur ++ c :: d) v := by
  intro ho
  match cur, hlen with
  | [x], _ =>
    have hx := hdig x (by simp)
    have := ho.nlz (by simp)
    apply this
    simp only [List.cons_append, List.head?_cons, Option.some.injEq]
    rw [decVal_single] at hz
    simp only [IsDec] at hx
    exact UInt8.toNat_inj.mp (by simp; omega)

theorem v4Loop_iff (s : Str) : ∀ (prev : Option UInt8) (val pos digLen : Nat) (fields cur out : List UInt8),
    pos ≤ 3 → val = decVal cur → digLen = cur.length → (cur = [] ∨ IsOctet cur val) →
    (cur = [] → (prev = none ∨ prev = some dot)) → (cur ≠ [] → ∃ c, prev = some c ∧ c ≠ dot) →
    (cur = [] → pos = 0 ∨ s ≠ []) →
    (v4Loop prev val pos digLen fields s = some out ↔
      ∃ vs, V4Tail (3 - pos) cur s vs ∧ out = fields ++ vs.map UInt8.ofNat) := by
  induction s with
  | nil =>
    intro prev val pos digLen fields cur out hpos hval hdl hcur hp1 hp2 hne
    unfold v4Loop
    by_cases hlt : pos < 3
    · simp only [hlt, if_true, reduceCtorEq, false_iff]
      rintro ⟨vs, ht, _⟩
      obtain ⟨k, hk⟩ : ∃ k, 3 - pos = k + 1 := ⟨2 - pos, by omega⟩
      rw [hk] at ht
      obtain ⟨d, rest, _, _, hs, _⟩ := ht
      have := congrArg List.length hs
      simp at this
    · have hp3 : pos = 3 := by omega
      subst hp3
      have hcne : cur ≠ [] := by
        intro e
        rcases hne e with h | h
        · omega
        · exact h rfl
      have ho : IsOctet cur val := hcur.resolve_left hcne
      simp only [Nat.lt_irrefl, if_false, Option.some.injEq, Nat.sub_self, V4Tail, List.append_nil]
      constructor
      · rintro rfl
        exact ⟨[val], ⟨val, ho, rfl⟩, rfl⟩
      · rintro ⟨vs, ⟨v, hv, rfl⟩, rfl⟩
        rw [ho.val_unique hv]; rfl
  | cons c rest ih =>
    intro prev val pos digLen fields cur out hpos hval hdl hcur hp1 hp2 hne
    unfold v4Loop
    by_cases hdig : isDigit c = true
    · have hdec : IsDec c := (isDigit_iff c).mp hdig
      simp only [hdig, if_true]
      by_cases hz : digLen = 1 ∧ val = 0
      · simp only [hz, and_self, if_true, reduceCtorEq, false_iff]
        rintro ⟨vs, ht, _⟩
        have hcl : cur.length = 1 := by omega
        have hcv : decVal cur = 0 := by rw [← hval]; exact hz.2
        have hcd : ∀ x ∈ cur, IsDec x := by
          rcases hcur with rfl | ho
          · simp at hcl
          · exact ho.digits
        cases hk3 : 3 - pos with
        | zero =>
          rw [hk3] at ht
          obtain ⟨v, ho, _⟩ := ht
          exact IsOctet.no_extend_zero hcl hcv hcd ho
        | succ k' =>
          rw [hk3] at ht
          obtain ⟨d, r, v, vs', hs, ho, _, _⟩ := ht
          cases d with
          | nil =>
            simp only [List.nil_append, List.cons.injEq] at hs
            exact isDec_ne_dot hdec hs.1
          | cons x d' =>
            simp only [List.cons_append, List.cons.injEq] at hs
            obtain ⟨rfl, _⟩ := hs
            exact IsOctet.no_extend_zero hcl hcv hcd ho
      · simp only [hz, if_false]
        by_cases hbig : val * 10 + (c.toNat - 48) > 255
        · simp only [hbig, if_true, reduceCtorEq, false_iff]
          rintro ⟨vs, ht, _⟩
          -- the field containing cur ++ [c] has value > 255
          have key : ∀ d v, IsOctet (cur ++ c :: d) v → False := by
            intro d v ho
            have h1 : decVal (cur ++ [c]) ≤ decVal ((cur ++ [c]) ++ d) := decVal_append_ge _ _
            rw [decVal_snoc, ← hval] at h1
            simp only [List.append_assoc, List.cons_append, List.nil_append] at h1
            rw [ho.val] at h1
            have := ho.le
            omega
          cases hk3 : 3 - pos with
          | zero =>
            rw [hk3] at ht
            obtain ⟨v, ho, _⟩ := ht
            exact key _ _ ho
          | succ k' =>
            rw [hk3] at ht
            obtain ⟨d, r, v, vs', hs, ho, _, _⟩ := ht
            cases d with
            | nil =>
              simp only [List.nil_append, List.cons.injEq] at hs
              exact isDec_ne_dot hdec hs.1
            | cons x d' =>
              simp only [List.cons_append, List.cons.injEq] at hs
              obtain ⟨rfl, _⟩ := hs
              exact key _ _ ho
        · simp only [hbig, if_false]
          have hz' : ¬ (cur.length = 1 ∧ val = 0) := by rw [← hdl]; exact hz
          have hoct : IsOctet (cur ++ [c]) (val * 10 + (c.toNat - 48)) :=
            IsOctet.snoc hcur hval hdec hz' (by omega)
          rw [ih (some c) (val * 10 + (c.toNat - 48)) pos (digLen + 1) fields (cur ++ [c]) out hpos
            (by rw [decVal_snoc, hval]) (by simp [hdl]) (Or.inr hoct)
            (by intro e; simp at e) (fun _ => ⟨c, rfl, isDec_ne_dot hdec⟩)
            (by intro e; simp at e)]
          constructor
          · rintro ⟨vs, ht, ho⟩
            exact ⟨vs, (V4Tail_digit _ _ _ _ _ hdec).mpr ht, ho⟩
          · rintro ⟨vs, ht, ho⟩
            exact ⟨vs, (V4Tail_digit _ _ _ _ _ hdec).mp ht, ho⟩
    · have hndec : ¬ IsDec c := fun h => hdig ((isDigit_iff c).mpr h)
      simp only [hdig, Bool.false_eq_true, if_false]
      by_cases hdot : c = dot
      · subst hdot
        simp only [if_true]
        by_cases hbad : prev = none ∨ rest = [] ∨ prev = some dot
        · simp only [hbad, if_true, reduceCtorEq, false_iff]
          rintro ⟨vs, ht, _⟩
          obtain ⟨k', v, vs', _, ho, ht', _⟩ := (V4Tail_dot _ _ _ _).mp ht
          rcases hbad with hb | hb | hb
          · obtain ⟨x, hx, _⟩ := hp2 ho.ne
            rw [hb] at hx; cases hx
          · subst hb
            exact V4Tail_nil_nil _ _ ht'
          · obtain ⟨x, hx, hxd⟩ := hp2 ho.ne
            rw [hb] at hx
            simp only [Option.some.injEq] at hx
            exact hxd hx.symm
        · simp only [hbad, if_false]
          have hcne : cur ≠ [] := by
            intro e
            rcases hp1 e with h | h
            · exact hbad (Or.inl h)
            · exact hbad (Or.inr (Or.inr h))
          have hrne : rest ≠ [] := fun e => hbad (Or.inr (Or.inl e))
          have ho : IsOctet cur val := hcur.resolve_left hcne
          by_cases hp3 : pos = 3
          · simp only [hp3, if_true, reduceCtorEq, Nat.sub_self, false_iff]
            rintro ⟨vs, ht, _⟩
            obtain ⟨k', _, _, hk, _⟩ := (V4Tail_dot _ _ _ _).mp ht
            omega
          · simp only [hp3, if_false]
            rw [ih (some dot) 0 (pos + 1) 0 (fields ++ [UInt8.ofNat val]) [] out (by omega)
              rfl rfl (Or.inl rfl) (fun _ => Or.inr rfl) (fun h => absurd rfl h)
              (fun _ => Or.inr hrne)]
            constructor
            · rintro ⟨vs', ht', hout⟩
              refine ⟨val :: vs', (V4Tail_dot _ _ _ _).mpr ⟨3 - (pos + 1), val, vs', by omega, ho, ht', rfl⟩, ?_⟩
              simp [hout]
            · rintro ⟨vs, ht, hout⟩
              obtain ⟨k', v, vs', hk, ho', ht', rfl⟩ := (V4Tail_dot _ _ _ _).mp ht
              have hk' : k' = 3 - (pos + 1) := by omega
              subst hk'
              refine ⟨vs', ht', ?_⟩
              rw [ho.val_unique ho']
              simp [hout]
      · simp only [hdot, if_false, reduceCtorEq, false_iff]
        rintro ⟨vs, ht, _⟩
        exact V4Tail_other _ _ _ _ _ hndec hdot ht

/-- **IPv4 fields**: the model's `parseIPv4Fields` returns `[a, b, c, d]` exactly on the
    dotted quads with these values. -/
theorem parseIPv4Fields_iff (s : Str) (a b c d : UInt8) :
    parseIPv4Fields s = some [a, b, c, d] ↔ DottedQuad s a b c d := by
  unfold parseIPv4Fields
  rw [v4Loop_iff s none 0 0 0 [] [] [a, b, c, d] (by omega) rfl rfl (Or.inl rfl)
    (fun _ => Or.inl rfl) (fun h => absurd rfl h) (fun _ => Or.inl rfl)]
  simp only [Nat.sub_zero, V4Tail, List.nil_append]
  constructor
  · rintro ⟨vs, ⟨f1, r1, v1, vs1, rfl, o1, ⟨f2, r2, v2, vs2, rfl, o2, ⟨f3, r3, v3, vs3, rfl, o3,
      ⟨v4, o4, rfl⟩, rfl⟩, rfl⟩, rfl⟩, hout⟩
    simp only [List.map_cons, List.map_nil, List.cons.injEq, and_true] at hout
    obtain ⟨ha, hb, hc, hd⟩ := hout
    have conv : ∀ (x : UInt8) (v : Nat), v ≤ 255 → x = UInt8.ofNat v → v = x.toNat := by
      intro x v hv hx
      subst hx
      simp only [UInt8.toNat_ofNat']
      omega
    refine ⟨f1, f2, f3, r3, rfl, ?_, ?_, ?_, ?_⟩
    · rw [← conv a v1 o1.le ha]; exact o1
    · rw [← conv b v2 o2.le hb]; exact o2
    · rw [← conv c v3 o3.le hc]; exact o3
    · rw [← conv d v4 o4.le hd]; exact o4
  · rintro ⟨f1, f2, f3, f4, rfl, o1, o2, o3, o4⟩
    refine ⟨[a.toNat, b.toNat, c.toNat, d.toNat],
      ⟨f1, _, a.toNat, _, rfl, o1, ⟨f2, _, b.toNat, _, rfl, o2, ⟨f3, _, c.toNat, _, rfl, o3,
        ⟨d.toNat, o4, rfl⟩, rfl⟩, rfl⟩, rfl⟩, ?_⟩
    simp

/-- every successful result of `parseIPv4Fields` has the form `[a, b, c, d]`. -/
theorem parseIPv4Fields_some (s : Str) (f : List UInt8) (h : parseIPv4Fields s = some f) :
    ∃ a b c d, f = [a, b, c, d] ∧ DottedQuad s a b c d := by
  have hl := parseIPv4Fields_length s f h
  match f, hl with
  | [a, b, c, d], _ => exact ⟨a, b, c, d, rfl, (parseIPv4Fields_iff s a b c d).mp h⟩

/-! ### the text of a dotted quad is determined by its value -/

/-- the canonical decimal text of an octet value -/
def octetText (v : Nat) : Str :=
  if v < 10 then [UInt8.ofNat (48 + v)]
  else if v < 100 then [UInt8.ofNat (48 + v / 10), UInt8.ofNat (48 + v % 10)]
  else [UInt8.ofNat (48 + v / 100), UInt8.ofNat (48 + v / 10 % 10), UInt8.ofNat (48 + v % 10)]

theorem ofNat_of_toNat (x : UInt8) (k : Nat) (h : x.toNat = k) : UInt8.ofNat k = x := by
  apply UInt8.toNat_inj.mp
  rw [UInt8.toNat_ofNat']
  have := x.toNat_lt
  omega

theorem IsOctet.eq_text {f : Str} {v : Nat} (h : IsOctet f v) : f = octetText v := by
  have hl := h.length_le
  match f, h, hl with
  | [], h, _ => exact absurd rfl h.ne
  | [x], h, _ =>
    have hx := h.digits x (by simp)
    have hv := h.val
    simp only [decVal, List.foldl_cons, List.foldl_nil, IsDec] at hv hx
    unfold octetText
    rw [if_pos (by omega), ofNat_of_toNat x _ (by omega)]
  | [x, y], h, _ =>
    have hx := h.digits x (by simp)
    have hy := h.digits y (by simp)
    have hv := h.val
    have hz := h.nlz (by simp)
    have hx0 : x.toNat ≠ 48 := by
      intro e; apply hz
      simp only [List.head?_cons, Option.some.injEq]
      exact UInt8.toNat_inj.mp (by simpa using e)
    simp only [decVal, List.foldl_cons, List.foldl_nil, IsDec] at hv hx hy
    unfold octetText
    rw [if_neg (by omega), if_pos (by omega), ofNat_of_toNat x _ (by omega), ofNat_of_toNat y _ (by omega)]
  | [x, y, z], h, _ =>
    have hx := h.digits x (by simp)
    have hy := h.digits y (by simp)
    have hzd := h.digits z (by simp)
    have hv := h.val
    have hz := h.nlz (by simp)
    have hx0 : x.toNat ≠ 48 := by
      intro e; apply hz
      simp only [List.head?_cons, Option.some.injEq]
      exact UInt8.toNat_inj.mp (by simpa using e)
    simp only [decVal, List.foldl_cons, List.foldl_nil, IsDec] at hv hx hy hzd
    unfold octetText
    rw [if_neg (by omega), if_neg (by omega), ofNat_of_toNat x _ (by omega), ofNat_of_toNat y _ (by omega),
      ofNat_of_toNat z _ (by omega)]
  | _ :: _ :: _ :: _ :: _, _, hl => simp at hl

theorem toNat_ofNat_small (k : Nat) (h : k < 256) : (UInt8.ofNat k).toNat = k := by
  rw [UInt8.toNat_ofNat']; omega

/-- every value up to 255 has a text -/
theorem octetText_isOctet (v : Nat) (h : v ≤ 255) : IsOctet (octetText v) v := by
  unfold octetText
  by_cases h1 : v < 10
  · rw [if_pos h1]
    have e := toNat_ofNat_small (48 + v) (by omega)
    refine ⟨by simp, ?_, by simp, ?_, h⟩
    · intro c hc
      simp only [List.mem_singleton] at hc
      subst hc
      simp only [IsDec, e]; omega
    · simp only [decVal, List.foldl_cons, List.foldl_nil, e]; omega
  · rw [if_neg h1]
    by_cases h2 : v < 100
    · rw [if_pos h2]
      have e1 := toNat_ofNat_small (48 + v / 10) (by omega)
      have e2 := toNat_ofNat_small (48 + v % 10) (by omega)
      refine ⟨by simp, ?_, ?_, ?_, h⟩
      · intro c hc
        simp only [List.mem_cons, List.not_mem_nil, or_false] at hc
        rcases hc with rfl | rfl
        · simp only [IsDec, e1]; omega
        · simp only [IsDec, e2]; omega
      · intro _
        simp only [List.head?_cons, ne_eq, Option.some.injEq]
        intro e
        have := congrArg UInt8.toNat e
        rw [e1] at this
        simp at this
        omega
      · simp only [decVal, List.foldl_cons, List.foldl_nil, e1, e2]; omega
    · rw [if_neg h2]
      have e1 := toNat_ofNat_small (48 + v / 100) (by omega)
      have e2 := toNat_ofNat_small (48 + v / 10 % 10) (by omega)
      have e3 := toNat_ofNat_small (48 + v % 10) (by omega)
      refine ⟨by simp, ?_, ?_, ?_, h⟩
      · intro c hc
        simp only [List.mem_cons, List.not_mem_nil, or_false] at hc
        rcases hc with rfl | rfl | rfl
        · simp only [IsDec, e1]; omega
        · simp only [IsDec, e2]; omega
        · simp only [IsDec, e3]; omega
      · intro _
        simp only [List.head?_cons, ne_eq, Option.some.injEq]
        intro e
        have := congrArg UInt8.toNat e
        rw [e1] at this
        simp at this
        omega
      · simp only [decVal, List.foldl_cons, List.foldl_nil, e1, e2, e3]; omega

/-- every four bytes have a dotted-quad text -/
theorem DottedQuad.exists (a b c d : UInt8) : ∃ s, DottedQuad s a b c d :=
  ⟨_, octetText a.toNat, octetText b.toNat, octetText c.toNat, octetText d.toNat, rfl,
    octetText_isOctet _ (by have := a.toNat_lt; omega), octetText_isOctet _ (by have := b.toNat_lt; omega),
    octetText_isOctet _ (by have := c.toNat_lt; omega), octetText_isOctet _ (by have := d.toNat_lt; omega)⟩

/-- two octet texts with the same value are the same text (no leading zeros) -/
theorem IsOctet.text_unique {f g : Str} {v : Nat} (hf : IsOctet f v) (hg : IsOctet g v) : f = g := by
  rw [hf.eq_text, hg.eq_text]

/-- a dotted quad is determined by its four values -/
theorem DottedQuad.text_unique {s s' : Str} {a b c d : UInt8}
    (h : DottedQuad s a b c d) (h' : DottedQuad s' a b c d) : s = s' := by
  obtain ⟨f1, f2, f3, f4, rfl, o1, o2, o3, o4⟩ := h
  obtain ⟨g1, g2, g3, g4, rfl, p1, p2, p3, p4⟩ := h'
  rw [o1.text_unique p1, o2.text_unique p2, o3.text_unique p3, o4.text_unique p4]

/-- the characters of a dotted quad -/
theorem DottedQuad.chars {s : Str} {a b c d : UInt8} (h : DottedQuad s a b c d) :
    ∀ x ∈ s, IsDec x ∨ x = 46 := by
  obtain ⟨f1, f2, f3, f4, rfl, o1, o2, o3, o4⟩ := h
  intro x hx
  simp only [List.mem_append, List.mem_cons] at hx
  rcases hx with hx | hx | hx | hx | hx | hx | hx
  · exact Or.inl (o1.digits x hx)
  · exact Or.inr hx
  · exact Or.inl (o2.digits x hx)
  · exact Or.inr hx
  · exact Or.inl (o3.digits x hx)
  · exact Or.inr hx
  · exact Or.inl (o4.digits x hx)

end ZV.C09
