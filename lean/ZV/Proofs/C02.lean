import ZV.Model.C02
import ZV.Proofs.C01
import Mathlib.Data.List.Sort
import Mathlib.Data.List.Perm.Basic
import Mathlib.Order.Basic
namespace ZV.C02
open ZV.C01

theorem at?_of_lt {α} {l : List α} {i : Nat} (h : i < l.length) : ∃ a, at? l i = .ok a := by
  unfold at?
  rw [List.getElem?_eq_getElem h]
  exact ⟨_, rfl⟩

/-- the invariant the parser establishes: every array has one entry per policy -/
def WellFormed (d : PolData) : Prop :=
  d.cpsUri.length = d.policyIds.length ∧ d.userNotices.length = d.policyIds.length

theorem parsePolicies_wellFormed (ps : List PolicyIn) : WellFormed (parsePolicies ps) := by
  simp [WellFormed, parsePolicies]

theorem parsePolicies_lengths (ps : List PolicyIn) :
    let d := parsePolicies ps
    d.policyIds.length = ps.length ∧ d.cpsUri.length = ps.length ∧ d.explicitTexts.length = ps.length ∧
    d.noticeRefOrg.length = ps.length ∧ d.noticeRefNumbers.length = ps.length ∧ d.userNotices.length = ps.length := by
  simp [parsePolicies]

theorem policiesJSON_fold_no_panic (d : PolData) (l : List Nat)
    (hl : ∀ i ∈ l, i < d.cpsUri.length ∧ i < d.userNotices.length)
    (acc : Res (List (Nat × List NoticeOut))) (hacc : acc ≠ .panic) :
    l.foldl (fun (acc : Res (List (Nat × List NoticeOut))) idx =>
      match acc with
      | .ok out =>
        match at? d.cpsUri idx, at? d.userNotices idx with
        | .ok cps, .ok uns =>
          let notices : List NoticeOut := (uns.filter (fun u => u.explicitText.isSome || u.noticeRef.isSome)).map
            (fun u => (u.explicitText, u.noticeRef))
          .ok (out ++ [(cps.length, notices)])
        | .panic, _ => .panic
        | _, .panic => .panic
        | _, _ => .err
      | r => r) acc ≠ .panic := by
  induction l generalizing acc with
  | nil => simpa using hacc
  | cons i l ih =>
    simp only [List.foldl_cons]
    apply ih (fun j hj => hl j (List.mem_cons_of_mem _ hj))
    obtain ⟨h1, h2⟩ := hl i List.mem_cons_self
    obtain ⟨c, hc⟩ := at?_of_lt h1
    obtain ⟨u, hu⟩ := at?_of_lt h2
    cases acc with
    | ok out => simp [hc, hu]
    | err => simp
    | panic => exact absurd rfl hacc

theorem policiesJSON_no_panic_of_wellFormed (d : PolData) (h : WellFormed d) : policiesJSON d ≠ .panic := by
  unfold policiesJSON
  apply policiesJSON_fold_no_panic
  · intro i hi
    have := List.mem_range.mp hi
    unfold WellFormed at h
    omega
  · simp

/-! names -/
section purge
variable {α : Type} [LinearOrder α]

theorem mem_insertSet (a b : α) (l : List α) : b ∈ insertSet a l ↔ b = a ∨ b ∈ l := by
  induction l with
  | nil => simp [insertSet]
  | cons c l ih =>
    simp only [insertSet]
    split
    · simp
    · split
      · rename_i h1 h2; subst h2; simp
      · simp [ih]; tauto

theorem sorted_insertSet (a : α) (l : List α) (h : l.Pairwise (· < ·)) : (insertSet a l).Pairwise (· < ·) := by
  induction l with
  | nil => simp [insertSet]
  | cons c l ih =>
    simp only [insertSet]
    have hc := List.pairwise_cons.mp h
    split
    · rename_i hac
      refine List.pairwise_cons.mpr ⟨?_, h⟩
      intro x hx
      rcases List.mem_cons.mp hx with hx | hx
      · rw [hx]; exact hac
      · exact lt_trans hac (hc.1 x hx)
    · split
      · exact h
      · rename_i h1 h2
        refine List.pairwise_cons.mpr ⟨?_, ih hc.2⟩
        intro x hx
        rcases (mem_insertSet a x l).mp hx with hx | hx
        · rw [hx]; exact lt_of_le_of_ne (not_lt.mp h1) (Ne.symm h2)
        · exact hc.1 x hx

theorem mem_purge (b : α) (l : List α) : b ∈ purge l ↔ b ∈ l := by
  induction l with
  | nil => simp [purge]
  | cons a l ih =>
    have : purge (a :: l) = insertSet a (purge l) := rfl
    rw [this, mem_insertSet, ih]; simp

theorem sorted_purge (l : List α) : (purge l).Pairwise (· < ·) := by
  induction l with
  | nil => simp [purge]
  | cons a l ih =>
    have : purge (a :: l) = insertSet a (purge l) := rfl
    rw [this]; exact sorted_insertSet a _ ih

/-- two strictly increasing lists with the same elements are equal -/
theorem eq_of_sorted_of_mem_iff (l₁ l₂ : List α) (h₁ : l₁.Pairwise (· < ·)) (h₂ : l₂.Pairwise (· < ·))
    (h : ∀ x, x ∈ l₁ ↔ x ∈ l₂) : l₁ = l₂ := by
  have n₁ : l₁.Nodup := h₁.imp (fun hlt => ne_of_lt hlt)
  have n₂ : l₂.Nodup := h₂.imp (fun hlt => ne_of_lt hlt)
  have hp : l₁.Perm l₂ := (List.perm_ext_iff_of_nodup n₁ n₂).mpr h
  exact List.Perm.eq_of_pairwise (fun a b _ _ hab hba => absurd hab (lt_asymm hba)) h₁ h₂ hp

end purge
end ZV.C02
