import ZV.Proofs.C01Asn1
import ZV.Proofs.C18Big
/-!
  C01, allocation of the reflective engine: the size of the value `Unmarshal` builds is LINEAR in the number of
  bytes it consumed, with constants that depend only on the Go type (the schema), for every schema, parameter set,
  input and both parsing modes.

  `vsize` counts what the decoded value holds: one unit per node (struct field / slice element / scalar), plus the
  bytes of every byte string / bit string / RawValue (`Bytes` and `FullBytes`), plus the arcs of an OID, plus the
  bytes of the magnitude of an integer (so a `*big.Int` counts its limbs).
-/
namespace ZV.C01Asn1
open ZV ZV.C18

/-- bytes needed for the magnitude of an integer -/
def intLen (i : Int) : Nat := i.natAbs.log2 / 8 + 1

def vsize : Val → Nat
  | .int i => 1 + intLen i
  | .bool _ => 1
  | .bytes bs => 1 + bs.length
  | .null => 1
  | .oid arcs => 1 + arcs.length
  | .bits bs _ => 1 + bs.length
  | .raw _ _ _ bs full => 1 + bs.length + full.length
  | .vnil => 1
  | .vcons v rest => 1 + vsize v + vsize rest

/-- size of the `default:` value of a field -/
def dflt (p : Params) : Nat := match p.defaultValue with | some d => vsize (.int d) | none => 0

/-- additive constant of the bound (what an absent / empty value of the type costs) -/
def aC : Schema → Nat
  | .struct fs => aC fs + vsize (zeroVal fs)
  | .seqOf _ _ => 1
  | .fnil => 1
  | .fcons p s rest => 1 + aC s + dflt p + aC rest
  | s => vsize (zeroVal s)

/-- per-input-byte constant of the bound -/
def bC : Schema → Nat
  | .struct fs => bC fs
  | .seqOf _ e => 1 + aC e + bC e
  | .fnil => 0
  | .fcons _ s rest => max (bC s) (bC rest)
  | _ => 2

/-! ### integers -/

theorem intLen_le (i : Int) (n : Nat) (hn : 1 ≤ n) (h : i.natAbs < 2 ^ (8 * n)) : intLen i ≤ n := by
  unfold intLen
  by_cases h0 : i.natAbs = 0
  · rw [h0]; simp [Nat.log2]; exact hn
  · have := (Nat.log2_lt h0).mpr h
    omega

theorem beNat_lt : ∀ bs : Bytes, beNat bs < 256 ^ bs.length
  | [] => by simp [beNat]
  | b :: r => by
    rw [beNat_cons, List.length_cons, Nat.pow_succ]
    have := beNat_lt r
    have hb := UInt8.toNat_lt b
    have : b.toNat * 256 ^ r.length ≤ 255 * 256 ^ r.length := Nat.mul_le_mul_right _ (by omega)
    omega

theorem pow256 (n : Nat) : 256 ^ n = 2 ^ (8 * n) := by
  rw [Nat.pow_mul]

theorem checkInteger_pos (perm : Bool) (bs : Bytes) (h : checkInteger perm bs = true) : 1 ≤ bs.length := by
  cases bs with
  | nil => simp [checkInteger] at h
  | cons b r => simp

theorem parseInt64_size (perm : Bool) (bs : Bytes) (i : Int) (h : parseInt64 perm bs = .ok i) :
    intLen i ≤ bs.length := by
  unfold parseInt64 at h
  have hlt := beNat_lt bs
  rw [pow256] at hlt
  split_ifs at h with h1 h2 h3
  · have hpos := checkInteger_pos perm bs (by simpa using h1)
    cases h
    apply intLen_le _ _ hpos
    have e : 2 ^ (8 * bs.length) = 2 * 2 ^ (8 * bs.length - 1) := by
      rw [← Nat.pow_succ']; congr 1; omega
    have hc : ((2 : Int) ^ (8 * bs.length)) = ((2 ^ (8 * bs.length) : Nat) : Int) := by simp
    rw [hc]
    omega
  · have hpos := checkInteger_pos perm bs (by simpa using h1)
    cases h
    apply intLen_le _ _ hpos
    simpa using hlt

theorem parseInt32_size (perm : Bool) (bs : Bytes) (i : Int) (h : parseInt32 perm bs = .ok i) :
    intLen i ≤ bs.length := by
  unfold parseInt32 at h
  split_ifs at h
  split at h
  · rename_i j hj
    split_ifs at h
    cases h
    exact parseInt64_size perm bs _ hj
  · cases h
  · cases h

theorem parseBigInt_size (perm : Bool) (bs : Bytes) (i : Int) (h : parseBigInt perm bs = .ok i) :
    intLen i ≤ bs.length := by
  unfold parseBigInt at h
  split_ifs at h with h1
  have hpos := checkInteger_pos perm bs (by simpa using h1)
  split at h
  · simp at hpos
  · rename_i b0 r
    split_ifs at h with h2
    · cases h
      apply intLen_le _ _ hpos
      rw [← pow256]
      have hl := beNat_lt (r.map notByte)
      simp only [List.map_cons, beNat_cons, notByte_toNat, List.length_map, List.length_cons, Nat.pow_succ] at *
      have hb := UInt8.toNat_lt b0
      have : (255 - b0.toNat) * 256 ^ r.length ≤ 127 * 256 ^ r.length := Nat.mul_le_mul_right _ (by omega)
      omega
    · cases h
      apply intLen_le _ _ hpos
      rw [← pow256]
      simpa using beNat_lt (b0 :: r)

/-! ### strings -/

theorem utf8Enc_len (r : Nat) : (utf8Enc r).length ≤ 4 := by
  unfold utf8Enc
  split_ifs <;> simp

theorem utf16_len : ∀ l : List Nat, (utf16ToUtf8 l).length ≤ 4 * l.length
  | [] => by simp [utf16ToUtf8]
  | [u] => by
    simp only [utf16ToUtf8]
    split_ifs <;> · have := utf8Enc_len; simp only [List.length_cons, List.length_nil]; first | (have := this 65533; omega) | (have := this u; omega)
  | u :: u2 :: rest => by
    simp only [utf16ToUtf8]
    have h1 := utf16_len rest
    have h2 := utf16_len (u2 :: rest)
    have e := utf8Enc_len
    split_ifs
    · have := e ((u - 55296) * 1024 + (u2 - 56320) + 65536)
      simp only [List.length_append, List.length_cons] at *; omega
    · have := e 65533
      simp only [List.length_append, List.length_cons] at *; omega
    · have := e u
      simp only [List.length_append, List.length_cons] at *; omega

theorem stripTerm_len : ∀ l : List Nat, (stripTerm l).length ≤ l.length
  | [] => by simp [stripTerm]
  | [u] => by simp only [stripTerm]; split_ifs <;> simp
  | u :: v :: rest => by
    have := stripTerm_len (v :: rest)
    simp only [stripTerm, List.length_cons] at *; omega

theorem pairs16_len : ∀ bs : Bytes, 2 * (pairs16 bs).length ≤ bs.length
  | [] => by simp [pairs16]
  | [_] => by simp [pairs16]
  | a :: b :: rest => by
    have := pairs16_len rest
    simp only [pairs16, List.length_cons] at *; omega

theorem parseString_size (perm : Bool) (utag : Nat) (bs : Bytes) (v : Val) (h : parseString perm utag bs = .ok v) :
    vsize v ≤ 1 + 2 * bs.length := by
  unfold parseString parsePrintableString parseNumericString parseIA5String parseT61String parseUTF8String
    parseBMPString at h
  have hb : (utf16ToUtf8 (stripTerm (pairs16 bs))).length ≤ 2 * bs.length := by
    have h1 := utf16_len (stripTerm (pairs16 bs))
    have h2 := stripTerm_len (pairs16 bs)
    have h3 := pairs16_len bs
    omega
  split_ifs at h <;> first | (cases h; done) | (cases h; simp only [vsize]; omega)

/-! ### the non-recursive arms -/

theorem parseBitString_size (bs : Bytes) (v : Val) (h : parseBitString bs = .ok v) : vsize v ≤ bs.length := by
  unfold parseBitString at h
  split at h
  · cases h
  · simp only at h
    split_ifs at h
    cases h
    simp [vsize]; omega

theorem parseOID_size (bs : Bytes) (v : Val) (h : parseOID bs = .ok v) : vsize v ≤ 2 + bs.length := by
  have key : ∀ l, parseOID bs = .ok (.oid l) → l.length ≤ bs.length + 1 := fun l => parseOID_bound bs l
  have : ∃ l, v = .oid l := by
    unfold parseOID at h
    split at h
    · cases h
    · split at h
      · split at h
        · split_ifs at h <;> · cases h; exact ⟨_, rfl⟩
        · cases h
        · cases h
      · cases h
      · cases h
  obtain ⟨l, rfl⟩ := this
  have := key l h
  simp only [vsize]; omega

theorem parseBool_size (bs : Bytes) (v : Val) (h : parseBool bs = .ok v) : vsize v ≤ 1 := by
  unfold parseBool at h
  split at h
  · split_ifs at h <;> · cases h; simp [vsize]
  · cases h

theorem resInt_size {r : Res Int} {v : Val} {n : Nat} (hr : ∀ i, r = .ok i → intLen i ≤ n) (h : resInt r = .ok v) :
    vsize v ≤ 1 + n := by
  unfold resInt at h
  split at h
  · rename_i i
    cases h
    have := hr i rfl
    simp only [vsize]; omega
  · cases h
  · cases h

/-- every non-recursive arm: either `1 + |content| + |full|` (RawValue keeps both) or `2 + 2·|content|` -/
theorem parsePrim_size (perm : Bool) (s : Schema) (utag : Nat) (t : TL) (inner full : Bytes) (v : Val)
    (h : parsePrim perm s utag t inner full = .ok v) :
    vsize v ≤ 1 + inner.length + full.length ∨ vsize v ≤ 2 + 2 * inner.length := by
  unfold parsePrim at h
  split at h
  · cases h; left; simp [vsize]
  · right; have := parseOID_size _ _ h; omega
  · right; have := parseBitString_size _ _ h; omega
  · right; have := resInt_size (fun i hi => parseInt32_size perm inner i hi) h; omega
  · cases h; right; simp only [vsize]; omega
  · right; have := resInt_size (fun i hi => parseBigInt_size perm inner i hi) h; omega
  · right; have := parseBool_size _ _ h; omega
  · right; have := resInt_size (fun i hi => parseInt32_size perm inner i hi) h; omega
  · right; have := resInt_size (fun i hi => parseInt64_size perm inner i hi) h; omega
  · cases h; right; simp [vsize]; omega
  · right; have := parseString_size _ _ _ _ h; omega
  · cases h

theorem dfltOrErr_size (s : Schema) (p : Params) (bs : Bytes) (v : Val) (r : Bytes)
    (h : dfltOrErr s p bs = .ok (v, r)) : vsize v ≤ vsize (zeroVal s) + dflt p := by
  unfold dfltOrErr at h
  unfold dflt
  repeat' split at h
  all_goals first
    | (cases h; done)
    | (cases h; simp_all)

theorem parsePre_flag_isFlag (perm : Bool) (s : Schema) (p : Params) (bs r : Bytes)
    (h : parsePre perm s p bs = .flag r) : isFlag s = true := by
  unfold parsePre at h
  split at h
  · cases h
  · cases h
  · split at h
    · cases h
    · cases h
    · rename_i t0 r0 _ r' he
      unfold explicitStage at he
      split_ifs at he
      all_goals first
        | (cases he; done)
        | assumption
        | (split at he <;> cases he)
    · unfold matchStage at h
      split at h
      · cases h
      · simp only at h
        split_ifs at h

theorem takeFull_len (bs rest : Bytes) : (takeFull bs rest).length ≤ bs.length - rest.length := by
  unfold takeFull
  simp only [List.length_take]; omega

/-- a leaf type: `vsize v ≤ |zero value| + |default| + 2 · consumed` -/
theorem primField_size (perm : Bool) (s : Schema) (p : Params) (bs : Bytes) (v : Val) (r : Bytes)
    (h : primField perm s p bs = .ok (v, r)) :
    vsize v ≤ vsize (zeroVal s) + dflt p + 2 * (bs.length - r.length) := by
  unfold primField at h
  split_ifs at h
  · have := dfltOrErr_size _ _ _ _ _ h; omega
  · split at h
    · cases h
    · have := dfltOrErr_size _ _ _ _ _ h; omega
    · rename_i r' hp
      have := (parsePre_flag perm s p bs r' hp).2
      simp only [Res.ok.injEq, Prod.mk.injEq] at h
      obtain ⟨h1, h2⟩ := h
      subst h1 h2
      simp only [vsize]; omega
    · rename_i t utag inner rest hp
      have hg := (parsePre_go perm s p bs t utag inner rest hp).2.2.1.2
      split at h
      · rename_i v' hv
        simp only [Res.ok.injEq, Prod.mk.injEq] at h
        obtain ⟨h1, h2⟩ := h
        subst h1 h2
        have hf := takeFull_len bs rest
        rcases parsePrim_size perm s utag t inner _ _ hv with h3 | h3 <;> omega
      · cases h
      · cases h

/-! ### the element loop and the engine -/

theorem parseElems_size (pf : Bytes → Res (Val × Bytes)) (a b : Nat)
    (hpf : ∀ bs v r, pf bs = .ok (v, r) → r.length ≤ bs.length ∧ vsize v ≤ a + b * (bs.length - r.length)) :
    ∀ (n : Nat) (bs : Bytes) (vs : Val), parseElems pf n bs = .ok vs → vsize vs ≤ 1 + n * (1 + a) + b * bs.length
  | 0, _, vs, h => by
    simp only [parseElems, Res.ok.injEq] at h
    subst h
    simp [vsize]
  | n + 1, bs, vs, h => by
    rw [parseElems] at h
    split at h
    · rename_i v r hv
      split at h
      · rename_i vs' hvs
        cases h
        obtain ⟨hl, hs⟩ := hpf bs v r hv
        have ih := parseElems_size pf a b hpf n r vs' hvs
        have e1 : b * bs.length = b * (bs.length - r.length) + b * r.length := by
          rw [← Nat.mul_add]; congr 1; omega
        have e2 : (n + 1) * (1 + a) = n * (1 + a) + (1 + a) := Nat.succ_mul _ _
        simp only [vsize]
        omega
      · cases h
      · cases h
    · cases h
    · cases h

theorem suffix_len {r bs : Bytes} (h : r <:+ bs) : r.length ≤ bs.length := List.IsSuffix.length_le h

theorem engine_size (perm : Bool) (s : Schema) :
    (∀ p bs v r, parseField perm s p bs = .ok (v, r) → vsize v ≤ aC s + dflt p + bC s * (bs.length - r.length)) ∧
    (∀ bs v r, parseFields perm s bs = .ok (v, r) → vsize v ≤ aC s + bC s * (bs.length - r.length)) := by
  induction s with
  | struct fs ih =>
    refine ⟨fun p bs v r h => ?_, fun bs v r h => by simp [parseFields] at h⟩
    simp only [parseField] at h
    simp only [aC, bC]
    split_ifs at h
    · have := dfltOrErr_size _ _ _ _ _ h; simp only [zeroVal] at this; omega
    · split at h
      · cases h
      · have := dfltOrErr_size _ _ _ _ _ h; simp only [zeroVal] at this; omega
      · rename_i r' hp
        have := parsePre_flag_isFlag perm _ p bs r' hp
        simp [isFlag] at this
      · rename_i t utag inner rest hp
        have hg := (parsePre_go perm _ p bs t utag inner rest hp).2.2.1.2
        split at h
        · rename_i vs r2 hvs
          simp only [Res.ok.injEq, Prod.mk.injEq] at h
          obtain ⟨h1, h2⟩ := h
          rw [← h1, ← h2]
          have h3 := ih.2 inner vs r2 hvs
          have h4 : bC fs * (inner.length - r2.length) ≤ bC fs * (bs.length - rest.length) :=
            Nat.mul_le_mul_left _ (by omega)
          omega
        · cases h
        · cases h
  | seqOf sn e ih =>
    refine ⟨fun p bs v r h => ?_, fun bs v r h => by simp [parseFields] at h⟩
    simp only [parseField] at h
    simp only [aC, bC]
    split_ifs at h
    · have := dfltOrErr_size _ _ _ _ _ h; simp only [zeroVal, vsize] at this; omega
    · split at h
      · cases h
      · have := dfltOrErr_size _ _ _ _ _ h; simp only [zeroVal, vsize] at this; omega
      · rename_i r' hp
        have := parsePre_flag_isFlag perm _ p bs r' hp
        simp [isFlag] at this
      · rename_i t utag inner rest hp
        have hg := (parsePre_go perm _ p bs t utag inner rest hp).2.2.1.2
        split at h
        · cases h
        · rename_i ma et ec _
          split at h
          · cases h
          · cases h
          · rename_i n hn
            have hcount := countElems_bound perm ma et ec _ inner n hn
            split at h
            · rename_i vs hvs
              simp only [Res.ok.injEq, Prod.mk.injEq] at h
              obtain ⟨h1, h2⟩ := h
              rw [← h1, ← h2]
              have hs := parseElems_size (fun b => parseField perm e {} b) (aC e) (bC e)
                (fun b v' r' hb => ⟨suffix_len ((engine_consumed perm e).1 {} b v' r' hb).suffix, by
                  have := ih.1 {} b v' r' hb
                  simpa [dflt] using this⟩) n inner vs hvs
              have h5 : n * (1 + aC e) ≤ inner.length * (1 + aC e) := Nat.mul_le_mul_right _ (by omega)
              have h6 : (1 + aC e + bC e) * inner.length ≤ (1 + aC e + bC e) * (bs.length - rest.length) :=
                Nat.mul_le_mul_left _ (by omega)
              have h7 : (1 + aC e + bC e) * inner.length = inner.length * (1 + aC e) + bC e * inner.length := by
                rw [Nat.add_mul, Nat.mul_comm]
              omega
            · cases h
            · cases h
  | fnil =>
    refine ⟨fun p bs v r h => by simp [parseField] at h, fun bs v r h => ?_⟩
    simp only [parseFields, Res.ok.injEq, Prod.mk.injEq] at h
    rw [← h.1]; simp [vsize, aC]
  | fcons p s rest ihs ihr =>
    refine ⟨fun p bs v r h => by simp [parseField] at h, fun bs v r h => ?_⟩
    simp only [parseFields] at h
    simp only [aC, bC]
    split at h
    · rename_i v1 r1 h1
      split at h
      · rename_i vs r2 h2
        simp only [Res.ok.injEq, Prod.mk.injEq] at h
        obtain ⟨e1, e2⟩ := h
        rw [← e1, ← e2]
        have l1 := suffix_len ((engine_consumed perm s).1 p bs v1 r1 h1).suffix
        have l2 := suffix_len ((engine_consumed perm rest).2 r1 vs r2 h2)
        have s1 := ihs.1 p bs v1 r1 h1
        have s2 := ihr.2 r1 vs r2 h2
        have m1 : bC s * (bs.length - r1.length) ≤ max (bC s) (bC rest) * (bs.length - r1.length) :=
          Nat.mul_le_mul_right _ (Nat.le_max_left _ _)
        have m2 : bC rest * (r1.length - r2.length) ≤ max (bC s) (bC rest) * (r1.length - r2.length) :=
          Nat.mul_le_mul_right _ (Nat.le_max_right _ _)
        have m3 : max (bC s) (bC rest) * (bs.length - r2.length) =
            max (bC s) (bC rest) * (bs.length - r1.length) + max (bC s) (bC rest) * (r1.length - r2.length) := by
          rw [← Nat.mul_add]; congr 1; omega
        simp only [vsize]
        omega
      · cases h
      · cases h
    · cases h
    · cases h
  | _ =>
    refine ⟨fun p bs v r h => ?_, fun bs v r h => by simp [parseFields] at h⟩
    simp only [parseField] at h
    have := primField_size _ _ _ _ _ _ h
    simpa only [aC, bC] using this

end ZV.C01Asn1
