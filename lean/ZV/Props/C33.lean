import ZV.Model.C33
import ZV.Model.C33Struct
import ZV.Proofs.C33
import ZV.Proofs.C33Struct
/-!
  C33 — JSON encodings of zcrypto value types round-trip.

  For every value `v` of an enumerated type, `decode (encode v) = ok v`, where
  `encode` / `decode` are the branch-for-branch models (`ZV.Model.C33`) of the
  type's `MarshalJSON` / `UnmarshalJSON` over the name tables dumped from the
  tree (`ZV.Generated.C33`), and a JSON object is the record of members the code
  writes / reads (`encoding/json` is trusted).  `Res.panic` is a constructor, so
  `= .ok v` also says that neither step panics.

  "Equal value" and the DOMAIN per type:
  * TLSVersion, CipherSuiteID, CurveID, json.TLSCurveID: every uint16; CompressionMethod,
    PointFormat: every uint8; SignatureAndHash: every pair of uint8 — exact equality.
  * KeyUsage (a Go `int` written as `uint32`): 0 ≤ k < 2^32 (the nine defined bits are 0..511).
  * ClientAuthType, PublicKeyAlgorithm, SignatureAlgorithm (Go `int`s): the declared constants,
    i.e. the keys of the stringer table / `0 ≤ p < total_key_algorithms` / `0 ≤ a < len(algoName)`.
    Other integers (which no constructor of the library produces) are outside the domain:
    they encode as `ClientAuthType(N)` / `unknown_algorithm` / the decimal number and do not decode back.
  * structured types: byte strings exact (up to nil-vs-empty where the member is `omitempty` or the decoder
    always allocates: `emptyAsNil` / `nilAsEmpty`); big integers numeric, a nil REQUIRED big integer (DH
    prime/generator, point X) is identified with 0, a nil RSA key with the key (0, 0) and a nil RSA modulus / exponent with 0 (after `fix:` dd0a2ef), a nil OPTIONAL one with an
    absent member; OIDs with ≥ 1 arc, arcs any Go `int` (AuxOID: ≥ 0); `Curve` of ECDHParams is not encoded.
    MODELLED (ZV.Model.C33Struct, theorems at the end of this file): AuxOID, CertificateFingerprint, SHA256Hash,
    DigitallySigned, AttributeTypeAndValue, OtherName, Extension, RSAPublicKey, RSAClientParams, ECDHParams,
    KeyShareExtension.  Checked on the real code only (T3): GeneralNames, NameConstraints, GeneralSubtreeIP
    (IP addresses by `IP.Equal`, masks bytewise; `Min`/`Max` are not encoded), pkix.Name (field-wise on every
    attribute the encoder emits, non-empty valid UTF-8 values).
-/
namespace ZV.C33
open ZV.C33.Gen

/-! ### types decoded BY VALUE: universal over the whole value range -/

/-- TLSVersion: every 16-bit version survives; the name check in the decoder uses the same `String()`. -/
theorem tlsVersion_roundtrip (v : Nat) (h : v < 65536) :
    tlsVersionDecode (tlsVersionEncode v) = .ok v := by
  have hv := toUint16_ofNat v h
  have hr : inRange int64Min int64Max (Int.ofNat v) = true := by
    rw [inRange_iff]; simp only [int64Min, int64Max, Int.ofNat_eq_natCast]; omega
  simp only [tlsVersionDecode, tlsVersionEncode, hv, hr]
  simp

/-- the TLSVersion decoder accepts exactly the (truncated) value whose name is the one given. -/
theorem tlsVersion_decode_ok (j : NameValue) (v : Nat) (h : tlsVersionDecode j = .ok v) :
    v = toUint16 j.value ∧ j.name = tlsVersionString v := by
  unfold tlsVersionDecode at h
  split at h
  · cases h
  · dsimp only at h
    split at h
    · cases h
    · rename_i hn
      injection h with h
      subst h
      exact ⟨rfl, by have := (by simpa using hn : tlsVersionString (toUint16 j.value) = j.name); exact this.symm⟩

theorem cipherSuite_roundtrip (v : Nat) (h : v < 65536) :
    cipherSuiteDecode (cipherSuiteEncode v) = .ok v := by
  have hr : inRange 0 65535 (v : Int) = true := by
    rw [inRange_iff]; omega
  simp [cipherSuiteDecode, cipherSuiteEncode, nameForSuite, hr]

theorem compression_roundtrip (v : Nat) (h : v < 256) :
    compressionDecode (compressionEncode v) = .ok v := by
  have hr : inRange 0 255 (v : Int) = true := by
    rw [inRange_iff]; omega
  simp [compressionDecode, compressionEncode, nameForCompressionMethod, hr]

theorem curve_roundtrip (v : Nat) (h : v < 65536) :
    curveDecode (curveEncode v) = .ok v := by
  have hr : inRange 0 65535 (v : Int) = true := by
    rw [inRange_iff]; omega
  simp [curveDecode, curveEncode, nameForCurve, hr]

theorem pointFormat_roundtrip (v : Nat) (h : v < 256) :
    pointFormatDecode (pointFormatEncode v) = .ok v := by
  have hr : inRange 0 255 (v : Int) = true := by
    rw [inRange_iff]; omega
  simp [pointFormatDecode, pointFormatEncode, nameForPointFormat, hr]

/-- the name/value decoders accept ONLY a value in range together with its own name
    (so a drifted name table on the producing side is detected, not silently accepted). -/
theorem cipherSuite_decode_ok (j : NameValue) (v : Nat) (h : cipherSuiteDecode j = .ok v) :
    j.value = Int.ofNat v ∧ v < 65536 ∧ j.name = cipherSuiteString v := by
  unfold cipherSuiteDecode at h
  split at h
  · cases h
  · rename_i hr
    dsimp only at h
    split at h
    · cases h
    · rename_i hn
      injection h with h
      subst h
      have hr' : inRange 0 65535 j.value = true := by simpa using hr
      rw [inRange_iff] at hr'
      refine ⟨by simp only [Int.ofNat_eq_natCast]; omega, by omega, by have := (by simpa [nameForSuite] using hn : cipherSuiteString j.value.toNat = j.name); exact this.symm⟩

theorem curve_decode_ok (j : NameValue) (v : Nat) (h : curveDecode j = .ok v) :
    j.value = Int.ofNat v ∧ v < 65536 ∧ j.name = curveString v := by
  unfold curveDecode at h
  split at h
  · cases h
  · rename_i hr
    dsimp only at h
    split at h
    · cases h
    · rename_i hn
      injection h with h
      subst h
      have hr' : inRange 0 65535 j.value = true := by simpa using hr
      rw [inRange_iff] at hr'
      refine ⟨by simp only [Int.ofNat_eq_natCast]; omega, by omega, by have := (by simpa [nameForCurve] using hn : curveString j.value.toNat = j.name); exact this.symm⟩

/-- KeyUsage: the value member carries the whole usage; every usage that fits 32 bits survives. -/
theorem keyUsage_roundtrip (k : Int) (h0 : 0 ≤ k) (h1 : k < 4294967296) :
    keyUsageDecode (keyUsageEncode k) = .ok k := by
  have hk : k % 4294967296 = k := by omega
  have hr : inRange 0 4294967295 k = true := by
    rw [inRange_iff]; omega
  simp [keyUsageDecode, keyUsageEncode, hk, hr]

example : keyUsageDecode (keyUsageEncode 511) = .ok 511 := keyUsage_roundtrip 511 (by decide) (by decide)

/-- json.TLSCurveID: decoded by id, the name is informational. -/
theorem tlsCurveID_roundtrip (c : Nat) (h : c < 65536) :
    tlsCurveIDDecode (tlsCurveIDEncode c) = .ok c := by
  have hr : inRange 0 65535 (c : Int) = true := by
    rw [inRange_iff]; omega
  simp [tlsCurveIDDecode, tlsCurveIDEncode, hr]

/-! ### tls.SignatureAndHash: decoded BY NAME — finite-table proofs over the WHOLE 8-bit range -/

/-- T1: no two signature codes share a name (otherwise `signatureToName`, which ranges over a Go map in
    random order, would not even be deterministic). -/
theorem signature_names_injective : (names signatureNames).Nodup := by decide
theorem hash_names_injective : (names hashNames).Nodup := by decide

/-- T1: no table name can be mistaken for the `unknown.N` fallback of another code, nor for a bare number. -/
theorem signature_names_not_fallback :
    ∀ n ∈ names signatureNames, unknownDot.isPrefixOf n = false ∧ parseDigits n = none := by decide
theorem hash_names_not_fallback :
    ∀ n ∈ names hashNames, unknownDot.isPrefixOf n = false ∧ parseDigits n = none := by decide

/-- every signature code 0..255, named or not, is recovered from its name. -/
theorem signature_name_roundtrip : ∀ s : Fin 256, signatureToName (nameForSignature s.val) = s.val := by
  decide +kernel
theorem hash_name_roundtrip : ∀ h : Fin 256, hashToName (nameForHash h.val) = h.val := by
  decide +kernel

/-- **SignatureAndHash round trip**, all 65536 pairs. -/
theorem sigHash_roundtrip (s h : Nat) (hs : s < 256) (hh : h < 256) :
    sigHashDecode (sigHashEncode s h) = .ok (s, h) := by
  have h1 := signature_name_roundtrip ⟨s, hs⟩
  have h2 := hash_name_roundtrip ⟨h, hh⟩
  simp only at h1 h2
  simp [sigHashDecode, sigHashEncode, h1, h2]

/-! ### tls.ClientAuthType: a JSON string, decoded BY NAME (after `fix:` D16) -/

/-- T1: the stringer-generated `String()` (used by the encoder) and `clientAuthTypeNames`
    (used by the decoder) are the same table. -/
theorem clientAuth_tables_agree : clientAuthStringer = clientAuthTypeNames := by decide

theorem clientAuth_names_injective : (names clientAuthTypeNames).Nodup := by decide

/-- T1: the domain — the declared constants NoClientCert … RequireAndVerifyClientCert. -/
theorem clientAuth_domain : keys clientAuthStringer = [0, 1, 2, 3, 4] := by decide

/-- **ClientAuthType round trip** on every declared constant. -/
theorem clientAuth_roundtrip :
    ∀ k ∈ keys clientAuthStringer, clientAuthDecode (clientAuthEncode (Int.ofNat k)) = .ok (Int.ofNat k) := by
  decide +kernel

/-- the decoder never panics (it used to, on every input) and accepts table names only. -/
theorem clientAuth_decode_total (s : Str) :
    clientAuthDecode s = .err ∨ ∃ k ∈ keys clientAuthTypeNames, clientAuthDecode s = .ok (Int.ofNat k) := by
  unfold clientAuthDecode
  cases h : rlookup clientAuthTypeNames s with
  | none => exact Or.inl rfl
  | some k => exact Or.inr ⟨k, rlookup_mem_keys _ _ _ h, rfl⟩

/-! ### x509.PublicKeyAlgorithm: decoded BY NAME (after `fix:` D9) -/

theorem publicKeyAlgorithm_names_injective : keyAlgorithmNames.Nodup := by decide

/-- `String()` cannot index out of range: `keyAlgorithmNames` has an entry for every p < total_key_algorithms. -/
theorem publicKeyAlgorithm_table_complete : 0 < totalKeyAlgorithms ∧ totalKeyAlgorithms ≤ keyAlgorithmNames.length := by decide

/-- encoding never panics, for ANY Go int. -/
theorem publicKeyAlgorithm_encode_no_panic (p : Int) : publicKeyAlgorithmEncode p ≠ .panic := by
  have hc := publicKeyAlgorithm_table_complete
  unfold publicKeyAlgorithmEncode publicKeyAlgorithmString
  dsimp only
  split
  · simp
  · rename_i hnone
    exfalso
    rw [List.getElem?_eq_none_iff] at hnone
    split at hnone
    · omega
    · rename_i hcond
      simp only [Int.ofNat_eq_natCast] at hcond
      omega

/-- **PublicKeyAlgorithm round trip** on every declared constant (0 = unknown … X25519). -/
theorem publicKeyAlgorithm_roundtrip :
    ∀ p ∈ List.range totalKeyAlgorithms,
      (publicKeyAlgorithmEncode (Int.ofNat p)).bind publicKeyAlgorithmDecode = .ok (Int.ofNat p) := by
  decide +kernel

/-! ### x509.SignatureAlgorithm: decoded by OID, then by name for RSA-PSS -/

/-- T1: the RSA-PSS variants — which share one OID — have distinct names. -/
theorem signatureAlgorithm_pss_names_distinct :
    (pssAlgs.map (fun a => signatureAlgorithmString (Int.ofNat a))).Nodup := by decide +kernel

/-- T1: apart from RSA-PSS, an OID identifies one algorithm (rows with the same OID have the same algo). -/
theorem signatureAlgorithm_oid_functional :
    ∀ r1 ∈ signatureAlgorithmDetails, ∀ r2 ∈ signatureAlgorithmDetails,
      r1.2 = r2.2 → r1.2 = oidSignatureRSAPSS ∨ r1.1 = r2.1 := by decide +kernel

/-- T1: every declared algorithm except "unknown" has a row, i.e. an OID to be written. -/
theorem signatureAlgorithm_all_have_oid :
    ∀ a ∈ List.range algoName.length, a = 0 ∨ a ∈ signatureAlgorithmDetails.map (·.1) := by decide +kernel

-- FULL: ∀ a ∈ List.range algoName.length, signatureAlgorithmDecode (signatureAlgorithmEncode (Int.ofNat a)) = .ok (Int.ofNat a)
-- fails at a = 0 only (finding D24, see `signatureAlgorithm_unknown_rejected`): the fix (accept "" in
-- AuxOID.UnmarshalJSON) contradicts the existing test TestSignatureAlgorithmJSON, so the code is left as it is.
/-- **SignatureAlgorithm round trip** on every declared constant except 0 (MD2WithRSA … Ed25519Sig), through the
    dotted-decimal OID string and `AuxOID.UnmarshalJSON`. -/
theorem signatureAlgorithm_roundtrip_partial :
    ∀ a ∈ List.range algoName.length, a ≠ 0 →
      signatureAlgorithmDecode (signatureAlgorithmEncode (Int.ofNat a)) = .ok (Int.ofNat a) := by
  decide +kernel

example : (16 : Nat) ∈ List.range algoName.length ∧ (16 : Nat) ≠ 0 := by decide

/-- finding D24, as the code is: UnknownSignatureAlgorithm (0) is written with the empty OID `""`, which
    `AuxOID.UnmarshalJSON` rejects — the encoder's own output is refused. -/
theorem signatureAlgorithm_unknown_rejected :
    signatureAlgorithmDecode (signatureAlgorithmEncode 0) = .err := by decide +kernel

/-! ### key parameters and points (json/dhe.go, json/ecdhe.go) on the abstract JSON tree -/

/-- **param_roundtrip**: a big integer survives `Bytes()` → (base64, trusted) → `SetBytes()`; a nil one reads back as 0. -/
theorem param_roundtrip (p : Option Nat) : cryptoParamDecode (cryptoParamEncode p) = nilAsZero p := by
  cases p with
  | none => rfl
  | some n => simp [cryptoParamEncode, cryptoParamDecode, nilAsZero, bytesNat_natBytes]

/-- **ECPoint round trip** (after `fix:` D10): with or WITHOUT a Y coordinate, no panic; a nil X reads back as 0. -/
theorem ecPoint_roundtrip (x y : Option Nat) :
    ecPointDecode (ecPointEncode x y) = .ok (some (nilAsZero x), y) := by
  cases y with
  | none => simp [ecPointDecode, ecPointEncode, param_roundtrip]
  | some n =>
    have := param_roundtrip (some n)
    simp only [nilAsZero] at this
    simp [ecPointDecode, ecPointEncode, param_roundtrip, this]

/-- the point decoder is total: no member combination (absent x, absent y, null values) makes it panic. -/
theorem ecPoint_decode_no_panic (j : PointJSON) : ecPointDecode j ≠ .panic := by
  simp [ecPointDecode]

/-- **DHParams round trip**: required members (prime, generator) read back numerically (nil as 0),
    optional members exactly, omitted ones stay nil. -/
theorem dh_roundtrip (req opt : List (Option Nat)) :
    dhDecode (dhEncode req opt) = req.map (fun p => some (nilAsZero p)) ++ opt := by
  simp only [dhDecode, dhEncode, List.map_append, List.map_map]
  congr 1
  · apply List.map_congr_left
    intro p _
    simp [param_roundtrip]
  · conv => rhs; rw [← List.map_id opt]
    apply List.map_congr_left
    intro p _
    cases p with
    | none => rfl
    | some n =>
      have := param_roundtrip (some n)
      simp only [nilAsZero] at this
      simp [this]

/-! ## structured types (ZV.Model.C33Struct): strings through the modelled `strconv` / `encoding/hex` /
    `encoding/base64` functions, objects as records of optional members

  Normal forms ("equal value"): a `[]byte` written with `omitempty` reads back nil when it was empty
  (`emptyAsNil`); a nil fingerprint / signature reads back as the empty non-nil slice (`nilAsEmpty`);
  a nil `*rsa.PublicKey` reads back as the key (0, 0), a nil modulus / exponent as 0; a nil point X as 0 (`nilAsZero`, as before);
  a nil OID in an AttributeTypeAndValue is the same as the empty one. OID arcs are Go `int`s (`int64`). -/

/-! ### the standard-library functions the encoders and decoders go through -/

/-- `strconv.Atoi (strconv.Itoa i) = i` for every Go `int`. -/
theorem atoi_itoa_roundtrip (i : Int) (h : int64 i) : atoi (intToDec i) = some i :=
  atoi_intToDec i h.1 h.2

example : int64 (-9223372036854775808) ∧ int64 9223372036854775807 := by
  constructor <;> (unfold int64; omega)

/-- `hex.DecodeString (hex.EncodeToString b) = b` for every byte string. -/
theorem hex_roundtrip (b : Bytes) : hexDecode (hexEncode b) = some b := hexDecode_hexEncode b

/-- `base64.StdEncoding.DecodeString (EncodeToString b) = b` for every byte string (all three padding cases). -/
theorem base64_roundtrip (b : Bytes) : b64Decode (b64Encode b) = some b := b64Decode_b64Encode b

/-- `strings.Split (oid.String(), ".")` gives the arcs back (an OID with at least one arc). -/
theorem oid_split_join (o : List Int) (hne : o ≠ []) : splitDot (oidStringI o) = o.map intToDec :=
  splitDot_oidStringI o hne

example : ([1, 2, 840] : List Int) ≠ [] := by decide

theorem emptyAsNil_idem (b : Option Bytes) : emptyAsNil (emptyAsNil b) = emptyAsNil b := by
  rcases b with _ | _ | _ <;> rfl

theorem nilAsEmpty_idem (b : Option Bytes) : nilAsEmpty (some (nilAsEmpty b)) = nilAsEmpty b := rfl

/-- what an `omitempty` `[]byte` member reads back as. -/
theorem memBytes_omitBytes (b : Option Bytes) : memBytes (omitBytes b) = .ok (emptyAsNil b) := by
  rcases b with _ | _ | ⟨x, r⟩
  · rfl
  · rfl
  · simp [omitBytes, memBytes, emptyAsNil, b64Decode_b64Encode]

theorem memStr_omitStr (s : Str) : memStr (omitStr s) = .ok s := by
  cases s <;> rfl

/-- an `omitempty` `int` member reads back exactly (0 is left out and 0 is the zero value). -/
theorem memInt_omitInt (i : Int) (h : int64 i) : memInt int64Min int64Max (omitInt i) = .ok i := by
  unfold omitInt
  split
  · rename_i h0; subst h0; rfl
  · exact memInt_num_intToDec i h

example : int64 (-5) := by unfold int64; omega

/-! ### pkix.AuxOID -/

/-- **AuxOID round trip**: every OID with at least one arc, arcs any non-negative Go `int`. -/
theorem auxOID_roundtrip (o : List Nat) (hne : o ≠ []) (h : ∀ a ∈ o, a < 9223372036854775808) :
    auxOIDUnmarshal (.str (auxOIDMarshal (o.map Int.ofNat))) = .ok o := by
  have hs : splitDot (oidString o) = o.map natToDec := by
    have := splitDot_oidStringI (o.map Int.ofNat) (by simpa using hne)
    rw [oidStringI_ofNat, List.map_map] at this
    rw [this]
    apply List.map_congr_left
    intro a _
    exact intToDec_ofNat a
  simp [auxOIDUnmarshal, auxOIDMarshal, memStr, auxOIDDecode, oidStringI_ofNat, hs, atoiNonNeg_map o h]

example : ([2, 5, 29, 17] : List Nat) ≠ [] ∧ ∀ a ∈ ([2, 5, 29, 17] : List Nat), a < 9223372036854775808 := by decide

/-- outside the domain, as the code is: the EMPTY OID is written `""` and refused (finding D24), and a
    negative arc is written but refused. -/
example : auxOIDUnmarshal (.str (auxOIDMarshal [])) = .err := by decide
example : auxOIDUnmarshal (.str (auxOIDMarshal [1, -2])) = .err := by decide +kernel

theorem auxOID_unmarshal_no_panic (j : JV) : auxOIDUnmarshal j ≠ .panic := by
  unfold auxOIDUnmarshal
  cases j <;> simp only [memStr] <;> (try split) <;> simp

/-! ### x509.CertificateFingerprint -/

/-- **CertificateFingerprint round trip**: every byte string; a nil fingerprint reads back empty. -/
theorem fingerprint_roundtrip (f : Option Bytes) :
    fingerprintUnmarshal (.str (fingerprintMarshal f)) = .ok (nilAsEmpty f) := by
  simp [fingerprintUnmarshal, fingerprintMarshal, memStr, hexDecode_hexEncode]

theorem fingerprint_unmarshal_no_panic (j : JV) : fingerprintUnmarshal j ≠ .panic := by
  unfold fingerprintUnmarshal
  cases j <;> simp only [memStr] <;> (try split) <;> simp

/-! ### ct.SHA256Hash, ct.DigitallySigned -/

/-- **SHA256Hash round trip**: every 32-byte array. -/
theorem sha256Hash_roundtrip (h : Bytes) (hl : h.length = 32) :
    sha256HashUnmarshal (.str (sha256HashMarshal h)) = .ok h := by
  simp [sha256HashUnmarshal, sha256HashMarshal, memStr, b64Decode_b64Encode, hl]

example : (List.replicate 32 (7 : UInt8)).length = 32 := by decide

/-- the decoder accepts 32-byte values only. -/
theorem sha256Hash_unmarshal_ok (j : JV) (b : Bytes) (h : sha256HashUnmarshal j = .ok b) : b.length = 32 := by
  unfold sha256HashUnmarshal at h
  split at h
  · split at h
    · cases h
    · split at h
      · cases h
      · rename_i hl; injection h with h; subst h; simpa using hl
  · cases h
  · cases h

/-- **DigitallySigned round trip**: both algorithm bytes and every signature of up to 65535 bytes
    (a nil signature reads back empty); neither step fails. -/
theorem digitallySigned_roundtrip (h s : UInt8) (sig : Option Bytes) (hl : (nilAsEmpty sig).length ≤ 65535) :
    (dsMarshal h s sig).bind (fun t => dsUnmarshal (.str t)) = .ok (h, s, nilAsEmpty sig) := by
  have hn : ¬ ((nilAsEmpty sig).length > 65535) := by omega
  have e1 : (UInt8.ofNat ((nilAsEmpty sig).length / 256)).toNat = (nilAsEmpty sig).length / 256 := by
    simp; omega
  have e2 : (UInt8.ofNat ((nilAsEmpty sig).length % 256)).toNat = (nilAsEmpty sig).length % 256 := by
    simp
  have e3 : (nilAsEmpty sig).length / 256 * 256 + (nilAsEmpty sig).length % 256 = (nilAsEmpty sig).length := by omega
  simp only [dsMarshal, hn, if_false, Res.bind, dsUnmarshal, memStr, b64Decode_b64Encode, dsParse, e1, e2, e3]
  simp

example : (nilAsEmpty (some [1, 2, 3])).length ≤ 65535 := by decide

/-- a longer signature is an ERROR of the encoder, not a panic and not a truncated length. -/
theorem digitallySigned_too_long (h s : UInt8) (sig : Option Bytes) (hl : (nilAsEmpty sig).length > 65535) :
    dsMarshal h s sig = .err := by
  simp [dsMarshal, hl]

example : (nilAsEmpty (some (List.replicate 65536 (0 : UInt8)))).length > 65535 := by
  simp only [nilAsEmpty, List.length_replicate]; omega

theorem digitallySigned_unmarshal_no_panic (j : JV) : dsUnmarshal j ≠ .panic := by
  unfold dsUnmarshal
  cases j <;> simp only [memStr] <;> (try split) <;> (try simp) <;>
    (unfold dsParse; split <;> (try split) <;> simp)

/-! ### pkix.AttributeTypeAndValue, pkix.OtherName, pkix.Extension -/

/-- **AttributeTypeAndValue round trip**: every OID (also the nil one, also negative arcs) and every string
    value (also the empty one, which is left out). -/
theorem atv_roundtrip (t : List Int) (v : Str) (h : ∀ a ∈ t, int64 a) :
    atvUnmarshal (atvMarshal t v) = .ok (t, v) := by
  simp only [atvUnmarshal, atvMarshal, memStr_omitStr]
  cases ht : oidStringI t with
  | nil =>
    cases t with
    | nil => rfl
    | cons a r => exact absurd ht (oidStringI_ne_nil _ (by simp))
  | cons c r =>
    have hne : t ≠ [] := by
      intro e; subst e; simp [oidStringI, joinDot] at ht
    simp only
    rw [← ht, splitDot_oidStringI t hne, atoiAll_map t h]

example : ∀ a ∈ ([2, 5, 4, 3] : List Int), int64 a := by unfold int64; decide

/-- **OtherName round trip**: every non-empty type id; the value up to nil-vs-empty. -/
theorem otherName_roundtrip (t : List Int) (v : Option Bytes) (hne : t ≠ []) (h : ∀ a ∈ t, int64 a) :
    otherNameUnmarshal (otherNameMarshal t v) = .ok (t, emptyAsNil v) := by
  simp only [otherNameUnmarshal, otherNameMarshal, memStr_omitStr, memBytes_omitBytes]
  cases ht : oidStringI t with
  | nil => exact absurd ht (oidStringI_ne_nil _ hne)
  | cons c r =>
    simp only
    rw [← ht, splitDot_oidStringI t hne, atoiAll_map t h]

example : ([1, 3, 6, 1] : List Int) ≠ [] ∧ ∀ a ∈ ([1, 3, 6, 1] : List Int), int64 a := by unfold int64; decide

/-- outside the domain, as the code is: an OtherName without a type id is written `{}` and refused. -/
example : otherNameUnmarshal (otherNameMarshal [] (some [1])) = .err := by decide

/-- **Extension round trip**: every non-empty id, both criticality values; the value up to nil-vs-empty. -/
theorem extension_roundtrip (t : List Int) (c : Bool) (v : Option Bytes) (hne : t ≠ []) (h : ∀ a ∈ t, int64 a) :
    extUnmarshal (extMarshal t c v) = .ok (t, c, emptyAsNil v) := by
  simp only [extUnmarshal, extMarshal, memStr_omitStr, memBytes_omitBytes, memBool]
  rw [splitDot_oidStringI t hne, atoiAll_map t h]

example : extUnmarshal (extMarshal [] true none) = .err := by decide

theorem atv_unmarshal_no_panic (j : AtvJSON) : atvUnmarshal j ≠ .panic := by
  unfold atvUnmarshal
  split
  · split
    · simp
    · split <;> simp
  · simp

theorem otherName_unmarshal_no_panic (j : OtherNameJSON) : otherNameUnmarshal j ≠ .panic := by
  unfold otherNameUnmarshal
  split
  · split
    · simp
    · split <;> simp
  · simp

theorem extension_unmarshal_no_panic (j : ExtJSON) : extUnmarshal j ≠ .panic := by
  unfold extUnmarshal
  split
  · split <;> simp
  · simp

/-! ### json.RSAPublicKey, json.RSAClientParams -/

/-- **RSAPublicKey round trip** (after `fix:` dd0a2ef): every modulus ≥ 0 of any size and EVERY exponent
    (negative and larger than 64 bits included: it travels as a JSON number of arbitrary size); a NIL modulus
    and a NIL exponent read back as 0 (normal form `nilAsZero` / `nilAsZeroI`). -/
theorem rsaPublicKey_roundtrip (n : Option Nat) (e : Option Int)
    (hmem : (nilAsEmpty (n.map natBytes)).length < 2 ^ 60) :
    (rsaMarshal (some (n, e))).bind rsaUnmarshal = .ok (nilAsZero n, nilAsZeroI e) := by
  have hl : memInt int64Min int64Max (some (JV.num (intToDec (Int.ofNat ((nilAsEmpty (n.map natBytes)).length * 8))))) =
      .ok (Int.ofNat ((nilAsEmpty (n.map natBytes)).length * 8)) := by
    apply memInt_num_intToDec
    unfold int64
    simp only [Int.ofNat_eq_natCast]
    omega
  have he : bigSetString10 (rsaExponentText e) = some (nilAsZeroI e) := by
    cases e with
    | none => decide
    | some ev => exact bigSetString10_intToDec ev
  have hm : memBytes (some (jBytes (n.map natBytes))) = .ok (n.map natBytes) := by
    cases n with
    | none => rfl
    | some k => simp [jBytes, memBytes, b64Decode_b64Encode]
  have hn : bytesNat (nilAsEmpty (n.map natBytes)) = nilAsZero n := by
    cases n with
    | none => rfl
    | some k => simp [nilAsEmpty, nilAsZero, bytesNat_natBytes]
  simp only [rsaMarshal, Res.bind, rsaUnmarshal, memNumber, hm, hl, he, hn]
  simp

example : (nilAsEmpty ((some 65537 : Option Nat).map natBytes)).length < 2 ^ 60 := by decide
example : (nilAsEmpty ((none : Option Nat).map natBytes)).length < 2 ^ 60 := by decide

/-- the half-filled keys of finding F-C33-rsa-nil-modulus now read back as zero. -/
theorem rsaPublicKey_nil_member_roundtrip :
    (rsaMarshal (some (none, some 65537))).bind rsaUnmarshal = .ok (0, 65537) ∧
    (rsaMarshal (some (some 5, none))).bind rsaUnmarshal = .ok (5, 0) ∧
    (rsaMarshal (some (none, none))).bind rsaUnmarshal = .ok (0, 0) :=
  ⟨rsaPublicKey_roundtrip none (some 65537) (by decide), rsaPublicKey_roundtrip (some 5) none (by decide),
   rsaPublicKey_roundtrip none none (by decide)⟩

/-- a nil key is written as the zero key and reads back as (0, 0). -/
theorem rsaPublicKey_nil_roundtrip : (rsaMarshal none).bind rsaUnmarshal = .ok (0, 0) := by decide

/-- **the encoder neither panics nor fails, for ANY key** — nil key, nil modulus, nil exponent included. -/
theorem rsaPublicKey_marshal_total (key : Option (Option Nat × Option Int)) :
    ∃ j, rsaMarshal key = .ok j := by
  rcases key with _ | ⟨n, e⟩ <;> exact ⟨_, rfl⟩

theorem rsaPublicKey_marshal_no_panic (key : Option (Option Nat × Option Int)) : rsaMarshal key ≠ .panic := by
  obtain ⟨j, h⟩ := rsaPublicKey_marshal_total key
  rw [h]; simp

/-- finding F-C33-rsa-nil-modulus as the code WAS (before `fix:` dd0a2ef): a nil modulus made
    `RSAPublicKey.MarshalJSON` dereference nil, a nil exponent was an encoder error. -/
example : rsaMarshalOld (some (none, some 65537)) = .panic := rfl
example : rsaMarshalOld (some (some 5, none)) = .err := rfl

theorem rsaPublicKey_unmarshal_no_panic (j : RsaJSON) : rsaUnmarshal j ≠ .panic := by
  unfold rsaUnmarshal
  split
  · split
    · simp
    · split <;> simp
  · simp

/-- **RSAClientParams round trip** (struct tags only): every 16-bit length, the secret up to nil-vs-empty. -/
theorem rsaClientParams_roundtrip (len : Nat) (pms : Option Bytes) (h : len < 65536) :
    rsaClientUnmarshal (rsaClientMarshal len pms) = .ok (len, emptyAsNil pms) := by
  have hu : memUint 65535 (omitInt (Int.ofNat len)) = .ok len := by
    unfold omitInt
    split
    · rename_i h0
      have : len = 0 := by simp only [Int.ofNat_eq_natCast] at h0; omega
      subst this; rfl
    · have hle : len ≤ 65535 := by omega
      simp only [memUint, intToDec_ofNat, parseDigits_natToDec, hle, if_true]
  simp only [rsaClientUnmarshal, rsaClientMarshal, hu, memBytes_omitBytes]

example : (22 : Nat) < 65536 := by decide

/-! ### json.ECDHParams -/

theorem optRes_point (o : Option (Option Nat × Option Nat)) :
    optRes ecPointDecode (o.map (fun p => ecPointEncode p.1 p.2)) = .ok (o.map pointNF) := by
  cases o with
  | none => rfl
  | some p => simp [optRes, ecPoint_roundtrip, pointNF]

theorem priv_roundtrip (p : Option Bytes × Int) (h : int64 p.2) : privUnmarshal (privMarshal p) = .ok (privNF p) := by
  simp only [privUnmarshal, privMarshal, memBytes_omitBytes, memInt_omitInt p.2 h, privNF]

theorem optRes_priv (o : Option (Option Bytes × Int)) (h : ∀ p, o = some p → int64 p.2) :
    optRes privUnmarshal (o.map privMarshal) = .ok (o.map privNF) := by
  cases o with
  | none => rfl
  | some p => simp [optRes, priv_roundtrip p (h p rfl)]

/-- **ECDHParams round trip**: every curve id, every combination of present / absent public points (with or
    without Y) and private values; up to the normal forms of points and `omitempty` byte strings. -/
theorem ecdh_roundtrip (v : EcdhVal) (hc : v.curve < 65536)
    (hs : ∀ p, v.server_private = some p → int64 p.2) (hcl : ∀ p, v.client_private = some p → int64 p.2) :
    ecdhUnmarshal (ecdhMarshal v) = .ok (ecdhNF v) := by
  have hcurve : curveIdMember (if v.curve = 0 then none else some (tlsCurveIDEncode v.curve)) = .ok v.curve := by
    split
    · rename_i h0; rw [h0]; rfl
    · exact tlsCurveID_roundtrip v.curve hc
  simp only [ecdhUnmarshal, ecdhMarshal, hcurve, optRes_point, optRes_priv _ hs, optRes_priv _ hcl, ecdhNF]

example : (23 : Nat) < 65536 ∧ (∀ p, (some (some [1, 2], (2 : Int)) : Option (Option Bytes × Int)) = some p → int64 p.2) := by
  refine ⟨by decide, ?_⟩
  intro p h; injection h with h; subst h; unfold int64; simp

theorem pointNF_idem (p : Option Nat × Option Nat) : pointNF (pointNF p) = pointNF p := rfl

theorem privNF_idem (p : Option Bytes × Int) : privNF (privNF p) = privNF p := by
  obtain ⟨b, l⟩ := p
  simp only [privNF, emptyAsNil_idem]

theorem ecdhNF_idem (v : EcdhVal) : ecdhNF (ecdhNF v) = ecdhNF v := by
  obtain ⟨c, sp, spr, cp, cpr⟩ := v
  cases sp <;> cases spr <;> cases cp <;> cases cpr <;>
    simp [ecdhNF, pointNF_idem, privNF_idem]

/-! ### tls.KeyShareExtension -/

/-- **KeyShareExtension round trip**: every group id (a non-nil `KeyExchange`). -/
theorem keyShare_roundtrip (c : Nat) (h : c < 65536) :
    keyShareUnmarshal (keyShareMarshal (some c)) = .ok c := curve_roundtrip c h

example : (29 : Nat) < 65536 := by decide

/-- outside the domain, as the code is: a nil `KeyExchange` is written `null`, which the type's own decoder
    refuses (the zero CurveID aux has the name "", not "unknown"). -/
example : keyShareUnmarshal (keyShareMarshal none) = .err := by decide +kernel

/-! ### x509.GeneralSubtreeIP, IPv4 subtrees -/

/-- `net.ParseCIDR`'s address part gives an IPv4 address back from its dotted-quad text. -/
theorem ipv4_text_roundtrip (a b c d : UInt8) : parseV4 (ipv4String [a, b, c, d]) = some [a, b, c, d] :=
  parseV4_ipv4String a b c d

/-- a contiguous mask is `CIDRMask` of its own prefix length (`Mask.Size` then `CIDRMask`). -/
theorem cidrMask_of_size (m : Bytes) (n : Nat) (h : simpleMaskLength m = some n) :
    cidrMask m.length n = m ∧ n ≤ 8 * m.length := cidrMask_simpleMaskLength m n h

example : simpleMaskLength [255, 255, 240, 0] = some 20 := by decide

/-- **GeneralSubtreeIP round trip, IPv4** (after `fix:` 0939895): every address, in the 4-byte or the
    IPv4-mapped 16-byte form, with EVERY 4-byte mask — the 33 prefixes (written `/n`, with begin / end / mask
    members) and all non-contiguous ones (written `/hexmask`, read first by the decoder).  Normal form: the
    address reads back in its 16-byte IPv4-mapped form (`v4in16`, equal under `IP.Equal`); the mask bytewise. -/
theorem subtreeIP4_roundtrip (mapped : Bool) (a b c d : UInt8) (mask : Bytes) (hm : mask.length = 4) :
    subtreeIP4Unmarshal (subtreeIP4Marshal mapped [a, b, c, d] mask) = .ok (v4in16 [a, b, c, d], mask) := by
  unfold subtreeIP4Marshal
  have hnone : memStr none = .ok [] := rfl
  cases hsl : simpleMaskLength mask with
  | some l =>
    obtain ⟨h1, h2⟩ := cidrMask_simpleMaskLength mask l hsl
    rw [hm] at h1 h2
    have hl : l ≤ 32 := by omega
    have hc : memStr (omitStr (ipv4String [a, b, c, d] ++ '/' :: natToDec l)) = .ok (ipv4String [a, b, c, d] ++ '/' :: natToDec l) :=
      memStr_omitStr _
    have hp : prefixLen32 (natToDec l) = some l := by
      simp only [prefixLen32, parseDigits_natToDec, hl, if_true]
    have hh : hexMask4 (natToDec l) = none := hexMask4_prefix ⟨l, by omega⟩
    cases mapped <;>
      simp only [subtreeIP4Unmarshal, Bool.false_eq_true, if_false, if_true, hc, memStr_omitStr, hnone, cutSlash_ipv4,
        parseV4_ipv4String, hh, hp, h1]
  | none =>
    have hc : memStr (omitStr (ipv4String [a, b, c, d] ++ '/' :: hexEncode mask)) = .ok (ipv4String [a, b, c, d] ++ '/' :: hexEncode mask) :=
      memStr_omitStr _
    simp only [subtreeIP4Unmarshal, hc, hnone, cutSlash_ipv4, parseV4_ipv4String, hexMask4_hexEncode mask hm]

example : ([0, 0, 0, 32] : Bytes).length = 4 := by decide

/-- the former counter-example of finding F-C33-subtreeip-hexmask now round-trips … -/
example : subtreeIP4Unmarshal (subtreeIP4Marshal false [10, 1, 2, 3] [0, 0, 0, 32]) =
    .ok (v4in16 [10, 1, 2, 3], [0, 0, 0, 32]) := subtreeIP4_roundtrip false 10 1 2 3 [0, 0, 0, 32] (by decide)

/-- … and as the code WAS (`net.ParseCIDR` first): `10.1.2.3/00000020` came back as the prefix /20. -/
example : subtreeIP4UnmarshalOld (subtreeIP4Marshal false [10, 1, 2, 3] [0, 0, 0, 32]) =
    .ok (v4in16 [10, 1, 2, 3], [255, 255, 240, 0]) := by decide +kernel

/-- the old defect was confined to these masks: not a prefix, all eight hex digits decimal, value ≤ 32. -/
example : maskAmbiguous [0, 0, 0, 32] = true ∧ maskAmbiguous [0, 0, 0, 0x33] = false ∧ maskAmbiguous [0, 0, 1, 0] = false := by decide

/-- a text BOTH readers accept is now a hex mask: `1.2.3.4/00000020` is the mask 0.0.0.32, while the
    decimal forms `/20` and `/020` are still prefixes. -/
example : subtreeIP4Unmarshal { cidr := some (.str "1.2.3.4/00000020".toList), begin_ := none, end_ := none, mask := none } =
      .ok (v4in16 [1, 2, 3, 4], [0, 0, 0, 32]) ∧
    subtreeIP4Unmarshal { cidr := some (.str "1.2.3.4/020".toList), begin_ := none, end_ := none, mask := none } =
      .ok (v4in16 [1, 2, 3, 4], [255, 255, 240, 0]) := by decide +kernel

/-- re-encoding the decoded value (16-byte form) gives the same `cidr` text: the normal form is stable. -/
theorem subtreeIP4_cidr_stable (a b c d : UInt8) (mask : Bytes) :
    (subtreeIP4Marshal true [a, b, c, d] mask).cidr = (subtreeIP4Marshal false [a, b, c, d] mask).cidr := by
  unfold subtreeIP4Marshal
  cases simpleMaskLength mask <;> rfl

theorem subtreeIP4_unmarshal_no_panic (j : SubtreeIPJSON) : subtreeIP4Unmarshal j ≠ .panic := by
  unfold subtreeIP4Unmarshal
  split
  · split
    · simp
    · split
      · simp
      · split
        · simp
        · split <;> simp
  · simp

end ZV.C33
