import ZV.Model.C33
import ZV.Proofs.C33
/-!
  C33 — JSON encodings of zcrypto value types round-trip.

  For every value `v` of an enumerated type, `decode (encode v) = ok v`, where
  `encode` / `decode` are the branch-for-branch models (`ZV.Model.C33`) of the
  type's `MarshalJSON` / `UnmarshalJSON` over the name tables dumped from the
  tree (`ZV.Generated.C33`), and a JSON object is the record of members the code
  writes / reads (`encoding/json` is trusted).  `Res.panic` is a constructor, so
  `= .ok v` also says that neither step panics.

  "Equal value" and the DOMAIN per type:
  * TLSVersion, CipherSuiteID, CurveID, json.TLSCurveID: every uint16; CompressionMethod,
    PointFormat: every uint8; SignatureAndHash: every pair of uint8 — exact equality.
  * KeyUsage (a Go `int` written as `uint32`): 0 ≤ k < 2^32 (the nine defined bits are 0..511).
  * ClientAuthType, PublicKeyAlgorithm, SignatureAlgorithm (Go `int`s): the declared constants,
    i.e. the keys of the stringer table / `0 ≤ p < total_key_algorithms` / `0 ≤ a < len(algoName)`.
    Other integers (which no constructor of the library produces) are outside the domain:
    they encode as `ClientAuthType(N)` / `unknown_algorithm` / the decimal number and do not decode back.
  * structured types (checked on the real code only, T3): byte strings exact; big integers numeric, a nil
    REQUIRED big integer (DH prime/generator, point X, RSA N/E, nil RSA key) is identified with 0, a nil
    OPTIONAL one with an absent member; IP addresses by `IP.Equal`, masks bytewise; names field-wise on
    every attribute the encoder emits (non-empty valid UTF-8 values); OIDs with ≥ 1 arc in 0..2^31-1
    ; `Min`/`Max` of subtrees and `Curve` of ECDHParams are not encoded.
-/
namespace ZV.C33
open ZV.C33.Gen

/-! ### types decoded BY VALUE: universal over the whole value range -/

/-- TLSVersion: every 16-bit version survives; the name check in the decoder uses the same `String()`. -/
theorem tlsVersion_roundtrip (v : Nat) (h : v < 65536) :
    tlsVersionDecode (tlsVersionEncode v) = .ok v := by
  have hv := toUint16_ofNat v h
  have hr : inRange int64Min int64Max (Int.ofNat v) = true := by
    rw [inRange_iff]; simp only [int64Min, int64Max, Int.ofNat_eq_natCast]; omega
  simp only [tlsVersionDecode, tlsVersionEncode, hv, hr]
  simp

/-- the TLSVersion decoder accepts exactly the (truncated) value whose name is the one given. -/
theorem tlsVersion_decode_ok (j : NameValue) (v : Nat) (h : tlsVersionDecode j = .ok v) :
    v = toUint16 j.value ∧ j.name = tlsVersionString v := by
  unfold tlsVersionDecode at h
  split at h
  · cases h
  · dsimp only at h
    split at h
    · cases h
    · rename_i hn
      injection h with h
      subst h
      exact ⟨rfl, by have := (by simpa using hn : tlsVersionString (toUint16 j.value) = j.name); exact this.symm⟩

theorem cipherSuite_roundtrip (v : Nat) (h : v < 65536) :
    cipherSuiteDecode (cipherSuiteEncode v) = .ok v := by
  have hr : inRange 0 65535 (v : Int) = true := by
    rw [inRange_iff]; omega
  simp [cipherSuiteDecode, cipherSuiteEncode, nameForSuite, hr]

theorem compression_roundtrip (v : Nat) (h : v < 256) :
    compressionDecode (compressionEncode v) = .ok v := by
  have hr : inRange 0 255 (v : Int) = true := by
    rw [inRange_iff]; omega
  simp [compressionDecode, compressionEncode, nameForCompressionMethod, hr]

theorem curve_roundtrip (v : Nat) (h : v < 65536) :
    curveDecode (curveEncode v) = .ok v := by
  have hr : inRange 0 65535 (v : Int) = true := by
    rw [inRange_iff]; omega
  simp [curveDecode, curveEncode, nameForCurve, hr]

theorem pointFormat_roundtrip (v : Nat) (h : v < 256) :
    pointFormatDecode (pointFormatEncode v) = .ok v := by
  have hr : inRange 0 255 (v : Int) = true := by
    rw [inRange_iff]; omega
  simp [pointFormatDecode, pointFormatEncode, nameForPointFormat, hr]

/-- the name/value decoders accept ONLY a value in range together with its own name
    (so a drifted name table on the producing side is detected, not silently accepted). -/
theorem cipherSuite_decode_ok (j : NameValue) (v : Nat) (h : cipherSuiteDecode j = .ok v) :
    j.value = Int.ofNat v ∧ v < 65536 ∧ j.name = cipherSuiteString v := by
  unfold cipherSuiteDecode at h
  split at h
  · cases h
  · rename_i hr
    dsimp only at h
    split at h
    · cases h
    · rename_i hn
      injection h with h
      subst h
      have hr' : inRange 0 65535 j.value = true := by simpa using hr
      rw [inRange_iff] at hr'
      refine ⟨by simp only [Int.ofNat_eq_natCast]; omega, by omega, by have := (by simpa [nameForSuite] using hn : cipherSuiteString j.value.toNat = j.name); exact this.symm⟩

theorem curve_decode_ok (j : NameValue) (v : Nat) (h : curveDecode j = .ok v) :
    j.value = Int.ofNat v ∧ v < 65536 ∧ j.name = curveString v := by
  unfold curveDecode at h
  split at h
  · cases h
  · rename_i hr
    dsimp only at h
    split at h
    · cases h
    · rename_i hn
      injection h with h
      subst h
      have hr' : inRange 0 65535 j.value = true := by simpa using hr
      rw [inRange_iff] at hr'
      refine ⟨by simp only [Int.ofNat_eq_natCast]; omega, by omega, by have := (by simpa [nameForCurve] using hn : curveString j.value.toNat = j.name); exact this.symm⟩

/-- KeyUsage: the value member carries the whole usage; every usage that fits 32 bits survives. -/
theorem keyUsage_roundtrip (k : Int) (h0 : 0 ≤ k) (h1 : k < 4294967296) :
    keyUsageDecode (keyUsageEncode k) = .ok k := by
  have hk : k % 4294967296 = k := by omega
  have hr : inRange 0 4294967295 k = true := by
    rw [inRange_iff]; omega
  simp [keyUsageDecode, keyUsageEncode, hk, hr]

example : keyUsageDecode (keyUsageEncode 511) = .ok 511 := keyUsage_roundtrip 511 (by decide) (by decide)

/-- json.TLSCurveID: decoded by id, the name is informational. -/
theorem tlsCurveID_roundtrip (c : Nat) (h : c < 65536) :
    tlsCurveIDDecode (tlsCurveIDEncode c) = .ok c := by
  have hr : inRange 0 65535 (c : Int) = true := by
    rw [inRange_iff]; omega
  simp [tlsCurveIDDecode, tlsCurveIDEncode, hr]

/-! ### tls.SignatureAndHash: decoded BY NAME — finite-table proofs over the WHOLE 8-bit range -/

/-- T1: no two signature codes share a name (otherwise `signatureToName`, which ranges over a Go map in
    random order, would not even be deterministic). -/
theorem signature_names_injective : (names signatureNames).Nodup := by decide
theorem hash_names_injective : (names hashNames).Nodup := by decide

/-- T1: no table name can be mistaken for the `unknown.N` fallback of another code, nor for a bare number. -/
theorem signature_names_not_fallback :
    ∀ n ∈ names signatureNames, unknownDot.isPrefixOf n = false ∧ parseDigits n = none := by decide
theorem hash_names_not_fallback :
    ∀ n ∈ names hashNames, unknownDot.isPrefixOf n = false ∧ parseDigits n = none := by decide

/-- every signature code 0..255, named or not, is recovered from its name. -/
theorem signature_name_roundtrip : ∀ s : Fin 256, signatureToName (nameForSignature s.val) = s.val := by
  decide +kernel
theorem hash_name_roundtrip : ∀ h : Fin 256, hashToName (nameForHash h.val) = h.val := by
  decide +kernel

/-- **SignatureAndHash round trip**, all 65536 pairs. -/
theorem sigHash_roundtrip (s h : Nat) (hs : s < 256) (hh : h < 256) :
    sigHashDecode (sigHashEncode s h) = .ok (s, h) := by
  have h1 := signature_name_roundtrip ⟨s, hs⟩
  have h2 := hash_name_roundtrip ⟨h, hh⟩
  simp only at h1 h2
  simp [sigHashDecode, sigHashEncode, h1, h2]

/-! ### tls.ClientAuthType: a JSON string, decoded BY NAME (after `fix:` D16) -/

/-- T1: the stringer-generated `String()` (used by the encoder) and `clientAuthTypeNames`
    (used by the decoder) are the same table. -/
theorem clientAuth_tables_agree : clientAuthStringer = clientAuthTypeNames := by decide

theorem clientAuth_names_injective : (names clientAuthTypeNames).Nodup := by decide

/-- T1: the domain — the declared constants NoClientCert … RequireAndVerifyClientCert. -/
theorem clientAuth_domain : keys clientAuthStringer = [0, 1, 2, 3, 4] := by decide

/-- **ClientAuthType round trip** on every declared constant. -/
theorem clientAuth_roundtrip :
    ∀ k ∈ keys clientAuthStringer, clientAuthDecode (clientAuthEncode (Int.ofNat k)) = .ok (Int.ofNat k) := by
  decide +kernel

/-- the decoder never panics (it used to, on every input) and accepts table names only. -/
theorem clientAuth_decode_total (s : Str) :
    clientAuthDecode s = .err ∨ ∃ k ∈ keys clientAuthTypeNames, clientAuthDecode s = .ok (Int.ofNat k) := by
  unfold clientAuthDecode
  cases h : rlookup clientAuthTypeNames s with
  | none => exact Or.inl rfl
  | some k => exact Or.inr ⟨k, rlookup_mem_keys _ _ _ h, rfl⟩

/-! ### x509.PublicKeyAlgorithm: decoded BY NAME (after `fix:` D9) -/

theorem publicKeyAlgorithm_names_injective : keyAlgorithmNames.Nodup := by decide

/-- `String()` cannot index out of range: `keyAlgorithmNames` has an entry for every p < total_key_algorithms. -/
theorem publicKeyAlgorithm_table_complete : 0 < totalKeyAlgorithms ∧ totalKeyAlgorithms ≤ keyAlgorithmNames.length := by decide

/-- encoding never panics, for ANY Go int. -/
theorem publicKeyAlgorithm_encode_no_panic (p : Int) : publicKeyAlgorithmEncode p ≠ .panic := by
  have hc := publicKeyAlgorithm_table_complete
  unfold publicKeyAlgorithmEncode publicKeyAlgorithmString
  dsimp only
  split
  · simp
  · rename_i hnone
    exfalso
    rw [List.getElem?_eq_none_iff] at hnone
    split at hnone
    · omega
    · rename_i hcond
      simp only [Int.ofNat_eq_natCast] at hcond
      omega

/-- **PublicKeyAlgorithm round trip** on every declared constant (0 = unknown … X25519). -/
theorem publicKeyAlgorithm_roundtrip :
    ∀ p ∈ List.range totalKeyAlgorithms,
      (publicKeyAlgorithmEncode (Int.ofNat p)).bind publicKeyAlgorithmDecode = .ok (Int.ofNat p) := by
  decide +kernel

/-! ### x509.SignatureAlgorithm: decoded by OID, then by name for RSA-PSS -/

/-- T1: the RSA-PSS variants — which share one OID — have distinct names. -/
theorem signatureAlgorithm_pss_names_distinct :
    (pssAlgs.map (fun a => signatureAlgorithmString (Int.ofNat a))).Nodup := by decide +kernel

/-- T1: apart from RSA-PSS, an OID identifies one algorithm (rows with the same OID have the same algo). -/
theorem signatureAlgorithm_oid_functional :
    ∀ r1 ∈ signatureAlgorithmDetails, ∀ r2 ∈ signatureAlgorithmDetails,
      r1.2 = r2.2 → r1.2 = oidSignatureRSAPSS ∨ r1.1 = r2.1 := by decide +kernel

/-- T1: every declared algorithm except "unknown" has a row, i.e. an OID to be written. -/
theorem signatureAlgorithm_all_have_oid :
    ∀ a ∈ List.range algoName.length, a = 0 ∨ a ∈ signatureAlgorithmDetails.map (·.1) := by decide +kernel

-- FULL: ∀ a ∈ List.range algoName.length, signatureAlgorithmDecode (signatureAlgorithmEncode (Int.ofNat a)) = .ok (Int.ofNat a)
-- fails at a = 0 only (finding D24, see `signatureAlgorithm_unknown_rejected`): the fix (accept "" in
-- AuxOID.UnmarshalJSON) contradicts the existing test TestSignatureAlgorithmJSON, so the code is left as it is.
/-- **SignatureAlgorithm round trip** on every declared constant except 0 (MD2WithRSA … Ed25519Sig), through the
    dotted-decimal OID string and `AuxOID.UnmarshalJSON`. -/
theorem signatureAlgorithm_roundtrip_partial :
    ∀ a ∈ List.range algoName.length, a ≠ 0 →
      signatureAlgorithmDecode (signatureAlgorithmEncode (Int.ofNat a)) = .ok (Int.ofNat a) := by
  decide +kernel

example : (16 : Nat) ∈ List.range algoName.length ∧ (16 : Nat) ≠ 0 := by decide

/-- finding D24, as the code is: UnknownSignatureAlgorithm (0) is written with the empty OID `""`, which
    `AuxOID.UnmarshalJSON` rejects — the encoder's own output is refused. -/
theorem signatureAlgorithm_unknown_rejected :
    signatureAlgorithmDecode (signatureAlgorithmEncode 0) = .err := by decide +kernel

/-! ### key parameters and points (json/dhe.go, json/ecdhe.go) on the abstract JSON tree -/

/-- **param_roundtrip**: a big integer survives `Bytes()` → (base64, trusted) → `SetBytes()`; a nil one reads back as 0. -/
theorem param_roundtrip (p : Option Nat) : cryptoParamDecode (cryptoParamEncode p) = nilAsZero p := by
  cases p with
  | none => rfl
  | some n => simp [cryptoParamEncode, cryptoParamDecode, nilAsZero, bytesNat_natBytes]

/-- **ECPoint round trip** (after `fix:` D10): with or WITHOUT a Y coordinate, no panic; a nil X reads back as 0. -/
theorem ecPoint_roundtrip (x y : Option Nat) :
    ecPointDecode (ecPointEncode x y) = .ok (some (nilAsZero x), y) := by
  cases y with
  | none => simp [ecPointDecode, ecPointEncode, param_roundtrip]
  | some n =>
    have := param_roundtrip (some n)
    simp only [nilAsZero] at this
    simp [ecPointDecode, ecPointEncode, param_roundtrip, this]

/-- the point decoder is total: no member combination (absent x, absent y, null values) makes it panic. -/
theorem ecPoint_decode_no_panic (j : PointJSON) : ecPointDecode j ≠ .panic := by
  simp [ecPointDecode]

/-- **DHParams round trip**: required members (prime, generator) read back numerically (nil as 0),
    optional members exactly, omitted ones stay nil. -/
theorem dh_roundtrip (req opt : List (Option Nat)) :
    dhDecode (dhEncode req opt) = req.map (fun p => some (nilAsZero p)) ++ opt := by
  simp only [dhDecode, dhEncode, List.map_append, List.map_map]
  congr 1
  · apply List.map_congr_left
    intro p _
    simp [param_roundtrip]
  · conv => rhs; rw [← List.map_id opt]
    apply List.map_congr_left
    intro p _
    cases p with
    | none => rfl
    | some n =>
      have := param_roundtrip (some n)
      simp only [nilAsZero] at this
      simp [this]

end ZV.C33
