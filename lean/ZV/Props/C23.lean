import ZV.Model.C23
import ZV.Proofs.C23
import ZV.Proofs.C23Bytes
import ZV.Proofs.C23Hash
import ZV.Proofs.C23Pss
import ZV.Proofs.C23Sign
import ZV.Proofs.C23Oaep
import ZV.Proofs.C23Key
import ZV.Proofs.C23Enc
/-!
  C23 — the RSA fork computes what standard RSA computes.

  * `crt_eq_plain`: for every key that satisfies what `PrivateKey.Validate` checks and carries the values
    `Precompute` derives, the CRT branch of `decrypt` (Garner recombination with the sign fix-up) returns
    exactly `c^d mod n` — for every `c`, so the two branches of `decrypt` are interchangeable.
  * `decrypt_encrypt` / `encrypt_decrypt`: textbook RSA correctness for any number of distinct primes,
    hence `check_redundant`: the re-encryption check of `decrypt` never fires on a valid key.
  * `pkcs1_verify_iff`, `pkcs1_verify_numeric`, `pkcs1_unique`, `pkcs1_digest_binding`:
    the decision logic of `VerifyPKCS1v15`, for all inputs.
  * `malformed_pub_is_error`: no public operation succeeds or panics on a malformed public key.
  * `stripTo_zeros`, `stripTo_nonzero_head`, `verifyPSS_leading_octet`: `VerifyPSS` drops octets of `s^e mod n` above
    the `emLen = ⌈(modBits-1)/8⌉` octets of the encoded message only if they are zero (moduli of 8k+1 bits).
  * `pss_encode_ok_iff`, `pss_verify_encode`: for every hash whose output has `outSize > 0` octets (`HashOk`; proved for
    MD5 … SHA-512 from the definitions), every digest, salt and `emBits` with `emLen ≥ hLen + sLen + 2`, `emsaPSSVerify`
    accepts what `emsaPSSEncode` builds — explicit salt length, auto (0) and equals-hash (-1).
  * `pss_verify_iff`, `verifyPSS_iff`, `verifyPSS_never_panics`: `emsaPSSVerify` accepts EXACTLY the outputs of
    `emsaPSSEncode` (some salt the option allows); decision logic of `VerifyPSS` for all inputs; it never panics.
  * `pkcs1_sign_verify`, `pkcs1_verify_iff_sign`: on a valid key `SignPKCS1v15` succeeds whenever the encoded message can
    be built, `VerifyPKCS1v15` accepts its output, and accepts nothing else.
  * `pss_sign_verify`, `pss_verify_of_sign`: the same for `signPSSWithSalt` / `SignPSS` and `VerifyPSS` (all salt modes).
  * `oaep_unpad_pad`, `oaep_decrypt_encrypt`: EME-OAEP padding round trip for every seed of `hLen` octets, composed with
    RSA: `decryptOAEP (EncryptOAEP m) = m` for every message within the length bound.
  * `oaep_unpad_iff`, `oaep_decrypt_iff`: the unpadding accepts EXACTLY the paddings; on a valid key `decryptOAEP` returns
    `msg` exactly for the (zero-extended) `EncryptOAEP` outputs of `msg`.
  * `pkcs1_decrypt_of_encrypt`, `pkcs1_decrypt_encrypt`: EME-PKCS1-v1_5 round trip (zero-free padding string of ≥ 8 octets,
    separator scan), for every random stream including the zero re-draws; `pkcs1_decrypt_iff`: decision logic of
    `DecryptPKCS1v15` on a valid key for all ciphertexts.
  * `decrypt_total`, `decryptPKCS1v15_never_panics`, `decryptOAEP_never_panics`: on a valid key the private operations
    return an error or a result, never the out-of-range panics the model makes explicit.
  * `hashPrefixes_wellformed` (T1): every row of the generated DigestInfo table is a DER header whose
    length bytes agree with the digest size `crypto.Hash.Size()` reports.
-/
namespace ZV.C23
open ZV ZV.Hash

/-- what `PrivateKey.Validate` checks, plus: precomputed values, if present, are the ones `Precompute` derives. -/
structure KeyOk (k : Priv) : Prop where
  primes_prime : ∀ p ∈ k.primes, p.Prime
  nodup : k.primes.Nodup
  n_eq : k.n = k.primes.prod
  ed : ∀ p ∈ k.primes, k.e * k.d % (p - 1) = 1
  pre_ok : ∀ dp dq qinv, k.pre = some (dp, dq, qinv) → ∀ p q, k.primes = [p, q] →
    dp = k.d % (p - 1) ∧ dq = k.d % (q - 1) ∧ qinv * q % p = 1

/-- FLAGSHIP.  Whatever branch `decrypt` takes (CRT with precomputed values for two primes, or plain),
    the value it computes is `c^d mod n`. -/
theorem crt_eq_plain {k : Priv} (h : KeyOk k) (c : Nat) : decryptCore k c = c ^ k.d % k.n := by
  unfold decryptCore
  split
  · next p q dp dq qinv hprimes hpre =>
    obtain ⟨hdp, hdq, hqinv⟩ := h.pre_ok dp dq qinv hpre p q hprimes
    have hnd := h.nodup
    rw [hprimes] at hnd
    have hne : p ≠ q := by simpa using hnd
    have hk : KeyOk2 p q k.e k.d dp dq qinv :=
      { pp := h.primes_prime p (by rw [hprimes]; simp)
        pq := h.primes_prime q (by rw [hprimes]; simp)
        ne := hne
        edp := h.ed p (by rw [hprimes]; simp)
        edq := h.ed q (by rw [hprimes]; simp)
        hdp := hdp, hdq := hdq, hqinv := hqinv }
    have hn : k.n = p * q := by rw [h.n_eq, hprimes]; simp
    rw [crt_eq_plain2 hk c, hn]
  · exact modPow_eq _ _ _

/-- decrypting an encrypted message gives the message back (two- or multi-prime, either branch). -/
theorem decrypt_encrypt {k : Priv} (h : KeyOk k) (m : Nat) (hm : m < k.n) :
    decryptCore k (modPow m k.e k.n) = m := by
  rw [crt_eq_plain h, modPow_eq, h.n_eq]
  exact rsa_roundtrip k.primes k.e k.d h.primes_prime h.nodup h.ed m (h.n_eq ▸ hm)

/-- the public operation undoes the private one (sign, then verify). -/
theorem encrypt_decrypt {k : Priv} (h : KeyOk k) (c : Nat) (hc : c < k.n) :
    modPow (decryptCore k c) k.e k.n = c := by
  rw [crt_eq_plain h, modPow_eq, h.n_eq]
  exact rsa_roundtrip' k.primes k.e k.d h.primes_prime h.nodup h.ed c (h.n_eq ▸ hc)

/-- on a valid key the fault check of `decrypt` (re-encrypt and compare) never rejects. -/
theorem check_redundant {k : Priv} (h : KeyOk k) (ct : Bytes) :
    decrypt k ct true = decrypt k ct false := by
  unfold decrypt
  by_cases hc : os2ip ct ≥ k.n
  · simp [hc]
  · have hc' : os2ip ct < k.n := Nat.not_le.1 hc
    simp [hc, encrypt_decrypt h _ hc']

/-- x ↦ x^e mod n is injective on [0, n) for a valid key -/
theorem rsa_injective {k : Priv} (h : KeyOk k) (a b : Nat) (ha : a < k.n) (hb : b < k.n)
    (hab : a ^ k.e % k.n = b ^ k.e % k.n) : a = b := by
  have h1 := decrypt_encrypt h a ha
  have h2 := decrypt_encrypt h b hb
  rw [modPow_eq] at h1 h2
  rw [← h1, ← h2, hab]

/-! ### PKCS #1 v1.5 verification: decision logic for all inputs -/

theorem pkcs1_verify_iff (pub : Pub) (h : Nat) (dg sig : Bytes) :
    verifyPKCS1v15 pub h dg sig = .ok () ↔
      ∃ n e em, checkPub pub = .ok (n, e) ∧ sig.length = sizeBytes n ∧ os2ip sig < n ∧
        constructEM (sizeBytes n) h dg = .ok em ∧
        natToBytesBE (sizeBytes n) (os2ip sig ^ e % n) = em :=
  pkcs1_verify_iff' pub h dg sig

/-- numeric reading: an accepted signature is an e-th root of the encoded message modulo n. -/
theorem pkcs1_verify_numeric {pub : Pub} {h : Nat} {dg sig : Bytes}
    (hv : verifyPKCS1v15 pub h dg sig = .ok ()) :
    ∃ n e em, checkPub pub = .ok (n, e) ∧ constructEM (sizeBytes n) h dg = .ok em ∧
      os2ip sig ^ e % n = os2ip em := by
  obtain ⟨n, e, em, hc, _, hlt, hem, hb⟩ := (pkcs1_verify_iff pub h dg sig).1 hv
  refine ⟨n, e, em, hc, hem, ?_⟩
  have hn : 0 < n := by omega
  rw [← hb, os2ip_natToBytesBE_of_lt (Nat.lt_trans (Nat.mod_lt _ hn) (lt_pow_sizeBytes n))]

/-- injectivity of the public operation on [0,n) (what `rsa_injective` proves for valid keys) -/
def RsaInj (n e : Nat) : Prop := ∀ a b, a < n → b < n → a ^ e % n = b ^ e % n → a = b

/-- under an injective public operation there is at most ONE accepted signature per (key, hash, digest):
    any accepted signature is the genuine one, byte for byte. -/
theorem pkcs1_unique {pub : Pub} {h : Nat} {dg s₁ s₂ : Bytes} {n e : Nat}
    (hpub : checkPub pub = .ok (n, e)) (hinj : RsaInj n e)
    (h1 : verifyPKCS1v15 pub h dg s₁ = .ok ()) (h2 : verifyPKCS1v15 pub h dg s₂ = .ok ()) : s₁ = s₂ := by
  obtain ⟨n1, e1, em1, hc1, hl1, hlt1, hem1, hb1⟩ := (pkcs1_verify_iff pub h dg s₁).1 h1
  obtain ⟨n2, e2, em2, hc2, hl2, hlt2, hem2, hb2⟩ := (pkcs1_verify_iff pub h dg s₂).1 h2
  rw [hpub] at hc1 hc2
  have e1' := Res.ok.inj hc1; have e2' := Res.ok.inj hc2
  simp at e1' e2'
  obtain ⟨rfl, rfl⟩ := e1'
  obtain ⟨rfl, rfl⟩ := e2'
  rw [hem1] at hem2
  have hem := Res.ok.inj hem2
  subst hem
  have hn : 0 < n := by omega
  have hbound : ∀ x, x ^ e % n < 256 ^ sizeBytes n :=
    fun x => Nat.lt_trans (Nat.mod_lt _ hn) (lt_pow_sizeBytes n)
  have hpow : os2ip s₁ ^ e % n = os2ip s₂ ^ e % n := by
    rw [← os2ip_natToBytesBE_of_lt (hbound (os2ip s₁)), ← os2ip_natToBytesBE_of_lt (hbound (os2ip s₂)), hb1, hb2]
  exact os2ip_inj s₁ s₂ (by rw [hl1, hl2]) (hinj _ _ hlt1 hlt2 hpow)

/-- the encoded message determines the digest (same hash id, digests of the same length): so a signature
    accepted for two digests forces the digests to be equal — changing the signed digest is always detected. -/
theorem constructEM_inj {k h : Nat} {d₁ d₂ em : Bytes} (hlen : d₁.length = d₂.length)
    (h1 : constructEM k h d₁ = .ok em) (h2 : constructEM k h d₂ = .ok em) : d₁ = d₂ := by
  unfold constructEM at h1 h2
  rw [hlen] at h1
  cases hp : emPrefix h d₂.length with
  | err => rw [hp] at h1; contradiction
  | panic => rw [hp] at h1; contradiction
  | ok p =>
    rw [hp] at h1 h2
    dsimp only at h1 h2
    split at h1
    · contradiction
    · rw [if_neg (by assumption)] at h2
      have e1 := Res.ok.inj h1
      have e2 := Res.ok.inj h2
      rw [← e2] at e1
      simpa using e1

theorem pkcs1_digest_binding {pub : Pub} {h : Nat} {d₁ d₂ sig : Bytes} (hlen : d₁.length = d₂.length)
    (h1 : verifyPKCS1v15 pub h d₁ sig = .ok ()) (h2 : verifyPKCS1v15 pub h d₂ sig = .ok ()) : d₁ = d₂ := by
  obtain ⟨n1, e1, em1, hc1, _, _, hem1, hb1⟩ := (pkcs1_verify_iff pub h d₁ sig).1 h1
  obtain ⟨n2, e2, em2, hc2, _, _, hem2, hb2⟩ := (pkcs1_verify_iff pub h d₂ sig).1 h2
  rw [hc1] at hc2
  have e' := Res.ok.inj hc2
  simp at e'
  obtain ⟨rfl, rfl⟩ := e'
  rw [hb1] at hb2
  subst hb2
  exact constructEM_inj hlen hem1 hem2

/-! ### malformed public keys -/

def Malformed (p : Pub) : Prop :=
  p.n = none ∨ (∃ n, p.n = some n ∧ n ≤ 0) ∨ p.e = none ∨ (∃ e, p.e = some e ∧ e < 2)

theorem checkPub_malformed {p : Pub} (h : Malformed p) : checkPub p = .err := by
  unfold checkPub
  rcases h with h | ⟨n, hn, hle⟩ | h | ⟨e, he, hlt⟩
  · rw [h]
  · rw [hn]; simp [hle]
  · cases hn : p.n with
    | none => rfl
    | some n => by_cases hle : n ≤ 0 <;> simp [hle, h]
  · cases hn : p.n with
    | none => rfl
    | some n => by_cases hle : n ≤ 0 <;> simp [hle, he, hlt]

/-- every public operation returns an error (never succeeds, never panics) on a malformed public key:
    N missing / zero / negative, E missing / below 2. -/
theorem malformed_pub_is_error {p : Pub} (h : Malformed p) :
    (∀ hash dg sig, verifyPKCS1v15 p hash dg sig = .err) ∧
    (∀ ha dg sig sl, verifyPSS p ha dg sig sl = .err) ∧
    (∀ rnd msg, encryptPKCS1v15 p rnd msg = .err) ∧
    (∀ ha rnd msg label, encryptOAEP ha p rnd msg label = .err) := by
  have hc := checkPub_malformed h
  refine ⟨?_, ?_, ?_, ?_⟩
  · intro hash dg sig; unfold verifyPKCS1v15; rw [hc]
  · intro ha dg sig sl; unfold verifyPSS; rw [hc]
  · intro rnd msg; unfold encryptPKCS1v15; rw [hc]
  · intro ha rnd msg label; unfold encryptOAEP; rw [hc]

/-- conversely `checkPub` accepts every key with N ≥ 1 and E ≥ 2 (no upper bound on E in the fork). -/
theorem checkPub_ok {n e : Int} (hn : 0 < n) (he : 2 ≤ e) : checkPub ⟨some n, some e⟩ = .ok (n.toNat, e.toNat) := by
  unfold checkPub
  simp [Int.not_le.2 hn, Int.not_lt.2 he]

/-! ### T1: the generated DigestInfo table -/

/-- a DigestInfo prefix `30 L1 30 L2 06 … 04 Lh` for a digest of `sz` bytes: outer length covers the rest
    of the prefix plus the digest, and the last byte is the OCTET STRING length = digest size. -/
def prefixOk (p : Bytes) (sz : Nat) : Bool :=
  match p with
  | [] => true
  | t :: l :: rest =>
    t == 0x30 && l.toNat == rest.length + sz && rest.getLast? == some (UInt8.ofNat sz) &&
      (rest.dropLast.getLast? == some 0x04)
  | _ => false

/-- every row of zcrypto's `hashPrefixes` (generated from the working tree) is consistent with the digest
    size `crypto.Hash.Size()` reports for that id; ids are unique. -/
theorem hashPrefixes_wellformed :
    (Gen.C23.hashPrefixes.all fun r => match hashSize r.1 with
      | some sz => prefixOk r.2 sz
      | none => false) = true ∧
    (Gen.C23.hashPrefixes.map (·.1)).Nodup := by
  decide

/-! ### EMSA-PSS: encode, then verify -/

/-- `emsaPSSEncode` succeeds exactly on digests of the hash's length when the encoded message has room for hash, salt and
    the two fixed octets, and then returns the RFC 8017 §9.1.1 message `maskedDB ‖ H ‖ bc` (`pssEM`). -/
theorem pss_encode_ok_iff (h : HashAlg) (mHash : Bytes) (emBits : Nat) (salt em : Bytes) :
    emsaPSSEncode h mHash emBits salt = .ok em ↔
      mHash.length = h.outSize ∧ h.outSize + salt.length + 2 ≤ (emBits + 7) / 8 ∧ em = pssEM h mHash emBits salt :=
  emsaPSSEncode_ok_iff h mHash emBits salt em

/-- For EVERY hash algorithm whose `hash` returns `outSize > 0` octets, every digest of that length, every salt and every
    `emBits` with `emLen ≥ hLen + sLen + 2`: `emsaPSSEncode` succeeds and `emsaPSSVerify` accepts its output — with the
    salt length that was used, with `PSSSaltLengthAuto` (0: the salt is located by the 01 separator) and, when the salt
    has the length of the hash, with `PSSSaltLengthEqualsHash` (-1). -/
theorem pss_verify_encode {h : HashAlg} (hk : HashOk h) (mHash salt : Bytes) (emBits : Nat)
    (hmh : mHash.length = h.outSize) (hbound : h.outSize + salt.length + 2 ≤ (emBits + 7) / 8) :
    ∃ em, emsaPSSEncode h mHash emBits salt = .ok em ∧
      emsaPSSVerify h mHash em emBits salt.length = .ok () ∧
      emsaPSSVerify h mHash em emBits 0 = .ok () ∧
      (salt.length = h.outSize → emsaPSSVerify h mHash em emBits (-1) = .ok ()) :=
  ⟨pssEM h mHash emBits salt, (pss_encode_ok_iff ..).2 ⟨hmh, hbound, rfl⟩,
    emsaPSSVerify_pssEM hk mHash salt emBits _ hmh hbound (Or.inl rfl),
    emsaPSSVerify_pssEM hk mHash salt emBits _ hmh hbound (Or.inr (Or.inl rfl)),
    fun hs => emsaPSSVerify_pssEM hk mHash salt emBits _ hmh hbound (Or.inr (Or.inr ⟨rfl, hs⟩))⟩

/-- the same, read off a successful `emsaPSSEncode` (the statement kept as `-- FULL:` before) -/
theorem pss_verify_of_encode {h : HashAlg} (hk : HashOk h) {mHash salt em : Bytes} {emBits : Nat}
    (he : emsaPSSEncode h mHash emBits salt = .ok em) :
    emsaPSSVerify h mHash em emBits salt.length = .ok () ∧ emsaPSSVerify h mHash em emBits 0 = .ok () ∧
      (salt.length = h.outSize → emsaPSSVerify h mHash em emBits (-1) = .ok ()) := by
  obtain ⟨hmh, hbound, rfl⟩ := (pss_encode_ok_iff ..).1 he
  obtain ⟨em', he', hv⟩ := pss_verify_encode hk mHash salt emBits hmh hbound
  obtain ⟨_, _, rfl⟩ := (pss_encode_ok_iff ..).1 he'
  exact hv

/-! ### valid keys: the facts the padding layers need -/

theorem KeyOk.n_pos {k : Priv} (h : KeyOk k) : 0 < k.n := by
  rw [h.n_eq]; exact prod_primes_pos _ h.primes_prime

theorem KeyOk.checkPub_eq {k : Priv} (h : KeyOk k) (he : 2 ≤ k.e) : checkPub k.pub = .ok (k.n, k.e) :=
  checkPub_priv h.n_pos he

/-! ### PKCS #1 v1.5: sign, then verify -/

/-- Whenever the encoded message can be built (known hash id, digest of the right length, modulus of at least
    `11 + len(DigestInfo)` octets), `SignPKCS1v15` on a valid key succeeds — the encoded message `00 01 …` is below the
    modulus and the fault check passes — and `VerifyPKCS1v15` accepts the signature under the public half of the key. -/
theorem pkcs1_sign_verify {k : Priv} (hk : KeyOk k) (he : 2 ≤ k.e) {h : Nat} {dg em : Bytes}
    (hem : constructEM (sizeBytes k.n) h dg = .ok em) :
    ∃ sig, signPKCS1v15 k h dg = .ok sig ∧ verifyPKCS1v15 k.pub h dg sig = .ok () := by
  have hcore := crt_eq_plain hk
  have henc := encrypt_decrypt hk
  -- the encoded message has k octets and starts 00 01
  obtain ⟨rest, hrest, hlen⟩ : ∃ rest, em = 0 :: 1 :: rest ∧ em.length = sizeBytes k.n := by
    unfold constructEM at hem
    split at hem
    · contradiction
    · contradiction
    · next p _ =>
      split at hem
      · contradiction
      · next hk' =>
        have := Res.ok.inj hem
        subst this
        refine ⟨_, rfl, ?_⟩
        simp only [List.length_cons, List.length_append, List.length_replicate]
        omega
  have hlt : os2ip em < k.n := by rw [hrest]; exact os2ip_00_01_lt hk.n_pos rest (by rw [← hrest]; exact hlen)
  have hsign : signPKCS1v15 k h dg = .ok (natToBytesBE (sizeBytes k.n) (decryptCore k (os2ip em))) := by
    unfold signPKCS1v15
    rw [hem]
    exact decrypt_ok_of_lt hcore henc em true hlt
  refine ⟨_, hsign, ?_⟩
  obtain ⟨h1, h2, h3⟩ := decrypt_then_encrypt hcore henc em _ true hlen (decrypt_ok_of_lt hcore henc em true hlt)
  rw [encrypt_eq, if_pos h2] at h3
  exact (pkcs1_verify_iff ..).2 ⟨k.n, k.e, em, hk.checkPub_eq he, h1, h2, hem, Res.ok.inj h3⟩

/-- the statement kept as `-- FULL:` before: any signature `SignPKCS1v15` returns verifies -/
theorem pkcs1_verify_of_sign {k : Priv} (hk : KeyOk k) (he : 2 ≤ k.e) {h : Nat} {dg sig : Bytes}
    (hs : signPKCS1v15 k h dg = .ok sig) : verifyPKCS1v15 k.pub h dg sig = .ok () := by
  cases hem : constructEM (sizeBytes k.n) h dg with
  | err => unfold signPKCS1v15 at hs; rw [hem] at hs; contradiction
  | panic => unfold signPKCS1v15 at hs; rw [hem] at hs; contradiction
  | ok em =>
    obtain ⟨sig', hs', hv⟩ := pkcs1_sign_verify hk he hem
    rw [hs] at hs'
    rw [Res.ok.inj hs']
    exact hv

/-- and conversely the ONLY byte string `VerifyPKCS1v15` accepts for (key, hash, digest) is the one `SignPKCS1v15`
    produces: verification and signing define the same relation on a valid key. -/
theorem pkcs1_verify_iff_sign {k : Priv} (hk : KeyOk k) (he : 2 ≤ k.e) (h : Nat) (dg s : Bytes) :
    verifyPKCS1v15 k.pub h dg s = .ok () ↔ signPKCS1v15 k h dg = .ok s := by
  constructor
  · intro hv
    obtain ⟨n, e, em, hc, _, _, hem, _⟩ := (pkcs1_verify_iff ..).1 hv
    rw [hk.checkPub_eq he] at hc
    have := Res.ok.inj hc
    simp at this
    obtain ⟨rfl, rfl⟩ := this
    obtain ⟨sig, hs, hv'⟩ := pkcs1_sign_verify hk he hem
    have hinj : RsaInj k.n k.e := fun a b ha hb hab => rsa_injective hk a b ha hb hab
    rw [pkcs1_unique (hk.checkPub_eq he) hinj hv hv']
    exact hs
  · exact pkcs1_verify_of_sign hk he


/-! ### RSASSA-PSS: sign, then verify -/

/-- For every valid key, every hash with the length property, every digest of the hash's length and every salt that fits
    (`emLen = ⌈(modBits-1)/8⌉ ≥ hLen + sLen + 2`): `signPSSWithSalt` succeeds (the encoded message is below
    `2^(modBits-1) ≤ n`, the fault check passes) and `VerifyPSS` accepts the signature with the salt length used, with
    `PSSSaltLengthAuto` and — for `sLen = hLen` — with `PSSSaltLengthEqualsHash`.  Covers moduli of 8k+1 bits, where
    the encoded message is one octet shorter than the modulus and `VerifyPSS` strips the leading zero octet. -/
theorem pss_sign_verify {k : Priv} (hk : KeyOk k) (he : 2 ≤ k.e) {h : HashAlg} (hh : HashOk h) (hashed salt : Bytes)
    (hmh : hashed.length = h.outSize) (hbound : h.outSize + salt.length + 2 ≤ (bitLen k.n - 1 + 7) / 8) :
    ∃ sig, signPSSWithSalt k h hashed salt = .ok sig ∧
      verifyPSS k.pub h hashed sig salt.length = .ok () ∧
      verifyPSS k.pub h hashed sig 0 = .ok () ∧
      (salt.length = h.outSize → verifyPSS k.pub h hashed sig (-1) = .ok ()) := by
  have hcore := crt_eq_plain hk
  have henc := encrypt_decrypt hk
  obtain ⟨em, hem, hv1, hv2, hv3⟩ := pss_verify_encode hh hashed salt (bitLen k.n - 1) hmh hbound
  obtain ⟨_, _, hemdef⟩ := (pss_encode_ok_iff ..).1 hem
  have hemlen : em.length = (bitLen k.n - 1 + 7) / 8 := by rw [hemdef]; exact pssEM_length hh _ _ _ hbound
  have hle := emLen_le_sizeBytes k.n
  -- the left-padded encoded message
  obtain ⟨em', hem'⟩ : ∃ em', em' = (if em.length < sizeBytes k.n then
      List.replicate (sizeBytes k.n - em.length) 0 ++ em else em) := ⟨_, rfl⟩
  have hpad : em' = List.replicate (sizeBytes k.n - em.length) 0 ++ em := by
    rw [hem']; split
    · rfl
    · rw [show sizeBytes k.n - em.length = 0 by omega]; rfl
  have hlen' : em'.length = sizeBytes k.n := by
    rw [hpad, List.length_append, List.length_replicate]; omega
  have hlt : os2ip em' < k.n := by
    rw [hpad, os2ip_replicate_zero, hemdef]
    exact Nat.lt_of_lt_of_le (os2ip_pssEM_lt hh _ _ _ hbound) (two_pow_emBits_le hk.n_pos)
  have hdec := decrypt_ok_of_lt hcore henc em' true hlt
  have hsign : signPSSWithSalt k h hashed salt = .ok (natToBytesBE (sizeBytes k.n) (decryptCore k (os2ip em'))) := by
    unfold signPSSWithSalt
    dsimp only
    rw [hem]
    dsimp only
    rw [← hem']
    exact hdec
  obtain ⟨h1, h2, h3⟩ := decrypt_then_encrypt hcore henc em' _ true hlen' hdec
  have hver : ∀ sl : Int, -1 ≤ sl → emsaPSSVerify h hashed em (bitLen k.n - 1) sl = .ok () →
      verifyPSS k.pub h hashed (natToBytesBE (sizeBytes k.n) (decryptCore k (os2ip em'))) sl = .ok () := by
    intro sl hsl hv
    unfold verifyPSS
    rw [hk.checkPub_eq he]
    simp only
    rw [if_neg (by rw [h1]; simp), if_neg (by omega), h3]
    simp only
    rw [hpad, stripTo_pad _ _ _ hemlen]
    exact hv
  exact ⟨_, hsign, hver _ (by omega) hv1, hver _ (by omega) hv2, fun hs => hver _ (by omega) (hv3 hs)⟩

/-- `SignPSS` followed by `VerifyPSS` with the same options: every signature `SignPSS` returns — for
    `PSSSaltLengthAuto` (0: the largest salt that fits), `PSSSaltLengthEqualsHash` (-1) or an explicit positive salt
    length, whatever the random stream — is accepted. -/
theorem pss_verify_of_sign {k : Priv} (hk : KeyOk k) (he : 2 ≤ k.e) {h : HashAlg} (hh : HashOk h)
    {digest rnd sig : Bytes} {saltLength : Int} (hs : signPSS k h digest saltLength rnd = .ok sig) :
    verifyPSS k.pub h digest sig saltLength = .ok () := by
  unfold signPSS at hs
  -- the salt length `SignPSS` settles on
  obtain ⟨slR, hslR⟩ : ∃ slR : Res Nat, slR = (if saltLength = 0 then
      (if ((((bitLen k.n - 1 + 7) / 8 : Nat) : Int) - 2 - (h.outSize : Int)) < 0 then Res.err
       else Res.ok ((((bitLen k.n - 1 + 7) / 8 : Nat) : Int) - 2 - (h.outSize : Int)).toNat)
      else if saltLength = -1 then Res.ok h.outSize
      else if saltLength ≤ 0 then Res.err else Res.ok saltLength.toNat) := ⟨_, rfl⟩
  simp only at hs
  rw [← hslR] at hs
  cases hsl : slR with
  | err => rw [hsl] at hs; contradiction
  | panic => rw [hsl] at hs; contradiction
  | ok sl =>
    rw [hsl] at hs
    simp only at hs
    split at hs
    · contradiction
    · next hrnd =>
      have hsaltlen : (rnd.take sl).length = sl := by rw [List.length_take]; omega
      -- `signPSSWithSalt` succeeded, so the guards of `emsaPSSEncode` hold
      have hguards : digest.length = h.outSize ∧ h.outSize + sl + 2 ≤ (bitLen k.n - 1 + 7) / 8 := by
        unfold signPSSWithSalt at hs
        dsimp only at hs
        cases henc : emsaPSSEncode h digest (bitLen k.n - 1) (rnd.take sl) with
        | err => rw [henc] at hs; contradiction
        | panic => rw [henc] at hs; contradiction
        | ok em =>
          obtain ⟨a, b, _⟩ := (pss_encode_ok_iff ..).1 henc
          rw [hsaltlen] at b
          exact ⟨a, b⟩
      obtain ⟨sig', hs', hv1, hv2, hv3⟩ := pss_sign_verify hk he hh digest (rnd.take sl) hguards.1
        (by rw [hsaltlen]; exact hguards.2)
      rw [hs] at hs'
      have := Res.ok.inj hs'
      subst this
      rw [hsaltlen] at hv1 hv3
      -- which of the three modes
      by_cases h0 : saltLength = 0
      · rw [h0]; exact hv2
      · by_cases h1 : saltLength = -1
        · rw [h1]
          apply hv3
          rw [hslR, if_neg h0, if_pos h1] at hsl
          exact (Res.ok.inj hsl).symm
        · rw [hslR, if_neg h0, if_neg h1] at hsl
          split at hsl
          · contradiction
          · have := Res.ok.inj hsl
            have hcast : saltLength = (sl : Int) := by omega
            rw [hcast]; exact hv1

/-! ### RSAES-OAEP: encrypt, then decrypt -/

/-- the padding layer alone: for every hash with the length property, every seed of `hLen` octets, every message and
    label, unpadding the padded message gives the message back (`oaepPad`/`oaepUnpad` are the bodies of
    `EncryptOAEP`/`decryptOAEP` around the RSA operation: `encryptOAEP_eq`, `decryptOAEP_eq`). -/
theorem oaep_unpad_pad {h : HashAlg} (hk : HashOk h) (k : Nat) (seed msg label : Bytes)
    (hseed : seed.length = h.outSize) : oaepUnpad h h (oaepPad h k seed msg label) label = .ok msg :=
  oaepUnpad_oaepPad hk k seed msg label hseed

/-- Whatever `EncryptOAEP` returns under the public half of a valid key, `decryptOAEP` (same hash for the label and for
    MGF1, same label) decrypts to the message. -/
theorem oaep_decrypt_of_encrypt {k : Priv} (hk : KeyOk k) (he : 2 ≤ k.e) {h : HashAlg} (hh : HashOk h)
    {rnd msg label c : Bytes} (henc : encryptOAEP h k.pub rnd msg label = .ok c) :
    decryptOAEP h h k c label = .ok msg := by
  rw [encryptOAEP_eq, hk.checkPub_eq he] at henc
  simp only at henc
  split at henc
  · contradiction
  · next hmsg =>
    split at henc
    · contradiction
    · next hrnd =>
      have hseed : (rnd.take h.outSize).length = h.outSize := by rw [List.length_take]; omega
      have hlen := oaepPad_length hh (sizeBytes k.n) (rnd.take h.outSize) msg label hseed (by omega)
      obtain ⟨hc, hd⟩ := encrypt_then_decrypt (decrypt_encrypt hk) _ c hlen henc
      rw [decryptOAEP_eq, hk.checkPub_eq he]
      simp only
      rw [if_neg (by rw [hc]; omega), hd]
      exact oaep_unpad_pad hh _ _ _ _ hseed

/-- and `EncryptOAEP` does succeed for every message within the RFC 8017 length bound `mLen ≤ k - 2hLen - 2` given
    `hLen` octets of randomness (the padded message starts with 00, hence is below the modulus): the full round trip. -/
theorem oaep_decrypt_encrypt {k : Priv} (hk : KeyOk k) (he : 2 ≤ k.e) {h : HashAlg} (hh : HashOk h)
    (rnd msg label : Bytes) (hmsg : msg.length + 2 * h.outSize + 2 ≤ sizeBytes k.n) (hrnd : h.outSize ≤ rnd.length) :
    ∃ c, encryptOAEP h k.pub rnd msg label = .ok c ∧ decryptOAEP h h k c label = .ok msg := by
  have hseed : (rnd.take h.outSize).length = h.outSize := by rw [List.length_take]; omega
  have hlen := oaepPad_length hh (sizeBytes k.n) (rnd.take h.outSize) msg label hseed hmsg
  have hlt : os2ip (oaepPad h (sizeBytes k.n) (rnd.take h.outSize) msg label) < k.n := by
    have : ∃ rest, oaepPad h (sizeBytes k.n) (rnd.take h.outSize) msg label = 0 :: rest := ⟨_, rfl⟩
    obtain ⟨rest, hr⟩ := this
    rw [hr] at hlen ⊢
    exact os2ip_00_lt hk.n_pos rest hlen
  have hex : ∃ c, encryptOAEP h k.pub rnd msg label = .ok c := by
    rw [encryptOAEP_eq, hk.checkPub_eq he]
    simp only
    rw [if_neg (by omega), if_neg (by omega), encrypt_eq, if_pos hlt]
    exact ⟨_, rfl⟩
  obtain ⟨c, hc⟩ := hex
  exact ⟨c, hc, oaep_decrypt_of_encrypt hk he hh hc⟩


/-- the OAEP unpadding accepts EXACTLY the paddings: a `k`-octet string (`k ≥ 2hLen + 2`) unpads to `msg` iff it is
    `oaepPad` of `msg` under some seed of `hLen` octets (and `msg` respects the length bound) -/
theorem oaep_unpad_iff {h : HashAlg} (hk : HashOk h) (k : Nat) (em label msg : Bytes)
    (hlen : em.length = k) (hk2 : 2 * h.outSize + 2 ≤ k) :
    oaepUnpad h h em label = .ok msg ↔
      ∃ seed, seed.length = h.outSize ∧ msg.length + 2 * h.outSize + 2 ≤ k ∧ em = oaepPad h k seed msg label := by
  constructor
  · exact oaepUnpad_ok_inv hk k hlen hk2
  · rintro ⟨seed, hs, _, rfl⟩
    exact oaep_unpad_pad hk k seed msg label hs

/-- On a valid key `decryptOAEP` returns `msg` for EXACTLY the ciphertexts that are (up to leading zero octets, which
    `decryptOAEP` tolerates) an `EncryptOAEP` of `msg` under some seed: nothing else decrypts. -/
theorem oaep_decrypt_iff {k : Priv} (hk : KeyOk k) (he : 2 ≤ k.e) {h : HashAlg} (hh : HashOk h) (c label msg : Bytes) :
    decryptOAEP h h k c label = .ok msg ↔
      c.length ≤ sizeBytes k.n ∧ ∃ seed, seed.length = h.outSize ∧
        encryptOAEP h k.pub seed msg label = .ok (List.replicate (sizeBytes k.n - c.length) 0 ++ c) := by
  constructor
  · intro hd
    rw [decryptOAEP_eq, hk.checkPub_eq he] at hd
    dsimp only at hd
    split at hd
    · contradiction
    · next hg =>
      have hcl : c.length ≤ sizeBytes k.n := by omega
      have hk2 : 2 * h.outSize + 2 ≤ sizeBytes k.n := by omega
      by_cases hlt : os2ip c < k.n
      · rw [decrypt_ok_of_lt (crt_eq_plain hk) (encrypt_decrypt hk) c false hlt] at hd
        dsimp only at hd
        obtain ⟨seed, hs, hm, hem⟩ := oaepUnpad_ok_inv hh (sizeBytes k.n) (natToBytesBE_length _ _) hk2 hd
        refine ⟨hcl, seed, hs, ?_⟩
        have hcore : decryptCore k (os2ip c) < k.n := by
          rw [crt_eq_plain hk]; exact Nat.mod_lt _ hk.n_pos
        rw [encryptOAEP_eq, hk.checkPub_eq he]
        dsimp only
        rw [if_neg (by omega), if_neg (by omega), List.take_of_length_le (by omega), ← hem, encrypt_eq,
          os2ip_natToBytesBE_of_lt (Nat.lt_trans hcore (lt_pow_sizeBytes _)), if_pos hcore, ← modPow_eq,
          encrypt_decrypt hk _ hlt]
        congr 1
        have hpl : (List.replicate (sizeBytes k.n - c.length) 0 ++ c).length = sizeBytes k.n := by
          rw [List.length_append, List.length_replicate]; omega
        have hb := natToBytesBE_os2ip (List.replicate (sizeBytes k.n - c.length) 0 ++ c)
        rw [hpl, os2ip_replicate_zero] at hb
        exact hb
      · unfold decrypt at hd
        rw [if_pos (by omega)] at hd
        contradiction
  · rintro ⟨hcl, seed, hs, henc⟩
    have hd := oaep_decrypt_of_encrypt hk he hh henc
    rw [decryptOAEP_eq, hk.checkPub_eq he] at hd ⊢
    dsimp only at hd ⊢
    split at hd
    · contradiction
    · next hg =>
      rw [if_neg (by omega)]
      rw [decrypt_pad] at hd
      exact hd

/-! ### RSAES-PKCS1-v1_5: encrypt, then decrypt -/

/-- Whatever `EncryptPKCS1v15` returns under the public half of a valid key — for every random stream, including the
    re-draws of zero octets — `DecryptPKCS1v15` decrypts to the message: the padding string has no zero octet and at
    least 8 octets, so the separator scan stops exactly in front of the message. -/
theorem pkcs1_decrypt_of_encrypt {k : Priv} (hk : KeyOk k) (he : 2 ≤ k.e) {rnd msg c : Bytes}
    (henc : encryptPKCS1v15 k.pub rnd msg = .ok c) : decryptPKCS1v15 k c = .ok msg := by
  unfold encryptPKCS1v15 at henc
  rw [hk.checkPub_eq he] at henc
  dsimp only at henc
  split at henc
  · contradiction
  · next hmsg =>
    cases hps : nonZeroRandomBytes (sizeBytes k.n - msg.length - 3) rnd with
    | none => rw [hps] at henc; contradiction
    | some ps =>
      rw [hps] at henc
      dsimp only at henc
      obtain ⟨hpl, hnz⟩ := nonZeroRandomBytes_spec hps
      have hlen : (0 :: 2 :: (ps ++ (0 :: msg)) : Bytes).length = sizeBytes k.n := by
        simp only [List.length_cons, List.length_append, hpl]; omega
      obtain ⟨_, hd⟩ := encrypt_then_decrypt (decrypt_encrypt hk) _ c hlen henc
      unfold decryptPKCS1v15
      rw [hk.checkPub_eq he]
      dsimp only
      rw [if_neg (by omega), hd]
      dsimp only
      rw [firstZeroFrom2_em 0 2 ps msg hnz]
      dsimp only
      rw [if_pos ⟨rfl, rfl, by omega⟩, drop_em]

/-- and `EncryptPKCS1v15` succeeds for every message of at most `k - 11` octets whenever the random stream suffices
    for the padding string (`00 02 …` is below the modulus): the full round trip. -/
theorem pkcs1_decrypt_encrypt {k : Priv} (hk : KeyOk k) (he : 2 ≤ k.e) (rnd msg ps : Bytes)
    (hmsg : msg.length + 11 ≤ sizeBytes k.n)
    (hps : nonZeroRandomBytes (sizeBytes k.n - msg.length - 3) rnd = some ps) :
    ∃ c, encryptPKCS1v15 k.pub rnd msg = .ok c ∧ decryptPKCS1v15 k c = .ok msg := by
  obtain ⟨hpl, _⟩ := nonZeroRandomBytes_spec hps
  have hlen : (0 :: 2 :: (ps ++ (0 :: msg)) : Bytes).length = sizeBytes k.n := by
    simp only [List.length_cons, List.length_append, hpl]; omega
  have hlt := os2ip_00_lt hk.n_pos _ hlen
  have hex : ∃ c, encryptPKCS1v15 k.pub rnd msg = .ok c := by
    unfold encryptPKCS1v15
    rw [hk.checkPub_eq he]
    dsimp only
    rw [if_neg (by omega), hps]
    dsimp only
    rw [encrypt_eq, if_pos hlt]
    exact ⟨_, rfl⟩
  obtain ⟨c, hc⟩ := hex
  exact ⟨c, hc, pkcs1_decrypt_of_encrypt hk he hc⟩

/-- decision logic of `DecryptPKCS1v15` on a valid key, for all ciphertexts: it returns `msg` exactly when the
    ciphertext is (as an integer) below the modulus, the modulus has at least 11 octets, and `c^d mod n` written on
    `Size()` octets is `00 02 ‖ PS ‖ 00 ‖ msg` with a zero-free `PS` of at least 8 octets. -/
theorem pkcs1_decrypt_iff {k : Priv} (hk : KeyOk k) (he : 2 ≤ k.e) (c msg : Bytes) :
    decryptPKCS1v15 k c = .ok msg ↔
      11 ≤ sizeBytes k.n ∧ os2ip c < k.n ∧ ∃ ps, (∀ b ∈ ps, b ≠ 0) ∧ 8 ≤ ps.length ∧
        natToBytesBE (sizeBytes k.n) (os2ip c ^ k.d % k.n) = 0 :: 2 :: (ps ++ 0 :: msg) := by
  unfold decryptPKCS1v15
  rw [hk.checkPub_eq he]
  dsimp only
  by_cases h11 : sizeBytes k.n < 11
  · rw [if_pos h11]
    constructor
    · intro h; contradiction
    · rintro ⟨h, _⟩; omega
  rw [if_neg h11]
  by_cases hlt : os2ip c < k.n
  · rw [decrypt_ok_of_lt (crt_eq_plain hk) (encrypt_decrypt hk) c false hlt, crt_eq_plain hk]
    dsimp only
    have hl := natToBytesBE_length (sizeBytes k.n) (os2ip c ^ k.d % k.n)
    cases hem : natToBytesBE (sizeBytes k.n) (os2ip c ^ k.d % k.n) with
    | nil => rw [hem] at hl; simp at hl; omega
    | cons b0 t0 =>
      cases t0 with
      | nil => rw [hem] at hl; simp at hl; omega
      | cons b1 t =>
        dsimp only
        constructor
        · intro hd
          cases hfz : firstZeroFrom2 (b0 :: b1 :: t) with
          | none => rw [hfz] at hd; contradiction
          | some idx =>
            rw [hfz] at hd
            dsimp only at hd
            split at hd
            · next hc =>
              obtain ⟨hb0, hb1, hidx⟩ := hc
              obtain ⟨ps, hnz, hi, ht⟩ := firstZeroFrom2_inv hfz
              have hm := Res.ok.inj hd
              rw [hm] at ht
              refine ⟨by omega, hlt, ps, hnz, by omega, ?_⟩
              rw [hb0, hb1, ← ht]
            · contradiction
        · rintro ⟨_, _, ps, hnz, hps, heq⟩
          have e := List.cons.inj heq
          have e' := List.cons.inj e.2
          rw [e.1, e'.1, e'.2, firstZeroFrom2_em 0 2 ps msg hnz]
          dsimp only
          rw [if_pos ⟨rfl, rfl, by omega⟩, drop_em]
  · have : decrypt k c false = .err := by unfold decrypt; rw [if_pos (by omega)]
    rw [this]
    dsimp only
    constructor
    · intro h; contradiction
    · rintro ⟨_, h, _⟩; exact absurd h hlt

/-! ### the private-key operations never panic on a valid key -/

theorem checkPub_never_panics (p : Pub) : checkPub p ≠ .panic := by
  unfold checkPub
  split
  · simp
  · split
    · simp
    · split
      · simp
      · split <;> simp

/-- `decrypt` on a valid key returns an error (input ≥ n) or exactly `Size()` octets — the slice expression of the
    big-endian copy (`Res.panic` in the model) is out of reach because the result is below the modulus. -/
theorem decrypt_total {k : Priv} (hk : KeyOk k) (c : Bytes) (check : Bool) :
    decrypt k c check = .err ∨ ∃ em, decrypt k c check = .ok em ∧ em.length = sizeBytes k.n := by
  by_cases hlt : os2ip c < k.n
  · right
    exact ⟨_, decrypt_ok_of_lt (crt_eq_plain hk) (encrypt_decrypt hk) c check hlt, natToBytesBE_length _ _⟩
  · left
    unfold decrypt
    rw [if_pos (by omega)]

/-- `DecryptPKCS1v15` never panics on a valid key, whatever the ciphertext (the `em[0]`, `em[1]` accesses are in range) -/
theorem decryptPKCS1v15_never_panics {k : Priv} (hk : KeyOk k) (c : Bytes) : decryptPKCS1v15 k c ≠ .panic := by
  unfold decryptPKCS1v15
  split
  · simp
  · next hp => exact absurd hp (checkPub_never_panics _)
  · split
    · simp
    · next h11 =>
      rcases decrypt_total hk c false with he | ⟨em, he, hl⟩
      · rw [he]; simp
      · rw [he]
        dsimp only
        split
        · split
          · simp
          · split <;> simp
        · next hne =>
          exfalso
          cases em with
          | nil => simp at hl; omega
          | cons a t =>
            cases t with
            | nil => simp at hl; omega
            | cons b t' => exact hne a b t' rfl

/-- `decryptOAEP` never panics on a valid key, whatever the ciphertext, label and hashes (the `em[0]` access is in range) -/
theorem decryptOAEP_never_panics {k : Priv} (hk : KeyOk k) (h mgf : HashAlg) (c label : Bytes) :
    decryptOAEP h mgf k c label ≠ .panic := by
  rw [decryptOAEP_eq]
  split
  · simp
  · next hp => exact absurd hp (checkPub_never_panics _)
  · split
    · simp
    · next hg =>
      rcases decrypt_total hk c false with he | ⟨em, he, hl⟩
      · rw [he]; simp
      · rw [he]
        dsimp only
        unfold oaepUnpad
        cases em with
        | nil => simp at hl; omega
        | cons b0 body =>
          dsimp only
          split
          · simp
          · split <;> simp

/-! ### the hypotheses are satisfiable -/

/-- p = 11, q = 13, e = 7, d = 103 with the values `Precompute` derives -/
def toyKey : Priv := ⟨143, 7, 103, [11, 13], some (3, 7, 6)⟩

example : KeyOk toyKey where
  primes_prime := by
    intro p hp
    simp [toyKey] at hp
    rcases hp with rfl | rfl
    · exact prime_11
    · exact prime_13
  nodup := by decide
  n_eq := by decide
  ed := by
    intro p hp
    simp [toyKey] at hp
    rcases hp with rfl | rfl <;> decide
  pre_ok := by
    intro dp dq qinv hpre p q hpq
    simp [toyKey] at hpre hpq
    obtain ⟨rfl, rfl, rfl⟩ := hpre
    obtain ⟨rfl, rfl⟩ := hpq
    decide

example : Malformed ⟨some 0, some 65537⟩ := Or.inr (Or.inl ⟨0, rfl, by decide⟩)
example : Malformed ⟨some 143, none⟩ := Or.inr (Or.inr (Or.inl rfl))

/-! ### the hypotheses of the padding theorems are satisfiable (real SHA-256, a 622-bit 40-prime key) -/

/-- the length hypothesis holds for the real SHA-256 (and for every algorithm `hashAlg` returns: `hashAlg_ok`) -/
example : HashOk HashAlg.sha256 := hashOk_sha256
example : ∀ m, (HashAlg.sha256.hash m).length = HashAlg.sha256.outSize := sha256_length
example : ∀ id a, hashAlg id = some a → HashOk a := fun _ _ => hashAlg_ok

/-- `key40` (`ZV.Proofs.C23Key`): 40 distinct 16-bit primes, e = 65537, d = e⁻¹ mod lcm(pᵢ-1) — a valid 622-bit key -/
theorem key40_ok : KeyOk key40 where
  primes_prime := key40_primes
  nodup := by decide
  n_eq := by decide
  ed := key40_ed
  pre_ok := by
    intro dp dq qinv hpre
    simp [key40] at hpre

/-- `pss_verify_encode` with SHA-256, a 32-octet salt and a 1024-bit modulus (`emBits = 1023`) -/
example (mHash salt : Bytes) (h1 : mHash.length = 32) (h2 : salt.length = 32) :
    ∃ em, emsaPSSEncode .sha256 mHash 1023 salt = .ok em ∧ emsaPSSVerify .sha256 mHash em 1023 (-1) = .ok () := by
  obtain ⟨em, he, _, _, hv⟩ := pss_verify_encode hashOk_sha256 mHash salt 1023 h1 (by rw [h2]; decide)
  exact ⟨em, he, hv h2⟩

/-- `pkcs1_sign_verify` / `pkcs1_verify_iff_sign`: SHA-256 DigestInfo under `key40` -/
example (dg : Bytes) (hd : dg.length = 32) :
    ∃ sig, signPKCS1v15 key40 5 dg = .ok sig ∧ verifyPKCS1v15 key40.pub 5 dg sig = .ok () := by
  have hem : ∃ em, constructEM (sizeBytes key40.n) 5 dg = .ok em := by
    unfold constructEM emPrefix
    rw [hd, key40_size.1]
    exact ⟨_, rfl⟩
  obtain ⟨em, hem⟩ := hem
  exact pkcs1_sign_verify key40_ok (by decide) hem

/-- `pss_sign_verify` / `pss_verify_of_sign`: SHA-256, salt of 32 octets under `key40` (emLen = 78 ≥ 32 + 32 + 2) -/
example (dg salt : Bytes) (hd : dg.length = 32) (hs : salt.length = 32) :
    ∃ sig, signPSSWithSalt key40 .sha256 dg salt = .ok sig ∧ verifyPSS key40.pub .sha256 dg sig (-1) = .ok () := by
  obtain ⟨sig, h1, _, _, h4⟩ := pss_sign_verify key40_ok (by decide) hashOk_sha256 dg salt hd
    (by rw [hs, key40_size.2]; decide)
  exact ⟨sig, h1, h4 hs⟩

/-- `oaep_decrypt_encrypt`: SHA-256, messages up to 78 - 66 = 12 octets under `key40` -/
example (rnd msg label : Bytes) (hm : msg.length ≤ 12) (hr : 32 ≤ rnd.length) :
    ∃ c, encryptOAEP .sha256 key40.pub rnd msg label = .ok c ∧ decryptOAEP .sha256 .sha256 key40 c label = .ok msg :=
  oaep_decrypt_encrypt key40_ok (by decide) hashOk_sha256 rnd msg label
    (by rw [key40_size.1]; show msg.length + 2 * 32 + 2 ≤ 78; omega) hr

/-- `pkcs1_decrypt_encrypt` under `key40`: an all-nonzero stream needs no re-draw -/
example : ∃ c, encryptPKCS1v15 key40.pub (List.replicate 72 7) [1, 2, 3] = .ok c ∧
    decryptPKCS1v15 key40 c = .ok [1, 2, 3] :=
  pkcs1_decrypt_encrypt key40_ok (by decide) _ _ (List.replicate 72 7)
    (by rw [key40_size.1]; decide) (by rw [key40_size.1]; decide)

/-! ### RSASSA-PSS: the octets above the encoded message (modulus bit length = 1 mod 8, `emLen = k-1`) -/

/-- The leading-octet stripping loop of `VerifyPSS` (modulus of 8k+1 bits: `emLen = k-1`) only ever removes ZERO octets,
    and removes exactly as many as needed: if it succeeds, the input was `0…0 ++ em'` with `em'` the last
    `min em.length emLen` octets.  (Replacing the loop by a plain slice to `emLen` — dropping a non-zero leading octet of
    `s^e mod n` unchecked — falsifies this.) -/
theorem stripTo_zeros (emLen : Nat) (em em' : Bytes) (h : stripTo emLen em = some em') :
    em = List.replicate (em.length - em'.length) 0 ++ em' ∧ em'.length = min em.length emLen := by
  induction em with
  | nil =>
    simp [stripTo] at h
    subst h
    simp
  | cons b rest ih =>
    unfold stripTo at h
    split at h
    · next hlen =>
      split at h
      · simp at h
      · next hb =>
        have hb0 : b = 0 := by simpa using hb
        obtain ⟨h1, h2⟩ := ih h
        have hle : em'.length ≤ rest.length := by rw [h2]; exact Nat.min_le_left _ _
        have hlen' : emLen ≤ rest.length := by simp at hlen; omega
        refine ⟨?_, ?_⟩
        · have : (b :: rest).length - em'.length = (rest.length - em'.length) + 1 := by simp; omega
          rw [this, List.replicate_succ, hb0]
          simp only [List.cons_append]
          rw [← h1]
        · rw [h2]; simp; omega
    · next hlen =>
      simp at h
      subst h
      simp at hlen ⊢
      omega

/-- a non-zero octet in front of more than `emLen` octets is rejected -/
theorem stripTo_nonzero_head (emLen : Nat) (b : UInt8) (rest : Bytes) (hb : b ≠ 0) (hl : emLen ≤ rest.length) :
    stripTo emLen (b :: rest) = none := by
  unfold stripTo
  have : emLen < rest.length + 1 := by omega
  simp [this, hb]

/-- hence `VerifyPSS` rejects whenever `s^e mod n`, written on `k` octets, starts with a non-zero octet that lies above the
    `emLen` octets of the encoded message (`emLen < k`, i.e. modulus bit length = 1 mod 8) -/
theorem verifyPSS_leading_octet {pub : Pub} {h : HashAlg} {dg sig : Bytes} {sl : Int} {n e : Nat} {b : UInt8} {rest : Bytes}
    (hp : checkPub pub = .ok (n, e)) (henc : encrypt n e sig = .ok (b :: rest)) (hb : b ≠ 0)
    (hl : (bitLen n - 1 + 7) / 8 ≤ rest.length) :
    verifyPSS pub h dg sig sl ≠ .ok () := by
  unfold verifyPSS
  rw [hp]
  simp only
  split
  · simp
  · split
    · simp
    · rw [henc]
      simp only
      rw [stripTo_nonzero_head _ b rest hb hl]
      simp

example : stripTo 2 [0, 0, 5, 6] = some [5, 6] := by decide
example : stripTo 2 [1, 5, 6] = none := by decide
/-! ### EMSA-PSS / `VerifyPSS`: what is accepted, for all inputs -/

/-- `emsaPSSVerify` accepts EXACTLY the outputs of `emsaPSSEncode`: `em` is accepted for salt-length option `sl` iff it is
    the encoding of the digest under some salt whose length the option allows (`0` = any length, `-1` = `hLen`).
    So a verified message has the RFC 8017 §9.1.1 shape for all inputs, not only on generated ones. -/
theorem pss_verify_iff {h : HashAlg} (hk : HashOk h) (mHash em : Bytes) (emBits : Nat) (sl : Int) :
    emsaPSSVerify h mHash em emBits sl = .ok () ↔
      ∃ salt, emsaPSSEncode h mHash emBits salt = .ok em ∧
        (sl = 0 ∨ sl = salt.length ∨ (sl = -1 ∧ salt.length = h.outSize)) := by
  constructor
  · intro hv
    obtain ⟨salt, hem, h1, h2, h3⟩ := emsaPSSVerify_ok_inv hk hv
    exact ⟨salt, (pss_encode_ok_iff ..).2 ⟨h1, h2, hem⟩, h3⟩
  · rintro ⟨salt, he, hmode⟩
    obtain ⟨v1, v2, v3⟩ := pss_verify_of_encode hk he
    rcases hmode with rfl | rfl | ⟨rfl, hs⟩
    · exact v2
    · exact v1
    · exact v3 hs

/-- `VerifyPSS` never panics, whatever the key, signature, digest and salt-length option (no hypothesis on the hash):
    the index expressions of `emsaPSSVerify` are guarded and the representative `s^e mod n` always fits `Size()` octets. -/
theorem verifyPSS_never_panics (pub : Pub) (h : HashAlg) (dg sig : Bytes) (sl : Int) :
    verifyPSS pub h dg sig sl ≠ .panic := by
  unfold verifyPSS
  cases hc : checkPub pub with
  | err => simp
  | panic =>
    exfalso
    unfold checkPub at hc
    split at hc
    · contradiction
    · split at hc
      · contradiction
      · split at hc
        · contradiction
        · split at hc <;> contradiction
  | ok ne =>
    obtain ⟨n, e⟩ := ne
    dsimp only
    split
    · simp
    · split
      · simp
      · next hsl =>
        rw [encrypt_eq]
        by_cases hlt : os2ip sig < n
        · rw [if_pos hlt]
          dsimp only
          split
          · simp
          · exact emsaPSSVerify_no_panic _ _ _ _ _ (by omega)
        · rw [if_neg hlt]; simp

/-- decision logic of `VerifyPSS` for all inputs: it accepts exactly when the key is well-formed, the signature has
    `Size()` octets and is below the modulus, the option is ≥ -1, and `s^e mod n` written on `Size()` octets is
    zero octets (none, or one for moduli of 8k+1 bits) followed by an EMSA-PSS encoding of the digest on
    `emBits = modBits - 1` bits under a salt the option allows. -/
theorem verifyPSS_iff {h : HashAlg} (hk : HashOk h) (pub : Pub) (dg sig : Bytes) (sl : Int) :
    verifyPSS pub h dg sig sl = .ok () ↔
      ∃ n e salt em, checkPub pub = .ok (n, e) ∧ sig.length = sizeBytes n ∧ os2ip sig < n ∧ -1 ≤ sl ∧
        emsaPSSEncode h dg (bitLen n - 1) salt = .ok em ∧
        (sl = 0 ∨ sl = salt.length ∨ (sl = -1 ∧ salt.length = h.outSize)) ∧
        natToBytesBE (sizeBytes n) (os2ip sig ^ e % n) = List.replicate (sizeBytes n - em.length) 0 ++ em := by
  unfold verifyPSS
  cases hc : checkPub pub with
  | err => simp
  | panic => simp
  | ok ne =>
    obtain ⟨n, e⟩ := ne
    dsimp only
    have inj : ∀ n' e', (Res.ok (n, e) : Res (Nat × Nat)) = .ok (n', e') → n' = n ∧ e' = e := by
      intro n' e' h
      have := Res.ok.inj h
      simp at this
      exact ⟨this.1.symm, this.2.symm⟩
    constructor
    · intro hv
      split at hv
      · contradiction
      · next hl =>
        split at hv
        · contradiction
        · next hsl =>
          rw [encrypt_eq] at hv
          by_cases hlt : os2ip sig < n
          · rw [if_pos hlt] at hv
            dsimp only at hv
            cases hst : stripTo ((bitLen n - 1 + 7) / 8) (natToBytesBE (sizeBytes n) (os2ip sig ^ e % n)) with
            | none => rw [hst] at hv; contradiction
            | some em =>
              rw [hst] at hv
              dsimp only at hv
              obtain ⟨salt, he, hmode⟩ := (pss_verify_iff hk ..).1 hv
              obtain ⟨z1, _⟩ := stripTo_zeros _ _ _ hst
              rw [natToBytesBE_length] at z1
              exact ⟨n, e, salt, em, rfl, by simpa using hl, hlt, by omega, he, hmode, z1⟩
          · rw [if_neg hlt] at hv; contradiction
    · rintro ⟨n', e', salt, em, hne, hl, hlt, hsl, he, hmode, hb⟩
      obtain ⟨rfl, rfl⟩ := inj _ _ hne
      rw [if_neg (by simp [hl]), if_neg (by omega), encrypt_eq, if_pos hlt]
      dsimp only
      obtain ⟨_, hbound, hem⟩ := (pss_encode_ok_iff ..).1 he
      have hemlen : em.length = (bitLen n' - 1 + 7) / 8 := by rw [hem]; exact pssEM_length hk _ _ _ hbound
      rw [hb, stripTo_pad _ _ _ hemlen]
      dsimp only
      exact (pss_verify_iff hk ..).2 ⟨salt, he, hmode⟩

example : HashOk HashAlg.sha512 := hashOk_sha512

/-! ### options structs and stateful arguments (the `seq` stream) -/

/-- `VerifyPSS` never looks at `opts.Hash`: two options values that differ only in `Hash` give the same verdict, which
    is the verdict under the positional `hash` (a verifier that lets `opts.Hash` override `hash` breaks this). -/
theorem verifyPSSOpts_ignores_hash (pub : Pub) (hash : Nat) (dg sig : Bytes) (sl : Int) (h₁ h₂ : Nat) :
    verifyPSSOpts pub hash dg sig (some ⟨sl, h₁⟩) = verifyPSSOpts pub hash dg sig (some ⟨sl, h₂⟩) := rfl

/-- nil options are `PSSSaltLengthAuto` -/
theorem verifyPSSOpts_nil (pub : Pub) (hash : Nat) (dg sig : Bytes) (h₁ : Nat) :
    verifyPSSOpts pub hash dg sig none = verifyPSSOpts pub hash dg sig (some ⟨0, h₁⟩) := rfl

/-- `SignPSS`: a set `opts.Hash` replaces the positional hash entirely … -/
theorem signPSSOpts_override (k : Priv) (hash hash' : Nat) (dg rnd : Bytes) (o : PSSOpts) (ho : o.hash ≠ 0) :
    signPSSOpts k hash dg (some o) rnd = signPSSOpts k hash' dg (some o) rnd := by
  simp [signPSSOpts, signPSSHash, ho]

/-- … and an unset one (or nil options) leaves it alone. -/
theorem signPSSOpts_unset (k : Priv) (hash : Nat) (dg rnd : Bytes) (sl : Int) {ha : HashAlg} (hh : hashAlg hash = some ha) :
    signPSSOpts k hash dg (some ⟨sl, 0⟩) rnd = some (signPSS k ha dg sl rnd) ∧
    signPSSOpts k hash dg none rnd = some (signPSS k ha dg 0 rnd) := by
  simp [signPSSOpts, signPSSHash, pssSaltLength, hh]

/-- sign with options, verify with the same options under the hash `SignPSS` really used: accepted, whatever the
    `Hash` field of the verifier's options says. -/
theorem pss_opts_sign_verify {k : Priv} (hk : KeyOk k) (he : 2 ≤ k.e) {hash : Nat} {dg rnd sig : Bytes}
    {o : Option PSSOpts} (hs : signPSSOpts k hash dg o rnd = some (.ok sig)) (hv : Nat) :
    verifyPSSOpts k.pub (signPSSHash hash o) dg sig (some ⟨pssSaltLength o, hv⟩) = some (.ok ()) := by
  unfold signPSSOpts at hs
  unfold verifyPSSOpts
  cases hh : hashAlg (signPSSHash hash o) with
  | none => rw [hh] at hs; contradiction
  | some ha =>
    rw [hh] at hs
    simp only [Option.some.injEq] at hs
    have := pss_verify_of_sign hk he (hashAlg_ok hh) hs
    simp only [pssSaltLength] at this ⊢
    rw [this]

/-- the reader-tracking variants compute what the plain functions compute -/
theorem signPSSR_fst (k : Priv) (h : HashAlg) (dg : Bytes) (sl : Int) (rnd : Bytes) :
    (signPSSR k h dg sl rnd).1 = signPSS k h dg sl rnd := by
  unfold signPSSR signPSS readFull
  dsimp only
  split <;> try rfl
  by_cases hl : rnd.length < ‹Nat› <;> simp [hl]

theorem fixZerosR_fst (s rnd : Bytes) : (fixZerosR s rnd).1 = fixZeros s rnd := by
  induction s generalizing rnd with
  | nil => rfl
  | cons b bs ih =>
    unfold fixZerosR fixZeros
    split
    · cases redraw rnd with
      | none => rfl
      | some p => simp [ih]
    · simp [ih]

theorem nonZeroRandomBytesR_fst (n : Nat) (rnd : Bytes) :
    (nonZeroRandomBytesR n rnd).1 = nonZeroRandomBytes n rnd := by
  unfold nonZeroRandomBytesR nonZeroRandomBytes
  split
  · rfl
  · exact fixZerosR_fst _ _

theorem encryptPKCS1v15R_fst (pub : Pub) (rnd msg : Bytes) :
    (encryptPKCS1v15R pub rnd msg).1 = encryptPKCS1v15 pub rnd msg := by
  unfold encryptPKCS1v15R encryptPKCS1v15
  cases checkPub pub with
  | err => rfl
  | panic => rfl
  | ok ne =>
    obtain ⟨n, e⟩ := ne
    dsimp only
    split
    · rfl
    · rw [← nonZeroRandomBytesR_fst]
      cases nonZeroRandomBytesR (sizeBytes n - msg.length - 3) rnd with
      | mk a b => cases a <;> rfl
/-- `EncryptOAEP` on a caller-owned hash computes what the stateless model computes, whatever was written to the hash
    before (it starts with `Reset`) … -/
theorem encryptOAEPSt_result (h : HashAlg) (pend : Bytes) (pub : Pub) (rnd msg label : Bytes) :
    (encryptOAEPSt h pend pub rnd msg label).1 = encryptOAEP h pub rnd msg label := by
  unfold encryptOAEPSt encryptOAEP readFull
  cases checkPub pub with
  | err => rfl
  | panic => rfl
  | ok ne =>
    obtain ⟨n, e⟩ := ne
    dsimp only
    split
    · rfl
    · by_cases hl : rnd.length < h.outSize <;> simp [hl]

/-- … and leaves the hash RESET on every path once the key passed `checkPub` — in particular on the
    `ErrMessageTooLong` path and when the reader runs dry (an `EncryptOAEP` that hashes the label before the length
    check and returns without `Reset` breaks this). -/
theorem encryptOAEPSt_clean (h : HashAlg) (pend : Bytes) (pub : Pub) (rnd msg label : Bytes) {ne : Nat × Nat}
    (hc : checkPub pub = .ok ne) : (encryptOAEPSt h pend pub rnd msg label).2.1 = [] := by
  unfold encryptOAEPSt readFull
  rw [hc]
  obtain ⟨n, e⟩ := ne
  dsimp only
  split
  · rfl
  · by_cases hl : rnd.length < h.outSize <;> simp [hl]

/-- in any case it never leaves MORE in the hash than it found -/
theorem encryptOAEPSt_pend (h : HashAlg) (pend : Bytes) (pub : Pub) (rnd msg label : Bytes) :
    (encryptOAEPSt h pend pub rnd msg label).2.1 = pend ∨ (encryptOAEPSt h pend pub rnd msg label).2.1 = [] := by
  cases hc : checkPub pub with
  | err => left; unfold encryptOAEPSt; rw [hc]
  | panic => left; unfold encryptOAEPSt; rw [hc]
  | ok ne => right; exact encryptOAEPSt_clean h pend pub rnd msg label hc

/-- `DecryptOAEP` does NOT reset the hash before hashing the label: on a hash that still holds `pend` it decrypts as
    if the label were `pend ++ label`. -/
theorem decryptOAEPSt_label (h : HashAlg) (pend : Bytes) (k : Priv) (ct label : Bytes) :
    (decryptOAEPSt h pend k ct label).1 = decryptOAEP h h k ct (pend ++ label) := by
  unfold decryptOAEPSt decryptOAEP
  cases checkPub k.pub with
  | err => rfl
  | panic => rfl
  | ok ne =>
    dsimp only
    split
    · rfl
    · cases decrypt k ct false with
      | err => rfl
      | panic => rfl
      | ok em =>
        cases em with
        | nil => rfl
        | cons b0 body =>
          dsimp only
          split
          · rfl
          · split <;> rfl

/-- on a reset hash it is the stateless `decryptOAEP` (both hashes the same object) -/
theorem decryptOAEPSt_clean_start (h : HashAlg) (k : Priv) (ct label : Bytes) :
    (decryptOAEPSt h [] k ct label).1 = decryptOAEP h h k ct label := by
  rw [decryptOAEPSt_label]; rfl

/-- it leaves the hash as it found it (the three early returns) or reset -/
theorem decryptOAEPSt_pend (h : HashAlg) (pend : Bytes) (k : Priv) (ct label : Bytes) :
    (decryptOAEPSt h pend k ct label).2 = pend ∨ (decryptOAEPSt h pend k ct label).2 = [] := by
  unfold decryptOAEPSt
  cases checkPub k.pub with
  | err => left; rfl
  | panic => left; rfl
  | ok ne =>
    dsimp only
    split
    · left; rfl
    · cases decrypt k ct false with
      | err => left; rfl
      | panic => left; rfl
      | ok em =>
        right
        cases em with
        | nil => rfl
        | cons b0 body =>
          dsimp only
          split
          · rfl
          · split <;> rfl

/-- a step is a library call (not the caller writing to the shared hash) -/
def Step.isCall : Step → Bool
  | .hashWrite _ => false
  | _ => true

/-- INVARIANT of the shared hash: a library call that finds the hash reset leaves it reset — whether it succeeds or
    fails, and whichever call it is. -/
theorem step_clean (h : HashAlg) (st st' : SeqState) (s : Step) (r : Res Bytes) (hp : st.pend = [])
    (hs : s.isCall = true) (hstep : step h st s = some (r, st')) : st'.pend = [] := by
  cases s with
  | hashWrite b => simp [Step.isCall] at hs
  | encOAEP msg label =>
    simp only [step, Option.some.injEq, Prod.mk.injEq] at hstep
    rw [← hstep.2]
    rcases encryptOAEPSt_pend h st.pend st.key.pub st.rnd msg label with h1 | h1
    · exact h1.trans hp
    · exact h1
  | decOAEP ct label =>
    simp only [step, Option.some.injEq, Prod.mk.injEq] at hstep
    rw [← hstep.2]
    rcases decryptOAEPSt_pend h st.pend st.key ct label with h1 | h1
    · exact h1.trans hp
    · exact h1
  | encV15 msg => simp only [step, Option.some.injEq, Prod.mk.injEq] at hstep; rw [← hstep.2]; exact hp
  | decV15 ct => simp only [step, Option.some.injEq, Prod.mk.injEq] at hstep; rw [← hstep.2]; exact hp
  | sessKey ct key => simp only [step, Option.some.injEq, Prod.mk.injEq] at hstep; rw [← hstep.2]; exact hp
  | keyDecrypt ct opts =>
    simp only [step] at hstep
    cases hd : privDecrypt st.key st.rnd ct opts with
    | none => rw [hd] at hstep; contradiction
    | some p => rw [hd] at hstep; simp only [Option.some.injEq, Prod.mk.injEq] at hstep; rw [← hstep.2]; exact hp
  | signPSS hash digest opts =>
    simp only [step] at hstep
    cases hd : hashAlg (signPSSHash hash opts) with
    | none => rw [hd] at hstep; contradiction
    | some ha => rw [hd] at hstep; simp only [Option.some.injEq, Prod.mk.injEq] at hstep; rw [← hstep.2]; exact hp
  | verifyPSS hash digest sig opts =>
    simp only [step] at hstep
    cases hd : verifyPSSOpts st.key.pub hash digest sig opts with
    | none => rw [hd] at hstep; contradiction
    | some ha => rw [hd] at hstep; simp only [Option.some.injEq, Prod.mk.injEq] at hstep; rw [← hstep.2]; exact hp
  | signV15 hash digest => simp only [step, Option.some.injEq, Prod.mk.injEq] at hstep; rw [← hstep.2]; exact hp
  | verifyV15 hash digest sig => simp only [step, Option.some.injEq, Prod.mk.injEq] at hstep; rw [← hstep.2]; exact hp
  | keySign digest opts =>
    cases opts with
    | hash hid => simp only [step, Option.some.injEq, Prod.mk.injEq] at hstep; rw [← hstep.2]; exact hp
    | pss o =>
      simp only [step] at hstep
      cases hd : hashAlg (signPSSHash o.hash (some o)) with
      | none => rw [hd] at hstep; contradiction
      | some ha => rw [hd] at hstep; simp only [Option.some.injEq, Prod.mk.injEq] at hstep; rw [← hstep.2]; exact hp
  | precompute qinv => simp only [step, Option.some.injEq, Prod.mk.injEq] at hstep; rw [← hstep.2]; exact hp

/-- the states a sequence passes through (it stops at a call the model has no hash for) -/
def states (h : HashAlg) : SeqState → List Step → List SeqState
  | st, [] => [st]
  | st, s :: rest =>
    st :: (match step h st s with
           | none => []
           | some (_, st') => states h st' rest)

/-- a sequence of library calls started on a reset hash never leaves anything in the hash between two calls … -/
theorem states_clean (h : HashAlg) (steps : List Step) (st : SeqState) (hp : st.pend = [])
    (hcalls : ∀ s ∈ steps, s.isCall = true) : ∀ st' ∈ states h st steps, st'.pend = [] := by
  induction steps generalizing st with
  | nil => intro st' hm; simp only [states, List.mem_singleton] at hm; rw [hm]; exact hp
  | cons s rest ih =>
    intro st' hm
    simp only [states, List.mem_cons] at hm
    rcases hm with rfl | hm
    · exact hp
    · cases hs : step h st s with
      | none => rw [hs] at hm; simp at hm
      | some p =>
        obtain ⟨r, st2⟩ := p
        rw [hs] at hm
        exact ih st2 (step_clean h st st2 s r hp (hcalls s (by simp)) hs)
          (fun s' hs' => hcalls s' (by simp [hs'])) st' hm

/-- … so every `DecryptOAEP` of such a sequence — after any number of failed or successful earlier calls — returns
    what the stateless function returns for its own ciphertext and label, and every `EncryptOAEP` likewise. -/
theorem step_decOAEP_clean (h : HashAlg) (st : SeqState) (ct label : Bytes) (hp : st.pend = []) :
    ∃ st', step h st (.decOAEP ct label) = some (decryptOAEP h h st.key ct label, st') ∧ st'.pend = [] := by
  refine ⟨{ st with pend := (decryptOAEPSt h st.pend st.key ct label).2 }, ?_, ?_⟩
  · simp only [step]
    rw [← decryptOAEPSt_clean_start, hp]
  · show (decryptOAEPSt h st.pend st.key ct label).2 = []
    rcases decryptOAEPSt_pend h st.pend st.key ct label with h1 | h1
    · exact h1.trans hp
    · exact h1

theorem step_encOAEP_result (h : HashAlg) (st : SeqState) (msg label : Bytes) :
    ∃ st', step h st (.encOAEP msg label) = some (encryptOAEP h st.key.pub st.rnd msg label, st') := by
  refine ⟨{ st with pend := (encryptOAEPSt h st.pend st.key.pub st.rnd msg label).2.1,
                      rnd := (encryptOAEPSt h st.pend st.key.pub st.rnd msg label).2.2 }, ?_⟩
  simp only [step]
  rw [encryptOAEPSt_result]

/-- what goes wrong otherwise: after the caller (or a call that forgot to `Reset`) left `junk` in the hash, `DecryptOAEP`
    checks the ciphertext against the label `junk ++ label`. -/
theorem step_decOAEP_dirty (h : HashAlg) (st : SeqState) (ct label : Bytes) :
    ∃ st', step h st (.decOAEP ct label) = some (decryptOAEP h h st.key ct (st.pend ++ label), st') := by
  refine ⟨{ st with pend := (decryptOAEPSt h st.pend st.key ct label).2 }, ?_⟩
  simp only [step]
  rw [decryptOAEPSt_label]
/-- `DecryptPKCS1v15` is the unexported `decryptPKCS1v15` plus the `valid` test -/
theorem decryptPKCS1v15_core (k : Priv) (ct : Bytes) {ne : Nat × Nat} (hc : checkPub k.pub = .ok ne) :
    decryptPKCS1v15 k ct =
      match decryptPKCS1v15Core k ct with
      | .err => .err
      | .panic => .panic
      | .ok (valid, em, index) => if valid then .ok (em.drop index) else .err := by
  unfold decryptPKCS1v15 decryptPKCS1v15Core
  rw [hc]
  dsimp only
  split
  · rfl
  · cases decrypt k ct false with
    | err => rfl
    | panic => rfl
    | ok em =>
      match em with
      | [] => rfl
      | [_] => rfl
      | b0 :: b1 :: rest =>
        dsimp only
        cases firstZeroFrom2 (b0 :: b1 :: rest) with
        | none => rfl
        | some idx =>
          dsimp only
          by_cases hv : b0 = 0 ∧ b1 = 2 ∧ 10 ≤ idx <;> simp [hv]

/-- `DecryptPKCS1v15SessionKey` never changes the LENGTH of the key buffer … -/
theorem decryptSessionKey_length {k : Priv} {ct key key' : Bytes} (h : decryptSessionKey k ct key = .ok key') :
    key'.length = key.length := by
  unfold decryptSessionKey at h
  cases hc : checkPub k.pub with
  | err => rw [hc] at h; contradiction
  | panic => rw [hc] at h; contradiction
  | ok ne =>
    rw [hc] at h
    dsimp only at h
    split at h
    · contradiction
    · next hroom =>
      cases hd : decryptPKCS1v15Core k ct with
      | err => rw [hd] at h; contradiction
      | panic => rw [hd] at h; contradiction
      | ok t =>
        obtain ⟨valid, em, index⟩ := t
        rw [hd] at h
        dsimp only at h
        split at h
        · contradiction
        · next hlen =>
          split at h
          · injection h with h
            rw [← h, List.length_drop]
            have : em.length = sizeBytes k.n := by simpa using hlen
            omega
          · injection h with h; rw [h]

/-- … and its content is either left alone or replaced by exactly the message `DecryptPKCS1v15` returns (which then has
    the length of the buffer). -/
theorem decryptSessionKey_content {k : Priv} {ct key key' : Bytes} (h : decryptSessionKey k ct key = .ok key') :
    key' = key ∨ (decryptPKCS1v15 k ct = .ok key' ∧ key'.length = key.length) := by
  have hlen := decryptSessionKey_length h
  unfold decryptSessionKey at h
  cases hc : checkPub k.pub with
  | err => rw [hc] at h; contradiction
  | panic => rw [hc] at h; contradiction
  | ok ne =>
    rw [hc] at h
    dsimp only at h
    split at h
    · contradiction
    · cases hd : decryptPKCS1v15Core k ct with
      | err => rw [hd] at h; contradiction
      | panic => rw [hd] at h; contradiction
      | ok t =>
        obtain ⟨valid, em, index⟩ := t
        rw [hd] at h
        dsimp only at h
        split at h
        · contradiction
        · split at h
          · next hv =>
            right
            injection h with h
            refine ⟨?_, hlen⟩
            rw [decryptPKCS1v15_core k ct hc, hd]
            dsimp only
            rw [if_pos hv.1, ← h]
            have hk : em.length - index = key.length := hv.2
            have e : em.drop index = em.drop (em.length - key.length) := by
              by_cases h0 : key.length = 0
              · rw [List.drop_eq_nil_of_le (by omega), List.drop_eq_nil_of_le (by omega)]
              · congr 1; omega
            rw [e]
          · left; injection h with h; exact h.symm

/-- `PrivateKey.Decrypt` with `SessionKeyLen = l > 0` returns `l` octets whenever it returns at all. -/
theorem privDecrypt_sessionKeyLen {k : Priv} {rnd ct pt rnd' : Bytes} {l : Int} (hl : 0 < l)
    (h : privDecrypt k rnd ct (.v15 l) = some (.ok pt, rnd')) : (pt.length : Int) = l := by
  simp only [privDecrypt, readFull] at h
  rw [if_pos (show l > 0 from hl)] at h
  by_cases hr : rnd.length < l.toNat
  · simp [hr] at h
  · simp only [hr, if_false] at h
    cases hd : decryptSessionKey k ct (rnd.take l.toNat) with
    | err => rw [hd] at h; simp at h
    | panic => rw [hd] at h; simp at h
    | ok key' =>
      rw [hd] at h
      simp only [Option.some.injEq, Prod.mk.injEq, Res.ok.injEq] at h
      have := decryptSessionKey_length hd
      rw [← h.1, this, List.length_take]
      omega

/-- with `SessionKeyLen ≤ 0` (or nil options) it is `DecryptPKCS1v15` and reads nothing. -/
theorem privDecrypt_plain (k : Priv) (rnd ct : Bytes) {l : Int} (hl : l ≤ 0) :
    privDecrypt k rnd ct (.v15 l) = some (decryptPKCS1v15 k ct, rnd) ∧
    privDecrypt k rnd ct .nil = some (decryptPKCS1v15 k ct, rnd) := by
  simp only [privDecrypt]
  rw [if_neg (show ¬ l > 0 by omega)]
  exact ⟨rfl, trivial⟩

/-- `OAEPOptions.MGFHash = 0` means "the label hash" -/
theorem privDecrypt_oaep_mgf_default (k : Priv) (rnd ct label : Bytes) (hash : Nat) :
    privDecrypt k rnd ct (.oaep hash 0 label) = privDecrypt k rnd ct (.oaep hash hash label) := by
  simp only [privDecrypt]
  by_cases hz : hash = 0 <;> simp [hz]

example : privDecrypt toyKey [] [5] (.v15 0) = some (decryptPKCS1v15 toyKey [5], []) := (privDecrypt_plain _ _ _ (by decide)).1
/-- the point of `DecryptPKCS1v15SessionKey`: on a valid key, for every ciphertext below the modulus and every key
    buffer that leaves room for the minimal padding, it returns NO error — valid and invalid paddings are not
    distinguishable by the result kind (only by the buffer contents, `decryptSessionKey_content`). -/
theorem decryptSessionKey_total {k : Priv} (hk : KeyOk k) (he : 2 ≤ k.e) (ct key : Bytes)
    (hroom : key.length + 11 ≤ sizeBytes k.n) (hlt : os2ip ct < k.n) :
    ∃ key', decryptSessionKey k ct key = .ok key' := by
  unfold decryptSessionKey
  rw [hk.checkPub_eq he]
  dsimp only
  rw [if_neg (by omega)]
  unfold decryptPKCS1v15Core
  rw [if_neg (by omega)]
  rcases decrypt_total hk ct false with herr | ⟨em, hem, hl⟩
  · exfalso
    unfold decrypt at herr
    rw [if_neg (by omega)] at herr
    dsimp only at herr
    split at herr
    · contradiction
    · cases hi : i2osp (sizeBytes k.n) (decryptCore k (os2ip ct)) with
      | ok a => rw [hi] at herr; contradiction
      | panic => rw [hi] at herr; contradiction
      | err => unfold i2osp at hi; split at hi <;> contradiction
  · rw [hem]
    dsimp only
    match em, hl with
    | [], hl => simp at hl; omega
    | [_], hl => simp at hl; omega
    | b0 :: b1 :: rest, hl =>
      dsimp only
      cases firstZeroFrom2 (b0 :: b1 :: rest) with
      | none =>
        dsimp only
        rw [if_neg (by simp [hl])]
        simp
      | some idx =>
        dsimp only
        by_cases hv : b0 = 0 ∧ b1 = 2 ∧ 10 ≤ idx
        · rw [if_pos hv]
          dsimp only
          rw [if_neg (by simp [hl])]
          split <;> exact ⟨_, rfl⟩
        · rw [if_neg hv]
          dsimp only
          rw [if_neg (by simp [hl])]
          simp

/-- the hypotheses hold for `key40` (78 octets) and a 16-octet session key: the buffer keeps its length -/
example (key : Bytes) (h16 : key.length = 16) :
    ∃ key', decryptSessionKey key40 [] key = .ok key' ∧ key'.length = 16 := by
  obtain ⟨key', h⟩ := decryptSessionKey_total key40_ok (by decide) [] key (by rw [h16, key40_size.1]; decide)
    (by show 0 < key40.n; exact key40_ok.n_pos)
  exact ⟨key', h, (decryptSessionKey_length h).trans h16⟩

/-- `signPSSOpts` under `key40`: the positional hash says SHA-1 (3), `opts.Hash` says SHA-256 (5) and wins; the
    signature verifies under SHA-256 whatever the verifier's `opts.Hash` says (`pss_opts_sign_verify`). -/
example (dg salt : Bytes) (hd : dg.length = 32) (hs : salt.length = 32) :
    ∃ sig, signPSSOpts key40 3 dg (some ⟨-1, 5⟩) salt = some (.ok sig) ∧
      verifyPSSOpts key40.pub 5 dg sig (some ⟨-1, 3⟩) = some (.ok ()) := by
  obtain ⟨sig, h1, _, _, _⟩ := pss_sign_verify key40_ok (by decide) hashOk_sha256 dg salt hd
    (by rw [hs, key40_size.2]; decide)
  have hsign : signPSSOpts key40 3 dg (some ⟨-1, 5⟩) salt = some (.ok sig) := by
    have : signPSS key40 .sha256 dg (-1) salt = .ok sig := by
      unfold signPSS
      simp only [show ((-1 : Int) = 0) = False by decide, if_false, if_true]
      show (if salt.length < 32 then Res.err else signPSSWithSalt key40 .sha256 dg (salt.take 32)) = .ok sig
      rw [if_neg (by omega), ← hs, List.take_length]
      exact h1
    simp [signPSSOpts, signPSSHash, hashAlg, pssSaltLength, this]
  exact ⟨sig, hsign, pss_opts_sign_verify key40_ok (by decide) hsign 3⟩

end ZV.C23
