import ZV.Model.C23
import ZV.Proofs.C23
import ZV.Proofs.C23Bytes
/-!
  C23 — the RSA fork computes what standard RSA computes.

  * `crt_eq_plain`: for every key that satisfies what `PrivateKey.Validate` checks and carries the values
    `Precompute` derives, the CRT branch of `decrypt` (Garner recombination with the sign fix-up) returns
    exactly `c^d mod n` — for every `c`, so the two branches of `decrypt` are interchangeable.
  * `decrypt_encrypt` / `encrypt_decrypt`: textbook RSA correctness for any number of distinct primes,
    hence `check_redundant`: the re-encryption check of `decrypt` never fires on a valid key.
  * `pkcs1_verify_iff`, `pkcs1_verify_numeric`, `pkcs1_unique`, `pkcs1_digest_binding`:
    the decision logic of `VerifyPKCS1v15`, for all inputs.
  * `malformed_pub_is_error`: no public operation succeeds or panics on a malformed public key.
  * `stripTo_zeros`, `stripTo_nonzero_head`, `verifyPSS_leading_octet`: `VerifyPSS` drops octets of `s^e mod n` above
    the `emLen = ⌈(modBits-1)/8⌉` octets of the encoded message only if they are zero (moduli of 8k+1 bits).
  * `hashPrefixes_wellformed` (T1): every row of the generated DigestInfo table is a DER header whose
    length bytes agree with the digest size `crypto.Hash.Size()` reports.
-/
namespace ZV.C23
open ZV ZV.Hash

/-- what `PrivateKey.Validate` checks, plus: precomputed values, if present, are the ones `Precompute` derives. -/
structure KeyOk (k : Priv) : Prop where
  primes_prime : ∀ p ∈ k.primes, p.Prime
  nodup : k.primes.Nodup
  n_eq : k.n = k.primes.prod
  ed : ∀ p ∈ k.primes, k.e * k.d % (p - 1) = 1
  pre_ok : ∀ dp dq qinv, k.pre = some (dp, dq, qinv) → ∀ p q, k.primes = [p, q] →
    dp = k.d % (p - 1) ∧ dq = k.d % (q - 1) ∧ qinv * q % p = 1

/-- FLAGSHIP.  Whatever branch `decrypt` takes (CRT with precomputed values for two primes, or plain),
    the value it computes is `c^d mod n`. -/
theorem crt_eq_plain {k : Priv} (h : KeyOk k) (c : Nat) : decryptCore k c = c ^ k.d % k.n := by
  unfold decryptCore
  split
  · next p q dp dq qinv hprimes hpre =>
    obtain ⟨hdp, hdq, hqinv⟩ := h.pre_ok dp dq qinv hpre p q hprimes
    have hnd := h.nodup
    rw [hprimes] at hnd
    have hne : p ≠ q := by simpa using hnd
    have hk : KeyOk2 p q k.e k.d dp dq qinv :=
      { pp := h.primes_prime p (by rw [hprimes]; simp)
        pq := h.primes_prime q (by rw [hprimes]; simp)
        ne := hne
        edp := h.ed p (by rw [hprimes]; simp)
        edq := h.ed q (by rw [hprimes]; simp)
        hdp := hdp, hdq := hdq, hqinv := hqinv }
    have hn : k.n = p * q := by rw [h.n_eq, hprimes]; simp
    rw [crt_eq_plain2 hk c, hn]
  · exact modPow_eq _ _ _

/-- decrypting an encrypted message gives the message back (two- or multi-prime, either branch). -/
theorem decrypt_encrypt {k : Priv} (h : KeyOk k) (m : Nat) (hm : m < k.n) :
    decryptCore k (modPow m k.e k.n) = m := by
  rw [crt_eq_plain h, modPow_eq, h.n_eq]
  exact rsa_roundtrip k.primes k.e k.d h.primes_prime h.nodup h.ed m (h.n_eq ▸ hm)

/-- the public operation undoes the private one (sign, then verify). -/
theorem encrypt_decrypt {k : Priv} (h : KeyOk k) (c : Nat) (hc : c < k.n) :
    modPow (decryptCore k c) k.e k.n = c := by
  rw [crt_eq_plain h, modPow_eq, h.n_eq]
  exact rsa_roundtrip' k.primes k.e k.d h.primes_prime h.nodup h.ed c (h.n_eq ▸ hc)

/-- on a valid key the fault check of `decrypt` (re-encrypt and compare) never rejects. -/
theorem check_redundant {k : Priv} (h : KeyOk k) (ct : Bytes) :
    decrypt k ct true = decrypt k ct false := by
  unfold decrypt
  by_cases hc : os2ip ct ≥ k.n
  · simp [hc]
  · have hc' : os2ip ct < k.n := Nat.not_le.1 hc
    simp [hc, encrypt_decrypt h _ hc']

/-- x ↦ x^e mod n is injective on [0, n) for a valid key -/
theorem rsa_injective {k : Priv} (h : KeyOk k) (a b : Nat) (ha : a < k.n) (hb : b < k.n)
    (hab : a ^ k.e % k.n = b ^ k.e % k.n) : a = b := by
  have h1 := decrypt_encrypt h a ha
  have h2 := decrypt_encrypt h b hb
  rw [modPow_eq] at h1 h2
  rw [← h1, ← h2, hab]

/-! ### PKCS #1 v1.5 verification: decision logic for all inputs -/

theorem pkcs1_verify_iff (pub : Pub) (h : Nat) (dg sig : Bytes) :
    verifyPKCS1v15 pub h dg sig = .ok () ↔
      ∃ n e em, checkPub pub = .ok (n, e) ∧ sig.length = sizeBytes n ∧ os2ip sig < n ∧
        constructEM (sizeBytes n) h dg = .ok em ∧
        natToBytesBE (sizeBytes n) (os2ip sig ^ e % n) = em :=
  pkcs1_verify_iff' pub h dg sig

/-- numeric reading: an accepted signature is an e-th root of the encoded message modulo n. -/
theorem pkcs1_verify_numeric {pub : Pub} {h : Nat} {dg sig : Bytes}
    (hv : verifyPKCS1v15 pub h dg sig = .ok ()) :
    ∃ n e em, checkPub pub = .ok (n, e) ∧ constructEM (sizeBytes n) h dg = .ok em ∧
      os2ip sig ^ e % n = os2ip em := by
  obtain ⟨n, e, em, hc, _, hlt, hem, hb⟩ := (pkcs1_verify_iff pub h dg sig).1 hv
  refine ⟨n, e, em, hc, hem, ?_⟩
  have hn : 0 < n := by omega
  rw [← hb, os2ip_natToBytesBE_of_lt (Nat.lt_trans (Nat.mod_lt _ hn) (lt_pow_sizeBytes n))]

/-- injectivity of the public operation on [0,n) (what `rsa_injective` proves for valid keys) -/
def RsaInj (n e : Nat) : Prop := ∀ a b, a < n → b < n → a ^ e % n = b ^ e % n → a = b

/-- under an injective public operation there is at most ONE accepted signature per (key, hash, digest):
    any accepted signature is the genuine one, byte for byte. -/
theorem pkcs1_unique {pub : Pub} {h : Nat} {dg s₁ s₂ : Bytes} {n e : Nat}
    (hpub : checkPub pub = .ok (n, e)) (hinj : RsaInj n e)
    (h1 : verifyPKCS1v15 pub h dg s₁ = .ok ()) (h2 : verifyPKCS1v15 pub h dg s₂ = .ok ()) : s₁ = s₂ := by
  obtain ⟨n1, e1, em1, hc1, hl1, hlt1, hem1, hb1⟩ := (pkcs1_verify_iff pub h dg s₁).1 h1
  obtain ⟨n2, e2, em2, hc2, hl2, hlt2, hem2, hb2⟩ := (pkcs1_verify_iff pub h dg s₂).1 h2
  rw [hpub] at hc1 hc2
  have e1' := Res.ok.inj hc1; have e2' := Res.ok.inj hc2
  simp at e1' e2'
  obtain ⟨rfl, rfl⟩ := e1'
  obtain ⟨rfl, rfl⟩ := e2'
  rw [hem1] at hem2
  have hem := Res.ok.inj hem2
  subst hem
  have hn : 0 < n := by omega
  have hbound : ∀ x, x ^ e % n < 256 ^ sizeBytes n :=
    fun x => Nat.lt_trans (Nat.mod_lt _ hn) (lt_pow_sizeBytes n)
  have hpow : os2ip s₁ ^ e % n = os2ip s₂ ^ e % n := by
    rw [← os2ip_natToBytesBE_of_lt (hbound (os2ip s₁)), ← os2ip_natToBytesBE_of_lt (hbound (os2ip s₂)), hb1, hb2]
  exact os2ip_inj s₁ s₂ (by rw [hl1, hl2]) (hinj _ _ hlt1 hlt2 hpow)

/-- the encoded message determines the digest (same hash id, digests of the same length): so a signature
    accepted for two digests forces the digests to be equal — changing the signed digest is always detected. -/
theorem constructEM_inj {k h : Nat} {d₁ d₂ em : Bytes} (hlen : d₁.length = d₂.length)
    (h1 : constructEM k h d₁ = .ok em) (h2 : constructEM k h d₂ = .ok em) : d₁ = d₂ := by
  unfold constructEM at h1 h2
  rw [hlen] at h1
  cases hp : emPrefix h d₂.length with
  | err => rw [hp] at h1; contradiction
  | panic => rw [hp] at h1; contradiction
  | ok p =>
    rw [hp] at h1 h2
    dsimp only at h1 h2
    split at h1
    · contradiction
    · rw [if_neg (by assumption)] at h2
      have e1 := Res.ok.inj h1
      have e2 := Res.ok.inj h2
      rw [← e2] at e1
      simpa using e1

theorem pkcs1_digest_binding {pub : Pub} {h : Nat} {d₁ d₂ sig : Bytes} (hlen : d₁.length = d₂.length)
    (h1 : verifyPKCS1v15 pub h d₁ sig = .ok ()) (h2 : verifyPKCS1v15 pub h d₂ sig = .ok ()) : d₁ = d₂ := by
  obtain ⟨n1, e1, em1, hc1, _, _, hem1, hb1⟩ := (pkcs1_verify_iff pub h d₁ sig).1 h1
  obtain ⟨n2, e2, em2, hc2, _, _, hem2, hb2⟩ := (pkcs1_verify_iff pub h d₂ sig).1 h2
  rw [hc1] at hc2
  have e' := Res.ok.inj hc2
  simp at e'
  obtain ⟨rfl, rfl⟩ := e'
  rw [hb1] at hb2
  subst hb2
  exact constructEM_inj hlen hem1 hem2

/-! ### malformed public keys -/

def Malformed (p : Pub) : Prop :=
  p.n = none ∨ (∃ n, p.n = some n ∧ n ≤ 0) ∨ p.e = none ∨ (∃ e, p.e = some e ∧ e < 2)

theorem checkPub_malformed {p : Pub} (h : Malformed p) : checkPub p = .err := by
  unfold checkPub
  rcases h with h | ⟨n, hn, hle⟩ | h | ⟨e, he, hlt⟩
  · rw [h]
  · rw [hn]; simp [hle]
  · cases hn : p.n with
    | none => rfl
    | some n => by_cases hle : n ≤ 0 <;> simp [hle, h]
  · cases hn : p.n with
    | none => rfl
    | some n => by_cases hle : n ≤ 0 <;> simp [hle, he, hlt]

/-- every public operation returns an error (never succeeds, never panics) on a malformed public key:
    N missing / zero / negative, E missing / below 2. -/
theorem malformed_pub_is_error {p : Pub} (h : Malformed p) :
    (∀ hash dg sig, verifyPKCS1v15 p hash dg sig = .err) ∧
    (∀ ha dg sig sl, verifyPSS p ha dg sig sl = .err) ∧
    (∀ rnd msg, encryptPKCS1v15 p rnd msg = .err) ∧
    (∀ ha rnd msg label, encryptOAEP ha p rnd msg label = .err) := by
  have hc := checkPub_malformed h
  refine ⟨?_, ?_, ?_, ?_⟩
  · intro hash dg sig; unfold verifyPKCS1v15; rw [hc]
  · intro ha dg sig sl; unfold verifyPSS; rw [hc]
  · intro rnd msg; unfold encryptPKCS1v15; rw [hc]
  · intro ha rnd msg label; unfold encryptOAEP; rw [hc]

/-- conversely `checkPub` accepts every key with N ≥ 1 and E ≥ 2 (no upper bound on E in the fork). -/
theorem checkPub_ok {n e : Int} (hn : 0 < n) (he : 2 ≤ e) : checkPub ⟨some n, some e⟩ = .ok (n.toNat, e.toNat) := by
  unfold checkPub
  simp [Int.not_le.2 hn, Int.not_lt.2 he]

/-! ### T1: the generated DigestInfo table -/

/-- a DigestInfo prefix `30 L1 30 L2 06 … 04 Lh` for a digest of `sz` bytes: outer length covers the rest
    of the prefix plus the digest, and the last byte is the OCTET STRING length = digest size. -/
def prefixOk (p : Bytes) (sz : Nat) : Bool :=
  match p with
  | [] => true
  | t :: l :: rest =>
    t == 0x30 && l.toNat == rest.length + sz && rest.getLast? == some (UInt8.ofNat sz) &&
      (rest.dropLast.getLast? == some 0x04)
  | _ => false

/-- every row of zcrypto's `hashPrefixes` (generated from the working tree) is consistent with the digest
    size `crypto.Hash.Size()` reports for that id; ids are unique. -/
theorem hashPrefixes_wellformed :
    (Gen.C23.hashPrefixes.all fun r => match hashSize r.1 with
      | some sz => prefixOk r.2 sz
      | none => false) = true ∧
    (Gen.C23.hashPrefixes.map (·.1)).Nodup := by
  decide

/-! ### not proved here (kept as statements; exercised by T2/T3 only)
-- FULL: pss_verify_encode : (∀ x, (h.hash x).length = h.outSize) → 0 < h.outSize →
--         emsaPSSEncode h mHash emBits salt = .ok em →
--         emsaPSSVerify h mHash em emBits salt.length = .ok () ∧ emsaPSSVerify h mHash em emBits 0 = .ok () ∧
--         (salt.length = h.outSize → emsaPSSVerify h mHash em emBits (-1) = .ok ())
--   (the harness checks exactly this on the real code for every `pssenc` case, and the model agrees with the
--    code on every `pssenc`/`pssver` line; the Lean proof — list surgery + a UInt8 mask lemma — is missing.)
-- FULL: oaep_decrypt_encrypt : KeyOk k → encryptOAEP h k.pub seed msg label = .ok c → decryptOAEP h h k c label = .ok msg
-- FULL: pkcs1_sign_verify : KeyOk k → 2 ≤ k.e → signPKCS1v15 k h dg = .ok sig → verifyPKCS1v15 k.pub h dg sig = .ok ()
--   (follows from encrypt_decrypt + natToBytesBE_os2ip; not written out.)
-/

/-! ### the hypotheses are satisfiable -/

/-- p = 11, q = 13, e = 7, d = 103 with the values `Precompute` derives -/
def toyKey : Priv := ⟨143, 7, 103, [11, 13], some (3, 7, 6)⟩

example : KeyOk toyKey where
  primes_prime := by
    intro p hp
    simp [toyKey] at hp
    rcases hp with rfl | rfl
    · exact prime_11
    · exact prime_13
  nodup := by decide
  n_eq := by decide
  ed := by
    intro p hp
    simp [toyKey] at hp
    rcases hp with rfl | rfl <;> decide
  pre_ok := by
    intro dp dq qinv hpre p q hpq
    simp [toyKey] at hpre hpq
    obtain ⟨rfl, rfl, rfl⟩ := hpre
    obtain ⟨rfl, rfl⟩ := hpq
    decide

example : Malformed ⟨some 0, some 65537⟩ := Or.inr (Or.inl ⟨0, rfl, by decide⟩)
example : Malformed ⟨some 143, none⟩ := Or.inr (Or.inr (Or.inl rfl))

/-! ### RSASSA-PSS: the octets above the encoded message (modulus bit length = 1 mod 8, `emLen = k-1`) -/

/-- The leading-octet stripping loop of `VerifyPSS` (modulus of 8k+1 bits: `emLen = k-1`) only ever removes ZERO octets,
    and removes exactly as many as needed: if it succeeds, the input was `0…0 ++ em'` with `em'` the last
    `min em.length emLen` octets.  (Replacing the loop by a plain slice to `emLen` — dropping a non-zero leading octet of
    `s^e mod n` unchecked — falsifies this.) -/
theorem stripTo_zeros (emLen : Nat) (em em' : Bytes) (h : stripTo emLen em = some em') :
    em = List.replicate (em.length - em'.length) 0 ++ em' ∧ em'.length = min em.length emLen := by
  induction em with
  | nil =>
    simp [stripTo] at h
    subst h
    simp
  | cons b rest ih =>
    unfold stripTo at h
    split at h
    · next hlen =>
      split at h
      · simp at h
      · next hb =>
        have hb0 : b = 0 := by simpa using hb
        obtain ⟨h1, h2⟩ := ih h
        have hle : em'.length ≤ rest.length := by rw [h2]; exact Nat.min_le_left _ _
        have hlen' : emLen ≤ rest.length := by simp at hlen; omega
        refine ⟨?_, ?_⟩
        · have : (b :: rest).length - em'.length = (rest.length - em'.length) + 1 := by simp; omega
          rw [this, List.replicate_succ, hb0]
          simp only [List.cons_append]
          rw [← h1]
        · rw [h2]; simp; omega
    · next hlen =>
      simp at h
      subst h
      simp at hlen ⊢
      omega

/-- a non-zero octet in front of more than `emLen` octets is rejected -/
theorem stripTo_nonzero_head (emLen : Nat) (b : UInt8) (rest : Bytes) (hb : b ≠ 0) (hl : emLen ≤ rest.length) :
    stripTo emLen (b :: rest) = none := by
  unfold stripTo
  have : emLen < rest.length + 1 := by omega
  simp [this, hb]

/-- hence `VerifyPSS` rejects whenever `s^e mod n`, written on `k` octets, starts with a non-zero octet that lies above the
    `emLen` octets of the encoded message (`emLen < k`, i.e. modulus bit length = 1 mod 8) -/
theorem verifyPSS_leading_octet {pub : Pub} {h : HashAlg} {dg sig : Bytes} {sl : Int} {n e : Nat} {b : UInt8} {rest : Bytes}
    (hp : checkPub pub = .ok (n, e)) (henc : encrypt n e sig = .ok (b :: rest)) (hb : b ≠ 0)
    (hl : (bitLen n - 1 + 7) / 8 ≤ rest.length) :
    verifyPSS pub h dg sig sl ≠ .ok () := by
  unfold verifyPSS
  rw [hp]
  simp only
  split
  · simp
  · split
    · simp
    · rw [henc]
      simp only
      rw [stripTo_nonzero_head _ b rest hb hl]
      simp

example : stripTo 2 [0, 0, 5, 6] = some [5, 6] := by decide
example : stripTo 2 [1, 5, 6] = none := by decide
end ZV.C23
