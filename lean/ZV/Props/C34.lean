import ZV.Model.C34
import ZV.Proofs.C34
/-!
  C34 — the Close/Write interlock of `tls.Conn` (`activeCall`), for ALL interleavings of the model.

  The theorems below quantify over every list of thread programs (sequences of Handshake / Write / Close /
  CloseWrite calls) and every schedule (list of thread ids; each step is one atomic operation of
  `ZV.Model.C34`).  They are statements about the MODEL.  Data-race freedom, absence of deadlock and
  byte-stream preservation of the real `Conn` are not theorems: they are explored by the stress rig under the
  race detector (tools/props/C34.json says so).
-/
namespace ZV.C34

/-- `activeCall` never goes negative (the deferred `AddInt32(-2)` never underflows). -/
theorem counter_never_negative (progs : List (List Op)) (sched : List Nat) :
    0 ≤ (run (init progs) sched).active :=
  (run_inv sched _ (init_inv progs)).nonneg

/-- The word means what its comment says, in every reachable state: the bits above bit 0 count exactly the
    goroutines between Write's gate and its deferred decrement, and bit 0 is set iff a Close has won its CAS. -/
theorem counter_counts_writers (progs : List (List Op)) (sched : List Nat) :
    (run (init progs) sched).active / 2 = (inflightOf (run (init progs) sched).threads : Int)
    ∧ (run (init progs) sched).active % 2 = (closeCount (run (init progs) sched).events : Int) := by
  have inv := run_inv sched _ (init_inv progs)
  have h1 := inv.count
  have h2 := inv.bit
  constructor <;> omega

/-- No Write passes the gate after a Close's CAS has succeeded: in the event history of every run, below
    every `enter` there is no `closeWon`. -/
theorem no_write_after_close (progs : List (List Op)) (sched : List Nat) :
    NoEnterAfterClose (run (init progs) sched).events :=
  (run_inv sched _ (init_inv progs)).order

/-- At most one Close call ever wins (so the close_notify / underlying Close path runs at most once); every
    other Close returns `net.ErrClosed`. -/
theorem close_wins_at_most_once (progs : List (List Op)) (sched : List Nat) :
    closeCount (run (init progs) sched).events ≤ 1 := by
  have inv := run_inv sched _ (init_inv progs)
  have := inv.bit
  omega

/-- The value `x` on which the winning Close branches (`x != 0` ⇒ skip close_notify and just close the
    socket) is exactly twice the number of Writes inside the gate at the instant of its CAS: Close sends
    close_notify iff no Write is in flight at that instant — and by `no_write_after_close` none can start later. -/
theorem close_sees_writers_exactly (progs : List (List Op)) (sched : List Nat) :
    CloseSeesWriters (run (init progs) sched).events :=
  (run_inv sched _ (init_inv progs)).sees

/-- Once set, the closed bit stays set along every continuation of every run … -/
theorem closed_bit_sticky (s : Sys) (sched : List Nat) (h : s.active % 2 = 1) :
    (run s sched).active % 2 = 1 :=
  run_bit_sticky sched s h

/-- … and a Write that begins (loads the word) while it is set returns `net.ErrClosed` without touching
    anything else. -/
theorem write_after_close_refused (i : Nat) (s : Sys) (t : Thread) (hi : s.threads[i]? = some t)
    (hpc : t.pc = .wStart) (h : s.active % 2 = 1) :
    (step i (step i s)).threads[i]? = some { t with pc := .idle, outs := .closed :: t.outs } :=
  write_refused_when_closed i s t hi hpc h

/-- What the code does about in-flight writers is NOT to wait for them: from its first load, a Close running
    alone is refused or wins its CAS immediately, however many Writes are in flight … -/
theorem close_does_not_wait (i : Nat) (s : Sys) (t : Thread) (hi : s.threads[i]? = some t) (hpc : t.pc = .cStart) :
    (step i (step i s)).threads[i]? =
      some (if s.active % 2 = 1 then { t with pc := .idle, outs := .closed :: t.outs }
            else { t with pc := .cWon s.active }) :=
  close_cas_alone i s t hi hpc

/-- … and having won it returns after one more step with the underlying connection closed (result ok/err,
    never ErrClosed). -/
theorem close_winner_returns (i : Nat) (s : Sys) (t : Thread) (x : Int) (hi : s.threads[i]? = some t)
    (hpc : t.pc = .cWon x) :
    ∃ r, r ≠ Out.closed ∧ (step i s).threads[i]? = some { t with pc := .idle, outs := r :: t.outs }
      ∧ (step i s).connClosed = true :=
  close_won_returns i s t x hi hpc

/-- When every call has returned the word is 0 (never closed) or 1 (closed): no writer is leaked. -/
theorem quiescent_word (progs : List (List Op)) (sched : List Nat)
    (hq : quiescent (run (init progs) sched) = true) :
    (run (init progs) sched).active = (closeCount (run (init progs) sched).events : Int)
    ∧ closeCount (run (init progs) sched).events ≤ 1 := by
  have inv := run_inv sched _ (init_inv progs)
  have h0 := inflight_zero_of_quiescent _ hq
  have h1 := inv.count
  have h2 := inv.bit
  rw [h0] at h1
  constructor <;> omega

-- the hypotheses are satisfiable: two writers and two closers, an interleaving in which a Write is in flight
-- when Close wins (fast path, x = 2); the other Close loses its CAS, retries and is refused, as is the late Write
example :
    let s := run (init [[.write, .write], [.close], [.close]]) [0, 0, 0, 1, 2, 1, 2, 1, 2, 0, 0, 0, 0, 0, 1, 2, 2]
    quiescent s = true ∧ s.active = 1
      ∧ s.events.reverse = [.enter 0, .closeWon 1 2 1, .exit 0, .refusedW 0, .refusedC 2] := by decide

-- hypotheses of `write_after_close_refused` / `close_does_not_wait`: a Write about to load while the bit is set,
-- a Close about to load while a Write is in flight
example :
    let s := run (init [[.close], [.write]]) [0, 0, 0, 1]
    s.active % 2 = 1 ∧ (s.threads[1]?).map (·.pc) = some .wStart := by decide

example :
    let s := run (init [[.write], [.close]]) [0, 0, 0, 1]
    s.active = 2 ∧ (s.threads[1]?).map (·.pc) = some .cStart := by decide

example : runSeq [.handshake, .write, .closeWrite, .write, .close, .write, .close] =
    [.ok, .ok, .ok, .shutdown, .ok, .closed, .closed] := by decide

end ZV.C34
