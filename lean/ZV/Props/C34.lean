import ZV.Model.C34
import ZV.Proofs.C34
import ZV.Proofs.C34Sync
import ZV.Proofs.C34Gen
/-!
  C34 — the Close/Write interlock of `tls.Conn` (`activeCall`), for ALL interleavings of the model.

  The theorems below quantify over every list of thread programs (sequences of Handshake / Write / Close /
  CloseWrite calls) and every schedule (list of thread ids; each step is one atomic operation of
  `ZV.Model.C34`).  They are statements about the MODEL.  Data-race freedom, absence of deadlock and
  byte-stream preservation of the real `Conn` are not theorems: they are explored by the stress rig under the
  race detector (tools/props/C34.json says so).
-/
namespace ZV.C34

/-- `activeCall` never goes negative (the deferred `AddInt32(-2)` never underflows). -/
theorem counter_never_negative (progs : List (List Op)) (sched : List Nat) :
    0 ≤ (run (init progs) sched).active :=
  (run_inv sched _ (init_inv progs)).nonneg

/-- The word means what its comment says, in every reachable state: the bits above bit 0 count exactly the
    goroutines between Write's gate and its deferred decrement, and bit 0 is set iff a Close has won its CAS. -/
theorem counter_counts_writers (progs : List (List Op)) (sched : List Nat) :
    (run (init progs) sched).active / 2 = (inflightOf (run (init progs) sched).threads : Int)
    ∧ (run (init progs) sched).active % 2 = (closeCount (run (init progs) sched).events : Int) := by
  have inv := run_inv sched _ (init_inv progs)
  have h1 := inv.count
  have h2 := inv.bit
  constructor <;> omega

/-- No Write passes the gate after a Close's CAS has succeeded: in the event history of every run, below
    every `enter` there is no `closeWon`. -/
theorem no_write_after_close (progs : List (List Op)) (sched : List Nat) :
    NoEnterAfterClose (run (init progs) sched).events :=
  (run_inv sched _ (init_inv progs)).order

/-- At most one Close call ever wins (so the close_notify / underlying Close path runs at most once); every
    other Close returns `net.ErrClosed`. -/
theorem close_wins_at_most_once (progs : List (List Op)) (sched : List Nat) :
    closeCount (run (init progs) sched).events ≤ 1 := by
  have inv := run_inv sched _ (init_inv progs)
  have := inv.bit
  omega

/-- The value `x` on which the winning Close branches (`x != 0` ⇒ skip close_notify and just close the
    socket) is exactly twice the number of Writes inside the gate at the instant of its CAS: Close sends
    close_notify iff no Write is in flight at that instant — and by `no_write_after_close` none can start later. -/
theorem close_sees_writers_exactly (progs : List (List Op)) (sched : List Nat) :
    CloseSeesWriters (run (init progs) sched).events :=
  (run_inv sched _ (init_inv progs)).sees

/-- Once set, the closed bit stays set along every continuation of every run … -/
theorem closed_bit_sticky (s : Sys) (sched : List Nat) (h : s.active % 2 = 1) :
    (run s sched).active % 2 = 1 :=
  run_bit_sticky sched s h

/-- … and a Write that begins (loads the word) while it is set returns `net.ErrClosed` without touching
    anything else. -/
theorem write_after_close_refused (i : Nat) (s : Sys) (t : Thread) (hi : s.threads[i]? = some t)
    (hpc : t.pc = .wStart) (h : s.active % 2 = 1) :
    (step i (step i s)).threads[i]? = some { t with pc := .idle, outs := .closed :: t.outs } :=
  write_refused_when_closed i s t hi hpc h

/-- What the code does about in-flight writers is NOT to wait for them: from its first load, a Close running
    alone is refused or wins its CAS immediately, however many Writes are in flight … -/
theorem close_does_not_wait (i : Nat) (s : Sys) (t : Thread) (hi : s.threads[i]? = some t) (hpc : t.pc = .cStart) :
    (step i (step i s)).threads[i]? =
      some (if s.active % 2 = 1 then { t with pc := .idle, outs := .closed :: t.outs }
            else { t with pc := .cWon s.active }) :=
  close_cas_alone i s t hi hpc

/-- … and having won it returns after one more step with the underlying connection closed (result ok/err,
    never ErrClosed). -/
theorem close_winner_returns (i : Nat) (s : Sys) (t : Thread) (x : Int) (hi : s.threads[i]? = some t)
    (hpc : t.pc = .cWon x) :
    ∃ r, r ≠ Out.closed ∧ (step i s).threads[i]? = some { t with pc := .idle, outs := r :: t.outs }
      ∧ (step i s).connClosed = true :=
  close_won_returns i s t x hi hpc

/-- When every call has returned the word is 0 (never closed) or 1 (closed): no writer is leaked. -/
theorem quiescent_word (progs : List (List Op)) (sched : List Nat)
    (hq : quiescent (run (init progs) sched) = true) :
    (run (init progs) sched).active = (closeCount (run (init progs) sched).events : Int)
    ∧ closeCount (run (init progs) sched).events ≤ 1 := by
  have inv := run_inv sched _ (init_inv progs)
  have h0 := inflight_zero_of_quiescent _ hq
  have h1 := inv.count
  have h2 := inv.bit
  rw [h0] at h1
  constructor <;> omega

-- the hypotheses are satisfiable: two writers and two closers, an interleaving in which a Write is in flight
-- when Close wins (fast path, x = 2); the other Close loses its CAS, retries and is refused, as is the late Write
example :
    let s := run (init [[.write, .write], [.close], [.close]]) [0, 0, 0, 1, 2, 1, 2, 1, 2, 0, 0, 0, 0, 0, 1, 2, 2]
    quiescent s = true ∧ s.active = 1
      ∧ s.events.reverse = [.enter 0, .closeWon 1 2 1, .exit 0, .refusedW 0, .refusedC 2] := by decide

-- hypotheses of `write_after_close_refused` / `close_does_not_wait`: a Write about to load while the bit is set,
-- a Close about to load while a Write is in flight
example :
    let s := run (init [[.close], [.write]]) [0, 0, 0, 1]
    s.active % 2 = 1 ∧ (s.threads[1]?).map (·.pc) = some .wStart := by decide

example :
    let s := run (init [[.write], [.close]]) [0, 0, 0, 1]
    s.active = 2 ∧ (s.threads[1]?).map (·.pc) = some .cStart := by decide

example : runSeq [.handshake, .write, .closeWrite, .write, .close, .write, .close] =
    [.ok, .ok, .ok, .shutdown, .ok, .closed, .closed] := by decide


/-! ## The lock / atomic protocol of `tls.Conn` (handshakeMutex, in, out, handshakeStatus)

  Part A — T1 facts: theorems by `decide` over the WHOLE generated table `ZV.C34.Gen` (go/extract/c34 walks every
  function of package tls with go/ast on each run; a reordering of Lock / Store / flush in the source changes the
  generated lists and the named theorem stops compiling).
  Part B — the interleaving semantics `ZV.C34.Sync` (hand-written from the same step lists): invariants and
  freedom from lock deadlock for EVERY number of threads and EVERY schedule. -/

open Gen in
/-- (3) every `Lock` in package tls on the three Conn mutexes is immediately followed by `defer Unlock` of the same
    mutex and there is no other Unlock: every Lock is matched on every path, a mutex is held to the end of the
    function that locked it. -/
theorem locks_balanced : Gen.funcs.all Gen.balanced = true := by decide

/-- the may-acquire sets used below are closed under own locks and calls (certificate check) -/
theorem acq_certificate_closed : Gen.acqClosed = true := by decide

/-- (1) lock order: with handshakeMutex < in < out, every acquisition (own Lock or through a call, transitively)
    made while a mutex is held goes strictly upwards — with exactly ONE exception: `Conn.Read` holds `in` when it
    calls handlePostHandshakeMessage → handleRenegotiation, which locks handshakeMutex.  (The syntactic lock graph of
    tls.Conn is NOT acyclic; `no_lock_deadlock` below shows why the inversion cannot deadlock.) -/
theorem lock_order_acyclic_except_renegotiation :
    Gen.badEdges = [(Gen.id_Conn_Read, 1, 0)] := by decide

/-- the `underHM` set (functions only ever called with handshakeMutex held) is justified: none is exported and each
    call site holds handshakeMutex or is itself in the set; all four handshake implementations are in it. -/
theorem underHM_certificate_closed :
    Gen.underHMClosed = true
    ∧ [Gen.id_Conn_clientHandshake, Gen.id_Conn_serverHandshake, Gen.id_clientHandshakeState_handshake,
       Gen.id_clientHandshakeStateTLS13_handshake, Gen.id_serverHandshakeState_handshake,
       Gen.id_serverHandshakeStateTLS13_handshake].all (Gen.underHM.contains ·) = true := by decide

/-- (4a) the ONLY writes to handshakeStatus in package tls: `Store 0` in handleRenegotiation and `Store 1` in the
    four handshake implementations (no plain access, no other atomic). -/
theorem flag_store_sites :
    Gen.flagStores = [(Gen.id_Conn_handleRenegotiation, 0), (Gen.id_clientHandshakeStateTLS13_handshake, 1),
      (Gen.id_clientHandshakeState_handshake, 1), (Gen.id_serverHandshakeStateTLS13_handshake, 1),
      (Gen.id_serverHandshakeState_handshake, 1)] := by decide

/-- (4b) handshakeStatus is only stored while handshakeMutex is held. -/
theorem flag_stored_only_under_handshakeMutex : Gen.storesUnderHM = true := by decide

/-- (4c) in each handshake implementation `Store handshakeStatus 1` comes after the final flush: a flush precedes
    it, and after it there is no flush, no call and no Lock, only `return nil`. -/
theorem store_after_final_flush : Gen.storeAfterFinalFlush = true := by decide

/-- (5) renegotiation clears the flag under handshakeMutex and before running the handshake again:
    handleRenegotiation ends with Lock hM, defer Unlock, Store 0, clientHandshake(). -/
theorem renegotiation_clears_under_handshakeMutex :
    ((Gen.rowOf Gen.id_Conn_handleRenegotiation).filter fun e => e != .call Gen.id_Conn_sendAlert
        && e != .call Gen.id_Conn_readHandshake) =
      [.lock 0, .deferUnlock 0, .store 0 0, .call Gen.id_Conn_clientHandshake] := by decide

/-- Conn.handshake tests the flag under handshakeMutex BEFORE locking `in` (the gate the model's `hChk` step is). -/
theorem handshake_gate_order :
    ((Gen.rowOf Gen.id_Conn_handshake).filter fun e => e != .retNil && e != .flush) =
      [.lock 0, .deferUnlock 0, .call Gen.id_Conn_handshakeComplete, .lock 1, .deferUnlock 1,
       .call Gen.id_Conn_clientHandshake, .call Gen.id_Conn_serverHandshake, .call Gen.id_Conn_handshakeComplete] := by
  decide

/-! ### Part B -/

/-- mutual exclusion: in every reachable state each mutex is held by at most one thread. -/
theorem mutual_exclusion {s : Sync.State} (h : Sync.Reach s) (m i j : Nat)
    (hi : Sync.holds m (s.pcs i) = true) (hj : Sync.holds m (s.pcs j) = true) : i = j :=
  (Sync.reach_inv h).mx m i j hi hj

/-- the inversion is harmless: whenever a Handshake call holding handshakeMutex is about to Lock `in` (it saw no
    error and the flag clear), NO thread holds `in` — in particular no Read that could ask for handshakeMutex. -/
theorem handshake_finds_in_free {s : Sync.State} (h : Sync.Reach s) {a : Nat} {r : Bool}
    (ha : s.pcs a = .hIn r) (b : Nat) : Sync.holds 1 (s.pcs b) = false :=
  Sync.in_free_at_hIn (Sync.reach_inv h) ha b

/-- (2) NO LOCK DEADLOCK, any number of threads, any schedule: in every reachable state in which some call is in
    progress, some thread with a call in progress can take a step (so a set of calls can never all be waiting for
    each other's mutexes). -/
theorem no_lock_deadlock {s : Sync.State} (h : Sync.Reach s) {i : Nat} (hi : s.pcs i ≠ .idle) :
    ∃ j s', s.pcs j ≠ .idle ∧ Sync.Step j s s' := by
  obtain ⟨j, hj, s', hs⟩ := Sync.progress (Sync.reach_inv h) hi
  exact ⟨j, s', hj, hs⟩

/-- while handshakeMutex is free and a Read is past its gate, the connection is never seen "not complete and not
    failed": ConnectionState (which reads the flag under handshakeMutex) cannot observe HandshakeComplete = false
    between two successful handshakes. -/
theorem settled_while_reading {s : Sync.State} (h : Sync.Reach s) {i : Nat} (hi : Sync.inR (s.pcs i) = true)
    (hfree : ∀ j, Sync.holds 0 (s.pcs j) = false) : s.flag = true ∨ s.herr = true := by
  cases hf : s.flag
  · cases he : s.herr
    · exfalso
      rcases (Sync.reach_inv h).rd (by rw [hf, he]; rfl) with hn | ⟨k, hk⟩
      · rw [hn i] at hi; cases hi
      · have := Sync.inG_hm hk; rw [hfree k] at this; cases this
    · exact Or.inr rfl
  · exact Or.inl rfl

/-- the flag is only changed by a thread holding handshakeMutex (model counterpart of (4b)/(5)). -/
theorem model_flag_changes_under_handshakeMutex {pc pc' : Sync.Pc} {f e f' e' : Bool}
    (h : Sync.T pc f e pc' f' e') (hne : f' ≠ f ∨ e' ≠ e) : Sync.holds 0 pc = true := by
  rcases Sync.T_mod h with h0 | ⟨h1, h2⟩
  · exact h0
  · rcases hne with h | h
    · exact absurd h1 h
    · exact absurd h2 h

-- hypotheses satisfiable: a reachable state with a call in progress (thread 0 has entered Handshake from Read)
example : ∃ s, Sync.Reach s ∧ s.pcs 0 ≠ .idle :=
  ⟨{ flag := false, herr := false, pcs := Sync.setPc Sync.init.pcs 0 (.hWant true) },
   .step 0 .init ⟨.hWant true, false, false, .startH true false false,
     (by intro m _ h; rcases m with _ | _ | _ | m <;> simp [Sync.holds] at h), rfl⟩,
   by simp [Sync.setPc]⟩

end ZV.C34
