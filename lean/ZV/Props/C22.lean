import ZV.Model.C22
import ZV.Proofs.C22
import ZV.Generated.C22
/-!
  C22 — distinguished names round-trip through RDN sequences.

  Objects (ZV.Model.C22): `toRDN : Name → Option RDNSeq` models `Name.ToRDNSequence` (`none` = nil result),
  `fill : Option RDNSeq → Name` models `var n Name; n.FillFromRDNSequence(&seq)`, `emit` is the field part of
  `ToRDNSequence` (all `appendRDNs` calls, then the ExtraNames loop).  Strings are arbitrary byte strings.

  1. T1 — the model's dispatch / emission tables ARE the ones in pkix.go (`*_matches_source`, by evaluation
     over the tables `ZV.Generated.C22` extracts from the working tree with go/ast).
  2. `fill_to` — Name → sequence → Name returns every emitted field, for all names (no hypothesis on values).
  3. `to_of_fill_original` — sequence → Name → sequence is the identity for ALL sequences (OriginalRDNS short-cut),
     nil and empty included.
  4. `to_of_fill_canonical` / `emit_canonical` / `canonical_iff` — with the short-cut disabled, re-emission from the
     fields reproduces the sequence exactly for the decidable class `Canonical`, and for no other sequence.

  These theorems are about the pure conversions, which preserve order: equality is exact (lists, not multisets).
  The DER leg of the property (asn1.Marshal / Unmarshal of the sequence) is NOT modelled in Lean; there only the
  order of the members inside one multi-valued RDN may change (SET OF is sorted by encoding).  It is checked on
  the real code by the harness (T3 in go/props/c22: per-RDN multiset equality, byte-identical re-marshal).
-/
namespace ZV.C22

/-! ### T1: the tables of the model equal the tables of pkix.go -/

/-- the `[]string` / `string` fields of struct `Name` are exactly the model's `Field` / `Scalar` (same order). -/
theorem name_fields_match_source :
    Gen.nameSliceFields = Field.all.map Field.goName ∧ Gen.nameScalarFields = Scalar.all.map Scalar.goName := by
  decide

/-- the guard in front of the switch is `len(t) == 4 && t[0] == 2 && t[1] == 5 && t[2] == 4`, the switch is on `t[3]`. -/
theorem fill_guard_matches_source :
    Gen.fillPrefixLen = fillPrefixLen ∧ Gen.fillPrefix = fillPrefix ∧ Gen.fillGuardOther = [] ∧
    Gen.fillSwitchIndex = fillPrefix.length := by decide

/-- every `case k:` arm of `FillFromRDNSequence` (key, statements, order) equals the model's `fillSwitch`. -/
theorem fill_switch_matches_source :
    Gen.fillSwitch = fillSwitch.map (fun r => (r.1, r.2.map Act.goName)) := by decide

/-- every `else if t.Equal(oidX)` arm (resolved OID, statements, order) equals the model's `fillChain`. -/
theorem fill_chain_matches_source :
    Gen.fillChain = fillChain.map (fun r => (r.1, r.2.map Act.goName)) := by decide

/-- the statement list of `ToRDNSequence` — OriginalRDNS short-cut first, then the `appendRDNs` calls with their
    field, OID, guard and order, then the ExtraNames loop, then `return ret` — equals the model's. -/
theorem emit_order_matches_source : Gen.emitOrder = toRDNShape := by decide

/-- every emission row's OID dispatches (in `FillFromRDNSequence`) back to that row's own field and to no other
    row's field, and no two rows share an OID: the two tables are mutually inverse on the emitted fields. -/
theorem tables_inverse : rowsOK emitRows = true ∧ oidsDistinct emitRows = true := by decide

/-! ### Name → sequence → Name -/

/-- **fill ∘ toRDN.**  For every Name `n` whose `OriginalRDNS` is nil (so that `ToRDNSequence` emits from the
    fields), `m = fill (toRDN n)` satisfies: every slice field holds exactly what was emitted of it
    (`emittedView`: the 13 emitted slice fields unchanged — whatever the values, empty strings and duplicates
    included —, `CommonNames = [CommonName]` / `SerialNumbers = [SerialNumber]` when that scalar is non-empty and
    `[]` otherwise, `GivenName = Surname = []` because `ToRDNSequence` does not emit them) followed by the string
    values of the `ExtraNames` entries whose type dispatches to that field; each scalar is the last `ExtraNames`
    string value of its type ("last one wins"), `n`'s own scalar if there is none (an empty scalar is not emitted
    and comes back empty); `Names` is the flattened sequence; `ExtraNames` is empty; `OriginalRDNS` is the
    sequence.  No hypothesis on the values is needed. -/
theorem fill_to (n : Name) (h : n.originalRDNS = none) :
    (∀ f, (fill (toRDN n)).get f = emittedView n f ++ n.extraNames.flatMap (valsFor f)) ∧
    (∀ s, (fill (toRDN n)).getS s = n.extraNames.foldl (stepS s) (n.getS s)) ∧
    (fill (toRDN n)).names = (emit n).flatten ∧
    (fill (toRDN n)).extraNames = [] ∧
    (fill (toRDN n)).originalRDNS = toRDN n := by
  have ht : toRDN n = nilIfEmpty (emit n) := by simp [toRDN, h]
  have hf : flat (toRDN n) = (emitL emitRows n).flatten ++ n.extraNames := by
    rw [ht, flat_nilIfEmpty, emit_eq]; simp [flatten_singletons]
  unfold fill
  rw [fillInto_eq, hf]
  refine ⟨fun f => ?_, fun s => ?_, ?_, ?_, ?_⟩
  · rw [fillFlat_get, List.flatMap_append, rows_view]
    cases f <;> simp [Name.empty, Name.get]
  · rw [fillFlat_getS, List.foldl_append]
    have : ({ Name.empty with originalRDNS := toRDN n } : Name).getS s = [] := by cases s <;> rfl
    rw [this, rows_scalar]
  · rw [(fillFlat_rest _ _).1, ← hf, ht, flat_nilIfEmpty]; simp [Name.empty]
  · rw [(fillFlat_rest _ _).2.1]; simp [Name.empty]
  · rw [(fillFlat_rest _ _).2.2]

/-- without `ExtraNames` the emitted fields round-trip exactly (field by field, in order). -/
theorem fill_to_no_extra (n : Name) (h : n.originalRDNS = none) (hx : n.extraNames = []) :
    (∀ f, (fill (toRDN n)).get f = emittedView n f) ∧
    (fill (toRDN n)).commonName = n.commonName ∧ (fill (toRDN n)).serialNumber = n.serialNumber := by
  have := fill_to n h
  refine ⟨fun f => ?_, ?_, ?_⟩
  · rw [this.1 f, hx]; simp
  · have h2 := this.2.1 .commonName; rw [hx] at h2; simpa [Name.getS] using h2
  · have h2 := this.2.1 .serialNumber; rw [hx] at h2; simpa [Name.getS] using h2

/-- the same, spelled out field by field (the first sentence of the property on the pure functions). -/
theorem fill_to_fields (n : Name) (h : n.originalRDNS = none) (hx : n.extraNames = []) :
    (fill (toRDN n)).country = n.country ∧ (fill (toRDN n)).organization = n.organization ∧
    (fill (toRDN n)).organizationalUnit = n.organizationalUnit ∧ (fill (toRDN n)).locality = n.locality ∧
    (fill (toRDN n)).province = n.province ∧ (fill (toRDN n)).streetAddress = n.streetAddress ∧
    (fill (toRDN n)).postalCode = n.postalCode ∧ (fill (toRDN n)).domainComponent = n.domainComponent ∧
    (fill (toRDN n)).emailAddress = n.emailAddress ∧ (fill (toRDN n)).organizationIDs = n.organizationIDs ∧
    (fill (toRDN n)).jurisdictionLocality = n.jurisdictionLocality ∧
    (fill (toRDN n)).jurisdictionProvince = n.jurisdictionProvince ∧
    (fill (toRDN n)).jurisdictionCountry = n.jurisdictionCountry ∧
    (fill (toRDN n)).commonName = n.commonName ∧ (fill (toRDN n)).serialNumber = n.serialNumber ∧
    (fill (toRDN n)).commonNames = (if n.commonName.length > 0 then [n.commonName] else []) ∧
    (fill (toRDN n)).serialNumbers = (if n.serialNumber.length > 0 then [n.serialNumber] else []) ∧
    (fill (toRDN n)).givenName = [] ∧ (fill (toRDN n)).surname = [] := by
  obtain ⟨hf, hcn, hsn⟩ := fill_to_no_extra n h hx
  exact ⟨hf .country, hf .organization, hf .organizationalUnit, hf .locality, hf .province, hf .streetAddress,
    hf .postalCode, hf .domainComponent, hf .emailAddress, hf .organizationIDs, hf .jurisdictionLocality,
    hf .jurisdictionProvince, hf .jurisdictionCountry, hcn, hsn, hf .commonNames, hf .serialNumbers,
    hf .givenName, hf .surname⟩

/-- with `ExtraNames`: an entry of a dispatched type lands in that type's field after the emitted values, and the
    last CommonName-typed entry overrides the scalar (concrete instance of `fill_to`). -/
example :
    let n : Name := { commonName := [0x61], country := [[0x55]],
                      extraNames := [⟨oidCountry, .str [0x56]⟩, ⟨oidCommonName, .str [0x62]⟩, ⟨oidCountry, .other 2 [1]⟩] }
    (fill (toRDN n)).country = [[0x55], [0x56]] ∧ (fill (toRDN n)).commonName = [0x62] ∧
    (fill (toRDN n)).commonNames = [[0x61], [0x62]] := by decide

/-- the hypotheses are satisfiable with non-trivial values: multi-valued field, empty string member, duplicate,
    invalid UTF-8, a non-emitted field. -/
example :
    let n : Name := { commonName := [0x61], country := [[0x55, 0x53], [], [0x55, 0x53]],
                      organization := [[0xff, 0xfe]], givenName := [[0x62]] }
    n.originalRDNS = none ∧ n.extraNames = [] ∧
    (fill (toRDN n)).country = n.country ∧ (fill (toRDN n)).commonNames = [[0x61]] ∧
    (fill (toRDN n)).givenName = [] := by decide

/-! ### sequence → Name → sequence -/

/-- **toRDN ∘ fill, as the code runs.**  For EVERY sequence — any OIDs, any values (strings or not), empty RDNs,
    repeated types, the non-nil empty sequence, and nil — `ToRDNSequence` of the Name filled from it is that
    sequence.  (`some s`: `OriginalRDNS` is non-nil and returned as is; `none`: `OriginalRDNS` is nil, the code falls
    through to the fields, which are all empty, and returns nil.) -/
theorem to_of_fill_original (seq : Option RDNSeq) : toRDN (fill seq) = seq := by
  cases seq with
  | none => decide
  | some s =>
    have : (fill (some s)).originalRDNS = some s := by
      unfold fill; rw [fillInto_eq, (fillFlat_rest _ _).2.2]
    simp [toRDN, this]

/-- the same when filling into an already populated Name (non-nil sequence). -/
theorem to_of_fillInto_original (n : Name) (s : RDNSeq) : toRDN (fillInto n (some s)) = some s := by
  have : (fillInto n (some s)).originalRDNS = some s := by
    rw [fillInto_eq, (fillFlat_rest _ _).2.2]
  simp [toRDN, this]

/-- **toRDN ∘ fill without the short-cut.**  If `seq` is `Canonical` — its RDNs follow the emission order of
    `ToRDNSequence`, each emitted attribute type at most once, every RDN non-empty with all members of that one
    type and string-valued, the CommonName / SerialNumber RDNs single-valued with a non-empty value; empty-string
    members of the other RDNs are allowed — then `ToRDNSequence` of the filled Name with `OriginalRDNS` reset to
    nil, i.e. re-emission from the FIELDS, gives back `seq` exactly (nil for the empty sequence: a slice built by
    `append` from nil stays nil when nothing is appended). -/
theorem to_of_fill_canonical (seq : RDNSeq) (h : Canonical seq = true) :
    toRDN { fill (some seq) with originalRDNS := none } = nilIfEmpty seq := by
  show nilIfEmpty (reemit seq) = nilIfEmpty seq
  rw [reemit_eq]
  rw [canon_roundtrip emitRows tables_inverse.1 seq Name.empty h (by decide)]

/-- in particular a non-empty canonical sequence comes back as itself. -/
theorem to_of_fill_canonical_nonempty (seq : RDNSeq) (h : Canonical seq = true) (hne : seq ≠ []) :
    toRDN { fill (some seq) with originalRDNS := none } = some seq := by
  rw [to_of_fill_canonical seq h]
  cases seq with
  | nil => exact absurd rfl hne
  | cons _ _ => rfl

/-- conversely, whatever `ToRDNSequence` emits from the fields of a Name without `ExtraNames` is `Canonical`. -/
theorem emit_canonical (n : Name) (hx : n.extraNames = []) : Canonical (emit n) = true := by
  rw [emit_eq, hx]
  simpa [Canonical] using emitL_canon emitRows tables_inverse.2 n

/-- so `Canonical` is EXACTLY the domain on which re-emission from the fields (`reemit seq` =
    `emit { fill (some seq) with originalRDNS := none }`) is the identity. -/
theorem canonical_iff (seq : RDNSeq) : Canonical seq = true ↔ reemit seq = seq := by
  constructor
  · intro h
    rw [reemit_eq]
    exact canon_roundtrip emitRows tables_inverse.1 seq Name.empty h (by decide)
  · intro h
    rw [← h]
    unfold reemit
    apply emit_canonical
    show (fill (some seq)).extraNames = []
    unfold fill; rw [fillInto_eq, (fillFlat_rest _ _).2.1]; rfl

/-- `Canonical` is satisfiable by a non-trivial sequence (CN, a 2-valued O with an empty member, C, serialNumber) … -/
example : Canonical [[mkATV oidCommonName [0x61]], [mkATV oidOrganization [0x41], mkATV oidOrganization []],
    [mkATV oidCountry [0x55, 0x53]], [mkATV oidSerialNumber [0x31]]] = true := by decide
/-- … and rejects: wrong order, a repeated type, an empty CN, a non-string member, an unknown type, an empty RDN. -/
example : Canonical [[mkATV oidCountry [0x55]], [mkATV oidCommonName [0x61]]] = false := by decide
example : Canonical [[mkATV oidCountry [0x55]], [mkATV oidCountry [0x56]]] = false := by decide
example : Canonical [[mkATV oidCommonName []]] = false := by decide
example : Canonical [[⟨oidCountry, .other 2 [1]⟩]] = false := by decide
example : Canonical [[mkATV [2, 5, 4, 12] [0x61]]] = false := by decide
example : Canonical [[]] = false := by decide

end ZV.C22
