import ZV.Model.C22
import ZV.Proofs.C22
import ZV.Generated.C22
import ZV.Proofs.C22Der
import ZV.Proofs.C22Any
/-!
  C22 — distinguished names round-trip through RDN sequences.

  Objects (ZV.Model.C22): `toRDN : Name → Option RDNSeq` models `Name.ToRDNSequence` (`none` = nil result),
  `fill : Option RDNSeq → Name` models `var n Name; n.FillFromRDNSequence(&seq)`, `emit` is the field part of
  `ToRDNSequence` (all `appendRDNs` calls, then the ExtraNames loop).  Strings are arbitrary byte strings.

  1. T1 — the model's dispatch / emission tables ARE the ones in pkix.go (`*_matches_source`, by evaluation
     over the tables `ZV.Generated.C22` extracts from the working tree with go/ast).
  2. `fill_to` — Name → sequence → Name returns every emitted field, for all names (no hypothesis on values).
  3. `to_of_fill_original` — sequence → Name → sequence is the identity for ALL sequences (OriginalRDNS short-cut),
     nil and empty included.
  4. `to_of_fill_canonical` / `emit_canonical` / `canonical_iff` — with the short-cut disabled, re-emission from the
     fields reproduces the sequence exactly for the decidable class `Canonical`, and for no other sequence.

  Theorems 2–4 are about the pure conversions, which preserve order: equality is exact (lists, not multisets).

  5. The DER leg (`rdnseq_der_roundtrip`, `name_der_roundtrip`, `name_der_marshal_ok`, `name_string_choice`): the Go type
     `pkix.RDNSequence` is the schema term `rdnSchema` = SEQUENCE OF (SET OF SEQUENCE {OID, string}) of the deep-embedded
     model of encoding/asn1 (ZV.Model.C18; `interface{}` is represented by the string kind, see ZV.Model.C22Der), and
     the statements are COROLLARIES of the C18 theorem `unmarshal_marshal_equiv` instantiated at that schema, composed
     with `fill_to`.  Only the order of the members inside one multi-valued RDN may change (SET OF is sorted by
     encoding): every slice field comes back as a multiset (`List.Perm`), the scalars and the order of the RDNs exactly.
     The model pipeline is tied to the real `asn1.Marshal` / `asn1.Unmarshal` / `FillFromRDNSequence` by the T2 stream
     `c22 d` (bytes, decoded sequence, filled Name, membership in the domain `seqOK`).
-/
namespace ZV.C22

/-! ### T1: the tables of the model equal the tables of pkix.go -/

/-- the `[]string` / `string` fields of struct `Name` are exactly the model's `Field` / `Scalar` (same order). -/
theorem name_fields_match_source :
    Gen.nameSliceFields = Field.all.map Field.goName ∧ Gen.nameScalarFields = Scalar.all.map Scalar.goName := by
  decide

/-- the guard in front of the switch is `len(t) == 4 && t[0] == 2 && t[1] == 5 && t[2] == 4`, the switch is on `t[3]`. -/
theorem fill_guard_matches_source :
    Gen.fillPrefixLen = fillPrefixLen ∧ Gen.fillPrefix = fillPrefix ∧ Gen.fillGuardOther = [] ∧
    Gen.fillSwitchIndex = fillPrefix.length := by decide

/-- every `case k:` arm of `FillFromRDNSequence` (key, statements, order) equals the model's `fillSwitch`. -/
theorem fill_switch_matches_source :
    Gen.fillSwitch = fillSwitch.map (fun r => (r.1, r.2.map Act.goName)) := by decide

/-- every `else if t.Equal(oidX)` arm (resolved OID, statements, order) equals the model's `fillChain`. -/
theorem fill_chain_matches_source :
    Gen.fillChain = fillChain.map (fun r => (r.1, r.2.map Act.goName)) := by decide

/-- the statement list of `ToRDNSequence` — OriginalRDNS short-cut first, then the `appendRDNs` calls with their
    field, OID, guard and order, then the ExtraNames loop, then `return ret` — equals the model's. -/
theorem emit_order_matches_source : Gen.emitOrder = toRDNShape := by decide

/-- every emission row's OID dispatches (in `FillFromRDNSequence`) back to that row's own field and to no other
    row's field, and no two rows share an OID: the two tables are mutually inverse on the emitted fields. -/
theorem tables_inverse : rowsOK emitRows = true ∧ oidsDistinct emitRows = true := by decide

/-! ### Name → sequence → Name -/

/-- **fill ∘ toRDN.**  For every Name `n` whose `OriginalRDNS` is nil (so that `ToRDNSequence` emits from the
    fields), `m = fill (toRDN n)` satisfies: every slice field holds exactly what was emitted of it
    (`emittedView`: the 13 emitted slice fields unchanged — whatever the values, empty strings and duplicates
    included —, `CommonNames = [CommonName]` / `SerialNumbers = [SerialNumber]` when that scalar is non-empty and
    `[]` otherwise, `GivenName = Surname = []` because `ToRDNSequence` does not emit them) followed by the string
    values of the `ExtraNames` entries whose type dispatches to that field; each scalar is the last `ExtraNames`
    string value of its type ("last one wins"), `n`'s own scalar if there is none (an empty scalar is not emitted
    and comes back empty); `Names` is the flattened sequence; `ExtraNames` is empty; `OriginalRDNS` is the
    sequence.  No hypothesis on the values is needed. -/
theorem fill_to (n : Name) (h : n.originalRDNS = none) :
    (∀ f, (fill (toRDN n)).get f = emittedView n f ++ n.extraNames.flatMap (valsFor f)) ∧
    (∀ s, (fill (toRDN n)).getS s = n.extraNames.foldl (stepS s) (n.getS s)) ∧
    (fill (toRDN n)).names = (emit n).flatten ∧
    (fill (toRDN n)).extraNames = [] ∧
    (fill (toRDN n)).originalRDNS = toRDN n := by
  have ht : toRDN n = nilIfEmpty (emit n) := by simp [toRDN, h]
  have hf : flat (toRDN n) = (emitL emitRows n).flatten ++ n.extraNames := by
    rw [ht, flat_nilIfEmpty, emit_eq]; simp [flatten_singletons]
  unfold fill
  rw [fillInto_eq, hf]
  refine ⟨fun f => ?_, fun s => ?_, ?_, ?_, ?_⟩
  · rw [fillFlat_get, List.flatMap_append, rows_view]
    cases f <;> simp [Name.empty, Name.get]
  · rw [fillFlat_getS, List.foldl_append]
    have : ({ Name.empty with originalRDNS := toRDN n } : Name).getS s = [] := by cases s <;> rfl
    rw [this, rows_scalar]
  · rw [(fillFlat_rest _ _).1, ← hf, ht, flat_nilIfEmpty]; simp [Name.empty]
  · rw [(fillFlat_rest _ _).2.1]; simp [Name.empty]
  · rw [(fillFlat_rest _ _).2.2]

/-- without `ExtraNames` the emitted fields round-trip exactly (field by field, in order). -/
theorem fill_to_no_extra (n : Name) (h : n.originalRDNS = none) (hx : n.extraNames = []) :
    (∀ f, (fill (toRDN n)).get f = emittedView n f) ∧
    (fill (toRDN n)).commonName = n.commonName ∧ (fill (toRDN n)).serialNumber = n.serialNumber := by
  have := fill_to n h
  refine ⟨fun f => ?_, ?_, ?_⟩
  · rw [this.1 f, hx]; simp
  · have h2 := this.2.1 .commonName; rw [hx] at h2; simpa [Name.getS] using h2
  · have h2 := this.2.1 .serialNumber; rw [hx] at h2; simpa [Name.getS] using h2

/-- the same, spelled out field by field (the first sentence of the property on the pure functions). -/
theorem fill_to_fields (n : Name) (h : n.originalRDNS = none) (hx : n.extraNames = []) :
    (fill (toRDN n)).country = n.country ∧ (fill (toRDN n)).organization = n.organization ∧
    (fill (toRDN n)).organizationalUnit = n.organizationalUnit ∧ (fill (toRDN n)).locality = n.locality ∧
    (fill (toRDN n)).province = n.province ∧ (fill (toRDN n)).streetAddress = n.streetAddress ∧
    (fill (toRDN n)).postalCode = n.postalCode ∧ (fill (toRDN n)).domainComponent = n.domainComponent ∧
    (fill (toRDN n)).emailAddress = n.emailAddress ∧ (fill (toRDN n)).organizationIDs = n.organizationIDs ∧
    (fill (toRDN n)).jurisdictionLocality = n.jurisdictionLocality ∧
    (fill (toRDN n)).jurisdictionProvince = n.jurisdictionProvince ∧
    (fill (toRDN n)).jurisdictionCountry = n.jurisdictionCountry ∧
    (fill (toRDN n)).commonName = n.commonName ∧ (fill (toRDN n)).serialNumber = n.serialNumber ∧
    (fill (toRDN n)).commonNames = (if n.commonName.length > 0 then [n.commonName] else []) ∧
    (fill (toRDN n)).serialNumbers = (if n.serialNumber.length > 0 then [n.serialNumber] else []) ∧
    (fill (toRDN n)).givenName = [] ∧ (fill (toRDN n)).surname = [] := by
  obtain ⟨hf, hcn, hsn⟩ := fill_to_no_extra n h hx
  exact ⟨hf .country, hf .organization, hf .organizationalUnit, hf .locality, hf .province, hf .streetAddress,
    hf .postalCode, hf .domainComponent, hf .emailAddress, hf .organizationIDs, hf .jurisdictionLocality,
    hf .jurisdictionProvince, hf .jurisdictionCountry, hcn, hsn, hf .commonNames, hf .serialNumbers,
    hf .givenName, hf .surname⟩

/-- with `ExtraNames`: an entry of a dispatched type lands in that type's field after the emitted values, and the
    last CommonName-typed entry overrides the scalar (concrete instance of `fill_to`). -/
example :
    let n : Name := { commonName := [0x61], country := [[0x55]],
                      extraNames := [⟨oidCountry, .str [0x56]⟩, ⟨oidCommonName, .str [0x62]⟩, ⟨oidCountry, .other 2 [1]⟩] }
    (fill (toRDN n)).country = [[0x55], [0x56]] ∧ (fill (toRDN n)).commonName = [0x62] ∧
    (fill (toRDN n)).commonNames = [[0x61], [0x62]] := by decide

/-- the hypotheses are satisfiable with non-trivial values: multi-valued field, empty string member, duplicate,
    invalid UTF-8, a non-emitted field. -/
example :
    let n : Name := { commonName := [0x61], country := [[0x55, 0x53], [], [0x55, 0x53]],
                      organization := [[0xff, 0xfe]], givenName := [[0x62]] }
    n.originalRDNS = none ∧ n.extraNames = [] ∧
    (fill (toRDN n)).country = n.country ∧ (fill (toRDN n)).commonNames = [[0x61]] ∧
    (fill (toRDN n)).givenName = [] := by decide

/-! ### sequence → Name → sequence -/

/-- **toRDN ∘ fill, as the code runs.**  For EVERY sequence — any OIDs, any values (strings or not), empty RDNs,
    repeated types, the non-nil empty sequence, and nil — `ToRDNSequence` of the Name filled from it is that
    sequence.  (`some s`: `OriginalRDNS` is non-nil and returned as is; `none`: `OriginalRDNS` is nil, the code falls
    through to the fields, which are all empty, and returns nil.) -/
theorem to_of_fill_original (seq : Option RDNSeq) : toRDN (fill seq) = seq := by
  cases seq with
  | none => decide
  | some s =>
    have : (fill (some s)).originalRDNS = some s := by
      unfold fill; rw [fillInto_eq, (fillFlat_rest _ _).2.2]
    simp [toRDN, this]

/-- the same when filling into an already populated Name (non-nil sequence). -/
theorem to_of_fillInto_original (n : Name) (s : RDNSeq) : toRDN (fillInto n (some s)) = some s := by
  have : (fillInto n (some s)).originalRDNS = some s := by
    rw [fillInto_eq, (fillFlat_rest _ _).2.2]
  simp [toRDN, this]

/-- **toRDN ∘ fill without the short-cut.**  If `seq` is `Canonical` — its RDNs follow the emission order of
    `ToRDNSequence`, each emitted attribute type at most once, every RDN non-empty with all members of that one
    type and string-valued, the CommonName / SerialNumber RDNs single-valued with a non-empty value; empty-string
    members of the other RDNs are allowed — then `ToRDNSequence` of the filled Name with `OriginalRDNS` reset to
    nil, i.e. re-emission from the FIELDS, gives back `seq` exactly (nil for the empty sequence: a slice built by
    `append` from nil stays nil when nothing is appended). -/
theorem to_of_fill_canonical (seq : RDNSeq) (h : Canonical seq = true) :
    toRDN { fill (some seq) with originalRDNS := none } = nilIfEmpty seq := by
  show nilIfEmpty (reemit seq) = nilIfEmpty seq
  rw [reemit_eq]
  rw [canon_roundtrip emitRows tables_inverse.1 seq Name.empty h (by decide)]

/-- in particular a non-empty canonical sequence comes back as itself. -/
theorem to_of_fill_canonical_nonempty (seq : RDNSeq) (h : Canonical seq = true) (hne : seq ≠ []) :
    toRDN { fill (some seq) with originalRDNS := none } = some seq := by
  rw [to_of_fill_canonical seq h]
  cases seq with
  | nil => exact absurd rfl hne
  | cons _ _ => rfl

/-- conversely, whatever `ToRDNSequence` emits from the fields of a Name without `ExtraNames` is `Canonical`. -/
theorem emit_canonical (n : Name) (hx : n.extraNames = []) : Canonical (emit n) = true := by
  rw [emit_eq, hx]
  simpa [Canonical] using emitL_canon emitRows tables_inverse.2 n

/-- so `Canonical` is EXACTLY the domain on which re-emission from the fields (`reemit seq` =
    `emit { fill (some seq) with originalRDNS := none }`) is the identity. -/
theorem canonical_iff (seq : RDNSeq) : Canonical seq = true ↔ reemit seq = seq := by
  constructor
  · intro h
    rw [reemit_eq]
    exact canon_roundtrip emitRows tables_inverse.1 seq Name.empty h (by decide)
  · intro h
    rw [← h]
    unfold reemit
    apply emit_canonical
    show (fill (some seq)).extraNames = []
    unfold fill; rw [fillInto_eq, (fillFlat_rest _ _).2.1]; rfl

/-- `Canonical` is satisfiable by a non-trivial sequence (CN, a 2-valued O with an empty member, C, serialNumber) … -/
example : Canonical [[mkATV oidCommonName [0x61]], [mkATV oidOrganization [0x41], mkATV oidOrganization []],
    [mkATV oidCountry [0x55, 0x53]], [mkATV oidSerialNumber [0x31]]] = true := by decide
/-- … and rejects: wrong order, a repeated type, an empty CN, a non-string member, an unknown type, an empty RDN. -/
example : Canonical [[mkATV oidCountry [0x55]], [mkATV oidCommonName [0x61]]] = false := by decide
example : Canonical [[mkATV oidCountry [0x55]], [mkATV oidCountry [0x56]]] = false := by decide
example : Canonical [[mkATV oidCommonName []]] = false := by decide
example : Canonical [[⟨oidCountry, .other 2 [1]⟩]] = false := by decide
example : Canonical [[mkATV [2, 5, 4, 12] [0x61]]] = false := by decide
example : Canonical [[]] = false := by decide

/-! ### the DER leg: Name → ToRDNSequence → asn1.Marshal → asn1.Unmarshal → FillFromRDNSequence -/

/-- **the Printable/UTF8 choice.**  For a value that is valid UTF-8 `makeField` writes a PrintableString (tag 19) or a
    UTF8String (tag 12) — PrintableString exactly when every byte is printable ASCII other than `*` and `&` — and
    whichever it picks, the strict decoder reads the content back as the same Go string. -/
theorem name_string_choice (s : Bytes) (h : C18.utf8Valid s = true) :
    ∃ t, stringChoice s = some t ∧ (t = 19 ∨ t = 12) ∧ readBack t s = .ok (.bytes s) ∧
      (t = 19 ↔ s.all (fun b => decide (b.toNat < 128) && C18.isPrintable b false false) = true) := by
  rcases stringChoice_cases s h with ⟨h1, hp⟩ | h1
  · exact ⟨19, h1, Or.inl rfl, readBack_choice s 19 h1, ⟨fun _ => hp, fun _ => rfl⟩⟩
  · refine ⟨12, h1, Or.inr rfl, readBack_choice s 12 h1, ⟨fun hc => by omega, fun hp => ?_⟩⟩
    have : stringChoice s = some 19 := by unfold stringChoice C18.stringTag; simp [hp]
    rw [this] at h1; cases h1

example : stringChoice [0x55, 0x53] = some 19 ∧ stringChoice [0x2a] = some 12 ∧ stringChoice [0xc3, 0xa9] = some 12 ∧
    stringChoice [0xff] = none := by decide

/-- **pkix.RDNSequence round-trips through DER** (instance of C18 `unmarshal_marshal_equiv` at `rdnSchema`).
    For every sequence of the decidable domain `seqOK` (every value a Go string, valid UTF-8; every attribute type an
    OBJECT IDENTIFIER the codec carries: ≥ 2 arcs, first ≤ 2, second < 40 unless the first is 2, sub-identifiers < 2^31) — nil,
    empty, empty RDNs, multi-valued RDNs, repeated and unknown types included — strict `asn1.Unmarshal` of
    `asn1.Marshal(seq)` followed by any `rest` returns exactly `rest` and a sequence with the same number of RDNs in the
    same order, each RDN a permutation of the original one (`RdnPerm`), and that sequence marshals to the same bytes. -/
theorem rdnseq_der_roundtrip (seq : Option RDNSeq) (hok : seqOK (orNil seq) = true) (der rest : Bytes)
    (hm : marshalSeq seq = .ok der) (hl : der.length < 2147483648) :
    ∃ seq', unmarshalSeq (der ++ rest) = .ok (seq', rest) ∧ RdnPerm (orNil seq) seq' ∧
      marshalSeq (some seq') = .ok der := by
  obtain ⟨v', h1, h2, h3⟩ := C18.unmarshal_marshal_equiv rdnSchema {} (seqToVal seq) der rest (inDomain_seq seq hok) hm hl
    (fun ho => by rw [C18.omitted_false _ {} _ rfl rfl] at ho; cases ho)
  refine ⟨valToSeq v', by simp [unmarshalSeq, h1], veq_seq seq v' hok h2, ?_⟩
  have hall : C18.All2 (fun a b => (C18.elems b).Perm (C18.elems a)) ((orNil seq).map rdnToVal) (C18.elems v') := by
    have h2' := h2
    simp only [rdnSchema, C18.VEq, Bool.or_false] at h2'
    simp only [show (({} : C18.Params).set = true) = False from by simp, if_false] at h2'
    have : C18.elems (seqToVal seq) = (orNil seq).map rdnToVal := by
      cases seq with
      | none => rfl
      | some s => simp only [seqToVal, orNil]; rw [← velems_eq, velems_chain]
    rw [this] at h2'
    exact C18.All2_mono (fun a _ b hab => veq_rdn a b hab) h2'
  simp only [seqOK, List.all_eq_true] at hok
  exact remarshal (orNil seq) v' der hok hall h3

/-- the hypotheses are satisfiable, and `RdnPerm` is not equality: the two-valued RDN `C=US + C=DE` is in the domain, Marshal
    succeeds on it, and the DER encoding (members sorted: `DE` first) decodes to the PERMUTED RDN -/
example : seqOK [[mkATV oidCountry [0x55, 0x53], mkATV oidCountry [0x44, 0x45]]] = true ∧
    (∃ der, marshalSeq (some [[mkATV oidCountry [0x55, 0x53], mkATV oidCountry [0x44, 0x45]]]) = .ok der) ∧
    unmarshalSeq [0x30, 0x18, 0x31, 0x16, 0x30, 0x09, 0x06, 0x03, 0x55, 0x04, 0x06, 0x13, 0x02, 0x44, 0x45,
           0x30, 0x09, 0x06, 0x03, 0x55, 0x04, 0x06, 0x13, 0x02, 0x55, 0x53] =
      .ok ([[mkATV oidCountry [0x44, 0x45], mkATV oidCountry [0x55, 0x53]]], []) :=
  ⟨by decide, marshalSeq_ok _ (by decide), by decide⟩

/-- **Marshal never fails on the domain**: `asn1.Marshal(n.ToRDNSequence())` succeeds for every Name whose emitted values
    are valid UTF-8 (and whose `ExtraNames` are string-valued with encodable types). -/
theorem name_der_marshal_ok (n : Name) (h : n.originalRDNS = none) (hok : seqOK (emit n) = true) :
    ∃ der, marshalSeq (toRDN n) = .ok der := by
  apply marshalSeq_ok
  have : orNil (toRDN n) = emit n := by
    simp only [toRDN, h]; cases emit n <;> rfl
  rw [this]; exact hok

/-- **C22, DER leg: Name → ToRDNSequence → Marshal → Unmarshal → FillFromRDNSequence.**  For every Name `n` with nil
    `OriginalRDNS` whose emitted sequence is in the domain (`seqOK (emit n)`: the values of the 13 emitted slice fields, of
    CommonName / SerialNumber and of `ExtraNames` are valid UTF-8 strings, `ExtraNames` types are encodable OIDs; no bound on
    the number of values, empty strings and duplicates allowed), with `der = Marshal(ToRDNSequence(n))` (< 2^31 bytes):
    strict `Unmarshal(der)` consumes everything and yields a sequence `seq'` that is `ToRDNSequence(n)` with the members
    of each RDN permuted (DER sorts SET OF), and `m = FillFromRDNSequence(seq')` satisfies
    * every slice field of `m` is, AS A MULTISET, what `fill_to` says the pure conversion returns (the emitted values of
      that field followed by the `ExtraNames` values dispatched to it);
    * each scalar (`CommonName`, `SerialNumber`) is EXACTLY the pure conversion's (the attribute types that set a scalar
      only ever stand alone in their RDN, so sorting cannot reorder them);
    * `Names` is a permutation of the flattened sequence, `ExtraNames` is empty, and `ToRDNSequence(m)` is `seq'`
      (which re-marshals to `der`, see `rdnseq_der_roundtrip`). -/
theorem name_der_roundtrip (n : Name) (h : n.originalRDNS = none) (hok : seqOK (emit n) = true) (der : Bytes)
    (hm : marshalSeq (toRDN n) = .ok der) (hl : der.length < 2147483648) :
    ∃ seq', unmarshalSeq der = .ok (seq', []) ∧ RdnPerm (emit n) seq' ∧ marshalSeq (some seq') = .ok der ∧
      (∀ f, ((fill (some seq')).get f).Perm (emittedView n f ++ n.extraNames.flatMap (valsFor f))) ∧
      (∀ s, (fill (some seq')).getS s = n.extraNames.foldl (stepS s) (n.getS s)) ∧
      (fill (some seq')).names.Perm (emit n).flatten ∧ (fill (some seq')).extraNames = [] ∧
      toRDN (fill (some seq')) = some seq' := by
  have he : orNil (toRDN n) = emit n := by
    simp only [toRDN, h]; cases emit n <;> rfl
  obtain ⟨seq', h1, h2, h3⟩ := rdnseq_der_roundtrip (toRDN n) (by rw [he]; exact hok) der [] hm hl
  rw [List.append_nil] at h1
  rw [he] at h2
  obtain ⟨f1, f2, f3, f4, _⟩ := fill_rdnPerm (emit n) seq' h2 (fun sc => emit_multi_no_scalar n sc)
  have hflat : (emit n).flatten = (emitL emitRows n).flatten ++ n.extraNames := by
    rw [emit_eq]; simp [flatten_singletons]
  refine ⟨seq', h1, h2, h3, fun f => ?_, fun s => ?_, f3, f4, to_of_fill_original (some seq')⟩
  · have := f1 f
    rwa [hflat, List.flatMap_append, rows_view] at this
  · rw [f2 s, hflat, List.foldl_append, rows_scalar]

/-- the hypotheses are satisfiable by a Name with a three-valued field whose DER order differs from the field order,
    a UTF-8 value, an empty value, a duplicate and an ExtraNames entry; outside the domain: invalid UTF-8, a non-string. -/
example :
    let n : Name := { commonName := [0x61], country := [[0x55, 0x53], [0x44, 0x45], [0x55, 0x53]],
                      organization := [[0xc3, 0xa9], []], extraNames := [⟨[2, 5, 4, 12], .str [0x78]⟩] }
    n.originalRDNS = none ∧ seqOK (emit n) = true := by decide
example : seqOK (emit { organization := [[0xff, 0xfe]] }) = false ∧
    seqOK (emit { extraNames := [⟨oidCountry, .other 2 [1]⟩] }) = false ∧
    seqOK (emit { extraNames := [⟨[1, 40], .str []⟩] }) = false := by decide

/-! ### the parse direction: a Name filled from a sequence PARSED from arbitrary DER (the ANY arm of `parseField`) -/

/-- T1: the type switch of the ANY arm of `parseField` (encoding/asn1/asn1.go) — its guard `!t.isCompound && t.class ==
    ClassUniversal`, every `case TagX:` with the content parser it calls, the order, the empty `default:` — is the model's
    `anyTable` / `anyOf`. -/
theorem any_arm_matches_source :
    Gen.anyArm = anyTable.map (fun r => (r.1, r.2.goName)) ∧
    Gen.anyGuard = ["!t.isCompound", "t.class == ClassUniversal"] ∧ Gen.classUniversal = 0 ∧ Gen.anyDefault = [] := by
  decide

/-- **which elements become Go strings** (and hence reach a Name field).  If the ANY arm stores a Go string for an element,
    the element is primitive, of the universal class, its tag is one of PrintableString 19, NumericString 18, IA5String 22,
    T61String 20, UTF8String 12, BMPString 30, and the string is the content octets unchanged — except for BMPString, where
    it is the UTF-8 transcription of the UTF-16 content with one trailing NUL code unit stripped. -/
theorem any_string (cls tag : Nat) (comp : Bool) (inner s : Bytes) (h : anyOf cls tag comp inner = .ok (.str s)) :
    cls = 0 ∧ comp = false ∧ tag ∈ [19, 18, 22, 20, 12, 30] ∧ (tag ≠ 30 → s = inner) ∧
    (tag = 30 → s = C18.utf16ToUtf8 (C18.stripTerm (C18.pairs16 inner))) := by
  unfold anyOf at h
  split at h
  · rename_i hc
    simp only [Bool.and_eq_true, Bool.not_eq_true', beq_iff_eq] at hc
    cases hl : lookupAny tag anyTable with
    | none => rw [hl] at h; simp [nilVal] at h
    | some p =>
      rw [hl] at h
      simp only at h
      have hm := lookupAny_mem tag p anyTable hl
      have hs : p.isString = true := by
        cases hq : p.isString with
        | true => rfl
        | false => exact absurd h (runAny_nonstring p hq inner s)
      obtain ⟨c1, c2⟩ := runAny_content p inner s h
      simp only [anyTable, List.mem_cons, Prod.mk.injEq, List.mem_nil_iff, or_false] at hm
      refine ⟨hc.2, hc.1, ?_, ?_, ?_⟩
      · rcases hm with ⟨rfl, _⟩ | ⟨rfl, _⟩ | ⟨rfl, _⟩ | ⟨rfl, _⟩ | ⟨rfl, _⟩ | ⟨_, rfl⟩ | ⟨_, rfl⟩ | ⟨_, rfl⟩ | ⟨_, rfl⟩ |
          ⟨_, rfl⟩ | ⟨_, rfl⟩ | ⟨rfl, _⟩ <;> first | decide | (simp [AnyP.isString] at hs)
      · intro ht
        apply c1
        rcases hm with ⟨_, rfl⟩ | ⟨_, rfl⟩ | ⟨_, rfl⟩ | ⟨_, rfl⟩ | ⟨_, rfl⟩ | ⟨_, rfl⟩ | ⟨_, rfl⟩ | ⟨_, rfl⟩ | ⟨_, rfl⟩ |
          ⟨_, rfl⟩ | ⟨_, rfl⟩ | ⟨h30, rfl⟩ <;> first | exact absurd h30 ht | (intro hb; cases hb)
      · intro ht
        apply c2
        subst ht
        rcases hm with ⟨h1, _⟩ | ⟨h1, _⟩ | ⟨h1, _⟩ | ⟨h1, _⟩ | ⟨h1, _⟩ | ⟨h1, _⟩ | ⟨h1, _⟩ | ⟨h1, _⟩ | ⟨h1, _⟩ |
          ⟨h1, _⟩ | ⟨h1, _⟩ | ⟨_, rfl⟩ <;> first | rfl | (exact absurd h1 (by decide))
  · simp [nilVal] at h

/-- conversely an element with one of those six tags (universal, primitive) is never stored as anything but a string: the arm
    fails (content outside the character set, odd BMP length, invalid UTF-8) or yields a Go string. -/
theorem any_string_tags (tag : Nat) (ht : tag ∈ [19, 18, 22, 20, 12, 30]) (inner : Bytes) (t : Nat) (raw : Bytes) :
    anyOf 0 tag false inner ≠ .ok (.other t raw) := by
  simp only [List.mem_cons, List.mem_nil_iff, or_false] at ht
  rcases ht with rfl | rfl | rfl | rfl | rfl | rfl
  · exact runAny_string .printable rfl inner t raw
  · exact runAny_string .numeric rfl inner t raw
  · exact runAny_string .ia5 rfl inner t raw
  · exact runAny_string .t61 rfl inner t raw
  · exact runAny_string .utf8 rfl inner t raw
  · exact runAny_string .bmp rfl inner t raw

/-- an element that is constructed, not of the universal class, or of any other tag than the twelve of the table leaves
    the interface nil (`o5.`): it is kept in `Names` / `OriginalRDNS` and reaches no field. -/
theorem any_other (cls tag : Nat) (comp : Bool) (inner : Bytes)
    (h : comp = true ∨ cls ≠ 0 ∨ tag ∉ anyTable.map (·.1)) : anyOf cls tag comp inner = .ok nilVal := by
  unfold anyOf
  split
  · rename_i hc
    simp only [Bool.and_eq_true, Bool.not_eq_true', beq_iff_eq] at hc
    rcases h with h | h | h
    · rw [hc.1] at h; cases h
    · exact absurd hc.2 h
    · cases hl : lookupAny tag anyTable with
      | none => rfl
      | some p =>
        exfalso; apply h
        exact List.mem_map.mpr ⟨(tag, p), lookupAny_mem tag p anyTable hl, rfl⟩
  · rfl

example : anyOf 0 27 false [0x41] = .ok nilVal ∧ anyOf 2 19 false [0x41] = .ok nilVal ∧ anyOf 0 19 true [0x41] = .ok nilVal ∧
    anyOf 0 22 false [0x61, 0x40, 0x62] = .ok (.str [0x61, 0x40, 0x62]) ∧ anyOf 0 22 false [0xe9] = .err ∧
    anyOf 0 30 false [0x00, 0x41, 0x00, 0x00] = .ok (.str [0x41]) ∧ anyOf 0 2 false [0x01, 0x00] = .ok (.other 2 [0, 0, 0, 0, 0, 0, 1, 0]) := by
  decide

/-- **the ANY arm reads back what Marshal writes**: for whichever kind `makeField` picks for a string value
    (`stringChoice`, see `name_string_choice`), the ANY arm stores exactly that Go string. -/
theorem any_reads_marshal_choice (s : Bytes) (t : Nat) (h : stringChoice s = some t) :
    anyOf 0 t false s = .ok (.str s) := anyOf_choice s t h

example : stringChoice [0x55, 0x53] = some 19 ∧ stringChoice [0xc3, 0xa9] = some 12 := by decide

/-- **FillFromRDNSequence of ANY sequence** (no hypothesis: unknown types, non-string values, empty RDNs, mixed RDNs,
    repeated types): every slice field is the list of the string values whose type dispatches to it, in document order;
    each scalar is the last string value of its type (empty if none); a non-string value reaches no field; `Names` is the
    flattened sequence; `ToRDNSequence` gives the sequence back. -/
theorem fill_any_sequence (seq : RDNSeq) :
    (∀ f, (fill (some seq)).get f = seq.flatten.flatMap (valsFor f)) ∧
    (∀ s, (fill (some seq)).getS s = seq.flatten.foldl (stepS s) []) ∧
    (∀ f t tag raw, valsFor f ⟨t, .other tag raw⟩ = []) ∧
    (fill (some seq)).names = seq.flatten ∧ (fill (some seq)).extraNames = [] ∧
    toRDN (fill (some seq)) = some seq := by
  refine ⟨fun f => ?_, fun s => ?_, fun _ _ _ _ => rfl, ?_, ?_, to_of_fill_original (some seq)⟩
  · unfold fill; rw [fillInto_eq, fillFlat_get]
    cases f <;> simp [Name.empty, Name.get, flat]
  · unfold fill; rw [fillInto_eq, fillFlat_getS]
    have : ({ Name.empty with originalRDNS := some seq } : Name).getS s = [] := by cases s <;> rfl
    rw [this]; rfl
  · unfold fill; rw [fillInto_eq, (fillFlat_rest _ _).1]; simp [Name.empty, flat]
  · unfold fill; rw [fillInto_eq, (fillFlat_rest _ _).2.1]; rfl

/-- **C22, second sentence, on parsed input.**  For EVERY byte string `der` that strict `asn1.Unmarshal` accepts as a
    `pkix.RDNSequence` (`unmarshalAny`: any string type, non-string values, unknown tags, trailing bytes `rest`), the Name
    filled from the parsed sequence converts back to exactly that sequence, `Names` lists every parsed attribute in
    document order, and every slice field is the list of the parsed string values of its attribute type in document order. -/
theorem parsed_name_roundtrip (der rest : Bytes) (seq : RDNSeq) (_h : unmarshalAny der = .ok (seq, rest)) :
    toRDN (fill (some seq)) = some seq ∧ (fill (some seq)).names = seq.flatten ∧
    (∀ f, (fill (some seq)).get f = seq.flatten.flatMap (valsFor f)) ∧
    (∀ s, (fill (some seq)).getS s = seq.flatten.foldl (stepS s) []) := by
  obtain ⟨h1, h2, _, h4, _, h6⟩ := fill_any_sequence seq
  exact ⟨h6, h4, h1, h2⟩

/-- the hypothesis is satisfiable by a name `asn1.Marshal` would not write: `emailAddress = IA5String "a@b"`; the value lands in
    `EmailAddress` -/
example :
    unmarshalAny [0x30, 0x14, 0x31, 0x12, 0x30, 0x10, 0x06, 0x09, 0x2a, 0x86, 0x48, 0x86, 0xf7, 0x0d, 0x01, 0x09, 0x01,
                  0x16, 0x03, 0x61, 0x40, 0x62] = .ok ([[mkATV oidDNEmailAddress [0x61, 0x40, 0x62]]], []) ∧
    (fill (some [[mkATV oidDNEmailAddress [0x61, 0x40, 0x62]]])).emailAddress = [[0x61, 0x40, 0x62]] := by decide

end ZV.C22
