import ZV.Proofs.C30
import ZV.Model.C30b
import ZV.Generated.C30
/-!
  C30 — TLS handshake messages and session states round-trip and reject truncation.

  For every message kind `K` (one `MFmt` in `ZV.Model.C30`, tied to the Go marshal/unmarshal pair by the T2 stream):
  * `K_par_ser`        : for every value in the stated domain, if the encoder produces `bs` then the decoder
                         applied to `bs` returns exactly the value;
  * `K_prefix_reject`  : for the kinds without an optional / unbounded tail, the decoder rejects EVERY strict
                         prefix of a valid encoding.
  Both follow from the combinator laws of `ZV.Proofs.TlsWire` (proved once, for unbounded sizes).
  The domain hypotheses are exactly the decoder-side checks that the encoder does not make (RFC length
  minima such as `opaque ASN.1Cert<1..2^24-1>`); they are decidable and mirrored by `valid` in go/props/c30.
  Values are the on-the-wire fields (`raw` and fields that are not encoded are not part of the value).
-/
namespace ZV.C30
open ZV.TlsWire

/-- `p` is a strict prefix of `bs` -/
def StrictPrefix (p bs : Bytes) : Prop := p <+: bs ∧ p ≠ bs

/-! ### finishedMsg -/
theorem finished_lawful : MLawful finished (fun _ => True) := by
  have := complete_lawful (pair_lawful (skipC_lawful [20]) (opq_lawful 3))
  exact ⟨fun a bs _ h => this.rt a bs ⟨trivial, trivial⟩ h⟩

theorem finished_par_ser (v bs : Bytes) (h : finished.ser ((), v) = some bs) :
    finished.par bs = some ((), v) := finished_lawful.rt _ _ trivial h

theorem finished_prefix_reject (v bs p : Bytes) (h : finished.ser ((), v) = some bs) (hp : StrictPrefix p bs) :
    finished.par p = none :=
  (complete_noPrefix (pair_noPrefix (skipC_lawful [20]) (skipC_noPrefix _) (opq_noPrefix 3))).np _ _ _
    ⟨trivial, trivial⟩ h hp.1 hp.2

/-! ### certificateMsg — domain: no empty certificate (`opaque ASN.1Cert<1..2^24-1>`; the hand-rolled parser
    refuses a trailing empty entry) -/
theorem certificate_par_ser (certs : List Bytes) (bs : Bytes) (hne : ∀ c ∈ certs, c ≠ [])
    (h : certificate.ser certs = some bs) : certificate.par bs = some certs := by
  have L := hdrSkipT_lawful 11 (complete_lawful (lp_lawful 3
    (many_lawful (minLen_lawful 4 (opq_lawful 3)) (minLen_nonEmpty 4 (opq_nonEmpty (by decide))))))
  refine L.rt certs bs (fun c hc => ⟨trivial, fun e he => ?_⟩) h
  have := (opq_ser_length he).1
  have : c.length ≠ 0 := fun h0 => hne c hc (List.length_eq_zero_iff.mp h0)
  omega

theorem certificate_prefix_reject (certs : List Bytes) (bs p : Bytes)
    (h : certificate.ser certs = some bs) (hp : StrictPrefix p bs) : certificate.par p = none :=
  (hdrSkipT_noPrefix 11 (complete_noPrefix (lp_noPrefix (fun _ => True) 3))).np _ _ _ trivial h hp.1 hp.2

/-! ### serverHelloDoneMsg, helloRequestMsg, endOfEarlyDataMsg -/
theorem serverHelloDone_par_ser (bs : Bytes) (h : serverHelloDone.ser () = some bs) : serverHelloDone.par bs = some () :=
  (fixed4_lawful 14).rt _ _ trivial h
theorem serverHelloDone_prefix_reject (bs p : Bytes) (h : serverHelloDone.ser () = some bs) (hp : StrictPrefix p bs) :
    serverHelloDone.par p = none := (fixed4_noPrefix 14).np _ _ _ trivial h hp.1 hp.2
theorem helloRequest_par_ser (bs : Bytes) (h : helloRequest.ser () = some bs) : helloRequest.par bs = some () :=
  (fixed4_lawful 0).rt _ _ trivial h
theorem helloRequest_prefix_reject (bs p : Bytes) (h : helloRequest.ser () = some bs) (hp : StrictPrefix p bs) :
    helloRequest.par p = none := (fixed4_noPrefix 0).np _ _ _ trivial h hp.1 hp.2
theorem endOfEarlyData_par_ser (bs : Bytes) (h : endOfEarlyData.ser () = some bs) : endOfEarlyData.par bs = some () :=
  (fixed4_lawful 5).rt _ _ trivial h
theorem endOfEarlyData_prefix_reject (bs p : Bytes) (h : endOfEarlyData.ser () = some bs) (hp : StrictPrefix p bs) :
    endOfEarlyData.par p = none := (fixed4_noPrefix 5).np _ _ _ trivial h hp.1 hp.2

/-! ### clientKeyExchangeMsg — domain: the body fits the 24-bit header (the hand-rolled encoder truncates the length) -/
theorem clientKeyExchange_par_ser (c bs : Bytes) (hl : c.length < 256 ^ 3)
    (h : clientKeyExchange.ser c = some bs) : clientKeyExchange.par bs = some c := by
  refine (hdrChecked_lawful 16 restB_lawful).rt c bs ⟨trivial, fun b hb => ?_⟩ h
  simp only [restB] at hb
  cases hb
  exact hl

theorem clientKeyExchange_prefix_reject (c bs p : Bytes) (hl : c.length < 256 ^ 3)
    (h : clientKeyExchange.ser c = some bs) (hp : StrictPrefix p bs) : clientKeyExchange.par p = none := by
  refine (hdrChecked_noPrefix (m := restB) 16).np c bs p (fun b hb => ?_) h hp.1 hp.2
  simp only [restB] at hb
  cases hb
  exact hl

/-! ### serverKeyExchangeMsg — the parser keeps `data[4:]` without looking at the length: the body is an unbounded
    tail, so only the round trip is claimed -/
theorem serverKeyExchange_par_ser (k bs : Bytes) (h : serverKeyExchange.ser k = some bs) :
    serverKeyExchange.par bs = some k := (hdrSkipT_lawful 12 restB_lawful).rt _ _ trivial h

/-! ### certificateStatusMsg — domain: non-empty response -/
theorem certificateStatus_par_ser (r bs : Bytes) (hne : r ≠ [])
    (h : certificateStatus.ser ((), r) = some bs) : certificateStatus.par bs = some ((), r) :=
  (hdrSkip_lawful 22 (complete_lawful (pair_lawful (constC_lawful [1]) (guard_lawful nonEmpty (opq_lawful 3))))).rt _ _
    ⟨trivial, trivial, (nonEmpty_iff r).mpr hne⟩ h

theorem certificateStatus_prefix_reject (r bs p : Bytes) (hne : r ≠ [])
    (h : certificateStatus.ser ((), r) = some bs) (hp : StrictPrefix p bs) : certificateStatus.par p = none :=
  (hdrSkip_noPrefix 22 (complete_noPrefix (pair_noPrefix (constC_lawful [1]) (constC_noPrefix _)
    (guard_noPrefix nonEmpty (opq_noPrefix 3))))).np _ _ _ ⟨trivial, trivial, (nonEmpty_iff r).mpr hne⟩ h hp.1 hp.2

/-! ### newSessionTicketMsg (with the lifetime-hint fix) -/
theorem newSessionTicket_body_lt (x : Nat × Bytes) (b : Bytes)
    (hb : (complete (pair (uN 4) (opq 2))).ser x = some b) : b.length < 256 ^ 3 := by
  obtain ⟨p, q, hp, hq, rfl⟩ := pair_ser_inv (a := uN 4) (b := opq 2) hb
  have h1 := uN_ser_length hp
  have h2 := opq_ser_length hq
  simp only [List.length_append]
  omega

theorem newSessionTicket_par_ser (hint : Nat) (t bs : Bytes)
    (h : newSessionTicket.ser (hint, t) = some bs) : newSessionTicket.par bs = some (hint, t) :=
  (hdrChecked_lawful 4 (complete_lawful (pair_lawful (uN_lawful 4) (opq_lawful 2)))).rt _ _
    ⟨⟨trivial, trivial⟩, fun b hb => newSessionTicket_body_lt _ b hb⟩ h

theorem newSessionTicket_prefix_reject (hint : Nat) (t bs p : Bytes)
    (h : newSessionTicket.ser (hint, t) = some bs) (hp : StrictPrefix p bs) : newSessionTicket.par p = none :=
  (hdrChecked_noPrefix (m := complete (pair (uN 4) (opq 2))) 4).np _ _ _
    (fun b hb => newSessionTicket_body_lt _ b hb) h hp.1 hp.2

/-! ### certificateVerifyMsg — `hasSig` is an input of the parser; without it the algorithm field is not encoded -/
theorem certificateVerify_par_ser (hasSig : Bool) (alg : Nat) (sig bs : Bytes) (hd : hasSig = false → alg = 0)
    (h : (certificateVerify hasSig).ser (alg, sig) = some bs) : (certificateVerify hasSig).par bs = some (alg, sig) := by
  cases hasSig with
  | true =>
    exact (hdrSkip_lawful 15 (complete_lawful (pair_lawful (uN_lawful 2) (opq_lawful 2)))).rt _ _ ⟨trivial, trivial⟩ h
  | false =>
    exact (hdrSkip_lawful 15 (complete_lawful (pair_lawful (nothing_lawful 0) (opq_lawful 2)))).rt _ _ ⟨hd rfl, trivial⟩ h

theorem certificateVerify_prefix_reject (hasSig : Bool) (alg : Nat) (sig bs p : Bytes) (hd : hasSig = false → alg = 0)
    (h : (certificateVerify hasSig).ser (alg, sig) = some bs) (hp : StrictPrefix p bs) :
    (certificateVerify hasSig).par p = none := by
  cases hasSig with
  | true =>
    exact (hdrSkip_noPrefix 15 (complete_noPrefix (pair_noPrefix (uN_lawful 2) (uN_noPrefix 2) (opq_noPrefix 2)))).np _ _ _
      ⟨trivial, trivial⟩ h hp.1 hp.2
  | false =>
    exact (hdrSkip_noPrefix 15 (complete_noPrefix (pair_noPrefix (nothing_lawful 0) (nothing_noPrefix 0) (opq_noPrefix 2)))).np _ _ _
      ⟨hd rfl, trivial⟩ h hp.1 hp.2


/-! ### certificateRequestMsg — domain: at least one certificate type; without `hasSig` no algorithm list -/
theorem certificateRequest_body_lt (hasSig : Bool) (x : Bytes × List Nat × List Bytes) (b : Bytes)
    (hb : (complete (pair (guard nonEmpty (opq 1))
      (pair (if hasSig then lp 2 (many (uN 2)) else nothing []) (lp 2 (many (opq 2)))))).ser x = some b) :
    b.length < 256 ^ 3 := by
  obtain ⟨p, q, hp, hq, rfl⟩ := pair_ser_inv hb
  obtain ⟨q1, q2, hq1, hq2, rfl⟩ := pair_ser_inv hq
  have h1 := opq_ser_length (k := 1) hp
  obtain ⟨_, _, h3, h3'⟩ := lp_ser_length hq2
  have h2 : q1.length < 2 + 256 ^ 2 := by
    cases hasSig with
    | true =>
      obtain ⟨_, _, h2, h2'⟩ := lp_ser_length (k := 2) hq1
      omega
    | false =>
      simp [nothing] at hq1
      subst hq1
      simp
  simp only [List.length_append]
  omega

theorem certificateRequest_par_ser (hasSig : Bool) (types : Bytes) (algs : List Nat) (cas : List Bytes) (bs : Bytes)
    (hne : types ≠ []) (hd : hasSig = false → algs = [])
    (h : (certificateRequest hasSig).ser (types, algs, cas) = some bs) :
    (certificateRequest hasSig).par bs = some (types, algs, cas) := by
  cases hasSig with
  | true =>
    exact (hdrChecked_lawful 13 (complete_lawful (pair_lawful (guard_lawful nonEmpty (opq_lawful 1))
      (pair_lawful (lp_lawful 2 (many_lawful (uN_lawful 2) (uN_nonEmpty (by decide))))
        (lp_lawful 2 (many_lawful (opq_lawful 2) (opq_nonEmpty (by decide)))))))).rt _ _
      ⟨⟨⟨trivial, (nonEmpty_iff types).mpr hne⟩, fun _ _ => trivial, fun _ _ => trivial⟩,
       fun b hb => certificateRequest_body_lt true _ b hb⟩ h
  | false =>
    exact (hdrChecked_lawful 13 (complete_lawful (pair_lawful (guard_lawful nonEmpty (opq_lawful 1))
      (pair_lawful (nothing_lawful [])
        (lp_lawful 2 (many_lawful (opq_lawful 2) (opq_nonEmpty (by decide)))))))).rt _ _
      ⟨⟨⟨trivial, (nonEmpty_iff types).mpr hne⟩, hd rfl, fun _ _ => trivial⟩,
       fun b hb => certificateRequest_body_lt false _ b hb⟩ h

theorem certificateRequest_prefix_reject (hasSig : Bool) (x : Bytes × List Nat × List Bytes) (bs p : Bytes)
    (h : (certificateRequest hasSig).ser x = some bs) (hp : StrictPrefix p bs) :
    (certificateRequest hasSig).par p = none :=
  (hdrChecked_noPrefix 13).np _ _ _ (fun b hb => certificateRequest_body_lt hasSig _ b hb) h hp.1 hp.2

/-! ### sessionState — domain: non-empty master secret -/
theorem sessionState_par_ser (vers suite created : Nat) (ms : Bytes) (certs : List Bytes) (bs : Bytes) (hne : ms ≠ [])
    (h : sessionState.ser (vers, suite, created, ms, certs) = some bs) :
    sessionState.par bs = some (vers, suite, created, ms, certs) :=
  (complete_lawful (pair_lawful (uN_lawful 2) (pair_lawful (uN_lawful 2) (pair_lawful (uN_lawful 8)
    (pair_lawful (guard_lawful nonEmpty (opq_lawful 2))
      (lp_lawful 3 (many_lawful (opq_lawful 3) (opq_nonEmpty (by decide))))))))).rt _ _
    ⟨trivial, trivial, trivial, ⟨trivial, (nonEmpty_iff ms).mpr hne⟩, fun _ _ => trivial⟩ h

theorem sessionState_prefix_reject (vers suite created : Nat) (ms : Bytes) (certs : List Bytes) (bs p : Bytes) (hne : ms ≠ [])
    (h : sessionState.ser (vers, suite, created, ms, certs) = some bs) (hp : StrictPrefix p bs) :
    sessionState.par p = none :=
  (complete_noPrefix (pair_noPrefix (uN_lawful 2) (uN_noPrefix 2) (pair_noPrefix (uN_lawful 2) (uN_noPrefix 2)
    (pair_noPrefix (uN_lawful 8) (uN_noPrefix 8) (pair_noPrefix (guard_lawful nonEmpty (opq_lawful 2))
      (guard_noPrefix nonEmpty (opq_noPrefix 2)) (lp_noPrefix (fun _ => True) 3)))))).np _ _ _
    ⟨trivial, trivial, trivial, ⟨trivial, (nonEmpty_iff ms).mpr hne⟩, trivial⟩ h hp.1 hp.2

/-! ### keyUpdateMsg — value 0 / 1 -/
theorem keyUpdate_par_ser (n : Nat) (bs : Bytes) (hd : n = 0 ∨ n = 1)
    (h : keyUpdate.ser n = some bs) : keyUpdate.par bs = some n :=
  (hdrSkip_lawful 24 (complete_lawful (guard_lawful _ (uN_lawful 1)))).rt _ _
    ⟨trivial, by rcases hd with rfl | rfl <;> rfl⟩ h

theorem keyUpdate_prefix_reject (n : Nat) (bs p : Bytes) (hd : n = 0 ∨ n = 1)
    (h : keyUpdate.ser n = some bs) (hp : StrictPrefix p bs) : keyUpdate.par p = none :=
  (hdrSkip_noPrefix 24 (complete_noPrefix (guard_noPrefix _ (uN_noPrefix 1)))).np _ _ _
    ⟨trivial, by rcases hd with rfl | rfl <;> rfl⟩ h hp.1 hp.2


/-! ### encryptedExtensionsMsg -/
theorem encryptedExtensions_par_ser (alpn bs : Bytes) (h : encryptedExtensions.ser alpn = some bs) :
    encryptedExtensions.par bs = some alpn := by
  simp only [encryptedExtensions] at h ⊢
  cases hopt : opt (nonEmpty alpn) 16 (alpnOne.ser alpn) with
  | none => simp [hopt] at h
  | some es =>
    simp only [hopt] at h
    rw [(hdrSkip_lawful 8 (complete_lawful extBlock_lawful)).rt es bs trivial h]
    refine applyExts_opt _ _ _ _ _ _ _ hopt (fun hc => ?_) (fun hc b hb _ => ?_)
    · cases alpn with
      | nil => rfl
      | cons x t => simp [nonEmpty] at hc
    · simp only [if_true]
      exact alpnOne_lawful.rt alpn b ((nonEmpty_iff alpn).mp hc) hb

theorem encryptedExtensions_prefix_reject (alpn bs p : Bytes) (h : encryptedExtensions.ser alpn = some bs)
    (hp : StrictPrefix p bs) : encryptedExtensions.par p = none := by
  simp only [encryptedExtensions] at h ⊢
  cases hopt : opt (nonEmpty alpn) 16 (alpnOne.ser alpn) with
  | none => simp [hopt] at h
  | some es =>
    simp only [hopt] at h
    rw [(hdrSkip_noPrefix 8 (complete_noPrefix extBlock_noPrefix)).np es bs p trivial h hp.1 hp.2]

/-! ### newSessionTicketMsgTLS13 -/
theorem newSessionTicketTLS13_par_ser (lt age : Nat) (nonce label : Bytes) (med : Nat) (bs : Bytes)
    (h : newSessionTicketTLS13.ser (lt, age, nonce, label, med) = some bs) :
    newSessionTicketTLS13.par bs = some (lt, age, nonce, label, med) := by
  simp only [newSessionTicketTLS13] at h ⊢
  cases hopt : opt (decide (0 < med)) 42 ((complete (uN 4)).ser med) with
  | none => simp [hopt] at h
  | some es =>
    simp only [hopt] at h
    have W := (hdrSkip_lawful 4 (complete_lawful (pair_lawful (uN_lawful 4) (pair_lawful (uN_lawful 4)
      (pair_lawful (opq_lawful 1) (pair_lawful (opq_lawful 2) extBlock_lawful)))))).rt _ bs
      ⟨trivial, trivial, trivial, trivial, trivial⟩ h
    rw [W]
    simp only
    have : applyExts (fun e _ (m : Nat) => if e.1 = 42 then (complete (uN 4)).par e.2 else some m) es 0 = some med := by
      refine applyExts_opt _ _ _ _ _ _ _ hopt (fun hc => ?_) (fun hc b hb _ => ?_)
      · simp at hc; omega
      · simp only [if_true]
        exact (complete_lawful (uN_lawful 4)).rt med b trivial hb
    rw [this]

theorem newSessionTicketTLS13_prefix_reject (x : Nat × Nat × Bytes × Bytes × Nat) (bs p : Bytes)
    (h : newSessionTicketTLS13.ser x = some bs) (hp : StrictPrefix p bs) : newSessionTicketTLS13.par p = none := by
  simp only [newSessionTicketTLS13] at h ⊢
  cases hopt : opt (decide (0 < x.2.2.2.2)) 42 ((complete (uN 4)).ser x.2.2.2.2) with
  | none => simp [hopt] at h
  | some es =>
    simp only [hopt] at h
    rw [(hdrSkip_noPrefix 4 (complete_noPrefix (pair_noPrefix (uN_lawful 4) (uN_noPrefix 4) (pair_noPrefix (uN_lawful 4) (uN_noPrefix 4)
      (pair_noPrefix (opq_lawful 1) (opq_noPrefix 1) (pair_noPrefix (opq_lawful 2) (opq_noPrefix 2) extBlock_noPrefix)))))).np _ bs p
      ⟨trivial, trivial, trivial, trivial, trivial⟩ h hp.1 hp.2]


/-! ### certificateRequestMsgTLS13 — domain: no empty certificate authority name -/
theorem certificateRequestTLS13_par_ser (m : CertReq13) (bs : Bytes) (hv : ∀ ca ∈ m.cas, ca ≠ [])
    (h : certificateRequestTLS13.ser m = some bs) : certificateRequestTLS13.par bs = some m := by
  simp only [certificateRequestTLS13] at h ⊢
  cases hes : certReq13Exts m with
  | none => simp [hes] at h
  | some es =>
    simp only [hes] at h
    rw [(hdrSkip_lawful 13 (complete_lawful (pair_lawful (constC_lawful [0]) extBlock_lawful))).rt _ bs ⟨trivial, trivial⟩ h]
    exact certReq13_sem m hv es hes

theorem certificateRequestTLS13_prefix_reject (m : CertReq13) (bs p : Bytes)
    (h : certificateRequestTLS13.ser m = some bs) (hp : StrictPrefix p bs) : certificateRequestTLS13.par p = none := by
  simp only [certificateRequestTLS13] at h ⊢
  cases hes : certReq13Exts m with
  | none => simp [hes] at h
  | some es =>
    simp only [hes] at h
    rw [(hdrSkip_noPrefix 13 (complete_noPrefix (pair_noPrefix (constC_lawful [0]) (constC_noPrefix _) extBlock_noPrefix))).np _ bs p
      ⟨trivial, trivial⟩ h hp.1 hp.2]


/-! ### sessionStateTLS13 — domain: non-empty resumption secret, `ValidCert` -/
theorem sessionStateTLS13_par_ser (suite created : Nat) (rs : Bytes) (c : Cert) (bs : Bytes) (hne : rs ≠ []) (hc : ValidCert c)
    (h : sessionStateTLS13.ser ((), (), suite, created, rs, c) = some bs) :
    sessionStateTLS13.par bs = some ((), (), suite, created, rs, c) :=
  (complete_lawful (pair_lawful (constC_lawful [3, 4]) (pair_lawful (constC_lawful [0]) (pair_lawful (uN_lawful 2)
    (pair_lawful (uN_lawful 8) (pair_lawful (guard_lawful nonEmpty (opq_lawful 1)) certF_lawful)))))).rt _ _
    ⟨trivial, trivial, trivial, trivial, ⟨trivial, (nonEmpty_iff rs).mpr hne⟩, hc⟩ h

theorem sessionStateTLS13_prefix_reject (suite created : Nat) (rs : Bytes) (c : Cert) (bs p : Bytes) (hne : rs ≠ [])
    (h : sessionStateTLS13.ser ((), (), suite, created, rs, c) = some bs) (hp : StrictPrefix p bs) :
    sessionStateTLS13.par p = none :=
  (complete_noPrefix (pair_noPrefix (constC_lawful [3, 4]) (constC_noPrefix _) (pair_noPrefix (constC_lawful [0]) (constC_noPrefix _)
    (pair_noPrefix (uN_lawful 2) (uN_noPrefix 2) (pair_noPrefix (uN_lawful 8) (uN_noPrefix 8)
      (pair_noPrefix (guard_lawful nonEmpty (opq_lawful 1)) (guard_noPrefix nonEmpty (opq_noPrefix 1)) certF_noPrefix)))))).np _ _ _
    ⟨trivial, trivial, trivial, trivial, ⟨trivial, (nonEmpty_iff rs).mpr hne⟩, trivial⟩ h hp.1 hp.2

/-! ### certificateMsgTLS13 — domain: `ValidCert`, and the two flags say what is present (the encoder strips what a
    flag switches off; the decoder derives the flags) -/
theorem certificateTLS13_par_ser (c : Cert) (ocsp scts : Bool) (bs : Bytes) (hc : ValidCert c)
    (ho : ocsp = c.ocsp.isSome) (hs : scts = c.scts.isSome)
    (h : certificateTLS13.ser (c, ocsp, scts) = some bs) : certificateTLS13.par bs = some (c, ocsp, scts) := by
  simp only [certificateTLS13] at h ⊢
  have hc' : (⟨c.certs, if ocsp then c.ocsp else none, if scts then c.scts else none⟩ : Cert) = c := by
    obtain ⟨cs, o, s⟩ := c
    subst ho hs
    cases o <;> cases s <;> rfl
  rw [hc'] at h
  rw [(hdrSkip_lawful 11 (complete_lawful (pair_lawful (constC_lawful [0]) certF_lawful))).rt _ bs ⟨trivial, hc⟩ h]
  simp [ho, hs]

theorem certificateTLS13_prefix_reject (x : Cert × Bool × Bool) (bs p : Bytes)
    (h : certificateTLS13.ser x = some bs) (hp : StrictPrefix p bs) : certificateTLS13.par p = none := by
  simp only [certificateTLS13] at h ⊢
  rw [(hdrSkip_noPrefix 11 (complete_noPrefix (pair_noPrefix (constC_lawful [0]) (constC_noPrefix _) certF_noPrefix))).np _ bs p
    ⟨trivial, trivial⟩ h hp.1 hp.2]


/-! ### serverHelloMsg (with the D21 fix) — optional extension block, so only the round trip is claimed.
    Domain: fields that are only encoded under a flag are empty when the flag is off; SCTs are non-empty;
    `unknownExtensions` are well-formed `type ‖ length ‖ data` records whose type the parser does not know. -/
structure ValidSH (m : ServerHello) : Prop where
  reneg : m.secureRenegotiationSupported = false → m.secureRenegotiation = []
  scts : ∀ x ∈ m.scts, x ≠ []
  share : m.serverShareGroup = 0 → m.serverShareData = []
  sel : m.selectedIdentityPresent = false → m.selectedIdentity = 0
  unknown : ∃ rs : List Ext, m.unknownExtensions = rs.map encRaw ∧
    ∀ e ∈ rs, knownSH e.1 = false ∧ e.1 < 256 ^ 2 ∧ e.2.length < 256 ^ 2

theorem serverHello_par_ser (m : ServerHello) (bs : Bytes) (hv : ValidSH m)
    (h : serverHello.ser m = some bs) : serverHello.par bs = some m := by
  simp only [serverHello] at h ⊢
  cases hes : shExts m with
  | none => simp [hes] at h
  | some es =>
    cases heb : extList.ser es with
    | none => simp [hes, heb] at h
    | some eb =>
      cases hp : shFixed.ser (m.vers, m.random, m.sessionId, m.cipherSuite, m.compressionMethod) with
      | none => simp [hes, heb, hp] at h
      | some p =>
        simp only [hes, heb, hp] at h
        obtain ⟨rs, hunk, hrs⟩ := hv.unknown
        have hraw : extList.ser rs = some (rs.map encRaw).flatten :=
          serMany_raw rs (fun e he => (hrs e he).2)
        have hL : extList.ser (es ++ rs) = some (eb ++ m.unknownExtensions.flatten) := by
          rw [hunk]
          exact serMany_append _ _ _ _ _ heb hraw
        have key : shWire.ser ((m.vers, m.random, m.sessionId, m.cipherSuite, m.compressionMethod),
            if (es ++ rs).isEmpty then none else some (es ++ rs)) = some bs := by
          by_cases hreg : (eb ++ m.unknownExtensions.flatten).isEmpty = true
          · rw [if_pos hreg] at h
            have hnil : eb ++ m.unknownExtensions.flatten = [] := List.isEmpty_iff.mp hreg
            rw [hnil] at hL
            have : es ++ rs = [] := serMany_nil_of_nonEmpty _ _ extEntry_nonEmpty.ne hL
            rw [this]
            simpa [shWire, hdrSkip, optTail, hp, restB] using h
          · rw [if_neg hreg] at h
            have hne : (es ++ rs).isEmpty = false := by
              cases hl : es ++ rs with
              | nil =>
                rw [hl] at hL
                have h0 : extList.ser ([] : List Ext) = some [] := rfl
                rw [h0] at hL
                have hnil := Option.some.inj hL
                rw [← hnil] at hreg
                simp at hreg
              | cons x t => rfl
            rw [hne]
            simp only [Bool.false_eq_true, if_false]
            split at h
            · rename_i hlt
              simp only [shWire, hdrSkip, optTail, hp, complete, extBlock, lp, hL, hlt, if_true]
              simpa [hdrSkip, restB, List.append_assoc] using h
            · cases h
        rw [shWire_lawful.rt _ bs trivial key]
        simp only
        have hgetD : (if (es ++ rs).isEmpty then none else some (es ++ rs)).getD [] = es ++ rs := by
          cases hl : es ++ rs <;> simp
        rw [hgetD]
        refine chain_step shApply es rs _ { m with unknownExtensions := [] } m (fun _ _ _ _ _ => rfl)
          (sh_sem_known m hv.reneg hv.scts hv.share hv.sel es hes) ?_
        rw [sh_sem_unknown rs _ (fun e he => (hrs e he).1)]
        simp [← hunk]


/-! ### clientHelloMsg (with the D20 fix) — optional extension block, so only the round trip is claimed.
    Domain: `secureRenegotiationSupported` when the SCSV is among the suites (the parser sets it); fields that are only
    encoded under a flag are empty when the flag is off; no trailing dot in the server name; the list members the
    parser refuses when empty (ALPN names, key-share data, PSK labels and binders, the extended random) are non-empty. -/
structure ValidCH (m : ClientHello) : Prop where
  scsv : m.cipherSuites.contains 255 = true → m.secureRenegotiationSupported = true
  reneg : m.secureRenegotiationSupported = false → m.secureRenegotiation = []
  dot : m.serverName.getLast? ≠ some 46
  ticket : m.ticketSupported = false → m.sessionTicket = []
  er0 : m.extendedRandomEnabled = false → m.extendedRandom = []
  er1 : m.extendedRandomEnabled = true → m.extendedRandom ≠ []
  alpn : ∀ p ∈ m.alpnProtocols, p ≠ []
  shares : ∀ k ∈ m.keyShares, k.2 ≠ []
  psk0 : m.pskIdentities = [] → m.pskBinders = []
  psk1 : m.pskIdentities ≠ [] → (∀ i ∈ m.pskIdentities, i.1 ≠ []) ∧ m.pskBinders ≠ [] ∧ ∀ b ∈ m.pskBinders, b ≠ []

theorem chFixed_lawful : Lawful chFixed (fun _ => True) := by
  have := pair_lawful (uN_lawful 2) (pair_lawful (bytesN_lawful 32) (pair_lawful (opq_lawful 1)
    (pair_lawful (lp_lawful 2 (many_lawful (uN_lawful 2) (uN_nonEmpty (by decide)))) (opq_lawful 1))))
  exact ⟨fun a bs tl _ h => this.rt a bs tl ⟨trivial, trivial, trivial, fun _ _ => trivial, trivial⟩ h⟩

theorem chWire_lawful : MLawful chWire (fun _ => True) := by
  have := hdrSkip_lawful 1 (optTail_lawful chFixed_lawful (complete_lawful extBlock_lawful))
  refine ⟨fun a bs _ h => this.rt a bs ⟨trivial, fun y _ => ⟨trivial, fun q hq => ?_⟩⟩ h⟩
  exact (lp_nonEmpty (m := extList) (k := 2) (by decide)).ne y q hq

theorem clientHello_par_ser (m : ClientHello) (bs : Bytes) (hv : ValidCH m)
    (h : clientHello.ser m = some bs) : clientHello.par bs = some m := by
  simp only [clientHello] at h ⊢
  cases hes : chExts m with
  | none => simp [hes] at h
  | some es =>
    simp only [hes] at h
    rw [chWire_lawful.rt _ bs trivial h]
    simp only
    have hgetD : (if es.isEmpty then none else some es).getD [] = es := by
      cases es <;> simp
    rw [hgetD]
    exact ch_sem m hv.scsv hv.reneg hv.dot hv.ticket hv.er0 hv.er1 hv.alpn hv.shares hv.psk0 hv.psk1 es hes




/-! ### the decidable domain tests printed by the driver (and compared with the harness' `valid` on every case)
    imply the domains the theorems are stated for -/
theorem validCHB_sound (m : ClientHello) (h : validCHB m = true) : ValidCH m := by
  simp only [validCHB, Bool.and_eq_true, Bool.or_eq_true, Bool.not_eq_true', bne_iff_ne, ne_eq, beq_iff_eq,
    List.all_eq_true] at h
  obtain ⟨⟨⟨⟨⟨⟨⟨h1, h2⟩, h3⟩, h4⟩, h5⟩, h6⟩, h7⟩, h8⟩ := h
  refine ⟨fun hc => ?_, fun hc => ?_, h3, fun hc => ?_, fun hc => ?_, fun hc => ?_, fun p hp => (nonEmpty_iff p).mp (h6 p hp),
    fun k hk => (nonEmpty_iff k.2).mp (h7 k hk), fun hc => ?_, fun hc => ?_⟩
  · rcases h1 with h1 | h1
    · rw [hc] at h1; cases h1
    · exact h1
  · rcases h2 with h2 | h2
    · rw [hc] at h2; cases h2
    · exact List.isEmpty_iff.mp h2
  · rcases h4 with h4 | h4
    · rw [hc] at h4; cases h4
    · exact List.isEmpty_iff.mp h4
  · rw [hc] at h5
    cases hx : m.extendedRandom with
    | nil => rfl
    | cons x t => rw [hx] at h5; simp [nonEmpty] at h5
  · rw [hc] at h5
    exact (nonEmpty_iff _).mp h5.symm
  · rw [hc] at h8
    simpa using h8
  · have : m.pskIdentities.isEmpty = false := by
      cases hx : m.pskIdentities with
      | nil => exact absurd hx hc
      | cons x t => rfl
    rw [this] at h8
    simp only [Bool.false_eq_true, if_false, Bool.and_eq_true, List.all_eq_true] at h8
    exact ⟨fun i hi => (nonEmpty_iff i.1).mp (h8.1.1 i hi), (nonEmptyL_iff _).mp h8.1.2,
      fun b hb => (nonEmpty_iff b).mp (h8.2 b hb)⟩

theorem validCertB_sound (c : Cert) (h : validCertB c = true) : ValidCert c := by
  obtain ⟨certs, ocsp, scts⟩ := c
  simp only [validCertB, Bool.and_eq_true, Bool.or_eq_true, Bool.not_eq_true'] at h
  obtain ⟨⟨h1, h2⟩, h3⟩ := h
  refine ⟨fun hc => ?_, fun o ho => ?_, fun l hl => ?_⟩
  · simp only at hc
    subst hc
    simp at h1
    exact ⟨by cases ocsp <;> simp_all, by cases scts <;> simp_all⟩
  · simp only at ho
    subst ho
    exact (nonEmpty_iff o).mp h2
  · simp only at hl
    subst hl
    simp only [Bool.and_eq_true, List.all_eq_true] at h3
    exact ⟨(nonEmptyL_iff l).mp h3.1, fun x hx => (nonEmpty_iff x).mp (h3.2 x hx)⟩


theorem knownSHB_eq (t : Nat) : knownSHB t = knownSH t := rfl

theorem validSHB_sound (m : ServerHello) (h : validSHB m = true) : ValidSH m := by
  simp only [validSHB, Bool.and_eq_true, Bool.or_eq_true, bne_iff_ne, ne_eq, beq_iff_eq, List.all_eq_true] at h
  obtain ⟨⟨⟨⟨h1, h2⟩, h3⟩, h4⟩, h5⟩ := h
  refine ⟨fun hc => ?_, fun x hx => (nonEmpty_iff x).mp (h2 x hx), fun hc => ?_, fun hc => ?_, ?_⟩
  · rcases h1 with h1 | h1
    · rw [hc] at h1; cases h1
    · exact List.isEmpty_iff.mp h1
  · rcases h3 with h3 | h3
    · exact absurd hc h3
    · exact List.isEmpty_iff.mp h3
  · rcases h4 with h4 | h4
    · rw [hc] at h4; cases h4
    · exact h4
  · -- every recorded unknown extension is the canonical encoding of the entry it parses to
    generalize m.unknownExtensions = unk at h5
    induction unk with
    | nil => exact ⟨[], rfl, by simp⟩
    | cons b rest ih =>
      obtain ⟨rs, hrs, hall⟩ := ih (fun x hx => h5 x (by simp [hx]))
      have hb := h5 b (by simp)
      cases hp : (complete extEntry).par b with
      | none => simp [hp] at hb
      | some e =>
        simp only [hp, Bool.not_eq_true'] at hb
        obtain ⟨hcanon, hlt1, hlt2⟩ := extEntry_canon b e hp
        refine ⟨e :: rs, by simp [hcanon, hrs], ?_⟩
        intro e' he'
        simp only [List.mem_cons] at he'
        rcases he' with rfl | he'
        · exact ⟨by rw [← knownSHB_eq]; exact hb, hlt1, hlt2⟩
        · exact hall e' he'

/-! ### the hypotheses are satisfiable (concrete encodings, computed by the model) -/
example : finished.ser ((), [1, 2]) = some [20, 0, 0, 2, 1, 2] := by decide
example : certificate.ser [[7], [8, 9]] = some [11, 0, 0, 12, 0, 0, 9, 0, 0, 1, 7, 0, 0, 2, 8, 9] := by decide
example : StrictPrefix [20, 0] [20, 0, 0, 2, 1, 2] := ⟨⟨[0, 2, 1, 2], rfl⟩, by decide⟩
example : clientKeyExchange.ser [5] = some [16, 0, 0, 1, 5] := by decide
example : certificateStatus.ser ((), [9]) = some [22, 0, 0, 5, 1, 0, 0, 1, 9] := by decide
example : newSessionTicket.ser (7200, [1, 2]) = some [4, 0, 0, 8, 0, 0, 28, 32, 0, 2, 1, 2] := by decide
example : (certificateRequest true).ser ([1, 64], [0x0403], [[9]]) = some [13, 0, 0, 12, 2, 1, 64, 0, 2, 4, 3, 0, 3, 0, 1, 9] := by decide
example : (certificateVerify false).ser (0, [1]) = some [15, 0, 0, 3, 0, 1, 1] := by decide
example : sessionState.ser (0x0303, 47, 1, [5], [[6]]) = some [3, 3, 0, 47, 0, 0, 0, 0, 0, 0, 0, 1, 0, 1, 5, 0, 0, 4, 0, 0, 1, 6] := by decide
example : keyUpdate.ser 1 = some [24, 0, 0, 1, 1] := by decide
example : encryptedExtensions.ser [104, 50] = some [8, 0, 0, 11, 0, 9, 0, 16, 0, 5, 0, 3, 2, 104, 50] := by decide
example : ValidCert ⟨[[1]], some [2], some [[3]]⟩ := ⟨by simp, by simp, by simp⟩
example : (sessionStateTLS13.ser ((), (), 0x1301, 2, [9], ⟨[[1]], some [2], none⟩)).isSome = true := by decide
example : (certificateRequestTLS13.ser ⟨true, false, [0x0804], [], [[1]]⟩).isSome = true := by decide
def exSH : ServerHello :=
  { ServerHello.empty with random := List.replicate 32 7, secureRenegotiationSupported := true, secureRenegotiation := [1], scts := [[5]], unknownExtensions := [encRaw (0x3374, [1, 2])] }
example : ValidSH exSH :=
  ⟨by simp [exSH], by simp [exSH], by simp [exSH, ServerHello.empty], by simp [exSH, ServerHello.empty],
   ⟨[(0x3374, [1, 2])], rfl, by simp [knownSH]⟩⟩
example : (serverHello.ser exSH).isSome = true := by decide
def exCH : ClientHello :=
  { ClientHello.empty with random := List.replicate 32 7, cipherSuites := [0x00ff], secureRenegotiationSupported := true, extendedRandomEnabled := true, extendedRandom := [1, 2, 3, 4], serverName := [97] }
example : ValidCH exCH :=
  ⟨by simp [exCH], by simp [exCH], by simp [exCH], by simp [exCH, ClientHello.empty], by simp [exCH], by simp [exCH],
   by simp [exCH, ClientHello.empty], by simp [exCH, ClientHello.empty], by simp [exCH, ClientHello.empty],
   by simp [exCH, ClientHello.empty]⟩
example : (clientHello.ser exCH).isSome = true := by decide


/-! ## second part — PSK-binder helpers of `clientHelloMsg`, the `raw` cache seen from the parse side, and the T1 tie
    of the message-type / extension-number constants to the tags the codecs write -/

/-! ### marshalWithoutBinders -/

/-- whenever `marshalWithoutBinders` returns, the result is the prefix of the full `marshal` that is exactly
    `bindersLen` (2 + Σ (1 + len binder)) bytes shorter — for EVERY hello (no domain hypothesis). -/
theorem withoutBinders_prefix (m : ClientHello) (wb : Bytes) (h : marshalWithoutBinders m = .ok wb) :
    ∃ full, clientHello.ser m = some full ∧ wb <+: full ∧ wb.length + bindersLen m.pskBinders = full.length := by
  unfold marshalWithoutBinders at h
  cases hs : clientHello.ser m with
  | none => simp [hs] at h
  | some full =>
    simp only [hs] at h
    split at h
    · rename_i hle
      cases h
      refine ⟨full, rfl, List.take_prefix _ _, ?_⟩
      simp only [List.length_take]
      omega
    · cases h

/-- exact panic condition: the encoder panics, or the binders are longer than the whole message (slice bounds) -/
theorem withoutBinders_panic_iff (m : ClientHello) :
    marshalWithoutBinders m = .panic ↔
      (clientHello.ser m = none ∨ ∃ full, clientHello.ser m = some full ∧ full.length < bindersLen m.pskBinders) := by
  unfold marshalWithoutBinders
  cases hs : clientHello.ser m with
  | none => simp
  | some full =>
    simp only [Option.some.injEq, exists_eq_left', false_or, reduceCtorEq]
    split
    · rename_i hle
      constructor
      · intro h; cases h
      · intro h; omega
    · rename_i hle
      constructor
      · intro _; omega
      · intro _; rfl

/-- `marshalWithoutBinders` never reports an error (it returns or panics) -/
theorem withoutBinders_no_err (m : ClientHello) : marshalWithoutBinders m ≠ .err := by
  unfold marshalWithoutBinders
  cases clientHello.ser m with
  | none => simp
  | some full => simp only; split <;> simp

/-! ### updateBinders -/

theorem sameLens_length : ∀ (a b : List Bytes), sameLens a b = true → a.length = b.length ∧ bindersLen a = bindersLen b
  | [], [], _ => ⟨rfl, rfl⟩
  | [], _ :: _, h => by simp [sameLens] at h
  | _ :: _, [], h => by simp [sameLens] at h
  | x :: a, y :: b, h => by
    simp only [sameLens, Bool.and_eq_true, beq_iff_eq] at h
    obtain ⟨h1, h2⟩ := sameLens_length a b h.2
    exact ⟨by simp [h1], by simp [bindersLen, h.1, h2]⟩

/-- what `updateBinders` does when it returns: the new binders have pairwise the lengths of the old ones, only
    `pskBinders` changes, and a cached encoding keeps its length and everything before the last `bindersLen` bytes,
    which are replaced by the `uint16`-prefixed list of `uint8`-prefixed new binders. -/
theorem updateBinders_ok (m m' : ClientHello) (raw raw' : Option Bytes) (new : List Bytes)
    (h : updateBinders m raw new = .ok (m', raw')) :
    sameLens new m.pskBinders = true ∧ m' = { m with pskBinders := new } ∧
    (raw = none → raw' = none) ∧
    (∀ r, raw = some r → ∃ e, bindersEnc.ser new = some e ∧
        raw' = some (r.take (r.length - bindersLen m.pskBinders) ++ e) ∧
        (r.take (r.length - bindersLen m.pskBinders) ++ e).length = r.length) := by
  unfold updateBinders at h
  cases hl : sameLens new m.pskBinders with
  | false => simp [hl] at h
  | true =>
    have hb := (sameLens_length _ _ hl).2
    simp only [hl, Bool.not_true, Bool.false_eq_true, if_false] at h
    cases raw with
    | none =>
      simp only [Res.ok.injEq, Prod.mk.injEq] at h
      exact ⟨rfl, h.1.symm, fun _ => h.2.symm, fun r hr => by cases hr⟩
    | some r =>
      simp only at h
      split at h
      · cases he : bindersEnc.ser new with
        | none => simp [he] at h
        | some e =>
          simp only [he] at h
          split at h
          · cases h
          · rename_i hlen
            simp only [Res.ok.injEq, Prod.mk.injEq] at h
            refine ⟨rfl, h.1.symm, (fun hr => by cases hr), fun r0 hr => ?_⟩
            cases hr
            refine ⟨e, rfl, ?_, ?_⟩
            · rw [← hb]; exact h.2.symm
            · rw [← hb]; exact Classical.not_not.mp hlen
      · cases h

/-- binders of different lengths always panic (the two explicit `length mismatch` checks) -/
theorem updateBinders_mismatch (m : ClientHello) (raw : Option Bytes) (new : List Bytes)
    (h : sameLens new m.pskBinders = false) : updateBinders m raw new = .panic := by
  simp [updateBinders, h]

/-- without a cache, equal lengths suffice: no panic, the message just gets the new binders -/
theorem updateBinders_nocache (m : ClientHello) (new : List Bytes) (h : sameLens new m.pskBinders = true) :
    updateBinders m none new = .ok ({ m with pskBinders := new }, none) := by
  simp [updateBinders, h]

/-! ### the `raw` cache seen from the parse side -/

/-- on the encoding of any value of a round-trip domain, the bytes cached by `unmarshal` are what a fresh `marshal`
    of the parsed value produces (generic in the kind; the instances below name the two hello messages) -/
theorem remarshal_canonical {α} (f : MFmt α) (D : α → Prop) (L : MLawful f D) (v : α) (bs : Bytes)
    (hv : D v) (h : f.ser v = some bs) : remarshal f bs = some (some bs) := by
  simp [remarshal, L.rt v bs hv h, h]

theorem clientHello_remarshal (m : ClientHello) (bs : Bytes) (hv : ValidCH m) (h : clientHello.ser m = some bs) :
    remarshal clientHello bs = some (some bs) := by
  simp [remarshal, clientHello_par_ser m bs hv h, h]

theorem serverHello_remarshal (m : ServerHello) (bs : Bytes) (hv : ValidSH m) (h : serverHello.ser m = some bs) :
    remarshal serverHello bs = some (some bs) := by
  simp [remarshal, serverHello_par_ser m bs hv h, h]

/-- conversely the cache is NOT canonical in general: accepted inputs whose fresh encoding differs (the skipped
    handshake header; the three body-less messages accept any four bytes).  Counter-examples, kept as proved facts. -/
example : remarshal finished [99, 0, 0, 1, 7] = some (some [20, 0, 0, 1, 7]) := by decide
example : remarshal helloRequest [0xd6, 0, 0, 0] = some (some [0, 0, 0, 0]) := by decide
example : remarshal keyUpdate [7, 7, 7, 7, 1] = some (some [24, 0, 0, 1, 1]) := by decide

/-! ### T1: the constants of tls/common.go are the tags the codecs write -/

def firstByte (o : Option Bytes) : Option Nat := o.bind (fun b => b.head?.map UInt8.toNat)

/-- first byte of every message kind with a handshake header = the generated `typeXxx` constant -/
theorem message_type_tags :
    [firstByte (helloRequest.ser ()), firstByte (clientHello.ser exCH), firstByte (serverHello.ser exSH),
     firstByte (newSessionTicket.ser (0, [])), firstByte (newSessionTicketTLS13.ser (0, 0, [], [], 0)),
     firstByte (endOfEarlyData.ser ()), firstByte (encryptedExtensions.ser []),
     firstByte (certificate.ser []), firstByte (certificateTLS13.ser (⟨[], none, none⟩, false, false)),
     firstByte (serverKeyExchange.ser []), firstByte ((certificateRequest false).ser ([1], [], [])),
     firstByte (certificateRequestTLS13.ser ⟨false, false, [], [], []⟩),
     firstByte (serverHelloDone.ser ()), firstByte ((certificateVerify false).ser (0, [])),
     firstByte (clientKeyExchange.ser []), firstByte (finished.ser ((), [])),
     firstByte (certificateStatus.ser ((), [1])), firstByte (keyUpdate.ser 0)]
    = [some Gen.typeHelloRequest, some Gen.typeClientHello, some Gen.typeServerHello,
       some Gen.typeNewSessionTicket, some Gen.typeNewSessionTicket,
       some Gen.typeEndOfEarlyData, some Gen.typeEncryptedExtensions,
       some Gen.typeCertificate, some Gen.typeCertificate,
       some Gen.typeServerKeyExchange, some Gen.typeCertificateRequest, some Gen.typeCertificateRequest,
       some Gen.typeServerHelloDone, some Gen.typeCertificateVerify,
       some Gen.typeClientKeyExchange, some Gen.typeFinished,
       some Gen.typeCertificateStatus, some Gen.typeKeyUpdate] := by decide

/-- a ClientHello with every extension switched on -/
def chAll : ClientHello :=
  { vers := 771, random := List.replicate 32 1, sessionId := [], cipherSuites := [1], compressionMethods := [0],
    serverName := [97], ocspStapling := true, supportedCurves := [29], supportedPoints := [0], ticketSupported := true,
    sessionTicket := [], sigAlgs := [0x0804], sigAlgsCert := [0x0804], secureRenegotiationSupported := true,
    secureRenegotiation := [], extendedRandomEnabled := true, extendedRandom := [1], extendedMasterSecret := true,
    alpnProtocols := [[104]], scts := true, supportedVersions := [772], cookie := [1], keyShares := [(29, [1])],
    earlyData := true, pskModes := [1], pskIdentities := [([1], 0)], pskBinders := [[2]] }

/-- the extension numbers `clientHelloMsg.marshal` writes, in order, are the generated `extensionXxx` constants -/
theorem clientHello_extension_tags :
    (chExts chAll).map (fun es => es.map Prod.fst) =
      some [Gen.extensionServerName, Gen.extensionStatusRequest, Gen.extensionSupportedCurves, Gen.extensionSupportedPoints,
            Gen.extensionSessionTicket, Gen.extensionSignatureAlgorithms, Gen.extensionSignatureAlgorithmsCert,
            Gen.extensionRenegotiationInfo, Gen.extensionALPN, Gen.extensionExtendedRandom, Gen.extensionExtendedMasterSecret,
            Gen.extensionSCT, Gen.extensionSupportedVersions, Gen.extensionCookie, Gen.extensionKeyShare,
            Gen.extensionEarlyData, Gen.extensionPSKModes, Gen.extensionPreSharedKey] := by decide

/-- a ServerHello with every extension switched on -/
def shAll : ServerHello :=
  ⟨771, List.replicate 32 1, [], 0, 0, true, true, true, [], true, [104], [[1]], 772, 29, [1], true, 0, [0], [1], 29, []⟩

theorem serverHello_extension_tags :
    (shExts shAll).map (fun es => es.map Prod.fst) =
      some [Gen.extensionStatusRequest, Gen.extensionSessionTicket, Gen.extensionRenegotiationInfo, Gen.extensionALPN,
            Gen.extensionSCT, Gen.extensionSupportedVersions, Gen.extensionKeyShare, Gen.extensionPreSharedKey,
            Gen.extensionCookie, Gen.extensionKeyShare, Gen.extensionSupportedPoints, Gen.extensionExtendedMasterSecret] := by decide

theorem certificateRequestTLS13_extension_tags :
    (certReq13Exts ⟨true, true, [1], [1], [[1]]⟩).map (fun es => es.map Prod.fst) =
      some [Gen.extensionStatusRequest, Gen.extensionSCT, Gen.extensionSignatureAlgorithms,
            Gen.extensionSignatureAlgorithmsCert, Gen.extensionCertificateAuthorities] := by decide

/-! ### the hypotheses are satisfiable -/
def chPsk : ClientHello :=
  { ClientHello.empty with random := List.replicate 32 7, pskIdentities := [([1], 0)], pskBinders := [[2]] }
set_option maxRecDepth 8000 in
example : (marshalWithoutBinders chPsk).isOk = true := by decide
example : sameLens [[9]] chPsk.pskBinders = true := by decide
set_option maxRecDepth 8000 in
example : (updateScenario chPsk true [[9]]).isOk = true := by decide
example : sameLens [[9, 9]] chPsk.pskBinders = false := by decide
example : ValidCH chAll :=
  ⟨by simp [chAll], by simp [chAll], by simp [chAll], by simp [chAll], by simp [chAll], by simp [chAll],
   by simp [chAll], by simp [chAll], by simp [chAll], by simp [chAll]⟩

end ZV.C30
