import ZV.Proofs.C04
/-!
  C04 — certificate issuance round-trips through parsing: theorems about the model of `buildExtensions`
  and of the matching arms of `parseCertificate` (`ZV.Model.C04`), which T2 ties to the Go code by comparing,
  for every generated template, the extension list Go produced (OID, critical, value bytes) and the parsed
  field vector with what the model builds and parses.
-/
namespace ZV.C04
open ZV ZV.Der ZV.C06

/-- T1: every native ExtKeyUsage maps to an OID that `ekuConstants` maps back to the same constant
    (`oidFromExtKeyUsage` then `extKeyUsageFromOID` is the identity on the table `buildExtensions` uses). -/
theorem native_eku_roundtrip :
    ∀ p ∈ ZV.Generated.C04.nativeEku,
      (ZV.Generated.C04.ekuConstants.find? (fun q => q.1 == p.2)).map (·.2) = some p.1 := by
  decide

/-- T1: no two native ExtKeyUsage constants share an OID or a constant (the EKU round trip is injective). -/
theorem native_eku_injective :
    (ZV.Generated.C04.nativeEku.map (·.1)).Nodup ∧ (ZV.Generated.C04.nativeEku.map (·.2)).Nodup := by
  decide

/-- SubjectKeyId: `parse (build id) = id` for every key id (shorter than 2^31 octets). -/
theorem ext_roundtrip_ski (id : Bytes) (h : id.length < 2147483648) : parseSKI (buildSKI id) = .ok id := by
  unfold parseSKI buildSKI tlv
  rw [first_writeTLV _ _ _ (by decide) h (by simp [Want.ok, hdrOf])]
  rfl

/-- AuthorityKeyId: `SEQUENCE { [0] id }` parses back to `id`. -/
theorem ext_roundtrip_aki (id : Bytes) (h : id.length < 2147483000) : parseAKI (buildAKI id) = .ok id := by
  unfold parseAKI buildAKI tlv
  have hl : (writeTLV 0x80 id).length < 2147483648 := by
    have := encLen_length id.length
    rw [writeTLV_length]; omega
  rw [first_writeTLV _ _ _ (by decide) hl (by simp [Want.ok, hdrOf])]
  simp only
  have := field_writeTLV (.ctx 0 false) true 0x80 id [] (by decide) (by omega) (by simp [Want.ok, hdrOf])
  simp only [List.append_nil] at this
  rw [this]
  rfl

set_option maxRecDepth 1000000 in
/-- kernel-evaluated exhaustive check over the whole 9-bit domain -/
theorem keyusage_all :
    (List.range 512).all (fun ku => ku == 0 || decide (parseKeyUsage (buildKeyUsage ku) = .ok ku)) = true := by
  decide

/-- KeyUsage: for EVERY key usage value in the 9-bit domain (1..511) the trimmed BIT STRING parses back to
    the same nine bits (exhaustive over the finite domain). -/
theorem ext_roundtrip_keyusage (ku : Nat) (h0 : ku ≠ 0) (h1 : ku < 512) :
    parseKeyUsage (buildKeyUsage ku) = .ok ku := by
  have h := keyusage_all
  rw [List.all_eq_true] at h
  have := h ku (List.mem_range.mpr h1)
  simp [h0] at this
  exact this

/-- The `MaxPathLen` / `MaxPathLenZero` rule. -/
theorem maxpathlen_rule (mpl : Int) (zero : Bool) :
    effectiveMaxPathLen mpl zero = (if mpl = 0 then (if zero then 0 else -1) else mpl) := by
  unfold effectiveMaxPathLen
  cases zero <;> simp <;> split <;> simp_all

set_option maxRecDepth 1000000 in
theorem basic_constraints_all :
    (List.range 132).all (fun n => [true, false].all (fun ca => [true, false].all (fun z =>
      decide (parseBasicConstraints (buildBasicConstraints ca ((n : Int) - 1) z)
        = .ok (ca, effectiveMaxPathLen ((n : Int) - 1) z))))) = true := by
  decide

-- FULL: ∀ isCA zero (mpl : Int), -1 ≤ mpl → mpl < 2^63 →
--         parseBasicConstraints (buildBasicConstraints isCA mpl zero) = .ok (isCA, effectiveMaxPathLen mpl zero)
-- (missing: the general INTEGER encode/decode lemma `parseInt64 (encInt m) = ok m`; proved below exhaustively for
--  every path length -1..130, which spans the one-/two-octet INTEGER boundary at 127/128.)
/-- BasicConstraints: `parse (build isCA mpl zero) = (isCA, effective mpl)` where "unset" (0 without
    `MaxPathLenZero`) comes back as -1 — for all flags and every path length in -1..130. -/
theorem ext_roundtrip_basic_constraints_partial (ca z : Bool) (mpl : Int) (h0 : -1 ≤ mpl) (h1 : mpl ≤ 130) :
    parseBasicConstraints (buildBasicConstraints ca mpl z) = .ok (ca, effectiveMaxPathLen mpl z) := by
  have h := basic_constraints_all
  rw [List.all_eq_true] at h
  have hn := h (mpl + 1).toNat (List.mem_range.mpr (by omega))
  rw [List.all_eq_true] at hn
  have hc := hn ca (by cases ca <;> simp)
  rw [List.all_eq_true] at hc
  have hz := hc z (by cases z <;> simp)
  have e : (((mpl + 1).toNat : Nat) : Int) - 1 = mpl := by omega
  rw [e] at hz
  simpa using hz

/-- ExtraExtensions override rule: the result is `generated ++ ExtraExtensions`, in that order, and no generated
    extension carries an OID that occurs in `ExtraExtensions`. -/
theorem extra_override (tbl : List (Nat × List Nat)) (t : Tmpl) (exts : List Ext)
    (h : buildExtensions tbl t = .ok exts) :
    ∃ gens, exts = gens ++ t.extra ∧ ∀ g ∈ gens, inExtra g.oid t.extra = false := by
  unfold buildExtensions at h
  simp only at h
  split at h
  · cases h
  · split at h
    · rename_i gens hg
      simp at h; subst h
      refine ⟨gens, rfl, ?_⟩
      intro g hgm
      obtain ⟨r, hr, lr, e, hm⟩ := catRes_mem hg g hgm
      simp only [List.mem_cons, List.mem_nil_iff, or_false] at hr
      rcases hr with hr | hr | hr | hr | hr | hr | hr | hr | hr | hr <;>
        (subst hr; have := gen_mem e g hm; rw [this.1]; exact this.2)
    · cases h
    · cases h

end ZV.C04
