import ZV.Proofs.C04
import ZV.Proofs.C04Steps
import ZV.Proofs.C04NC
import ZV.Proofs.C04Val
/-!
  C04 — certificate issuance round-trips through parsing: theorems about the model of `buildExtensions`
  and of the matching arms of `parseCertificate` (`ZV.Model.C04`), which T2 ties to the Go code by comparing,
  for every generated template, the extension list Go produced (OID, critical, value bytes) and the parsed
  field vector with what the model builds and parses.
-/
namespace ZV.C04
open ZV ZV.Der ZV.C06

/-- T1: every native ExtKeyUsage maps to an OID that `ekuConstants` maps back to the same constant
    (`oidFromExtKeyUsage` then `extKeyUsageFromOID` is the identity on the table `buildExtensions` uses). -/
theorem native_eku_roundtrip :
    ∀ p ∈ ZV.Generated.C04.nativeEku,
      (ZV.Generated.C04.ekuConstants.find? (fun q => q.1 == p.2)).map (·.2) = some p.1 := by
  decide

/-- T1: no two native ExtKeyUsage constants share an OID or a constant (the EKU round trip is injective). -/
theorem native_eku_injective :
    (ZV.Generated.C04.nativeEku.map (·.1)).Nodup ∧ (ZV.Generated.C04.nativeEku.map (·.2)).Nodup := by
  decide

/-- SubjectKeyId: `parse (build id) = id` for every key id (shorter than 2^31 octets). -/
theorem ext_roundtrip_ski (id : Bytes) (h : id.length < 2147483648) : parseSKI (buildSKI id) = .ok id := by
  unfold parseSKI buildSKI tlv
  rw [first_writeTLV _ _ _ (by decide) h (by simp [Want.ok, hdrOf])]
  rfl

/-- AuthorityKeyId: `SEQUENCE { [0] id }` parses back to `id`. -/
theorem ext_roundtrip_aki (id : Bytes) (h : id.length < 2147483000) : parseAKI (buildAKI id) = .ok id := by
  unfold parseAKI buildAKI tlv
  have hl : (writeTLV 0x80 id).length < 2147483648 := by
    have := encLen_length id.length
    rw [writeTLV_length]; omega
  rw [first_writeTLV _ _ _ (by decide) hl (by simp [Want.ok, hdrOf])]
  simp only
  have := field_writeTLV (.ctx 0 false) true 0x80 id [] (by decide) (by omega) (by simp [Want.ok, hdrOf])
  simp only [List.append_nil] at this
  rw [this]
  rfl

/-- kernel-evaluated exhaustive check over the whole 9-bit domain (evaluated once, in `ZV.Proofs.C04KU`) -/
theorem keyusage_all :
    (List.range 512).all (fun ku => ku == 0 || decide (parseKeyUsage (buildKeyUsage ku) = .ok ku)) = true :=
  keyusage_all_eval

/-- KeyUsage: for EVERY key usage value in the 9-bit domain (1..511) the trimmed BIT STRING parses back to
    the same nine bits (exhaustive over the finite domain). -/
theorem ext_roundtrip_keyusage (ku : Nat) (h0 : ku ≠ 0) (h1 : ku < 512) :
    parseKeyUsage (buildKeyUsage ku) = .ok ku := by
  have h := keyusage_all
  rw [List.all_eq_true] at h
  have := h ku (List.mem_range.mpr h1)
  simp [h0] at this
  exact this

/-- The `MaxPathLen` / `MaxPathLenZero` rule. -/
theorem maxpathlen_rule (mpl : Int) (zero : Bool) :
    effectiveMaxPathLen mpl zero = (if mpl = 0 then (if zero then 0 else -1) else mpl) := by
  unfold effectiveMaxPathLen
  cases zero <;> simp <;> split <;> simp_all

set_option maxRecDepth 1000000 in
theorem basic_constraints_all :
    (List.range 132).all (fun n => [true, false].all (fun ca => [true, false].all (fun z =>
      decide (parseBasicConstraints (buildBasicConstraints ca ((n : Int) - 1) z)
        = .ok (ca, effectiveMaxPathLen ((n : Int) - 1) z))))) = true := by
  decide

/-- **DER INTEGER (int64)**: `parseInt64 (encInt v) = v` for every 64-bit `v` — `encInt` writes the minimal
    two's-complement octets (`checkInteger` accepts them) and at most eight of them.  (General lemma for any width:
    `ZV.C04.int_roundtrip`, on `ZV.Der.int_decode`.) -/
theorem int64_roundtrip (v : Int) (h1 : -9223372036854775808 ≤ v) (h2 : v ≤ 9223372036854775807) :
    parseInt64 (encInt v) = .ok v ∧ checkInteger (encInt v) = true ∧ (encInt v).length ≤ 8 := by
  have h := parseInt64_encInt v h1 h2
  have h' := h
  unfold parseInt64 at h'
  cases hc : checkInteger (encInt v) with
  | false => simp [hc] at h'
  | true =>
    refine ⟨h, rfl, ?_⟩
    apply Decidable.byContradiction
    intro hl
    have hl' : (encInt v).length > 8 := by omega
    simp [hc, hl'] at h'

/-- **BasicConstraints, full**: `parse (build isCA mpl zero) = (isCA, effective mpl)` where "unset" (0 without
    `MaxPathLenZero`) comes back as -1 — for both flags and EVERY `MaxPathLen` a Go `int` can hold (the builder has no
    range check: negative values below -1 are written as negative INTEGERs and come back unchanged). -/
theorem ext_roundtrip_basic_constraints (ca z : Bool) (mpl : Int)
    (h0 : -9223372036854775808 ≤ mpl) (h1 : mpl ≤ 9223372036854775807) :
    parseBasicConstraints (buildBasicConstraints ca mpl z) = .ok (ca, effectiveMaxPathLen mpl z) :=
  parseBasicConstraints_build ca z mpl h0 h1

example : (-9223372036854775808 : Int) ≤ 1000000 ∧ (1000000 : Int) ≤ 9223372036854775807 := by decide

/-- ExtraExtensions override rule: the result is `generated ++ ExtraExtensions`, in that order, and no generated
    extension carries an OID that occurs in `ExtraExtensions`. -/
theorem extra_override (tbl : List (Nat × List Nat)) (t : Tmpl) (exts : List Ext)
    (h : buildExtensions tbl t = .ok exts) :
    ∃ gens, exts = gens ++ t.extra ∧ ∀ g ∈ gens, inExtra g.oid t.extra = false := by
  unfold buildExtensions at h
  simp only at h
  split at h
  · cases h
  · split at h
    · rename_i gens hg
      simp at h; subst h
      refine ⟨gens, rfl, ?_⟩
      intro g hgm
      obtain ⟨r, hr, lr, e, hm⟩ := catRes_mem hg g hgm
      simp only [List.mem_cons, List.mem_nil_iff, or_false] at hr
      rcases hr with hr | hr | hr | hr | hr | hr | hr | hr | hr | hr <;>
        (subst hr; have := gen_mem e g hm; rw [this.1]; exact this.2)
    · cases h
    · cases h

/-! ### OBJECT IDENTIFIER contents -/

/-- what `marshalObjectIdentifier` writes is accepted by `parseObjectIdentifier`, for every OID whose
    sub-identifiers (first two arcs merged) do not exceed MaxInt32. -/
theorem oid_contents_valid (o : List Nat) (c : Bytes) (h : encOID o = some c) (hok : oidOk o = true) :
    validOID c = true := validOID_encOID h hok

/-- `decode (encode oid) = oid` with the arc decoder of the driver (`parseObjectIdentifier`'s split of the first
    sub-identifier), hence the encoding is injective on the accepted domain. -/
theorem oid_roundtrip (o : List Nat) (c : Bytes) (h : encOID o = some c) (hok : oidOk o = true) :
    decOID c = some o := decOID_encOID h hok

theorem oid_encode_injective (o1 o2 : List Nat) (c : Bytes) (h1 : encOID o1 = some c) (h2 : encOID o2 = some c)
    (k1 : oidOk o1 = true) (k2 : oidOk o2 = true) : o1 = o2 := encOID_inj h1 h2 k1 k2

example : encOID [1, 3, 6, 1, 4, 1, 11129, 2, 4, 2] = some [0x2b, 6, 1, 4, 1, 0xd6, 0x79, 2, 4, 2]
    ∧ oidOk [1, 3, 6, 1, 4, 1, 11129, 2, 4, 2] = true := by decide

/-- T1: every OID of the native EKU table is inside that domain. -/
theorem native_eku_oids_ok : ZV.Generated.C04.nativeEku.all (fun p => oidOk p.2) = true := by decide

/-! ### the list-valued extensions -/

/-- ExtKeyUsage: the `SEQUENCE OF OBJECT IDENTIFIER` the builder writes for ANY list of OIDs parses back to the list of
    their content octets, in order (`oidContents oids`, whose elements decode to the OIDs by `oid_roundtrip`). -/
theorem ext_roundtrip_eku (oids : List (List Nat)) (body : Bytes) (h : encOIDs oids = some body)
    (hok : ∀ o ∈ oids, oidOk o = true) (hlen : (tlv 0x30 body).length < 2147483648) :
    parseEKU (tlv 0x30 body) = .ok (oidContents oids) ∧ oids.map encOID = (oidContents oids).map some :=
  ⟨parseEKU_build oids body h hok hlen, (encOIDs_eq oids body h).1⟩

example : encOIDs [[1, 3, 6, 1, 5, 5, 7, 3, 1], [2, 5, 29, 37, 0]]
      = some [6, 8, 0x2b, 6, 1, 5, 5, 7, 3, 1, 6, 4, 0x55, 0x1d, 0x25, 0] ∧
    (∀ o ∈ [[1, 3, 6, 1, 5, 5, 7, 3, 1], [2, 5, 29, 37, 0]], oidOk o = true) := by decide

/-- **GeneralNames**: any sequence of rfc822Name / dNSName / URI (IA5 strings carried as octets) and iPAddress names
    (4 or 16 octets) written as `[1] [2] [6] [7]` primitives parses back into the four lists, each in input order. -/
theorem general_names_roundtrip (l : List GName) (hok : ∀ g ∈ l, g.ok = true)
    (hlen : (encGNames l).length < 2147483648) :
    parseSAN (encGNames l) = .ok (l.foldl SAN.add ⟨[], [], [], []⟩) := parseSAN_enc l hok hlen

example : (∀ g ∈ [GName.uri [0x61], GName.dns [0x62], GName.ip [10, 0, 0, 1], GName.email [0x63]], g.ok = true) ∧
    [GName.uri [0x61], GName.dns [0x62], GName.ip [10, 0, 0, 1], GName.email [0x63]].foldl SAN.add ⟨[], [], [], []⟩
      = ⟨[[0x62]], [[0x63]], [[0x61]], [[10, 0, 0, 1]]⟩ := by decide

/-- **subjectAltName** as `marshalSANs` builds it (DNS names, then e-mail addresses, then IP addresses after
    `To4`): parses back to the same DNS and e-mail lists, no URIs, and the NORMALISED addresses `ips.map to4` — a
    16-octet IPv4-mapped input comes back as 4 octets (`san_ip_to4`).  Domain: every address has 4 or 16 octets
    after `To4` (any other length is written as is and rejected by the parser). -/
theorem ext_roundtrip_san (dns email ips : List Bytes)
    (hip : ∀ ip ∈ ips, (to4 ip).length = 4 ∨ (to4 ip).length = 16)
    (hlen : (buildSAN dns email ips).length < 2147483648) :
    parseSAN (buildSAN dns email ips) = .ok ⟨dns, email, [], ips.map to4⟩ := parseSAN_build dns email ips hip hlen

/-- the address-length condition of `ext_roundtrip_san` is exact: the parse result is `ok` with the normalised lists
    iff every address has 4 or 16 octets after `To4`, and a parse ERROR otherwise (the builder writes such an address
    as is; `CreateCertificate` then produces a certificate `ParseCertificate` rejects). -/
theorem san_ip_domain_exact (dns email ips : List Bytes) (hlen : (buildSAN dns email ips).length < 2147483648) :
    parseSAN (buildSAN dns email ips) =
      if ips.all (fun ip => (to4 ip).length == 4 || (to4 ip).length == 16) then .ok ⟨dns, email, [], ips.map to4⟩
      else .err := by
  split
  · rename_i h
    exact parseSAN_build dns email ips (fun ip hm => by simpa using List.all_eq_true.mp h ip hm) hlen
  · rename_i h
    apply parseSAN_build_bad dns email ips _ hlen
    have h' : ips.any (fun ip => !((to4 ip).length == 4 || (to4 ip).length == 16)) = true := by
      cases ha : ips.any (fun ip => !((to4 ip).length == 4 || (to4 ip).length == 16)) with
      | true => rfl
      | false =>
        exfalso; apply h
        rw [List.all_eq_true]
        intro ip hm
        have := List.any_eq_false.mp ha ip hm
        cases hb : ((to4 ip).length == 4 || (to4 ip).length == 16) with
        | true => rfl
        | false => simp [hb] at this
    obtain ⟨ip, hm, hb⟩ := List.any_eq_true.mp h'
    exact ⟨ip, hm, by simpa using hb⟩

example : parseSAN (buildSAN [] [] [[1, 2, 3, 4, 5]]) = .err := by decide

/-- the `To4` normalisation: `::ffff:a.b.c.d` (16 octets) becomes `a.b.c.d` (4 octets); every address without that
    prefix, of any length, is left alone; lengths 4/16 stay inside 4/16. -/
theorem san_ip_to4 (a b c d : UInt8) (ip : Bytes) :
    to4 [0, 0, 0, 0, 0, 0, 0, 0, 0, 0, 0xff, 0xff, a, b, c, d] = [a, b, c, d] ∧
    (¬ (ip.length = 16 ∧ ip.take 12 = [0, 0, 0, 0, 0, 0, 0, 0, 0, 0, 0xff, 0xff]) → to4 ip = ip) ∧
    (ip.length = 4 ∨ ip.length = 16 → (to4 ip).length = 4 ∨ (to4 ip).length = 16) :=
  ⟨to4_mapped a b c d, to4_other ip, to4_length ip⟩

example : parseSAN (buildSAN [[0x61, 0x2e, 0x62]] [] [[0, 0, 0, 0, 0, 0, 0, 0, 0, 0, 0xff, 0xff, 192, 0, 2, 1]])
    = .ok ⟨[[0x61, 0x2e, 0x62]], [], [], [[192, 0, 2, 1]]⟩ := by decide

/-- AuthorityInfoAccess: the builder never fails, and `(OCSPServer, IssuingCertificateURL)` come back unchanged, in
    order, for all lists of locations. -/
theorem ext_roundtrip_aia (ocsp issuing : List Bytes) :
    ∃ v, buildAIA ocsp issuing = some v ∧ (v.length < 2147483648 → parseAIA v = .ok (ocsp, issuing)) :=
  ⟨_, buildAIA_eq ocsp issuing, fun hl => parseAIA_build ocsp issuing _ (buildAIA_eq ocsp issuing) hl⟩

/-- CRLDistributionPoints: one `DistributionPoint { [0] { [0] { [6] url } } }` per URL, parsed back to the URL list. -/
theorem ext_roundtrip_crldp (urls : List Bytes) (hlen : (buildCRLDP urls).length < 2147483648) :
    parseCRLDP (buildCRLDP urls) = .ok urls := parseCRLDP_build urls hlen

/-- CertificatePolicies: the policy identifiers come back as their content octets, in order. -/
theorem ext_roundtrip_policies (ps : List (List Nat)) (v : Bytes) (h : buildPolicies ps = some v)
    (hok : ∀ o ∈ ps, oidOk o = true) (hlen : v.length < 2147483648) :
    parsePolicies v = .ok (oidContents ps) := parsePolicies_build ps v h hok hlen

example : buildPolicies [[2, 23, 140, 1, 2, 1]] = some [0x30, 10, 0x30, 8, 6, 6, 0x67, 0x81, 0x0c, 1, 2, 1]
    ∧ oidOk [2, 23, 140, 1, 2, 1] = true := by decide

/-! ### name constraints (byte level) -/

/-- **NameConstraints round trip.**  For every template (any number of permitted / excluded e-mail, DNS, directory-name
    and IP-range subtrees, any octets as e-mail / DNS data, critical or not) whose directory names are DER the RDN
    decoder accepts (`rdnOK`, the parser's `asn1.Unmarshal(Value.Bytes, &rawdn)`; in the driver the C22 decoder) and whose
    IP ranges have address and mask both of 4 or both of 16 octets: `case 30` of `parseCertificate` applied to the value
    `buildExtensions` writes returns exactly the template's eight lists, each in order, with Min = Max = 0. -/
theorem ext_roundtrip_name_constraints (rdnOK : Bytes → Bool) (n : NCT)
    (hok : ∀ b ∈ n.permitted.bases ++ n.excluded.bases, b.ok rdnOK = true)
    (hlen : (buildNC n).length < 2147483648) :
    parseNC rdnOK (buildNC n) = .ok (n.permitted.out, n.excluded.out) := parseNC_build rdnOK n hok hlen

/-- a template using all four name forms on both sides -/
def sampleNC : NCT :=
  ⟨true, { email := [[0x61]], dns := [[0x62], []], dir := [[0x30, 0]], ip := [([192, 0, 2, 0], [255, 255, 255, 0])] },
         { dns := [[0x63]], ip := [([0x20, 1, 0x0d, 0xb8, 0, 0, 0, 0, 0, 0, 0, 0, 0, 0, 0, 0],
                                   [255, 255, 255, 255, 0, 0, 0, 0, 0, 0, 0, 0, 0, 0, 0, 0])] }⟩

example : (∀ b ∈ sampleNC.permitted.bases ++ sampleNC.excluded.bases, b.ok (fun d => d == [0x30, 0]) = true) ∧
    (buildNC sampleNC).length < 2147483648 := by decide

/-- D41: the value of an IP-range subtree is the TEMPLATE's address followed by the TEMPLATE's mask, as
    `[7]` primitive inside the subtree SEQUENCE (no Min, no Max). -/
theorem nc_ip_value (a m : Bytes) : encSubtree (.ip a m) = tlv 0x30 (tlv 0x87 (a ++ m)) := rfl

/-- the IP-range domain is needed: the parser splits the octets in the middle, so a range whose address and mask have
    different lengths that add up to 8 comes back as a DIFFERENT (address, mask) pair … -/
example : parseNC (fun _ => true) (buildNC ⟨false, { ip := [([1, 2], [3, 4, 5, 6, 7, 8])] }, {}⟩)
    = .ok ({ ip := [([1, 2, 3, 4], [5, 6, 7, 8], 0, 0)] }, {}) := by decide

/-- … and any other total length makes `ParseCertificate` reject the certificate `CreateCertificate` produced. -/
example : parseNC (fun _ => true) (buildNC ⟨false, {}, { ip := [([10, 0, 0], [255, 255, 255, 0])] }⟩) = .err := by decide

/-- the extension is written iff one of the eight lists is non-empty (`NCT.present`, the guard of the block). -/
theorem nc_present_iff (n : NCT) :
    n.present = false ↔ (n.permitted = {} ∧ n.excluded = {}) := by
  have hs : ∀ s : NCSide, s.bases.isEmpty = true ↔ s = {} := by
    intro s
    cases s with
    | mk e d r i =>
      simp only [NCSide.bases, List.isEmpty_iff, List.append_eq_nil_iff, List.map_eq_nil_iff]
      constructor
      · rintro ⟨⟨⟨rfl, rfl⟩, rfl⟩, rfl⟩; rfl
      · intro h; cases h; exact ⟨⟨⟨rfl, rfl⟩, rfl⟩, rfl⟩
  simp only [NCT.present, Bool.or_eq_false_iff, Bool.not_eq_false', hs]

/-! ### validity and serial number -/

/-- **Validity, to the second.**  For every NotBefore / NotAfter (any zone offset, any nanoseconds) whose year IN UTC
    is 0..9999, `CreateCertificate`'s `validity{NotBefore.UTC(), NotAfter.UTC()}` marshals (UTCTime for 1950..2049,
    GeneralizedTime otherwise, chosen per time) and the parser returns for each the SAME instant truncated to the second
    (`unix` unchanged, nanoseconds 0) in UTC (offset 0). -/
theorem validity_roundtrip (nb na : ZV.Time.GoTime)
    (hb0 : 0 ≤ (toUTC nb).year) (hb1 : (toUTC nb).year ≤ 9999) (ha0 : 0 ≤ (toUTC na).year) (ha1 : (toUTC na).year ≤ 9999) :
    ∃ der, buildValidity nb na = .ok der ∧ parseValidity der = .ok (⟨nb.unix, 0, 0⟩, ⟨na.unix, 0, 0⟩) :=
  parseValidity_build nb na hb0 hb1 ha0 ha1

/-- 2049-12-31T23:59:59.5+01:00 (UTCTime) .. 2050-01-01T00:00:00Z (GeneralizedTime) -/
example : (0 : Int) ≤ (toUTC ⟨2524607999 - 3600, 3600, 500000000⟩).year ∧ (toUTC ⟨2524607999 - 3600, 3600, 500000000⟩).year ≤ 9999 ∧
    (0 : Int) ≤ (toUTC ⟨2524608000, 0, 0⟩).year ∧ (toUTC ⟨2524608000, 0, 0⟩).year ≤ 9999 := by decide

/-- outside the domain the builder fails (`CreateCertificate` returns an error): year 10000 -/
example : buildValidity ⟨0, 0, 0⟩ ⟨253402300800, 0, 0⟩ = .err := by decide

/-- **Serial number.**  For EVERY integer (zcrypto's CreateCertificate has no sign check: a negative serial is written
    as it is; only a nil serial is an error — T3 line `valnil`) the INTEGER contents `marshalBigInt` writes are minimal
    two's complement (`checkInteger`) and `parseBigInt` reads the same integer back; in particular for every
    non-negative serial. -/
theorem serial_roundtrip (v : Int) : parseSerial (encSerial v) = .ok v ∧ checkInteger (encSerial v) = true :=
  parseSerial_encSerial v

example : encSerial 128 = [0, 128] ∧ encSerial 127 = [127] ∧ encSerial (-129) = [0xff, 0x7f] ∧ encSerial 0 = [0] := by decide

/-! ### the assembled extension list -/

/-- **build_parse_all**: for every template of the documented domain (`Tmpl.inDomain`: nine key-usage bits, 64-bit
    path length, OID arcs within MaxInt32, 4/16-octet addresses; extension values shorter than 2 GiB), running the
    extension loop of `parseCertificate` over the list `buildExtensions` assembled equals: start from the field vector
    `expected` of the generated extensions (every template field, normalised; zero where `ExtraExtensions` overrides
    the builder, by `extra_override`) and apply the extra extensions. -/
theorem build_parse_all (tbl : List (Nat × List Nat)) (t : Tmpl) (exts : List Ext)
    (h : buildExtensions tbl t = .ok exts) (hd : t.inDomain tbl = true)
    (hsz : ∀ x ∈ exts, x.value.length < 2147483648) :
    applyExts {} exts = applyExts (expected tbl t) t.extra := applyExts_buildExtensions tbl t h hd hsz

/-- … and when no extra extension carries one of the nine modelled OIDs, the result is exactly the template's field
    vector. -/
theorem build_parse_all_plain (tbl : List (Nat × List Nat)) (t : Tmpl) (exts : List Ext)
    (h : buildExtensions tbl t = .ok exts) (hd : t.inDomain tbl = true)
    (hsz : ∀ x ∈ exts, x.value.length < 2147483648) (hx : ∀ x ∈ t.extra, x.oid ∉ modelled) :
    applyExts {} exts = .ok (templateFields tbl t) := by
  rw [build_parse_all tbl t exts h hd hsz, applyExts_other _ _ hx, expected_eq_templateFields tbl t hx]

/-- a template exercising every builder, with an unmodelled extra extension -/
def sampleTmpl : Tmpl :=
  { keyUsage := 5, eku := (ZV.Generated.C04.nativeEku.take 1).map (·.1), unknownEku := [[1, 2, 3]], bcValid := true, isCA := true, maxPathLen := 300,
    maxPathLenZero := false, ski := [1, 2], aki := [3], ocsp := [[0x68]], issuing := [[0x69]], dns := [[0x61]],
    email := [[0x62]], ips := [[0, 0, 0, 0, 0, 0, 0, 0, 0, 0, 0xff, 0xff, 10, 0, 0, 1]], policies := [[2, 5, 29, 32, 0]],
    nc := some (true, [0x30, 0]), crldp := [[0x6a]], extra := [⟨[1, 2, 3, 4], false, [5, 0]⟩] }

example : sampleTmpl.inDomain ZV.Generated.C04.nativeEku = true ∧
    (∀ x ∈ sampleTmpl.extra, x.oid ∉ modelled) ∧
    (buildExtensions ZV.Generated.C04.nativeEku sampleTmpl).map
      (fun exts => exts.length == 11 && exts.all (fun x => decide (x.value.length < 2147483648))) = .ok true := by
  decide

end ZV.C04
